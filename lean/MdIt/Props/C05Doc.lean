/-
  C05 at whole-document level: the source ranges of the tree `parseDoc` returns
  (`Model/Pipeline.lean`; html-free configurations, any subset / order of the nine cmark block rules
  and the inline rules, any `max_nesting`, with and without `sourcepos`).

  Property theorems (namespace `MdIt.Pipeline`), each conditional only on `parseDoc … = .ok t`:
    `doc_root_range`      `t.range = some (0, |src|)` — all documents, no hypothesis.
    `doc_block_skeleton`  the tree of BLOCK nodes of `t` with their ranges (`bskel t`) is that of the
                          block pass (`bskelB root`): splice walk, `FragmentsJoin` and `SyntaxPosRule`
                          neither move, add, drop nor re-range a block node.
    `doc_block_ranges`    `RangedRT src (bskel t)`: every block node has a range `(a, b)`,
                          `a ≤ b ≤ |src|`, both ends on character boundaries; the ranges of its
                          block children lie inside `[a, b]`, in source order, each starting at or
                          behind the end of the previous one; at every depth
                          (`RangedRT.child_within`, `OrderedRT.mem` spell the enclosure out).
                          Hypothesis: `4·|src| + 8 < 2³¹` — `indent_nonspace` / `blk_indent` are `i32`
                          in the Rust and `get_lines` casts `indent as i32` (`Lines.usizeAsI32`).
    `rangesOk_bskel`      `doc_block_ranges` is exactly the projection of the complete property
                          `RangesOk` (root, validity, enclosure, order, text faithfulness on EVERY
                          node) to the block skeleton — sanity of the statement.
  Block-pass theorem behind it (namespace `MdIt.Block`), by the induction scheme of `parseBlocks_wf`:
    `parseBlocks_geo`     for ANY claim `P` about placeholders that their producers establish
                          (`InlSpec`): the root is `(0, |src|)` and every node is `RangedB P`
                          (`tokenize_geo`, `runRule_geo`, `<rule>_geo`, `tokLoop_geo`).
  Ingredients that may be cited: `Geo` (table invariant: `TableOk`, lines in source order, indent ≤ 4
  columns per blank byte), `bqScan_refines` / `Refines` (containers keep the line spans and move
  `first_nonspace` to the right only), `Lines.calcRightWs_ge` (asking `get_lines` for at most the
  columns behind a prefix never cuts into the prefix) with `bqRewrite_cut` / `itemRewrite_cut` (an
  indented code block on the first line of a quote / list item starts behind the marker),
  `markTight_geo`, `tightenItems_geo`.

  FINDING (witness `example` near the end, confirmed on the crate): without the paragraph rule the
  no-paragraph fallback of `BlockParser::tokenize` produces inline ranges OUTSIDE the source:
  `md.parse("a")` (block rules: `hr` only; inline: text, newline) → `Softbreak (1, 2)` under
  `Root (0, 1)`; with CR LF the softbreak covers the `\r` only.
  OPEN (block comment at the end): `doc_inline_ranges`, `doc_text_faithful` = the rest of `RangesOk`.
-/
import MdIt.Props.Pipeline
import MdIt.Props.C05

/-! # Part 0: two facts about columns -/

namespace MdIt.Lines

/-- asking for at most the columns `b` occupies behind `a` never cuts into `a` -/
theorem calcGo_ge (a : List Char) (rb : List Char) (k : Int) (start : Nat)
    (hs : start = byteLen a + byteLen rb)
    (hk : k ≤ (widthFrom (indentWidth a) rb.reverse : Int) - (indentWidth a : Int)) :
    byteLen a ≤ (calcGo k start (rb ++ a.reverse)).2 := by
  induction rb generalizing start k with
  | nil =>
    simp only [List.reverse_nil, widthFrom, List.foldl_nil, Int.sub_self, List.nil_append] at hk ⊢
    subst hs
    cases a.reverse with
    | nil => simp only [calcGo]; rw [if_neg (by omega)]; simp
    | cons c r => simp only [calcGo]; rw [if_neg (by omega)]; simp
  | cons c rb' ih =>
    have hcong : countUntil '\t' (rb' ++ a.reverse) % 4
        = widthFrom (indentWidth a) rb'.reverse % 4 := by
      have := countUntil_tab_mod (rb' ++ a.reverse)
      rw [List.reverse_append, List.reverse_reverse, indentWidth_append] at this
      exact this
    have hge := widthFrom_ge (indentWidth a) rb'.reverse
    rw [List.reverse_cons, widthFrom_append] at hk
    generalize widthFrom (indentWidth a) rb'.reverse = w' at *
    simp only [widthFrom, List.foldl_cons, List.foldl_nil] at hk
    simp only [List.cons_append, calcGo]
    have hstart : byteLen a ≤ start := by omega
    by_cases hpos : k > 0
    · rw [if_pos hpos]
      by_cases hc : c = '\t'
      · subst hc
        simp only [colStep, if_true] at hk
        simp only [if_true]
        rw [hcong]
        split
        · exact hstart
        · exact ih _ _ (by simp; omega) (by omega)
      · simp only [colStep, if_neg hc] at hk
        rw [if_neg hc]
        exact ih _ _ (by simp; omega) (by omega)
    · rw [if_neg hpos]; exact hstart

theorem calcRightWs_ge (a b : List Char) (k : Int)
    (hk : k ≤ (indentWidth (a ++ b) : Int) - (indentWidth a : Int)) :
    byteLen a ≤ (calcRightWs (a ++ b) k).2 := by
  unfold calcRightWs
  rw [List.reverse_append]
  rw [indentWidth_append] at hk
  have := calcGo_ge a b.reverse k (byteLen (a ++ b)) (by simp) (by rw [List.reverse_reverse]; exact hk)
  exact this

theorem widthFrom_le (col : Nat) (l : List Char) : widthFrom col l ≤ col + 4 * l.length := by
  induction l generalizing col with
  | nil => simp [widthFrom]
  | cons c r ih =>
    have h2 := ih (colStep col c)
    simp only [widthFrom, List.foldl_cons, List.length_cons] at h2 ⊢
    have : colStep col c ≤ col + 4 := by unfold colStep; split <;> omega
    omega

end MdIt.Lines

namespace MdIt.Block
open MdIt.Lines (LineOffset)

/-! # Part A: the geometry of the block tree -/

/-! ## positions -/

/-- `x` is a character boundary of `src` (hence `x ≤ |src|`) -/
def Bd (src : List Char) (x : Nat) : Prop := ∃ p q, src = p ++ q ∧ Lines.byteLen p = x

theorem Bd.le {src : List Char} {x : Nat} (h : Bd src x) : x ≤ Lines.byteLen src := by
  obtain ⟨p, q, rfl, rfl⟩ := h
  simp

theorem Bd.onBoundary {src : List Char} {x : Nat} (h : Bd src x) : Lines.onBoundary src x = true :=
  Lines.onBoundary_iff.mpr h

theorem LineOk.bounds {src : List Char} {o : LineOffset} (h : LineOk src o) :
    o.lineStart ≤ o.firstNonspace ∧ o.firstNonspace ≤ o.lineEnd ∧ o.lineEnd ≤ Lines.byteLen src := by
  obtain ⟨p, a, b, q, hsrc, hp, hfn, hle, _, _⟩ := h
  have := congrArg Lines.byteLen hsrc
  simp at this
  omega

theorem LineOk.bd {src : List Char} {o : LineOffset} (h : LineOk src o) :
    Bd src o.lineStart ∧ Bd src o.firstNonspace ∧ Bd src o.lineEnd := by
  obtain ⟨p, a, b, q, hsrc, hp, hfn, hle, _, _⟩ := h
  refine ⟨⟨p, a ++ b ++ q, by rw [hsrc]; simp, hp⟩, ⟨p ++ a, b ++ q, by rw [hsrc]; simp, ?_⟩,
    ⟨p ++ a ++ b, q, by rw [hsrc], ?_⟩⟩
  · simp; omega
  · simp; omega

/-- the leading blanks of a line, as `get_lines` slices them -/
theorem LineOk.ws {src : List Char} {o : LineOffset} (h : LineOk src o) :
    ∃ p a r, src = p ++ a ++ r ∧ Lines.byteLen p = o.lineStart ∧
      Lines.slice src o.lineStart o.firstNonspace = .ok a := by
  obtain ⟨p, a, b, q, hsrc, hp, hfn, hle, _, _⟩ := h
  refine ⟨p, a, b ++ q, by rw [hsrc]; simp, hp, ?_⟩
  exact Lines.slice_eq_ok_iff.mpr ⟨p, b ++ q, by rw [hsrc]; simp, hp, by omega⟩

/-! ## the table -/

/-- the tab-expanded indent of an entry is at most four columns per blank byte before `first_nonspace` -/
def IndOk (o : LineOffset) : Prop := o.indentNonspace ≤ ((4 * (o.firstNonspace - o.lineStart) : Nat) : Int)

def TableInd (offs : List LineOffset) : Prop := ∀ (k : Nat) (o : LineOffset), offs[k]? = some o → IndOk o

theorem TableInd.set {offs : List LineOffset} (h : TableInd offs) (m : Nat) {x : LineOffset} (hx : IndOk x) :
    TableInd (offs.set m x) := by
  intro k o ho
  simp only [List.getElem?_set] at ho
  split at ho
  · split at ho
    · cases ho; exact hx
    · cases ho
  · exact h k o ho


/-- the lines of the table follow each other in the source -/
def Sorted (offs : List LineOffset) : Prop :=
  ∀ (i j : Nat) (o o' : LineOffset), i < j → offs[i]? = some o → offs[j]? = some o' →
    o.lineEnd ≤ o'.lineStart

/-- the geometric invariant of a state: every entry cuts a line out of the source, and the lines
    are in source order -/
structure Geo (s : BState) : Prop where
  table : TableOk s
  sorted : Sorted s.offs
  ind : TableInd s.offs
  /-- `indent_nonspace`, `blk_indent` are `i32` in the Rust: the model's `usizeAsI32` is exact below -/
  small : 4 * Lines.byteLen s.src + 8 < 2147483648

theorem Geo.of_frame {s s' : BState} (h : Geo s) (hf : Frame s s') : Geo s' :=
  ⟨h.table.of_frame hf, by rw [hf.offs]; exact h.sorted, by rw [hf.offs]; exact h.ind,
    by rw [hf.src]; exact h.small⟩

theorem Geo.of_eq {s s' : BState} (h : Geo s) (h1 : s'.src = s.src) (h2 : s'.offs = s.offs) : Geo s' :=
  ⟨fun k o ho => by rw [h1]; exact h.table k o (by rw [← h2]; exact ho), by rw [h2]; exact h.sorted,
    by rw [h2]; exact h.ind, by rw [h1]; exact h.small⟩

theorem geo_fresh (src : List Char) (hsmall : 4 * Lines.byteLen src + 8 < 2147483648) (k : Kind)
    (refs : Refs.RefMap) : Geo (BState.fresh src k refs) := by
  refine ⟨tableOk_fresh src k refs, ?_, ?_, hsmall⟩
  · intro i j o o' hij hi hj
    have := Lines.offsets_increasing (Lines.split_offsets_valid src) i j o o' hij hi hj
    omega
  · intro i o ho
    simp only [BState.fresh] at ho
    obtain ⟨A, lt, B, _, _, rfl, _, _, _⟩ := Lines.split_entry ho
    have := Lines.widthFrom_le 0 (Lines.lead lt.1)
    unfold IndOk
    simp only [Lines.mkOff, Lines.indentWidth] at this ⊢
    omega

/-- ends of lines are monotone -/
theorem Geo.end_mono {s : BState} (h : Geo s) {i j : Nat} {o o' : LineOffset} (hij : i ≤ j)
    (hi : s.offs[i]? = some o) (hj : s.offs[j]? = some o') : o.lineEnd ≤ o'.lineEnd := by
  rcases Nat.lt_or_ge i j with hlt | hge
  · have h1 := h.sorted i j o o' hlt hi hj
    have h2 := (h.table j o' hj).bounds
    omega
  · have : i = j := by omega
    subst this
    rw [hi] at hj; cases hj
    exact Nat.le_refl _

/-- `offs'` has the same line spans as `offs`, with `first_nonspace` moved to the right at most -/
structure Refines (offs offs' : List LineOffset) : Prop where
  len : offs'.length = offs.length
  entry : ∀ (k : Nat) (o o' : LineOffset), offs[k]? = some o → offs'[k]? = some o' →
    o'.lineStart = o.lineStart ∧ o'.lineEnd = o.lineEnd ∧ o.firstNonspace ≤ o'.firstNonspace

theorem Refines.refl (offs : List LineOffset) : Refines offs offs :=
  ⟨rfl, fun k o o' h h' => by rw [h] at h'; cases h'; exact ⟨rfl, rfl, Nat.le_refl _⟩⟩

theorem Refines.get {offs offs' : List LineOffset} (h : Refines offs offs') {k : Nat} {o : LineOffset}
    (ho : offs[k]? = some o) : ∃ o', offs'[k]? = some o' := by
  have hk := (List.getElem?_eq_some_iff.mp ho).1
  exact ⟨offs'[k]'(by rw [h.len]; exact hk), List.getElem?_eq_getElem _⟩

theorem Refines.get' {offs offs' : List LineOffset} (h : Refines offs offs') {k : Nat} {o' : LineOffset}
    (ho : offs'[k]? = some o') : ∃ o, offs[k]? = some o := by
  have hk := (List.getElem?_eq_some_iff.mp ho).1
  exact ⟨offs[k]'(by rw [← h.len]; exact hk), List.getElem?_eq_getElem _⟩

theorem Refines.trans {a b c : List LineOffset} (h1 : Refines a b) (h2 : Refines b c) : Refines a c := by
  refine ⟨h2.len.trans h1.len, ?_⟩
  intro k o o'' ho ho''
  obtain ⟨o', ho'⟩ := h1.get ho
  have e1 := h1.entry k o o' ho ho'
  have e2 := h2.entry k o' o'' ho' ho''
  omega

theorem Refines.set {offs : List LineOffset} {m : Nat} {o x : LineOffset} (ho : offs[m]? = some o)
    (h1 : x.lineStart = o.lineStart) (h2 : x.lineEnd = o.lineEnd) (h3 : o.firstNonspace ≤ x.firstNonspace) :
    Refines offs (offs.set m x) := by
  refine ⟨by simp, ?_⟩
  intro k a a' ha ha'
  simp only [List.getElem?_set] at ha'
  split at ha'
  · rename_i hmk
    subst hmk
    split at ha'
    · cases ha'
      rw [ho] at ha; cases ha
      exact ⟨h1, h2, h3⟩
    · cases ha'
  · rw [ha] at ha'; cases ha'
    exact ⟨rfl, rfl, Nat.le_refl _⟩

theorem Refines.sorted {offs offs' : List LineOffset} (h : Refines offs offs') (hs : Sorted offs) :
    Sorted offs' := by
  intro i j o o' hij hi hj
  obtain ⟨a, ha⟩ := h.get' hi
  obtain ⟨b, hb⟩ := h.get' hj
  have e1 := h.entry i a o ha hi
  have e2 := h.entry j b o' hb hj
  have := hs i j a b hij ha hb
  omega

/-! ## ordered sibling lists

  `P content mapping a b` is what is claimed of an `InlineRoot` placeholder ("its text lies in
  `[a, b]` of the source"); the induction over the tokenizer is done once, for every `P` that the
  rules producing placeholders establish (`InlSpec`). -/

abbrev InlP := List Char → List (Nat × Nat) → Nat → Nat → Prop

/-- the span of a node: its range — or, for a placeholder (which has none), a stretch `P` accepts -/
def SpanB (P : InlP) (n : BNode) (a b : Nat) : Prop :=
  match n.range with
  | some r => r = (a, b)
  | none => ∃ c m, n.kind = .inlineRoot c m ∧ n.children = [] ∧ P c m a b

/-- consecutive spans inside `[lo, hi]` -/
def OrderedB (P : InlP) : Nat → Nat → List BNode → Prop
  | lo, hi, [] => lo ≤ hi
  | lo, hi, n :: rest => ∃ a b, SpanB P n a b ∧ lo ≤ a ∧ a ≤ b ∧ OrderedB P b hi rest

theorem OrderedB.le {P : InlP} {lo hi : Nat} {l : List BNode} (h : OrderedB P lo hi l) : lo ≤ hi := by
  induction l generalizing lo with
  | nil => exact h
  | cons n r ih =>
    obtain ⟨a, b, _, h2, h3, h4⟩ := h
    have := ih h4; omega

theorem OrderedB.widen {P : InlP} {lo hi lo' hi' : Nat} {l : List BNode} (h : OrderedB P lo hi l)
    (h1 : lo' ≤ lo) (h2 : hi ≤ hi') : OrderedB P lo' hi' l := by
  induction l generalizing lo lo' with
  | nil => simp only [OrderedB] at h ⊢; omega
  | cons x r ih =>
    obtain ⟨a, b, q1, q2, q3, q4⟩ := h
    exact ⟨a, b, q1, by omega, q3, ih q4 (Nat.le_refl _)⟩

theorem OrderedB.append {P : InlP} {lo mid hi : Nat} {l1 l2 : List BNode} (h1 : OrderedB P lo mid l1)
    (h2 : OrderedB P mid hi l2) : OrderedB P lo hi (l1 ++ l2) := by
  induction l1 generalizing lo with
  | nil => exact h2.widen h1 (Nat.le_refl _)
  | cons x r ih =>
    obtain ⟨a, b, q1, q2, q3, q4⟩ := h1
    exact ⟨a, b, q1, q2, q3, ih q4⟩

theorem OrderedB.snoc {P : InlP} {lo mid hi a b : Nat} {l : List BNode} {n : BNode}
    (h : OrderedB P lo mid l) (hr : SpanB P n a b) (h1 : mid ≤ a) (h2 : a ≤ b) (h3 : b ≤ hi) :
    OrderedB P lo hi (l ++ [n]) :=
  h.append ⟨a, b, hr, h1, h2, h3⟩

theorem spanB_range {P : InlP} {k : Kind} {a b : Nat} {cs : List BNode} :
    SpanB P ⟨k, some (a, b), cs⟩ a b := rfl

/-- every node with a range: proper, on character boundaries, its children's spans consecutive
    inside it; a node without range is a childless placeholder -/
inductive RangedB (P : InlP) (src : List Char) : BNode → Prop
  | mk (n : BNode) :
    (∀ a b, n.range = some (a, b) → a ≤ b ∧ Bd src a ∧ Bd src b ∧ OrderedB P a b n.children) →
    (n.range = none → ∃ c m, n.kind = .inlineRoot c m ∧ n.children = []) →
    (∀ c ∈ n.children, RangedB P src c) → RangedB P src n

theorem RangedB.at {P : InlP} {src : List Char} {n : BNode} (h : RangedB P src n) :
    ∀ a b, n.range = some (a, b) → a ≤ b ∧ Bd src a ∧ Bd src b ∧ OrderedB P a b n.children := by
  cases h; assumption
theorem RangedB.child {P : InlP} {src : List Char} {n : BNode} (h : RangedB P src n) :
    ∀ c ∈ n.children, RangedB P src c := by
  cases h; assumption

theorem rangedB_inl {P : InlP} {src : List Char} (c : List Char) (m : List (Nat × Nat)) :
    RangedB P src ⟨.inlineRoot c m, none, []⟩ :=
  .mk _ (fun a b h => by cases h) (fun _ => ⟨c, m, rfl, rfl⟩) (by simp)

/-- a childless block with a proper range -/
theorem rangedB_leaf {P : InlP} {src : List Char} (k : Kind) {a b : Nat} (hab : a ≤ b) (ha : Bd src a)
    (hb : Bd src b) : RangedB P src ⟨k, some (a, b), []⟩ :=
  .mk _ (fun a' b' h => by cases h; exact ⟨hab, ha, hb, hab⟩) (fun h => by cases h) (by simp)

/-- a text block: one placeholder, whose text `P` places inside the block's range -/
theorem rangedB_text {P : InlP} {src : List Char} (k : Kind) {a b : Nat} (hab : a ≤ b) (ha : Bd src a)
    (hb : Bd src b) {c : List Char} {m : List (Nat × Nat)} {a' b' : Nat} (hp : P c m a' b')
    (h1 : a ≤ a') (h2 : a' ≤ b') (h3 : b' ≤ b) :
    RangedB P src ⟨k, some (a, b), [⟨.inlineRoot c m, none, []⟩]⟩ := by
  refine .mk _ (fun x y h => ?_) (fun h => by cases h) ?_
  · cases h
    exact ⟨hab, ha, hb, a', b', ⟨c, m, rfl, rfl, hp⟩, h1, h2, h3⟩
  · intro x hx
    simp at hx; subst hx
    exact rangedB_inl c m

/-! ## the invariant of the tokenizer -/

/-- the children of the node under construction: consecutive spans from `lo` on, ending at the end
    of a line the tokenizer has already consumed; each of them `RangedB` -/
structure KidsOk (P : InlP) (s : BState) (lo : Nat) : Prop where
  ord : ∃ hi, OrderedB P lo hi s.children ∧
    (hi = lo ∨ ∃ e o, e < s.line ∧ s.offs[e]? = some o ∧ hi ≤ o.lineEnd)
  deep : ∀ c ∈ s.children, RangedB P s.src c

/-- the position at which `get_lines(.., 4 + blk_indent, ..)` starts copying line `o` (the start of
    an indented code block on that line) is at or behind `lo` -/
def CutGe (src : List Char) (blk : Nat) (o : LineOffset) (lo : Nat) : Prop :=
  ∀ ws, Lines.slice src o.lineStart o.firstNonspace = .ok ws →
    lo ≤ o.lineStart + (Lines.calcRightWs ws (o.indentNonspace - Lines.usizeAsI32 (4 + blk))).2

/-- where the next node may start: on every line still to come, `first_nonspace` and the start of
    an indented code block are at or behind `lo` -/
def StartsGe (s : BState) (lo : Nat) : Prop :=
  ∀ (k : Nat) (o : LineOffset), s.line ≤ k → s.offs[k]? = some o →
    lo ≤ o.firstNonspace ∧ CutGe s.src s.blkIndent o lo

theorem KidsOk.of_eq {P : InlP} {s s' : BState} {lo : Nat} (h : KidsOk P s lo) (h1 : s'.src = s.src)
    (h2 : s'.offs = s.offs) (h3 : s'.children = s.children) (h4 : s.line ≤ s'.line) : KidsOk P s' lo := by
  obtain ⟨⟨hi, ho, hb⟩, hd⟩ := h
  refine ⟨⟨hi, by rw [h3]; exact ho, ?_⟩, by rw [h3, h1]; exact hd⟩
  rcases hb with hb | ⟨e, o, he, hoe, hle⟩
  · exact .inl hb
  · exact .inr ⟨e, o, by omega, by rw [h2]; exact hoe, hle⟩

theorem StartsGe.of_eq {s s' : BState} {lo : Nat} (h : StartsGe s lo) (h1 : s'.src = s.src)
    (h2 : s'.offs = s.offs) (h3 : s'.blkIndent = s.blkIndent) (h4 : s.line ≤ s'.line) : StartsGe s' lo :=
  fun k o hk ho => by rw [h1, h3]; exact h k o (by omega) (by rw [← h2]; exact ho)

theorem StartsGe.of_frame {s s' : BState} {lo : Nat} (h : StartsGe s lo) (hf : Frame s s')
    (h4 : s.line ≤ s'.line) : StartsGe s' lo :=
  h.of_eq hf.src hf.offs hf.blkIndent h4

/-- pushing a node that starts on the current line `l = s.line` and ends with line `e`, the
    tokenizer moving behind `e` -/
theorem KidsOk.push {P : InlP} {s s' : BState} {lo : Nat} (h : KidsOk P s lo) (hg : Geo s) {n : BNode}
    {a b e : Nat} {ol oe : LineOffset} (hol : s.offs[s.line]? = some ol) (hoe : s.offs[e]? = some oe)
    (hle : s.line ≤ e) (hsp : SpanB P n a b) (hn : RangedB P s.src n) (hlo : lo ≤ a)
    (ha : ol.lineStart ≤ a) (hab : a ≤ b) (hb : b ≤ oe.lineEnd)
    (h1 : s'.src = s.src) (h2 : s'.offs = s.offs) (h3 : s'.children = s.children ++ [n])
    (h4 : e < s'.line) : KidsOk P s' lo := by
  obtain ⟨⟨hi, ho, hbd⟩, hd⟩ := h
  have hia : hi ≤ a := by
    rcases hbd with hbd | ⟨e0, o0, he0, ho0, hle0⟩
    · omega
    · have := hg.sorted e0 s.line o0 ol he0 ho0 hol
      omega
  refine ⟨⟨b, by rw [h3]; exact ho.snoc hsp hia hab (Nat.le_refl _), .inr ⟨e, oe, h4, by rw [h2]; exact hoe, hb⟩⟩, ?_⟩
  intro c hc
  rw [h3] at hc
  rw [h1]
  rcases List.mem_append.mp hc with hc | hc
  · exact hd c hc
  · simp at hc; subst hc; exact hn

theorem getMap_ok5 {s : BState} {a b : Nat} {r : Nat × Nat} (h : s.getMap a b = .ok r) :
    a ≤ b ∧ ∃ oa ob, s.offs[a]? = some oa ∧ s.offs[b]? = some ob ∧ r = (oa.firstNonspace, ob.lineEnd) := by
  unfold BState.getMap Lines.getMap at h
  split at h
  · simp [liftL] at h
  · split at h
    · rename_i oa ob ha hb
      simp [liftL] at h
      exact ⟨by omega, oa, ob, ha, hb, h.symm⟩
    · simp [liftL] at h

/-- the range `get_map(a, b)` returns is proper and on character boundaries -/
theorem Geo.map_ok {s : BState} (hg : Geo s) {a b : Nat} {oa ob : LineOffset} (hab : a ≤ b)
    (ha : s.offs[a]? = some oa) (hb : s.offs[b]? = some ob) :
    oa.lineStart ≤ oa.firstNonspace ∧ oa.firstNonspace ≤ ob.lineEnd ∧ Bd s.src oa.firstNonspace ∧
      Bd s.src ob.lineEnd := by
  have h1 := (hg.table a oa ha).bounds
  have h2 := hg.end_mono hab ha hb
  exact ⟨h1.1, by omega, (hg.table a oa ha).bd.2.1, (hg.table b ob hb).bd.2.2⟩

/-! ## what the rules that make placeholders must establish -/

structure InlSpec (para : Bool) (P : InlP) : Prop where
  /-- paragraph, setext heading: `get_lines(b, e, blk_indent, false)` -/
  lines : ∀ (s : BState) (b e : Nat) (c : List Char) (m : List (Nat × Nat)) (ob oe : LineOffset),
    Geo s → s.getLines b e s.blkIndent false = .ok (c, m) → b < e →
    s.offs[b]? = some ob → s.offs[e - 1]? = some oe → P c m ob.firstNonspace oe.lineEnd
  /-- ATX heading: a slice of the line -/
  heading : ∀ (s : BState) (o : LineOffset) (line content : List Char) (textPos textMax : Nat),
    Geo s → s.offs[s.line]? = some o → s.getLine s.line = .ok line →
    liftL (Lines.slice line textPos textMax) = .ok content →
    P content [(0, o.firstNonspace + textPos)] o.firstNonspace o.lineEnd
  /-- the no-paragraph fallback: the line and a line feed (dead code with the paragraph rule in the
      chain, `runChain_para`; and NOT inside the line's range otherwise: see the witness at the end) -/
  fallback : para = false → ∀ (s : BState) (o : LineOffset) (l : List Char),
    Geo s → s.offs[s.line]? = some o → s.getLine s.line = .ok l →
    P (l ++ ['\n']) [(0, o.firstNonspace)] o.firstNonspace o.lineEnd

/-- the step of a rule: invariant in, invariant out -/
def KeepsGeo (P : InlP) (s s' : BState) : Prop :=
  ∀ lo, Geo s → StartsGe s lo → KidsOk P s lo → KidsOk P s' lo

theorem KeepsGeo.refl (P : InlP) (s : BState) : KeepsGeo P s s := fun _ _ _ h => h

/-! ## the rules without nesting -/

theorem hr_geo {P : InlP} {s s' : BState} {b : Bool} (h : hrRule s false = .ok (b, s')) :
    KeepsGeo P s s' := by
  unfold hrRule at h
  crack h
  all_goals (try subst_vars)
  all_goals (first | exact KeepsGeo.refl _ _ | skip)
  intro lo hg hs hk
  obtain ⟨_, oa, ob, ha, hb, rfl⟩ := getMap_ok5 ‹BState.getMap _ _ _ = _›
  rw [ha] at hb; cases hb
  obtain ⟨g1, g2, g3, g4⟩ := hg.map_ok (Nat.le_refl _) ha ha
  exact hk.push hg ha ha (Nat.le_refl _) spanB_range (rangedB_leaf _ g2 g3 g4) (hs _ _ (Nat.le_refl _) ha).1
    g1 g2 (Nat.le_refl _) rfl rfl rfl (by simp [BState.push])

theorem heading_geo {para : Bool} {P : InlP} (hP : InlSpec para P) {s s' : BState} {b : Bool}
    (h : headingRule s false = .ok (b, s')) : KeepsGeo P s s' := by
  unfold headingRule at h
  crack h
  all_goals (try subst_vars)
  all_goals (first | exact KeepsGeo.refl _ _ | skip)
  intro lo hg hs hk
  obtain ⟨_, oa, ob, ha, hb, rfl⟩ := getMap_ok5 ‹BState.getMap _ _ _ = _›
  rw [ha] at hb; cases hb
  have ho := off_ok ‹BState.off _ _ = _›
  rw [ha] at ho; cases ho
  obtain ⟨g1, g2, g3, g4⟩ := hg.map_ok (Nat.le_refl _) ha ha
  have hp := hP.heading s _ _ _ _ _ hg ha ‹BState.getLine _ _ = _› ‹liftL (Lines.slice _ _ _) = _›
  exact hk.push hg ha ha (Nat.le_refl _) spanB_range
    (rangedB_text _ g2 g3 g4 hp (Nat.le_refl _) g2 (Nat.le_refl _)) (hs _ _ (Nat.le_refl _) ha).1
    g1 g2 (Nat.le_refl _) rfl rfl rfl (by simp [BState.push])

theorem fence_geo {P : InlP} {s s' : BState} {b : Bool} (h : fenceRule s false = .ok (b, s')) :
    KeepsGeo P s s' := by
  unfold fenceRule at h
  crack h
  all_goals (try subst_vars)
  all_goals (first | exact KeepsGeo.refl _ _ | skip)
  intro lo hg hs hk
  obtain ⟨hab, oa, ob, ha, hb, rfl⟩ := getMap_ok5 ‹BState.getMap _ _ _ = _›
  obtain ⟨hle, he⟩ := psub_ok ‹psub _ _ = _›
  obtain ⟨g1, g2, g3, g4⟩ := hg.map_ok hab ha hb
  refine hk.push hg ha hb hab spanB_range (rangedB_leaf _ g2 g3 g4) (hs _ _ (Nat.le_refl _) ha).1
    g1 g2 (Nat.le_refl _) rfl rfl rfl ?_
  show _ < _ + (if _ then 1 else 0)
  split at he <;> simp_all <;> omega

theorem paragraph_geo {para : Bool} {P : InlP} (hP : InlSpec para P) {test : Test} (ht : TestPure test) {fuel : Nat}
    {s s' : BState} {b : Bool} (h : paragraphRule test fuel s false = .ok (b, s')) : KeepsGeo P s s' := by
  unfold paragraphRule at h
  crack h
  have hscan := ‹lazyScan _ _ _ _ _ = _›
  have hgl := ‹BState.getLines _ _ _ _ _ = _›
  have he := ‹psub _ _ = _›
  have hr := ‹BState.getMap _ _ _ = _›
  obtain ⟨h1, h2, _, _⟩ := lazyScan_spec ht false _ _ _ _ hscan
  subst_vars
  intro lo hg hs hk
  obtain ⟨hab, oa, ob, ha, hb, rfl⟩ := getMap_ok5 hr
  obtain ⟨hle, rfl⟩ := psub_ok he
  obtain ⟨g1, g2, g3, g4⟩ := hg.map_ok hab ha hb
  have hp := hP.lines _ _ _ _ _ oa ob hg hgl h2 ha hb
  exact hk.push hg ha hb hab spanB_range
    (rangedB_text _ g2 g3 g4 hp (Nat.le_refl _) g2 (Nat.le_refl _)) (hs _ _ (Nat.le_refl _) ha).1
    g1 g2 (Nat.le_refl _) rfl rfl rfl (by simp [BState.push]; omega)

theorem lheading_geo {para : Bool} {P : InlP} (hP : InlSpec para P) {test : Test} (ht : TestPure test) {fuel : Nat}
    {s s' : BState} {b : Bool} (h : lheadingRule test fuel s false = .ok (b, s')) : KeepsGeo P s s' := by
  unfold lheadingRule at h
  crack h
  · subst_vars; exact KeepsGeo.refl _ _
  · have h1 := (lazyScan_spec ht true _ _ _ _ ‹lazyScan _ _ _ _ _ = _›).1
    subst_vars; exact KeepsGeo.refl _ _
  · have hscan := ‹lazyScan _ _ _ _ _ = _›
    have hgl := ‹BState.getLines _ _ _ _ _ = _›
    have he := ‹psub _ _ = _›
    have hr := ‹BState.getMap _ _ _ = _›
    obtain ⟨h1, h2, _, _⟩ := lazyScan_spec ht true _ _ _ _ hscan
    subst_vars
    intro lo hg hs hk
    obtain ⟨hab, oa, ob, ha, hb, rfl⟩ := getMap_ok5 hr
    obtain ⟨hle, rfl⟩ := psub_ok he
    simp only [Nat.add_sub_cancel] at ha hb hab
    obtain ⟨g1, g2, g3, g4⟩ := hg.map_ok hab ha hb
    have hlen := (List.getElem?_eq_some_iff.mp hb).1
    obtain ⟨oe, hpe⟩ : ∃ oe, _ = some oe := ⟨_, List.getElem?_eq_getElem (Nat.lt_of_le_of_lt (Nat.sub_le _ 1) hlen)⟩
    have hp := hP.lines _ _ _ _ _ oa _ hg hgl h2 ha hpe
    have hm := hg.end_mono (Nat.sub_le _ 1) hpe hb
    have hm2 := hg.map_ok (b := _ - 1) (by omega) ha hpe
    exact hk.push hg ha hb hab spanB_range
      (rangedB_text _ g2 g3 g4 hp (Nat.le_refl _) hm2.2.1 hm) (hs _ _ (Nat.le_refl _) ha).1
      g1 g2 (Nat.le_refl _) rfl rfl rfl (by simp [BState.push])

theorem reference_geo {P : InlP} {cfg : Cfg} {test : Test} (ht : TestPure test) {fuel : Nat}
    {s s' : BState} {b : Bool} (h : referenceRule cfg test fuel s false = .ok (b, s')) :
    KeepsGeo P s s' := by
  unfold referenceRule at h
  crack h
  all_goals (try (have h1 := (lazyScan_spec ht false _ _ _ _ ‹lazyScan _ _ _ _ _ = _›).1))
  all_goals (try (have h2 := (lazyScan_spec ht false _ _ _ _ ‹lazyScan _ _ _ _ _ = _›).2.1))
  all_goals (try subst_vars)
  all_goals (first | exact KeepsGeo.refl _ _ | skip)
  intro lo hg hs hk
  exact hk.of_eq rfl rfl rfl (by simp; omega)

/-! ## indented code: the range starts where `get_lines` starts copying -/

theorem getLinesGo_prefix (src : List Char) (offs : List LineOffset) (end_ indent : Nat) (keep : Bool)
    (line : Nat) (result : List Char) (mapping : List (Nat × Nat)) (c : List Char) (m : List (Nat × Nat))
    (h : Lines.getLinesGo src offs end_ indent keep line result mapping = .ok (c, m)) :
    ∃ t, m = mapping ++ t := by
  fun_induction Lines.getLinesGo src offs end_ indent keep line result mapping with
  | case1 => simp_all
  | case2 => simp_all
  | case3 => simp_all
  | case4 line result mapping hlt o ho addLastLf ws hws numSpaces first hc mapping1 result1 mapping2 t ht result2 result3 ih =>
    obtain ⟨t', ht'⟩ := ih h
    rw [ht']
    simp only [mapping2, mapping1]
    split
    · exact ⟨_, by simp only [List.append_assoc]; rfl⟩
    · exact ⟨_, by simp only [List.append_assoc]; rfl⟩
  | case5 => simp_all


theorem getLines_first {src : List Char} {offs : List LineOffset} {b e indent : Nat} {keep : Bool}
    {c : List Char} {m0 : Nat × Nat} {rest : List (Nat × Nat)}
    (h : Lines.getLines src offs b e indent keep = .ok (c, m0 :: rest)) :
    ∃ o ws, offs[b]? = some o ∧ Lines.slice src o.lineStart o.firstNonspace = .ok ws ∧
      m0.2 = o.lineStart + (Lines.calcRightWs ws (o.indentNonspace - Lines.usizeAsI32 indent)).2 := by
  unfold Lines.getLines at h
  split at h
  · cases h
  · rw [Lines.getLinesGo] at h
    split at h
    · split at h
      · cases h
      · rename_i o ho
        split at h
        · cases h
        · rename_i ws hws
          simp only at h
          split at h
          · cases h
          · obtain ⟨t, ht⟩ := getLinesGo_prefix _ _ _ _ _ _ _ _ _ _ h
            refine ⟨o, ws, ho, hws, ?_⟩
            split at ht <;> simp only [List.nil_append, List.cons_append, List.cons.injEq] at ht <;> rw [ht.1]
    · simp at h


theorem liftL_ok5 {α : Type} {x : Except Lines.Panic α} {a : α} (h : liftL x = .ok a) : x = .ok a := by
  cases x with
  | error e => cases e <;> simp [liftL] at h
  | ok v => simp [liftL] at h; rw [h]

theorem code_geo {P : InlP} {s s' : BState} {b : Bool} (h : codeRule s false = .ok (b, s')) :
    KeepsGeo P s s' := by
  unfold codeRule at h
  crack h
  · subst_vars; exact KeepsGeo.refl _ _
  · have hscan := ‹codeScan _ _ _ = _›
    have hgl := ‹BState.getLines _ _ _ _ _ = _›
    have he := ‹psub _ _ = _›
    have ho := off_ok ‹BState.off _ _ = _›
    have hchk : ¬ _ > _ := ‹_›
    have hmap : (_ : List (Nat × Nat)) = _ :: _ := ‹_›
    subst_vars
    intro lo hg hs hk
    obtain ⟨hle, rfl⟩ := psub_ok he
    have hsc := codeScan_spec _ _ _ _ hscan (Nat.le_refl _)
    simp only at ho hgl hle hchk
    have hgl2 := liftL_ok5 (show liftL (Lines.getLines s.src s.offs s.line _ (4 + s.blkIndent) false) = _ from hgl)
    rcases hx : ‹List Char × List (Nat × Nat)› with ⟨c, m⟩
    rw [hx] at hgl2 hmap
    simp only at hmap
    subst hmap
    have hgl3 := hgl2
    obtain ⟨ol, ws, hol, hws, hm0⟩ := getLines_first hgl3
    have hcut := (hs _ _ (Nat.le_refl _) hol).2 ws hws
    have hbd : Bd s.src (ol.lineStart + (Lines.calcRightWs ws (ol.indentNonspace - Lines.usizeAsI32 (4 + s.blkIndent))).2) := by
      obtain ⟨p, a, r, hsrc, hp, hsl⟩ := (hg.table _ _ hol).ws
      rw [hws] at hsl; cases hsl
      obtain ⟨w0, w', hww, hb⟩ := Lines.calc_right_bounds ws (ol.indentNonspace - Lines.usizeAsI32 (4 + s.blkIndent))
      refine ⟨p ++ w0, w' ++ r, by rw [hsrc, hww]; simp, ?_⟩
      simp; omega
    rw [← hm0] at hcut hbd
    refine hk.push hg hol ho (by omega) spanB_range
      (rangedB_leaf _ (by omega) hbd (hg.table _ _ ho).bd.2.2) hcut (by omega) (by omega) (Nat.le_refl _)
      rfl rfl rfl ?_
    simp [BState.push]; omega

/-! ## block quote -/

/-- the blank run `find_indent_of` skips, as part of the source -/
theorem rewrite_ws {src : List Char} {o : LineOffset} (hl : LineOk src o) {ltxt : List Char}
    (hlt : Lines.slice src o.lineStart o.lineEnd = .ok ltxt) {rel ind fn : Nat}
    (hf : Lines.findIndentOf ltxt rel = .ok (ind, fn)) :
    ∃ p run, Lines.byteLen p = rel ∧ Lines.slice src o.lineStart (fn + o.lineStart) = .ok (p ++ run) ∧
      ind = Lines.indentWidth (p ++ run) - Lines.indentWidth p ∧
      Lines.indentWidth p ≤ Lines.indentWidth (p ++ run) ∧ fn = rel + run.length := by
  obtain ⟨P, a, b, q, hsrc, hp, hfn, hle, ha, hb⟩ := hl
  have hab : Lines.slice src o.lineStart o.lineEnd = .ok (a ++ b) := by
    refine Lines.slice_eq_ok_iff.mpr ⟨P, q, by rw [hsrc]; simp, hp, ?_⟩
    simp; omega
  rw [hab] at hlt
  cases hlt
  have hbd := (Lines.find_indent_total (a ++ b) rel).mp ⟨_, hf⟩
  obtain ⟨p, t, hpt, hrel⟩ := Lines.onBoundary_iff.mp hbd
  obtain ⟨run, rest, rfl, hrun, hrest⟩ := Lines.blank_run_split t
  rw [hpt, ← List.append_assoc, ← hrel, Lines.find_indent_spec p run rest hrun hrest] at hf
  simp only [Except.ok.injEq, Prod.mk.injEq] at hf
  obtain ⟨rfl, rfl⟩ := hf
  refine ⟨p, run, hrel, ?_, rfl, ?_, by rw [hrel]⟩
  · refine Lines.slice_eq_ok_iff.mpr ⟨P, rest ++ q, ?_, hp, ?_⟩
    · rw [hsrc, List.append_assoc P a b, hpt]; simp
    · simp [hrun.byteLen]; omega
  · rw [Lines.indentWidth_append]; exact Lines.widthFrom_ge _ _

theorem rewrite_cut {src : List Char} {o : LineOffset} (hl : LineOk src o) {ltxt : List Char}
    (hlt : Lines.slice src o.lineStart o.lineEnd = .ok ltxt) {rel ind fn : Nat}
    (hf : Lines.findIndentOf ltxt rel = .ok (ind, fn)) (x : Int) (hx : x ≤ (ind : Int)) :
    ∀ ws, Lines.slice src o.lineStart (fn + o.lineStart) = .ok ws → rel ≤ (Lines.calcRightWs ws x).2 := by
  obtain ⟨p, run, hp, hs, hind, hle, _⟩ := rewrite_ws hl hlt hf
  intro ws hws
  rw [hs] at hws
  cases hws
  rw [← hp]
  exact Lines.calcRightWs_ge p run x (by omega)

theorem bqRewrite_cut {src : List Char} {o o' : LineOffset} {rest : List Char} {le : Bool}
    (h : bqRewrite src o rest = .ok (o', le)) (hl : LineOk src o) : CutGe src 0 o' o.firstNonspace := by
  unfold bqRewrite at h
  crack h
  subst_vars
  obtain ⟨hle, rfl⟩ := psub_ok ‹psub (o.firstNonspace + 1) _ = _›
  have hlt := liftL_ok5 ‹liftL (Lines.slice _ _ _) = _›
  have hf := liftL_ok5 ‹liftL (Lines.findIndentOf _ _) = _›
  have hopt := ‹bqOptSpace _ _ = _›
  intro ws hws
  simp only at hws ⊢
  have hx : ((‹Nat› : Nat) : Int) - Lines.usizeAsI32 (4 + 0) ≤ ((‹Nat × Nat›).1 : Int) := by
    have : Lines.usizeAsI32 (4 + 0) = 4 := by decide
    rw [this]
    unfold bqOptSpace at hopt
    crack hopt
    all_goals (try (obtain ⟨_, rfl⟩ := psub_ok ‹psub _ 1 = _›))
    all_goals (try subst_vars)
    all_goals omega
  have := rewrite_cut hl hlt hf _ hx ws hws
  omega


theorem lineOk_slice_len {src : List Char} {o : LineOffset} (hl : LineOk src o) {ltxt : List Char}
    (hlt : Lines.slice src o.lineStart o.lineEnd = .ok ltxt) :
    Lines.byteLen ltxt = o.lineEnd - o.lineStart := by
  obtain ⟨p, q, _, hp, hq⟩ := Lines.slice_eq_ok_iff.mp hlt
  omega

theorem bqRewrite_ind {src : List Char} {o o' : LineOffset} {rest : List Char} {le : Bool}
    (h : bqRewrite src o rest = .ok (o', le)) : IndOk o' := by
  unfold bqRewrite at h
  crack h
  subst_vars
  have hf := Lines.find_indent_bounds _ _ _ _ (liftL_ok5 ‹liftL (Lines.findIndentOf _ _) = _›)
  have hopt := ‹bqOptSpace _ _ = _›
  unfold IndOk
  simp only
  unfold bqOptSpace at hopt
  crack hopt
  all_goals (try (obtain ⟨_, rfl⟩ := psub_ok ‹psub _ 1 = _›))
  all_goals (try subst_vars)
  all_goals omega

theorem itemRewrite_ind {src : List Char} {o o' : LineOffset} {pos indent : Nat} {re : Bool}
    (h : itemRewrite src o pos = .ok (o', indent, re)) (hi : IndOk o) (hb : o.lineStart ≤ o.firstNonspace) :
    IndOk o' := by
  unfold itemRewrite at h
  crack h
  subst_vars
  obtain ⟨hle, rfl⟩ := psub_ok ‹psub (pos + o.firstNonspace) _ = _›
  have hf := Lines.find_indent_bounds _ _ _ _ (liftL_ok5 ‹liftL (Lines.findIndentOf _ _) = _›)
  unfold IndOk at hi ⊢
  simp only
  omega

theorem usizeAsI32_small {n : Nat} (h : n < 2147483648) : Lines.usizeAsI32 n = (n : Int) := by
  unfold Lines.usizeAsI32
  simp only
  have : n % 4294967296 = n := Nat.mod_eq_of_lt (by omega)
  rw [this, if_pos h]

theorem itemRewrite_cut {src : List Char} {o o' : LineOffset} {pos indent : Nat} {re : Bool}
    (h : itemRewrite src o pos = .ok (o', indent, re)) (hl : LineOk src o) (hi : IndOk o)
    (hsmall : 4 * Lines.byteLen src + 8 < 2147483648) :
    CutGe src indent o' o.firstNonspace := by
  unfold itemRewrite at h
  crack h
  subst_vars
  obtain ⟨hle, rfl⟩ := psub_ok ‹psub (pos + o.firstNonspace) _ = _›
  obtain ⟨_, rfl⟩ := psub_ok ‹psub o.lineEnd o.lineStart = _›
  have hlt := liftL_ok5 ‹liftL (Lines.slice _ _ _) = _›
  have hf := liftL_ok5 ‹liftL (Lines.findIndentOf _ _) = _›
  have hfb := Lines.find_indent_bounds _ _ _ _ hf
  have hlen := lineOk_slice_len hl hlt
  have hb := hl.bounds
  unfold IndOk at hi
  intro ws hws
  simp only at hws ⊢
  rcases hfi : ‹Nat × Nat› with ⟨f1, f2⟩
  simp only [hfi] at hf hfb hws ⊢
  have hind4 : (if f2 == o.lineEnd - o.lineStart then 1 else if f1 > 4 then 1 else f1) ≤ 4 := by
    split
    · omega
    · split <;> omega
  generalize (if f2 == o.lineEnd - o.lineStart then 1 else if f1 > 4 then 1 else f1) = ia at *
  have hsm : 4 + (o.indentNonspace.toNat + pos + ia) < 2147483648 := by omega
  rw [usizeAsI32_small hsm]
  have := rewrite_cut hl hlt hf
    (((o.indentNonspace.toNat + pos + f1 : Nat) : Int) - ((4 + (o.indentNonspace.toNat + pos + ia) : Nat) : Int))
    (by omega) ws hws
  omega


/-- what the block-quote rewriting does to the geometry of an entry -/
theorem bqRewrite_geo {src : List Char} {o o' : LineOffset} {rest : List Char} {le : Bool}
    (h : bqRewrite src o rest = .ok (o', le)) :
    o'.lineStart = o.lineStart ∧ o'.lineEnd = o.lineEnd ∧ o.firstNonspace + 1 ≤ o'.firstNonspace := by
  unfold bqRewrite at h
  crack h
  subst_vars
  obtain ⟨hle, rfl⟩ := psub_ok ‹psub (o.firstNonspace + 1) _ = _›
  have := Lines.find_indent_bounds _ _ _ _ (liftL_ok5 ‹liftL (Lines.findIndentOf _ _) = _›)
  refine ⟨rfl, rfl, ?_⟩
  simp only
  omega

theorem setOff_refines {S S1 : BState} {m : Nat} {o x : LineOffset} (hset : S.setOff m x = .ok S1)
    (ho : S.off m = .ok o) (h1 : x.lineStart = o.lineStart) (h2 : x.lineEnd = o.lineEnd)
    (h3 : o.firstNonspace ≤ x.firstNonspace) : Refines S.offs S1.offs := by
  obtain ⟨_, rfl⟩ := setOff_ok hset
  exact Refines.set (off_ok ho) h1 h2 h3

theorem bqScan_refines {test : Test} (ht : TestPure test) :
    ∀ (fuel : Nat) (S : BState) (m : Nat) (old : List LineOffset) (le : Bool)
      (n : Nat) (old' : List LineOffset) (S' : BState),
      bqScan test fuel S m old le = .ok (n, old', S') → Refines S.offs S'.offs := by
  intro fuel
  induction fuel with
  | zero => intro S m old le n old' S' h; simp [bqScan] at h
  | succ f ih =>
    intro S m old le n old' S' h
    simp only [bqScan] at h
    crack h
    all_goals (try subst_vars)
    · exact Refines.refl _
    · exact Refines.refl _
    · obtain ⟨g1, g2, g3⟩ := bqRewrite_geo ‹bqRewrite _ _ _ = _›
      exact (setOff_refines ‹BState.setOff _ _ _ = _› ‹BState.off _ _ = _› g1 g2 (by omega)).trans
        (ih _ _ _ _ _ _ _ h)
    · exact Refines.refl _
    · have e := ht _ _ ‹test _ = _›
      simp only [e] at *
      have hset := ‹BState.setOff _ _ _ = _›
      have hoff := ‹BState.off _ _ = _›
      have := setOff_refines hset hoff rfl rfl (Nat.le_refl _)
      exact this
    · have e := ht _ _ ‹test _ = _›
      rw [e]
      exact Refines.refl _
    · have e := ht _ _ ‹test _ = _›
      simp only [e] at *
      have hset := ‹BState.setOff _ _ _ = _›
      have hoff := ‹BState.off _ _ = _›
      have := setOff_refines hset hoff rfl rfl (Nat.le_refl _)
      exact Refines.trans this (ih _ _ _ _ _ _ _ h)

theorem setOff_ind {S S1 : BState} {m : Nat} {x : LineOffset} (hset : S.setOff m x = .ok S1)
    (h : TableInd S.offs) (hx : IndOk x) : TableInd S1.offs := by
  obtain ⟨_, rfl⟩ := setOff_ok hset
  exact h.set m hx

theorem bqScan_ind {test : Test} (ht : TestPure test) :
    ∀ (fuel : Nat) (S : BState) (m : Nat) (old : List LineOffset) (le : Bool)
      (n : Nat) (old' : List LineOffset) (S' : BState),
      bqScan test fuel S m old le = .ok (n, old', S') → TableInd S.offs → TableInd S'.offs := by
  intro fuel
  induction fuel with
  | zero => intro S m old le n old' S' h; simp [bqScan] at h
  | succ f ih =>
    intro S m old le n old' S' h hT
    simp only [bqScan] at h
    crack h
    all_goals (try subst_vars)
    · exact hT
    · exact hT
    · exact ih _ _ _ _ _ _ _ h (setOff_ind ‹BState.setOff _ _ _ = _› hT (bqRewrite_ind ‹bqRewrite _ _ _ = _›))
    · exact hT
    · have e := ht _ _ ‹test _ = _›
      simp only [e] at *
      have hset := ‹BState.setOff _ _ _ = _›
      have hoff := off_ok ‹BState.off _ _ = _›
      have hi := hT _ _ hoff
      refine setOff_ind hset hT ?_
      unfold IndOk at hi ⊢
      simp only
      omega
    · have e := ht _ _ ‹test _ = _›
      rw [e]
      exact hT
    · have e := ht _ _ ‹test _ = _›
      simp only [e] at *
      have hset := ‹BState.setOff _ _ _ = _›
      refine ih _ _ _ _ _ _ _ h (setOff_ind hset hT ?_)
      unfold IndOk
      simp only
      omega

theorem bqScan_first_entry {test : Test} (ht : TestPure test) {fuel : Nat} {S : BState} {m : Nat}
    {old : List LineOffset} {le : Bool} {n : Nat} {old' : List LineOffset} {S' : BState}
    (h : bqScan test fuel S m old le = .ok (n, old', S')) (hlt : m < S.lineMax)
    {i : Int} (hi : S.lineIndent m = .ok i) (hi0 : 0 ≤ i) {line : List Char}
    (hline : S.getLine m = .ok line) (hhead : line.head? = some '>') :
    ∃ o o' rest le', S.offs[m]? = some o ∧ bqRewrite S.src o rest = .ok (o', le') ∧
      S'.offs[m]? = some o' := by
  cases fuel with
  | zero => simp [bqScan] at h
  | succ f =>
    cases line with
    | nil => simp at hhead
    | cons c rest =>
      simp at hhead
      subst hhead
      have hno : ¬ (i < 0) := by omega
      simp only [bqScan, hi, hline, ok_bind, hlt, not_true_eq_false, ↓reduceIte, hno, decide_false,
        Bool.false_eq_true, not_false_eq_true, and_self] at h
      crack h
      have hset := ‹BState.setOff _ _ _ = _›
      obtain ⟨hm, rfl⟩ := setOff_ok hset
      obtain ⟨_, h2, _, h4, _, _⟩ := bqScan_spec ht _ _ _ _ _ _ _ _ h
      refine ⟨_, _, _, _, off_ok ‹BState.off _ _ = _›, ‹bqRewrite _ _ _ = _›, ?_⟩
      rw [h4 m (by omega)]
      simp [hm]


/-- the nested tokenizer keeps the invariant -/
def TokGeo (P : InlP) (tok : Tok) : Prop := ∀ s s', tok s = .ok s' → KeepsGeo P s s'

/-- `StartsGe` for a nested run whose first line is `m`: that line starts at or behind `lo`, and
    `lo` is on it -/
theorem startsGe_nested {S : BState} (hg : Geo S) {m : Nat} {x : LineOffset} {lo : Nat}
    (hline : S.line = m) (hx : S.offs[m]? = some x) (h1 : lo ≤ x.firstNonspace)
    (h2 : CutGe S.src S.blkIndent x lo) : StartsGe S lo := by
  intro k o hk ho
  rcases Nat.lt_or_ge m k with hlt | hge
  · have hs := hg.sorted m k x o hlt hx ho
    have hb := (hg.table m x hx).bounds
    have hb' := (hg.table k o ho).bounds
    exact ⟨by omega, fun ws _ => by omega⟩
  · have : k = m := by omega
    subst this
    rw [hx] at ho; cases ho
    exact ⟨h1, h2⟩

theorem kidsOk_nil {P : InlP} {S : BState} (h : S.children = []) (lo : Nat) : KidsOk P S lo :=
  ⟨⟨lo, by rw [h]; exact Nat.le_refl _, .inl rfl⟩, by rw [h]; simp⟩

/-- a container node from the invariant of the nested run -/
theorem rangedB_container {P : InlP} {S2 : BState} {a : Nat} (hk : KidsOk P S2 a) {src : List Char}
    (hsrc : S2.src = src) {b : Nat} (hab : a ≤ b) (ha : Bd src a) (hb : Bd src b)
    (hend : ∀ e o, e < S2.line → S2.offs[e]? = some o → o.lineEnd ≤ b) (k : Kind) :
    RangedB P src ⟨k, some (a, b), S2.children⟩ := by
  obtain ⟨⟨hi, ho, hbd⟩, hd⟩ := hk
  refine .mk _ (fun x y h => ?_) (fun h => by cases h) (fun c hc => by rw [← hsrc]; exact hd c hc)
  cases h
  refine ⟨hab, ha, hb, ho.widen (Nat.le_refl _) ?_⟩
  rcases hbd with hbd | ⟨e, o, he, hoe, hle⟩
  · omega
  · have := hend e o he hoe
    omega

/-- the nested run of a container: from an empty child list, first line `m` -/
theorem nested_run {P : InlP} {tok : Tok} (hsh : TokGeo P tok) {SN s2 : BState} (htok : tok SN = .ok s2)
    (hg : Geo SN) {m : Nat} {x : LineOffset} {lo : Nat} (hline : SN.line = m) (hx : SN.offs[m]? = some x)
    (h1 : lo ≤ x.firstNonspace) (h2 : CutGe SN.src SN.blkIndent x lo) (hc : SN.children = []) :
    KidsOk P s2 lo :=
  hsh _ _ htok lo hg (startsGe_nested hg hline hx h1 h2) (kidsOk_nil hc lo)

theorem blockquote_geo {P : InlP} {tok : Tok} {test : Test} (hk : TokSpec tok) (hsh : TokGeo P tok)
    (ht : TestPure test) {fuel : Nat} {s s' : BState} {b : Bool}
    (h : blockquoteRule tok test fuel s false = .ok (b, s')) (hl : s.line < s.lineMax)
    (hi : IndentOk s) : KeepsGeo P s s' := by
  obtain ⟨i, hi, hi0⟩ := hi
  unfold blockquoteRule at h
  replace h := bind_ok.mp h
  obtain ⟨ind, hind, h⟩ := h
  dsimp only at h
  by_cases hge : ind ≥ 4
  · rw [if_pos hge] at h; crack h; subst_vars; exact KeepsGeo.refl _ _
  rw [if_neg hge] at h
  replace h := bind_ok.mp h
  obtain ⟨line, hline, h⟩ := h
  by_cases hhead : line.head? ≠ some '>'
  · rw [if_pos hhead] at h; crack h; subst_vars; exact KeepsGeo.refl _ _
  rw [if_neg hhead] at h
  have hhead := Classical.not_not.mp hhead
  simp only [Bool.false_eq_true, if_false] at h
  replace h := bind_ok.mp h
  obtain ⟨⟨n, old', S'⟩, hscan, h⟩ := h
  simp only at h
  replace h := bind_ok.mp h
  obtain ⟨s2, htok, h⟩ := h
  replace h := bind_ok.mp h
  obtain ⟨lvl, hlvl, h⟩ := h
  replace h := bind_ok.mp h
  obtain ⟨offs, hoffs, h⟩ := h
  replace h := bind_ok.mp h
  obtain ⟨e, he, h⟩ := h
  replace h := bind_ok.mp h
  obtain ⟨r, hr, h⟩ := h
  simp only [pure_ok, Prod.mk.injEq] at h
  obtain ⟨_, hs'⟩ := h
  obtain ⟨hsb, hmn, hup, _, hT, add, hadd, hrest⟩ := bqScan_spec ht _ _ _ _ _ _ _ _ hscan
  have href := bqScan_refines ht _ _ _ _ _ _ _ _ hscan
  obtain ⟨o0, o0', rest, le', ho0, hrw, ho0'⟩ := bqScan_first_entry ht hscan hl hi hi0 hline hhead
  have hfr := hk.frame _ _ htok
  have hmono := hk.mono _ _ htok
  simp only at hmono
  obtain ⟨_, rfl⟩ := psub_ok hlvl
  simp only [List.nil_append] at hadd
  subst hadd
  rw [hfr.offs] at hoffs
  simp only at hoffs
  rw [hrest] at hoffs
  cases hoffs
  obtain ⟨hle, rfl⟩ := psub_ok he
  subst hs'
  intro lo hg hs hkids
  obtain ⟨hab, oa, ob, ha, hb, rfl⟩ := getMap_ok5 hr
  simp only at ha hb hab hle
  rw [ho0] at ha; cases ha
  obtain ⟨g1, g2, g3, g4⟩ := hg.map_ok hab ho0 hb
  -- the nested state
  have hgS : Geo S' := ⟨hT hg.table, href.sorted hg.sorted, bqScan_ind ht _ _ _ _ _ _ _ _ hscan hg.ind,
    by rw [hsb.src]; exact hg.small⟩
  have hgeo := bqRewrite_geo hrw
  have hcut := bqRewrite_cut hrw (hg.table _ _ ho0)
  have hnest := nested_run hsh htok (hgS.of_eq rfl rfl) (lo := o0.firstNonspace) rfl ho0' (by omega)
    (by simp only [hsb.src]; exact hcut) rfl
  have hend : ∀ e o, e < s2.line → s2.offs[e]? = some o → o.lineEnd ≤ ob.lineEnd := by
    intro e o he ho
    rw [hfr.offs] at ho
    simp only at ho
    obtain ⟨o1, ho1⟩ := href.get' ho
    have := href.entry e o1 o ho1 ho
    have := hg.end_mono (j := _ - 1) (by omega) ho1 hb
    omega
  refine hkids.push hg ho0 hb hab spanB_range
    (rangedB_container hnest (by rw [hfr.src]; exact hsb.src) g2 g3 g4 hend s2.nodeKind)
    (hs _ _ (Nat.le_refl _) ho0).1 g1 g2 (Nat.le_refl _) ?_ rfl ?_ ?_
  · simp [hfr.src, hsb.src]
  · simp [hsb.children]
  · simp; omega


/-! ## list -/

/-- `first_nonspace` of every line still to come is at or behind `lo` -/
def FnGe (s : BState) (lo : Nat) : Prop :=
  ∀ (k : Nat) (o : LineOffset), s.line ≤ k → s.offs[k]? = some o → lo ≤ o.firstNonspace

theorem StartsGe.fn {s : BState} {lo : Nat} (h : StartsGe s lo) : FnGe s lo :=
  fun k o hk ho => (h k o hk ho).1

theorem itemRewrite_geo {src : List Char} {o o' : LineOffset} {pos indent : Nat} {re : Bool}
    (h : itemRewrite src o pos = .ok (o', indent, re)) :
    o'.lineStart = o.lineStart ∧ o'.lineEnd = o.lineEnd ∧ o.firstNonspace ≤ o'.firstNonspace := by
  unfold itemRewrite at h
  crack h
  subst_vars
  obtain ⟨hle, rfl⟩ := psub_ok ‹psub (pos + o.firstNonspace) _ = _›
  have := Lines.find_indent_bounds _ _ _ _ (liftL_ok5 ‹liftL (Lines.findIndentOf _ _) = _›)
  refine ⟨rfl, rfl, ?_⟩
  simp only
  omega


theorem listItemBody_geo {P : InlP} {tok : Tok} (hsh : TokGeo P tok) {S2 S3 : BState} {m : Nat} {re : Bool}
    (h : listItemBody tok S2 m re = .ok S3) (hg : Geo S2) (hline : S2.line = m) (hc : S2.children = [])
    {x : LineOffset} {lo : Nat} (hx : S2.offs[m]? = some x) (h1 : lo ≤ x.firstNonspace)
    (h2 : CutGe S2.src S2.blkIndent x lo) : KidsOk P S3 lo := by
  unfold listItemBody at h
  crack h
  · subst_vars; exact kidsOk_nil (by exact hc) lo
  · have htok := ‹tok _ = _›
    subst_vars
    have := nested_run hsh htok (hg.of_eq rfl rfl) (lo := lo) rfl hx h1 h2 hc
    exact ⟨this.ord, this.deep⟩

theorem listItem_geo {P : InlP} {tok : Tok} (hk : TokSpec tok) (hsh : TokGeo P tok) {S S' : BState}
    {m pos : Nat} {pee tight pee' tight' : Bool}
    (h : listItem tok S m pos pee tight = .ok (S', tight', pee'))
    (hline : S.line = m) (hlt : m < S.lineMax) :
    ∀ lo, Geo S → FnGe S lo → KidsOk P S lo → KidsOk P S' lo := by
  have hspec := listItem_spec hk h hline hlt
  unfold listItem at h
  replace h := bind_ok.mp h
  obtain ⟨o, ho, h⟩ := h
  replace h := bind_ok.mp h
  obtain ⟨⟨o', indent, re⟩, hrw, h⟩ := h
  simp only at h
  replace h := bind_ok.mp h
  obtain ⟨S2, hS2, h⟩ := h
  replace h := bind_ok.mp h
  obtain ⟨S3, hbody, h⟩ := h
  replace h := bind_ok.mp h
  obtain ⟨pe, hpe, h⟩ := h
  split at h
  · cases h
  rename_i li hli
  replace h := bind_ok.mp h
  obtain ⟨S5, hS5, h⟩ := h
  replace h := bind_ok.mp h
  obtain ⟨e, he, h⟩ := h
  replace h := bind_ok.mp h
  obtain ⟨r, hr, h⟩ := h
  simp only [pure_ok, Prod.mk.injEq] at h
  obtain ⟨hS', _, _⟩ := h
  subst hS'
  obtain ⟨hm, hS2eq⟩ := setOff_ok hS2
  obtain ⟨hm5, rfl⟩ := setOff_ok hS5
  have ho' := off_ok ho
  obtain ⟨hok, hc⟩ := itemRewrite_spec hrw
  have hgeo := itemRewrite_geo hrw
  simp only at hS2 hS2eq hbody hr he
  intro lo hg hs hkids
  have hcond : S2.isEmpty m = true ∨ IndentOk { S2 with line := m } := by
    refine item_cond (x := o') (by rw [hS2eq]; simp [hm]) ?_
    rw [hS2eq]
    exact hc
  obtain ⟨hfr, hlt', hle'⟩ := listItemBody_spec hk hbody (by rw [hS2eq]; exact hline)
    (by rw [hS2eq]; exact hlt) hcond
  have href : Refines S.offs S2.offs := by
    rw [hS2eq]; exact Refines.set ho' hgeo.1 hgeo.2.1 hgeo.2.2
  have hT2 : TableOk S2 :=
    TableOk.setOff (s := { S with nodeKind := .listItem, children := [], listIndent := some S.blkIndent, blkIndent := indent, tight := true })
      (fun k o ho => hg.table k o ho) hS2 (hok (hg.table _ _ ho'))
  have hg2 : Geo S2 := ⟨hT2, href.sorted hg.sorted,
    by rw [hS2eq]; exact hg.ind.set m (itemRewrite_ind hrw (hg.ind _ _ ho') (hg.table _ _ ho').bounds.1),
    by rw [hS2eq]; exact hg.small⟩
  have hx2 : S2.offs[m]? = some o' := by rw [hS2eq]; simp [hm]
  have hcut := itemRewrite_cut hrw (hg.table _ _ ho') (hg.ind _ _ ho') hg.small
  have hnest : KidsOk P S3 o.firstNonspace :=
    listItemBody_geo hsh hbody hg2 (by rw [hS2eq]; exact hline) (by rw [hS2eq]) hx2 hgeo.2.2
      (by rw [hS2eq]; exact hcut)
  obtain ⟨hle, rfl⟩ := psub_ok he
  obtain ⟨hab, oa, ob, ha, hb, rfl⟩ := getMap_ok5 hr
  have hrestore : (S3.offs.set m o) = S.offs := by
    rw [hfr.offs, hS2eq]
    simp only [List.set_set]
    rw [← (List.getElem?_eq_some_iff.mp ho').2]
    exact List.set_getElem_self _
  simp only [hrestore] at ha hb hab hle
  rw [ho'] at ha; cases ha
  obtain ⟨g1, g2, g3, g4⟩ := hg.map_ok hab ho' hb
  have hend : ∀ e x, e < S3.line → S3.offs[e]? = some x → x.lineEnd ≤ ob.lineEnd := by
    intro e x he hx
    rw [hfr.offs] at hx
    obtain ⟨x1, hx1⟩ := href.get' hx
    have := href.entry e x1 x hx1 hx
    have := hg.end_mono (j := S3.line - 1) (by omega) hx1 hb
    omega
  have hsrc3 : S3.src = S.src := by rw [hfr.src, hS2eq]
  subst hline
  refine hkids.push hg ho' hb hab spanB_range
    (rangedB_container hnest hsrc3 g2 g3 g4 hend S3.nodeKind)
    (hs _ _ (Nat.le_refl _) ho') g1 g2 (Nat.le_refl _) ?_ ?_ ?_ ?_
  · simp [hsrc3]
  · simp [hrestore]
  · simp
  · simp; omega


theorem listLoop_geo {P : InlP} {tok : Tok} {test : Test} (hk : TokSpec tok) (hsh : TokGeo P tok)
    (ht : TestPure test) {ordered : Bool} {mc : Char} :
    ∀ (fuel : Nat) (S : BState) (m pos : Nat) (pee tight : Bool) (n : Nat) (tight' : Bool) (S' : BState),
      listLoop tok test ordered mc fuel S m pos pee tight = .ok (n, tight', S') →
      S.line = m → m < S.lineMax → ∀ lo, Geo S → FnGe S lo → KidsOk P S lo → KidsOk P S' lo := by
  intro fuel
  induction fuel with
  | zero => intro S m pos pee tight n tight' S' h; simp [listLoop] at h
  | succ f ih =>
    intro S m pos pee tight n tight' S' h hline hlt
    simp only [listLoop] at h
    crack h
    all_goals (try subst_vars)
    · rename_i wi wc hc _ hnone _ hitem
      obtain ⟨S1, t1, p1⟩ := wi
      obtain ⟨c, S2⟩ := wc
      obtain ⟨rfl, _⟩ := listContinue_spec ht hc
      exact listItem_geo hk hsh hitem rfl hlt
    · rename_i wi wc hc _ p hsome _ hitem
      obtain ⟨S1, t1, p1⟩ := wi
      obtain ⟨c, S2⟩ := wc
      obtain ⟨hfr, h1, h2⟩ := listItem_spec hk hitem rfl hlt
      obtain ⟨rfl, hc2⟩ := listContinue_spec ht hc
      simp only at hsome h hc2
      have hlt2 := hc2 (by rw [hsome]; simp)
      intro lo hg hs hkids
      exact ih _ _ _ _ _ _ _ _ h rfl hlt2 lo (hg.of_frame hfr)
        (fun k o hk ho => hs k o (by omega) (by rw [← hfr.offs]; exact ho))
        (listItem_geo hk hsh hitem rfl hlt lo hg hs hkids)

theorem spanB_kind {P : InlP} {n : BNode} {a b : Nat} (h : SpanB P n a b)
    (hk : ∀ c m, n.kind ≠ .inlineRoot c m) : n.range = some (a, b) := by
  unfold SpanB at h
  split at h
  · rename_i r hr; rw [hr, h]
  · obtain ⟨c, m, hc, _⟩ := h
    exact absurd hc (hk c m)

theorem markTight_geo {P : InlP} {src : List Char} : ∀ (cs : List BNode) (lo hi : Nat),
    OrderedB P lo hi cs → (∀ c ∈ cs, RangedB P src c) →
    OrderedB P lo hi (markTight cs) ∧ ∀ c ∈ markTight cs, RangedB P src c
  | [], lo, hi, h, _ => by simp [markTight]; exact h
  | n :: r, lo, hi, h, hd => by
    obtain ⟨a, b, hsp, h1, h2, h3⟩ := h
    obtain ⟨ih1, ih2⟩ := markTight_geo r b hi h3 (fun c hc => hd c (List.mem_cons_of_mem _ hc))
    have hn := hd n (by simp)
    simp only [markTight]
    split
    · rename_i hp
      have hr := spanB_kind hsp (by rw [hp]; simp)
      obtain ⟨_, _, _, hord⟩ := hn.at a b hr
      refine ⟨(hord.widen h1 (Nat.le_refl _)).append ih1, ?_⟩
      intro c hc
      rcases List.mem_append.mp hc with hc | hc
      · exact hn.child c hc
      · exact ih2 c hc
    · refine ⟨⟨a, b, hsp, h1, h2, ih1⟩, ?_⟩
      intro c hc
      simp at hc
      rcases hc with rfl | hc
      · exact hn
      · exact ih2 c hc

theorem tightenItems_geo {P : InlP} {src : List Char} : ∀ (cs cs' : List BNode) (lo hi : Nat),
    tightenItems cs = .ok cs' → OrderedB P lo hi cs → (∀ c ∈ cs, RangedB P src c) →
    OrderedB P lo hi cs' ∧ ∀ c ∈ cs', RangedB P src c
  | [], cs', lo, hi, h, ho, _ => by simp [tightenItems] at h; subst h; exact ⟨ho, by simp⟩
  | c :: r, cs', lo, hi, h, ho, hd => by
    simp only [tightenItems] at h
    split at h
    · cases h
    · split at h
      · cases h
      · rename_i hk _ r' hr
        cases h
        obtain ⟨a, b, hsp, h1, h2, h3⟩ := ho
        obtain ⟨ih1, ih2⟩ := tightenItems_geo r r' b hi hr h3 (fun x hx => hd x (List.mem_cons_of_mem _ hx))
        have hck : c.kind = .listItem := Classical.not_not.mp hk
        have hrange := spanB_kind hsp (by rw [hck]; simp)
        have hc := hd c (by simp)
        obtain ⟨q1, q2, q3, q4⟩ := hc.at a b hrange
        obtain ⟨m1, m2⟩ := markTight_geo c.children a b q4 hc.child
        refine ⟨⟨a, b, ?_, h1, h2, ih1⟩, ?_⟩
        · unfold SpanB; simp only [hrange]
        · intro x hx
          simp at hx
          rcases hx with rfl | hx
          · refine .mk _ (fun x y h => ?_) (fun h => ?_) m2
            · simp only [hrange, Option.some.injEq, Prod.mk.injEq] at h
              obtain ⟨rfl, rfl⟩ := h
              exact ⟨q1, q2, q3, m1⟩
            · simp [hrange] at h
          · exact ih2 x hx

theorem list_rule_geo {P : InlP} {tok : Tok} {test : Test} (hk : TokSpec tok) (hsh : TokGeo P tok)
    (ht : TestPure test) {fuel : Nat} {s s' : BState} {b : Bool}
    (h : listRule tok test fuel s false = .ok (b, s')) (hl : s.line < s.lineMax) : KeepsGeo P s s' := by
  unfold listRule at h
  crack h
  all_goals (try subst_vars)
  all_goals (try (exact KeepsGeo.refl _ _))
  all_goals (
    have hloop := ‹listLoop _ _ _ _ _ _ _ _ _ _ = _›
    have htight := ‹(if _ then tightenItems _ else _) = Except.ok _›
    have he := ‹psub _ 1 = Except.ok (_ : Nat)›
    have hr := ‹BState.getMap _ _ _ = _›
    rename_i wl _ cs _ _ _ _ _ _ _
    obtain ⟨n, t, S'⟩ := wl
    obtain ⟨hfr, hline', hmn, _⟩ := listLoop_spec hk ht _ _ _ _ _ _ _ _ _ hloop rfl hl
    intro lo hg hs hkids
    obtain ⟨hab, oa, ob, ha, hb, rfl⟩ := getMap_ok5 hr
    simp only at ha hb hab hfr hline' hmn htight
    have hoffs : S'.offs = s.offs := hfr.offs
    have hsrc : S'.src = s.src := hfr.src
    rw [hoffs] at ha hb
    obtain ⟨g1, g2, g3, g4⟩ := hg.map_ok hab ha hb
    have hinner := listLoop_geo hk hsh ht _ _ _ _ _ _ _ _ _ hloop rfl hl oa.firstNonspace
      (hg.of_eq rfl rfl) (fun k o hk ho => by
        have hk' : s.line ≤ k := hk
        have ho' : s.offs[k]? = some o := ho
        rcases Nat.lt_or_ge s.line k with hlt | hge
        · have h1 := hg.sorted s.line k oa o hlt ha ho'
          have h2 := (hg.table _ _ ha).bounds
          have h3 := (hg.table _ _ ho').bounds
          omega
        · have : k = s.line := by omega
          subst this
          rw [ha] at ho'; cases ho'
          exact Nat.le_refl _) (kidsOk_nil rfl _)
    obtain ⟨⟨hi, hord, hbd⟩, hdeep⟩ := hinner
    rw [hsrc] at hdeep
    obtain ⟨hle, rfl⟩ := psub_ok he
    have hord2 : OrderedB P oa.firstNonspace ob.lineEnd S'.children := by
      refine hord.widen (Nat.le_refl _) ?_
      rcases hbd with hbd | ⟨e, o, he, hoe, hle⟩
      · omega
      · rw [hoffs] at hoe
        have := hg.end_mono (j := n - 1) (by omega) hoe hb
        omega
    have hcs : OrderedB P oa.firstNonspace ob.lineEnd cs ∧ ∀ c ∈ cs, RangedB P s.src c := by
      split at htight
      · exact tightenItems_geo _ _ _ _ htight hord2 hdeep
      · simp [pure, Except.pure] at htight; subst htight; exact ⟨hord2, hdeep⟩
    have hnode : RangedB P s.src ⟨S'.nodeKind, some (oa.firstNonspace, ob.lineEnd), cs⟩ := by
      refine .mk _ (fun x y h => ?_) (fun h => by cases h) hcs.2
      cases h
      exact ⟨g2, g3, g4, hcs.1⟩
    refine hkids.push hg ha hb hab spanB_range hnode (hs _ _ (Nat.le_refl _) ha).1 g1 g2 (Nat.le_refl _)
      ?_ ?_ rfl ?_
    · simp [hsrc]
    · simp [hoffs]
    · simp [hline']; omega)


/-! ## the chain and the tokenizer -/

theorem runRule_geo {para : Bool} {P : InlP} (hP : InlSpec para P) {cfg : Cfg} {tok : Tok} {test : Test} (hk : TokSpec tok)
    (hsh : TokGeo P tok) (ht : TestPure test) (fuel : Nat) (r : RuleId) {s s' : BState} {b : Bool}
    (h : runRule cfg tok test fuel r s false = .ok (b, s')) (hl : s.line < s.lineMax) (hi : IndentOk s) :
    KeepsGeo P s s' := by
  cases r <;> simp only [runRule] at h
  · exact code_geo h
  · exact fence_geo h
  · exact blockquote_geo hk hsh ht h hl hi
  · exact hr_geo h
  · exact list_rule_geo hk hsh ht h hl
  · exact reference_geo ht h
  · exact heading_geo hP h
  · exact lheading_geo hP ht h
  · exact paragraph_geo hP ht h

theorem runChain_geo {P : InlP} {run : RuleId → BState → Bool → Res} (hr : RunSpec run)
    (hsh : ∀ r s b s', run r s false = .ok (b, s') → s.line < s.lineMax → IndentOk s → KeepsGeo P s s') :
    ∀ (chain : List RuleId) (s : BState) (b : Bool) (s' : BState),
      runChain run chain s false = .ok (b, s') → s.line < s.lineMax → IndentOk s → KeepsGeo P s s' := by
  intro chain
  induction chain with
  | nil => intro s b s' h _ _; simp [runChain] at h; rw [← h.2]; exact KeepsGeo.refl _ _
  | cons r rs ih =>
    intro s b s' h hl hi
    simp only [runChain] at h
    split at h
    · cases h
    · rename_i s1 h1
      cases h
      exact hsh _ _ _ _ h1 hl hi
    · rename_i s1 h1
      have := hr.false_same _ _ _ h1
      subst this
      exact ih _ _ _ h hl hi

theorem afterChain_geo {para : Bool} {P : InlP} (hP : InlSpec para P) {ok : Bool} {s s' : BState}
    {prev : Nat} (h : afterChain ok s prev = .ok s') (hp : ok = false → para = false) :
    KeepsGeo P s s' := by
  unfold afterChain at h
  crack h
  · exact KeepsGeo.refl _ _
  · intro lo hg hs hk
    have ho := off_ok ‹BState.off _ _ = _›
    have hl := ‹BState.getLine _ _ = _›
    have hb := (hg.table _ _ ho).bounds
    exact hk.push hg ho ho (Nat.le_refl _) (a := _) (b := _)
      (show SpanB P ⟨.inlineRoot _ _, none, []⟩ _ _ from ⟨_, _, rfl, rfl,
        hP.fallback (hp (by simpa using ‹¬ ok = true›)) s _ _ hg ho hl⟩)
      (rangedB_inl _ _) (hs _ _ (Nat.le_refl _) ho).1 hb.1 hb.2.1 (Nat.le_refl _) rfl rfl rfl
      (by simp [BState.push])

theorem runChain_frame {run : RuleId → BState → Bool → Res} (hr : RunSpec run) {chain : List RuleId}
    {s1 : BState} {w : Bool × BState} (hc : runChain run chain s1 false = .ok w)
    (hlt : s1.line < s1.lineMax) (hi : IndentOk s1) : Frame s1 w.2 ∧ s1.line ≤ w.2.line := by
  obtain ⟨b, s2⟩ := w
  obtain ⟨h1, h2⟩ := runChain_real hr _ _ _ _ hc
  cases b with
  | false => have := h1 rfl; subst this; exact ⟨Frame.refl _, Nat.le_refl _⟩
  | true => have := h2 rfl hlt hi; exact ⟨this.frame, Nat.le_of_lt this.lt⟩

theorem tokLoop_geo {para : Bool} {P : InlP} (hP : InlSpec para P) {cfg : Cfg}
    {run : RuleId → BState → Bool → Res} (hr : RunSpec run)
    (hsh : ∀ r s b s', run r s false = .ok (b, s') → s.line < s.lineMax → IndentOk s → KeepsGeo P s s')
    (hpara : para = true → ∀ s b s', runChain run cfg.chain s false = .ok (b, s') → b = true) :
    ∀ (fuel : Nat) (he : Bool) (s s' : BState), tokLoop cfg run fuel he s = .ok s' → KeepsGeo P s s' := by
  intro fuel
  induction fuel with
  | zero => intro he s s' h; simp [tokLoop] at h
  | succ f ih =>
    intro he s s' h
    simp only [tokLoop] at h
    obtain ⟨hs1, hs2, hs3, hs4⟩ := skipEmpty_spec s.offs s.lineMax s.line
    generalize Lines.skipEmptyLines s.offs s.lineMax s.line = l' at h hs1 hs2 hs3 hs4
    crack h
    all_goals (try subst_vars)
    · exact KeepsGeo.refl _ _
    · exact fun lo hg hs hk => hk.of_eq rfl rfl rfl hs1
    · exact fun lo hg hs hk => hk.of_eq rfl rfl rfl hs1
    · exact fun lo hg hs hk => hk.of_eq rfl rfl rfl (by simp; omega)
    all_goals (
      have hchain := ‹runChain _ _ _ _ = _›
      have hafter := ‹afterChain _ _ _ = _›
      have hind := ‹BState.lineIndent _ _ = _›
      have hlt : l' < s.lineMax := by omega
      have hio : IndentOk ({ s with line := l' } : BState) := ⟨_, hind, by omega⟩
      obtain ⟨h13, hlt3, _⟩ := tok_iter hr (s1 := { s with line := l' }) rfl hlt hio hchain hafter
      have hfr2 := runChain_frame hr hchain hlt hio
      intro lo hg hs hk
      have hg1 : Geo ({ s with line := l' } : BState) := hg.of_eq rfl rfl
      have hst1 : StartsGe ({ s with line := l' } : BState) lo := hs.of_eq rfl rfl rfl hs1
      have hk1 : KidsOk P ({ s with line := l' } : BState) lo := hk.of_eq rfl rfl rfl hs1
      have hk2 := runChain_geo hr hsh _ _ _ _ hchain hlt hio lo hg1 hst1 hk1
      have hk3 := afterChain_geo hP hafter (by
        intro hok
        cases hp : para with
        | false => rfl
        | true => have := hpara hp _ _ _ hchain; simp_all) lo (hg1.of_frame hfr2.1)
        (hst1.of_frame hfr2.1 hfr2.2) hk2
      refine ih _ _ _ h lo ((hg1.of_frame h13).of_eq rfl rfl) ((hst1.of_frame h13 (Nat.le_of_lt hlt3)).of_eq rfl rfl rfl ?_)
        (hk3.of_eq rfl rfl rfl ?_)
      all_goals (simp))


/-- the tokenizer keeps the geometric invariant -/
theorem tokenize_geo {P : InlP} (cfg : Cfg) (hP : InlSpec cfg.hasPara P) :
    ∀ fuel : Nat, TokGeo P (tokenize cfg fuel) := by
  intro fuel
  induction fuel with
  | zero => intro s s' h; simp [tokenize, engine] at h
  | succ f ih =>
    intro s s' h
    simp only [tokenize, engine] at h
    have hk := tokenize_tokSpec cfg f
    have ht := testRules_pure cfg f
    refine tokLoop_geo hP (runRule_spec hk ht _)
      (fun r s b s' h hl hi => runRule_geo hP hk ih ht _ r h hl hi) ?_ _ _ _ _ h
    intro hp s b s' hc
    exact runChain_para _ _ _ _ (by simpa [Cfg.hasPara] using hp) hc

/-- the block tree: the root spans the whole source, and every node is `RangedB` -/
theorem parseBlocks_geo {P : InlP} {cfg : Cfg} (hP : InlSpec cfg.hasPara P) {src : List Char} {root : BNode}
    {refs : Refs.RefMap} (hsmall : 4 * Lines.byteLen src + 8 < 2147483648)
    (h : parseBlocks cfg src = .ok (root, refs)) :
    root.range = some (0, Lines.byteLen src) ∧ RangedB P src root := by
  unfold parseBlocks at h
  split at h
  · cases h
  · rename_i s hs
    simp only [Except.ok.injEq, Prod.mk.injEq] at h
    obtain ⟨rfl, _⟩ := h
    refine ⟨rfl, ?_⟩
    have hfr := (tokenize_spec cfg _ _ _ hs).frame
    have hg := geo_fresh src hsmall .root []
    have hk := tokenize_geo cfg hP _ _ _ hs 0 hg
      (fun k o _ _ => ⟨Nat.zero_le _, fun _ _ => Nat.zero_le _⟩) (kidsOk_nil rfl 0)
    obtain ⟨⟨hi, hord, hbd⟩, hdeep⟩ := hk
    have hsrc : s.src = src := hfr.src
    rw [hsrc] at hdeep
    refine .mk _ (fun a b h => ?_) (fun h => by cases h) hdeep
    simp only [Option.some.injEq, Prod.mk.injEq] at h
    obtain ⟨rfl, rfl⟩ := h
    refine ⟨Nat.zero_le _, ⟨[], src, rfl, rfl⟩, ⟨src, [], by simp, rfl⟩, hord.widen (Nat.le_refl _) ?_⟩
    rcases hbd with hbd | ⟨e, o, he, hoe, hle⟩
    · omega
    · rw [hfr.offs] at hoe
      have := (hg.table _ _ hoe).bounds
      simp only [BState.fresh] at this
      omega


end MdIt.Block

namespace MdIt.Pipeline
open MdIt.Block (Bd)

/-! # Part B: the document tree -/

/-- a tree of source ranges -/
structure RT where
  range : Option (Nat × Nat)
  kids : List RT
  deriving Repr

def Node.isBlk (n : Node) : Bool :=
  match n.kind with
  | .blk _ => true
  | .inl _ => false

mutual
/-- the BLOCK skeleton of a document node: its range, and the skeletons of its block-level children,
    in order (inline-level children are skipped) -/
def bskel : Node → RT
  | ⟨_, r, _, cs⟩ => ⟨r, bskelList cs⟩
def bskelList : List Node → List RT
  | [] => []
  | c :: cs => if c.isBlk then bskel c :: bskelList cs else bskelList cs
end

def isInlKind : Block.Kind → Bool
  | .inlineRoot _ _ => true
  | _ => false

mutual
/-- the same of a node of the block pass: placeholders are skipped -/
def bskelB : Block.BNode → RT
  | ⟨_, r, cs⟩ => ⟨r, bskelBList cs⟩
def bskelBList : List Block.BNode → List RT
  | [] => []
  | c :: cs => if isInlKind c.kind then bskelBList cs else bskelB c :: bskelBList cs
end

theorem bskel_eq (n : Node) : bskel n = ⟨n.range, bskelList n.children⟩ := by cases n; simp [bskel]
theorem bskelB_eq (n : Block.BNode) : bskelB n = ⟨n.range, bskelBList n.children⟩ := by cases n; simp [bskelB]

theorem bskelList_append (a b : List Node) : bskelList (a ++ b) = bskelList a ++ bskelList b := by
  induction a with
  | nil => simp [bskelList]
  | cons c r ih => simp only [List.cons_append, bskelList]; split <;> simp [ih]

mutual
theorem ofInline_isBlk (n : Inline.Node) : (ofInline n).isBlk = false := by
  cases n; simp [ofInline, Node.isBlk]
theorem bskelList_ofInlineList (cs : List Inline.Node) : bskelList (ofInlineList cs) = [] := by
  match cs with
  | [] => simp [ofInlineList, bskelList]
  | c :: r =>
    simp only [ofInlineList, bskelList, ofInline_isBlk]
    exact bskelList_ofInlineList r
end

/-! ## the splice walk -/

mutual
theorem spliceNode_bskel {icfg : Inline.Cfg} (b : Block.BNode) (t : Node)
    (h : spliceNode icfg b = .ok t) : bskel t = bskelB b := by
  match b with
  | ⟨k, r, cs⟩ =>
    simp only [spliceNode] at h
    split at h
    · cases h
    · rename_i cs' hcs
      cases h
      simp only [bskel, bskelB]
      rw [spliceList_bskel cs cs' hcs]
theorem spliceList_bskel {icfg : Inline.Cfg} (cs : List Block.BNode) (out : List Node)
    (h : spliceList icfg cs = .ok out) : bskelList out = bskelBList cs := by
  match cs with
  | [] => simp [spliceList] at h; subst h; simp [bskelList, bskelBList]
  | c :: rest =>
    simp only [spliceList] at h
    split at h
    · rename_i content mapping hk
      split at h
      · cases h
      · split at h
        · cases h
        · rename_i ns _ rest' hrest
          cases h
          rw [bskelList_append, bskelList_ofInlineList, List.nil_append, spliceList_bskel rest rest' hrest]
          simp [bskelBList, hk, isInlKind]
    · rename_i hk
      split at h
      · cases h
      · rename_i c' hc'
        split at h
        · cases h
        · rename_i rest' hrest
          cases h
          have hck : c'.isBlk = true := by
            match c, hc' with
            | ⟨k, r, cs⟩, hc' =>
              simp only [spliceNode] at hc'
              split at hc'
              · cases hc'
              · cases hc'; rfl
          have hnk : isInlKind c.kind = false := by
            cases hkk : c.kind <;> simp [isInlKind]
            exact hk _ _ hkk
          simp only [bskelList, bskelBList, hck, hnk, if_true, Bool.false_eq_true, if_false]
          rw [spliceNode_bskel c c' hc', spliceList_bskel rest rest' hrest]
end


/-! ## the join pass -/

theorem isBlk_of_isText {n : Node} (h : n.isText = true) : n.isBlk = false := by
  unfold Node.isText at h
  unfold Node.isBlk
  split at h
  · next heq => rw [heq]
  · cases h

theorem bskelList_cons_inl {c : Node} (h : c.isBlk = false) (r : List Node) :
    bskelList (c :: r) = bskelList r := by simp [bskelList, h]

theorem bskelList_mergeLoop (cur : Node) (rest : List Node) :
    bskelList (mergeLoop cur rest) = bskelList (cur :: rest) := by
  induction rest generalizing cur with
  | nil => simp [mergeLoop]
  | cons nxt rest ih =>
    simp only [mergeLoop]
    split
    · next htt =>
      simp only [Bool.and_eq_true] at htt
      have h1 : (emptied nxt).isBlk = false := rfl
      have h2 : (merged cur nxt).isBlk = false := rfl
      rw [bskelList_cons_inl h1, ih, bskelList_cons_inl h2, bskelList_cons_inl (isBlk_of_isText htt.1),
        bskelList_cons_inl (isBlk_of_isText htt.2)]
    · simp only [bskelList, ih]

theorem markerToText_blk (c : Node) (h : c.isBlk = true) : markerToText c = c := by
  unfold markerToText
  split
  · next heq => unfold Node.isBlk at h; rw [heq] at h; cases h
  · rfl

theorem markerToText_isBlk (c : Node) : (markerToText c).isBlk = c.isBlk := by
  unfold markerToText
  split
  · next heq => unfold Node.isBlk; rw [heq]
  · rfl

theorem bskelList_pass1 (cs : List Node) : bskelList (pass1 cs) = bskelList cs := by
  induction cs with
  | nil => rfl
  | cons c r ih =>
    simp only [pass1, List.map_cons, bskelList, markerToText_isBlk] at ih ⊢
    split
    · next hb => rw [markerToText_blk c hb, ih]
    · exact ih

theorem bskelList_filter_keep (l : List Node) : bskelList (l.filter keep) = bskelList l := by
  induction l with
  | nil => rfl
  | cons c r ih =>
    simp only [List.filter_cons]
    split
    · simp only [bskelList, ih]
    · next hk =>
      have : c.isText = true := by
        unfold keep at hk
        cases ht : c.isText with
        | true => rfl
        | false => simp [ht] at hk
      rw [bskelList_cons_inl (isBlk_of_isText this), ih]

theorem bskelList_fragmentsJoin (cs : List Node) : bskelList (fragmentsJoin cs) = bskelList cs := by
  unfold fragmentsJoin
  rw [bskelList_filter_keep, ← bskelList_pass1 cs]
  cases pass1 cs with
  | nil => rfl
  | cons c r => simp only [mergeAll]; exact bskelList_mergeLoop c r

theorem joinNode_isBlk (n : Node) : (joinNode n).isBlk = n.isBlk := by
  unfold Node.isBlk; rw [joinNode_kind]

theorem bskelList_map_join (l : List Node) (h : ∀ c ∈ l, bskel (joinNode c) = bskel c) :
    bskelList (l.map joinNode) = bskelList l := by
  induction l with
  | nil => rfl
  | cons c r ih =>
    simp only [List.map_cons, bskelList, joinNode_isBlk]
    rw [h c (by simp), ih (fun x hx => h x (List.mem_cons_of_mem _ hx))]

theorem joinNode_bskel_aux (k : Nat) : ∀ n : Node, nsize n ≤ k → bskel (joinNode n) = bskel n := by
  induction k with
  | zero => intro n hn; have := nsize_eq n; omega
  | succ k ih =>
    intro n hn
    rw [joinNode_eq, bskel_eq, bskel_eq n]
    simp only
    rw [joinList_eq_map, bskelList_map_join, bskelList_fragmentsJoin]
    intro c hc
    apply ih
    have h1 := nsize_le_of_mem hc
    have h2 := nsizeList_fragmentsJoin_le n.children
    have h3 := nsize_eq n
    omega

theorem joinNode_bskel (n : Node) : bskel (joinNode n) = bskel n := joinNode_bskel_aux _ n (Nat.le_refl _)

/-! ## the sourcepos pass -/

mutual
theorem sourceposNode_bskel {src : List Char} {marks : List SourceMap.Mark} (t t' : Node)
    (h : sourceposNode src marks t = .ok t') : bskel t' = bskel t ∧ t'.isBlk = t.isBlk := by
  match t with
  | ⟨k, r, a, cs⟩ =>
    simp only [sourceposNode] at h
    split at h
    · cases h
    · split at h
      · cases h
      · rename_i cs' hcs
        cases h
        simp only [bskel]
        rw [sourceposList_bskel cs cs' hcs]
        exact ⟨rfl, rfl⟩
theorem sourceposList_bskel {src : List Char} {marks : List SourceMap.Mark} (cs cs' : List Node)
    (h : sourceposList src marks cs = .ok cs') : bskelList cs' = bskelList cs := by
  match cs with
  | [] => simp [sourceposList] at h; subst h; rfl
  | c :: r =>
    simp only [sourceposList] at h
    split at h
    · cases h
    · rename_i c' hc
      split at h
      · cases h
      · rename_i r' hr
        cases h
        obtain ⟨h1, h2⟩ := sourceposNode_bskel c c' hc
        simp only [bskelList, h1, h2, sourceposList_bskel r r' hr]
end


/-! ## ranged skeletons -/

/-- consecutive ranges inside `[lo, hi]`: every tree has a range `(a, b)`, `a ≤ b`, and starts at
    or behind the end of its left neighbour -/
def OrderedRT : Nat → Nat → List RT → Prop
  | lo, hi, [] => lo ≤ hi
  | lo, hi, n :: rest => ∃ a b, n.range = some (a, b) ∧ lo ≤ a ∧ a ≤ b ∧ OrderedRT b hi rest

/-- C05 on a tree of ranges: every node has a range `(a, b)` with `a ≤ b ≤ |src|`, both on character
    boundaries of `src`; the ranges of its children lie inside `[a, b]`, in order, without overlap;
    recursively -/
inductive RangedRT (src : List Char) : RT → Prop
  | mk (n : RT) (a b : Nat) : n.range = some (a, b) → a ≤ b → b ≤ Lines.byteLen src →
    Lines.onBoundary src a = true → Lines.onBoundary src b = true → OrderedRT a b n.kids →
    (∀ c ∈ n.kids, RangedRT src c) → RangedRT src n

theorem OrderedRT.widen {lo hi lo' hi' : Nat} {l : List RT} (h : OrderedRT lo hi l)
    (h1 : lo' ≤ lo) (h2 : hi ≤ hi') : OrderedRT lo' hi' l := by
  induction l generalizing lo lo' with
  | nil => simp only [OrderedRT] at h ⊢; omega
  | cons x r ih =>
    obtain ⟨a, b, q1, q2, q3, q4⟩ := h
    exact ⟨a, b, q1, by omega, q3, ih q4 (Nat.le_refl _)⟩

theorem isInlKind_iff {k : Block.Kind} : isInlKind k = true ↔ ∃ c m, k = .inlineRoot c m := by
  cases k <;> simp [isInlKind]

mutual
theorem rangedRT_node {P : Block.InlP} {src : List Char} (b : Block.BNode) (h : Block.RangedB P src b)
    (a z : Nat) (hr : b.range = some (a, z)) : RangedRT src (bskelB b) := by
  match b with
  | ⟨k, r, cs⟩ =>
    obtain ⟨h1, h2, h3, h4⟩ := h.at a z hr
    obtain ⟨l1, l2⟩ := rangedRT_list cs a z h4 h.child
    exact .mk _ a z (by simp only [bskelB]; exact hr) h1 h3.le h2.onBoundary h3.onBoundary
      (by simp only [bskelB]; exact l1) (by simp only [bskelB]; exact l2)
theorem rangedRT_list {P : Block.InlP} {src : List Char} (cs : List Block.BNode) (lo hi : Nat)
    (ho : Block.OrderedB P lo hi cs) (hd : ∀ c ∈ cs, Block.RangedB P src c) :
    OrderedRT lo hi (bskelBList cs) ∧ ∀ x ∈ bskelBList cs, RangedRT src x := by
  match cs with
  | [] => exact ⟨ho, by simp [bskelBList]⟩
  | c :: rest =>
    obtain ⟨a, b, hsp, h1, h2, h3⟩ := ho
    obtain ⟨i1, i2⟩ := rangedRT_list rest b hi h3 (fun x hx => hd x (List.mem_cons_of_mem _ hx))
    simp only [bskelBList]
    split
    · exact ⟨i1.widen (by omega) (Nat.le_refl _), i2⟩
    · next hk =>
      have hrange := Block.spanB_kind hsp (fun c' m hc => hk (isInlKind_iff.mpr ⟨c', m, hc⟩))
      have hn := rangedRT_node c (hd c (by simp)) a b hrange
      refine ⟨⟨a, b, by rw [bskelB_eq]; exact hrange, h1, h2, i1⟩, ?_⟩
      intro x hx
      rcases List.mem_cons.mp hx with rfl | hx
      · exact hn
      · exact i2 x hx
end

/-! ## the document theorems -/

/-- the block skeleton of the parsed tree is the skeleton of the tree of the block pass: the splice
    walk, the join pass and the sourcepos pass neither move, add nor drop a block node, nor touch a
    block range -/
theorem doc_block_skeleton {cfg : DocCfg} {src : List Char} {t : Node} (h : parseDoc cfg src = .ok t) :
    ∃ root refs, Block.parseBlocks cfg.blockCfg src = .ok (root, refs) ∧ bskel t = bskelB root := by
  unfold parseDoc at h
  split at h
  · cases h
  · rename_i root refs hb
    refine ⟨root, refs, hb, ?_⟩
    unfold afterBlocks at h
    split at h
    · cases h
    · rename_i t0 hs
      have h0 := spliceNode_bskel root t0 hs
      have h1 : bskel (if cfg.hasJoin = true then joinNode t0 else t0) = bskelB root := by
        split
        · rw [joinNode_bskel, h0]
        · exact h0
      simp only at h
      split at h
      · rw [(sourceposNode_bskel _ _ h).1, h1]
      · cases h; exact h1

/-- **`doc_root_range`.**  The root of every parsed tree carries the range `(0, |src|)`. -/
theorem doc_root_range (cfg : DocCfg) (src : List Char) (t : Node) (h : parseDoc cfg src = .ok t) :
    t.range = some (0, Lines.byteLen src) := by
  obtain ⟨root, refs, hb, hsk⟩ := doc_block_skeleton h
  have h1 : root.range = some (0, Lines.byteLen src) := by
    unfold Block.parseBlocks at hb
    split at hb
    · cases hb
    · cases hb; rfl
  rw [bskel_eq, bskelB_eq] at hsk
  have := congrArg RT.range hsk
  simp only at this
  rw [this, h1]

/-- the trivial claim about placeholders (the block-level theorem needs none) -/
def PTriv : Block.InlP := fun _ _ _ _ => True

theorem inlSpec_triv (para : Bool) : Block.InlSpec para PTriv :=
  ⟨fun _ _ _ _ _ _ _ _ _ _ _ _ => trivial, fun _ _ _ _ _ _ _ _ _ _ => trivial, fun _ _ _ _ _ _ _ => trivial⟩

/-- **`doc_block_ranges`.**  In the tree `parseDoc` returns, every BLOCK node carries a range `(a, b)`
    with `a ≤ b ≤ |src|` on character boundaries of the source; the ranges of its block-level
    children lie inside `[a, b]`, each starting at or behind the end of the previous one; at every
    depth.  (`bskel t` is the tree of the block nodes of `t` with their ranges; inline-level nodes are
    the subject of `doc_inline_ranges`.)  The size bound is the one the `i32` fields
    `indent_nonspace` / `blk_indent` of the Rust force (`Lines.usizeAsI32` is exact below it). -/
theorem doc_block_ranges (cfg : DocCfg) (src : List Char) (t : Node)
    (hsmall : 4 * Lines.byteLen src + 8 < 2147483648) (h : parseDoc cfg src = .ok t) :
    RangedRT src (bskel t) := by
  obtain ⟨root, refs, hb, hsk⟩ := doc_block_skeleton h
  obtain ⟨hr, hg⟩ := Block.parseBlocks_geo (inlSpec_triv _) hsmall hb
  rw [hsk]
  exact rangedRT_node root hg _ _ hr

theorem OrderedRT.le {lo hi : Nat} {l : List RT} (h : OrderedRT lo hi l) : lo ≤ hi := by
  induction l generalizing lo with
  | nil => exact h
  | cons n r ih =>
    obtain ⟨a, b, _, h2, h3, h4⟩ := h
    have := ih h4; omega

/-- in an ordered list every member lies inside `[lo, hi]` -/
theorem OrderedRT.mem {lo hi : Nat} {l : List RT} (h : OrderedRT lo hi l) :
    ∀ c ∈ l, ∃ a b, c.range = some (a, b) ∧ lo ≤ a ∧ a ≤ b ∧ b ≤ hi := by
  induction l generalizing lo with
  | nil => simp
  | cons n r ih =>
    obtain ⟨a, b, h1, h2, h3, h4⟩ := h
    intro c hc
    rcases List.mem_cons.mp hc with rfl | hc
    · exact ⟨a, b, h1, h2, h3, h4.le⟩
    · obtain ⟨a', b', q1, q2, q3, q4⟩ := ih h4 c hc
      exact ⟨a', b', q1, by omega, q3, q4⟩

/-- a child's range lies within its parent's -/
theorem RangedRT.child_within {src : List Char} {n : RT} (h : RangedRT src n) :
    ∃ a b, n.range = some (a, b) ∧ ∀ c ∈ n.kids, ∃ a' b', c.range = some (a', b') ∧ a ≤ a' ∧ a' ≤ b' ∧ b' ≤ b := by
  cases h with
  | mk _ a b hr _ _ _ _ ho _ => exact ⟨a, b, hr, ho.mem⟩

/-! ## the complete property, on the document tree -/

/-- consecutive ranges inside `[lo, hi]` -/
def OrderedD : Nat → Nat → List Node → Prop
  | lo, hi, [] => lo ≤ hi
  | lo, hi, n :: rest => ∃ a b, n.range = some (a, b) ∧ lo ≤ a ∧ a ≤ b ∧ OrderedD b hi rest

/-- C05 at one node: a valid range on character boundaries, the children inside it in source order
    without overlap, and a `Text` whose range holds no line break selects its content -/
def NodeOk (src : List Char) (n : Node) : Prop :=
  ∃ a b, n.range = some (a, b) ∧ a ≤ b ∧ b ≤ Lines.byteLen src ∧
    Lines.onBoundary src a = true ∧ Lines.onBoundary src b = true ∧ OrderedD a b n.children ∧
    ∀ c, n.kind = .inl (.text c) → ∀ w, Lines.slice src a b = .ok w → '\n' ∉ w → '\r' ∉ w → w = c

/-- **C05**, complete: the root covers the source, every node is `NodeOk` -/
def RangesOk (src : List Char) (t : Node) : Prop :=
  t.range = some (0, Lines.byteLen src) ∧ Every (NodeOk src) t

theorem OrderedD.widen {lo hi lo' hi' : Nat} {l : List Node} (h : OrderedD lo hi l)
    (h1 : lo' ≤ lo) (h2 : hi ≤ hi') : OrderedD lo' hi' l := by
  induction l generalizing lo lo' with
  | nil => simp only [OrderedD] at h ⊢; omega
  | cons x r ih =>
    obtain ⟨a, b, q1, q2, q3, q4⟩ := h
    exact ⟨a, b, q1, by omega, q3, ih q4 (Nat.le_refl _)⟩

mutual
/-- the block-level theorem is the projection of the complete property to the block skeleton -/
theorem rangesOk_bskel {src : List Char} (n : Node) (h : Every (NodeOk src) n) : RangedRT src (bskel n) := by
  match n with
  | ⟨k, r, at_, cs⟩ =>
    obtain ⟨a, b, hr, h1, h2, h3, h4, h5, _⟩ := h.here
    obtain ⟨l1, l2⟩ := rangesOk_bskelList cs a b h5 h.child
    exact .mk _ a b (by simp only [bskel]; exact hr) h1 h2 h3 h4 (by simp only [bskel]; exact l1)
      (by simp only [bskel]; exact l2)
theorem rangesOk_bskelList {src : List Char} (cs : List Node) (lo hi : Nat) (ho : OrderedD lo hi cs)
    (hd : ∀ c ∈ cs, Every (NodeOk src) c) :
    OrderedRT lo hi (bskelList cs) ∧ ∀ x ∈ bskelList cs, RangedRT src x := by
  match cs with
  | [] => exact ⟨ho, by simp [bskelList]⟩
  | c :: rest =>
    obtain ⟨a, b, hr, h1, h2, h3⟩ := ho
    obtain ⟨i1, i2⟩ := rangesOk_bskelList rest b hi h3 (fun x hx => hd x (List.mem_cons_of_mem _ hx))
    simp only [bskelList]
    split
    · have hn := rangesOk_bskel c (hd c (by simp))
      refine ⟨⟨a, b, by rw [bskel_eq]; exact hr, h1, h2, i1⟩, ?_⟩
      intro x hx
      rcases List.mem_cons.mp hx with rfl | hx
      · exact hn
      · exact i2 x hx
    · exact ⟨i1.widen (by omega) (Nat.le_refl _), i2⟩
end

/-! ## non-vacuity and witnesses -/

mutual
/-- a skeleton in pre-order: (depth, start, end) -/
def flatRT (d : Nat) : RT → List (Nat × Nat × Nat)
  | ⟨r, ks⟩ => (d, (r.getD (0, 0)).1, (r.getD (0, 0)).2) :: flatRTList (d + 1) ks
def flatRTList (d : Nat) : List RT → List (Nat × Nat × Nat)
  | [] => []
  | k :: ks => flatRT d k ++ flatRTList d ks
end

/-- a quote holding a two-line list item, then an indented code block -/
def exDoc5 : List Char := "> - a\n>   b\n\n    code".toList

example : (parseDoc (exCfg false 100) exDoc5).toOption.map (·.range) = some (some (0, 21)) := by
  decide +kernel

/-- root, quote, list, item (its tight paragraph is dissolved), code block -/
example : (parseDoc (exCfg false 100) exDoc5).toOption.map (fun t => flatRT 0 (bskel t)) =
    some [(0, 0, 21), (1, 0, 11), (2, 2, 11), (3, 2, 11), (1, 17, 21)] := by decide +kernel

theorem exDoc5_parses : ∃ t, parseDoc (exCfg false 100) exDoc5 = .ok t := by
  have h : (parseDoc (exCfg false 100) exDoc5).toOption.isSome = true := by decide +kernel
  cases hp : parseDoc (exCfg false 100) exDoc5 with
  | ok t => exact ⟨t, rfl⟩
  | error e => rw [hp] at h; cases h

/-- the hypotheses of `doc_root_range` / `doc_block_ranges` are satisfiable -/
example : ∃ t, parseDoc (exCfg false 100) exDoc5 = .ok t ∧ t.range = some (0, 21) ∧ RangedRT exDoc5 (bskel t) := by
  obtain ⟨t, ht⟩ := exDoc5_parses
  exact ⟨t, ht, doc_root_range _ _ t ht, doc_block_ranges _ _ t (by decide +kernel) ht⟩

/-- the delicate starts: an indented code block on the first line of a list item keeps the one
    column beyond the item's content column (`-` + 6 blanks: starts at byte 6, behind the marker), and
    behind a quote marker and two tabs (the second tab is split into virtual spaces) it starts at the
    first non-blank -/
example : (parseDoc (exCfg false 100) "-      code\n".toList).toOption.map (fun t => flatRT 0 (bskel t)) =
    some [(0, 0, 12), (1, 0, 11), (2, 0, 11), (3, 6, 11)] := by decide +kernel
example : (parseDoc (exCfg false 100) ">\t\tcode".toList).toOption.map (fun t => flatRT 0 (bskel t)) =
    some [(0, 0, 7), (1, 0, 7), (2, 3, 7)] := by decide +kernel

/-- the split tab of `"- a\n\n \tb"` (the repaired `get_lines` mapping): the second paragraph and its
    text are `(7, 8)`, inside the 8-byte input -/
example : (parseDoc (exCfg false 100) "- a\n\n \tb".toList).toOption.map (fun t => flatRT 0 (bskel t)) =
    some [(0, 0, 8), (1, 0, 8), (2, 0, 8), (3, 2, 3), (3, 7, 8)] := by decide +kernel

/-- **Witness: the no-paragraph fallback violates C05** (model and crate agree: `md.parse("a")` with
    only the `hr` block rule and the `newline` inline rule gives `Softbreak` at `(1, 2)` under
    `Root (0, 1)`).  The fallback hands the inline parser `line + "\n"` mapped at `first_nonspace`,
    so the line feed is translated to `line_end .. line_end + 1`: beyond the source for a last line
    without terminator, and onto the `\r` only of a CR LF.  `doc_inline_ranges` therefore needs the
    paragraph rule in the chain (`DocCfg.hasPara`), which makes the fallback dead code. -/
example : (parseDoc { exCfg false 100 with blockChain := [.hr], inlineChain := [.text, .newline] }
      "a".toList).toOption.map (fun t => (t.range, t.children.map (fun c => (c.kind, c.range)))) =
    some (some (0, 1), [(.inl (.text ['a']), some (0, 1)), (.inl .softbreak, some (1, 2))]) := by
  decide +kernel

example : (parseDoc { exCfg false 100 with blockChain := [.hr], inlineChain := [.text, .newline] }
      "a\r\nb".toList).toOption.map (fun t => t.children.map (fun c => c.range)) =
    some [some (0, 1), some (1, 2), some (3, 4), some (4, 5)] := by decide +kernel


/-
OPEN: `doc_inline_ranges`, `doc_text_faithful` — the complete property `RangesOk`.

  theorem doc_ranges_ok (cfg : DocCfg) (src : List Char) (t : Node)
      (hsmall : 4 * Lines.byteLen src + 8 < 2147483648)
      (hpara : cfg.hasPara = true)                      -- needed: witness above (no-paragraph fallback)
      (hmono : no `get_lines` table of the block pass has a virtual-space entry, e.g. `'\t' ∉ src`)
      (h : parseDoc cfg src = .ok t) : RangesOk src t

  What is proved of it: the root clause (`doc_root_range`) and its whole block-level projection
  (`doc_block_ranges` = `rangesOk_bskel` of the statement above), for ALL documents, tabs included.
  What is prepared: the induction over the block tokenizer is done ONCE for an arbitrary claim
  `P content mapping a b` about placeholders (`parseBlocks_geo`, hypothesis `InlSpec cfg.hasPara P`):
  whatever `P` the two producers of placeholders establish, every placeholder's `P`-stretch `[a, b]`
  sits in `OrderedB` position among its siblings inside its parent's range — also after
  `mark_tight_paragraphs` dissolved its paragraph (`markTight_geo`).  Missing, precisely:

   1. `InlSpec true PMap` for
        PMap c m a b := C05.WFMap m ∧ Inline.KeysAfterLF c m ∧ C05.MonoMapV m ∧
          ∀ pos x, (Inline.trimSrc c).1 ≤ pos → pos ≤ (Inline.trimSrc c).2 →
            InlineOps.getSourcePosFor m pos = .ok x → a ≤ x ∧ x ≤ b
      i.e. two lemmas about `Lines.getLines` on a `Geo` state, both by induction over
      `Lines.mapOf` / `Lines.Faithful` (`Lines.getLinesGo_full` gives `mapping = mapOf indent 0 ovs`,
      `views_of_tableOk` the views):
        (a) `lines`: keys `0 <` strictly increasing, each key behind a line feed of the content
            (`joinLines`), values = `line_start + cut` non-decreasing along `Sorted`, the translation
            of `[trim start, trim end]` inside `[first_nonspace b, line_end (e-1)]` (the leading
            blanks `get_lines` keeps beyond `blk_indent` are what `trim_src` skips);
        (b) `heading`: the one-entry table `[(0, first_nonspace + text_pos)]`, with
            `text_max ≤ |line|` from `atxTextMax`.
   2. `Inline.inline_children_ordered` needs `MapOK` = `WFMap ∧ MonoMap ∧ KeysAfterLF`; `MonoMap` fails
      exactly for a split tab (`C05.exMap`, `C05.translateRaw_not_mono_inside_virtual`), hence `hmono`; and it yields
      `posEnd` without the bound `posEnd ≤ (trimSrc content).2` — wanted: `st.pos ≤ st.posMax` at the
      exit of `Inline.tokenize` (from `Inline.tokenize_progress`: `pos + len ≤ posMax`).
   3. the splice walk on the full tree: `spliceList` maps `OrderedB PMap lo hi cs` to
      `OrderedD lo hi out` (the inline children `ofInlineList ns` of a placeholder are
      `Inline.OrderedN (tr trim_start) (tr posEnd) ns` by 2, inside the placeholder's stretch by 1);
      `ofInline` maps `Inline.WellRanged` to `Every NodeOk`-without-the-text-clause.
   4. the join pass: `merged` takes the hull of two adjacent texts (`C05.join_ordered` on the
      inline node type; here needed on `Pipeline.Node`, at block nodes too — the fallback aside,
      block nodes have no two adjacent `Text` children unless a tight item holds two dissolved
      paragraphs, whose texts the join pass DOES merge: their hull stays inside the item).
   5. `doc_text_faithful`: `Inline.RI.trail` gives `content = inline_src[start..pos]` and
      `range = (tr start, tr pos)` for the TRAILING text only; wanted for every `Text` of the finished
      tree, then `Lines.Faithful` (content bytes = source bytes at the mapped positions, per line) +
      `Inline.translate_same_line` carry it to `src[a..b] = content` when no key lies inside — which is
      what "no line break in the range" provides (`Inline.no_key_inside`).  Escapes, entities and
      code-span texts are not `Text` (`TextSpecial`, `CodeInline`) and the join pass merges `Text`
      with `Text` only, so the clause is expected to hold as stated: no counter-example by evaluation
      on samples with split tabs in first and continuation lines, escapes, entities, hard breaks,
      left-over delimiters and closing `#`s of ATX headings (all `Text` ranges selected their content).
-/

end MdIt.Pipeline
