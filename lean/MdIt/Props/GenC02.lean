/-
  Tie of the nesting-level increments to the current Rust source (properties C02, C01).
  `MdIt/Gen/Consts.lean` is regenerated from /repo by extract/extract.py on every run.
-/
import MdIt.Props.C02
import MdIt.Gen.Consts

namespace MdIt.Nesting

/-- **Tie to the source (regenerated on every run).** The level increments found by the static scan of
the five recursive call sites in /repo are exactly the table the bounds are proved for. A reverted
increment turns a `1` into a `0` in `Gen.Consts.levelSites` and this obligation fails. -/
theorem gen_levelSites : MdIt.Gen.Consts.levelSites = currentSites.toList := by decide

theorem gen_sites_raising :
    (Sites.ofList MdIt.Gen.Consts.levelSites).map Sites.raising = some true := by decide

end MdIt.Nesting
