/-
  C11 — code content is opaque and reproduced verbatim: the code-span part.

  `span_verbatim`      : `` `ⁿ ␠ T ␠ `ⁿ `` at position 0, fresh cache: one node spanning everything,
                         content = `T` with '\n' ↦ ' '.
  `span_verbatim_ctx`  : the same span anywhere in a paragraph (`pre ++ span ++ W ++ Z`), called with
                         ANY cache satisfying the invariant the rule maintains (`CacheInv`, preserved by
                         every call — `cacheInv_run`), any `pos_max` at or after the closer.
  `no_early_close`, `strip_exact` : the two lemmas behind it.
  `span_opaque`        : for EVERY successful real-mode call on every source and cache, the content is
                         `unpad (normalise (src[pos+L .. pos+len-L]))` — a function of the characters
                         between the delimiters only; nothing inside is interpreted.
-/
import MdIt.Props.CodePair
namespace MdIt.CodePair

/-! ## the two lemmas -/

theorem infix_cons_ne {m c : Char} {n : Nat} {T : List Char} (hn : 0 < n) (hc : m ≠ c)
    (h : List.replicate n m <:+: c :: T) : List.replicate n m <:+: T := by
  obtain ⟨a, b, hab⟩ := h
  cases a with
  | nil =>
    obtain ⟨k, rfl⟩ : ∃ k, n = k + 1 := ⟨n - 1, by omega⟩
    simp [List.replicate_succ] at hab
    exact absurd hab.1 hc
  | cons d a =>
    simp at hab
    exact ⟨a, b, by simpa using hab.2⟩

theorem infix_concat_ne {m c : Char} {n : Nat} {T : List Char} (hn : 0 < n) (hc : m ≠ c)
    (h : List.replicate n m <:+: T ++ [c]) : List.replicate n m <:+: T := by
  have h' : (List.replicate n m).reverse <:+: (T ++ [c]).reverse := List.reverse_infix.mpr h
  rw [List.reverse_replicate, List.reverse_append] at h'
  have := infix_cons_ne hn hc h'
  rw [← List.reverse_replicate] at this
  exact List.reverse_infix.mp this

/-- **no early close.** If `T` has no run of `n` markers (every marker run in `T` is shorter than
    `n`), neither has `␠ T ␠`: the padding spaces cannot create or lengthen a run, whatever `T`
    starts or ends with. -/
theorem no_early_close {m : Char} {n : Nat} {T : List Char} (hn : 0 < n) (hm : m ≠ ' ')
    (h : ¬ List.replicate n m <:+: T) : ¬ List.replicate n m <:+: ' ' :: T ++ [' '] := by
  intro hi
  apply h
  have := infix_concat_ne (T := ' ' :: T) hn hm (by simpa using hi)
  exact infix_cons_ne hn hm this

/-- **strip exact.** From `␠ U ␠` with `U` non-empty exactly the one padding pair is removed —
    also when `U` itself starts and/or ends with spaces, or consists of spaces only. -/
theorem strip_exact (U : List Char) (hU : U ≠ []) :
    padded (' ' :: U ++ [' ']) = true ∧ unpad (' ' :: U ++ [' ']) = U := by
  have hsp : (' ' : Char).utf8Size = 1 := by decide
  have hp : padded (' ' :: U ++ [' ']) = true := by
    unfold padded
    have hpos : 0 < byteLen U := by
      cases U with
      | nil => exact absurd rfl hU
      | cons d t => have := Char.utf8Size_pos d; simp [byteLen]; omega
    simp [byteLen, byteLen_append, hsp]
    refine ⟨?_, by omega⟩
    rw [show ' ' :: (U ++ [' ']) = (' ' :: U) ++ [' '] by simp, List.getLast?_concat]
  exact ⟨hp, unpad_eq hp⟩

/-- without content between the padding spaces nothing is stripped (`` `  ` `` keeps both) -/
example : padded [' ', ' '] = false ∧ unpad [' ', ' '] = [' ', ' '] := by decide +kernel

theorem normalise_append (a b : List Char) : normalise (a ++ b) = normalise a ++ normalise b := by
  simp [normalise]

theorem normalise_ne_nil {T : List Char} (h : T ≠ []) : normalise T ≠ [] := by
  cases T with
  | nil => exact absurd rfl h
  | cons c t => simp [normalise]


/-! ## the scan reaches the closing run -/

theorem span_scan (v : Variant) (m : Char) (hm1 : m.utf8Size = 1) (hm : m ≠ ' ') (src : List Char)
    (pos p posMax k : Nat) (X0 W Z : List Char) (hW : W.head? ≠ some m) :
    ∀ (M0 X1 : List Char) (matchEnd : Nat) (c : Cache),
      ¬ List.replicate (k + 1) m <:+: M0 →
      Frame src pos p posMax matchEnd X0 X1 (M0 ++ [' '] ++ List.replicate (k + 1) m ++ W) Z →
      ∃ c', scan v m src pos posMax (k + 1) p false matchEnd c =
        .ok (some ⟨matchEnd + byteLen M0 + 1 + (k + 1) - pos,
              some (nodeOf pos p (matchEnd + byteLen M0 + 1) (matchEnd + byteLen M0 + 1 + (k + 1))
                (k + 1) (X1 ++ M0 ++ [' ']))⟩, c') := by
  have hsp : (' ' : Char).utf8Size = 1 := by decide
  intro M0
  induction M0 using runs_induction (m := m) with
  | nomark M0 hM0 =>
    intro X1 matchEnd c _ f
    have hA : m ∉ M0 ++ [' '] := by simp [hM0, hm]
    obtain ⟨h1, h2, h3⟩ := f.hit_args hm1
    have hge : pos ≤ matchEnd := by have := f.hme; have := f.hpos; omega
    have hb : byteLen (M0 ++ [' ']) = byteLen M0 + 1 := by simp [byteLen_append, byteLen, hsp]
    rw [scan_hit v m hm1 pos (k + 1) p false c h1 h2 h3 hA hW, if_pos rfl, if_neg (by omega),
      if_neg (by simp), f.mkNode (k + 1)]
    simp only [hb, ← Nat.add_assoc, List.append_assoc]
    exact ⟨c, rfl⟩
  | hit A j T hA hT ih =>
    intro X1 matchEnd c hni f
    have hjk : j + 1 ≠ k + 1 := by
      intro e; apply hni; rw [e]; exact ⟨A, T, rfl⟩
    have hT' : (T ++ [' '] ++ List.replicate (k + 1) m ++ W).head? ≠ some m := by
      cases T with
      | nil => simp; exact fun e => hm e.symm
      | cons t T => simpa using hT
    have f' : Frame src pos p posMax matchEnd X0 X1
        (A ++ List.replicate (j + 1) m ++ (T ++ [' '] ++ List.replicate (k + 1) m ++ W)) Z := by
      have e : A ++ List.replicate (j + 1) m ++ T ++ [' '] ++ List.replicate (k + 1) m ++ W =
          A ++ List.replicate (j + 1) m ++ (T ++ [' '] ++ List.replicate (k + 1) m ++ W) := by simp
      rw [← e]; exact f
    obtain ⟨h1, h2, h3⟩ := f'.hit_args hm1
    rw [scan_hit v m hm1 pos (k + 1) p false c h1 h2 h3 hA hT', if_neg hjk]
    obtain ⟨mx, hmx, _⟩ := record_spec v.monotone c.max (j + 1) (matchEnd + byteLen A)
    rw [hmx]
    have hni' : ¬ List.replicate (k + 1) m <:+: T := by
      intro ⟨a, b, hab⟩
      apply hni
      exact ⟨A ++ List.replicate (j + 1) m ++ a, b, by rw [← hab]; simp⟩
    obtain ⟨c', hc'⟩ := ih (X1 ++ A ++ List.replicate (j + 1) m) _ { c with max := mx } hni' (f'.next hm1)
    refine ⟨c', ?_⟩
    simp only at hc' ⊢
    rw [hc']
    have e1 : matchEnd + byteLen A + (j + 1) + byteLen T =
        matchEnd + byteLen (A ++ List.replicate (j + 1) m ++ T) := by
      simp only [byteLen_append, byteLen_replicate hm1]; omega
    have e2 : X1 ++ A ++ List.replicate (j + 1) m ++ T ++ [' '] =
        X1 ++ (A ++ List.replicate (j + 1) m ++ T) ++ [' '] := by simp
    rw [e1, e2]


theorem nodeOf_padded (pos p ms me n : Nat) (T : List Char) (hT : T ≠ []) :
    nodeOf pos p ms me n (' ' :: T ++ [' ']) = ⟨n, pos, me, p + 1, ms - 1, normalise T⟩ := by
  have hn : normalise (' ' :: T ++ [' ']) = ' ' :: normalise T ++ [' '] := by
    simp [normalise]
  obtain ⟨h1, h2⟩ := strip_exact (normalise T) (normalise_ne_nil hT)
  unfold nodeOf
  rw [hn, h2, if_pos h1, if_pos h1]

/-! ## the theorems -/

/-- **C11 (code span, in context).** Let the paragraph be `pre ++ mᵏ⁺¹ ␠ T ␠ mᵏ⁺¹ ++ W ++ Z`
    with `T` non-empty, no run of `k+1` markers inside `T` (every run in `T` is shorter than the
    delimiters — or longer runs are absent: only "no run of exactly-or-more `k+1`" is used), and
    `W` (the text up to `pos_max`) not starting with the marker. Call the rule in real mode at the
    opener with ANY cache `c` that satisfies the invariant maintained by the rule (`cacheInv_run`),
    does not list the position as inside a failed run, and whose table is applicable
    (`pos_max = scanned_to` or `pos_max` not cutting a run). Then it answers `Some(len)` with `len`
    the whole span, and the node's single text is `T` with every `'\n'` turned into `' '`:
    nothing else in `T` is touched, the one padding pair is removed. -/
theorem span_verbatim_ctx (m : Char) (hm1 : m.utf8Size = 1) (hm : m ≠ ' ')
    (pre T W Z : List Char) (k : Nat) (hT : T ≠ []) (hruns : ¬ List.replicate (k + 1) m <:+: T)
    (hW : W.head? ≠ some m) (prev : Bool) (c : Cache)
    (hinv : CacheInv m (pre ++ (List.replicate (k + 1) m ++ [' '] ++ T ++ [' '] ++
      List.replicate (k + 1) m) ++ W ++ Z) c)
    (hins : c.insideFailed.contains (byteLen pre) = false)
    (hcut : byteLen pre + (2 * (k + 1) + 2 + byteLen T) + byteLen W = c.scannedTo ∨
      NoCut m (pre ++ (List.replicate (k + 1) m ++ [' '] ++ T ++ [' '] ++
        List.replicate (k + 1) m) ++ W ++ Z) (byteLen pre + (2 * (k + 1) + 2 + byteLen T) + byteLen W)) :
    ∃ c', run Variant.current m
        (pre ++ (List.replicate (k + 1) m ++ [' '] ++ T ++ [' '] ++ List.replicate (k + 1) m) ++ W ++ Z)
        (byteLen pre) (byteLen pre + (2 * (k + 1) + 2 + byteLen T) + byteLen W) prev false c =
      .ok (some ⟨2 * (k + 1) + 2 + byteLen T,
        some ⟨k + 1, byteLen pre, byteLen pre + (2 * (k + 1) + 2 + byteLen T),
          byteLen pre + (k + 1) + 1, byteLen pre + (k + 1) + 1 + byteLen T, normalise T⟩⟩, c') := by
  have hsp : (' ' : Char).utf8Size = 1 := by decide
  have hrep := byteLen_replicate hm1
  generalize hsrc : pre ++ (List.replicate (k + 1) m ++ [' '] ++ T ++ [' '] ++
    List.replicate (k + 1) m) ++ W ++ Z = src at hinv hcut ⊢
  generalize hpm : byteLen pre + (2 * (k + 1) + 2 + byteLen T) + byteLen W = posMax at hcut ⊢
  -- the first slice
  let rest := List.replicate k m ++ ([' '] ++ T ++ [' '] ++ List.replicate (k + 1) m ++ W)
  have hu : slice src (byteLen pre) posMax = some (m :: rest) := by
    have := slice_mid pre (m :: rest) Z
    have e : src = pre ++ (m :: rest) ++ Z := by
      rw [← hsrc]; simp [rest, List.replicate_succ]
    have e2 : byteLen pre + byteLen (m :: rest) = posMax := by
      rw [← hpm]; simp [rest, byteLen, byteLen_append, hrep, hm1, hsp]; omega
    rw [e, ← e2]; exact this
  have hrl : runLen m rest = k := by
    apply runLen_replicate
    simp; exact fun e => hm e.symm
  -- the call with the table switched off
  have key : ∀ d : Cache, d.scanned = false → d.insideFailed.contains (byteLen pre) = false →
      ∃ c', run Variant.current m src (byteLen pre) posMax prev false d =
        .ok (some ⟨2 * (k + 1) + 2 + byteLen T,
          some ⟨k + 1, byteLen pre, byteLen pre + (2 * (k + 1) + 2 + byteLen T),
            byteLen pre + (k + 1) + 1, byteLen pre + (k + 1) + 1 + byteLen T, normalise T⟩⟩, c') := by
    intro d hd hdi
    rw [run_marker Variant.current m prev false d hu, if_neg (by simp [Variant.current]),
      if_neg (fun h => by rw [hdi] at h; exact Bool.false_ne_true h.2),
      if_neg (by simp [consultable, hd]), hrl]
    have f : Frame src (byteLen pre) (byteLen pre + 1 + k) posMax (byteLen pre + 1 + k)
        (pre ++ List.replicate (k + 1) m) []
        ((' ' :: T) ++ [' '] ++ List.replicate (k + 1) m ++ W) Z := by
      refine ⟨?_, ?_, ?_, ?_, by omega⟩
      · rw [← hsrc]; simp
      · rw [byteLen_append, hrep]; omega
      · simp [byteLen]
      · rw [← hpm]; simp [byteLen, byteLen_append, hrep, hsp]; omega
    have hni : ¬ List.replicate (k + 1) m <:+: ' ' :: T :=
      fun h => hruns (infix_cons_ne (by omega) hm h)
    obtain ⟨c', hc'⟩ := span_scan Variant.current m hm1 hm src (byteLen pre) (byteLen pre + 1 + k)
      posMax k (pre ++ List.replicate (k + 1) m) W Z hW (' ' :: T) [] (byteLen pre + 1 + k) d hni f
    refine ⟨c', ?_⟩
    rw [show 1 + k = k + 1 by omega, hc']
    have e3 : ([] : List Char) ++ ' ' :: T ++ [' '] = ' ' :: T ++ [' '] := by simp
    rw [e3, nodeOf_padded _ _ _ _ _ T hT]
    simp only [byteLen, hsp]
    have e_len : byteLen pre + 1 + k + (1 + byteLen T) + 1 + (k + 1) - byteLen pre =
        2 * (k + 1) + 2 + byteLen T := by omega
    have e_end : byteLen pre + 1 + k + (1 + byteLen T) + 1 + (k + 1) =
        byteLen pre + (2 * (k + 1) + 2 + byteLen T) := by omega
    have e_is : byteLen pre + 1 + k + 1 = byteLen pre + (k + 1) + 1 := by omega
    have e_ie : byteLen pre + 1 + k + (1 + byteLen T) + 1 - 1 =
        byteLen pre + (k + 1) + 1 + byteLen T := by omega
    rw [e_len, e_end, e_is, e_ie]
  -- the real cache answers the same
  obtain ⟨c0, hc0⟩ := key { c with scanned := false } rfl hins
  have ht := cache_transparent Variant.current rfl rfl m hm1 src (byteLen pre) posMax prev false c hinv
    hcut
  rw [hc0] at ht
  cases hrun : run Variant.current m src (byteLen pre) posMax prev false c with
  | error e => rw [hrun] at ht; cases ht
  | ok x =>
    rw [hrun] at ht
    obtain ⟨r, c'⟩ := x
    have hr : (r, c').1 = ((some ⟨2 * (k + 1) + 2 + byteLen T,
        some ⟨k + 1, byteLen pre, byteLen pre + (2 * (k + 1) + 2 + byteLen T),
          byteLen pre + (k + 1) + 1, byteLen pre + (k + 1) + 1 + byteLen T, normalise T⟩⟩ : Option Outcome), c0).1 := by
      injection ht
    simp only at hr
    exact ⟨c', by rw [hr]⟩


theorem noCut_end (m : Char) (src : List Char) : NoCut m src (byteLen src) := by
  rintro ⟨_, _, h⟩
  have := charAt_append_add src [] 0
  rw [List.append_nil, Nat.add_zero, charAt_zero] at this
  rw [this] at h; cases h

/-- **C11 (code span).** For every non-empty `T` and every `n ≥ 1` such that `T` contains no run
    of `n` backticks (i.e. `n` exceeds every backtick run in `T`), the rule run in real mode with a
    fresh cache at position 0 of `` `ⁿ ␠ T ␠ `ⁿ `` (`pos_max` = the whole length; the old `prev`
    flag is irrelevant) returns `Some(whole length)` and one node covering everything whose text
    is `T` with line endings turned into spaces — character for character otherwise: backticks
    (shorter runs), backslashes, `&…;`, `<…>`, `*`, `[`, multi-byte characters are all just content.
    `T ≠ []` is necessary: for `T = []` the content is the two spaces (`strip_exact`'s example). -/
theorem span_verbatim (T : List Char) (n : Nat) (hn : 0 < n) (hT : T ≠ [])
    (hruns : ¬ List.replicate n '`' <:+: T) (prev : Bool) :
    byteLen (List.replicate n '`' ++ [' '] ++ T ++ [' '] ++ List.replicate n '`') =
      2 * n + 2 + byteLen T ∧
    ∃ c', run Variant.current '`' (List.replicate n '`' ++ [' '] ++ T ++ [' '] ++ List.replicate n '`')
        0 (2 * n + 2 + byteLen T) prev false Cache.empty =
      .ok (some ⟨2 * n + 2 + byteLen T,
        some ⟨n, 0, 2 * n + 2 + byteLen T, n + 1, n + 1 + byteLen T, normalise T⟩⟩, c') := by
  obtain ⟨k, rfl⟩ : ∃ k, n = k + 1 := ⟨n - 1, by omega⟩
  have hsp : (' ' : Char).utf8Size = 1 := by decide
  have hlen : byteLen (List.replicate (k + 1) '`' ++ [' '] ++ T ++ [' '] ++ List.replicate (k + 1) '`') =
      2 * (k + 1) + 2 + byteLen T := by
    simp only [byteLen_append, byteLen_replicate backtick_size, byteLen, hsp]; omega
  refine ⟨hlen, ?_⟩
  have hcut : NoCut '`' ([] ++ (List.replicate (k + 1) '`' ++ [' '] ++ T ++ [' '] ++
      List.replicate (k + 1) '`') ++ [] ++ []) (byteLen ([] : List Char) + (2 * (k + 1) + 2 + byteLen T) + byteLen ([] : List Char)) := by
    have := noCut_end '`' (List.replicate (k + 1) '`' ++ [' '] ++ T ++ [' '] ++ List.replicate (k + 1) '`')
    rw [hlen] at this
    simpa [byteLen] using this
  have := span_verbatim_ctx '`' backtick_size (by decide) [] T [] [] k hT hruns (by simp) prev
    Cache.empty (CacheInv.empty _ _) rfl (Or.inr hcut)
  simpa [byteLen] using this

/-- **C11 (opacity).** Whatever the source, the cache, the position and `pos_max`: when a
    real-mode call succeeds, the node's text is `unpad (normalise raw)` where `raw` is exactly the
    slice of `src` between the opening and the closing run — a fixed function of those characters
    (map `'\n' ↦ ' '`, then drop one padding pair if present). No character of `raw` is
    interpreted, and nothing outside `raw` influences the content. -/
theorem span_opaque (v : Variant) (m : Char) (hm1 : m.utf8Size = 1) (src : List Char)
    (pos posMax : Nat) (prev : Bool) (c : Cache) (len : Nat) (nd : Node) (c' : Cache)
    (h : run v m src pos posMax prev false c = .ok (some ⟨len, some nd⟩, c')) :
    ∃ raw, slice src (pos + nd.markerLen) (pos + len - nd.markerLen) = some raw ∧
      nd.content = unpad (normalise raw) ∧ nd.rangeStart = pos ∧ nd.rangeEnd = pos + len ∧
      2 * nd.markerLen ≤ len ∧
      (nd.innerStart, nd.innerEnd) =
        if padded (normalise raw) = true then (pos + nd.markerLen + 1, pos + len - nd.markerLen - 1)
        else (pos + nd.markerLen, pos + len - nd.markerLen) := by
  cases run_path h with
  | other _ _ _ _ hr _ => cases hr
  | prevGuard _ _ _ _ hr _ => cases hr
  | inside _ _ _ _ hr _ => cases hr
  | consult _ _ _ _ _ _ _ hr _ => cases hr
  | scanned rest hu _ hs =>
    obtain ⟨x, T, Z, _, hT, _, _, f⟩ := run_frame hm1 hu
    obtain ⟨ms, R, hms, _, hsl, ho, _, _⟩ :=
      scan_some v m hm1 src pos _ posMax _ false _ Z T [] _ c _ c' f hT hs
    simp only [Bool.false_eq_true, if_false, Outcome.mk.injEq, Option.some.injEq] at ho
    obtain ⟨hlen, hnd⟩ := ho
    subst hnd
    have e1 : pos + (1 + runLen m rest) = pos + 1 + runLen m rest := by omega
    have e2 : pos + len - (1 + runLen m rest) = ms := by omega
    refine ⟨R, ?_, rfl, rfl, ?_, ?_, ?_⟩
    · simp only [nodeOf]; rw [e1, e2]; exact hsl
    · simp only [nodeOf]; omega
    · simp only [nodeOf]; omega
    · simp only [nodeOf]
      split
      · rw [e1, e2]
      · rw [e1, e2]

/-! ## non-vacuity: concrete payloads -/

/-- backticks (runs of 1 < 2), a newline, an entity look-alike, an escape look-alike, markup,
    multi-byte characters: `T = "a`b\n&amp; \* <i> é€𝄞`"` inside double backticks -/
example : ∃ c', run Variant.current '`'
    (List.replicate 2 '`' ++ [' '] ++
      ['a', '`', 'b', '\n', '&', 'a', 'm', 'p', ';', ' ', '\\', '*', ' ', '<', 'i', '>', ' ', 'é', '€', '𝄞', '`']
      ++ [' '] ++ List.replicate 2 '`') 0 (2 * 2 + 2 + 27) false false Cache.empty =
    .ok (some ⟨33, some ⟨2, 0, 33, 3, 30,
      ['a', '`', 'b', ' ', '&', 'a', 'm', 'p', ';', ' ', '\\', '*', ' ', '<', 'i', '>', ' ', 'é', '€', '𝄞', '`']⟩⟩, c') := by
  have := (span_verbatim
    ['a', '`', 'b', '\n', '&', 'a', 'm', 'p', ';', ' ', '\\', '*', ' ', '<', 'i', '>', ' ', 'é', '€', '𝄞', '`']
    2 (by decide) (by decide) (by decide) false).2
  have hb : byteLen ['a', '`', 'b', '\n', '&', 'a', 'm', 'p', ';', ' ', '\\', '*', ' ', '<', 'i', '>', ' ', 'é', '€', '𝄞', '`'] = 27 := by
    decide +kernel
  rw [hb] at this
  exact this

/-- `T` that itself starts and ends with spaces keeps them (only one pair goes) -/
example : ∃ c', run Variant.current '`' (List.replicate 1 '`' ++ [' '] ++ [' ', 'x', ' '] ++ [' '] ++ List.replicate 1 '`')
    0 (2 * 1 + 2 + byteLen [' ', 'x', ' ']) true false Cache.empty =
    .ok (some ⟨2 * 1 + 2 + byteLen [' ', 'x', ' '],
      some ⟨1, 0, 2 * 1 + 2 + byteLen [' ', 'x', ' '], 1 + 1, 1 + 1 + byteLen [' ', 'x', ' '], normalise [' ', 'x', ' ']⟩⟩, c') :=
  (span_verbatim [' ', 'x', ' '] 1 (by decide) (by decide) (by decide) true).2

/-- the hypothesis on runs is needed: a run of exactly `n` inside `T` closes early -/
example : verdictOf (run Variant.current '`' ['`', ' ', 'a', '`', 'b', ' ', '`'] 0 7 false false Cache.empty)
    = some (some 4) := by decide +kernel

/-- in context, with a cache that has been through look-ahead and a failed longer opener
    (the situation of the repaired defects): `pre = "``` "`, span `` ` x ` ``, then `" ``"` -/
example : verdicts (runSeq Variant.current '`'
    ['`', '`', '`', ' ', '`', ' ', 'x', ' ', '`', ' ', '`', '`']
    [⟨0, 12, false, true⟩, ⟨10, 12, false, true⟩, ⟨0, 12, false, false⟩, ⟨1, 12, false, false⟩,
     ⟨2, 12, false, false⟩, ⟨4, 12, false, false⟩] Cache.empty)
    = some [none, none, none, none, none, some 5] := by decide +kernel

end MdIt.CodePair
