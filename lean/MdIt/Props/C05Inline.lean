/-
  C05 at whole-document level, the INLINE half (continues Props/C05Doc.lean, whose OPEN block lists
  items (1)–(5)).

  Property theorems (namespace `MdIt.Pipeline`):
    `doc_ranges_ordered`   for a tab-free source (`'\t' ∉ src`), with the paragraph rule in the block
                           chain and below the `i32` size bound of `doc_block_ranges`: in the tree
                           `parseDoc` returns the root is `(0, |src|)` and EVERY node — block and
                           inline, at every depth, after the splice walk, `FragmentsJoin` and
                           `SyntaxPosRule` — carries a range `(a, b)` with `a ≤ b ≤ |src|`, its
                           children's ranges inside `[a, b]`, in source order, without overlap
                           (`Every (NodeOrd src) t`; `NodeOrd` = `NodeOk` of Props/C05Doc.lean without
                           the character-boundary and text-faithfulness clauses: `doc_ranges_ok_partial`).
    `doc_placeholder_tables`  for EVERY source (tabs included): every `InlineRoot` placeholder the
                           block pass hands to the inline parser satisfies `Block.PMapF src`: its table
                           is `C05.WFMap ∧ C05.MonoMapV`, keys behind line feeds or virtual spaces,
                           `Inline.MapOK` unless a tab was split, trimmed content translated into the
                           block's own range (stated as `RangedB (PMapF src) src root` and, flattened,
                           as `AllInl`).
  Ingredients (Lemmas/C05Inline*.lean): Tables (`getLines_table`), Lower (`getLines_lower`,
  `KeptBlank`), Geo (`Geo2`, `parseBlocks_geo2`, `inlSpec2_pmapF`), Exit (`parseInline_ranges_exact`:
  the inline cursor stops exactly at `pos_max`; `pinl_of_mapOK`), Splice (`afterBlocks_nodeOrd`,
  `parseBlocks_inlNoRange`).

  FINDINGS (about the proof interfaces; no new defect of the crate):
   * `Block.InlSpec true PMap` as planned in the OPEN block of Props/C05Doc.lean is not provable:
     `Block.Geo` is too weak (`exWeak`, `exLead` in Lemmas/C05InlineTables.lean); replaced by `Geo2`.
   * with a split tab the `get_lines` table is not `Inline.MapOK` and positions strictly inside the
     virtual spaces are translated BEYOND the line (`"-    a\n\t\tb"`: content `"a\n   b"`, table
     `[(0,5),(2,9),(5,9)]`, `tr 4 = 11 > 10 = |src|`) — harmless in the crate only because no inline
     rule ever stops inside leading blanks of a continuation line (the newline rule skips them);
     that is the virtual-space-aware version of the inline range theorems, OPEN below.
  EVIDENCE for OPEN A/B: a fuzz of the real crate (400 000 random documents of 3–16 characters over
     `- space tab a LF ` * > 1 . # b \ & [ ] ( ) é`, half of the blanks tabs) found no violation of
     range validity, enclosure, order or character boundaries at any node.
  FINDING (crate, confirmed by probe): clause 3 of C05 (text faithfulness) fails for the `Text` inside
     a code span that continues over a line whose tab is split by a container: ``"- `\n\ta `"`` →
     `Text "  a"` at `(5,6)`, `src[5..6] = "a"` (witness `example` near the end).
-/
import MdIt.Lemmas.C05InlineGeo
import MdIt.Lemmas.C05InlineExit
import MdIt.Lemmas.C05InlineSplice

namespace MdIt.Block

/-! ## changing the claim about placeholders -/

theorem SpanB.imp {P Q : InlP} {n : BNode} {a b : Nat} (hPQ : ∀ c m, P c m a b → Q c m a b)
    (h : SpanB P n a b) : SpanB Q n a b := by
  unfold SpanB at h ⊢
  split
  · next r hr => rw [hr] at h; exact h
  · next hr =>
    rw [hr] at h
    obtain ⟨c, m, h1, h2, h3⟩ := h
    exact ⟨c, m, h1, h2, hPQ c m h3⟩

theorem OrderedB.imp {P Q : InlP} (hPQ : ∀ c m a b, a ≤ b → P c m a b → Q c m a b) :
    ∀ {l : List BNode} {lo hi : Nat}, OrderedB P lo hi l → OrderedB Q lo hi l
  | [], _, _, h => h
  | _ :: _, _, _, ⟨a, b, hs, h1, h2, h3⟩ =>
    ⟨a, b, hs.imp (fun c m => hPQ c m a b h2), h1, h2, OrderedB.imp hPQ h3⟩

theorem RangedB.imp {P Q : InlP} {src : List Char} (hPQ : ∀ c m a b, a ≤ b → P c m a b → Q c m a b)
    {n : BNode} (h : RangedB P src n) : RangedB Q src n := by
  induction h with
  | mk n h1 h2 _ ih =>
    refine .mk n (fun a b hr => ?_) h2 ih
    obtain ⟨q1, q2, q3, q4⟩ := h1 a b hr
    exact ⟨q1, q2, q3, q4.imp hPQ⟩

/-- a claim holds at every placeholder of a block tree -/
inductive AllInl (Q : List Char → List (Nat × Nat) → Prop) : BNode → Prop
  | mk (n : BNode) : (∀ c m, n.kind = .inlineRoot c m → n.range = none → Q c m) →
    (∀ c ∈ n.children, AllInl Q c) → AllInl Q n

theorem orderedB_inl {P : InlP} {Q : List Char → List (Nat × Nat) → Prop}
    (hPQ : ∀ c m a b, P c m a b → Q c m) :
    ∀ {l : List BNode} {lo hi : Nat}, OrderedB P lo hi l →
      ∀ n ∈ l, ∀ c m, n.kind = .inlineRoot c m → n.range = none → Q c m
  | [], _, _, _ => by simp
  | x :: r, _, _, ⟨a, b, hs, _, _, h3⟩ => by
    intro n hn c m hk hr
    rcases List.mem_cons.mp hn with rfl | hn
    · unfold SpanB at hs
      rw [hr] at hs
      obtain ⟨c', m', h1, _, h2⟩ := hs
      rw [hk] at h1
      cases h1
      exact hPQ _ _ _ _ h2
    · exact orderedB_inl hPQ h3 n hn c m hk hr

/-- every placeholder below a ranged node satisfies what `P` says of it -/
theorem RangedB.allInl {P : InlP} {Q : List Char → List (Nat × Nat) → Prop} {src : List Char}
    (hPQ : ∀ c m a b, P c m a b → Q c m) {n : BNode} (h : RangedB P src n)
    (hself : ∀ c m, n.kind = .inlineRoot c m → n.range = none → Q c m) : AllInl Q n := by
  induction h with
  | mk n h1 h2 h3 ih =>
    refine .mk n hself (fun k hk => ih k hk ?_)
    intro c m hkind hrange
    cases hr : n.range with
    | none =>
      obtain ⟨_, _, _, hc⟩ := h2 hr
      rw [hc] at hk; simp at hk
    | some r =>
      obtain ⟨a, b⟩ := r
      obtain ⟨_, _, _, ho⟩ := h1 a b hr
      exact orderedB_inl hPQ ho k hk c m hkind hrange

end MdIt.Block

namespace MdIt.Inline
open MdIt.InlineOps (getSourcePosFor Srcmap)

/-- an empty window (`trim_src` of an all-blank text): the tokenizer makes no node -/
theorem parseInline_empty_window (cfg : Cfg) (c : List Char) (m : Srcmap)
    (h : (trimSrc c).2 ≤ (trimSrc c).1) {cs : List Node} (hp : parseInline cfg c m = .ok cs) :
    cs = [] := by
  unfold parseInline tokenize at hp
  unfold tokLoop at hp
  have : ¬ (IState.init c m).pos < (IState.init c m).posMax := by
    show ¬ (trimSrc c).1 < (trimSrc c).2
    omega
  rw [if_neg this] at hp
  simp only [Except.ok.injEq] at hp
  rw [← hp]
  rfl

end MdIt.Inline

namespace MdIt.Pipeline
open MdIt.InlineOps (getSourcePosFor Srcmap)

/-- in a tab-free document, what the block pass establishes of a placeholder (`PMapF`) is what the
    splice walk needs (`PInl`) -/
theorem pinl_of_pmapF {src : List Char} (htab : '\t' ∉ src) (icfg : Inline.Cfg) (c : List Char)
    (m : Srcmap) (a b : Nat) (hab : a ≤ b) (h : Block.PMapF src c m a b) : PInl icfg c m a b := by
  obtain ⟨hw, _, _, hup, hok, hnv, hlow⟩ := h
  have hm := hok (hnv htab)
  by_cases hlt : (Inline.trimSrc c).1 < (Inline.trimSrc c).2
  · refine Inline.pinl_of_mapOK icfg hm ?_
    intro pos x h1 h2 hx
    refine ⟨hlow hlt pos x h1 hx, hup pos x ?_ ?_ hx⟩
    · have := Inline.trimSrc_le c
      rw [C05I.linesLen_eq]
      omega
    · intro i k1 v1 k2 v2 e1 e2 _ _
      exact .inl (hm.mono i k1 v1 k2 v2 e1 e2)
  · intro ns hns
    have := Inline.parseInline_empty_window icfg c m (by omega) hns
    subst this
    exact ⟨hab, trivial⟩

/-- **`doc_placeholder_tables`.**  Every source, tabs included: the block tree satisfies the
    geometric invariant with the full claim `PMapF src` at every placeholder. -/
theorem doc_placeholder_tables (cfg : DocCfg) (src : List Char)
    (hsmall : 4 * Lines.byteLen src + 8 < 2147483648) (hpara : cfg.hasPara = true)
    {root : Block.BNode} {refs : Refs.RefMap} (hb : Block.parseBlocks cfg.blockCfg src = .ok (root, refs)) :
    Block.RangedB (Block.PMapF src) src root ∧
      Block.AllInl (fun c m => ∃ a b, Block.PMapF src c m a b) root := by
  obtain ⟨hr, hg⟩ := Block.parseBlocks_geo2 (cfg := cfg.blockCfg) hpara (Block.inlSpec2_pmapF src) hsmall hb
  refine ⟨hg, hg.allInl (fun c m a b h => ⟨a, b, h⟩) ?_⟩
  intro c m _ hnone
  rw [hr] at hnone
  cases hnone

/-- **`doc_ranges_ordered`** (= `doc_ranges_ok_partial`: `RangesOk` without the character-boundary
    and the text-faithfulness clauses at inline nodes).  Tab-free source, paragraph rule configured,
    `i32` size bound: the root of the parsed tree is `(0, |src|)` and every node of it — block or
    inline, at every depth — has a range `(a, b)`, `a ≤ b ≤ |src|`, with the ranges of its children
    inside `[a, b]`, in source order, each starting at or behind the end of the previous one. -/
theorem doc_ranges_ordered (cfg : DocCfg) (src : List Char) (t : Node)
    (hsmall : 4 * Lines.byteLen src + 8 < 2147483648) (hpara : cfg.hasPara = true)
    (htab : '\t' ∉ src) (h : parseDoc cfg src = .ok t) :
    t.range = some (0, Lines.byteLen src) ∧ Every (NodeOrd src) t := by
  unfold parseDoc at h
  split at h
  · cases h
  · rename_i root refs hb
    obtain ⟨hr, hg⟩ := Block.parseBlocks_geo2 (cfg := cfg.blockCfg) hpara (Block.inlSpec2_pmapF src) hsmall hb
    have hg' : Block.RangedB (PInl (cfg.inlineCfg refs)) src root :=
      hg.imp (fun c m a b hab hp => pinl_of_pmapF htab _ c m a b hab hp)
    exact afterBlocks_nodeOrd hr hg' (Block.parseBlocks_inlNoRange hb) h

/-- every inline-level and block-level child lies within its parent, spelled out -/
theorem doc_child_within (cfg : DocCfg) (src : List Char) (t : Node)
    (hsmall : 4 * Lines.byteLen src + 8 < 2147483648) (hpara : cfg.hasPara = true)
    (htab : '\t' ∉ src) (h : parseDoc cfg src = .ok t) :
    Every (fun n => ∃ a b, n.range = some (a, b) ∧ a ≤ b ∧ b ≤ Lines.byteLen src ∧
      ∀ c ∈ n.children, ∃ a' b', c.range = some (a', b') ∧ a ≤ a' ∧ a' ≤ b' ∧ b' ≤ b) t := by
  have := (doc_ranges_ordered cfg src t hsmall hpara htab h).2
  clear h
  induction this with
  | mk n hn _ ih =>
    obtain ⟨a, b, h1, h2, h3, h4⟩ := hn
    exact .mk n ⟨a, b, h1, h2, h3, h4.mem⟩ ih

/-! ## non-vacuity and witnesses -/

mutual
/-- a document tree in pre-order: (depth, start, end) -/
def flatN (d : Nat) : Node → List (Nat × Nat × Nat)
  | ⟨_, r, _, cs⟩ => (d, (r.getD (0, 0)).1, (r.getD (0, 0)).2) :: flatNL (d + 1) cs
def flatNL (d : Nat) : List Node → List (Nat × Nat × Nat)
  | [] => []
  | c :: r => flatN d c ++ flatNL d r
end

mutual
/-- the placeholders of a block tree -/
def inlOf : Block.BNode → List (List Char × List (Nat × Nat))
  | ⟨k, _, cs⟩ => (match k with | .inlineRoot c m => [(c, m)] | _ => []) ++ inlOfL cs
def inlOfL : List Block.BNode → List (List Char × List (Nat × Nat))
  | [] => []
  | c :: r => inlOf c ++ inlOfL r
end

/-- a two-line quoted paragraph with emphasis and a code span -/
def exDoc6 : List Char := "> *a*\n> b `c`".toList

/-- root, quote, paragraph, Em (its text inside), softbreak, text, code span (its text inside) -/
example : (parseDoc (exCfg false 100) exDoc6).toOption.map (flatN 0) =
    some [(0, 0, 13), (1, 0, 13), (2, 2, 13), (3, 2, 5), (4, 3, 4), (3, 5, 8), (3, 8, 10), (3, 10, 13),
      (4, 11, 12)] := by decide +kernel

theorem exDoc6_parses : ∃ t, parseDoc (exCfg false 100) exDoc6 = .ok t := by
  have h : (parseDoc (exCfg false 100) exDoc6).toOption.isSome = true := by decide +kernel
  cases hp : parseDoc (exCfg false 100) exDoc6 with
  | ok t => exact ⟨t, rfl⟩
  | error e => rw [hp] at h; cases h

/-- the hypotheses of `doc_ranges_ordered` are satisfiable -/
example : ∃ t, parseDoc (exCfg false 100) exDoc6 = .ok t ∧ t.range = some (0, 13) ∧
    Every (NodeOrd exDoc6) t := by
  obtain ⟨t, ht⟩ := exDoc6_parses
  exact ⟨t, ht, doc_ranges_ordered _ _ t (by decide +kernel) (by decide) (by decide) ht⟩

/-- `hpara` is necessary (the witness of Props/C05Doc.lean): without the paragraph rule the fallback
    makes a `Softbreak (1, 2)` under `Root (0, 1)` — beyond the source.  (`htab` is a limitation of the
    proof, not known to be necessary: see OPEN A and the fuzz note in the header.) -/
example : (parseDoc { exCfg false 100 with blockChain := [.hr], inlineChain := [.text, .newline] }
      "a".toList).toOption.map (flatN 0) = some [(0, 0, 1), (1, 0, 1), (1, 1, 2)] := by decide +kernel

/-- **the split tab**: `"-    a\n\t\tb"` (item content at column 5, the continuation line two tabs =
    column 8: three columns remain of the second tab).  The paragraph's content is `"a\n   b"` with
    the table `[(0,5),(2,9),(5,9)]`: the three virtual spaces and the `b` are all mapped to byte 9;
    not `MapOK` (`MonoMap` fails at the virtual entry, key 5 is not behind a line feed).  Before the
    `fix:` "positions inside the virtual spaces of a split tab" the position strictly inside the
    virtual spaces was translated beyond the 10-byte source (`getSourcePosForRaw … 4 = 11`); the
    repaired `get_source_pos_for` clamps it to the tab's byte (`tr 4 = 9`, `C05.translate_le_next`).
    The tree is in order — text `(5,6)`, softbreak `(6,9)`, text `(9,10)` — either way: the newline
    rule skips the leading blanks of the continuation line, no node boundary falls strictly inside
    them here (it does inside a code span: Props/C05Rest.lean). -/
example : (Block.parseBlocks (exCfg false 100).blockCfg "-    a\n\t\tb".toList).toOption.map (fun r => inlOf r.1) =
    some [("a\n   b".toList, [(0, 5), (2, 9), (5, 9)])] := by decide +kernel
example : InlineOps.getSourcePosForRaw [(0, 5), (2, 9), (5, 9)] 4 = .ok 11 ∧
    InlineOps.getSourcePosFor [(0, 5), (2, 9), (5, 9)] 4 = .ok 9 ∧
    InlineOps.getSourcePosFor [(0, 5), (2, 9), (5, 9)] 5 = .ok 9 := by decide +kernel
example : (parseDoc (exCfg false 100) "-    a\n\t\tb".toList).toOption.map (flatN 0) =
    some [(0, 0, 10), (1, 0, 10), (2, 0, 10), (3, 5, 6), (3, 6, 9), (3, 9, 10)] := by decide +kernel

/-- **Witness: the text clause of `RangesOk` FAILS with a split tab inside a code span** (model and
    crate agree: `md.parse("- `\n\ta `")` gives `CodeInline (2,8)` with the child `Text "  a"` at
    `(5,6)`, and `src[5..6] = "a"`).  The item's content column is 2, the continuation line's tab
    reaches column 4: `get_lines` replaces it by two virtual spaces, which the code span keeps
    (interior blanks of a code span are content; the newline rule, which skips them elsewhere, does
    not run inside the span).  The range `(5,6)` holds no line break — the line feed became the
    stripped leading space —, so clause 3 of C05 ("a plain text node whose range lies on one line
    selects exactly its own text") is violated: characters that have no bytes in the source cannot
    be selected by any range.  `doc_text_faithful` therefore needs a hypothesis excluding split tabs
    (tab-free source, or `NoVirt` tables), or must exempt the `Text` inside `CodeInline`. -/
example : (parseDoc (exCfg false 100) "- `\n\ta `".toList).toOption.map
      (fun t => t.children.flatMap fun l => l.children.flatMap fun i => i.children.flatMap fun c =>
        c.children.map fun x => (x.kind, x.range)) =
    some [(.inl (.text [' ', ' ', 'a']), some (5, 6))] ∧
    Lines.slice "- `\n\ta `".toList 5 6 = .ok ['a'] := by decide +kernel

/-
OPEN: what is still missing for `doc_ranges_ok` (`RangesOk` of Props/C05Doc.lean) after this file.

  theorem doc_ranges_ok (cfg : DocCfg) (src : List Char) (t : Node)
      (hsmall : 4 * Lines.byteLen src + 8 < 2147483648) (hpara : cfg.hasPara = true)
      (h : parseDoc cfg src = .ok t) : RangesOk src t

  Proved of it: root clause and block skeleton for all documents (Props/C05Doc.lean); validity,
  enclosure and order at EVERY node for tab-free documents (`doc_ranges_ordered`); the claim about
  placeholder tables for all documents (`doc_placeholder_tables`).  Missing, precisely:

   A. (tabs) a virtual-space-aware version of `Inline.ranges_induction` / `parseInline_ranges_exact`:
      hypothesis `WFMap ∧ MonoMapV ∧ KeysLFV` (what `PMapF` provides unconditionally) instead of
      `MapOK`, and the extra invariant "no position at which a rule starts or ends a node is strictly
      inside a virtual-space segment" (`C05.NotInsideVirtual m pos` for `st.pos` at every iteration
      of `tokLoop` and for both ends of every `getMap` call).  Needed lemma per rule: the newline and
      escape rules skip ALL blanks behind the line feed (`ruleNewline`: `pos` after the rule is at a
      non-blank or `posMax`), and a virtual segment consists of blanks directly behind a line feed
      (or at the start of the content, which `trim_src` skips) — `KeysLFV` + the content shape
      `joinLines` of `Lines.get_lines_faithful`; then `C05.translate_mono_virtual` replaces
      `translate_mono` throughout Lemmas/InlineRanges*.lean.  With it `pinl_of_pmapF` loses `htab`.
      UPDATE (`fix:` "positions inside the virtual spaces of a split tab", `get_source_pos_for`
      clamped): the invariant FAILS for the code-span rule (a padded span's stripped interior may end
      strictly inside a virtual segment: `exTab` of Props/C05Rest.lean, where before the fix the range
      left the source), but it is no longer needed for order and enclosure: `C05.translate_mono_all`
      is monotone at EVERY position and `C05I.seg_upToAll` bounds every translated position; it is
      still needed for `Inline.translate_expand` / `translate_same_line` (non-empty ranges, text
      clause).  See the OPEN block of Props/C05Rest.lean.
   B. (character boundaries) `Lines.onBoundary src a / b` at inline nodes: every range end is
      `tr pos` for a character boundary `pos` of the content (`Inline.Good.bpos`-style invariant, to
      be added to `RInv`), and `tr` maps boundaries of the content to boundaries of the source:
      from `Lines.Faithful` (`get_lines_faithful`): inside one line the content bytes are the source
      bytes at the mapped offsets.  Statement wanted:
        Faithful src c indent 0 ovs → Boundary c pos → NotInsideVirtual m pos →
          getSourcePosFor (mapOf indent 0 ovs) pos = .ok x → Lines.onBoundary src x = true.
   C. (`doc_text_faithful`, item 5 of Props/C05Doc.lean) is FALSE as stated (witness above: split tab
      inside a code span); with the hypothesis `'\t' ∉ src` (or `NoVirt` at every placeholder): every
      `Text` of the finished tree whose range holds no line break selects its content; needs `RI.trail`-like content/range
      agreement for EVERY text node (not only the trailing one), `Faithful` as in B, and hull =
      concatenation for the join pass (`c05s_mergeLoop_ord` of Lemmas/C05InlineSplice.lean keeps the
      ranges; adjacency `b₁ = a₂` of the merged pieces is additionally needed).
-/

end MdIt.Pipeline
