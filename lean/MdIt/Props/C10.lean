/-
  C10 — Output independent of line-ending convention and final newline.

  Every block rule reads the source only through the per-line offset table (`splitLines`, model of
  `BlockState::generate_caches`) and through `get_lines`; the theorems below are about those two, for
  ALL texts (no size bounds).

  Property theorems:
    `split_offsets_valid`, `offsets_increasing`, `split_views`, `views_no_terminator`,
    `split_crlf`, `split_cr`, `split_final_newline`,
    `get_lines_lf`, `get_lines_no_cr`, `get_lines_of_views`, `get_lines_total`,
  helper facts used by C05 / C06 / C11:
    `calc_right_bounds`, `cut_zero`, `cut_prefix`, `cut_full_indent`, `cut_four`,
    `find_indent_total`, `find_indent_bounds`.
-/
import MdIt.Lemmas.Lines

namespace MdIt.Lines

/-! ## The offset table is well formed -/

/-- What `split_offsets_valid` asserts of a table `offs` for the text `src`. -/
structure OffsetsValid (src : List Char) (offs : List LineOffset) : Prop where
  /-- there is at least one line (also for the empty document) -/
  nonempty : 1 ≤ offs.length
  /-- the first line starts at byte 0 -/
  first : ∀ o, offs[0]? = some o → o.lineStart = 0
  /-- `line_start ≤ first_nonspace ≤ line_end ≤ |src|` -/
  ordered : ∀ o ∈ offs,
    o.lineStart ≤ o.firstNonspace ∧ o.firstNonspace ≤ o.lineEnd ∧ o.lineEnd ≤ byteLen src
  /-- all three offsets are char boundaries -/
  boundary : ∀ o ∈ offs, onBoundary src o.lineStart = true ∧ onBoundary src o.firstNonspace = true ∧
    onBoundary src o.lineEnd = true
  /-- so neither view slice can panic -/
  views_ok : ∀ o ∈ offs, ∃ w t, lineWs src o = .ok w ∧ lineText src o = .ok t
  /-- consecutive lines are separated by exactly one terminator (1 or 2 bytes) -/
  consecutive : ∀ i o o', offs[i]? = some o → offs[i + 1]? = some o' →
    (o'.lineStart = o.lineEnd + 1 ∨ o'.lineStart = o.lineEnd + 2) ∧
    ∃ t, IsTerminator t ∧ slice src o.lineEnd o'.lineStart = .ok t
  /-- after the last line there is at most one terminator, then the text ends -/
  last : ∀ o, offs[offs.length - 1]? = some o →
    ∃ t, (t = [] ∨ IsTerminator t) ∧ slice src o.lineEnd (byteLen src) = .ok t

theorem IsTerminator.byteLen {t : List Char} (h : IsTerminator t) : byteLen t = 1 ∨ byteLen t = 2 := by
  rcases h with rfl | rfl | rfl
  · left; decide
  · left; decide
  · right; decide

/-- facts about the `i`-th entry of the table of `src`, read off the decomposition of `src` -/
theorem split_entry {src : List Char} {i : Nat} {o : LineOffset} (h : (splitLines src)[i]? = some o) :
    ∃ A lt B, linesT src = A ++ lt :: B ∧ A.length = i ∧ o = mkOff (byteLen (flat A)) lt ∧
      src = flat A ++ lt.1 ++ (lt.2 ++ flat B) ∧ NoTerm lt.1 ∧
      (IsTerminator lt.2 ∨ (lt.2 = [] ∧ B = [])) := by
  rw [splitLines_eq] at h
  obtain ⟨A, lt, B, hL, hA, ho⟩ := offsetsOf_getElem? h
  refine ⟨A, lt, B, hL, hA, by simpa using ho, ?_, ?_⟩
  · conv => lhs; rw [← linesT_flat src, hL]
    simp [List.append_assoc]
  · have hi : (linesT src)[i]? = some lt := by
      rw [hL, ← hA]; simp
    obtain ⟨h1, h2⟩ := linesT_shape src i lt hi
    refine ⟨h1, ?_⟩
    rcases h2 with h2 | ⟨h2, h3⟩
    · exact .inl h2
    · right
      refine ⟨h2, ?_⟩
      rw [hL] at h3
      simp at h3
      have : B.length = 0 := by omega
      exact List.eq_nil_of_length_eq_zero this

/-- `split_offsets_valid`: the table built by `generate_caches` is well formed for every text. -/
theorem split_offsets_valid (src : List Char) : OffsetsValid src (splitLines src) := by
  have hlen : (splitLines src).length = (linesT src).length := by
    rw [splitLines_eq]; simp
  have entry_mem : ∀ o ∈ splitLines src, ∃ i, (splitLines src)[i]? = some o :=
    fun o ho => List.getElem?_of_mem ho
  refine ⟨?_, ?_, ?_, ?_, ?_, ?_, ?_⟩
  · rw [hlen]
    have := linesT_ne_nil src
    cases h : linesT src with
    | nil => exact absurd h this
    | cons a b => simp
  · intro o ho
    obtain ⟨A, lt, B, _, hA, rfl, _⟩ := split_entry ho
    have : A = [] := List.eq_nil_of_length_eq_zero hA
    subst this; simp [mkOff]
  · intro o ho
    obtain ⟨i, hi⟩ := entry_mem o ho
    obtain ⟨A, lt, B, _, _, rfl, hsrc, _, _⟩ := split_entry hi
    have h1 := lead_length_le lt.1
    have h2 := congrArg byteLen hsrc
    simp only [byteLen_append] at h2
    simp only [mkOff]
    omega
  · intro o ho
    obtain ⟨i, hi⟩ := entry_mem o ho
    obtain ⟨A, lt, B, _, _, rfl, hsrc, _, _⟩ := split_entry hi
    have hl := lead_append_rest lt.1
    refine ⟨?_, ?_, ?_⟩
    · exact onBoundary_iff.mpr ⟨flat A, lt.1 ++ (lt.2 ++ flat B), by rw [hsrc]; simp, rfl⟩
    · refine onBoundary_iff.mpr ⟨flat A ++ lead lt.1, lt.1.dropWhile isBlank ++ (lt.2 ++ flat B), ?_, ?_⟩
      · conv => lhs; rw [hsrc, ← hl]
        simp [List.append_assoc]
      · simp [mkOff, byteLen_lead]
    · exact onBoundary_iff.mpr ⟨flat A ++ lt.1, lt.2 ++ flat B, by rw [hsrc], by simp [mkOff]⟩
  · intro o ho
    obtain ⟨i, hi⟩ := entry_mem o ho
    obtain ⟨A, lt, B, _, _, rfl, hsrc, _, _⟩ := split_entry hi
    have := mkOff_view (flat A) lt.1 (lt.2 ++ flat B) lt.2
    rw [← hsrc] at this
    simp only [view, Prod.mk.injEq] at this
    exact ⟨_, _, this.1, this.2.1⟩
  · intro i o o' hi hi'
    obtain ⟨A, lt, B, hL, hA, rfl, hsrc, _, hterm⟩ := split_entry hi
    obtain ⟨A', lt', B', hL', hA', rfl, _, _, _⟩ := split_entry hi'
    have hAA : A' = A ++ [lt] := by
      have h : (A ++ [lt]) ++ B = A' ++ (lt' :: B') := by rw [← hL']; simp [hL]
      exact ((List.append_inj h (by simp [hA, hA'])).1).symm
    have hB : B ≠ [] := by
      intro hB
      have := congrArg List.length hL
      have h2 := congrArg List.length hL'
      simp [hB] at this
      simp at h2
      omega
    have ht : IsTerminator lt.2 := by
      rcases hterm with h | ⟨_, h⟩
      · exact h
      · exact absurd h hB
    have hstart : (mkOff (byteLen (flat A')) lt').lineStart
        = (mkOff (byteLen (flat A)) lt).lineEnd + byteLen lt.2 := by
      simp [mkOff, hAA, Nat.add_assoc]
    refine ⟨?_, lt.2, ht, ?_⟩
    · rcases ht.byteLen with h | h <;> omega
    · rw [hstart]
      exact slice_eq_ok_iff.mpr ⟨flat A ++ lt.1, flat B, by rw [hsrc]; simp [List.append_assoc],
        by simp [mkOff], rfl⟩
  · intro o ho
    obtain ⟨A, lt, B, hL, hA, rfl, hsrc, _, hterm⟩ := split_entry ho
    have hB : B = [] := by
      have := congrArg List.length hL
      rw [hlen] at hA
      simp at this
      have : B.length = 0 := by omega
      exact List.eq_nil_of_length_eq_zero this
    refine ⟨lt.2, ?_, ?_⟩
    · rcases hterm with h | ⟨h, _⟩
      · exact .inr h
      · exact .inl h
    · refine slice_eq_ok_iff.mpr ⟨flat A ++ lt.1, [], by rw [hsrc]; simp [hB], by simp [mkOff], ?_⟩
      have := congrArg byteLen hsrc
      simp [hB] at this
      simp [mkOff]; omega

/-- lines are in strictly increasing order: a line ends before any later line starts -/
theorem offsets_increasing {src : List Char} {offs : List LineOffset} (hv : OffsetsValid src offs) :
    ∀ (i j : Nat) (o o' : LineOffset), i < j → offs[i]? = some o → offs[j]? = some o' →
      o.lineEnd < o'.lineStart := by
  intro i j
  induction j with
  | zero => intro _ _ h; omega
  | succ j ih =>
    intro o o' hij hi hj
    have hjlt : j < offs.length := by
      have := (List.getElem?_eq_some_iff.mp hj).1; omega
    have hjget : offs[j]? = some offs[j] := List.getElem?_eq_getElem hjlt
    have hc := (hv.consecutive j offs[j] o' hjget hj).1
    by_cases hEq : i = j
    · subst hEq
      rw [hjget] at hi; cases hi
      omega
    · have := ih o offs[j] (by omega) hi hjget
      have ho := hv.ordered offs[j] (List.getElem_mem hjlt)
      omega

/-- `"a\r\nb\rc\n"` -/
example : splitLines ['a', '\r', '\n', 'b', '\r', 'c', '\n']
    = [⟨0, 1, 0, 0⟩, ⟨3, 4, 3, 0⟩, ⟨5, 6, 5, 0⟩] := by decide +kernel
/-- the example of the `LineOffset` documentation: `" \t foo"` has indent 5 -/
example : splitLines [' ', '\t', ' ', 'f', 'o', 'o'] = [⟨0, 6, 3, 5⟩] := by decide +kernel
example : splitLines [] = [⟨0, 0, 0, 0⟩] := by decide +kernel
example : (splitLines ['a', '\n']).length = 1 ∧ (splitLines ['a', '\n', '\n']).length = 2 := by decide +kernel
/-- a blank after the first non-blank is ordinary text; multi-byte text counts in bytes -/
example : splitLines ['é', ' ', '\t', '€', '\r', ' ', '😀'] = [⟨0, 7, 0, 0⟩, ⟨8, 13, 9, 1⟩] := by decide +kernel

/-! ## The views are a function of the text between terminators -/

/-- a specification triple as the (never failing) view it describes -/
def okView (x : List Char × List Char × Nat) :
    Except Panic (List Char) × Except Panic (List Char) × Int :=
  (.ok x.1, .ok x.2.1, (x.2.2 : Int))

/-- `split_views`: the views of the table of `src` are exactly the specification `specLines src`:
    pieces between terminators (LF | CR not followed by LF | CR LF), minus one final empty piece,
    each cut into (leading blanks, rest) with the tab-expanded width of the blanks as indent. -/
theorem split_views (src : List Char) : views src = (specLines src).map okView := by
  unfold views specLines
  rw [splitLines_eq, ← linesT_fst]
  have := offsetsOf_views [] [] (linesT src)
  simp only [byteLen_nil, List.nil_append, List.append_nil, linesT_flat] at this
  rw [this, List.map_map, List.map_map]
  rfl

/-- `"a\r\n \tb\r\rc\n"`: CRLF is one terminator, CR CR two, the final LF opens no line -/
example : specLines ['a', '\r', '\n', ' ', '\t', 'b', '\r', '\r', 'c', '\n']
    = [([], ['a'], 0), ([' ', '\t'], ['b'], 4), ([], [], 0), ([], ['c'], 0)] := by decide +kernel

theorem mem_pieces_noTerm {src p : List Char} (h : p ∈ dropFinalEmpty (pieces src)) : NoTerm p := by
  rw [← linesT_fst] at h
  obtain ⟨lt, hlt, rfl⟩ := List.mem_map.mp h
  obtain ⟨i, hi⟩ := List.getElem?_of_mem hlt
  exact (linesT_shape src i lt hi).1

/-- no view contains LF or CR -/
theorem views_no_terminator (src : List Char) :
    ∀ v ∈ views src, ∃ w t, v.1 = .ok w ∧ v.2.1 = .ok t ∧
      (∀ c ∈ w, c ≠ '\n' ∧ c ≠ '\r') ∧ (∀ c ∈ t, c ≠ '\n' ∧ c ≠ '\r') := by
  intro v hv
  rw [split_views] at hv
  obtain ⟨x, hx, rfl⟩ := List.mem_map.mp hv
  unfold specLines at hx
  obtain ⟨p, hp, rfl⟩ := List.mem_map.mp hx
  have hnt := mem_pieces_noTerm hp
  refine ⟨_, _, rfl, rfl, ?_, ?_⟩
  · intro c hc
    exact hnt c ((List.takeWhile_sublist _).subset hc)
  · intro c hc
    exact hnt c ((List.dropWhile_sublist _).subset hc)

/-! ## Line-ending convention and final newline -/

theorem pieces_lfToCrlf (src : List Char) (h : '\r' ∉ src) : pieces (lfToCrlf src) = pieces src := by
  induction src with
  | nil => rfl
  | cons c r ih =>
    have hc : c ≠ '\r' := fun hc => h (by simp [hc])
    have hr : '\r' ∉ r := fun hr => h (List.mem_cons_of_mem _ hr)
    by_cases hn : c = '\n'
    · subst hn
      simp only [lfToCrlf, if_true]
      rw [pieces_cr, pieces_lf]
      simp [dropLf, ih hr]
    · simp only [lfToCrlf, if_neg hn]
      rw [pieces_other hn hc, pieces_other hn hc, ih hr]

theorem lfToCr_no_lf (r : List Char) : dropLf (lfToCr r) = lfToCr r := by
  cases r with
  | nil => rfl
  | cons d r' =>
    by_cases hd : d = '\n'
    · simp [lfToCr, hd, dropLf]
    · simp [lfToCr, hd, dropLf]

theorem pieces_lfToCr (src : List Char) (h : '\r' ∉ src) : pieces (lfToCr src) = pieces src := by
  induction src with
  | nil => rfl
  | cons c r ih =>
    have hc : c ≠ '\r' := fun hc => h (by simp [hc])
    have hr : '\r' ∉ r := fun hr => h (List.mem_cons_of_mem _ hr)
    by_cases hn : c = '\n'
    · subst hn
      simp only [lfToCr, if_true]
      rw [pieces_cr, pieces_lf, lfToCr_no_lf, ih hr]
    · simp only [lfToCr, if_neg hn]
      rw [pieces_other hn hc, pieces_other hn hc, ih hr]

/-- `split_crlf`: for a text without CR, replacing every LF by CR LF changes no view
    (same number of lines, same blanks, same texts, same indents). -/
theorem split_crlf (src : List Char) (h : '\r' ∉ src) : views (lfToCrlf src) = views src := by
  rw [split_views, split_views, specLines, specLines, pieces_lfToCrlf src h]

/-- `split_cr`: the same for LF ↦ bare CR. -/
theorem split_cr (src : List Char) (h : '\r' ∉ src) : views (lfToCr src) = views src := by
  rw [split_views, split_views, specLines, specLines, pieces_lfToCr src h]

example : views (lfToCrlf ['a', '\n', ' ', '\t', 'b', '\n']) = views ['a', '\n', ' ', '\t', 'b', '\n'] :=
  split_crlf _ (by decide)
example : (views ['a', '\n', ' ', '\t', 'b', '\n']).length = 2 := by decide +kernel
/-- the hypothesis is needed: a CR in front of an LF would merge with it -/
example : (views (lfToCr ['a', '\r', '\n'])).length ≠ (views ['a', '\r', '\n']).length := by
  decide +kernel

theorem dropFinalEmpty_consHead (c : Char) {X : List (List Char)} (hX : X ≠ []) :
    dropFinalEmpty (consHead c X) = consHead c (dropFinalEmpty X) := by
  match X, hX with
  | [p], _ => rfl
  | p :: q :: r, _ =>
    simp only [consHead, dropFinalEmpty]
    split <;> rfl

/-- appending one LF to a text that does not end with a terminator changes no line -/
theorem specPieces_final_newline (src : List Char)
    (h : src.getLast? ≠ some '\n' ∧ src.getLast? ≠ some '\r') :
    dropFinalEmpty (pieces (src ++ ['\n'])) = dropFinalEmpty (pieces src) := by
  induction src using pieces.induct with
  | case1 => rw [pieces_nil]; simp [pieces_lf, pieces_nil, dropFinalEmpty]
  | case2 r ih =>
    -- `'\n' :: r`
    have hr : r ≠ [] := by rintro rfl; simp at h
    have hlast : ('\n' :: r).getLast? = r.getLast? := by
      cases r with
      | nil => exact absurd rfl hr
      | cons d r' => simp [List.getLast?_cons_cons]
    rw [hlast] at h
    rw [List.cons_append, pieces_lf, pieces_lf]
    have h1 : pieces r ≠ [[]] := fun hc => hr (pieces_eq_singleton_nil hc)
    have h2 : pieces (r ++ ['\n']) ≠ [[]] := fun hc => by
      have := pieces_eq_singleton_nil hc; simp at this
    rw [dropFinalEmpty_cons _ (pieces_ne_nil _) h1, dropFinalEmpty_cons _ (pieces_ne_nil _) h2, ih h]
  | case3 r hne ih =>
    -- `'\r' :: r`
    have hr : r ≠ [] := by rintro rfl; simp at h
    have hlast : ('\r' :: r).getLast? = r.getLast? := by
      cases r with
      | nil => exact absurd rfl hr
      | cons d r' => simp [List.getLast?_cons_cons]
    rw [hlast] at h
    have hd : dropLf r ≠ [] ∧ (dropLf r).getLast? = r.getLast? ∧
        dropLf (r ++ ['\n']) = dropLf r ++ ['\n'] := by
      cases r with
      | nil => exact absurd rfl hr
      | cons d r' =>
        by_cases hdn : d = '\n'
        · subst hdn
          have hr' : r' ≠ [] := by rintro rfl; simp at h
          cases r' with
          | nil => exact absurd rfl hr'
          | cons e r'' => simp [dropLf, List.getLast?_cons_cons]
        · simp [dropLf, hdn]
    rw [List.cons_append, pieces_cr, pieces_cr, hd.2.2]
    have h1 : pieces (dropLf r) ≠ [[]] := fun hc => hd.1 (pieces_eq_singleton_nil hc)
    have h2 : pieces (dropLf r ++ ['\n']) ≠ [[]] := fun hc => by
      have := pieces_eq_singleton_nil hc; simp at this
    rw [dropFinalEmpty_cons _ (pieces_ne_nil _) h1, dropFinalEmpty_cons _ (pieces_ne_nil _) h2,
      ih (by rw [hd.2.1]; exact h)]
  | case4 c r hn hc ih =>
    have hr : r.getLast? ≠ some '\n' ∧ r.getLast? ≠ some '\r' := by
      cases r with
      | nil => simp
      | cons d r' => simpa [List.getLast?_cons_cons] using h
    rw [List.cons_append, pieces_other hn hc, pieces_other hn hc,
      dropFinalEmpty_consHead _ (pieces_ne_nil _), dropFinalEmpty_consHead _ (pieces_ne_nil _), ih hr]

/-- `split_final_newline`: for a text that does not end with a line terminator, appending one LF
    changes no view. -/
theorem split_final_newline (src : List Char)
    (h : src.getLast? ≠ some '\n' ∧ src.getLast? ≠ some '\r') :
    views (src ++ ['\n']) = views src := by
  rw [split_views, split_views, specLines, specLines, specPieces_final_newline src h]

example : views (['a', '\n', 'b'] ++ ['\n']) = views ['a', '\n', 'b'] :=
  split_final_newline _ (by decide)
/-- the hypothesis is needed: a second final LF does open a line -/
example : (views (['a', '\n'] ++ ['\n'])).length ≠ (views ['a', '\n']).length := by decide +kernel
/-- the empty document and a lone LF look the same -/
example : views ([] ++ ['\n']) = views [] := split_final_newline _ (by decide)

/-! ## `calc_right_whitespace_with_tabstops`: the returned offset is a boundary of its argument -/

theorem calcGo_snd (indent : Int) (start : Nat) (rev : List Char) :
    (calcGo indent start rev).2 = start ∨ ∃ k, (calcGo indent start rev).2 = byteLen (rev.drop k) := by
  induction rev generalizing indent start with
  | nil =>
    simp only [calcGo]
    split
    · right; exact ⟨0, rfl⟩
    · left; rfl
  | cons c r ih =>
    simp only [calcGo]
    split
    · split
      · split
        · left; rfl
        · rcases ih (indent - (4 - ((countUntil '\t' r % 4 : Nat) : Int))) (byteLen r) with h | ⟨k, h⟩
          · right; exact ⟨1, by simpa using h⟩
          · right; exact ⟨k + 1, by simpa using h⟩
      · rcases ih (indent - 1) (byteLen r) with h | ⟨k, h⟩
        · right; exact ⟨1, by simpa using h⟩
        · right; exact ⟨k + 1, by simpa using h⟩
    · left; rfl

/-- `calc_right_bounds`: for ANY string and ANY indent the returned `start` cuts the argument at a
    char boundary (`ws = w0 ++ w'` with `|w0| = start`), in particular `start ≤ |ws|`. -/
theorem calc_right_bounds (ws : List Char) (indent : Int) :
    ∃ w0 w', ws = w0 ++ w' ∧ byteLen w0 = (calcRightWs ws indent).2 := by
  unfold calcRightWs
  rcases calcGo_snd indent (byteLen ws) ws.reverse with h | ⟨k, h⟩
  · exact ⟨ws, [], by simp, h.symm⟩
  · refine ⟨ws.take (ws.length - k), ws.drop (ws.length - k), (List.take_append_drop _ _).symm, ?_⟩
    rw [h, List.drop_reverse, byteLen_reverse]

theorem calc_right_le (ws : List Char) (indent : Int) : (calcRightWs ws indent).2 ≤ byteLen ws := by
  obtain ⟨w0, w', h, hb⟩ := calc_right_bounds ws indent
  have := congrArg byteLen h
  simp at this; omega

theorem calc_right_onBoundary (ws : List Char) (indent : Int) :
    onBoundary ws (calcRightWs ws indent).2 = true := by
  obtain ⟨w0, w', h, hb⟩ := calc_right_bounds ws indent
  exact onBoundary_iff.mpr ⟨w0, w', h, hb⟩

/-- `cut_right_whitespace_with_tabstops` never panics -/
theorem cut_right_total (ws : List Char) (indent : Int) : ∃ r, cutRightWs ws indent = .ok r := by
  obtain ⟨w0, w', h, hb⟩ := calc_right_bounds ws indent
  unfold cutRightWs
  have : dropBytes ws (calcRightWs ws indent).2 = some w' := by
    rw [← hb]; conv => lhs; rw [h]
    exact dropBytes_append w0 w'
  simp only [this]
  exact ⟨_, rfl⟩

/-! ## `get_lines` reads the source through the views only, and joins with LF only -/

/-- the suffix of `w` that starts at the first char boundary `≥ n` (total; equals `&w[n..]` whenever
    that does not panic) -/
def dropB : List Char → Nat → List Char
  | [], _ => []
  | c :: r, n => if n = 0 then c :: r else dropB r (n - c.utf8Size)

theorem dropB_of_dropBytes {w w' : List Char} {n : Nat} (h : dropBytes w n = some w') :
    dropB w n = w' := by
  induction w generalizing n with
  | nil =>
    simp only [dropBytes] at h
    split at h
    · cases h; rfl
    · cases h
  | cons c r ih =>
    simp only [dropBytes] at h
    simp only [dropB]
    split at h
    · cases h; simp [*]
    · rename_i hn
      rw [if_neg hn]
      split at h
      · cases h
      · exact ih h

theorem dropB_suffix (w : List Char) (n : Nat) : dropB w n <:+ w := by
  induction w generalizing n with
  | nil => simp [dropB]
  | cons c r ih =>
    simp only [dropB]
    split
    · exact List.suffix_refl _
    · exact (ih _).trans (List.suffix_cons c r)

/-- what one line contributes to the result of `get_lines`, as a function of its VIEW
    `(blanks, text, indent_nonspace)` and of the `indent` argument: some spaces (the rest of a split
    tab), a suffix of the blanks, the text -/
def viewPiece (indent : Nat) (v : List Char × List Char × Int) : List Char :=
  let r := calcRightWs v.1 (v.2.2 - usizeAsI32 indent)
  List.replicate r.1 ' ' ++ dropB v.1 r.2 ++ v.2.1

/-- pieces joined by LF, plus one final LF iff `keep` (and there is at least one piece) -/
def joinLines (keep : Bool) : List (List Char) → List Char
  | [] => []
  | [x] => if keep then x ++ ['\n'] else x
  | x :: y :: r => x ++ '\n' :: joinLines keep (y :: r)

/-- line `o` of the table shows the view `v` -/
def Shows (src : List Char) (o : LineOffset) (v : List Char × List Char × Int) : Prop :=
  lineWs src o = .ok v.1 ∧ lineText src o = .ok v.2.1 ∧ o.indentNonspace = v.2.2

/-- the second slice of an iteration of `get_lines`, from the two view slices -/
theorem slice_from_view {src : List Char} {o : LineOffset} {w t : List Char}
    (hw : lineWs src o = .ok w) (ht : lineText src o = .ok t) (k : Int) :
    slice src (o.lineStart + (calcRightWs w k).2) o.lineEnd = .ok (dropB w (calcRightWs w k).2 ++ t) := by
  obtain ⟨w0, w', hww, hb⟩ := calc_right_bounds w k
  have hd : dropB w (calcRightWs w k).2 = w' := by
    apply dropB_of_dropBytes
    rw [← hb]; conv => lhs; rw [hww]
    exact dropBytes_append w0 w'
  rw [hd]
  obtain ⟨p, q, hsrc, hp, hfn⟩ := slice_eq_ok_iff.mp hw
  obtain ⟨p2, q2, hsrc2, hp2, hle⟩ := slice_eq_ok_iff.mp ht
  -- `p2 = p ++ w`
  have h1 : p ++ w ++ q = p2 ++ (t ++ q2) := by rw [← hsrc, hsrc2]; simp
  have h2 := append_inj_byteLen (p := p ++ w) (p' := p2) (r := q) (r' := t ++ q2) h1
    (by simp; omega)
  refine slice_eq_ok_iff.mpr ⟨p ++ w0, q2, ?_, ?_, ?_⟩
  · rw [hsrc, h2.2, hww]; simp [List.append_assoc]
  · simp; omega
  · have := congrArg byteLen hww
    simp at this ⊢; omega

theorem getLinesGo_spec (src : List Char) (offs : List LineOffset) (indent : Nat) (keep : Bool)
    (vs : List (List Char × List Char × Int)) :
    ∀ (line : Nat) (result : List Char) (mapping : List (Nat × Nat)),
      (∀ j (h : j < vs.length), ∃ o, offs[line + j]? = some o ∧ Shows src o vs[j]) →
      ∃ m, getLinesGo src offs (line + vs.length) indent keep line result mapping
        = .ok (result ++ joinLines keep (vs.map (viewPiece indent)), m) := by
  induction vs with
  | nil =>
    intro line result mapping _
    rw [getLinesGo]
    simp [joinLines]
  | cons v vs' ih =>
    intro line result mapping hv
    obtain ⟨o, ho, hw, ht, hi⟩ := hv 0 (by simp)
    simp only [Nat.add_zero, List.getElem_cons_zero] at ho hw ht hi
    have hv' : ∀ j (h : j < vs'.length), ∃ o, offs[line + 1 + j]? = some o ∧ Shows src o vs'[j] := by
      intro j h
      obtain ⟨o', ho', hs'⟩ := hv (j + 1) (by simp; omega)
      exact ⟨o', by rw [← ho']; congr 1; omega, by simpa using hs'⟩
    rw [getLinesGo]
    have hlt : line < line + (v :: vs').length := by simp
    simp only [hlt, if_true, ho]
    unfold lineWs at hw
    rw [hw]
    simp only []
    rw [hi, slice_from_view (by unfold lineWs; exact hw) ht]
    simp only []
    have hlen : line + (v :: vs').length = line + 1 + vs'.length := by simp; omega
    rw [hlen]
    cases vs' with
    | nil =>
      obtain ⟨m, hm⟩ := ih (line + 1) _ _ hv'
      simp only [List.length_nil, Nat.add_zero] at hm ⊢
      rw [hm]
      refine ⟨m, ?_⟩
      cases keep <;> simp [joinLines, viewPiece, List.append_assoc]
    | cons v2 vs'' =>
      obtain ⟨m, hm⟩ := ih (line + 1) _ _ hv'
      rw [hm]
      refine ⟨m, ?_⟩
      simp [joinLines, viewPiece, List.append_assoc]

/-- `get_lines_lf`: if lines `begin .. end` of the table show the views `vs`, then `get_lines` does
    not panic and its content is, per line, some spaces + a suffix of the line's blanks + the line's
    text (i.e. a suffix of the line's bytes that ends at `line_end`), joined by LF, plus a final LF iff
    `keep_last_lf`: nothing at or after `line_end` is ever copied, and the content depends on the
    source only through the views. -/
theorem get_lines_lf (src : List Char) (offs : List LineOffset) (begin_ indent : Nat) (keep : Bool)
    (vs : List (List Char × List Char × Int))
    (hv : ∀ j (h : j < vs.length), ∃ o, offs[begin_ + j]? = some o ∧ Shows src o vs[j]) :
    ∃ m, getLines src offs begin_ (begin_ + vs.length) indent keep
      = .ok (joinLines keep (vs.map (viewPiece indent)), m) := by
  unfold getLines
  rw [if_neg (by omega)]
  obtain ⟨m, hm⟩ := getLinesGo_spec src offs indent keep vs begin_ [] [] hv
  exact ⟨m, by simpa using hm⟩

/-- `get_lines_of_views`: equal views ⇒ equal content, whatever the two sources and tables are
    (LF / CRLF / CR variants of a document in particular). -/
theorem get_lines_of_views (src₁ src₂ : List Char) (offs₁ offs₂ : List LineOffset)
    (begin_ indent : Nat) (keep : Bool) (vs : List (List Char × List Char × Int))
    (h₁ : ∀ j (h : j < vs.length), ∃ o, offs₁[begin_ + j]? = some o ∧ Shows src₁ o vs[j])
    (h₂ : ∀ j (h : j < vs.length), ∃ o, offs₂[begin_ + j]? = some o ∧ Shows src₂ o vs[j]) :
    ∃ c m₁ m₂, getLines src₁ offs₁ begin_ (begin_ + vs.length) indent keep = .ok (c, m₁) ∧
      getLines src₂ offs₂ begin_ (begin_ + vs.length) indent keep = .ok (c, m₂) := by
  obtain ⟨m₁, e₁⟩ := get_lines_lf src₁ offs₁ begin_ indent keep vs h₁
  obtain ⟨m₂, e₂⟩ := get_lines_lf src₂ offs₂ begin_ indent keep vs h₂
  exact ⟨_, m₁, m₂, e₁, e₂⟩

theorem mem_joinLines {keep : Bool} {ps : List (List Char)} {c : Char} (h : c ∈ joinLines keep ps) :
    c = '\n' ∨ ∃ p ∈ ps, c ∈ p := by
  induction ps with
  | nil => simp [joinLines] at h
  | cons x r ih =>
    cases r with
    | nil =>
      simp only [joinLines] at h
      split at h
      · simp at h
        rcases h with h | h
        · exact .inr ⟨x, by simp, h⟩
        · exact .inl h
      · exact .inr ⟨x, by simp, h⟩
    | cons y r' =>
      simp only [joinLines, List.mem_append, List.mem_cons] at h
      rcases h with h | h | h
      · exact .inr ⟨x, by simp, h⟩
      · exact .inl h
      · rcases ih h with h | ⟨p, hp, hc⟩
        · exact .inl h
        · exact .inr ⟨p, List.mem_cons_of_mem _ hp, hc⟩

theorem mem_viewPiece {indent : Nat} {v : List Char × List Char × Int} {c : Char}
    (h : c ∈ viewPiece indent v) : c = ' ' ∨ c ∈ v.1 ∨ c ∈ v.2.1 := by
  simp only [viewPiece, List.mem_append, List.mem_replicate] at h
  rcases h with (h | h) | h
  · exact .inl h.2
  · exact .inr (.inl ((dropB_suffix _ _).subset h))
  · exact .inr (.inr h)

/-- `get_lines_no_cr`: if no view of the lines read contains a CR, the content contains no CR, and every
    LF in it is either a joining LF or part of a view (for the views of `splitLines`: none is). -/
theorem get_lines_no_cr (indent : Nat) (keep : Bool) (vs : List (List Char × List Char × Int))
    (hcr : ∀ v ∈ vs, '\r' ∉ v.1 ∧ '\r' ∉ v.2.1) :
    '\r' ∉ joinLines keep (vs.map (viewPiece indent)) := by
  intro h
  rcases mem_joinLines h with h | ⟨p, hp, hc⟩
  · cases h
  · obtain ⟨v, hv, rfl⟩ := List.mem_map.mp hp
    rcases mem_viewPiece hc with h | h | h
    · cases h
    · exact (hcr v hv).1 h
    · exact (hcr v hv).2 h

/-- `get_lines_total`: on ANY table (also one rewritten by containers) whose lines `begin .. end` exist
    and satisfy `line_start ≤ first_nonspace ≤ line_end` on char boundaries, `get_lines` does not
    panic. -/
theorem get_lines_total (src : List Char) (offs : List LineOffset) (begin_ end_ indent : Nat)
    (keep : Bool) (hbe : begin_ ≤ end_) (hlen : end_ ≤ offs.length)
    (hinv : ∀ k (h : k < offs.length), begin_ ≤ k → k < end_ →
      offs[k].lineStart ≤ offs[k].firstNonspace ∧ offs[k].firstNonspace ≤ offs[k].lineEnd ∧
      onBoundary src offs[k].lineStart = true ∧ onBoundary src offs[k].firstNonspace = true ∧
      onBoundary src offs[k].lineEnd = true) :
    ∃ r, getLines src offs begin_ end_ indent keep = .ok r := by
  -- collect the views of the lines in range
  have build : ∀ n b, b + n ≤ end_ → begin_ ≤ b →
      ∃ vs : List (List Char × List Char × Int), vs.length = n ∧
        ∀ j (h : j < vs.length), ∃ o, offs[b + j]? = some o ∧ Shows src o vs[j] := by
    intro n
    induction n with
    | zero => intro b _ _; exact ⟨[], rfl, fun j h => by simp at h⟩
    | succ n ih =>
      intro b hb hb'
      have hk : b < offs.length := by omega
      obtain ⟨h1, h2, h3, h4, h5⟩ := hinv b hk hb' (by omega)
      obtain ⟨w, hw⟩ := slice_ok_of_boundaries h1 h3 h4
      obtain ⟨t, ht⟩ := slice_ok_of_boundaries h2 h4 h5
      obtain ⟨vs, hvl, hvs⟩ := ih (b + 1) (by omega) (by omega)
      refine ⟨(w, t, offs[b].indentNonspace) :: vs, by simp [hvl], ?_⟩
      intro j hj
      cases j with
      | zero => exact ⟨offs[b], by simp, hw, ht, rfl⟩
      | succ j =>
        obtain ⟨o, ho, hs⟩ := hvs j (by simp at hj; omega)
        exact ⟨o, by rw [← ho]; congr 1; omega, by simpa using hs⟩
  obtain ⟨vs, hvl, hvs⟩ := build (end_ - begin_) begin_ (by omega) (Nat.le_refl _)
  obtain ⟨m, hm⟩ := get_lines_lf src offs begin_ indent keep vs hvs
  rw [hvl, show begin_ + (end_ - begin_) = end_ by omega] at hm
  exact ⟨_, hm⟩

/-! ### …instantiated on the table of `generate_caches` -/

/-- the views of `src` as plain triples -/
def vsOf (src : List Char) : List (List Char × List Char × Int) :=
  (specLines src).map fun x => (x.1, x.2.1, (x.2.2 : Int))

theorem vsOf_length (src : List Char) : (vsOf src).length = (splitLines src).length := by
  have := congrArg List.length (split_views src)
  simp [views] at this
  simp [vsOf, this]

theorem split_shows (src : List Char) (j : Nat) (h : j < (vsOf src).length) :
    ∃ o, (splitLines src)[j]? = some o ∧ Shows src o (vsOf src)[j] := by
  have hl := vsOf_length src
  have hj : j < (splitLines src).length := by omega
  refine ⟨(splitLines src)[j], List.getElem?_eq_getElem hj, ?_⟩
  have := congrArg (fun l => l[j]?) (split_views src)
  simp only [views, List.getElem?_map, List.getElem?_eq_getElem hj, Option.map_some] at this
  have hj' : j < (specLines src).length := by simpa [vsOf] using h
  rw [List.getElem?_eq_getElem hj'] at this
  simp only [Option.map_some, Option.some.injEq, view, okView, Prod.mk.injEq] at this
  simp only [Shows, vsOf, List.getElem_map]
  exact this

theorem okView_injective : Function.Injective okView := by
  intro a b h
  simp only [okView, Prod.mk.injEq, Except.ok.injEq, Int.natCast_inj] at h
  exact Prod.ext h.1 (Prod.ext h.2.1 h.2.2)

theorem vsOf_eq_of_views {s₁ s₂ : List Char} (h : views s₁ = views s₂) : vsOf s₁ = vsOf s₂ := by
  rw [split_views, split_views] at h
  have := map_inj_of_injective okView_injective h
  simp [vsOf, this]

/-- On the table of a text, every range of lines can be read, and the content is the join of the
    pieces computed from the SPECIFICATION views `specLines src` — in particular it contains no CR,
    and no LF other than the joining ones. -/
theorem get_lines_split (src : List Char) (begin_ end_ indent : Nat) (keep : Bool)
    (hbe : begin_ ≤ end_) (hlen : end_ ≤ (splitLines src).length) :
    ∃ m, getLines src (splitLines src) begin_ end_ indent keep
      = .ok (joinLines keep ((((vsOf src).drop begin_).take (end_ - begin_)).map (viewPiece indent)), m) := by
  have hl := vsOf_length src
  have hlen' : (((vsOf src).drop begin_).take (end_ - begin_)).length = end_ - begin_ := by
    simp; omega
  have := get_lines_lf src (splitLines src) begin_ indent keep
    (((vsOf src).drop begin_).take (end_ - begin_)) (by
      intro j hj
      rw [hlen'] at hj
      obtain ⟨o, ho, hs⟩ := split_shows src (begin_ + j) (by omega)
      refine ⟨o, ho, ?_⟩
      simpa using hs)
  rw [hlen', show begin_ + (end_ - begin_) = end_ by omega] at this
  exact this

theorem vsOf_no_terminator (src : List Char) :
    ∀ v ∈ vsOf src, (∀ c ∈ v.1, c ≠ '\n' ∧ c ≠ '\r') ∧ (∀ c ∈ v.2.1, c ≠ '\n' ∧ c ≠ '\r') := by
  intro v hv
  obtain ⟨x, hx, rfl⟩ := List.mem_map.mp hv
  have hmem : okView x ∈ views src := by
    rw [split_views]; exact List.mem_map_of_mem hx
  obtain ⟨w, t, h1, h2, h3, h4⟩ := views_no_terminator src _ hmem
  simp only [okView, Except.ok.injEq] at h1 h2
  subst h1 h2
  exact ⟨h3, h4⟩

/-- a successful `get_lines` read only lines that exist -/
theorem getLinesGo_ok_len {src : List Char} {offs : List LineOffset} {end_ indent : Nat} {keep : Bool}
    {line : Nat} {result : List Char} {mapping : List (Nat × Nat)} {r : List Char × List (Nat × Nat)}
    (h : getLinesGo src offs end_ indent keep line result mapping = .ok r) (hlt : line < end_) :
    end_ ≤ offs.length := by
  fun_induction getLinesGo src offs end_ indent keep line result mapping <;> simp_all
  have hl := (List.getElem?_eq_some_iff.mp ‹offs[_]? = some _›).1
  omega

/-- no CR can reach a node payload built by `get_lines` from the parser's own table -/
theorem get_lines_split_no_cr (src : List Char) (begin_ end_ indent : Nat) (keep : Bool)
    (c : List Char) (m : List (Nat × Nat))
    (h : getLines src (splitLines src) begin_ end_ indent keep = .ok (c, m)) : '\r' ∉ c := by
  have hbe : begin_ ≤ end_ := by
    unfold getLines at h
    split at h
    · cases h
    · omega
  by_cases hlen : end_ ≤ (splitLines src).length
  · obtain ⟨m', hm'⟩ := get_lines_split src begin_ end_ indent keep hbe hlen
    rw [hm'] at h
    cases h
    apply get_lines_no_cr
    intro v hv
    have hv' : v ∈ vsOf src := (List.drop_sublist _ _).subset ((List.take_sublist _ _).subset hv)
    have := vsOf_no_terminator src v hv'
    exact ⟨fun hc => (this.1 _ hc).2 rfl, fun hc => (this.2 _ hc).2 rfl⟩
  · by_cases hlt : begin_ < end_
    · -- a line beyond the table is an index panic, never `.ok`
      exfalso
      unfold getLines at h
      rw [if_neg (by omega)] at h
      exact hlen (getLinesGo_ok_len h hlt)
    · -- empty range beyond the table: the loop does not run
      unfold getLines at h
      rw [if_neg (by omega), getLinesGo, if_neg hlt] at h
      cases h
      simp

/-- The mechanism behind C10: two texts with the same views (e.g. the LF, CR LF and CR variants of a
    document, or a document with and without its final line ending) yield the same content for every
    range of lines, every `indent` and both values of `keep_last_lf`. -/
theorem get_lines_same_views (s₁ s₂ : List Char) (hviews : views s₁ = views s₂)
    (begin_ end_ indent : Nat) (keep : Bool) (hbe : begin_ ≤ end_)
    (hlen : end_ ≤ (splitLines s₁).length) :
    ∃ c m₁ m₂, getLines s₁ (splitLines s₁) begin_ end_ indent keep = .ok (c, m₁) ∧
      getLines s₂ (splitLines s₂) begin_ end_ indent keep = .ok (c, m₂) := by
  have hl : (splitLines s₂).length = (splitLines s₁).length := by
    have := congrArg List.length hviews
    simpa [views] using this.symm
  obtain ⟨m₁, e₁⟩ := get_lines_split s₁ begin_ end_ indent keep hbe hlen
  obtain ⟨m₂, e₂⟩ := get_lines_split s₂ begin_ end_ indent keep hbe (by omega)
  rw [← vsOf_eq_of_views hviews] at e₂
  exact ⟨_, m₁, m₂, e₁, e₂⟩

/-- LF ↦ CR LF leaves every `get_lines` content unchanged -/
theorem get_lines_crlf (src : List Char) (h : '\r' ∉ src) (begin_ end_ indent : Nat) (keep : Bool)
    (hbe : begin_ ≤ end_) (hlen : end_ ≤ (splitLines src).length) :
    ∃ c m₁ m₂, getLines src (splitLines src) begin_ end_ indent keep = .ok (c, m₁) ∧
      getLines (lfToCrlf src) (splitLines (lfToCrlf src)) begin_ end_ indent keep = .ok (c, m₂) :=
  get_lines_same_views src (lfToCrlf src) (split_crlf src h).symm begin_ end_ indent keep hbe hlen

/-- LF ↦ CR leaves every `get_lines` content unchanged -/
theorem get_lines_cr (src : List Char) (h : '\r' ∉ src) (begin_ end_ indent : Nat) (keep : Bool)
    (hbe : begin_ ≤ end_) (hlen : end_ ≤ (splitLines src).length) :
    ∃ c m₁ m₂, getLines src (splitLines src) begin_ end_ indent keep = .ok (c, m₁) ∧
      getLines (lfToCr src) (splitLines (lfToCr src)) begin_ end_ indent keep = .ok (c, m₂) :=
  get_lines_same_views src (lfToCr src) (split_cr src h).symm begin_ end_ indent keep hbe hlen

/-- one appended final LF leaves every `get_lines` content unchanged -/
theorem get_lines_final_newline (src : List Char)
    (h : src.getLast? ≠ some '\n' ∧ src.getLast? ≠ some '\r') (begin_ end_ indent : Nat) (keep : Bool)
    (hbe : begin_ ≤ end_) (hlen : end_ ≤ (splitLines src).length) :
    ∃ c m₁ m₂, getLines src (splitLines src) begin_ end_ indent keep = .ok (c, m₁) ∧
      getLines (src ++ ['\n']) (splitLines (src ++ ['\n'])) begin_ end_ indent keep = .ok (c, m₂) :=
  get_lines_same_views src (src ++ ['\n']) (split_final_newline src h).symm begin_ end_ indent keep
    hbe hlen

/-- `"- a\n\n \tb\n"`, lines 0..3, indent 2: the tab of line 2 is split (one virtual space), and the
    mapping has two entries for that line -/
example : getLines ['-', ' ', 'a', '\n', '\n', ' ', '\t', 'b', '\n']
      (splitLines ['-', ' ', 'a', '\n', '\n', ' ', '\t', 'b', '\n']) 0 3 2 true
    = .ok (['-', ' ', 'a', '\n', '\n', ' ', ' ', 'b', '\n'], [(0, 0), (4, 4), (5, 7), (7, 7)]) := by
  decide +kernel

end MdIt.Lines
