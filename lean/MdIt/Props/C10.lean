/-
  C10 — Output independent of line-ending convention and final newline.

  Every block rule reads the source only through the per-line offset table (`splitLines`, model of
  `BlockState::generate_caches`) and through `get_lines`; the theorems below are about those two, for
  ALL texts (no size bounds).

  Property theorems (all in namespace `MdIt.Lines`):
    table      `split_offsets_valid` (+ `offsets_increasing`), `split_views`, `views_no_terminator`,
               `split_crlf`, `split_cr`, `split_final_newline`
    get_lines  `get_lines_lf`, `get_lines_no_cr`, `get_lines_of_views`, `get_lines_total`,
               `get_lines_faithful` (content + mapping), `is_empty_of_view`,
               on the parser's own table: `get_lines_split`, `get_lines_split_no_cr`,
               `get_lines_same_views`, `get_lines_crlf`, `get_lines_cr`, `get_lines_final_newline`
    helpers    `calc_right_bounds` (`calc_right_le`, `calc_right_onBoundary`, `cut_right_total`), `cut_zero`,
               `cut_prefix`, `cut_full_indent`, `cut_four` (`cut_four_text`), `rfindAndCount_tab_mod`,
               `find_indent_spec`, `find_indent_total`, `find_indent_bounds`
  and, as `example`s, every unit test at the bottom of `utils.rs`.
  OPEN (end of file): the composition over whole documents (`render_le_invariant`, Layer 3).
-/
import MdIt.Lemmas.Lines

namespace MdIt.Lines

/-! ## The offset table is well formed -/

/-- What `split_offsets_valid` asserts of a table `offs` for the text `src`. -/
structure OffsetsValid (src : List Char) (offs : List LineOffset) : Prop where
  /-- there is at least one line (also for the empty document) -/
  nonempty : 1 ≤ offs.length
  /-- the first line starts at byte 0 -/
  first : ∀ o, offs[0]? = some o → o.lineStart = 0
  /-- `line_start ≤ first_nonspace ≤ line_end ≤ |src|` -/
  ordered : ∀ o ∈ offs,
    o.lineStart ≤ o.firstNonspace ∧ o.firstNonspace ≤ o.lineEnd ∧ o.lineEnd ≤ byteLen src
  /-- all three offsets are char boundaries -/
  boundary : ∀ o ∈ offs, onBoundary src o.lineStart = true ∧ onBoundary src o.firstNonspace = true ∧
    onBoundary src o.lineEnd = true
  /-- so neither view slice can panic -/
  views_ok : ∀ o ∈ offs, ∃ w t, lineWs src o = .ok w ∧ lineText src o = .ok t
  /-- consecutive lines are separated by exactly one terminator (1 or 2 bytes) -/
  consecutive : ∀ i o o', offs[i]? = some o → offs[i + 1]? = some o' →
    (o'.lineStart = o.lineEnd + 1 ∨ o'.lineStart = o.lineEnd + 2) ∧
    ∃ t, IsTerminator t ∧ slice src o.lineEnd o'.lineStart = .ok t
  /-- after the last line there is at most one terminator, then the text ends -/
  last : ∀ o, offs[offs.length - 1]? = some o →
    ∃ t, (t = [] ∨ IsTerminator t) ∧ slice src o.lineEnd (byteLen src) = .ok t

theorem IsTerminator.byteLen {t : List Char} (h : IsTerminator t) : byteLen t = 1 ∨ byteLen t = 2 := by
  rcases h with rfl | rfl | rfl
  · left; decide
  · left; decide
  · right; decide

/-- facts about the `i`-th entry of the table of `src`, read off the decomposition of `src` -/
theorem split_entry {src : List Char} {i : Nat} {o : LineOffset} (h : (splitLines src)[i]? = some o) :
    ∃ A lt B, linesT src = A ++ lt :: B ∧ A.length = i ∧ o = mkOff (byteLen (flat A)) lt ∧
      src = flat A ++ lt.1 ++ (lt.2 ++ flat B) ∧ NoTerm lt.1 ∧
      (IsTerminator lt.2 ∨ (lt.2 = [] ∧ B = [])) := by
  rw [splitLines_eq] at h
  obtain ⟨A, lt, B, hL, hA, ho⟩ := offsetsOf_getElem? h
  refine ⟨A, lt, B, hL, hA, by simpa using ho, ?_, ?_⟩
  · conv => lhs; rw [← linesT_flat src, hL]
    simp [List.append_assoc]
  · have hi : (linesT src)[i]? = some lt := by
      rw [hL, ← hA]; simp
    obtain ⟨h1, h2⟩ := linesT_shape src i lt hi
    refine ⟨h1, ?_⟩
    rcases h2 with h2 | ⟨h2, h3⟩
    · exact .inl h2
    · right
      refine ⟨h2, ?_⟩
      rw [hL] at h3
      simp at h3
      have : B.length = 0 := by omega
      exact List.eq_nil_of_length_eq_zero this

/-- `split_offsets_valid`: the table built by `generate_caches` is well formed for every text. -/
theorem split_offsets_valid (src : List Char) : OffsetsValid src (splitLines src) := by
  have hlen : (splitLines src).length = (linesT src).length := by
    rw [splitLines_eq]; simp
  have entry_mem : ∀ o ∈ splitLines src, ∃ i, (splitLines src)[i]? = some o :=
    fun o ho => List.getElem?_of_mem ho
  refine ⟨?_, ?_, ?_, ?_, ?_, ?_, ?_⟩
  · rw [hlen]
    have := linesT_ne_nil src
    cases h : linesT src with
    | nil => exact absurd h this
    | cons a b => simp
  · intro o ho
    obtain ⟨A, lt, B, _, hA, rfl, _⟩ := split_entry ho
    have : A = [] := List.eq_nil_of_length_eq_zero hA
    subst this; simp [mkOff]
  · intro o ho
    obtain ⟨i, hi⟩ := entry_mem o ho
    obtain ⟨A, lt, B, _, _, rfl, hsrc, _, _⟩ := split_entry hi
    have h1 := lead_length_le lt.1
    have h2 := congrArg byteLen hsrc
    simp only [byteLen_append] at h2
    simp only [mkOff]
    omega
  · intro o ho
    obtain ⟨i, hi⟩ := entry_mem o ho
    obtain ⟨A, lt, B, _, _, rfl, hsrc, _, _⟩ := split_entry hi
    have hl := lead_append_rest lt.1
    refine ⟨?_, ?_, ?_⟩
    · exact onBoundary_iff.mpr ⟨flat A, lt.1 ++ (lt.2 ++ flat B), by rw [hsrc]; simp, rfl⟩
    · refine onBoundary_iff.mpr ⟨flat A ++ lead lt.1, lt.1.dropWhile isBlank ++ (lt.2 ++ flat B), ?_, ?_⟩
      · conv => lhs; rw [hsrc, ← hl]
        simp [List.append_assoc]
      · simp [mkOff, byteLen_lead]
    · exact onBoundary_iff.mpr ⟨flat A ++ lt.1, lt.2 ++ flat B, by rw [hsrc], by simp [mkOff]⟩
  · intro o ho
    obtain ⟨i, hi⟩ := entry_mem o ho
    obtain ⟨A, lt, B, _, _, rfl, hsrc, _, _⟩ := split_entry hi
    have := mkOff_view (flat A) lt.1 (lt.2 ++ flat B) lt.2
    rw [← hsrc] at this
    simp only [view, Prod.mk.injEq] at this
    exact ⟨_, _, this.1, this.2.1⟩
  · intro i o o' hi hi'
    obtain ⟨A, lt, B, hL, hA, rfl, hsrc, _, hterm⟩ := split_entry hi
    obtain ⟨A', lt', B', hL', hA', rfl, _, _, _⟩ := split_entry hi'
    have hAA : A' = A ++ [lt] := by
      have h : (A ++ [lt]) ++ B = A' ++ (lt' :: B') := by rw [← hL']; simp [hL]
      exact ((List.append_inj h (by simp [hA, hA'])).1).symm
    have hB : B ≠ [] := by
      intro hB
      have := congrArg List.length hL
      have h2 := congrArg List.length hL'
      simp [hB] at this
      simp at h2
      omega
    have ht : IsTerminator lt.2 := by
      rcases hterm with h | ⟨_, h⟩
      · exact h
      · exact absurd h hB
    have hstart : (mkOff (byteLen (flat A')) lt').lineStart
        = (mkOff (byteLen (flat A)) lt).lineEnd + byteLen lt.2 := by
      simp [mkOff, hAA, Nat.add_assoc]
    refine ⟨?_, lt.2, ht, ?_⟩
    · rcases ht.byteLen with h | h <;> omega
    · rw [hstart]
      exact slice_eq_ok_iff.mpr ⟨flat A ++ lt.1, flat B, by rw [hsrc]; simp [List.append_assoc],
        by simp [mkOff], rfl⟩
  · intro o ho
    obtain ⟨A, lt, B, hL, hA, rfl, hsrc, _, hterm⟩ := split_entry ho
    have hB : B = [] := by
      have := congrArg List.length hL
      rw [hlen] at hA
      simp at this
      have : B.length = 0 := by omega
      exact List.eq_nil_of_length_eq_zero this
    refine ⟨lt.2, ?_, ?_⟩
    · rcases hterm with h | ⟨h, _⟩
      · exact .inr h
      · exact .inl h
    · refine slice_eq_ok_iff.mpr ⟨flat A ++ lt.1, [], by rw [hsrc]; simp [hB], by simp [mkOff], ?_⟩
      have := congrArg byteLen hsrc
      simp [hB] at this
      simp [mkOff]; omega

/-- lines are in strictly increasing order: a line ends before any later line starts -/
theorem offsets_increasing {src : List Char} {offs : List LineOffset} (hv : OffsetsValid src offs) :
    ∀ (i j : Nat) (o o' : LineOffset), i < j → offs[i]? = some o → offs[j]? = some o' →
      o.lineEnd < o'.lineStart := by
  intro i j
  induction j with
  | zero => intro _ _ h; omega
  | succ j ih =>
    intro o o' hij hi hj
    have hjlt : j < offs.length := by
      have := (List.getElem?_eq_some_iff.mp hj).1; omega
    have hjget : offs[j]? = some offs[j] := List.getElem?_eq_getElem hjlt
    have hc := (hv.consecutive j offs[j] o' hjget hj).1
    by_cases hEq : i = j
    · subst hEq
      rw [hjget] at hi; cases hi
      omega
    · have := ih o offs[j] (by omega) hi hjget
      have ho := hv.ordered offs[j] (List.getElem_mem hjlt)
      omega

/-- `"a\r\nb\rc\n"` -/
example : splitLines ['a', '\r', '\n', 'b', '\r', 'c', '\n']
    = [⟨0, 1, 0, 0⟩, ⟨3, 4, 3, 0⟩, ⟨5, 6, 5, 0⟩] := by decide +kernel
/-- the example of the `LineOffset` documentation: `" \t foo"` has indent 5 -/
example : splitLines [' ', '\t', ' ', 'f', 'o', 'o'] = [⟨0, 6, 3, 5⟩] := by decide +kernel
example : splitLines [] = [⟨0, 0, 0, 0⟩] := by decide +kernel
example : (splitLines ['a', '\n']).length = 1 ∧ (splitLines ['a', '\n', '\n']).length = 2 := by decide +kernel
/-- a blank after the first non-blank is ordinary text; multi-byte text counts in bytes -/
example : splitLines ['é', ' ', '\t', '€', '\r', ' ', '😀'] = [⟨0, 7, 0, 0⟩, ⟨8, 13, 9, 1⟩] := by decide +kernel

/-! ## The views are a function of the text between terminators -/

/-- a specification triple as the (never failing) view it describes -/
def okView (x : List Char × List Char × Nat) :
    Except Panic (List Char) × Except Panic (List Char) × Int :=
  (.ok x.1, .ok x.2.1, (x.2.2 : Int))

/-- `split_views`: the views of the table of `src` are exactly the specification `specLines src`:
    pieces between terminators (LF | CR not followed by LF | CR LF), minus one final empty piece,
    each cut into (leading blanks, rest) with the tab-expanded width of the blanks as indent. -/
theorem split_views (src : List Char) : views src = (specLines src).map okView := by
  unfold views specLines
  rw [splitLines_eq, ← linesT_fst]
  have := offsetsOf_views [] [] (linesT src)
  simp only [byteLen_nil, List.nil_append, List.append_nil, linesT_flat] at this
  rw [this, List.map_map, List.map_map]
  rfl

/-- `"a\r\n \tb\r\rc\n"`: CRLF is one terminator, CR CR two, the final LF opens no line -/
example : specLines ['a', '\r', '\n', ' ', '\t', 'b', '\r', '\r', 'c', '\n']
    = [([], ['a'], 0), ([' ', '\t'], ['b'], 4), ([], [], 0), ([], ['c'], 0)] := by decide +kernel

theorem mem_pieces_noTerm {src p : List Char} (h : p ∈ dropFinalEmpty (pieces src)) : NoTerm p := by
  rw [← linesT_fst] at h
  obtain ⟨lt, hlt, rfl⟩ := List.mem_map.mp h
  obtain ⟨i, hi⟩ := List.getElem?_of_mem hlt
  exact (linesT_shape src i lt hi).1

/-- no view contains LF or CR -/
theorem views_no_terminator (src : List Char) :
    ∀ v ∈ views src, ∃ w t, v.1 = .ok w ∧ v.2.1 = .ok t ∧
      (∀ c ∈ w, c ≠ '\n' ∧ c ≠ '\r') ∧ (∀ c ∈ t, c ≠ '\n' ∧ c ≠ '\r') := by
  intro v hv
  rw [split_views] at hv
  obtain ⟨x, hx, rfl⟩ := List.mem_map.mp hv
  unfold specLines at hx
  obtain ⟨p, hp, rfl⟩ := List.mem_map.mp hx
  have hnt := mem_pieces_noTerm hp
  refine ⟨_, _, rfl, rfl, ?_, ?_⟩
  · intro c hc
    exact hnt c ((List.takeWhile_sublist _).subset hc)
  · intro c hc
    exact hnt c ((List.dropWhile_sublist _).subset hc)

/-! ## Line-ending convention and final newline -/

theorem pieces_lfToCrlf (src : List Char) (h : '\r' ∉ src) : pieces (lfToCrlf src) = pieces src := by
  induction src with
  | nil => rfl
  | cons c r ih =>
    have hc : c ≠ '\r' := fun hc => h (by simp [hc])
    have hr : '\r' ∉ r := fun hr => h (List.mem_cons_of_mem _ hr)
    by_cases hn : c = '\n'
    · subst hn
      simp only [lfToCrlf, if_true]
      rw [pieces_cr, pieces_lf]
      simp [dropLf, ih hr]
    · simp only [lfToCrlf, if_neg hn]
      rw [pieces_other hn hc, pieces_other hn hc, ih hr]

theorem lfToCr_no_lf (r : List Char) : dropLf (lfToCr r) = lfToCr r := by
  cases r with
  | nil => rfl
  | cons d r' =>
    by_cases hd : d = '\n'
    · simp [lfToCr, hd, dropLf]
    · simp [lfToCr, hd, dropLf]

theorem pieces_lfToCr (src : List Char) (h : '\r' ∉ src) : pieces (lfToCr src) = pieces src := by
  induction src with
  | nil => rfl
  | cons c r ih =>
    have hc : c ≠ '\r' := fun hc => h (by simp [hc])
    have hr : '\r' ∉ r := fun hr => h (List.mem_cons_of_mem _ hr)
    by_cases hn : c = '\n'
    · subst hn
      simp only [lfToCr, if_true]
      rw [pieces_cr, pieces_lf, lfToCr_no_lf, ih hr]
    · simp only [lfToCr, if_neg hn]
      rw [pieces_other hn hc, pieces_other hn hc, ih hr]

/-- `split_crlf`: for a text without CR, replacing every LF by CR LF changes no view
    (same number of lines, same blanks, same texts, same indents). -/
theorem split_crlf (src : List Char) (h : '\r' ∉ src) : views (lfToCrlf src) = views src := by
  rw [split_views, split_views, specLines, specLines, pieces_lfToCrlf src h]

/-- `split_cr`: the same for LF ↦ bare CR. -/
theorem split_cr (src : List Char) (h : '\r' ∉ src) : views (lfToCr src) = views src := by
  rw [split_views, split_views, specLines, specLines, pieces_lfToCr src h]

example : views (lfToCrlf ['a', '\n', ' ', '\t', 'b', '\n']) = views ['a', '\n', ' ', '\t', 'b', '\n'] :=
  split_crlf _ (by decide)
example : (views ['a', '\n', ' ', '\t', 'b', '\n']).length = 2 := by decide +kernel
/-- the hypothesis is needed: a CR in front of an LF would merge with it -/
example : (views (lfToCr ['a', '\r', '\n'])).length ≠ (views ['a', '\r', '\n']).length := by
  decide +kernel

theorem dropFinalEmpty_consHead (c : Char) {X : List (List Char)} (hX : X ≠ []) :
    dropFinalEmpty (consHead c X) = consHead c (dropFinalEmpty X) := by
  match X, hX with
  | [p], _ => rfl
  | p :: q :: r, _ =>
    simp only [consHead, dropFinalEmpty]
    split <;> rfl

/-- appending one LF to a text that does not end with a terminator changes no line -/
theorem specPieces_final_newline (src : List Char)
    (h : src.getLast? ≠ some '\n' ∧ src.getLast? ≠ some '\r') :
    dropFinalEmpty (pieces (src ++ ['\n'])) = dropFinalEmpty (pieces src) := by
  induction src using pieces.induct with
  | case1 => rw [pieces_nil]; simp [pieces_lf, pieces_nil, dropFinalEmpty]
  | case2 r ih =>
    -- `'\n' :: r`
    have hr : r ≠ [] := by rintro rfl; simp at h
    have hlast : ('\n' :: r).getLast? = r.getLast? := by
      cases r with
      | nil => exact absurd rfl hr
      | cons d r' => simp [List.getLast?_cons_cons]
    rw [hlast] at h
    rw [List.cons_append, pieces_lf, pieces_lf]
    have h1 : pieces r ≠ [[]] := fun hc => hr (pieces_eq_singleton_nil hc)
    have h2 : pieces (r ++ ['\n']) ≠ [[]] := fun hc => by
      have := pieces_eq_singleton_nil hc; simp at this
    rw [dropFinalEmpty_cons _ (pieces_ne_nil _) h1, dropFinalEmpty_cons _ (pieces_ne_nil _) h2, ih h]
  | case3 r hne ih =>
    -- `'\r' :: r`
    have hr : r ≠ [] := by rintro rfl; simp at h
    have hlast : ('\r' :: r).getLast? = r.getLast? := by
      cases r with
      | nil => exact absurd rfl hr
      | cons d r' => simp [List.getLast?_cons_cons]
    rw [hlast] at h
    have hd : dropLf r ≠ [] ∧ (dropLf r).getLast? = r.getLast? ∧
        dropLf (r ++ ['\n']) = dropLf r ++ ['\n'] := by
      cases r with
      | nil => exact absurd rfl hr
      | cons d r' =>
        by_cases hdn : d = '\n'
        · subst hdn
          have hr' : r' ≠ [] := by rintro rfl; simp at h
          cases r' with
          | nil => exact absurd rfl hr'
          | cons e r'' => simp [dropLf, List.getLast?_cons_cons]
        · simp [dropLf, hdn]
    rw [List.cons_append, pieces_cr, pieces_cr, hd.2.2]
    have h1 : pieces (dropLf r) ≠ [[]] := fun hc => hd.1 (pieces_eq_singleton_nil hc)
    have h2 : pieces (dropLf r ++ ['\n']) ≠ [[]] := fun hc => by
      have := pieces_eq_singleton_nil hc; simp at this
    rw [dropFinalEmpty_cons _ (pieces_ne_nil _) h1, dropFinalEmpty_cons _ (pieces_ne_nil _) h2,
      ih (by rw [hd.2.1]; exact h)]
  | case4 c r hn hc ih =>
    have hr : r.getLast? ≠ some '\n' ∧ r.getLast? ≠ some '\r' := by
      cases r with
      | nil => simp
      | cons d r' => simpa [List.getLast?_cons_cons] using h
    rw [List.cons_append, pieces_other hn hc, pieces_other hn hc,
      dropFinalEmpty_consHead _ (pieces_ne_nil _), dropFinalEmpty_consHead _ (pieces_ne_nil _), ih hr]

/-- `split_final_newline`: for a text that does not end with a line terminator, appending one LF
    changes no view. -/
theorem split_final_newline (src : List Char)
    (h : src.getLast? ≠ some '\n' ∧ src.getLast? ≠ some '\r') :
    views (src ++ ['\n']) = views src := by
  rw [split_views, split_views, specLines, specLines, specPieces_final_newline src h]

example : views (['a', '\n', 'b'] ++ ['\n']) = views ['a', '\n', 'b'] :=
  split_final_newline _ (by decide)
/-- the hypothesis is needed: a second final LF does open a line -/
example : (views (['a', '\n'] ++ ['\n'])).length ≠ (views ['a', '\n']).length := by decide +kernel
/-- the empty document and a lone LF look the same -/
example : views ([] ++ ['\n']) = views [] := split_final_newline _ (by decide)

/-! ## `calc_right_whitespace_with_tabstops`: the returned offset is a boundary of its argument -/

theorem calcGo_snd (indent : Int) (start : Nat) (rev : List Char) :
    (calcGo indent start rev).2 = start ∨ ∃ k, (calcGo indent start rev).2 = byteLen (rev.drop k) := by
  induction rev generalizing indent start with
  | nil =>
    simp only [calcGo]
    split
    · right; exact ⟨0, rfl⟩
    · left; rfl
  | cons c r ih =>
    simp only [calcGo]
    split
    · split
      · split
        · left; rfl
        · rcases ih (indent - (4 - ((countUntil '\t' r % 4 : Nat) : Int))) (byteLen r) with h | ⟨k, h⟩
          · right; exact ⟨1, by simpa using h⟩
          · right; exact ⟨k + 1, by simpa using h⟩
      · rcases ih (indent - 1) (byteLen r) with h | ⟨k, h⟩
        · right; exact ⟨1, by simpa using h⟩
        · right; exact ⟨k + 1, by simpa using h⟩
    · left; rfl

/-- `calc_right_bounds`: for ANY string and ANY indent the returned `start` cuts the argument at a
    char boundary (`ws = w0 ++ w'` with `|w0| = start`), in particular `start ≤ |ws|`. -/
theorem calc_right_bounds (ws : List Char) (indent : Int) :
    ∃ w0 w', ws = w0 ++ w' ∧ byteLen w0 = (calcRightWs ws indent).2 := by
  unfold calcRightWs
  rcases calcGo_snd indent (byteLen ws) ws.reverse with h | ⟨k, h⟩
  · exact ⟨ws, [], by simp, h.symm⟩
  · refine ⟨ws.take (ws.length - k), ws.drop (ws.length - k), (List.take_append_drop _ _).symm, ?_⟩
    rw [h, List.drop_reverse, byteLen_reverse]

theorem calc_right_le (ws : List Char) (indent : Int) : (calcRightWs ws indent).2 ≤ byteLen ws := by
  obtain ⟨w0, w', h, hb⟩ := calc_right_bounds ws indent
  have := congrArg byteLen h
  simp at this; omega

theorem calc_right_onBoundary (ws : List Char) (indent : Int) :
    onBoundary ws (calcRightWs ws indent).2 = true := by
  obtain ⟨w0, w', h, hb⟩ := calc_right_bounds ws indent
  exact onBoundary_iff.mpr ⟨w0, w', h, hb⟩

/-- `cut_right_whitespace_with_tabstops` never panics -/
theorem cut_right_total (ws : List Char) (indent : Int) : ∃ r, cutRightWs ws indent = .ok r := by
  obtain ⟨w0, w', h, hb⟩ := calc_right_bounds ws indent
  unfold cutRightWs
  have : dropBytes ws (calcRightWs ws indent).2 = some w' := by
    rw [← hb]; conv => lhs; rw [h]
    exact dropBytes_append w0 w'
  simp only [this]
  exact ⟨_, rfl⟩

/-! ## `get_lines` reads the source through the views only, and joins with LF only -/

/-- the suffix of `w` that starts at the first char boundary `≥ n` (total; equals `&w[n..]` whenever
    that does not panic) -/
def dropB : List Char → Nat → List Char
  | [], _ => []
  | c :: r, n => if n = 0 then c :: r else dropB r (n - c.utf8Size)

theorem dropB_of_dropBytes {w w' : List Char} {n : Nat} (h : dropBytes w n = some w') :
    dropB w n = w' := by
  induction w generalizing n with
  | nil =>
    simp only [dropBytes] at h
    split at h
    · cases h; rfl
    · cases h
  | cons c r ih =>
    simp only [dropBytes] at h
    simp only [dropB]
    split at h
    · cases h; simp [*]
    · rename_i hn
      rw [if_neg hn]
      split at h
      · cases h
      · exact ih h

theorem dropB_suffix (w : List Char) (n : Nat) : dropB w n <:+ w := by
  induction w generalizing n with
  | nil => simp [dropB]
  | cons c r ih =>
    simp only [dropB]
    split
    · exact List.suffix_refl _
    · exact (ih _).trans (List.suffix_cons c r)

/-- what one line contributes to the result of `get_lines`, as a function of its VIEW
    `(blanks, text, indent_nonspace)` and of the `indent` argument: some spaces (the rest of a split
    tab), a suffix of the blanks, the text -/
def viewPiece (indent : Nat) (v : List Char × List Char × Int) : List Char :=
  let r := calcRightWs v.1 (v.2.2 - usizeAsI32 indent)
  List.replicate r.1 ' ' ++ dropB v.1 r.2 ++ v.2.1

/-- pieces joined by LF, plus one final LF iff `keep` (and there is at least one piece) -/
def joinLines (keep : Bool) : List (List Char) → List Char
  | [] => []
  | [x] => if keep then x ++ ['\n'] else x
  | x :: y :: r => x ++ '\n' :: joinLines keep (y :: r)

/-- line `o` of the table shows the view `v` -/
def Shows (src : List Char) (o : LineOffset) (v : List Char × List Char × Int) : Prop :=
  lineWs src o = .ok v.1 ∧ lineText src o = .ok v.2.1 ∧ o.indentNonspace = v.2.2

/-- the second slice of an iteration of `get_lines`, from the two view slices -/
theorem slice_from_view {src : List Char} {o : LineOffset} {w t : List Char}
    (hw : lineWs src o = .ok w) (ht : lineText src o = .ok t) (k : Int) :
    slice src (o.lineStart + (calcRightWs w k).2) o.lineEnd = .ok (dropB w (calcRightWs w k).2 ++ t) := by
  obtain ⟨w0, w', hww, hb⟩ := calc_right_bounds w k
  have hd : dropB w (calcRightWs w k).2 = w' := by
    apply dropB_of_dropBytes
    rw [← hb]; conv => lhs; rw [hww]
    exact dropBytes_append w0 w'
  rw [hd]
  obtain ⟨p, q, hsrc, hp, hfn⟩ := slice_eq_ok_iff.mp hw
  obtain ⟨p2, q2, hsrc2, hp2, hle⟩ := slice_eq_ok_iff.mp ht
  -- `p2 = p ++ w`
  have h1 : p ++ w ++ q = p2 ++ (t ++ q2) := by rw [← hsrc, hsrc2]; simp
  have h2 := append_inj_byteLen (p := p ++ w) (p' := p2) (r := q) (r' := t ++ q2) h1
    (by simp; omega)
  refine slice_eq_ok_iff.mpr ⟨p ++ w0, q2, ?_, ?_, ?_⟩
  · rw [hsrc, h2.2, hww]; simp [List.append_assoc]
  · simp; omega
  · have := congrArg byteLen hww
    simp at this ⊢; omega

theorem getLinesGo_spec (src : List Char) (offs : List LineOffset) (indent : Nat) (keep : Bool)
    (vs : List (List Char × List Char × Int)) :
    ∀ (line : Nat) (result : List Char) (mapping : List (Nat × Nat)),
      (∀ j (h : j < vs.length), ∃ o, offs[line + j]? = some o ∧ Shows src o vs[j]) →
      ∃ m, getLinesGo src offs (line + vs.length) indent keep line result mapping
        = .ok (result ++ joinLines keep (vs.map (viewPiece indent)), m) := by
  induction vs with
  | nil =>
    intro line result mapping _
    rw [getLinesGo]
    simp [joinLines]
  | cons v vs' ih =>
    intro line result mapping hv
    obtain ⟨o, ho, hw, ht, hi⟩ := hv 0 (by simp)
    simp only [Nat.add_zero, List.getElem_cons_zero] at ho hw ht hi
    have hv' : ∀ j (h : j < vs'.length), ∃ o, offs[line + 1 + j]? = some o ∧ Shows src o vs'[j] := by
      intro j h
      obtain ⟨o', ho', hs'⟩ := hv (j + 1) (by simp; omega)
      exact ⟨o', by rw [← ho']; congr 1; omega, by simpa using hs'⟩
    rw [getLinesGo]
    have hlt : line < line + (v :: vs').length := by simp
    simp only [hlt, if_true, ho]
    unfold lineWs at hw
    rw [hw]
    simp only []
    rw [hi, slice_from_view (by unfold lineWs; exact hw) ht]
    simp only []
    have hlen : line + (v :: vs').length = line + 1 + vs'.length := by simp; omega
    rw [hlen]
    cases vs' with
    | nil =>
      obtain ⟨m, hm⟩ := ih (line + 1) _ _ hv'
      simp only [List.length_nil, Nat.add_zero] at hm ⊢
      rw [hm]
      refine ⟨m, ?_⟩
      cases keep <;> simp [joinLines, viewPiece, List.append_assoc]
    | cons v2 vs'' =>
      obtain ⟨m, hm⟩ := ih (line + 1) _ _ hv'
      rw [hm]
      refine ⟨m, ?_⟩
      simp [joinLines, viewPiece, List.append_assoc]

/-- `get_lines_lf`: if lines `begin .. end` of the table show the views `vs`, then `get_lines` does
    not panic and its content is, per line, some spaces + a suffix of the line's blanks + the line's
    text (i.e. a suffix of the line's bytes that ends at `line_end`), joined by LF, plus a final LF iff
    `keep_last_lf`: nothing at or after `line_end` is ever copied, and the content depends on the
    source only through the views. -/
theorem get_lines_lf (src : List Char) (offs : List LineOffset) (begin_ indent : Nat) (keep : Bool)
    (vs : List (List Char × List Char × Int))
    (hv : ∀ j (h : j < vs.length), ∃ o, offs[begin_ + j]? = some o ∧ Shows src o vs[j]) :
    ∃ m, getLines src offs begin_ (begin_ + vs.length) indent keep
      = .ok (joinLines keep (vs.map (viewPiece indent)), m) := by
  unfold getLines
  rw [if_neg (by omega)]
  obtain ⟨m, hm⟩ := getLinesGo_spec src offs indent keep vs begin_ [] [] hv
  exact ⟨m, by simpa using hm⟩

/-- `get_lines_of_views`: equal views ⇒ equal content, whatever the two sources and tables are
    (LF / CRLF / CR variants of a document in particular). -/
theorem get_lines_of_views (src₁ src₂ : List Char) (offs₁ offs₂ : List LineOffset)
    (begin_ indent : Nat) (keep : Bool) (vs : List (List Char × List Char × Int))
    (h₁ : ∀ j (h : j < vs.length), ∃ o, offs₁[begin_ + j]? = some o ∧ Shows src₁ o vs[j])
    (h₂ : ∀ j (h : j < vs.length), ∃ o, offs₂[begin_ + j]? = some o ∧ Shows src₂ o vs[j]) :
    ∃ c m₁ m₂, getLines src₁ offs₁ begin_ (begin_ + vs.length) indent keep = .ok (c, m₁) ∧
      getLines src₂ offs₂ begin_ (begin_ + vs.length) indent keep = .ok (c, m₂) := by
  obtain ⟨m₁, e₁⟩ := get_lines_lf src₁ offs₁ begin_ indent keep vs h₁
  obtain ⟨m₂, e₂⟩ := get_lines_lf src₂ offs₂ begin_ indent keep vs h₂
  exact ⟨_, m₁, m₂, e₁, e₂⟩

/-! ### the mapping returned by `get_lines` (input to C05's `get_lines_faithful`) -/

/-- the mapping `get_lines` builds for lines showing the views `ovs`, the first of them starting at
    byte `outPos` of the content: per line one entry `(start in content, start in source)`, and a
    second one `(start in content + virtual spaces, SAME source position)` when a tab was split -/
def mapOf (indent : Nat) : Nat → List (LineOffset × (List Char × List Char × Int)) → List (Nat × Nat)
  | _, [] => []
  | outPos, (o, v) :: r =>
    let c := calcRightWs v.1 (v.2.2 - usizeAsI32 indent)
    ((outPos, o.lineStart + c.2) ::
      (if c.1 > 0 then [(outPos + c.1, o.lineStart + c.2)] else []))
    ++ mapOf indent (outPos + byteLen (viewPiece indent v) + 1) r

/-- per line: the bytes copied from the source (everything after the virtual spaces) are the same
    bytes in the content, at the positions the mapping names -/
def Faithful (src content : List Char) (indent : Nat) :
    Nat → List (LineOffset × (List Char × List Char × Int)) → Prop
  | _, [] => True
  | outPos, (o, v) :: r =>
    let c := calcRightWs v.1 (v.2.2 - usizeAsI32 indent)
    let t := dropB v.1 c.2 ++ v.2.1
    slice src (o.lineStart + c.2) o.lineEnd = .ok t ∧
    slice content (outPos + c.1) (outPos + c.1 + byteLen t) = .ok t ∧
    Faithful src content indent (outPos + byteLen (viewPiece indent v) + 1) r

theorem byteLen_replicate_space (n : Nat) : byteLen (List.replicate n ' ') = n := by
  induction n with
  | zero => rfl
  | succ n ih => simp [List.replicate_succ, ih, show ' '.utf8Size = 1 by decide]; omega

theorem byteLen_viewPiece (indent : Nat) (v : List Char × List Char × Int) :
    byteLen (viewPiece indent v)
      = (calcRightWs v.1 (v.2.2 - usizeAsI32 indent)).1
        + byteLen (dropB v.1 (calcRightWs v.1 (v.2.2 - usizeAsI32 indent)).2 ++ v.2.1) := by
  simp [viewPiece, byteLen_replicate_space]

theorem getLinesGo_full (src : List Char) (offs : List LineOffset) (indent : Nat) (keep : Bool)
    (ovs : List (LineOffset × (List Char × List Char × Int))) :
    ∀ (line : Nat) (result : List Char) (mapping : List (Nat × Nat)),
      (∀ j (h : j < ovs.length), offs[line + j]? = some ovs[j].1 ∧ Shows src ovs[j].1 ovs[j].2) →
      getLinesGo src offs (line + ovs.length) indent keep line result mapping
        = .ok (result ++ joinLines keep (ovs.map fun ov => viewPiece indent ov.2),
               mapping ++ mapOf indent (byteLen result) ovs) := by
  induction ovs with
  | nil =>
    intro line result mapping _
    rw [getLinesGo]
    simp [joinLines, mapOf]
  | cons ov ovs' ih =>
    intro line result mapping hv
    obtain ⟨o, v⟩ := ov
    obtain ⟨ho, hw, ht, hi⟩ := hv 0 (by simp)
    simp only [Nat.add_zero, List.getElem_cons_zero] at ho hw ht hi
    have hv' : ∀ j (h : j < ovs'.length),
        offs[line + 1 + j]? = some ovs'[j].1 ∧ Shows src ovs'[j].1 ovs'[j].2 := by
      intro j h
      have := hv (j + 1) (by simp; omega)
      simp only [List.getElem_cons_succ] at this
      exact ⟨by rw [← this.1]; congr 1; omega, this.2⟩
    rw [getLinesGo]
    have hlt : line < line + ((o, v) :: ovs').length := by simp
    simp only [hlt, if_true, ho]
    unfold lineWs at hw
    rw [hw]
    simp only []
    rw [hi, slice_from_view (by unfold lineWs; exact hw) ht]
    simp only []
    have hlen : line + ((o, v) :: ovs').length = line + 1 + ovs'.length := by simp; omega
    rw [hlen]
    have hbl := byteLen_viewPiece indent v
    cases ovs' with
    | nil =>
      simp only [List.length_nil, Nat.add_zero] at ih ⊢
      rw [ih (line + 1) _ _ hv']
      by_cases hn : 0 < (calcRightWs v.1 (v.2.2 - usizeAsI32 indent)).1 <;> cases keep <;>
        simp [hn, joinLines, viewPiece, mapOf, List.append_assoc, byteLen_replicate_space]
    | cons ov2 ovs'' =>
      rw [ih (line + 1) _ _ hv']
      have h1 : (decide (line + 1 < line + 1 + (ov2 :: ovs'').length) || keep) = true := by simp
      simp only [h1, if_true]
      by_cases hn : 0 < (calcRightWs v.1 (v.2.2 - usizeAsI32 indent)).1 <;>
        simp [hn, joinLines, viewPiece, mapOf, List.append_assoc, byteLen_replicate_space,
          show '\n'.utf8Size = 1 by decide, Nat.add_assoc]

theorem faithful_of_join (src : List Char) (indent : Nat) (keep : Bool)
    (ovs : List (LineOffset × (List Char × List Char × Int)))
    (hs : ∀ ov ∈ ovs, Shows src ov.1 ov.2) :
    ∀ (pre : List Char),
      Faithful src (pre ++ joinLines keep (ovs.map fun ov => viewPiece indent ov.2)) indent
        (byteLen pre) ovs := by
  induction ovs with
  | nil => intro pre; trivial
  | cons ov ovs' ih =>
    intro pre
    obtain ⟨o, v⟩ := ov
    obtain ⟨hw, ht, hi⟩ := hs (o, v) (by simp)
    have hs' : ∀ ov ∈ ovs', Shows src ov.1 ov.2 := fun ov h => hs ov (List.mem_cons_of_mem _ h)
    simp only [Faithful]
    refine ⟨?_, ?_, ?_⟩
    · have := slice_from_view hw ht (v.2.2 - usizeAsI32 indent)
      exact this
    · cases ovs' with
      | nil =>
        refine slice_eq_ok_iff.mpr ⟨pre ++ List.replicate
          (calcRightWs v.1 (v.2.2 - usizeAsI32 indent)).1 ' ', if keep then ['\n'] else [], ?_, ?_, rfl⟩
        · cases keep <;> simp [joinLines, viewPiece, List.append_assoc]
        · simp [byteLen_replicate_space]
      | cons ov2 ovs'' =>
        refine slice_eq_ok_iff.mpr ⟨pre ++ List.replicate
          (calcRightWs v.1 (v.2.2 - usizeAsI32 indent)).1 ' ',
          '\n' :: joinLines keep ((ov2 :: ovs'').map fun ov => viewPiece indent ov.2), ?_, ?_, rfl⟩
        · simp [joinLines, viewPiece, List.append_assoc]
        · simp [byteLen_replicate_space]
    · cases ovs' with
      | nil => trivial
      | cons ov2 ovs'' =>
        have := ih hs' (pre ++ viewPiece indent v ++ ['\n'])
        simp only [byteLen_append, byteLen_cons, byteLen_nil,
          show '\n'.utf8Size = 1 by decide] at this
        simpa [joinLines, List.append_assoc] using this

/-- `get_lines`, content AND mapping, for lines `begin ..` showing the views `ovs`; and every byte
    copied from the source sits in the content where the mapping says (`Faithful`).  The first entry
    of a line with a split tab maps the first VIRTUAL space to the same source byte as the text after
    the spaces — the spaces have no bytes of their own in the source. -/
theorem get_lines_faithful (src : List Char) (offs : List LineOffset) (begin_ indent : Nat)
    (keep : Bool) (ovs : List (LineOffset × (List Char × List Char × Int)))
    (hv : ∀ j (h : j < ovs.length), offs[begin_ + j]? = some ovs[j].1 ∧ Shows src ovs[j].1 ovs[j].2) :
    ∃ content, getLines src offs begin_ (begin_ + ovs.length) indent keep
        = .ok (content, mapOf indent 0 ovs) ∧
      content = joinLines keep (ovs.map fun ov => viewPiece indent ov.2) ∧
      Faithful src content indent 0 ovs := by
  refine ⟨_, ?_, rfl, ?_⟩
  · unfold getLines
    rw [if_neg (by omega)]
    have := getLinesGo_full src offs indent keep ovs begin_ [] [] hv
    simpa using this
  · have hs : ∀ ov ∈ ovs, Shows src ov.1 ov.2 := by
      intro ov hov
      obtain ⟨j, hj, rfl⟩ := List.getElem_of_mem hov
      exact (hv j hj).2
    have := faithful_of_join src indent keep ovs hs []
    simpa using this

/-- `"- a\n\n \tb"`, line 2 at indent 2 (the list item's content column): the tab is split, the two
    virtual spaces and the `b` after them all map to source byte 7 (the `b`), inside the 8-byte input -/
example : getLines ['-', ' ', 'a', '\n', '\n', ' ', '\t', 'b']
      (splitLines ['-', ' ', 'a', '\n', '\n', ' ', '\t', 'b']) 2 3 2 false
    = .ok ([' ', ' ', 'b'], mapOf 2 0 [(⟨5, 8, 7, 4⟩, ([' ', '\t'], ['b'], 4))]) := by decide +kernel
example : mapOf 2 0 [(⟨5, 8, 7, 4⟩, ([' ', '\t'], ['b'], 4))] = [(0, 7), (2, 7)] := by decide

theorem mem_joinLines {keep : Bool} {ps : List (List Char)} {c : Char} (h : c ∈ joinLines keep ps) :
    c = '\n' ∨ ∃ p ∈ ps, c ∈ p := by
  induction ps with
  | nil => simp [joinLines] at h
  | cons x r ih =>
    cases r with
    | nil =>
      simp only [joinLines] at h
      split at h
      · simp at h
        rcases h with h | h
        · exact .inr ⟨x, by simp, h⟩
        · exact .inl h
      · exact .inr ⟨x, by simp, h⟩
    | cons y r' =>
      simp only [joinLines, List.mem_append, List.mem_cons] at h
      rcases h with h | h | h
      · exact .inr ⟨x, by simp, h⟩
      · exact .inl h
      · rcases ih h with h | ⟨p, hp, hc⟩
        · exact .inl h
        · exact .inr ⟨p, List.mem_cons_of_mem _ hp, hc⟩

theorem mem_viewPiece {indent : Nat} {v : List Char × List Char × Int} {c : Char}
    (h : c ∈ viewPiece indent v) : c = ' ' ∨ c ∈ v.1 ∨ c ∈ v.2.1 := by
  simp only [viewPiece, List.mem_append, List.mem_replicate] at h
  rcases h with (h | h) | h
  · exact .inl h.2
  · exact .inr (.inl ((dropB_suffix _ _).subset h))
  · exact .inr (.inr h)

/-- `get_lines_no_cr`: if no view of the lines read contains a CR, the content contains no CR, and every
    LF in it is either a joining LF or part of a view (for the views of `splitLines`: none is). -/
theorem get_lines_no_cr (indent : Nat) (keep : Bool) (vs : List (List Char × List Char × Int))
    (hcr : ∀ v ∈ vs, '\r' ∉ v.1 ∧ '\r' ∉ v.2.1) :
    '\r' ∉ joinLines keep (vs.map (viewPiece indent)) := by
  intro h
  rcases mem_joinLines h with h | ⟨p, hp, hc⟩
  · cases h
  · obtain ⟨v, hv, rfl⟩ := List.mem_map.mp hp
    rcases mem_viewPiece hc with h | h | h
    · cases h
    · exact (hcr v hv).1 h
    · exact (hcr v hv).2 h

/-- `get_lines_total`: on ANY table (also one rewritten by containers) whose lines `begin .. end` exist
    and satisfy `line_start ≤ first_nonspace ≤ line_end` on char boundaries, `get_lines` does not
    panic. -/
theorem get_lines_total (src : List Char) (offs : List LineOffset) (begin_ end_ indent : Nat)
    (keep : Bool) (hbe : begin_ ≤ end_) (hlen : end_ ≤ offs.length)
    (hinv : ∀ k (h : k < offs.length), begin_ ≤ k → k < end_ →
      offs[k].lineStart ≤ offs[k].firstNonspace ∧ offs[k].firstNonspace ≤ offs[k].lineEnd ∧
      onBoundary src offs[k].lineStart = true ∧ onBoundary src offs[k].firstNonspace = true ∧
      onBoundary src offs[k].lineEnd = true) :
    ∃ r, getLines src offs begin_ end_ indent keep = .ok r := by
  -- collect the views of the lines in range
  have build : ∀ n b, b + n ≤ end_ → begin_ ≤ b →
      ∃ vs : List (List Char × List Char × Int), vs.length = n ∧
        ∀ j (h : j < vs.length), ∃ o, offs[b + j]? = some o ∧ Shows src o vs[j] := by
    intro n
    induction n with
    | zero => intro b _ _; exact ⟨[], rfl, fun j h => by simp at h⟩
    | succ n ih =>
      intro b hb hb'
      have hk : b < offs.length := by omega
      obtain ⟨h1, h2, h3, h4, h5⟩ := hinv b hk hb' (by omega)
      obtain ⟨w, hw⟩ := slice_ok_of_boundaries h1 h3 h4
      obtain ⟨t, ht⟩ := slice_ok_of_boundaries h2 h4 h5
      obtain ⟨vs, hvl, hvs⟩ := ih (b + 1) (by omega) (by omega)
      refine ⟨(w, t, offs[b].indentNonspace) :: vs, by simp [hvl], ?_⟩
      intro j hj
      cases j with
      | zero => exact ⟨offs[b], by simp, hw, ht, rfl⟩
      | succ j =>
        obtain ⟨o, ho, hs⟩ := hvs j (by simp at hj; omega)
        exact ⟨o, by rw [← ho]; congr 1; omega, by simpa using hs⟩
  obtain ⟨vs, hvl, hvs⟩ := build (end_ - begin_) begin_ (by omega) (Nat.le_refl _)
  obtain ⟨m, hm⟩ := get_lines_lf src offs begin_ indent keep vs hvs
  rw [hvl, show begin_ + (end_ - begin_) = end_ by omega] at hm
  exact ⟨_, hm⟩

/-- a table as the block-quote rule leaves it for `"> a\n>\tb"` (first_nonspace / indent_nonspace moved
    behind the markers): the hypotheses of `get_lines_total` hold, the tab is split into two spaces -/
example : getLines ['>', ' ', 'a', '\n', '>', '\t', 'b'] [⟨0, 3, 2, 2⟩, ⟨4, 7, 6, 4⟩] 0 2 2 false
    = .ok (['a', '\n', ' ', ' ', 'b'], [(0, 2), (2, 6), (4, 6)]) := by decide +kernel
example : ∃ r, getLines ['>', ' ', 'a', '\n', '>', '\t', 'b'] [⟨0, 3, 2, 2⟩, ⟨4, 7, 6, 4⟩] 0 2 2 false = .ok r :=
  get_lines_total _ _ 0 2 2 false (by decide) (by decide) (by decide)
/-- …and `get_lines` does panic on a table that breaks them (first_nonspace inside `é`) -/
example : getLines ['é', 'a'] [⟨0, 3, 1, 0⟩] 0 1 0 false = .error .slice := by decide +kernel

/-- `is_empty` is a function of the view: a line is empty iff its text is -/
theorem is_empty_of_view {src : List Char} {o : LineOffset} {t : List Char}
    (h : lineText src o = .ok t) : (o.firstNonspace ≥ o.lineEnd) ↔ t = [] := by
  obtain ⟨p, q, _, _, hle⟩ := slice_eq_ok_iff.mp h
  constructor
  · intro hge
    exact byteLen_eq_zero (by omega)
  · rintro rfl
    simp at hle; omega

/-! ### …instantiated on the table of `generate_caches` -/

/-- the views of `src` as plain triples -/
def vsOf (src : List Char) : List (List Char × List Char × Int) :=
  (specLines src).map fun x => (x.1, x.2.1, (x.2.2 : Int))

theorem vsOf_length (src : List Char) : (vsOf src).length = (splitLines src).length := by
  have := congrArg List.length (split_views src)
  simp [views] at this
  simp [vsOf, this]

theorem split_shows (src : List Char) (j : Nat) (h : j < (vsOf src).length) :
    ∃ o, (splitLines src)[j]? = some o ∧ Shows src o (vsOf src)[j] := by
  have hl := vsOf_length src
  have hj : j < (splitLines src).length := by omega
  refine ⟨(splitLines src)[j], List.getElem?_eq_getElem hj, ?_⟩
  have := congrArg (fun l => l[j]?) (split_views src)
  simp only [views, List.getElem?_map, List.getElem?_eq_getElem hj, Option.map_some] at this
  have hj' : j < (specLines src).length := by simpa [vsOf] using h
  rw [List.getElem?_eq_getElem hj'] at this
  simp only [Option.map_some, Option.some.injEq, view, okView, Prod.mk.injEq] at this
  simp only [Shows, vsOf, List.getElem_map]
  exact this

theorem okView_injective : Function.Injective okView := by
  intro a b h
  simp only [okView, Prod.mk.injEq, Except.ok.injEq, Int.natCast_inj] at h
  exact Prod.ext h.1 (Prod.ext h.2.1 h.2.2)

theorem vsOf_eq_of_views {s₁ s₂ : List Char} (h : views s₁ = views s₂) : vsOf s₁ = vsOf s₂ := by
  rw [split_views, split_views] at h
  have := map_inj_of_injective okView_injective h
  simp [vsOf, this]

/-- On the table of a text, every range of lines can be read, and the content is the join of the
    pieces computed from the SPECIFICATION views `specLines src` — in particular it contains no CR,
    and no LF other than the joining ones. -/
theorem get_lines_split (src : List Char) (begin_ end_ indent : Nat) (keep : Bool)
    (hbe : begin_ ≤ end_) (hlen : end_ ≤ (splitLines src).length) :
    ∃ m, getLines src (splitLines src) begin_ end_ indent keep
      = .ok (joinLines keep ((((vsOf src).drop begin_).take (end_ - begin_)).map (viewPiece indent)), m) := by
  have hl := vsOf_length src
  have hlen' : (((vsOf src).drop begin_).take (end_ - begin_)).length = end_ - begin_ := by
    simp; omega
  have := get_lines_lf src (splitLines src) begin_ indent keep
    (((vsOf src).drop begin_).take (end_ - begin_)) (by
      intro j hj
      rw [hlen'] at hj
      obtain ⟨o, ho, hs⟩ := split_shows src (begin_ + j) (by omega)
      refine ⟨o, ho, ?_⟩
      simpa using hs)
  rw [hlen', show begin_ + (end_ - begin_) = end_ by omega] at this
  exact this

theorem vsOf_no_terminator (src : List Char) :
    ∀ v ∈ vsOf src, (∀ c ∈ v.1, c ≠ '\n' ∧ c ≠ '\r') ∧ (∀ c ∈ v.2.1, c ≠ '\n' ∧ c ≠ '\r') := by
  intro v hv
  obtain ⟨x, hx, rfl⟩ := List.mem_map.mp hv
  have hmem : okView x ∈ views src := by
    rw [split_views]; exact List.mem_map_of_mem hx
  obtain ⟨w, t, h1, h2, h3, h4⟩ := views_no_terminator src _ hmem
  simp only [okView, Except.ok.injEq] at h1 h2
  subst h1 h2
  exact ⟨h3, h4⟩

/-- a successful `get_lines` read only lines that exist -/
theorem getLinesGo_ok_len {src : List Char} {offs : List LineOffset} {end_ indent : Nat} {keep : Bool}
    {line : Nat} {result : List Char} {mapping : List (Nat × Nat)} {r : List Char × List (Nat × Nat)}
    (h : getLinesGo src offs end_ indent keep line result mapping = .ok r) (hlt : line < end_) :
    end_ ≤ offs.length := by
  fun_induction getLinesGo src offs end_ indent keep line result mapping <;> simp_all
  have hl := (List.getElem?_eq_some_iff.mp ‹offs[_]? = some _›).1
  omega

/-- no CR can reach a node payload built by `get_lines` from the parser's own table -/
theorem get_lines_split_no_cr (src : List Char) (begin_ end_ indent : Nat) (keep : Bool)
    (c : List Char) (m : List (Nat × Nat))
    (h : getLines src (splitLines src) begin_ end_ indent keep = .ok (c, m)) : '\r' ∉ c := by
  have hbe : begin_ ≤ end_ := by
    unfold getLines at h
    split at h
    · cases h
    · omega
  by_cases hlen : end_ ≤ (splitLines src).length
  · obtain ⟨m', hm'⟩ := get_lines_split src begin_ end_ indent keep hbe hlen
    rw [hm'] at h
    cases h
    apply get_lines_no_cr
    intro v hv
    have hv' : v ∈ vsOf src := (List.drop_sublist _ _).subset ((List.take_sublist _ _).subset hv)
    have := vsOf_no_terminator src v hv'
    exact ⟨fun hc => (this.1 _ hc).2 rfl, fun hc => (this.2 _ hc).2 rfl⟩
  · by_cases hlt : begin_ < end_
    · -- a line beyond the table is an index panic, never `.ok`
      exfalso
      unfold getLines at h
      rw [if_neg (by omega)] at h
      exact hlen (getLinesGo_ok_len h hlt)
    · -- empty range beyond the table: the loop does not run
      unfold getLines at h
      rw [if_neg (by omega), getLinesGo, if_neg hlt] at h
      cases h
      simp

/-- The mechanism behind C10: two texts with the same views (e.g. the LF, CR LF and CR variants of a
    document, or a document with and without its final line ending) yield the same content for every
    range of lines, every `indent` and both values of `keep_last_lf`. -/
theorem get_lines_same_views (s₁ s₂ : List Char) (hviews : views s₁ = views s₂)
    (begin_ end_ indent : Nat) (keep : Bool) (hbe : begin_ ≤ end_)
    (hlen : end_ ≤ (splitLines s₁).length) :
    ∃ c m₁ m₂, getLines s₁ (splitLines s₁) begin_ end_ indent keep = .ok (c, m₁) ∧
      getLines s₂ (splitLines s₂) begin_ end_ indent keep = .ok (c, m₂) := by
  have hl : (splitLines s₂).length = (splitLines s₁).length := by
    have := congrArg List.length hviews
    simpa [views] using this.symm
  obtain ⟨m₁, e₁⟩ := get_lines_split s₁ begin_ end_ indent keep hbe hlen
  obtain ⟨m₂, e₂⟩ := get_lines_split s₂ begin_ end_ indent keep hbe (by omega)
  rw [← vsOf_eq_of_views hviews] at e₂
  exact ⟨_, m₁, m₂, e₁, e₂⟩

/-- `"a\n\tb"` versus `"a\r\n\tb"`: same content (mapping differs: the second line starts one byte
    later) -/
example :
    getLines ['a', '\n', '\t', 'b'] (splitLines ['a', '\n', '\t', 'b']) 0 2 2 true
      = .ok (['a', '\n', ' ', ' ', 'b', '\n'], [(0, 0), (2, 3), (4, 3)]) ∧
    getLines ['a', '\r', '\n', '\t', 'b'] (splitLines ['a', '\r', '\n', '\t', 'b']) 0 2 2 true
      = .ok (['a', '\n', ' ', ' ', 'b', '\n'], [(0, 0), (2, 4), (4, 4)]) := by decide +kernel

/-- LF ↦ CR LF leaves every `get_lines` content unchanged -/
theorem get_lines_crlf (src : List Char) (h : '\r' ∉ src) (begin_ end_ indent : Nat) (keep : Bool)
    (hbe : begin_ ≤ end_) (hlen : end_ ≤ (splitLines src).length) :
    ∃ c m₁ m₂, getLines src (splitLines src) begin_ end_ indent keep = .ok (c, m₁) ∧
      getLines (lfToCrlf src) (splitLines (lfToCrlf src)) begin_ end_ indent keep = .ok (c, m₂) :=
  get_lines_same_views src (lfToCrlf src) (split_crlf src h).symm begin_ end_ indent keep hbe hlen

/-- LF ↦ CR leaves every `get_lines` content unchanged -/
theorem get_lines_cr (src : List Char) (h : '\r' ∉ src) (begin_ end_ indent : Nat) (keep : Bool)
    (hbe : begin_ ≤ end_) (hlen : end_ ≤ (splitLines src).length) :
    ∃ c m₁ m₂, getLines src (splitLines src) begin_ end_ indent keep = .ok (c, m₁) ∧
      getLines (lfToCr src) (splitLines (lfToCr src)) begin_ end_ indent keep = .ok (c, m₂) :=
  get_lines_same_views src (lfToCr src) (split_cr src h).symm begin_ end_ indent keep hbe hlen

/-- one appended final LF leaves every `get_lines` content unchanged -/
theorem get_lines_final_newline (src : List Char)
    (h : src.getLast? ≠ some '\n' ∧ src.getLast? ≠ some '\r') (begin_ end_ indent : Nat) (keep : Bool)
    (hbe : begin_ ≤ end_) (hlen : end_ ≤ (splitLines src).length) :
    ∃ c m₁ m₂, getLines src (splitLines src) begin_ end_ indent keep = .ok (c, m₁) ∧
      getLines (src ++ ['\n']) (splitLines (src ++ ['\n'])) begin_ end_ indent keep = .ok (c, m₂) :=
  get_lines_same_views src (src ++ ['\n']) (split_final_newline src h).symm begin_ end_ indent keep
    hbe hlen

/-- `"- a\n\n \tb\n"`, lines 0..3, indent 2: the tab of line 2 is split (one virtual space), and the
    mapping has two entries for that line -/
example : getLines ['-', ' ', 'a', '\n', '\n', ' ', '\t', 'b', '\n']
      (splitLines ['-', ' ', 'a', '\n', '\n', ' ', '\t', 'b', '\n']) 0 3 2 true
    = .ok (['-', ' ', 'a', '\n', '\n', ' ', ' ', 'b', '\n'], [(0, 0), (4, 4), (5, 7), (7, 7)]) := by
  decide +kernel

/-! ## Helper facts about the indentation helpers (used by C05 / C06 / C11)

  `indentWidth` / `widthFrom` count a tab up to the next multiple of 4 and EVERY other character as one
  column — exactly what the two Rust helpers do (they accept any string); on the blank run of a line
  this is the tab-expanded indent `indent_nonspace` (see `split_views`). -/

theorem widthFrom_append (col : Nat) (a b : List Char) :
    widthFrom col (a ++ b) = widthFrom (widthFrom col a) b := by
  simp [widthFrom, List.foldl_append]

theorem indentWidth_append (a b : List Char) :
    indentWidth (a ++ b) = widthFrom (indentWidth a) b := widthFrom_append 0 a b

theorem colStep_gt (col : Nat) (c : Char) : col < colStep col c := by
  unfold colStep; split <;> omega

theorem widthFrom_ge (col : Nat) (l : List Char) : col ≤ widthFrom col l := by
  induction l generalizing col with
  | nil => simp [widthFrom]
  | cons c r ih =>
    have h1 := colStep_gt col c
    have h2 := ih (colStep col c)
    simp only [widthFrom, List.foldl_cons] at h2 ⊢
    omega

/-- the tab-stop congruence: "characters since the last tab" ≡ column (mod 4) -/
theorem countUntil_tab_mod (rev : List Char) :
    countUntil '\t' rev % 4 = indentWidth rev.reverse % 4 := by
  induction rev with
  | nil => rfl
  | cons c r ih =>
    rw [List.reverse_cons, indentWidth_append]
    simp only [countUntil, widthFrom, List.foldl_cons, List.foldl_nil, colStep]
    split <;> omega

theorem rfindAndCount_tab_mod (p : List Char) : rfindAndCount p '\t' % 4 = indentWidth p % 4 := by
  unfold rfindAndCount
  rw [countUntil_tab_mod, List.reverse_reverse]

/-- `cut_zero`: a non-positive indent keeps nothing: `(0, |ws|)`. -/
theorem cut_zero (ws : List Char) (indent : Int) (h : indent ≤ 0) :
    calcRightWs ws indent = (0, byteLen ws) := by
  unfold calcRightWs
  cases ws.reverse with
  | nil => simp [calcGo]; omega
  | cons c r => simp only [calcGo]; rw [if_neg (by omega)]

theorem calcGo_prefix (a : List Char) (rb : List Char) (start : Nat)
    (hs : start = byteLen a + byteLen rb) :
    calcGo ((widthFrom (indentWidth a) rb.reverse : Int) - (indentWidth a : Int)) start
      (rb ++ a.reverse) = (0, byteLen a) := by
  induction rb generalizing start with
  | nil =>
    simp only [List.reverse_nil, widthFrom, List.foldl_nil, Int.sub_self, List.nil_append]
    subst hs
    cases a.reverse with
    | nil => simp [calcGo]
    | cons c r => simp [calcGo]
  | cons c rb' ih =>
    have hcong : countUntil '\t' (rb' ++ a.reverse) % 4
        = widthFrom (indentWidth a) rb'.reverse % 4 := by
      have := countUntil_tab_mod (rb' ++ a.reverse)
      rw [List.reverse_append, List.reverse_reverse, indentWidth_append] at this
      exact this
    have hge := widthFrom_ge (indentWidth a) rb'.reverse
    have hih := ih (byteLen (rb' ++ a.reverse)) (by simp; omega)
    rw [List.reverse_cons, widthFrom_append]
    generalize widthFrom (indentWidth a) rb'.reverse = w' at *
    simp only [widthFrom, List.foldl_cons, List.foldl_nil, List.cons_append, calcGo]
    by_cases hc : c = '\t'
    · subst hc
      simp only [colStep, if_true]
      rw [if_pos (by omega), hcong, if_neg (by omega)]
      rw [← hih]
      congr 1
      omega
    · simp only [colStep, if_neg hc]
      rw [if_pos (by omega)]
      rw [← hih]
      congr 1
      omega

/-- `cut_prefix`: asking for exactly the columns that `b` occupies after `a` cuts exactly at the
    boundary between `a` and `b` — no tab of `b` is ever split, wherever `a` ends. -/
theorem cut_prefix (a b : List Char) :
    calcRightWs (a ++ b) ((indentWidth (a ++ b) : Int) - (indentWidth a : Int)) = (0, byteLen a) := by
  unfold calcRightWs
  rw [indentWidth_append, List.reverse_append]
  have := calcGo_prefix a b.reverse (byteLen (a ++ b)) (by simp)
  rw [List.reverse_reverse] at this
  exact this

/-- `cut_full_indent`: asking for the whole tab-expanded width of a run keeps the whole run. -/
theorem cut_full_indent (ws : List Char) : calcRightWs ws (indentWidth ws) = (0, 0) := by
  have := cut_prefix [] ws
  simpa [indentWidth, widthFrom] using this

/-- `cut_four`: after four spaces, asking for `width − 4` columns keeps exactly what follows the four
    spaces (tabs in it are never split: the prefix ends on a tab stop). -/
theorem cut_four (w : List Char) :
    calcRightWs ([' ', ' ', ' ', ' '] ++ w) ((indentWidth ([' ', ' ', ' ', ' '] ++ w) : Int) - 4) = (0, 4) := by
  have := cut_prefix [' ', ' ', ' ', ' '] w
  have h4 : indentWidth [' ', ' ', ' ', ' '] = 4 := by decide
  have hb : byteLen [' ', ' ', ' ', ' '] = 4 := by decide
  rw [h4, hb] at this
  exact this

theorem cut_four_text (w : List Char) :
    cutRightWs ([' ', ' ', ' ', ' '] ++ w) ((indentWidth ([' ', ' ', ' ', ' '] ++ w) : Int) - 4) = .ok w := by
  unfold cutRightWs
  rw [cut_four]
  have : dropBytes ([' ', ' ', ' ', ' '] ++ w) 4 = some w := by
    have := dropBytes_append [' ', ' ', ' ', ' '] w
    rwa [show byteLen [' ', ' ', ' ', ' '] = 4 by decide] at this
  simp only [List.cons_append, List.nil_append] at this ⊢
  rw [this]
  simp

/-- a different request does split a tab: one virtual space, cut after the first tab -/
example : calcRightWs [' ', ' ', ' ', ' ', '\t', ' ', '\t'] 5 = (1, 5) := by decide
example : indentWidth [' ', ' ', ' ', ' ', '\t', ' ', '\t'] = 12 := by decide
example : calcRightWs [' ', ' ', ' ', ' ', '\t', ' ', '\t'] (12 - 4) = (0, 4) := cut_four ['\t', ' ', '\t']

/-! ### `find_indent_of` -/

theorem findIndentGo_spec (run : List Char) (hrun : AllBlank run) (rest : List Char)
    (hrest : ∀ c r, rest = c :: r → ¬ (c = ' ' ∨ c = '\t')) :
    ∀ (p : List Char) (ind : Nat),
      findIndentGo (p ++ run ++ rest) ind (byteLen p) (run ++ rest)
        = .ok (ind + (indentWidth (p ++ run) - indentWidth p), byteLen p + run.length) := by
  induction run with
  | nil =>
    intro p ind
    simp only [List.append_nil, List.nil_append, Nat.sub_self, Nat.add_zero, List.length_nil]
    cases hr : rest with
    | nil => simp [findIndentGo]
    | cons c r =>
      have := hrest c r hr
      simp only [not_or] at this
      simp [findIndentGo, this.1, this.2]
  | cons c run' ih =>
    intro p ind
    have hline : p ++ c :: run' ++ rest = (p ++ [c]) ++ run' ++ rest := by simp
    have hW : indentWidth (p ++ c :: run') = indentWidth ((p ++ [c]) ++ run') := by simp
    have hge : indentWidth (p ++ [c]) ≤ indentWidth ((p ++ [c]) ++ run') := by
      rw [indentWidth_append (p ++ [c])]; exact widthFrom_ge _ _
    have hstep : indentWidth (p ++ [c]) = colStep (indentWidth p) c := by
      rw [indentWidth_append]; rfl
    have hc := hrun c (by simp)
    have hsz : c.utf8Size = 1 := by rcases hc with rfl | rfl <;> decide
    have hpos : byteLen (p ++ [c]) = byteLen p + 1 := by simp [hsz]
    have hih := ih hrun.tail (p ++ [c])
    rw [hpos, ← hline] at hih
    simp only [List.cons_append, findIndentGo]
    by_cases htab : c = '\t'
    · subst htab
      have hsl : slice (p ++ '\t' :: run' ++ rest) 0 (byteLen p) = .ok p :=
        slice_eq_ok_iff.mpr ⟨[], '\t' :: run' ++ rest, by simp, rfl, by simp⟩
      simp only [if_true]
      rw [hsl]
      simp only []
      rw [hih, rfindAndCount_tab_mod, hW]
      simp only [colStep, if_true] at hstep
      simp only [List.length_cons]
      congr 2 <;> omega
    · have hsp : c = ' ' := by rcases hc with h | h; exact h; exact absurd h htab
      subst hsp
      simp only [if_neg htab, if_true]
      rw [hih, hW]
      simp only [colStep, if_neg htab] at hstep
      simp only [List.length_cons]
      congr 2 <;> omega

/-- `find_indent_of` at a char boundary `|p|` of `p ++ run ++ rest`, where `run` is the maximal blank
    run there: the indent is the column difference `width (p ++ run) − width p` (tabs expand relative
    to the START OF THE LINE, whatever precedes them), the position is just after the run. -/
theorem find_indent_spec (p run rest : List Char) (hrun : AllBlank run)
    (hrest : ∀ c r, rest = c :: r → ¬ (c = ' ' ∨ c = '\t')) :
    findIndentOf (p ++ run ++ rest) (byteLen p)
      = .ok (indentWidth (p ++ run) - indentWidth p, byteLen p + run.length) := by
  unfold findIndentOf
  have : dropBytes (p ++ run ++ rest) (byteLen p) = some (run ++ rest) := by
    rw [List.append_assoc]; exact dropBytes_append p _
  rw [this]
  have := findIndentGo_spec run hrun rest hrest p 0
  simpa using this

/-- every string decomposes at a boundary into (blank run, rest not starting with a blank) -/
theorem blank_run_split (t : List Char) : ∃ run rest, t = run ++ rest ∧ AllBlank run ∧
    ∀ c r, rest = c :: r → ¬ (c = ' ' ∨ c = '\t') := by
  refine ⟨t.takeWhile isBlank, t.dropWhile isBlank, List.takeWhile_append_dropWhile.symm,
    lead_allBlank t, ?_⟩
  intro c r h hc
  have := head_dropWhile h
  rw [isBlank_iff.mpr hc] at this
  cases this

/-- `find_indent_total`: `find_indent_of` panics exactly when `pos` is not a char boundary of the
    line (the re-slicing `&line[..pos]` inside the loop never panics). -/
theorem find_indent_total (line : List Char) (pos : Nat) :
    (∃ r, findIndentOf line pos = .ok r) ↔ onBoundary line pos = true := by
  constructor
  · rintro ⟨r, hr⟩
    unfold findIndentOf at hr
    unfold onBoundary
    split at hr
    · cases hr
    · rename_i t ht; simp [ht]
  · intro h
    obtain ⟨p, t, rfl, rfl⟩ := onBoundary_iff.mp h
    obtain ⟨run, rest, rfl, hrun, hrest⟩ := blank_run_split t
    rw [← List.append_assoc]
    exact ⟨_, find_indent_spec p run rest hrun hrest⟩

/-- `find_indent_bounds`: the returned position is a char boundary with `pos ≤ pos' ≤ |line|`, and the
    indent is between one and four columns per byte skipped. -/
theorem find_indent_bounds (line : List Char) (pos ind pos' : Nat)
    (h : findIndentOf line pos = .ok (ind, pos')) :
    pos ≤ pos' ∧ pos' ≤ byteLen line ∧ onBoundary line pos' = true ∧
      pos' - pos ≤ ind ∧ ind ≤ 4 * (pos' - pos) := by
  have hb := (find_indent_total line pos).mp ⟨_, h⟩
  obtain ⟨p, t, rfl, rfl⟩ := onBoundary_iff.mp hb
  obtain ⟨run, rest, rfl, hrun, hrest⟩ := blank_run_split t
  rw [← List.append_assoc, find_indent_spec p run rest hrun hrest] at h
  simp only [Except.ok.injEq, Prod.mk.injEq] at h
  obtain ⟨rfl, rfl⟩ := h
  have hw : ∀ (l : List Char) (col : Nat), col + l.length ≤ widthFrom col l ∧
      widthFrom col l ≤ col + 4 * l.length := by
    intro l
    induction l with
    | nil => intro col; simp [widthFrom]
    | cons c r ih =>
      intro col
      have := ih (colStep col c)
      simp only [widthFrom, List.foldl_cons, List.length_cons] at this ⊢
      have h1 : col + 1 ≤ colStep col c ∧ colStep col c ≤ col + 4 := by
        unfold colStep; split <;> omega
      omega
  have := hw run (indentWidth p)
  rw [indentWidth_append]
  refine ⟨by omega, ?_, ?_, by omega, by omega⟩
  · simp [hrun.byteLen] <;> omega
  · exact onBoundary_iff.mpr ⟨p ++ run, rest, by simp, by simp [hrun.byteLen]⟩

/-! ### The unit tests at the bottom of `utils.rs`, replayed on the model -/

section unit_tests
local notation "ok!" => Except.ok (ε := Panic)

-- rfind_and_count_test
example : rfindAndCount [] 'b' = 0 := by decide
example : rfindAndCount ['a', 'b', 'c', 'd', 'e'] 'e' = 0 := by decide
example : rfindAndCount ['a', 'b', 'c', 'd', 'e'] 'b' = 3 := by decide
example : rfindAndCount ['a', 'b', 'c', 'd', 'e'] 'z' = 5 := by decide
example : rfindAndCount ['a', 'b', 'c', 'ε', 'π'] 'b' = 3 := by decide
-- find_indent_of_simple_test
example : findIndentOf ['a'] 0 = ok! (0, 0) := by decide
example : findIndentOf [' ', 'a'] 0 = ok! (1, 1) := by decide
example : findIndentOf [' ', ' ', ' ', 'a'] 0 = ok! (3, 3) := by decide
example : findIndentOf [' ', ' ', ' ', ' '] 0 = ok! (4, 4) := by decide
example : findIndentOf ['\t', 'a'] 0 = ok! (4, 1) := by decide
example : findIndentOf [' ', '\t', 'a'] 0 = ok! (4, 2) := by decide
example : findIndentOf [' ', ' ', '\t', 'a'] 0 = ok! (4, 3) := by decide
example : findIndentOf [' ', ' ', ' ', '\t', 'a'] 0 = ok! (4, 4) := by decide
example : findIndentOf [' ', ' ', ' ', ' ', '\t', 'a'] 0 = ok! (8, 5) := by decide
-- find_indent_of_with_offset
example : findIndentOf [' ', ' ', ' ', 'a'] 2 = ok! (1, 3) := by decide
example : findIndentOf [' ', ' ', ' ', ' ', 'a'] 2 = ok! (2, 4) := by decide
example : findIndentOf [' ', ' ', '\t', 'a'] 2 = ok! (2, 3) := by decide
example : findIndentOf [' ', ' ', ' ', '\t', 'a'] 2 = ok! (2, 4) := by decide
example : findIndentOf [' ', ' ', ' ', ' ', '\t', 'a'] 2 = ok! (6, 5) := by decide
example : findIndentOf [' ', ' ', ' ', ' ', ' ', '\t', 'a'] 2 = ok! (6, 6) := by decide
-- find_indent_of_tabs_test
example : findIndentOf [' ', ' ', '\t', ' ', '\t', 'a'] 1 = ok! (7, 5) := by decide
example : findIndentOf [' ', ' ', '\t', ' ', '\t', 'a'] 2 = ok! (6, 5) := by decide
example : findIndentOf [' ', ' ', '\t', ' ', '\t', 'a'] 3 = ok! (4, 5) := by decide
example : findIndentOf [' ', ' ', '\t', ' ', '\t', 'a'] 4 = ok! (3, 5) := by decide
-- off a boundary / beyond the end: panic
example : findIndentOf ['é', ' '] 1 = .error .slice := by decide
example : findIndentOf ['a'] 2 = .error .slice := by decide
-- cut_ws_simple
example : cutRightWs ['a', 'b', 'c'] (-1) = ok! [] := by decide
example : cutRightWs ['a', 'b', 'c'] 0 = ok! [] := by decide
example : cutRightWs ['a', 'b', 'c'] 1 = ok! ['c'] := by decide
example : cutRightWs ['a', 'b', 'c'] 2 = ok! ['b', 'c'] := by decide
example : cutRightWs ['a', 'b', 'c'] 3 = ok! ['a', 'b', 'c'] := by decide
example : cutRightWs ['a', 'b', 'c'] 4 = ok! ['a', 'b', 'c'] := by decide
-- cut_ws_unicode
example : cutRightWs ['α', 'β', 'γ', 'δ'] 1 = ok! ['δ'] := by decide
example : cutRightWs ['α', 'β', 'γ', 'δ', ' '] 3 = ok! ['γ', 'δ', ' '] := by decide
-- cut_ws_expands_partial_tabs
example : cutRightWs ['\t'] 1 = ok! [' '] := by decide
example : cutRightWs ['\t'] 2 = ok! [' ', ' '] := by decide
example : cutRightWs ['\t'] 3 = ok! [' ', ' ', ' '] := by decide
example : cutRightWs ['\t', '\t', '\t'] 5 = ok! [' ', '\t'] := by decide
example : cutRightWs ['\t', '\t', '\t'] 7 = ok! [' ', ' ', ' ', '\t'] := by decide
-- cut_ws_retains_full_tabs
example : cutRightWs ['\t', '\t', '\t'] 4 = ok! ['\t'] := by decide
example : cutRightWs ['\t', '\t', '\t'] 8 = ok! ['\t', '\t'] := by decide
-- cut_ws_proper_tabstops
example : cutRightWs ['a', '\t'] 1 = ok! [' '] := by decide
example : cutRightWs ['a', '\t'] 2 = ok! [' ', ' '] := by decide
example : cutRightWs ['a', '\t'] 3 = ok! ['\t'] := by decide
example : cutRightWs ['a', 'b', '\t'] 3 = ok! ['b', '\t'] := by decide
example : cutRightWs ['a', 'b', 'c', '\t'] 3 = ok! ['b', 'c', '\t'] := by decide
-- cut_ws_proper_tabstops_nested
example : cutRightWs ['a', '\t', 'b', '\t'] 2 = ok! [' ', ' '] := by decide
example : cutRightWs ['a', '\t', 'b', '\t'] 3 = ok! ['\t'] := by decide
example : cutRightWs ['a', '\t', 'b', '\t'] 4 = ok! ['b', '\t'] := by decide
example : cutRightWs ['a', '\t', 'b', '\t'] 5 = ok! [' ', 'b', '\t'] := by decide
example : cutRightWs ['a', '\t', 'b', '\t'] 6 = ok! [' ', ' ', 'b', '\t'] := by decide
example : cutRightWs ['a', '\t', 'b', '\t'] 7 = ok! ['\t', 'b', '\t'] := by decide
example : cutRightWs ['a', '\t', 'b', '\t'] 8 = ok! ['a', '\t', 'b', '\t'] := by decide
-- cut_ws_different_tabstops_nested  ("abc\tde\tf\tg")
example : cutRightWs ['a', 'b', 'c', '\t', 'd', 'e', '\t', 'f', '\t', 'g'] 3 = ok! [' ', ' ', 'g'] := by decide
example : cutRightWs ['a', 'b', 'c', '\t', 'd', 'e', '\t', 'f', '\t', 'g'] 4 = ok! ['\t', 'g'] := by decide
example : cutRightWs ['a', 'b', 'c', '\t', 'd', 'e', '\t', 'f', '\t', 'g'] 5 = ok! ['f', '\t', 'g'] := by decide
example : cutRightWs ['a', 'b', 'c', '\t', 'd', 'e', '\t', 'f', '\t', 'g'] 6 = ok! [' ', 'f', '\t', 'g'] := by decide
example : cutRightWs ['a', 'b', 'c', '\t', 'd', 'e', '\t', 'f', '\t', 'g'] 7 = ok! ['\t', 'f', '\t', 'g'] := by decide
example : cutRightWs ['a', 'b', 'c', '\t', 'd', 'e', '\t', 'f', '\t', 'g'] 9
    = ok! ['d', 'e', '\t', 'f', '\t', 'g'] := by decide
example : cutRightWs ['a', 'b', 'c', '\t', 'd', 'e', '\t', 'f', '\t', 'g'] 10
    = ok! ['\t', 'd', 'e', '\t', 'f', '\t', 'g'] := by decide
-- the doc-tests
example : calcRightWs ['\t', '\t'] 6 = (2, 1) := by decide
example : cutRightWs ['\t', '\t'] 6 = ok! [' ', ' ', '\t'] := by decide
example : findIndentOf ['\t', 'f', 'o', 'o'] 0 = ok! (4, 1) := by decide
end unit_tests

/-
OPEN: the composition over whole documents (Layer 3; DESIGN §9 C10 `render_le_invariant`).

  theorem render_le_invariant (cfg : Cfg) (src : List Char) (h : '\r' ∉ src) :
      render (parse cfg (lfToCrlf src)) = render (parse cfg src) ∧
      render (parse cfg (lfToCr src))   = render (parse cfg src)
  theorem render_final_newline (cfg : Cfg) (src : List Char)
      (h : src.getLast? ≠ some '\n' ∧ src.getLast? ≠ some '\r') :
      render (parse cfg (src ++ ['\n'])) = render (parse cfg src)

  What is missing is the block-tokenizer model (`parse`) and the lemma `rules_read_views` (C06): every
  block rule is a function of `views`, `isEmpty` (`is_empty_of_view`) and `getLines`.  Given that, the two
  statements follow from `split_crlf` / `split_cr` / `split_final_newline` (equal views),
  `get_lines_same_views` (equal node payloads) and `get_lines_split_no_cr` (no CR in any payload); source
  ranges differ (byte shift), so with `sourcepos` the statement additionally needs line:column
  invariance (C15).  Until then the composition is covered by the oracle `c10` of the harness.
-/

end MdIt.Lines
