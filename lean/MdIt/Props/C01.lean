/-
  C01 — Parsing and rendering never panic, abort or hang.

  FULL STATEMENT (composition target, not proved; DESIGN.md §9 C01):
    theorem parse_render_total : ∀ (cfg : Config) (src : List Char),
        ∃ t h, parse cfg src = .ok t ∧ render x t = .ok h
  for a Layer-3 model of the whole pipeline in which every Rust panic site is an `Except.error` and
  every loop carries the code's own measure.  OPEN: the simultaneous induction over all rules and all
  chain orders (rules call the tokenizers recursively) and the html rules' regex matchers.

  WHAT IS PROVED (`_partial`): every panic site of DESIGN.md Appendix A that lies in a modelled
  mechanism is discharged by a theorem about that mechanism, for all inputs.  This file only collects
  those theorems under C01 (names as in the modules that prove them); the audit file prints their
  axioms.  The composition gap is covered by the rule-level correspondence streams (panics are
  canonicalised and compared) and by the implementation-side oracle (testing, labelled as such).

    site (Appendix A)                                   discharged by
    --------------------------------------------------- -------------------------------------------
    code_pair.rs closer cache `max[opener_len]`         CodePair.codepair_no_panic / runSeq_no_panic
    code_pair.rs scan loop termination, slices          CodePair.scan_total, codepair_progress
    encode.rs `bytes[i+1]`, `bytes[i+2]`, DIGITS, utf8  Url.encodeIdx_total
    sourcemap.rs `x-1`, `marks[found]`, slice           SourceMap.getPosition_total
    inline/state.rs get_source_pos_for                  C05.translate_total
    inline/state.rs trailing_text_push / pop            C05.text_push_total, C05.text_pop_total
    block/state.rs get_lines slices, offsets            Lines.get_lines_total, split_offsets_valid
    utils.rs calc_right…, find_indent_of                Lines.calc_right_bounds, find_indent_total
    utils.rs radix parse / from_u32 (references)        Entity.numeric_parse_total, unescapeAllE_total
    full_link.rs destination / title / inline tail      Link.dest_total, title_total, tail_total
    inline_parser.rs splice loop                        C14.splice_removes_inlineroot (terminates)
    ruler.rs `get(idx).unwrap()`, Debug lookup          Ruler.compile_total, ParserState.parse_total,
                                                        ParserState.debugFmt_total
    erasedset.rs downcasts, node.rs cast                ErasedSet.eset_total, Tree.node_type_inv
    stack exhaustion                                    Nesting.recursion_bounded, parse_stack_bounded
                                                        (emphasis depth: known finding, C02)
    text + escape + entity inline chain                 Entity.tokenizeTEE_total
-/
import MdIt.Props.CodePair
import MdIt.Props.C17
import MdIt.Props.C15
import MdIt.Props.C05
import MdIt.Props.C10
import MdIt.Props.C12
import MdIt.Props.C04
import MdIt.Props.C14
import MdIt.Props.C09
import MdIt.Props.C08
import MdIt.Props.C20
import MdIt.Props.C02

namespace MdIt.C01

/-- The mechanism theorems above in one statement about the one real panic the pinned tree had:
for every source, every cache value and every call sequence the code-span rule returns normally, and
whenever it reports a span it consumed at least two bytes (the tokenizer loop makes progress). -/
theorem codespan_rule_total (v : MdIt.CodePair.Variant) (hv : v.checked = true) (m : Char)
    (hm1 : m.utf8Size = 1) (src : List Char) (calls : List MdIt.CodePair.Call)
    (hc : ∀ k ∈ calls, k.Valid src) (c : MdIt.CodePair.Cache) :
    ∃ r, MdIt.CodePair.runSeq v m src calls c = .ok r :=
  MdIt.CodePair.runSeq_no_panic v hv m hm1 src calls hc c

end MdIt.C01
