/-
  C10 at WHOLE-DOCUMENT level — the rendered HTML does not depend on the line-ending convention nor
  on a final newline (configurations without the sourcepos plugin).

      doc_cr_invariant             '\r' ∉ src  →  renderDoc x cfg (lfToCr src)   = renderDoc x cfg src
      doc_final_newline_invariant  src does not end with LF / CR
                                               →  renderDoc x cfg (src ++ "\n")  = renderDoc x cfg src
      doc_crlf_invariant           '\r' ∉ src  →  renderDoc x cfg (lfToCrlf src) = renderDoc x cfg src
                                   (+ the inline parser does not panic on `src`, see below)

  for every `DocCfg` with `sourcepos = false`, every chain, both `x` (`render` / `xrender`), ALL texts
  (no size bound), as EQUATIONS BETWEEN RESULTS: equal HTML or equal panics.

  How (files `MdIt/Lemmas/C10Doc*.lean`):
   (L1) block slice — `parseBlocks_rel`: a lock-step simulation of two runs of the block parser on two
        sources whose line lists are `StartRel ρ` (the same lines; line starts related by a
        translation-invariant `ρ`: `=` for LF ↦ CR and for the final newline — nothing moves —, `≤` for
        LF ↦ CR LF, `True` for arbitrary sources with the same views): `SRel` on states (tables entrywise
        `ERel`: same bytes of the line, same relative `first_nonspace`, same indent), all nine rules
        (`hr_sim` `heading_sim` `code_sim` `fence_sim` `paragraph_sim` `lheading_sim` `reference_sim`
        `blockquote_sim` `list_sim`), `runChain_sim`, `tokLoop_sim`, `engine_sim` for every pair of
        fuels `f₁ ≤ f₂`, in the form `FRel`: same panic, or related results (trees `NRelL ρ`: equal kinds
        and payloads, `InlineRoot` contents EQUAL, per-line tables with equal keys and `ρ`-related
        values, ranges `ρ`-related), or side 1 out of fuel.  The `debug_assert!` of `code.rs` compares
        offsets of different lines: excluded on both sides by the monotonicity of the table (`IncT`).
        Instances `parseBlocks_cr`, `parseBlocks_final_newline` (`ρ` is `=`: the SAME tree below the root,
        ranges and tables included), `parseBlocks_crlf`, and `parseBlocks_same_views` (the statement of the
        OPEN block of `Props/Pipeline.lean`).
   (L2) inline slice — `inline_range_free`: `InlineRangeFree icfg` for EVERY `icfg` and ANY two tables
        (successful runs differ in ranges only), and `inline_ok_transfer`: same keys and pointwise larger
        values ⇒ the second run does not panic when the first does not (the only places where a SOURCE
        offset decides anything are the two underflow guards `map_end - count` of `trailing_text_pop` and
        `end - marker_len` of the delimiter matching; larger offsets pass them a fortiori).
   composition — for `=` the two documents reach the inline pass with IDENTICAL placeholders, so nothing
        about the inline parser is needed and panics are equal too (`renderDoc_of_blocks_eq`; the root's
        range differs for the final newline: `render_ranges_irrelevant`); for `≤`
        `spliceList_ok_transfer` + `doc_line_ending_reduction`.

  Hypotheses that remain, and why (OPEN blocks at the end give the exact missing lemmas):
   * `hfuel : cfg.maxNesting ≤ |src| ∨ parseBlocks cfg.blockCfg src ≠ .error .fuel` — a statement about
     the MODEL's fuel, not about the Rust: `fuelFor` depends on `|src|` (`min max_nesting |src|`), which
     the rewritings change.  For a source of at least `max_nesting` bytes both runs have the same fuel
     and nothing is assumed (`parseBlocks_res`: the simulation applied in both directions); for a
     shorter one the run on `src` must not exhaust its fuel — it never does (stream `block`), but that
     is not proved.
   * `doc_crlf_invariant` only: `hinl : ∀ e, parseDoc cfg src ≠ .error (.inline e)` — if the inline
     parser panics on the LF document, nothing is claimed (the CR LF document is then NOT known to
     panic alike: a panic of `map_end - count` depends on absolute offsets, which CR LF increases).
-/
import MdIt.Lemmas.C10DocEngine
import MdIt.Lemmas.C10DocLines
import MdIt.Lemmas.C10DocInline

namespace MdIt.Block.LE
open MdIt.Lines (LineOffset linesT lfToCrlf lfToCr)

/-! ## the block pass on two sources with related line tables -/

/-- what `parseBlocks_rel` says of two successful block passes: a root of the same kind, children
    equal up to `ρ`-related source offsets, the same reference map -/
def BlocksRel (ρ : Nat → Nat → Prop) (r₁ r₂ : BNode × Refs.RefMap) : Prop :=
  r₁.1.kind = r₂.1.kind ∧ NRelL ρ r₁.1.children r₂.1.children ∧ r₁.2 = r₂.2

/-- **the block pass in lock step.**  Two sources whose line lists are `StartRel` (same lines, line
    starts `ρ`-related), the second parsed with at least as much fuel: unless the first run exhausts
    its fuel, both panic alike or return `BlocksRel` results. -/
theorem parseBlocks_rel {ρ : Nat → Nat → Prop} (hs : Shift ρ) (cfg : Cfg) {s₁ s₂ : List Char}
    (h : StartRel ρ 0 0 (linesT s₁) (linesT s₂)) (hf : fuelFor cfg s₁ ≤ fuelFor cfg s₂) :
    FRel (BlocksRel ρ) (parseBlocks cfg s₁) (parseBlocks cfg s₂) := by
  unfold parseBlocks
  rcases tokenize_sim cfg (ctx_of hs s₁ s₂) hf (srel_fresh h .root []) with h | ⟨a, b, h1, h2, S⟩ | ⟨e, h1, h2⟩
  · rw [h]; exact frel_fuel _
  · rw [h1, h2]; exact frel_ok ⟨S.nodeKind.symm, S.children, S.refs.symm⟩
  · rw [h1, h2]; exact frel_err _

theorem fuelFor_le (cfg : Cfg) {s₁ s₂ : List Char} {ρ : Nat → Nat → Prop}
    (h : StartRel ρ 0 0 (linesT s₁) (linesT s₂)) (hb : Lines.byteLen s₁ ≤ Lines.byteLen s₂) :
    fuelFor cfg s₁ ≤ fuelFor cfg s₂ := by
  unfold fuelFor
  rw [Lines.splitLines_eq, Lines.splitLines_eq, Lines.offsetsOf_length, Lines.offsetsOf_length, h.length]
  omega

theorem StartRel.symm {ρ : Nat → Nat → Prop} : ∀ {L₁ L₂ : List (List Char × List Char)} {a b : Nat},
    StartRel ρ a b L₁ L₂ → StartRel (fun x y => ρ y x) b a L₂ L₁
  | [], [], _, _, _ => trivial
  | [], _ :: _, _, _, h => by simp [StartRel] at h
  | _ :: _, [], _, _, h => by simp [StartRel] at h
  | _ :: _, _ :: _, _, _, h => by
    simp only [StartRel] at h ⊢
    exact ⟨h.1.symm, h.2.1, StartRel.symm h.2.2⟩

theorem Shift.flip {ρ : Nat → Nat → Prop} (h : Shift ρ) : Shift (fun x y => ρ y x) := ⟨fun d hr => h.add d hr⟩

/-- the outcome of two block passes: related results or the same panic (the model's fuel panic
    included) -/
def BRes (ρ : Nat → Nat → Prop) (p₁ p₂ : Except Panic (BNode × Refs.RefMap)) : Prop :=
  (∃ a b, p₁ = .ok a ∧ p₂ = .ok b ∧ BlocksRel ρ a b) ∨ (∃ e, p₁ = .error e ∧ p₂ = .error e)

/-- **the block pass, symmetric form.**  When the shorter source has at least `max_nesting` bytes the
    two runs have the SAME fuel and the simulation applies in both directions; otherwise the shorter
    run must not exhaust its (smaller) fuel. -/
theorem parseBlocks_res {ρ : Nat → Nat → Prop} (hs : Shift ρ) (cfg : Cfg) {s₁ s₂ : List Char}
    (h : StartRel ρ 0 0 (linesT s₁) (linesT s₂)) (hb : Lines.byteLen s₁ ≤ Lines.byteLen s₂)
    (hfuel : cfg.maxNesting ≤ Lines.byteLen s₁ ∨ parseBlocks cfg s₁ ≠ .error .fuel) :
    BRes ρ (parseBlocks cfg s₁) (parseBlocks cfg s₂) := by
  rcases parseBlocks_rel hs cfg h (fuelFor_le cfg h hb) with hA | hok | herr
  · rcases hfuel with hm | hne
    · have hf : fuelFor cfg s₂ ≤ fuelFor cfg s₁ := by
        unfold fuelFor
        rw [Lines.splitLines_eq, Lines.splitLines_eq, Lines.offsetsOf_length, Lines.offsetsOf_length, h.length]
        omega
      rcases parseBlocks_rel hs.flip cfg h.symm hf with hB | ⟨a, b, h1, h2, _⟩ | ⟨e, h1, h2⟩
      · exact .inr ⟨_, hA, hB⟩
      · rw [hA] at h2; cases h2
      · rw [hA] at h2; cases h2; exact .inr ⟨_, hA, h1⟩
    · exact absurd hA hne
  · exact .inl hok
  · exact .inr herr

theorem byteLen_lfToCrlf (s : List Char) : Lines.byteLen s ≤ Lines.byteLen (lfToCrlf s) := by
  induction s with
  | nil => simp [lfToCrlf]
  | cons c r ih =>
    simp only [lfToCrlf]
    split
    · rename_i h; subst h
      simp only [Lines.byteLen_cons]; omega
    · simp only [Lines.byteLen_cons]; omega

theorem byteLen_lfToCr (s : List Char) : Lines.byteLen (lfToCr s) = Lines.byteLen s := by
  induction s with
  | nil => simp [lfToCr]
  | cons c r ih =>
    simp only [lfToCr]
    split
    · rename_i h; subst h
      simp only [Lines.byteLen_cons, ih]
      have : '\r'.utf8Size = '\n'.utf8Size := by decide
      omega
    · simp only [Lines.byteLen_cons, ih]

/-- LF ↦ CR LF at the block level -/
theorem parseBlocks_crlf (cfg : Cfg) (src : List Char) (h : '\r' ∉ src)
    (hfuel : cfg.maxNesting ≤ Lines.byteLen src ∨ parseBlocks cfg src ≠ .error .fuel) :
    BRes (· ≤ ·) (parseBlocks cfg src) (parseBlocks cfg (lfToCrlf src)) :=
  parseBlocks_res shift_le cfg (linesT_crlf _ src rfl h 0 0 (Nat.le_refl 0)) (byteLen_lfToCrlf src) hfuel

/-- LF ↦ CR at the block level: the same tree, ranges and per-line tables included -/
theorem parseBlocks_cr (cfg : Cfg) (src : List Char) (h : '\r' ∉ src)
    (hfuel : cfg.maxNesting ≤ Lines.byteLen src ∨ parseBlocks cfg src ≠ .error .fuel) :
    BRes Eq (parseBlocks cfg src) (parseBlocks cfg (lfToCr src)) :=
  parseBlocks_res shift_eq cfg (linesT_cr _ src rfl h 0) (by rw [byteLen_lfToCr]; exact Nat.le_refl _) hfuel

/-- a final LF at the block level: the same tree below the root -/
theorem parseBlocks_final_newline (cfg : Cfg) (src : List Char)
    (h : src.getLast? ≠ some '\n' ∧ src.getLast? ≠ some '\r')
    (hfuel : cfg.maxNesting ≤ Lines.byteLen src ∨ parseBlocks cfg src ≠ .error .fuel) :
    BRes Eq (parseBlocks cfg src) (parseBlocks cfg (src ++ ['\n'])) :=
  parseBlocks_res shift_eq cfg (linesT_final _ src rfl h 0) (by simp) hfuel

/-! ### arbitrary sources with the same views -/

theorem decompose_injective : Function.Injective Lines.decompose := by
  intro a b h
  simp only [Lines.decompose, Prod.mk.injEq] at h
  rw [← List.takeWhile_append_dropWhile (p := Lines.isBlank) (l := a),
    ← List.takeWhile_append_dropWhile (p := Lines.isBlank) (l := b), h.1, h.2.1]

/-- equal views ⇒ the same lines -/
theorem lines_of_views {s₁ s₂ : List Char} (h : Lines.views s₁ = Lines.views s₂) :
    (linesT s₁).map Prod.fst = (linesT s₂).map Prod.fst := by
  rw [Lines.split_views, Lines.split_views] at h
  have h2 := Lines.map_inj_of_injective Lines.okView_injective h
  unfold Lines.specLines at h2
  have h3 := Lines.map_inj_of_injective decompose_injective h2
  rw [Lines.linesT_fst, Lines.linesT_fst, h3]

theorem startRel_true : ∀ (L₁ L₂ : List (List Char × List Char)) (st₁ st₂ : Nat),
    L₁.map Prod.fst = L₂.map Prod.fst → StartRel (fun _ _ => True) st₁ st₂ L₁ L₂
  | [], [], _, _, _ => trivial
  | [], _ :: _, _, _, h => by simp at h
  | _ :: _, [], _, _, h => by simp at h
  | x :: r₁, y :: r₂, _, _, h => by
    simp only [List.map_cons, List.cons.injEq] at h
    exact ⟨h.1, trivial, startRel_true r₁ r₂ _ _ h.2⟩

/-- two sources with the same views, at the block level (no relation between the offsets) -/
theorem parseBlocks_views (cfg : Cfg) (s₁ s₂ : List Char) (h : Lines.views s₁ = Lines.views s₂)
    (hf : fuelFor cfg s₁ ≤ fuelFor cfg s₂) :
    FRel (BlocksRel (fun _ _ => True)) (parseBlocks cfg s₁) (parseBlocks cfg s₂) :=
  parseBlocks_rel shift_true cfg (startRel_true _ _ 0 0 (lines_of_views h)) hf

end MdIt.Block.LE

namespace MdIt.Pipeline
open MdIt.Block.LE (FRel BRes BlocksRel NRel NRelL KRel MRel RgRel)
open MdIt.Lines (lfToCrlf lfToCr)

/-! ## from the block relation to the erased trees of `Props/Pipeline.lean` -/

theorem eraseK_of_krel {ρ : Nat → Nat → Prop} {k₁ k₂ : Block.Kind} (h : KRel ρ k₁ k₂) : eraseK k₁ = eraseK k₂ := by
  rcases h with rfl | ⟨c, m₁, m₂, rfl, rfl, _⟩ <;> rfl

mutual
theorem eraseB_of_nrel {ρ : Nat → Nat → Prop} {n₁ n₂ : Block.BNode} (h : NRel ρ n₁ n₂) : eraseB n₁ = eraseB n₂ := by
  match n₁, n₂ with
  | ⟨k₁, r₁, c₁⟩, ⟨k₂, r₂, c₂⟩ =>
    simp only [NRel] at h
    simp only [eraseB, eraseK_of_krel h.1, eraseBList_of_nrelL h.2.2]
theorem eraseBList_of_nrelL {ρ : Nat → Nat → Prop} {a b : List Block.BNode} (h : NRelL ρ a b) :
    eraseBList a = eraseBList b := by
  match a, b with
  | [], [] => rfl
  | [], _ :: _ => simp only [NRelL] at h
  | _ :: _, [] => simp only [NRelL] at h
  | x :: xs, y :: ys =>
    obtain ⟨h1, h2⟩ := h.cons_inv
    simp only [eraseBList, eraseB_of_nrel h1, eraseBList_of_nrelL h2]
end

/-- **(L1) of the OPEN block of `Props/Pipeline.lean`**: two sources with the same views give block
    trees equal after erasing ranges and `InlineRoot` tables, the same reference map, or the same
    panic — the second parsed with at least as much fuel, the first not exhausting its own (both
    automatic when the sources have the same number of bytes; the model's fuel depends on `|src|`). -/
theorem parseBlocks_same_views (cfg : Block.Cfg) (s₁ s₂ : List Char) (h : Lines.views s₁ = Lines.views s₂)
    (hf : Block.fuelFor cfg s₁ ≤ Block.fuelFor cfg s₂) (hne : Block.parseBlocks cfg s₁ ≠ .error .fuel) :
    match Block.parseBlocks cfg s₁, Block.parseBlocks cfg s₂ with
    | .ok (r₁, refs₁), .ok (r₂, refs₂) => eraseB r₁ = eraseB r₂ ∧ refs₁ = refs₂
    | .error e₁, .error e₂ => e₁ = e₂
    | _, _ => False := by
  rcases Block.LE.parseBlocks_views cfg s₁ s₂ h hf with h0 | ⟨a, b, h1, h2, hk, hc, hr⟩ | ⟨e, h1, h2⟩
  · exact absurd h0 hne
  · obtain ⟨⟨k₁, r₁, c₁⟩, refs₁⟩ := a
    obtain ⟨⟨k₂, r₂, c₂⟩, refs₂⟩ := b
    simp only at hk hc hr
    subst hk hr
    rw [h1, h2]
    simp only [eraseB, eraseBList_of_nrelL hc, and_self]
  · rw [h1, h2]

/-- `render` / `xrender` of a parse result -/
def renderOf (x : Bool) (cfg : DocCfg) (r : Except Panic Node) : Except Panic (List Char) :=
  match r with
  | .error e => .error e
  | .ok t =>
    match renderEvents cfg t with
    | .error e => .error e
    | .ok evs => .ok (Render.serialize x evs)

theorem renderDoc_eq_renderOf (x : Bool) (cfg : DocCfg) (src : List Char) :
    renderDoc x cfg src = renderOf x cfg (parseDoc cfg src) := by
  unfold renderDoc renderOf
  cases parseDoc cfg src <;> rfl

/-- the core chain behind the block pass, when the two block trees agree below the root -/
theorem afterBlocks_root_range (x : Bool) (cfg : DocCfg) (hsp : cfg.sourcepos = false) (s₁ s₂ : List Char)
    (k : Block.Kind) (r₁ r₂ : Option (Nat × Nat)) (cs : List Block.BNode) (refs : Refs.RefMap) :
    renderOf x cfg (afterBlocks cfg s₁ ⟨k, r₁, cs⟩ refs) = renderOf x cfg (afterBlocks cfg s₂ ⟨k, r₂, cs⟩ refs) := by
  simp only [afterBlocks, hsp, spliceNode, Bool.false_eq_true, if_false]
  cases spliceList (cfg.inlineCfg refs) cs with
  | error e => rfl
  | ok cs' =>
    simp only [renderOf]
    have he : eraseRanges (⟨.blk k, r₁, [], cs'⟩ : Node) = eraseRanges ⟨.blk k, r₂, [], cs'⟩ := by
      simp only [eraseRanges]
    by_cases hj : cfg.hasJoin = true
    · simp only [hj, if_true]
      rw [render_ranges_irrelevant cfg (joinNode ⟨.blk k, r₁, [], cs'⟩) (joinNode ⟨.blk k, r₂, [], cs'⟩)
        (by rw [erase_joinNode, erase_joinNode, he])]
    · have hj' : cfg.hasJoin = false := by simpa using hj
      simp only [hj', Bool.false_eq_true, if_false]
      rw [render_ranges_irrelevant cfg _ _ he]

/-- two sources whose block passes agree up to the root's range render alike (`sourcepos` off) -/
theorem renderDoc_of_blocks_eq (x : Bool) (cfg : DocCfg) (s₁ s₂ : List Char) (hsp : cfg.sourcepos = false)
    (h : BRes Eq (Block.parseBlocks cfg.blockCfg s₁) (Block.parseBlocks cfg.blockCfg s₂)) :
    renderDoc x cfg s₂ = renderDoc x cfg s₁ := by
  rcases h with ⟨a, b, h1, h2, hk, hc, hr⟩ | ⟨e, h1, h2⟩
  · obtain ⟨⟨k₁, r₁, c₁⟩, refs₁⟩ := a
    obtain ⟨⟨k₂, r₂, c₂⟩, refs₂⟩ := b
    simp only at hk hc hr
    subst hk hr
    have := Block.LE.NRelL.eq hc; subst this
    rw [renderDoc_eq_renderOf, renderDoc_eq_renderOf]
    unfold parseDoc
    rw [h1, h2]
    exact afterBlocks_root_range x cfg hsp s₂ s₁ k₁ r₂ r₁ c₁ refs₁
  · unfold renderDoc parseDoc
    rw [h1, h2]

/-- **LF ↦ CR does not change the rendered HTML.** -/
theorem doc_cr_invariant (x : Bool) (cfg : DocCfg) (src : List Char) (hsp : cfg.sourcepos = false)
    (hcr : '\r' ∉ src)
    (hfuel : cfg.maxNesting ≤ Lines.byteLen src ∨ Block.parseBlocks cfg.blockCfg src ≠ .error .fuel) :
    renderDoc x cfg (lfToCr src) = renderDoc x cfg src :=
  renderDoc_of_blocks_eq x cfg _ _ hsp (Block.LE.parseBlocks_cr cfg.blockCfg src hcr hfuel)

/-- **A final newline does not change the rendered HTML.** -/
theorem doc_final_newline_invariant (x : Bool) (cfg : DocCfg) (src : List Char) (hsp : cfg.sourcepos = false)
    (hlast : src.getLast? ≠ some '\n' ∧ src.getLast? ≠ some '\r')
    (hfuel : cfg.maxNesting ≤ Lines.byteLen src ∨ Block.parseBlocks cfg.blockCfg src ≠ .error .fuel) :
    renderDoc x cfg (src ++ ['\n']) = renderDoc x cfg src :=
  renderDoc_of_blocks_eq x cfg _ _ hsp (Block.LE.parseBlocks_final_newline cfg.blockCfg src hlast hfuel)

end MdIt.Pipeline

namespace MdIt.Pipeline
open MdIt.Block.LE (FRel BRes BlocksRel NRel NRelL KRel MRel RgRel)
open MdIt.Lines (lfToCrlf lfToCr)

/-! ## LF ↦ CR LF: the inline pass on tables whose values moved right -/

theorem mle_of_mrel : ∀ {m₁ m₂ : List (Nat × Nat)}, MRel (· ≤ ·) m₁ m₂ → MLe m₁ m₂
  | [], [], _ => ⟨rfl, fun i _ _ _ _ h => by simp at h⟩
  | [], _ :: _, h => h.elim
  | _ :: _, [], h => h.elim
  | (k₁, v₁) :: r₁, (k₂, v₂) :: r₂, h => by
    obtain ⟨hk, hv, hr⟩ := h
    obtain ⟨ih1, ih2⟩ := mle_of_mrel hr
    simp only at hk hv
    refine ⟨by simp [hk, ih1], ?_⟩
    intro i a b c d h1 h2
    cases i with
    | zero => simp at h1 h2; omega
    | succ i =>
      simp only [List.getElem?_cons_succ] at h1 h2
      exact ih2 i a b c d h1 h2

mutual
/-- the splice walk can only fail in the inline parser -/
theorem spliceNode_error {icfg : Inline.Cfg} : ∀ (b : Block.BNode) (e : Panic),
    spliceNode icfg b = .error e → ∃ e', e = .inline e'
  | ⟨k, r, cs⟩, e, h => by
    simp only [spliceNode] at h
    split at h
    · rename_i e' he'
      cases h
      exact spliceList_error cs _ he'
    · cases h
theorem spliceList_error {icfg : Inline.Cfg} : ∀ (cs : List Block.BNode) (e : Panic),
    spliceList icfg cs = .error e → ∃ e', e = .inline e'
  | [], e, h => by simp [spliceList] at h
  | c :: rest, e, h => by
    simp only [spliceList] at h
    split at h
    · split at h
      · cases h; exact ⟨_, rfl⟩
      · split at h
        · rename_i e' he'
          cases h
          exact spliceList_error rest _ he'
        · cases h
    · split at h
      · rename_i e' he'
        cases h
        exact spliceNode_error c _ he'
      · split at h
        · rename_i e' he'
          cases h
          exact spliceList_error rest _ he'
        · cases h
end

mutual
/-- no panic of the splice walk on the LF side ⇒ none on the side whose tables moved right -/
theorem spliceNode_ok_transfer {icfg : Inline.Cfg} : ∀ (b₁ b₂ : Block.BNode) (t₁ : Node),
    NRel (· ≤ ·) b₁ b₂ → spliceNode icfg b₁ = .ok t₁ → ∃ t₂, spliceNode icfg b₂ = .ok t₂
  | ⟨k₁, r₁, c₁⟩, ⟨k₂, r₂, c₂⟩, t₁, hn, h => by
    simp only [NRel] at hn
    simp only [spliceNode] at h ⊢
    split at h
    · cases h
    · rename_i o₁ ho₁
      obtain ⟨o₂, ho₂⟩ := spliceList_ok_transfer c₁ c₂ o₁ hn.2.2 ho₁
      rw [ho₂]
      exact ⟨_, rfl⟩
theorem spliceList_ok_transfer {icfg : Inline.Cfg} : ∀ (c₁ c₂ : List Block.BNode) (o₁ : List Node),
    NRelL (· ≤ ·) c₁ c₂ → spliceList icfg c₁ = .ok o₁ → ∃ o₂, spliceList icfg c₂ = .ok o₂
  | [], [], _, _, _ => ⟨[], rfl⟩
  | [], _ :: _, _, hn, _ => by simp only [NRelL] at hn
  | _ :: _, [], _, hn, _ => by simp only [NRelL] at hn
  | x :: xs, y :: ys, o₁, hn, h => by
    obtain ⟨hxy, hrest⟩ := hn.cons_inv
    have hk := hxy.kind
    simp only [spliceList] at h
    split at h
    · -- an `InlineRoot` on side 1
      rename_i content m₁ hk₁
      split at h
      · cases h
      · rename_i ns₁ hns₁
        split at h
        · cases h
        · rename_i q₁ hq₁
          obtain ⟨q₂, hq₂⟩ := spliceList_ok_transfer xs ys q₁ hrest hq₁
          have hy : ∃ m₂, y.kind = .inlineRoot content m₂ ∧ MLe m₁ m₂ := by
            rw [hk₁] at hk
            rcases hk with hk | ⟨c, a, b, h1, h2, hm⟩
            · exact ⟨m₁, hk.symm, mle_of_mrel (by
                clear hns₁ hk₁ hk
                induction m₁ with
                | nil => trivial
                | cons p r ih => exact ⟨rfl, Nat.le_refl _, ih⟩)⟩
            · cases h1
              exact ⟨b, h2, mle_of_mrel hm⟩
          obtain ⟨m₂, hy, hm⟩ := hy
          obtain ⟨ns₂, hns₂⟩ := inline_ok_transfer icfg content m₁ m₂ hm ns₁ hns₁
          simp only [spliceList, hy, hns₂, hq₂]
          exact ⟨_, rfl⟩
    · -- anything else: the same kind on side 2
      rename_i hne₁
      have hy : y.kind = x.kind := hk.eq_of_not_inline (fun c m e => hne₁ c m e)
      split at h
      · cases h
      · rename_i t₁ ht₁
        split at h
        · cases h
        · rename_i q₁ hq₁
          obtain ⟨t₂, ht₂⟩ := spliceNode_ok_transfer x y t₁ hxy ht₁
          obtain ⟨q₂, hq₂⟩ := spliceList_ok_transfer xs ys q₁ hrest hq₁
          simp only [spliceList]
          split
          · rename_i c m hyk
            rw [hy] at hyk
            exact absurd hyk (hne₁ c m)
          · rw [ht₂, hq₂]
            exact ⟨_, rfl⟩
end

/-- **LF ↦ CR LF does not change the rendered HTML**, provided the inline parser does not panic on
    the LF document. -/
theorem doc_crlf_invariant (x : Bool) (cfg : DocCfg) (src : List Char) (hsp : cfg.sourcepos = false)
    (hcr : '\r' ∉ src)
    (hfuel : cfg.maxNesting ≤ Lines.byteLen src ∨ Block.parseBlocks cfg.blockCfg src ≠ .error .fuel)
    (hinl : ∀ e, parseDoc cfg src ≠ .error (.inline e)) :
    renderDoc x cfg (lfToCrlf src) = renderDoc x cfg src := by
  rcases Block.LE.parseBlocks_crlf cfg.blockCfg src hcr hfuel with ⟨a, b, h1, h2, hk, hc, hr⟩ | ⟨e, h1, h2⟩
  · obtain ⟨⟨k₁, r₁, c₁⟩, refs₁⟩ := a
    obtain ⟨⟨k₂, r₂, c₂⟩, refs₂⟩ := b
    simp only at hk hc hr
    subst hk hr
    -- the LF side parses
    have hp₁ : ∃ t₁, parseDoc cfg src = .ok t₁ ∧ ∃ u₁, spliceList (cfg.inlineCfg refs₁) c₁ = .ok u₁ := by
      have hin := hinl
      unfold parseDoc at hin ⊢
      rw [h1] at hin ⊢
      simp only [afterBlocks, hsp, spliceNode, Bool.false_eq_true, if_false] at hin ⊢
      cases hs : spliceList (cfg.inlineCfg refs₁) c₁ with
      | error e =>
        exfalso
        obtain ⟨e', rfl⟩ := spliceList_error c₁ e hs
        rw [hs] at hin
        exact hin e' rfl
      | ok u₁ => exact ⟨_, rfl, u₁, rfl⟩
    obtain ⟨t₁, ht₁, u₁, hu₁⟩ := hp₁
    -- hence the CR LF side
    obtain ⟨u₂, hu₂⟩ := spliceList_ok_transfer c₁ c₂ u₁ hc hu₁
    have hp₂ : ∃ t₂, parseDoc cfg (lfToCrlf src) = .ok t₂ := by
      unfold parseDoc
      rw [h2]
      simp only [afterBlocks, hsp, spliceNode, hu₂, Bool.false_eq_true, if_false]
      exact ⟨_, rfl⟩
    obtain ⟨t₂, ht₂⟩ := hp₂
    have hblk : eraseB ⟨k₁, r₁, c₁⟩ = eraseB ⟨k₁, r₂, c₂⟩ := by
      simp only [eraseB, eraseBList_of_nrelL hc]
    exact (doc_line_ending_reduction cfg src (lfToCrlf src) hsp _ _ refs₁ h1 h2 hblk
      (inline_range_free _) t₁ t₂ ht₁ ht₂ x).symm
  · unfold renderDoc parseDoc
    rw [h1, h2]

/-! ## non-vacuity, and the hypotheses that can be shown necessary -/

/-- did the model run out of fuel -/
def isFuel {α : Type} : Except Block.Panic α → Bool
  | .error .fuel => true
  | _ => false

theorem not_fuel_of {α : Type} {r : Except Block.Panic α} (h : isFuel r = false) : r ≠ .error .fuel := by
  intro e; rw [e] at h; cases h

theorem not_inline_of {cfg : DocCfg} {src : List Char} (h : (parseDoc cfg src).toOption.isSome = true) :
    ∀ e, parseDoc cfg src ≠ .error (.inline e) := by
  intro e he; rw [he] at h; cases h

/-- a list item with a hard break, a tab-indented continuation line, an unclosed fence (the document
    of the evaluated instance at the end of `Props/Pipeline.lean`) -/
def exDoc : List Char := "- a  \n\tb\n```\nc".toList

/-- all hypotheses of the three theorems hold of `exDoc` (stock chain, `max_nesting = 100`) … -/
theorem exDoc_hyps :
    '\r' ∉ exDoc ∧ (exDoc.getLast? ≠ some '\n' ∧ exDoc.getLast? ≠ some '\r') ∧
    ((exCfg false 100).maxNesting ≤ Lines.byteLen exDoc ∨
      Block.parseBlocks (exCfg false 100).blockCfg exDoc ≠ .error .fuel) ∧
    ∀ e, parseDoc (exCfg false 100) exDoc ≠ .error (.inline e) :=
  ⟨by decide, by decide, .inr (not_fuel_of (by decide +kernel)), not_inline_of (by decide +kernel)⟩

/-- … and a document of at least `max_nesting` bytes needs no evaluation for the fuel hypothesis -/
example (x : Bool) (src : List Char) (h : '\r' ∉ src) (hlen : 100 ≤ Lines.byteLen src) :
    renderDoc x (exCfg false 100) (lfToCr src) = renderDoc x (exCfg false 100) src :=
  doc_cr_invariant x _ _ rfl h (.inl hlen)

/-- … so the theorems apply to it (the rewritten texts are what one expects) -/
example : lfToCrlf exDoc = "- a  \r\n\tb\r\n```\r\nc".toList ∧ lfToCr exDoc = "- a  \r\tb\r```\rc".toList := by
  decide

example (x : Bool) : renderDoc x (exCfg false 100) (lfToCrlf exDoc) = renderDoc x (exCfg false 100) exDoc :=
  doc_crlf_invariant x _ _ rfl exDoc_hyps.1 exDoc_hyps.2.2.1 exDoc_hyps.2.2.2

example (x : Bool) : renderDoc x (exCfg false 100) (lfToCr exDoc) = renderDoc x (exCfg false 100) exDoc :=
  doc_cr_invariant x _ _ rfl exDoc_hyps.1 exDoc_hyps.2.2.1

example (x : Bool) : renderDoc x (exCfg false 100) (exDoc ++ ['\n']) = renderDoc x (exCfg false 100) exDoc :=
  doc_final_newline_invariant x _ _ rfl exDoc_hyps.2.1 exDoc_hyps.2.2.1

/-- the output in question is not trivial -/
example : (renderDoc false (exCfg false 100) exDoc).toOption.map List.length = some 55 := by decide +kernel

/-- `'\r' ∉ src` is needed: in `"a\r\nb"` the LF belongs to a CR LF; rewriting it gives CR CR LF, two
    terminators, and the paragraph falls apart -/
example : renderDoc false (exCfg false 100) (lfToCrlf "a\r\nb".toList) ≠
    renderDoc false (exCfg false 100) "a\r\nb".toList := by decide +kernel

/-- "does not end with a terminator" is needed: a second final LF is a blank line, which an unclosed
    fence keeps (``"```\na\n"`` ↦ `a\n`, with one more LF ↦ `a\n\n`) -/
example : renderDoc false (exCfg false 100) ("```\na\n".toList ++ ['\n']) ≠
    renderDoc false (exCfg false 100) "```\na\n".toList := by decide +kernel

/-- the block trees of the LF and the CR document are IDENTICAL below the root, ranges and per-line
    tables included; those of the CR LF document differ from them in offsets (here: the range of the
    second paragraph) -/
example : (Block.parseBlocks (exCfg false 100).blockCfg "a\n\nb".toList).toOption.map (fun r => r.1.children.map (·.range)) =
      some [some (0, 1), some (3, 4)] ∧
    (Block.parseBlocks (exCfg false 100).blockCfg "a\r\rb".toList).toOption.map (fun r => r.1.children.map (·.range)) =
      some [some (0, 1), some (3, 4)] ∧
    (Block.parseBlocks (exCfg false 100).blockCfg "a\r\n\r\nb".toList).toOption.map (fun r => r.1.children.map (·.range)) =
      some [some (0, 1), some (5, 6)] := by decide +kernel

/-
  OPEN (what separates the three theorems from hypothesis-free statements):

   1. `hfuel` (its second alternative; only documents shorter than `max_nesting` bytes need it) — fuel
      sufficiency of the block MODEL:
          theorem parseBlocks_fuel (cfg : Block.Cfg) (src : List Char) : Block.parseBlocks cfg src ≠ .error .fuel
      (`fuelFor = #lines + min max_nesting |src| + 8`).  Needed because the rewritings change `|src|`,
      hence the fuel: `FRel` allows "side 1 out of fuel, side 2 (with more fuel) anything".  Proof plan:
      nesting depth `≤ max_nesting + 1` by the level guard of `tokLoop` and `≤ |src| + 1` because every
      container consumes a marker byte of its first line; every loop advances a line per iteration
      (`Props/Block.lean`: `tokenize_progress`, `Advanced`, `bqScan_spec`, `listLoop_spec`).  Checked on
      every run by the stream `block`.  It is a property of the model only (the Rust has no fuel).
      With it, `doc_cr_invariant` and `doc_final_newline_invariant` are unconditional.

   2. `hinl` of `doc_crlf_invariant` — equal PANICS of the inline parser on the two per-line tables:
          parseInline icfg content m₁ = .error e → parseInline icfg content m₂ = .error e
      for the tables `get_lines` makes of the LF / CR LF documents (same keys, values of the second
      larger).  FALSE for arbitrary such tables: `"x  \ny"` panics (`map_end - count`, underflow) under
      `[(0,0),(1,0),(2,0),(3,0)]` and not under `[(0,0),(1,1),(2,2),(3,3)]`
      (`Lemmas/C10DocInline.lean`, examples).  True for `get_lines` tables needs: the translated end of
      a trailing text is at least the number of its trailing spaces, i.e. the spaces in front of a line
      feed lie in ONE segment of the table together with a non-blank byte of their line (no line of an
      inline text is blank; virtual spaces of a split tab only occur at line starts, which the newline
      rule skips) — `Props/Inline.lean` has this (`TrailOK` from `RInv`) only for `MapOK` tables, which
      exclude split tabs.  Proved instead: the one-directional `inline_ok_transfer`.
      With such a lemma both panics would be excluded or equal and `hinl` could go.

   3. `hsp : cfg.sourcepos = false` is NOT shown necessary: on 13 sample documents (all block kinds,
      hard breaks, tabs in list items, nested containers) the output WITH `data-sourcepos` is the same
      for LF / CR LF / CR / final newline as well — line:column positions absorb the terminator
      length.  The simulation already delivers what a proof would need at the block level (`NRelL ρ`:
      every range `ρ`-related to its counterpart, offsets at the same distance from the same line
      start); missing:  `SourceMap.getPositions src₁ marks₁ (a₁, b₁) = SourceMap.getPositions src₂ marks₂ (a₂, b₂)`
      for offsets at equal distances from the starts of the same lines, and the inline ranges
      (`inline_ok_transfer_rel` gives `≤` only, not "same line, same distance").
-/

end MdIt.Pipeline
