/-
  C05 at whole-document level for ALL sources — tabs split by a container or not — after `fix:`
  "positions inside the virtual spaces of a split tab" (`get_source_pos_for` clamped to the source
  offset of the next table entry; Props/C05.lean `translate_mono_all`).  Continues
  Props/C05Inline.lean (`doc_ranges_ordered`, tab-free) and Props/C05Rest.lean (`doc_ranges_ok`,
  no split tab), whose OPEN block lists items A1, A2.

  Property theorems (namespace `MdIt.Pipeline`); hypotheses: the `i32` size bound of
  `doc_block_ranges`, the paragraph rule in the block chain (`hpara`, necessary: witness in
  Props/C05Doc.lean), `C05T.SolidMarkers cfg.inlineChain` (every emphasis-like rule has a single-byte
  marker other than line feed and space: `*`, `_`, `~` in the shipped plugins):
    `doc_ranges_ordered_all`  in the tree `parseDoc` returns the root is `(0, |src|)` and EVERY node —
                              block or inline, at every depth, behind splice walk, `FragmentsJoin`
                              and `SyntaxPosRule` — carries a range `(a, b)` with `a ≤ b ≤ |src|`, its
                              children's ranges inside `[a, b]`, in source order, without overlap
                              (`Every (NodeOrd src) t`), for EVERY source: `doc_ranges_ordered` of
                              Props/C05Inline.lean without `'\t' ∉ src`.
    `doc_boundaries_all`      … and BOTH ENDS of every range are CHARACTER BOUNDARIES of `src`, for
                              every source (`doc_boundaries` of Props/C05Rest.lean without
                              `NoSplitTab`): a position inside the virtual spaces of a split tab is
                              translated to the source offset the spaces sit on.
    `doc_ranges_ok_all`       C05 COMPLETE for every source, with the one inherent exemption:
                              `Every (C05T.NodeOkX src) t` — `NodeOk` of Props/C05Doc.lean (validity,
                              boundaries, enclosure, order, text clause) with the text clause stated
                              at the PARENT for its `Text` children and switched off when the parent
                              is a code span.  So: every `Text` of the finished tree that is not the
                              child of a `CodeInline` and whose range holds no line break selects
                              exactly its content — merged texts, left-over delimiters, texts behind
                              split tabs included.  The exemption is necessary (crate-confirmed
                              witness in Props/C05Rest.lean, known finding
                              `text-faithful-split-tab`: a code span keeps the virtual spaces of a
                              split tab as content, characters without bytes in the source).
    `doc_text_faithful_all`   the text clause alone, spelled out.
    `doc_special_markup_all`  every `TextSpecial` selects its `markup` (`\\*`, `&amp;`), for all sources.
  Ingredients (Lemmas/C05Tabs*.lean): Defs (`MapT`: the translation is monotone everywhere and a
  shift on every stretch that starts with a solid character and holds no line feed; `VirtSp`: the
  virtual-space entries of a `get_lines` table are spaces at line starts of the inline text; `RIv`),
  Shift (`mapT_of_virt`), Table (`inlSpec2_ptabs`: every placeholder of the block pass is `PTabs`),
  Ranges (`pinl_of_mapT`: the frame invariant `Inline.RI` through the whole inline tokenizer for
  `MapT` tables — the two places where the range arithmetic happens in SOURCE coordinates, the
  trailing-space pop of the newline rule and the marker cuts of the delimiter matching, sit on
  stretches behind a solid character, where the translation is a shift), Defs2 / Faith (`PFthV`,
  `inlSpec3_ptabsF`: for ANY `get_lines` table boundaries translate to boundaries, solid stretches
  are copies of source bytes, line feeds translate to line breaks), Bd / BdEmph / BdSplice
  (`parseInline_bd`, `afterBlocks_postBd`), Defs3 / Text / TextEmph / Closers / TextSplice (`FIV`:
  no `Text` outside a code span ever holds a virtual space unless it holds a line feed as well —
  a new text starts at a solid character, or behind one on the same line: every rule ends its span
  with a solid character (`codeCloserOK`, `linkCloserOK`) or, the two break rules, in front of a
  non-blank; `parseInline_fthV`, `afterBlocks_nodeOkX`).
  `SolidMarkers` is a limitation of the proofs at DOCUMENT level, not known to be necessary there
  (the invariants need it: inline-level witnesses in Lemmas/C05TabsBd3.lean and
  Lemmas/C05TabsTextEmph.lean; markers of the shipped plugins are `*`, `_`, `~`).
-/
import MdIt.Lemmas.C05TabsShift
import MdIt.Lemmas.C05TabsTable
import MdIt.Lemmas.C05TabsRanges3
import MdIt.Lemmas.C05TabsFaith
import MdIt.Lemmas.C05TabsBd2
import MdIt.Lemmas.C05TabsBdEmph
import MdIt.Lemmas.C05TabsBdSplice
import MdIt.Lemmas.C05TabsText3
import MdIt.Lemmas.C05TabsTextEmph
import MdIt.Lemmas.C05TabsClosers
import MdIt.Lemmas.C05TabsTextSplice

namespace MdIt.Pipeline
open MdIt.InlineOps (getSourcePosFor Srcmap)
open MdIt.C05T

/-- what the block pass establishes of a placeholder for ANY source (`PTabs`) is what the splice
    walk needs (`PInl`) -/
theorem pinl_of_ptabs {src : List Char} (icfg : Inline.Cfg) (hmk : SolidMarkers icfg.chain)
    (c : List Char) (m : Srcmap) (a b : Nat) (hab : a ≤ b) (h : Block.PTabs src c m a b) :
    PInl icfg c m a b := by
  obtain ⟨⟨hw, hv, hk, _, _, _, hlow⟩, hup, hvs⟩ := h
  have hm : MapT c m := mapT_of_virt hw hv hk hvs
  by_cases hlt : (Inline.trimSrc c).1 < (Inline.trimSrc c).2
  · refine pinl_of_mapT icfg hm hmk ?_
    intro pos x h1 h2 hx
    refine ⟨hlow hlt pos x h1 hx, hup pos x ?_ hx⟩
    have := Inline.trimSrc_le c
    rw [C05I.linesLen_eq]
    omega
  · intro ns hns
    have := Inline.parseInline_empty_window icfg c m (by omega) hns
    subst this
    exact ⟨hab, trivial⟩

/-- **`doc_ranges_ordered_all`** — validity, enclosure and order at EVERY node for ALL sources.
    Paragraph rule configured, `i32` size bound, solid single-byte emphasis markers: the root of
    the parsed tree is `(0, |src|)` and every node of it — block or inline, at every depth — has a
    range `(a, b)`, `a ≤ b ≤ |src|`, with the ranges of its children inside `[a, b]`, in source
    order, each starting at or behind the end of the previous one. -/
theorem doc_ranges_ordered_all (cfg : DocCfg) (src : List Char) (t : Node)
    (hsmall : 4 * Lines.byteLen src + 8 < 2147483648) (hpara : cfg.hasPara = true)
    (hmk : SolidMarkers cfg.inlineChain) (h : parseDoc cfg src = .ok t) :
    t.range = some (0, Lines.byteLen src) ∧ Every (NodeOrd src) t := by
  unfold parseDoc at h
  split at h
  · cases h
  · rename_i root refs hb
    obtain ⟨hr, hg⟩ := Block.parseBlocks_geo2 (cfg := cfg.blockCfg) hpara (Block.inlSpec2_ptabs src) hsmall hb
    have hg' : Block.RangedB (PInl (cfg.inlineCfg refs)) src root :=
      hg.imp (fun c m a b hab hp => pinl_of_ptabs _ hmk c m a b hab hp)
    exact afterBlocks_nodeOrd hr hg' (Block.parseBlocks_inlNoRange hb) h

/-- every child lies within its parent, spelled out, for all sources -/
theorem doc_child_within_all (cfg : DocCfg) (src : List Char) (t : Node)
    (hsmall : 4 * Lines.byteLen src + 8 < 2147483648) (hpara : cfg.hasPara = true)
    (hmk : SolidMarkers cfg.inlineChain) (h : parseDoc cfg src = .ok t) :
    Every (fun n => ∃ a b, n.range = some (a, b) ∧ a ≤ b ∧ b ≤ Lines.byteLen src ∧
      ∀ c ∈ n.children, ∃ a' b', c.range = some (a', b') ∧ a ≤ a' ∧ a' ≤ b' ∧ b' ≤ b) t := by
  have := (doc_ranges_ordered_all cfg src t hsmall hpara hmk h).2
  clear h
  induction this with
  | mk n hn _ ih =>
    obtain ⟨a, b, h1, h2, h3, h4⟩ := hn
    exact .mk n ⟨a, b, h1, h2, h3, h4.mem⟩ ih

/-! ## character boundaries for all sources -/

theorem mapT_of_ptabs {src : List Char} {c : List Char} {m : Srcmap} {a b : Nat}
    (h : Block.PTabs src c m a b) : MapT c m := by
  obtain ⟨⟨hw, hv, hk, _⟩, _, hvs⟩ := h
  exact mapT_of_virt hw hv hk hvs

/-- `PTabsF` is what the splice walk needs for boundaries (`PInlB`) -/
theorem pinlB_of_ptabsF {src : List Char} (icfg : Inline.Cfg) (hmk : SolidMarkers icfg.chain)
    (c : List Char) (m : Srcmap) (a b : Nat) (hab : a ≤ b) (h : Block.PTabsF src c m a b) :
    PInlB icfg src c m a b := by
  intro ns hns
  obtain ⟨o1, o2⟩ := pinl_of_ptabs icfg hmk c m a b hab h.1 ns hns
  exact ⟨o1, o2, parseInline_bd icfg ⟨mapT_of_ptabs h.1, h.2.1⟩ hmk (bdEmphOK icfg src) hns⟩

/-- **`doc_boundaries_all`** — for ALL sources: at every node of the parsed tree the range
    `(a, b)` has `a ≤ b ≤ |src|`, BOTH ENDS ON CHARACTER BOUNDARIES of `src`, the children inside in
    source order (`NodeOrd`), inline nodes included, tabs split or not. -/
theorem doc_boundaries_all (cfg : DocCfg) (src : List Char) (t : Node)
    (hsmall : 4 * Lines.byteLen src + 8 < 2147483648) (hpara : cfg.hasPara = true)
    (hmk : SolidMarkers cfg.inlineChain) (h : parseDoc cfg src = .ok t) :
    t.range = some (0, Lines.byteLen src) ∧
    Every (fun n => NodeOrd src n ∧ ∃ a b, n.range = some (a, b) ∧ Lines.onBoundary src a = true ∧
      Lines.onBoundary src b = true) t := by
  unfold parseDoc at h
  split at h
  · cases h
  · rename_i root refs hb
    obtain ⟨hr, hg⟩ := Block.parseBlocks_geo3 (cfg := cfg.blockCfg) hpara (Block.inlSpec3_ptabsF src) hsmall hb
    have hg' : Block.RangedB (PInlB (cfg.inlineCfg refs) src) src root :=
      hg.imp (fun c m a b hab hp => pinlB_of_ptabsF _ hmk c m a b hab hp)
    obtain ⟨h1, h2⟩ := afterBlocks_postBd hr hg' (Block.parseBlocks_inlNoRange hb) h
    refine ⟨h1, h2.imp (fun _ hn => ⟨hn.1, ?_⟩)⟩
    obtain ⟨a, b, e, ba, bb⟩ := hn.2
    exact ⟨a, b, e, ba.onBoundary, bb.onBoundary⟩

/-! ## the text clause for all sources, code spans exempted -/

/-- `PTabsF` is what the splice walk needs for the text clause (`PInlFV`) -/
theorem pinlFV_of_ptabsF {src : List Char} (icfg : Inline.Cfg) (hmk : SolidMarkers icfg.chain)
    (c : List Char) (m : Srcmap) (a b : Nat) (hab : a ≤ b) (h : Block.PTabsF src c m a b) :
    PInlFV icfg src c m a b := by
  refine ⟨h.2.2, ?_⟩
  intro ns hns
  obtain ⟨o1, o2⟩ := pinl_of_ptabs icfg hmk c m a b hab h.1 ns hns
  exact ⟨o1, o2, parseInline_fthV icfg ⟨mapT_of_ptabs h.1, h.2.1⟩ hmk (emphOKV icfg src) codeCloserOK
    linkCloserOK hns⟩

/-- **`doc_ranges_ok_all`** — C05 for ALL sources, with the one inherent exemption.  The root of
    the parsed tree is `(0, |src|)`, and at EVERY node (block or inline, any depth, behind splice
    walk, `FragmentsJoin` and `SyntaxPosRule`): the range `(a, b)` has `a ≤ b ≤ |src|`, both ends on
    character boundaries, the children's ranges inside `[a, b]` in source order without overlap;
    and every `Text` whose parent is NOT a code span and whose range holds neither '\n' nor '\r'
    selects exactly its content.  (The `Text` inside a code span may hold the virtual spaces of a
    split tab, which have no bytes in the source: known finding `text-faithful-split-tab`.) -/
theorem doc_ranges_ok_all (cfg : DocCfg) (src : List Char) (t : Node)
    (hsmall : 4 * Lines.byteLen src + 8 < 2147483648) (hpara : cfg.hasPara = true)
    (hmk : SolidMarkers cfg.inlineChain) (h : parseDoc cfg src = .ok t) :
    t.range = some (0, Lines.byteLen src) ∧ Every (NodeOkX src) t := by
  unfold parseDoc at h
  split at h
  · cases h
  · rename_i root refs hb
    obtain ⟨hr, hg⟩ := Block.parseBlocks_geo3 (cfg := cfg.blockCfg) hpara (Block.inlSpec3_ptabsF src) hsmall hb
    have hg' : Block.RangedB (PInlFV (cfg.inlineCfg refs) src) src root :=
      hg.imp (fun c m a b hab hp => pinlFV_of_ptabsF _ hmk c m a b hab hp)
    exact afterBlocks_nodeOkX hr hg' (Block.parseBlocks_inlNoRange hb) h

/-- **`doc_text_faithful_all`**: for ALL sources, every `Text` child `x` of every node `n` that is
    not a code span, whose range `(a, b)` selects a string without line break, has exactly that
    string as its content. -/
theorem doc_text_faithful_all (cfg : DocCfg) (src : List Char) (t : Node)
    (hsmall : 4 * Lines.byteLen src + 8 < 2147483648) (hpara : cfg.hasPara = true)
    (hmk : SolidMarkers cfg.inlineChain) (h : parseDoc cfg src = .ok t) :
    Every (fun n => isCodeK n.kind = false → ∀ x ∈ n.children, ∀ c, x.kind = .inl (.text c) →
      ∃ a b, x.range = some (a, b) ∧
        ∀ w, Lines.slice src a b = .ok w → '\n' ∉ w → '\r' ∉ w → w = c) t :=
  (doc_ranges_ok_all cfg src t hsmall hpara hmk h).2.imp (fun _ hn => by
    obtain ⟨_, _, _, _, _, _, _, _, ht⟩ := hn
    exact ht)

/-- the markup clause at every node of a `PostV` tree (needs a recursion principle on the tree:
    `nsize`) -/
theorem special_of_postV {src : List Char} : ∀ (k : Nat) (n : Node), nsize n ≤ k → ∀ ex,
    PostV src ex n →
    Every (fun n => ∀ ct mu info, n.kind = .inl (.special ct mu info) → ∃ a b, n.range = some (a, b) ∧
      ∀ w, Lines.slice src a b = .ok w → '\n' ∉ w → '\r' ∉ w → w = mu) n := by
  intro k
  induction k with
  | zero => intro n hn; rw [nsize_eq] at hn; omega
  | succ k ih =>
    intro n hn ex hp
    rw [ts_postV_iff] at hp
    obtain ⟨⟨a, b, hr, _, _, _, hs⟩, hch⟩ := hp
    refine .mk n ?_ ?_
    · intro ct mu info hk
      exact ⟨a, b, hr, fun w hw n1 n2 =>
        hs ct mu info hk w ((C05R.cut_iff_lines src a b w).mp hw) ⟨n1, n2⟩⟩
    · intro c hc
      refine ih c ?_ _ (hch c hc)
      have := nsize_le_of_mem hc
      rw [nsize_eq] at hn
      omega

/-- **`doc_special_markup_all`**: for ALL sources, every `TextSpecial` node (backslash escape, entity
    reference) whose range selects a string without line break selects exactly its `markup`. -/
theorem doc_special_markup_all (cfg : DocCfg) (src : List Char) (t : Node)
    (hsmall : 4 * Lines.byteLen src + 8 < 2147483648) (hpara : cfg.hasPara = true)
    (hmk : SolidMarkers cfg.inlineChain) (h : parseDoc cfg src = .ok t) :
    Every (fun n => ∀ ct mu info, n.kind = .inl (.special ct mu info) → ∃ a b, n.range = some (a, b) ∧
      ∀ w, Lines.slice src a b = .ok w → '\n' ∉ w → '\r' ∉ w → w = mu) t := by
  unfold parseDoc at h
  split at h
  · cases h
  · rename_i root refs hb
    obtain ⟨hr, hg⟩ := Block.parseBlocks_geo3 (cfg := cfg.blockCfg) hpara (Block.inlSpec3_ptabsF src) hsmall hb
    have hg' : Block.RangedB (PInlFV (cfg.inlineCfg refs) src) src root :=
      hg.imp (fun c m a b hab hp => pinlFV_of_ptabsF _ hmk c m a b hab hp)
    exact special_of_postV _ t (Nat.le_refl _) false
      (ts_afterBlocks_post hr hg' (Block.parseBlocks_inlNoRange hb) h)

/-! ## non-vacuity and witnesses -/

/-- the shipped markers are solid single bytes -/
theorem exCfg_solidMarkers (sp : Bool) (mn : Nat) : SolidMarkers (exCfg sp mn).inlineChain := by
  intro mk csw hmem
  simp only [exCfg, List.mem_cons, List.mem_nil_iff, or_false, reduceCtorEq, false_or,
    Inline.RuleId.emph.injEq] at hmem
  rcases hmem with ⟨rfl, _⟩ | ⟨rfl, _⟩ | ⟨rfl, _⟩ <;> exact ⟨by decide, by decide, by decide⟩

/-- the theorem applies to the split-tab documents that refuted the unrepaired crate -/
example : ∃ t, parseDoc (exCfg false 100) exTab = .ok t ∧ t.range = some (0, 12) ∧
    Every (NodeOrd exTab) t := by
  have h : (parseDoc (exCfg false 100) exTab).toOption.isSome = true := by decide +kernel
  cases hp : parseDoc (exCfg false 100) exTab with
  | error e => rw [hp] at h; cases h
  | ok t => exact ⟨t, rfl, doc_ranges_ordered_all _ _ t (by decide +kernel) (by decide) (exCfg_solidMarkers _ _) hp⟩

/-- boundaries on the document whose unrepaired tree had a range end inside the `é` -/
example : ∃ t, parseDoc (exCfg false 100) "-    ` a\n\t\t`é".toList = .ok t ∧
    Every (fun n => NodeOrd "-    ` a\n\t\t`é".toList n ∧ ∃ a b, n.range = some (a, b) ∧
      Lines.onBoundary "-    ` a\n\t\t`é".toList a = true ∧
      Lines.onBoundary "-    ` a\n\t\t`é".toList b = true) t := by
  have h : (parseDoc (exCfg false 100) "-    ` a\n\t\t`é".toList).toOption.isSome = true := by decide +kernel
  cases hp : parseDoc (exCfg false 100) "-    ` a\n\t\t`é".toList with
  | error e => rw [hp] at h; cases h
  | ok t =>
    exact ⟨t, rfl, (doc_boundaries_all _ _ t (by decide +kernel) (by decide) (exCfg_solidMarkers _ _) hp).2⟩

/-- the complete property on a list item whose two continuation lines start with a SPLIT tab
    (content column 2, the tab reaches column 4: two virtual spaces per line), with emphasis, a
    hard break, an escape and texts that start with a space: every listed string is
    `src[start..end]` -/
def exDoc9 : List Char := "- a\n\t*b* c  \n\t\\* d".toList

example : (parseDoc (exCfg false 100) exDoc9).toOption.map textsOf =
    some [("a".toList, 2, 3), ("b".toList, 6, 7), (" c".toList, 8, 10), ("\\*".toList, 14, 16),
      (" d".toList, 16, 18)] := by decide +kernel

/-- the tabs of `exDoc9` ARE split (table `[(0,2),(2,5),(4,5),(12,14),(14,14)]`): `doc_ranges_ok` of
    Props/C05Rest.lean does not apply -/
example : (Block.parseBlocks (exCfg false 100).blockCfg exDoc9).toOption.map (fun r => inlOf r.1) =
      some [("a\n  *b* c  \n  \\* d".toList, [(0, 2), (2, 5), (4, 5), (12, 14), (14, 14)])] ∧
    (match Block.parseBlocks (exCfg false 100).blockCfg exDoc9 with
     | .ok (root, _) => allNoVirtB root
     | .error _ => true) = false := by decide +kernel

example : ∃ t, parseDoc (exCfg false 100) exDoc9 = .ok t ∧ Every (NodeOkX exDoc9) t := by
  have h : (parseDoc (exCfg false 100) exDoc9).toOption.isSome = true := by decide +kernel
  cases hp : parseDoc (exCfg false 100) exDoc9 with
  | error e => rw [hp] at h; cases h
  | ok t =>
    exact ⟨t, rfl, (doc_ranges_ok_all _ _ t (by decide +kernel) (by decide) (exCfg_solidMarkers _ _) hp).2⟩

/-- … and on the witness of the exemption (Props/C05Rest.lean): the `Text "  a"` at `(5, 6)` under
    the code span of `"- `\n\ta `"` does not select its content — `NodeOkX` does not claim it -/
example : ∃ t, parseDoc (exCfg false 100) "- `\n\ta `".toList = .ok t ∧
    Every (NodeOkX "- `\n\ta `".toList) t := by
  have h : (parseDoc (exCfg false 100) "- `\n\ta `".toList).toOption.isSome = true := by decide +kernel
  cases hp : parseDoc (exCfg false 100) "- `\n\ta `".toList with
  | error e => rw [hp] at h; cases h
  | ok t =>
    exact ⟨t, rfl, (doc_ranges_ok_all _ _ t (by decide +kernel) (by decide) (exCfg_solidMarkers _ _) hp).2⟩

/-
OPEN / what is left of C05 at whole-document level after this file.

  * NOTHING is open for the shipped configurations: `doc_ranges_ok_all` is the complete property for
    every source, up to the exemption of the `Text` under a code span, which is necessary.
  * `SolidMarkers` (single-byte emphasis marker, neither '\n' nor ' '): needed by the invariants
    (`FthNV`: an `EmphMarker` covers exactly `replicate remaining mk`; a multi-byte marker leaves
    the cursor inside a character and the parse panics; a '\n' marker behind a container prefix and a
    ' ' marker on virtual spaces break the exact selection — inline-level witnesses in
    Lemmas/C05RestEmph.lean, C05TabsBd3.lean, C05TabsTextEmph.lean).  At DOCUMENT level no
    counterexample is known (with `.emph ' '` the left-over delimiters are merged by the join pass
    into a text that holds the line feed); removing the hypothesis would need a weaker marker
    clause (`Sel` instead of the exact `Cut`) in the delimiter matching.
-/

end MdIt.Pipeline
