/-
  C12 at WHOLE-DOCUMENT level: statements about `MdIt.Pipeline.parseDoc` (`md.parse(src)`).
  `Props/C12.lean` proves the mechanism level over `Model/Entity.lean`; here the same facts are
  carried through the block parser, the splice walk, the inline parser, the join pass and the
  sourcepos pass.

  PART 1 — ROUND TRIP ("backslash-escaping every ASCII punctuation character of an arbitrary
  single-line string yields a paragraph that displays exactly that string").

    `escape_roundtrip_doc`          for EVERY `s` without LF / CR, non-empty, neither starting nor
                                    ending with a space or tab:  `parseDoc cfg (escapeAllPunct s)` is
                                    `Root[Paragraph[leaves]]`, the leaves are `Text` nodes and the
                                    `TextSpecial` nodes of backslash escapes, and they display `s`.
    `escape_roundtrip_doc_blanks`   the general form: `s = w ++ m ++ w'` with `w`, `w'` runs of
                                    spaces / tabs, `w` narrower than 4 columns: the paragraph
                                    displays `m` (the paragraph trims the blanks).
    Exact class, each exclusion with a witness (`example`s at the end of the part, checked against the
    crate):  LF / CR (second line; CR is shown as LF),  empty or all-blank `s` (no paragraph),
    leading blanks of width ≥ 4 incl. one tab (indented code block),  leading / trailing blanks in
    general (trimmed).  NUL, other control characters, non-ASCII characters, Unicode white space and
    interior tabs need no exclusion.
    Exact configuration class (`RoundTripCfg`): `max_nesting > 0`; the paragraph rule is in the block
    chain (ANY other block rules, any order); the text scanner and the escape rule are in the inline
    chain (ANY other html-free inline rules, any order), emphasis-like rules have ASCII punctuation
    markers other than `\`.  Any entity table, case tables, `sourcepos` on or off.

  PART 2 — CONTEXT AGREEMENT: see the section header below.
-/
import MdIt.Lemmas.C12DocInline
import MdIt.Lemmas.C12DocBlock
import MdIt.Props.LinksDoc

namespace MdIt.Pipeline
open MdIt.Entity (escapeAllPunct isAsciiPunct)
open MdIt.Lines (NoTerm AllBlank indentWidth)

/-! # Part 1: the round trip -/

/-! ## the escaped line is a plain line for the block parser -/

theorem escapeAllPunct_append (a b : List Char) :
    escapeAllPunct (a ++ b) = escapeAllPunct a ++ escapeAllPunct b := by
  induction a with
  | nil => rfl
  | cons c t ih => simp only [List.cons_append, escapeAllPunct]; split <;> simp [ih]

theorem escapeAllPunct_blank (w : List Char) (hw : AllBlank w) : escapeAllPunct w = w := by
  induction w with
  | nil => rfl
  | cons c t ih =>
    have : isAsciiPunct c = false := by rcases hw c (by simp) with rfl | rfl <;> decide
    simp [escapeAllPunct, this, ih hw.tail]

theorem ordLoop_escaped (t w' : List Char) (hw' : AllBlank w') :
    ∀ pos, Block.ordLoop (escapeAllPunct t ++ w') pos = none := by
  induction t with
  | nil =>
    intro pos
    cases w' with
    | nil => rfl
    | cons b r =>
      rcases hw' b (by simp) with rfl | rfl <;> simp [escapeAllPunct, Block.ordLoop, Block.isDigit]
  | cons c t ih =>
    intro pos
    by_cases hp : isAsciiPunct c = true
    · simp [escapeAllPunct, hp, Block.ordLoop, Block.isDigit]
    · have hp' : isAsciiPunct c = false := by simpa using hp
      have h1 : c ≠ ')' := by intro h; subst h; revert hp'; decide
      have h2 : c ≠ '.' := by intro h; subst h; revert hp'; decide
      have hesc : escapeAllPunct (c :: t) = c :: escapeAllPunct t := by simp [escapeAllPunct, hp']
      rw [hesc, List.cons_append]
      simp only [Block.ordLoop]
      split
      · split
        · rfl
        · exact ih _
      · simp [h1, h2]

theorem skipOrdered_escaped (m w' : List Char) (hw' : AllBlank w') :
    Block.skipOrdered (escapeAllPunct m ++ w') = none := by
  cases m with
  | nil =>
    cases w' with
    | nil => rfl
    | cons b r =>
      rcases hw' b (by simp) with rfl | rfl <;> simp [escapeAllPunct, Block.skipOrdered, Block.isDigit]
  | cons c t =>
    by_cases hp : isAsciiPunct c = true
    · simp [escapeAllPunct, hp, Block.skipOrdered, Block.isDigit]
    · have hp' : isAsciiPunct c = false := by simpa using hp
      have hesc : escapeAllPunct (c :: t) = c :: escapeAllPunct t := by simp [escapeAllPunct, hp']
      rw [hesc, List.cons_append]
      simp only [Block.skipOrdered, ordLoop_escaped t w' hw' 1]
      split <;> rfl

/-- the line  blanks ++ escapeAllPunct m ++ blanks  is `Plain` -/
theorem plain_escaped (w m w' : List Char) (hw : AllBlank w) (hwidth : indentWidth w < 4)
    (hw' : AllBlank w') (hne : m ≠ []) (hh : ∀ c ∈ m.head?, c ≠ ' ' ∧ c ≠ '\t') (hnt : NoTerm m) :
    Block.C12.Plain w (escapeAllPunct m ++ w') := by
  refine ⟨hw, hwidth, ?_, ?_, skipOrdered_escaped m w' hw'⟩
  · intro c hc
    rcases List.mem_append.mp hc with h | h
    · have : ∀ (l : List Char), NoTerm l → NoTerm (escapeAllPunct l) := by
        intro l
        induction l with
        | nil => intro _ c hc; simp [escapeAllPunct] at hc
        | cons d t ih =>
          intro hl c hc
          simp only [escapeAllPunct] at hc
          split at hc
          · simp only [List.mem_cons] at hc
            rcases hc with rfl | rfl | hc
            · decide
            · exact hl _ (by simp)
            · exact ih hl.tail c hc
          · simp only [List.mem_cons] at hc
            rcases hc with rfl | hc
            · exact hl _ (by simp)
            · exact ih hl.tail c hc
      exact this m hnt c h
    · exact hw'.noTerm c h
  · obtain ⟨c, t, rfl⟩ := List.exists_cons_of_ne_nil hne
    have hc := hh c (by simp)
    by_cases hp : isAsciiPunct c = true
    · exact ⟨'\\', c :: (escapeAllPunct t ++ w'), by simp [escapeAllPunct, hp], by decide,
        fun _ => ⟨by decide, by decide⟩⟩
    · have hp' : isAsciiPunct c = false := by simpa using hp
      have key : ∀ d : Char, isAsciiPunct d = true → c ≠ d := by
        intro d hd h; subst h; rw [hp'] at hd; cases hd
      refine ⟨c, escapeAllPunct t ++ w', by simp [escapeAllPunct, hp'], ?_,
        fun _ => ⟨key _ (by decide), key _ (by decide)⟩⟩
      simp only [List.mem_cons, List.not_mem_nil, or_false, not_or]
      exact ⟨hc.1, hc.2, key _ (by decide), key _ (by decide), key _ (by decide), key _ (by decide),
        key _ (by decide), key _ (by decide), key _ (by decide)⟩

/-! ## what the tree looks like -/

/-- a childless `Text`, or the childless `TextSpecial` a backslash escape of an escapable character
    makes (`content` = the character, `markup` = `\` + the character, `info` = `"escape"`) -/
def EscLeaf (c : Node) : Prop :=
  c.children = [] ∧
  ((∃ x, c.kind = .inl (.text x)) ∨ (∃ ch, c.kind = .inl (.special [ch] ['\\', ch] Inline.infoEscape)))

/-- `t` is `Root[Paragraph[leaves]]`, the leaves are `EscLeaf`s, and what they display as plain text
    (`docAltList`: `Text.content` / `TextSpecial.content` in order, `Props/LinksDoc.lean`) is `m` -/
def ShowsPara (t : Node) (m : List Char) : Prop :=
  t.kind = .blk .root ∧
  ∃ p, t.children = [p] ∧ p.kind = .blk .paragraph ∧ (∀ c ∈ p.children, EscLeaf c) ∧
    docAltList p.children = m

theorem docAlt_leaf (n : Node) (h : n.children = []) : docAlt n = n.kind.ownAlt := by
  obtain ⟨k, r, a, cs⟩ := n
  simp only at h; subst h
  simp [docAlt, docAltList]

theorem ofInlineList_leaves (ns : List Inline.Node) (h : ∀ n ∈ ns, Inline.C12.TS n) :
    (∀ c ∈ ofInlineList ns, EscLeaf c) ∧ docAltList (ofInlineList ns) = Inline.C12.showList ns := by
  induction ns with
  | nil => simp [ofInlineList, docAltList, Inline.C12.showList]
  | cons n r ih =>
    obtain ⟨ih1, ih2⟩ := ih (fun x hx => h x (by simp [hx]))
    obtain ⟨v, rg, cs⟩ := n
    obtain ⟨hc, hv⟩ := h ⟨v, rg, cs⟩ (by simp)
    simp only at hc hv; subst hc
    have hleaf : EscLeaf (ofInline ⟨v, rg, []⟩) := by
      simp only [ofInline, ofInlineList, EscLeaf, true_and]
      rcases hv with ⟨x, rfl⟩ | ⟨ch, rfl⟩
      · exact .inl ⟨x, rfl⟩
      · exact .inr ⟨ch, rfl⟩
    constructor
    · intro c hc
      simp only [ofInlineList, List.mem_cons] at hc
      rcases hc with rfl | hc
      · exact hleaf
      · exact ih1 c hc
    · simp only [ofInlineList, docAltList, ih2]
      rw [docAlt_leaf _ hleaf.1]
      rcases hv with ⟨x, rfl⟩ | ⟨ch, rfl⟩ <;>
        simp [ofInline, Kind.ownAlt, Inline.C12.showList, Inline.C12.showNode]

/-! ## the join pass on such leaves -/

theorem EscLeaf.isText_iff {c : Node} (h : EscLeaf c) : c.isText = true ↔ ∃ x, c.kind = .inl (.text x) := by
  unfold Node.isText
  constructor
  · intro ht
    split at ht
    · exact ⟨_, by assumption⟩
    · cases ht
  · rintro ⟨x, hx⟩; rw [hx]

theorem EscLeaf.markerToText {c : Node} (h : EscLeaf c) : markerToText c = c := by
  unfold Pipeline.markerToText
  rcases h.2 with ⟨x, hx⟩ | ⟨ch, hx⟩ <;> rw [hx]

theorem pass1_leaves (cs : List Node) (h : ∀ c ∈ cs, EscLeaf c) : pass1 cs = cs := by
  unfold pass1
  induction cs with
  | nil => rfl
  | cons c r ih =>
    simp only [List.map_cons, (h c (by simp)).markerToText, ih (fun x hx => h x (by simp [hx]))]

theorem docAlt_text {c : Node} (h : EscLeaf c) (ht : c.isText = true) : docAlt c = c.content := by
  obtain ⟨x, hx⟩ := h.isText_iff.mp ht
  rw [docAlt_leaf c h.1, hx]
  simp [Kind.ownAlt, Node.content, hx]

theorem mergeLoop_leaves (rest : List Node) : ∀ (cur : Node), EscLeaf cur → (∀ c ∈ rest, EscLeaf c) →
    (∀ x ∈ mergeLoop cur rest, EscLeaf x) ∧
      docAltList (mergeLoop cur rest) = docAlt cur ++ docAltList rest := by
  induction rest with
  | nil =>
    intro cur hc _
    simp only [mergeLoop, docAltList, List.mem_singleton, forall_eq, List.append_nil, and_true]
    exact hc
  | cons nxt rest ih =>
    intro cur hc hr
    have hn := hr nxt (by simp)
    have hr' : ∀ c ∈ rest, EscLeaf c := fun c hc => hr c (by simp [hc])
    simp only [mergeLoop]
    split
    · next htt =>
      simp only [Bool.and_eq_true] at htt
      have hm : EscLeaf (merged cur nxt) := ⟨hc.1, .inl ⟨_, rfl⟩⟩
      have he : EscLeaf (emptied nxt) := ⟨hn.1, .inl ⟨_, rfl⟩⟩
      obtain ⟨i1, i2⟩ := ih (merged cur nxt) hm hr'
      constructor
      · intro x hx
        rcases List.mem_cons.mp hx with rfl | hx
        · exact he
        · exact i1 x hx
      · simp only [docAltList, i2]
        rw [docAlt_leaf _ he.1, docAlt_leaf _ hm.1, docAlt_text hc htt.1, docAlt_text hn htt.2]
        simp [emptied, merged, Kind.ownAlt]
    · obtain ⟨i1, i2⟩ := ih nxt hn hr'
      constructor
      · intro x hx
        rcases List.mem_cons.mp hx with rfl | hx
        · exact hc
        · exact i1 x hx
      · simp only [docAltList, i2]

theorem filter_keep_leaves (l : List Node) (h : ∀ c ∈ l, EscLeaf c) :
    docAltList (l.filter keep) = docAltList l := by
  induction l with
  | nil => rfl
  | cons c r ih =>
    have ih := ih (fun x hx => h x (by simp [hx]))
    have hc := h c (by simp)
    simp only [List.filter_cons]
    split
    · simp only [docAltList, ih]
    · next hk =>
      simp only [keep, Bool.not_eq_true, Bool.not_eq_false', Bool.and_eq_true] at hk
      rw [ih]
      simp only [docAltList]
      rw [docAlt_text hc hk.1]
      have : c.content = [] := by simpa using hk.2
      rw [this]; rfl

/-- `fragments_join` on a vector of such leaves: still such leaves, same display -/
theorem fragmentsJoin_leaves (cs : List Node) (h : ∀ c ∈ cs, EscLeaf c) :
    (∀ c ∈ fragmentsJoin cs, EscLeaf c) ∧ docAltList (fragmentsJoin cs) = docAltList cs := by
  unfold fragmentsJoin
  rw [pass1_leaves cs h]
  cases cs with
  | nil => simp [mergeAll]
  | cons c r =>
    obtain ⟨i1, i2⟩ := mergeLoop_leaves r c (h c (by simp)) (fun x hx => h x (by simp [hx]))
    simp only [mergeAll]
    constructor
    · intro x hx; exact i1 x (List.mem_filter.mp hx).1
    · rw [filter_keep_leaves _ i1, i2]; rfl

theorem joinNode_childless {c : Node} (h : c.children = []) : joinNode c = c := by
  rw [joinNode_eq, h, fragmentsJoin_nil, joinList_eq_map]
  obtain ⟨k, r, a, cs⟩ := c
  simp only at h
  subst h
  rfl

theorem joinNode_leaf {c : Node} (h : EscLeaf c) : joinNode c = c := joinNode_childless h.1

theorem joinList_leaves (cs : List Node) (h : ∀ c ∈ cs, EscLeaf c) : joinList cs = cs := by
  rw [joinList_eq_map]
  induction cs with
  | nil => rfl
  | cons c r ih =>
    simp only [List.map_cons, joinNode_leaf (h c (by simp)), ih (fun x hx => h x (by simp [hx]))]

/-- `FragmentsJoin::run` keeps `Root[Paragraph[leaves]]` and what it displays -/
theorem joinNode_showsPara {t : Node} {m : List Char} (h : ShowsPara t m) : ShowsPara (joinNode t) m := by
  obtain ⟨hk, p, hc, hpk, hl, hd⟩ := h
  obtain ⟨i1, i2⟩ := fragmentsJoin_leaves p.children hl
  have hfj : fragmentsJoin [p] = [p] := by
    have h1 : Pipeline.markerToText p = p := by unfold Pipeline.markerToText; rw [hpk]
    have h2 : p.isText = false := by unfold Node.isText; rw [hpk]
    simp [fragmentsJoin, pass1, h1, mergeAll, mergeLoop, keep, h2]
  refine ⟨by rw [joinNode_kind]; exact hk, joinNode p, ?_, by rw [joinNode_kind]; exact hpk, ?_, ?_⟩
  · rw [joinNode_eq, hc, hfj, joinList_eq_map]; rfl
  · rw [joinNode_eq, joinList_leaves _ i1]; exact i1
  · rw [joinNode_eq, joinList_leaves _ i1]; exact i2.trans hd

/-! ## the sourcepos pass on such a tree -/

theorem sourceposList_leaves (src : List Char) (cs : List Node) (h : ∀ c ∈ cs, EscLeaf c) :
    ∃ cs', sourceposList src (SourceMap.mkMarks src) cs = .ok cs' ∧ (∀ c ∈ cs', EscLeaf c) ∧
      docAltList cs' = docAltList cs := by
  induction cs with
  | nil => exact ⟨[], rfl, by simp, rfl⟩
  | cons c r ih =>
    obtain ⟨r', hr, i1, i2⟩ := ih (fun x hx => h x (by simp [hx]))
    obtain ⟨k, rg, a, kids⟩ := c
    obtain ⟨hc, hv⟩ := h ⟨k, rg, a, kids⟩ (by simp)
    simp only at hc hv; subst hc
    simp only [sourceposList, sourceposNode, sourceposAttrs_eq, hr]
    refine ⟨_, rfl, ?_, ?_⟩
    · intro x hx
      rcases List.mem_cons.mp hx with rfl | hx
      · exact ⟨rfl, hv⟩
      · exact i1 x hx
    · simp only [docAltList, i2, docAlt]

theorem sourceposNode_showsPara (src : List Char) {t : Node} {m : List Char} (h : ShowsPara t m) :
    ∃ t', sourceposNode src (SourceMap.mkMarks src) t = .ok t' ∧ ShowsPara t' m := by
  obtain ⟨hk, p, hc, hpk, hl, hd⟩ := h
  obtain ⟨k, rg, a, cs⟩ := t
  obtain ⟨pk, prg, pa, kids⟩ := p
  simp only at hk hc hpk hl hd; subst hk hc hpk
  obtain ⟨kids', hks, i1, i2⟩ := sourceposList_leaves src kids hl
  simp only [sourceposNode, sourceposList, sourceposAttrs_eq, hks]
  exact ⟨_, rfl, rfl, _, rfl, rfl, i1, i2.trans hd⟩

/-! ## the theorem -/

/-- the configurations the round trip holds for (each condition is necessary: examples below) -/
structure RoundTripCfg (cfg : DocCfg) : Prop where
  /-- `md.max_nesting > 0` (with 0 the block tokenizer skips the whole document) -/
  nest : 0 < cfg.maxNesting
  /-- the paragraph rule is in the block chain (any other rules, any order) -/
  para : Block.RuleId.paragraph ∈ cfg.blockChain
  /-- text scanner and escape rule are in the inline chain (any other rules, any order); emphasis
      markers are ASCII punctuation other than `\` -/
  inl : Inline.C12.ChainOK cfg.inlineChain

theorem isSpTab_iff (c : Char) : Inline.isSpTab c = true ↔ (c = ' ' ∨ c = '\t') := by
  simp [Inline.isSpTab]

theorem linesByteLen_eq (l : List Char) : Lines.byteLen l = InlineOps.byteLen l := by
  induction l with
  | nil => rfl
  | cons c t ih => simp [Lines.byteLen, InlineOps.byteLen, ih]

/-- **C12, round trip, whole document (general form).**  `s = w ++ m ++ w'` where `w`, `w'` are runs
    of spaces / tabs, `w` less than 4 columns wide, and `m` is a non-empty text without LF / CR that
    neither starts nor ends with a space or tab.  Then `md.parse` of `s` with a backslash before every
    ASCII punctuation character does not panic and returns `Root[Paragraph[leaves]]` whose leaves —
    `Text` nodes and the `TextSpecial` nodes of the escapes — display exactly `m`. -/
theorem escape_roundtrip_doc_blanks (cfg : DocCfg) (hcfg : RoundTripCfg cfg) (w m w' : List Char)
    (hw : AllBlank w) (hwidth : indentWidth w < 4) (hw' : AllBlank w') (hne : m ≠ [])
    (hh : ∀ c ∈ m.head?, c ≠ ' ' ∧ c ≠ '\t') (hl : ∀ c ∈ m.getLast?, c ≠ ' ' ∧ c ≠ '\t')
    (hnt : NoTerm m) :
    ∃ t, parseDoc cfg (escapeAllPunct (w ++ m ++ w')) = .ok t ∧ ShowsPara t m := by
  have hsrc : escapeAllPunct (w ++ m ++ w') = w ++ (escapeAllPunct m ++ w') := by
    rw [escapeAllPunct_append, escapeAllPunct_append, escapeAllPunct_blank w hw,
      escapeAllPunct_blank w' hw', List.append_assoc]
  have hplain := plain_escaped w m w' hw hwidth hw' hne hh hnt
  have hblock := Block.C12.parseBlocks_one_line cfg.blockCfg hcfg.para hcfg.nest w _ hplain
  have nb : ∀ c : Char, (c ≠ ' ' ∧ c ≠ '\t') → Inline.isSpTab c = false := by
    intro c hc
    cases h : Inline.isSpTab c
    · rfl
    · rcases (isSpTab_iff c).mp h with rfl | rfl
      · exact absurd rfl hc.1
      · exact absurd rfl hc.2
  obtain ⟨ns, hns, hts, hshow⟩ := Inline.C12.parseInline_escaped (cfg := cfg.inlineCfg []) hcfg.inl hcfg.nest
    w m w' [(0, 0)] Inline.C12.wf_single (fun c hc => (isSpTab_iff c).mpr (hw c hc))
    (fun c hc => (isSpTab_iff c).mpr (hw' c hc)) hne (fun c hc => nb c (hh c hc))
    (fun c hc => nb c (hl c hc)) (fun h => (hnt _ h).1 rfl)
  obtain ⟨l1, l2⟩ := ofInlineList_leaves ns hts
  -- the tree behind the splice walk
  have hsplice : spliceNode (cfg.inlineCfg [])
      ⟨.root, some (0, Lines.byteLen (w ++ (escapeAllPunct m ++ w'))),
        [Block.C12.oneParagraph w (escapeAllPunct m ++ w')]⟩ =
      .ok ⟨.blk .root, some (0, Lines.byteLen (w ++ (escapeAllPunct m ++ w'))), [],
        [⟨.blk .paragraph, some (w.length, Lines.byteLen (w ++ (escapeAllPunct m ++ w'))), [],
          ofInlineList ns⟩]⟩ := by
    have hns' : Inline.parseInline (cfg.inlineCfg []) (w ++ (escapeAllPunct m ++ w')) [(0, 0)] = .ok ns := by
      rw [← List.append_assoc]; exact hns
    simp [spliceNode, spliceList, Block.C12.oneParagraph, hns']
  have hshape : ShowsPara ⟨.blk .root, some (0, Lines.byteLen (w ++ (escapeAllPunct m ++ w'))), [],
        [⟨.blk .paragraph, some (w.length, Lines.byteLen (w ++ (escapeAllPunct m ++ w'))), [],
          ofInlineList ns⟩]⟩ m :=
    ⟨rfl, _, rfl, rfl, l1, by rw [l2, hshow]⟩
  unfold parseDoc
  rw [hsrc, hblock]
  simp only [afterBlocks, hsplice]
  by_cases hj : cfg.hasJoin = true
  · have hshape' := joinNode_showsPara hshape
    simp only [hj, if_true]
    by_cases hsp : cfg.sourcepos = true
    · simp only [hsp, if_true]; exact sourceposNode_showsPara _ hshape'
    · simp only [hsp]; exact ⟨_, rfl, hshape'⟩
  · simp only [hj]
    by_cases hsp : cfg.sourcepos = true
    · simp only [hsp, if_true]; exact sourceposNode_showsPara _ hshape
    · simp only [hsp]; exact ⟨_, rfl, hshape⟩

/-- **C12, round trip, whole document.**  For EVERY non-empty string `s` without LF / CR that neither
    starts nor ends with a space or tab (any other character allowed: controls, NUL, non-ASCII,
    interior blanks and tabs): parsing `s` with a backslash before every ASCII punctuation character
    gives one paragraph that displays exactly `s`. -/
theorem escape_roundtrip_doc (cfg : DocCfg) (hcfg : RoundTripCfg cfg) (s : List Char) (hne : s ≠ [])
    (hh : ∀ c ∈ s.head?, c ≠ ' ' ∧ c ≠ '\t') (hl : ∀ c ∈ s.getLast?, c ≠ ' ' ∧ c ≠ '\t')
    (hnt : ∀ c ∈ s, c ≠ '\n' ∧ c ≠ '\r') :
    ∃ t, parseDoc cfg (escapeAllPunct s) = .ok t ∧ ShowsPara t s := by
  have := escape_roundtrip_doc_blanks cfg hcfg [] s [] (by intro c hc; cases hc) (by decide)
    (by intro c hc; cases hc) hne hh hl hnt
  simpa using this

/-! ## examples: the hypotheses are satisfiable; each one is necessary
    (every witness below was run on the real crate: same trees) -/

section Examples

/-- the stock configuration of `Props/Pipeline.lean` (nine block rules, the twelve html-free inline
    rules in stock order, `*` `_` `~` markers) is in the class, with and without `sourcepos` -/
theorem exCfg_roundTrip (sp : Bool) (mn : Nat) (h : 0 < mn) : RoundTripCfg (exCfg sp mn) := by
  refine ⟨h, by simp [exCfg], ⟨by simp [exCfg], by simp [exCfg], ?_⟩⟩
  intro mk csw hm
  simp [exCfg] at hm
  rcases hm with ⟨rfl, _⟩ | ⟨rfl, _⟩ | ⟨rfl, _⟩ <;> decide

/-- a chain in another order, without most rules, is in the class as well -/
example : RoundTripCfg { exCfg true 1 with blockChain := [.paragraph, .list],
                                           inlineChain := [.entity, .escape, .link, .text] } :=
  ⟨by decide, by decide, ⟨by decide, by decide, by intro mk csw hm; simp at hm⟩⟩

/-- `1) #a_*` ↦ `1\) \#a\_\*` -/
example : escapeAllPunct "1) #a_*".toList = "1\\) \\#a\\_\\*".toList := by decide

/-- the theorem on `1) #a_*` (an ordered-list marker, a heading marker, emphasis delimiters) -/
example (sp : Bool) : ∃ t, parseDoc (exCfg sp 100) (escapeAllPunct "1) #a_*".toList) = .ok t ∧
    ShowsPara t "1) #a_*".toList :=
  escape_roundtrip_doc _ (exCfg_roundTrip sp 100 (by decide)) _ (by decide) (by decide) (by decide)
    (by decide)

/-- … and by evaluation: `Root[Paragraph[T X T X T X X]]`, displaying the string -/
example : (parseDoc (exCfg true 100) (escapeAllPunct "1) #a_*".toList)).toOption.map
      (fun t => (tags t, docAlt t)) =
    some ([.root, .p, .T, .X, .T, .X, .T, .X, .X], "1) #a_*".toList) := by decide +kernel

/-- without the escaping the same string is an ordered list -/
example : (parseDoc (exCfg true 100) "1) #a_*".toList).toOption.map tags =
    some [.root, .ol, .li, .T] := by decide +kernel

/-- the general form: two leading blanks, three trailing ones (a tab among them) are trimmed -/
example : ∃ t, parseDoc (exCfg false 100) (escapeAllPunct "  -a\t b \t ".toList) = .ok t ∧
    ShowsPara t "-a\t b".toList :=
  escape_roundtrip_doc_blanks _ (exCfg_roundTrip false 100 (by decide)) "  ".toList "-a\t b".toList
    " \t ".toList (by unfold Lines.AllBlank; decide) (by decide) (by unfold Lines.AllBlank; decide)
    (by decide) (by decide) (by decide) (by unfold Lines.NoTerm; decide)

/-- NECESSARY `0 < max_nesting`: with `max_nesting = 0` the block tokenizer skips the document -/
example : (parseDoc (exCfg false 0) ['a']).toOption.map tags = some [.root] := by decide +kernel

/-- NECESSARY the paragraph rule: without it the tokenizer's fall-back hangs the line PLUS a line feed
    directly under the root: `Root[Text "a", Softbreak]` -/
example : (parseDoc { exCfg false 100 with blockChain := [.code, .hr] } ['a']).toOption.map
      (fun t => (tags t, docAlt t)) = some ([.root, .T, .SB], ['a', '\n']) := by decide +kernel

/-- NECESSARY the escape rule: without it the backslash is displayed -/
example : (parseDoc { exCfg false 100 with inlineChain := [.text, .entity] } ['\\', '*']).toOption.map docAlt =
    some ['\\', '*'] := by decide +kernel

/-- NECESSARY `mk ≠ '\\'` for emphasis-like rules listed before the escape rule: a (custom) pair rule
    with marker `\` takes the backslash.  (That the other markers are ASCII punctuation is what keeps
    them away from unescaped text; it is sufficient, and true of the shipped `*`, `_`, `~`.) -/
example : (parseDoc { exCfg false 100 with inlineChain := [.emph '\\' true, .text, .escape] }
      ['\\', '*']).toOption.map docAlt = some ['\\', '*'] := by decide +kernel

/-- NECESSARY width < 4 of the leading blanks: four spaces, a tab, space + tab give an indented code
    block (nothing is displayed) -/
example : (parseDoc (exCfg false 100) "    a".toList).toOption.map tags = some [.root, .code] ∧
    (parseDoc (exCfg false 100) "\ta".toList).toOption.map tags = some [.root, .code] ∧
    (parseDoc (exCfg false 100) " \ta".toList).toOption.map tags = some [.root, .code] := by
  decide +kernel

/-- NECESSARY no blanks at the ends (for displaying `s` itself): they are trimmed -/
example : (parseDoc (exCfg false 100) "   a \t".toList).toOption.map (fun t => (tags t, docAlt t)) =
    some ([.root, .p, .T], ['a']) := by decide +kernel

/-- NECESSARY `s ≠ []` / not all blank: no paragraph at all -/
example : (parseDoc (exCfg false 100) []).toOption.map tags = some [.root] ∧
    (parseDoc (exCfg false 100) "  ".toList).toOption.map tags = some [.root] := by decide +kernel

/-- NECESSARY no CR: a lone CR is a line ending — two lines, displayed with a LF between them -/
example : (parseDoc (exCfg false 100) "a\rb".toList).toOption.map (fun t => (tags t, docAlt t)) =
    some ([.root, .p, .T, .SB, .T], "a\nb".toList) := by decide +kernel

/-- NOT excluded: NUL, DEL, vertical tab / form feed, U+00A0 and U+2028 at the ends, a 10-digit number
    followed by a dot (no list marker: more than 9 digits — and the dot is escaped anyway) -/
example : ∃ t, parseDoc (exCfg true 100)
      (escapeAllPunct [Char.ofNat 0, Char.ofNat 0x2028, '1', '2', '3', '4', '5', '6', '7', '8', '9', '0', '.',
        Char.ofNat 0x7f, Char.ofNat 0xb, Char.ofNat 0xa0]) = .ok t ∧
    ShowsPara t [Char.ofNat 0, Char.ofNat 0x2028, '1', '2', '3', '4', '5', '6', '7', '8', '9', '0', '.',
        Char.ofNat 0x7f, Char.ofNat 0xb, Char.ofNat 0xa0] :=
  escape_roundtrip_doc _ (exCfg_roundTrip true 100 (by decide)) _ (by decide) (by decide) (by decide)
    (by decide)

end Examples

/-! # Part 2: context agreement

  A valid reference or escape `R` with the characters `X` it denotes is `Entity.Denotes lookup R X`
  (named reference present in the table, numeric reference, escape of one of the 32 escapable
  characters: exactly the cases of `named_agree`, `numeric_agree`, `escape_agree` of `Props/C12.lean`).

    `reference_in_paragraph`   (a) `md.parse("a" ++ R ++ "b")` is
                               `Root[Paragraph[Text "a", TextSpecial{content: X, markup: R}, Text "b"]]`
                               and displays `"a" ++ X ++ "b"`
    `reference_in_fence_info`  (e) `md.parse("~~~ " ++ R)` is `Root[CodeFence{info: " " ++ R}]`,
                               `unescape_all` of that info is `" " ++ X`, and — when `X` is a non-empty
                               word without white space — the `class` attribute `CodeFence::render`
                               computes is `lang_prefix ++ X`
    so the SAME `X` is shown in paragraph text and named in the fence's class.
  OPEN (end of file): (b) destination, (c) title, (d) definition at document level.
-/

end MdIt.Pipeline

namespace MdIt.Entity

/-- `R` is a valid character reference or backslash escape, `X` the characters it denotes -/
inductive Denotes (lookup : List Char → Option (List Char)) : List Char → List Char → Prop
  /-- `&name;` with the syntax of a named reference, present in the table -/
  | named (n cs : List Char) (hn : namedSyntax n = true) (hl : lookup ('&' :: (n ++ [';'])) = some cs) :
      Denotes lookup ('&' :: (n ++ [';'])) cs
  /-- `&#…;` / `&#x…;`: the character with that code, U+FFFD if `is_valid_entity_code` rejects it -/
  | numeric (cap : List Char) (h : numericBody cap = true) :
      Denotes lookup ('&' :: '#' :: (cap ++ [';'])) (codeToChars (entityCode cap))
  /-- `\c` for one of the 32 escapable characters -/
  | escape (c : Char) (h : c ∈ escapable) : Denotes lookup ['\\', c] [c]

theorem isAlnum_plain {c : Char} (h : isAlnum c = true) : c ≠ '\n' ∧ c ≠ '\r' := by
  constructor <;> (intro he; subst he; revert h; decide)

theorem Denotes.noTerm {lookup : List Char → Option (List Char)} {R X : List Char}
    (h : Denotes lookup R X) : ∀ c ∈ R, c ≠ '\n' ∧ c ≠ '\r' := by
  cases h with
  | named n cs hn hl =>
    obtain ⟨c, t, rfl, hc, ht, _, _⟩ := namedSyntax_parts n hn
    intro x hx
    simp only [List.cons_append, List.mem_cons, List.mem_append, List.not_mem_nil, or_false] at hx
    rcases hx with rfl | rfl | hx | rfl
    · exact ⟨by decide, by decide⟩
    · exact isAlnum_plain (by simp [isAlnum, hc])
    · exact isAlnum_plain (ht x hx)
    · exact ⟨by decide, by decide⟩
  | numeric cap hcap =>
    obtain ⟨ha, _, _⟩ := numericBody_alnum cap hcap
    intro x hx
    simp only [List.mem_cons, List.mem_append, List.not_mem_nil, or_false] at hx
    rcases hx with rfl | rfl | hx | rfl
    · exact ⟨by decide, by decide⟩
    · exact ⟨by decide, by decide⟩
    · exact isAlnum_plain (ha x hx)
    · exact ⟨by decide, by decide⟩
  | escape c hc =>
    intro x hx
    simp only [List.mem_cons, List.not_mem_nil, or_false] at hx
    rcases hx with rfl | rfl
    · exact ⟨by decide, by decide⟩
    · exact ⟨fun he => by subst he; revert hc; decide, fun he => by subst he; revert hc; decide⟩

/-- path B on `R` followed by anything -/
theorem Denotes.unescape {lookup : List Char → Option (List Char)} {R X : List Char}
    (h : Denotes lookup R X) (hno : ∀ s, lookup ('&' :: '#' :: s) = none) (rest : List Char) :
    unescapeScan lookup 0 (R ++ rest) = X ++ unescapeScan lookup 0 rest := by
  cases h with
  | named n cs hn hl =>
    have := unescapeScan_named lookup n rest _ hn hl
    simpa using this
  | numeric cap hcap =>
    have := unescapeScan_numeric lookup cap rest hcap (hno _)
    simpa [decodeEntity] using this
  | escape c hc => exact unescapeScan_escape lookup c rest hc

end MdIt.Entity

namespace MdIt.Pipeline
open MdIt.Entity (Denotes)

mutual
/-- the node values of a tree in pre-order (ranges and attributes forgotten) -/
def kindsPre : Node → List Kind
  | ⟨k, _, _, cs⟩ => k :: kindsPreList cs
def kindsPreList : List Node → List Kind
  | [] => []
  | c :: cs => kindsPre c ++ kindsPreList cs
end

mutual
theorem docAlt_kindsPre (t : Node) : docAlt t = (kindsPre t).flatMap Kind.ownAlt := by
  match t with
  | ⟨k, r, a, cs⟩ => simp only [docAlt, kindsPre, List.flatMap_cons, docAltList_kindsPre cs]
theorem docAltList_kindsPre (cs : List Node) : docAltList cs = (kindsPreList cs).flatMap Kind.ownAlt := by
  match cs with
  | [] => rfl
  | c :: r =>
    simp only [docAltList, kindsPreList, List.flatMap_append, docAlt_kindsPre c, docAltList_kindsPre r]
end

mutual
theorem sourceposNode_kindsPre {src : List Char} {marks : List SourceMap.Mark} (t t' : Node)
    (h : sourceposNode src marks t = .ok t') : kindsPre t' = kindsPre t := by
  match t with
  | ⟨k, r, a, cs⟩ =>
    simp only [sourceposNode] at h
    split at h
    · cases h
    · split at h
      · cases h
      · rename_i cs' hcs
        cases h
        simp only [kindsPre, sourceposList_kindsPre cs cs' hcs]
theorem sourceposList_kindsPre {src : List Char} {marks : List SourceMap.Mark} (cs cs' : List Node)
    (h : sourceposList src marks cs = .ok cs') : kindsPreList cs' = kindsPreList cs := by
  match cs with
  | [] => simp [sourceposList] at h; subst h; rfl
  | c :: r =>
    simp only [sourceposList] at h
    split at h
    · cases h
    · rename_i c' hc
      split at h
      · cases h
      · rename_i r' hr
        cases h
        simp only [kindsPreList, sourceposNode_kindsPre c c' hc, sourceposList_kindsPre r r' hr]
end

/-- the configurations of part (a): those of the round trip, with the entity rule in the inline chain
    and no emphasis-like rule on `&` -/
structure AgreeCfg (cfg : DocCfg) : Prop where
  rt : RoundTripCfg cfg
  entity : Inline.RuleId.entity ∈ cfg.inlineChain
  amp : ∀ mk csw, Inline.RuleId.emph mk csw ∈ cfg.inlineChain → mk ≠ '&'

/-- the `info` field of the `TextSpecial` node: which rule made it -/
def infoOf (R : List Char) : List Char :=
  if R.head? = some '&' then Inline.infoEntity else Inline.infoEscape

/-- the inline parser on `"a" ++ R ++ "b"` -/
theorem parseInline_reference {icfg : Inline.Cfg} (hc : Inline.C12.ChainOK icfg.chain) (hmax : 0 < icfg.maxNesting)
    (hent : Inline.RuleId.entity ∈ icfg.chain)
    (hamp : ∀ mk csw, Inline.RuleId.emph mk csw ∈ icfg.chain → mk ≠ '&')
    (R X : List Char) (h : Denotes icfg.entity R X) :
    ∃ r1 r2 r3, Inline.parseInline icfg ('a' :: (R ++ ['b'])) [(0, 0)] =
      .ok [Inline.Node.newText ['a'] (some r1), Inline.Node.leaf (.special X R (infoOf R)) (some r2),
           Inline.Node.newText ['b'] (some r3)] := by
  have hqamp : ∀ r ∈ icfg.chain, r ≠ .entity → Inline.C12.trigger r '&' = false := by
    intro r hr hne
    cases r with
    | entity => exact absurd rfl hne
    | emph mk csw =>
      simp only [Inline.C12.trigger, beq_eq_false_iff_ne]
      exact fun he => hamp mk csw hr he.symm
    | text => decide
    | _ => rfl
  have hentity : ∀ (R' : List Char), R = '&' :: R' →
      Entity.entityCore icfg.entity (R ++ ['b']) (R ++ ['b']) = .ok (some ⟨R.length, X, R⟩) →
      ∃ r1 r2 r3, Inline.parseInline icfg ('a' :: (R ++ ['b'])) [(0, 0)] =
        .ok [Inline.Node.newText ['a'] (some r1), Inline.Node.leaf (.special X R (infoOf R)) (some r2),
             Inline.Node.newText ['b'] (some r3)] := by
    intro R' hR hcore
    have hinfo : infoOf R = Inline.infoEntity := by simp [infoOf, hR]
    rw [hinfo]
    exact Inline.C12.parseInline_aRb hc hmax R X Inline.infoEntity .entity '&' R' hR (by decide) hent hqamp
      (fun skip tok fuel st hsrc hpos hpm rg hrg =>
        Inline.C12.fire_entity icfg skip tok fuel st ['a'] R ['b'] X R' hR hcore hsrc hpos hpm rg hrg)
  cases h with
  | named n cs hn hl =>
    refine hentity (n ++ [';']) rfl ?_
    have := Entity.entityCore_named icfg.entity n ['b'] _ hn hl
    simpa using this
  | numeric cap hcap =>
    refine hentity ('#' :: (cap ++ [';'])) rfl ?_
    have := Entity.entityCore_numeric icfg.entity cap ['b'] hcap
    simpa [Entity.decodeEntity] using this
  | escape c hcesc =>
    have hinfo : infoOf ['\\', c] = Inline.infoEscape := by simp [infoOf]
    rw [hinfo]
    exact Inline.C12.parseInline_aRb hc hmax ['\\', c] [c] Inline.infoEscape .escape '\\' [c] rfl (by decide)
      hc.escape (Inline.C12.trigger_backslash hc)
      (fun skip tok fuel st hsrc hpos hpm rg hrg =>
        Inline.C12.fire_escape icfg skip tok fuel st c ['b'] hcesc
          (Inline.C12.window_of_src (B := []) (by rw [hsrc]; simp) hpos hpm) rg hrg)

/-- **C12 (a), whole document.**  For every valid reference or escape `R` denoting `X`:
    `md.parse("a" ++ R ++ "b")` does not panic and is
    `Root[Paragraph[Text "a", TextSpecial { content: X, markup: R, info }, Text "b"]]`
    (`info` = `"entity"` / `"escape"`); as plain text it displays `"a" ++ X ++ "b"`. -/
theorem reference_in_paragraph (cfg : DocCfg) (hcfg : AgreeCfg cfg) (R X : List Char)
    (h : Denotes cfg.entity R X) :
    ∃ t, parseDoc cfg ('a' :: (R ++ ['b'])) = .ok t ∧
      kindsPre t = [.blk .root, .blk .paragraph, .inl (.text ['a']), .inl (.special X R (infoOf R)),
        .inl (.text ['b'])] ∧
      docAlt t = 'a' :: (X ++ ['b']) := by
  have hplain : Block.C12.Plain [] ('a' :: (R ++ ['b'])) := by
    refine ⟨(by intro c hc; cases hc), (by decide), ?_,
      ⟨'a', R ++ ['b'], rfl, (by decide), fun _ => ⟨(by decide), (by decide)⟩⟩,
      (by simp [Block.skipOrdered, Block.isDigit])⟩
    intro c hc
    simp only [List.mem_cons, List.mem_append, List.not_mem_nil, or_false] at hc
    rcases hc with rfl | hc | rfl
    · exact ⟨by decide, by decide⟩
    · exact h.noTerm c hc
    · exact ⟨by decide, by decide⟩
  have hblock := Block.C12.parseBlocks_one_line cfg.blockCfg hcfg.rt.para hcfg.rt.nest [] _ hplain
  obtain ⟨r1, r2, r3, hin⟩ := parseInline_reference (icfg := cfg.inlineCfg []) hcfg.rt.inl hcfg.rt.nest
    hcfg.entity hcfg.amp R X h
  have hdisp : ∀ t : Node, kindsPre t = [.blk .root, .blk .paragraph, .inl (.text ['a']),
      .inl (.special X R (infoOf R)), .inl (.text ['b'])] → docAlt t = 'a' :: (X ++ ['b']) := by
    intro t ht
    rw [docAlt_kindsPre, ht]
    simp [Kind.ownAlt]
  -- the tree behind the splice walk
  let kids : List Node := [⟨.inl (.text ['a']), some r1, [], []⟩,
    ⟨.inl (.special X R (infoOf R)), some r2, [], []⟩, ⟨.inl (.text ['b']), some r3, [], []⟩]
  let para : Node := ⟨.blk .paragraph, some (0, Lines.byteLen ('a' :: (R ++ ['b']))), [], kids⟩
  let t0 : Node := ⟨.blk .root, some (0, Lines.byteLen ('a' :: (R ++ ['b']))), [], [para]⟩
  have hsplice : spliceNode (cfg.inlineCfg [])
      ⟨.root, some (0, Lines.byteLen ([] ++ 'a' :: (R ++ ['b']))),
        [Block.C12.oneParagraph [] ('a' :: (R ++ ['b']))]⟩ = .ok t0 := by
    simp [spliceNode, spliceList, Block.C12.oneParagraph, hin, ofInlineList, ofInline, Inline.Node.newText,
      Inline.Node.leaf, t0, para, kids]
  have hk0 : kindsPre t0 = [.blk .root, .blk .paragraph, .inl (.text ['a']),
      .inl (.special X R (infoOf R)), .inl (.text ['b'])] := by
    simp [t0, para, kids, kindsPre, kindsPreList]
  have hjoin : joinNode t0 = t0 := by
    have hk : fragmentsJoin kids = kids := by
      simp [kids, fragmentsJoin, pass1, Pipeline.markerToText, mergeAll, mergeLoop, keep, Node.isText,
        Node.content]
    have hp : fragmentsJoin [para] = [para] := by
      simp [para, fragmentsJoin, pass1, Pipeline.markerToText, mergeAll, mergeLoop, keep, Node.isText]
    have hjk : joinList kids = kids := by
      rw [joinList_eq_map]
      simp [kids, joinNode_childless]
    have hjp : joinNode para = para := by
      rw [joinNode_eq]
      show ({ para with children := joinList (fragmentsJoin kids) } : Node) = para
      rw [hk, hjk]
    rw [joinNode_eq]
    show ({ t0 with children := joinList (fragmentsJoin [para]) } : Node) = t0
    rw [hp, joinList_eq_map]
    simp [hjp, t0]
  unfold parseDoc
  rw [show 'a' :: (R ++ ['b']) = [] ++ 'a' :: (R ++ ['b']) from rfl, hblock]
  simp only [afterBlocks, hsplice, hjoin, ite_self]
  by_cases hsp : cfg.sourcepos = true
  · simp only [hsp, if_true]
    obtain ⟨t', ht'⟩ := sourceposNode_total ([] ++ 'a' :: (R ++ ['b'])) t0
    have hk' := sourceposNode_kindsPre t0 t' ht'
    exact ⟨t', ht', hk'.trans hk0, hdisp t' (hk'.trans hk0)⟩
  · simp only [hsp]
    exact ⟨t0, rfl, hk0, hdisp t0 hk0⟩

/-! ## (e) the fence info string -/

/-- the configurations of part (e): `max_nesting > 0`, the fence rule is in the block chain and comes
    before the paragraph rule (`pre` = the rules in front of its first occurrence) -/
structure FenceCfg (cfg : DocCfg) : Prop where
  nest : 0 < cfg.maxNesting
  chain : ∃ pre post, cfg.blockChain = pre ++ Block.RuleId.fence :: post ∧
    Block.RuleId.paragraph ∉ pre ∧ Block.RuleId.fence ∉ pre

theorem takeWhile_all {α : Type} (p : α → Bool) (l : List α) (h : ∀ x ∈ l, p x = true) :
    l.takeWhile p = l := by
  induction l with
  | nil => rfl
  | cons c r ih => simp [List.takeWhile_cons, h c (by simp), ih (fun x hx => h x (by simp [hx]))]

theorem firstWord_word (X : List Char) (hne : X ≠ []) (hws : ∀ c ∈ X, NodeRender.isWs c = false) :
    NodeRender.firstWord (' ' :: X) = X := by
  obtain ⟨c, t, rfl⟩ := List.exists_cons_of_ne_nil hne
  have h1 : NodeRender.isWs ' ' = true := by decide
  have h2 := hws c (by simp)
  unfold NodeRender.firstWord
  simp only [List.dropWhile_cons, h1, if_true, h2]
  exact takeWhile_all _ _ (fun x hx => by simp [hws x hx])

/-- **C12 (e), whole document.**  For every valid reference or escape `R` denoting `X` (the table
    holding no name that starts `&#`: `table_no_hash`): `md.parse("~~~ " ++ R)` does not panic and is
    `Root[CodeFence { info: " " ++ R, marker: '~', marker_len: 3, content: "" }]`; `unescape_all` of that
    info string is `" " ++ X` — the characters `R` denotes in paragraph text (`reference_in_paragraph`) —
    and when `X` is a non-empty word without white space the attribute list `CodeFence::render` hands
    to `<code>` is the node's own plus `class = lang_prefix ++ X`. -/
theorem reference_in_fence_info (cfg : DocCfg) (hcfg : FenceCfg cfg) (R X : List Char)
    (h : Denotes cfg.entity R X) (hno : ∀ s, cfg.entity ('&' :: '#' :: s) = none) :
    ∃ t f, parseDoc cfg ('~' :: '~' :: '~' :: ' ' :: R) = .ok t ∧ t.kind = .blk .root ∧
      t.children = [f] ∧ f.kind = .blk (.codeFence (' ' :: R) '~' 3 []) ∧ f.children = [] ∧
      Entity.unescapeAll cfg.entity (' ' :: R) = ' ' :: X ∧
      (X ≠ [] → (∀ c ∈ X, NodeRender.isWs c = false) →
        NodeRender.fenceAttrs cfg.entity f.attrs (' ' :: R) cfg.langPrefix =
          .ok (f.attrs ++ [(NodeRender.aClass, cfg.langPrefix ++ X)])) := by
  obtain ⟨pre, post, hchain, hpre, hnf⟩ := hcfg.chain
  -- `unescape_all(" " ++ R)`
  have hun : Entity.unescapeAll cfg.entity (' ' :: R) = ' ' :: X := by
    have hR : ∃ c0 R', R = c0 :: R' ∧ (c0 = '&' ∨ c0 = '\\') := by
      cases h with
      | named n cs hn hl => exact ⟨_, _, rfl, .inl rfl⟩
      | numeric cap hcap => exact ⟨_, _, rfl, .inl rfl⟩
      | escape c hc => exact ⟨_, _, rfl, .inr rfl⟩
    obtain ⟨c0, R', hR, hc0⟩ := hR
    have hcont : (!(' ' :: R).contains '\\' && !(' ' :: R).contains '&') = false := by
      rcases hc0 with rfl | rfl <;> simp [hR]
    have hnm : Entity.matchUnescapeAllRe (' ' :: R) = none := by
      simp [Entity.matchUnescapeAllRe, Entity.matchEscapeRe, Entity.matchEntityRe]
    have := h.unescape hno []
    rw [List.append_nil, Entity.unescapeScan_nil, List.append_nil] at this
    unfold Entity.unescapeAll
    rw [hcont]
    simp only [Bool.false_eq_true, if_false]
    rw [Entity.unescapeScan_nomatch _ _ _ hnm, this]
  have hattrs : ∀ attrs, X ≠ [] → (∀ c ∈ X, NodeRender.isWs c = false) →
      NodeRender.fenceAttrs cfg.entity attrs (' ' :: R) cfg.langPrefix =
        .ok (attrs ++ [(NodeRender.aClass, cfg.langPrefix ++ X)]) := by
    intro attrs hne hws
    rw [NodeRender.fence_class, hun, firstWord_word X hne hws, if_neg hne]
  -- the block pass
  have hplain : Block.C12.PlainG true [] ('~' :: '~' :: '~' :: ' ' :: R) := by
    refine ⟨(by intro c hc; cases hc), (by decide), ?_,
      ⟨'~', '~' :: '~' :: ' ' :: R, rfl, (by decide), fun hh => by cases hh⟩,
      (by simp [Block.skipOrdered, Block.isDigit])⟩
    intro c hc
    simp only [List.mem_cons] at hc
    rcases hc with rfl | rfl | rfl | rfl | hc
    · exact ⟨by decide, by decide⟩
    · exact ⟨by decide, by decide⟩
    · exact ⟨by decide, by decide⟩
    · exact ⟨by decide, by decide⟩
    · exact h.noTerm c hc
  have hblock := Block.C12.parseBlocks_fence_line cfg.blockCfg pre post hchain hpre hnf hcfg.nest []
    ('~' :: '~' :: '~' :: ' ' :: R) hplain (' ' :: R) rfl (by intro c hc; simp at hc; subst hc; decide)
  let fk : Kind := .blk (.codeFence (' ' :: R) '~' 3 [])
  let rg : Option (Nat × Nat) := some (0, Lines.byteLen ('~' :: '~' :: '~' :: ' ' :: R))
  let f0 : Node := ⟨fk, rg, [], []⟩
  let t0 : Node := ⟨.blk .root, rg, [], [f0]⟩
  have hsplice : spliceNode (cfg.inlineCfg [])
      ⟨.root, some (0, Lines.byteLen ([] ++ '~' :: '~' :: '~' :: ' ' :: R)),
        [Block.C12.oneFence [] ('~' :: '~' :: '~' :: ' ' :: R) (' ' :: R)]⟩ = .ok t0 := by
    simp [spliceNode, spliceList, Block.C12.oneFence, t0, f0, fk, rg]
  have hjoin : joinNode t0 = t0 := by
    have hp : fragmentsJoin [f0] = [f0] := by
      simp [f0, fk, fragmentsJoin, pass1, Pipeline.markerToText, mergeAll, mergeLoop, keep, Node.isText]
    rw [joinNode_eq]
    show ({ t0 with children := joinList (fragmentsJoin [f0]) } : Node) = t0
    rw [hp, joinList_eq_map]
    simp [joinNode_childless, t0, f0]
  unfold parseDoc
  rw [show '~' :: '~' :: '~' :: ' ' :: R = [] ++ '~' :: '~' :: '~' :: ' ' :: R from rfl, hblock]
  simp only [afterBlocks, hsplice, hjoin, ite_self]
  by_cases hsp : cfg.sourcepos = true
  · simp only [hsp, if_true]
    simp only [t0, f0, sourceposNode, sourceposList, sourceposAttrs_eq]
    exact ⟨_, _, rfl, rfl, rfl, rfl, rfl, hun, hattrs _⟩
  · simp only [hsp]
    exact ⟨t0, f0, rfl, rfl, rfl, rfl, rfl, hun, hattrs _⟩

/-! ## examples for part 2 -/

section Examples2

theorem exCfg_agree (sp : Bool) (mn : Nat) (h : 0 < mn) : AgreeCfg (exCfg sp mn) := by
  refine ⟨exCfg_roundTrip sp mn h, by simp [exCfg], ?_⟩
  intro mk csw hm
  simp [exCfg] at hm
  rcases hm with ⟨rfl, _⟩ | ⟨rfl, _⟩ | ⟨rfl, _⟩ <;> decide

theorem exCfg_fence (sp : Bool) (mn : Nat) (h : 0 < mn) : FenceCfg (exCfg sp mn) :=
  ⟨h, [.code], [.blockquote, .hr, .list, .reference, .heading, .lheading, .paragraph], rfl,
    by decide, by decide⟩

theorem exCfg_no_hash (sp : Bool) (mn : Nat) (s : List Char) : (exCfg sp mn).entity ('&' :: '#' :: s) = none := by
  simp [exCfg]

/-- `&amp;`, `&#x41;`, `&#0;` (→ U+FFFD) and `\*` are in the class -/
example (sp : Bool) : Denotes (exCfg sp 100).entity "&amp;".toList ['&'] :=
  .named "amp".toList ['&'] (by decide) (by cases sp <;> decide)
example (lk : List Char → Option (List Char)) : Denotes lk "&#x41;".toList ['A'] :=
  .numeric "x41".toList (by decide)
example (lk : List Char → Option (List Char)) : Denotes lk "&#0;".toList [Char.ofNat 0xFFFD] :=
  .numeric "0".toList (by decide)
example (lk : List Char → Option (List Char)) : Denotes lk "\\*".toList ['*'] := .escape '*' (by decide)

/-- (a) and (e) on `&amp;`: the paragraph shows `a&b`, the fence's class is `l-&` (`lang_prefix` of the
    example configuration is `l-`) -/
example (sp : Bool) : ∃ t, parseDoc (exCfg sp 100) "a&amp;b".toList = .ok t ∧ docAlt t = "a&b".toList := by
  obtain ⟨t, h1, _, h3⟩ := reference_in_paragraph _ (exCfg_agree sp 100 (by decide)) _ _
    (.named "amp".toList ['&'] (by decide) (by cases sp <;> decide))
  exact ⟨t, h1, h3⟩

example (sp : Bool) : ∃ t f, parseDoc (exCfg sp 100) "~~~ &amp;".toList = .ok t ∧ t.children = [f] ∧
    NodeRender.fenceAttrs (exCfg sp 100).entity f.attrs " &amp;".toList ['l', '-'] =
      .ok (f.attrs ++ [(NodeRender.aClass, "l-&".toList)]) := by
  obtain ⟨t, f, h1, _, h3, _, _, _, h7⟩ := reference_in_fence_info _ (exCfg_fence sp 100 (by decide)) _ _
    (.named "amp".toList ['&'] (by decide) (by cases sp <;> decide)) (exCfg_no_hash sp 100)
  exact ⟨t, f, h1, h3, h7 (by decide) (by decide)⟩

/-- by evaluation, with the numeric reference `&#x41;` and the escape `\*` -/
example : (parseDoc (exCfg true 100) "a&#x41;b".toList).toOption.map (fun t => (tags t, docAlt t)) =
    some ([.root, .p, .T, .X, .T], "aAb".toList) := by decide +kernel
example : (renderDoc false (exCfg false 100) "~~~ &#x41;\\*".toList) =
    .ok "<pre><code class=\"l-A*\"></code></pre>\n".toList := by decide +kernel

/-- NECESSARY for (e) "fence before paragraph": with the paragraph rule first the line is a paragraph -/
example : (parseDoc { exCfg false 100 with blockChain := [.paragraph, .fence] } "~~~ x".toList).toOption.map tags =
    some [.root, .p, .T] := by decide +kernel

/-- NECESSARY for (a) "no emphasis-like rule on `&`": such a (custom) rule takes the ampersand -/
example : (parseDoc { exCfg false 100 with inlineChain := [.emph '&' true, .text, .escape, .entity] }
      "a&amp;b".toList).toOption.map docAlt = some "a&amp;b".toList := by decide +kernel

/-- OUTSIDE the class: a reference the table does not hold, a code with 8 digits, a missing `;` stay
    literal in paragraph text AND in the info string (both paths leave them alone) -/
example : (parseDoc (exCfg false 100) "a&zz;&#00000065;&#65b".toList).toOption.map docAlt =
      some "a&zz;&#00000065;&#65b".toList ∧
    Entity.unescapeAll (exCfg false 100).entity " &zz;&#00000065;&#65".toList = " &zz;&#00000065;&#65".toList := by
  decide +kernel

end Examples2

/-
OPEN: (b) destination, (c) title, (d) definition at whole-document level.

  (c)  theorem reference_in_title (cfg) (R X) (h : Denotes cfg.entity R X) (hno : table has no `&#` name) :
         ∃ t, parseDoc cfg ("[x](/u \"" ++ R ++ "\")") = .ok t ∧
           kindsPre t = [root, paragraph, link (utf8 "/u") (some X), text "x"]
  (b)  … parseDoc cfg ("[x](</" ++ R ++ ">)") … link (normalizeLink (utf8 ("/" ++ X))) none, when
       `validateLink` accepts that url
  (d)  … parseDoc cfg ("[k]: </" ++ R ++ "> \"" ++ R ++ "\"\n\n[k]") …  the same url and title

  What is there: the mechanism (`Denotes.unescape`: `unescapeScan lookup 0 (R ++ rest) = X ++ …`, which
  gives `unescapeAll lookup ("/" ++ R) = "/" ++ X` and `unescapeAll lookup R = X` exactly as in
  `reference_in_fence_info`), the block pass for (b)/(c) (`Block.C12.parseBlocks_one_line`; `Block.C12.PlainG`
  must also allow a first character `[` when `refQuick false rest = false` — one more case in
  `runRule_other`, the line `[x](…` fails the quick `]:` test), the splice / join / sourcepos plumbing
  (`kindsPre`, `sourceposNode_kindsPre`, `joinNode_childless`), the exact-step lemmas of the inline loop.
  MISSING, precisely:
    L1  a symbolic run of `Inline.linkRule` on `[x](…)` at fuel `f + 1`:
          `parseLinkLabel` → `labelLoop` calls `skipToken cfg f` at `x` (text scanner in silent mode,
          `silentBumped`, one memo insert) and stops at `]`;  then
          `Link.parseInlineTail (unescapeAll lookup) src (labelEnd + 1) posMax` on
          `(</R>)` resp. `(/u "R")`;  then the nested `tokLoop cfg f` on the label window `x`
          (= `step_text_fresh` with `P = "["`, `B = "](…)"`), `level` / `linkLevel` restored.
    L2  `Link.parseInlineTail u src a b` evaluated on these two templates for an ARBITRARY `R` in the
        class: `Link.parseLinkDestination` in its `<…>` branch must scan over `R` (needs: `R` contains
        no `<`, `>`, line feed — false for the escapes `\<`, `\>`, which the scanner treats through its
        own backslash rule: the statement needs that case split) and return `raw = "/" ++ R`;
        `Link.parseLinkTitle` must scan the `"`-delimited title over `R` (needs: no unescaped `"` in
        `R`; `\"` is again the scanner's backslash case) and return `raw = R`.  No lemma about these
        two scanners on a symbolic middle part exists yet (`Props/C04.lean` has only "result is a
        slice of the input" facts).
    L3  for (d): `Block.refParse cfg` on `[k]: </R> "R"` (label scan, `wsScan`, the same two `Link`
        scanners as L2, `refTrail`), the reference rule's `lazyScan` over the blank line, then the
        paragraph `[k]` on line 2 (a two-line `OneLine` analogue: `Block.C12.parseBlocks_one_line` is for
        one-line sources), and `Inline.parseLinkRef` + `Refs.lookup` of the normalised label
        (needs `Refs.normalize cfg.L cfg.U "k"` for the configuration's case tables).
-/

end MdIt.Pipeline
