/-
  C12 at WHOLE-DOCUMENT level: statements about `MdIt.Pipeline.parseDoc` (`md.parse(src)`).
  `Props/C12.lean` proves the mechanism level over `Model/Entity.lean`; here the same facts are
  carried through the block parser, the splice walk, the inline parser, the join pass and the
  sourcepos pass.

  PART 1 — ROUND TRIP ("backslash-escaping every ASCII punctuation character of an arbitrary
  single-line string yields a paragraph that displays exactly that string").

    `escape_roundtrip_doc`          for EVERY `s` without LF / CR, non-empty, neither starting nor
                                    ending with a space or tab:  `parseDoc cfg (escapeAllPunct s)` is
                                    `Root[Paragraph[leaves]]`, the leaves are `Text` nodes and the
                                    `TextSpecial` nodes of backslash escapes, and they display `s`.
    `escape_roundtrip_doc_blanks`   the general form: `s = w ++ m ++ w'` with `w`, `w'` runs of
                                    spaces / tabs, `w` narrower than 4 columns: the paragraph
                                    displays `m` (the paragraph trims the blanks).
    Exact class, each exclusion with a witness (`example`s at the end of the part, checked against the
    crate):  LF / CR (second line; CR is shown as LF),  empty or all-blank `s` (no paragraph),
    leading blanks of width ≥ 4 incl. one tab (indented code block),  leading / trailing blanks in
    general (trimmed).  NUL, other control characters, non-ASCII characters, Unicode white space and
    interior tabs need no exclusion.
    Exact configuration class (`RoundTripCfg`): `max_nesting > 0`; the paragraph rule is in the block
    chain (ANY other block rules, any order); the text scanner and the escape rule are in the inline
    chain (ANY other html-free inline rules, any order), emphasis-like rules have ASCII punctuation
    markers other than `\`.  Any entity table, case tables, `sourcepos` on or off.

  PART 2 — CONTEXT AGREEMENT: see the section header below.
-/
import MdIt.Lemmas.C12DocInline
import MdIt.Lemmas.C12DocBlock
import MdIt.Props.LinksDoc

namespace MdIt.Pipeline
open MdIt.Entity (escapeAllPunct isAsciiPunct)
open MdIt.Lines (NoTerm AllBlank indentWidth)

/-! # Part 1: the round trip -/

/-! ## the escaped line is a plain line for the block parser -/

theorem escapeAllPunct_append (a b : List Char) :
    escapeAllPunct (a ++ b) = escapeAllPunct a ++ escapeAllPunct b := by
  induction a with
  | nil => rfl
  | cons c t ih => simp only [List.cons_append, escapeAllPunct]; split <;> simp [ih]

theorem escapeAllPunct_blank (w : List Char) (hw : AllBlank w) : escapeAllPunct w = w := by
  induction w with
  | nil => rfl
  | cons c t ih =>
    have : isAsciiPunct c = false := by rcases hw c (by simp) with rfl | rfl <;> decide
    simp [escapeAllPunct, this, ih hw.tail]

theorem ordLoop_escaped (t w' : List Char) (hw' : AllBlank w') :
    ∀ pos, Block.ordLoop (escapeAllPunct t ++ w') pos = none := by
  induction t with
  | nil =>
    intro pos
    cases w' with
    | nil => rfl
    | cons b r =>
      rcases hw' b (by simp) with rfl | rfl <;> simp [escapeAllPunct, Block.ordLoop, Block.isDigit]
  | cons c t ih =>
    intro pos
    by_cases hp : isAsciiPunct c = true
    · simp [escapeAllPunct, hp, Block.ordLoop, Block.isDigit]
    · have hp' : isAsciiPunct c = false := by simpa using hp
      have h1 : c ≠ ')' := by intro h; subst h; revert hp'; decide
      have h2 : c ≠ '.' := by intro h; subst h; revert hp'; decide
      have hesc : escapeAllPunct (c :: t) = c :: escapeAllPunct t := by simp [escapeAllPunct, hp']
      rw [hesc, List.cons_append]
      simp only [Block.ordLoop]
      split
      · split
        · rfl
        · exact ih _
      · simp [h1, h2]

theorem skipOrdered_escaped (m w' : List Char) (hw' : AllBlank w') :
    Block.skipOrdered (escapeAllPunct m ++ w') = none := by
  cases m with
  | nil =>
    cases w' with
    | nil => rfl
    | cons b r =>
      rcases hw' b (by simp) with rfl | rfl <;> simp [escapeAllPunct, Block.skipOrdered, Block.isDigit]
  | cons c t =>
    by_cases hp : isAsciiPunct c = true
    · simp [escapeAllPunct, hp, Block.skipOrdered, Block.isDigit]
    · have hp' : isAsciiPunct c = false := by simpa using hp
      have hesc : escapeAllPunct (c :: t) = c :: escapeAllPunct t := by simp [escapeAllPunct, hp']
      rw [hesc, List.cons_append]
      simp only [Block.skipOrdered, ordLoop_escaped t w' hw' 1]
      split <;> rfl

/-- the line  blanks ++ escapeAllPunct m ++ blanks  is `Plain` -/
theorem plain_escaped (w m w' : List Char) (hw : AllBlank w) (hwidth : indentWidth w < 4)
    (hw' : AllBlank w') (hne : m ≠ []) (hh : ∀ c ∈ m.head?, c ≠ ' ' ∧ c ≠ '\t') (hnt : NoTerm m) :
    Block.Plain w (escapeAllPunct m ++ w') := by
  refine ⟨hw, hwidth, ?_, ?_, skipOrdered_escaped m w' hw'⟩
  · intro c hc
    rcases List.mem_append.mp hc with h | h
    · have : ∀ (l : List Char), NoTerm l → NoTerm (escapeAllPunct l) := by
        intro l
        induction l with
        | nil => intro _ c hc; simp [escapeAllPunct] at hc
        | cons d t ih =>
          intro hl c hc
          simp only [escapeAllPunct] at hc
          split at hc
          · simp only [List.mem_cons] at hc
            rcases hc with rfl | rfl | hc
            · decide
            · exact hl _ (by simp)
            · exact ih hl.tail c hc
          · simp only [List.mem_cons] at hc
            rcases hc with rfl | hc
            · exact hl _ (by simp)
            · exact ih hl.tail c hc
      exact this m hnt c h
    · exact hw'.noTerm c h
  · obtain ⟨c, t, rfl⟩ := List.exists_cons_of_ne_nil hne
    have hc := hh c (by simp)
    by_cases hp : isAsciiPunct c = true
    · refine ⟨'\\', c :: (escapeAllPunct t ++ w'), by simp [escapeAllPunct, hp], by decide⟩
    · have hp' : isAsciiPunct c = false := by simpa using hp
      refine ⟨c, escapeAllPunct t ++ w', by simp [escapeAllPunct, hp'], ?_⟩
      have key : ∀ d : Char, isAsciiPunct d = true → c ≠ d := by
        intro d hd h; subst h; rw [hp'] at hd; cases hd
      simp only [List.mem_cons, List.not_mem_nil, or_false, not_or]
      exact ⟨hc.1, hc.2, key _ (by decide), key _ (by decide), key _ (by decide), key _ (by decide),
        key _ (by decide), key _ (by decide), key _ (by decide), key _ (by decide), key _ (by decide)⟩

/-! ## what the tree looks like -/

/-- a childless `Text`, or the childless `TextSpecial` a backslash escape of an escapable character
    makes (`content` = the character, `markup` = `\` + the character, `info` = `"escape"`) -/
def EscLeaf (c : Node) : Prop :=
  c.children = [] ∧
  ((∃ x, c.kind = .inl (.text x)) ∨ (∃ ch, c.kind = .inl (.special [ch] ['\\', ch] Inline.infoEscape)))

/-- `t` is `Root[Paragraph[leaves]]`, the leaves are `EscLeaf`s, and what they display as plain text
    (`docAltList`: `Text.content` / `TextSpecial.content` in order, `Props/LinksDoc.lean`) is `m` -/
def ShowsPara (t : Node) (m : List Char) : Prop :=
  t.kind = .blk .root ∧
  ∃ p, t.children = [p] ∧ p.kind = .blk .paragraph ∧ (∀ c ∈ p.children, EscLeaf c) ∧
    docAltList p.children = m

theorem docAlt_leaf (n : Node) (h : n.children = []) : docAlt n = n.kind.ownAlt := by
  obtain ⟨k, r, a, cs⟩ := n
  simp only at h; subst h
  simp [docAlt, docAltList]

theorem ofInlineList_leaves (ns : List Inline.Node) (h : ∀ n ∈ ns, Inline.TS n) :
    (∀ c ∈ ofInlineList ns, EscLeaf c) ∧ docAltList (ofInlineList ns) = Inline.showList ns := by
  induction ns with
  | nil => simp [ofInlineList, docAltList, Inline.showList]
  | cons n r ih =>
    obtain ⟨ih1, ih2⟩ := ih (fun x hx => h x (by simp [hx]))
    obtain ⟨v, rg, cs⟩ := n
    obtain ⟨hc, hv⟩ := h ⟨v, rg, cs⟩ (by simp)
    simp only at hc hv; subst hc
    have hleaf : EscLeaf (ofInline ⟨v, rg, []⟩) := by
      simp only [ofInline, ofInlineList, EscLeaf, true_and]
      rcases hv with ⟨x, rfl⟩ | ⟨ch, rfl⟩
      · exact .inl ⟨x, rfl⟩
      · exact .inr ⟨ch, rfl⟩
    constructor
    · intro c hc
      simp only [ofInlineList, List.mem_cons] at hc
      rcases hc with rfl | hc
      · exact hleaf
      · exact ih1 c hc
    · simp only [ofInlineList, docAltList, ih2]
      rw [docAlt_leaf _ hleaf.1]
      rcases hv with ⟨x, rfl⟩ | ⟨ch, rfl⟩ <;>
        simp [ofInline, Kind.ownAlt, Inline.showList, Inline.showNode]

/-! ## the join pass on such leaves -/

theorem EscLeaf.isText_iff {c : Node} (h : EscLeaf c) : c.isText = true ↔ ∃ x, c.kind = .inl (.text x) := by
  unfold Node.isText
  constructor
  · intro ht
    split at ht
    · exact ⟨_, by assumption⟩
    · cases ht
  · rintro ⟨x, hx⟩; rw [hx]

theorem EscLeaf.markerToText {c : Node} (h : EscLeaf c) : markerToText c = c := by
  unfold Pipeline.markerToText
  rcases h.2 with ⟨x, hx⟩ | ⟨ch, hx⟩ <;> rw [hx]

theorem pass1_leaves (cs : List Node) (h : ∀ c ∈ cs, EscLeaf c) : pass1 cs = cs := by
  unfold pass1
  induction cs with
  | nil => rfl
  | cons c r ih =>
    simp only [List.map_cons, (h c (by simp)).markerToText, ih (fun x hx => h x (by simp [hx]))]

theorem docAlt_text {c : Node} (h : EscLeaf c) (ht : c.isText = true) : docAlt c = c.content := by
  obtain ⟨x, hx⟩ := h.isText_iff.mp ht
  rw [docAlt_leaf c h.1, hx]
  simp [Kind.ownAlt, Node.content, hx]

theorem mergeLoop_leaves (rest : List Node) : ∀ (cur : Node), EscLeaf cur → (∀ c ∈ rest, EscLeaf c) →
    (∀ x ∈ mergeLoop cur rest, EscLeaf x) ∧
      docAltList (mergeLoop cur rest) = docAlt cur ++ docAltList rest := by
  induction rest with
  | nil =>
    intro cur hc _
    simp only [mergeLoop, docAltList, List.mem_singleton, forall_eq, List.append_nil, and_true]
    exact hc
  | cons nxt rest ih =>
    intro cur hc hr
    have hn := hr nxt (by simp)
    have hr' : ∀ c ∈ rest, EscLeaf c := fun c hc => hr c (by simp [hc])
    simp only [mergeLoop]
    split
    · next htt =>
      simp only [Bool.and_eq_true] at htt
      have hm : EscLeaf (merged cur nxt) := ⟨hc.1, .inl ⟨_, rfl⟩⟩
      have he : EscLeaf (emptied nxt) := ⟨hn.1, .inl ⟨_, rfl⟩⟩
      obtain ⟨i1, i2⟩ := ih (merged cur nxt) hm hr'
      constructor
      · intro x hx
        rcases List.mem_cons.mp hx with rfl | hx
        · exact he
        · exact i1 x hx
      · simp only [docAltList, i2]
        rw [docAlt_leaf _ he.1, docAlt_leaf _ hm.1, docAlt_text hc htt.1, docAlt_text hn htt.2]
        simp [emptied, merged, Kind.ownAlt]
    · obtain ⟨i1, i2⟩ := ih nxt hn hr'
      constructor
      · intro x hx
        rcases List.mem_cons.mp hx with rfl | hx
        · exact hc
        · exact i1 x hx
      · simp only [docAltList, i2]

theorem filter_keep_leaves (l : List Node) (h : ∀ c ∈ l, EscLeaf c) :
    docAltList (l.filter keep) = docAltList l := by
  induction l with
  | nil => rfl
  | cons c r ih =>
    have ih := ih (fun x hx => h x (by simp [hx]))
    have hc := h c (by simp)
    simp only [List.filter_cons]
    split
    · simp only [docAltList, ih]
    · next hk =>
      simp only [keep, Bool.not_eq_true, Bool.not_eq_false', Bool.and_eq_true] at hk
      rw [ih]
      simp only [docAltList]
      rw [docAlt_text hc hk.1]
      have : c.content = [] := by simpa using hk.2
      rw [this]; rfl

/-- `fragments_join` on a vector of such leaves: still such leaves, same display -/
theorem fragmentsJoin_leaves (cs : List Node) (h : ∀ c ∈ cs, EscLeaf c) :
    (∀ c ∈ fragmentsJoin cs, EscLeaf c) ∧ docAltList (fragmentsJoin cs) = docAltList cs := by
  unfold fragmentsJoin
  rw [pass1_leaves cs h]
  cases cs with
  | nil => simp [mergeAll]
  | cons c r =>
    obtain ⟨i1, i2⟩ := mergeLoop_leaves r c (h c (by simp)) (fun x hx => h x (by simp [hx]))
    simp only [mergeAll]
    constructor
    · intro x hx; exact i1 x (List.mem_filter.mp hx).1
    · rw [filter_keep_leaves _ i1, i2]; rfl

theorem joinNode_leaf {c : Node} (h : EscLeaf c) : joinNode c = c := by
  rw [joinNode_eq, h.1, fragmentsJoin_nil, joinList_eq_map]
  obtain ⟨k, r, a, cs⟩ := c
  have := h.1
  simp only at this
  subst this
  rfl

theorem joinList_leaves (cs : List Node) (h : ∀ c ∈ cs, EscLeaf c) : joinList cs = cs := by
  rw [joinList_eq_map]
  induction cs with
  | nil => rfl
  | cons c r ih =>
    simp only [List.map_cons, joinNode_leaf (h c (by simp)), ih (fun x hx => h x (by simp [hx]))]

/-- `FragmentsJoin::run` keeps `Root[Paragraph[leaves]]` and what it displays -/
theorem joinNode_showsPara {t : Node} {m : List Char} (h : ShowsPara t m) : ShowsPara (joinNode t) m := by
  obtain ⟨hk, p, hc, hpk, hl, hd⟩ := h
  obtain ⟨i1, i2⟩ := fragmentsJoin_leaves p.children hl
  have hfj : fragmentsJoin [p] = [p] := by
    have h1 : Pipeline.markerToText p = p := by unfold Pipeline.markerToText; rw [hpk]
    have h2 : p.isText = false := by unfold Node.isText; rw [hpk]
    simp [fragmentsJoin, pass1, h1, mergeAll, mergeLoop, keep, h2]
  refine ⟨by rw [joinNode_kind]; exact hk, joinNode p, ?_, by rw [joinNode_kind]; exact hpk, ?_, ?_⟩
  · rw [joinNode_eq, hc, hfj, joinList_eq_map]; rfl
  · rw [joinNode_eq, joinList_leaves _ i1]; exact i1
  · rw [joinNode_eq, joinList_leaves _ i1]; exact i2.trans hd

/-! ## the sourcepos pass on such a tree -/

theorem sourceposList_leaves (src : List Char) (cs : List Node) (h : ∀ c ∈ cs, EscLeaf c) :
    ∃ cs', sourceposList src (SourceMap.mkMarks src) cs = .ok cs' ∧ (∀ c ∈ cs', EscLeaf c) ∧
      docAltList cs' = docAltList cs := by
  induction cs with
  | nil => exact ⟨[], rfl, by simp, rfl⟩
  | cons c r ih =>
    obtain ⟨r', hr, i1, i2⟩ := ih (fun x hx => h x (by simp [hx]))
    obtain ⟨k, rg, a, kids⟩ := c
    obtain ⟨hc, hv⟩ := h ⟨k, rg, a, kids⟩ (by simp)
    simp only at hc hv; subst hc
    simp only [sourceposList, sourceposNode, sourceposAttrs_eq, hr]
    refine ⟨_, rfl, ?_, ?_⟩
    · intro x hx
      rcases List.mem_cons.mp hx with rfl | hx
      · exact ⟨rfl, hv⟩
      · exact i1 x hx
    · simp only [docAltList, i2, docAlt]

theorem sourceposNode_showsPara (src : List Char) {t : Node} {m : List Char} (h : ShowsPara t m) :
    ∃ t', sourceposNode src (SourceMap.mkMarks src) t = .ok t' ∧ ShowsPara t' m := by
  obtain ⟨hk, p, hc, hpk, hl, hd⟩ := h
  obtain ⟨k, rg, a, cs⟩ := t
  obtain ⟨pk, prg, pa, kids⟩ := p
  simp only at hk hc hpk hl hd; subst hk hc hpk
  obtain ⟨kids', hks, i1, i2⟩ := sourceposList_leaves src kids hl
  simp only [sourceposNode, sourceposList, sourceposAttrs_eq, hks]
  exact ⟨_, rfl, rfl, _, rfl, rfl, i1, i2.trans hd⟩

/-! ## the theorem -/

/-- the configurations the round trip holds for (each condition is necessary: examples below) -/
structure RoundTripCfg (cfg : DocCfg) : Prop where
  /-- `md.max_nesting > 0` (with 0 the block tokenizer skips the whole document) -/
  nest : 0 < cfg.maxNesting
  /-- the paragraph rule is in the block chain (any other rules, any order) -/
  para : Block.RuleId.paragraph ∈ cfg.blockChain
  /-- text scanner and escape rule are in the inline chain (any other rules, any order); emphasis
      markers are ASCII punctuation other than `\` -/
  inl : Inline.ChainOK cfg.inlineChain

theorem isSpTab_iff (c : Char) : Inline.isSpTab c = true ↔ (c = ' ' ∨ c = '\t') := by
  simp [Inline.isSpTab]

theorem linesByteLen_eq (l : List Char) : Lines.byteLen l = InlineOps.byteLen l := by
  induction l with
  | nil => rfl
  | cons c t ih => simp [Lines.byteLen, InlineOps.byteLen, ih]

/-- **C12, round trip, whole document (general form).**  `s = w ++ m ++ w'` where `w`, `w'` are runs
    of spaces / tabs, `w` less than 4 columns wide, and `m` is a non-empty text without LF / CR that
    neither starts nor ends with a space or tab.  Then `md.parse` of `s` with a backslash before every
    ASCII punctuation character does not panic and returns `Root[Paragraph[leaves]]` whose leaves —
    `Text` nodes and the `TextSpecial` nodes of the escapes — display exactly `m`. -/
theorem escape_roundtrip_doc_blanks (cfg : DocCfg) (hcfg : RoundTripCfg cfg) (w m w' : List Char)
    (hw : AllBlank w) (hwidth : indentWidth w < 4) (hw' : AllBlank w') (hne : m ≠ [])
    (hh : ∀ c ∈ m.head?, c ≠ ' ' ∧ c ≠ '\t') (hl : ∀ c ∈ m.getLast?, c ≠ ' ' ∧ c ≠ '\t')
    (hnt : NoTerm m) :
    ∃ t, parseDoc cfg (escapeAllPunct (w ++ m ++ w')) = .ok t ∧ ShowsPara t m := by
  have hsrc : escapeAllPunct (w ++ m ++ w') = w ++ (escapeAllPunct m ++ w') := by
    rw [escapeAllPunct_append, escapeAllPunct_append, escapeAllPunct_blank w hw,
      escapeAllPunct_blank w' hw', List.append_assoc]
  have hplain := plain_escaped w m w' hw hwidth hw' hne hh hnt
  have hblock := Block.parseBlocks_one_line cfg.blockCfg hcfg.para hcfg.nest w _ hplain
  have nb : ∀ c : Char, (c ≠ ' ' ∧ c ≠ '\t') → Inline.isSpTab c = false := by
    intro c hc
    cases h : Inline.isSpTab c
    · rfl
    · rcases (isSpTab_iff c).mp h with rfl | rfl
      · exact absurd rfl hc.1
      · exact absurd rfl hc.2
  obtain ⟨ns, hns, hts, hshow⟩ := Inline.parseInline_escaped (cfg := cfg.inlineCfg []) hcfg.inl hcfg.nest
    w m w' [(0, 0)] Inline.wf_single (fun c hc => (isSpTab_iff c).mpr (hw c hc))
    (fun c hc => (isSpTab_iff c).mpr (hw' c hc)) hne (fun c hc => nb c (hh c hc))
    (fun c hc => nb c (hl c hc)) (fun h => (hnt _ h).1 rfl)
  obtain ⟨l1, l2⟩ := ofInlineList_leaves ns hts
  -- the tree behind the splice walk
  have hsplice : spliceNode (cfg.inlineCfg [])
      ⟨.root, some (0, Lines.byteLen (w ++ (escapeAllPunct m ++ w'))),
        [Block.oneParagraph w (escapeAllPunct m ++ w')]⟩ =
      .ok ⟨.blk .root, some (0, Lines.byteLen (w ++ (escapeAllPunct m ++ w'))), [],
        [⟨.blk .paragraph, some (w.length, Lines.byteLen (w ++ (escapeAllPunct m ++ w'))), [],
          ofInlineList ns⟩]⟩ := by
    have hns' : Inline.parseInline (cfg.inlineCfg []) (w ++ (escapeAllPunct m ++ w')) [(0, 0)] = .ok ns := by
      rw [← List.append_assoc]; exact hns
    simp [spliceNode, spliceList, Block.oneParagraph, hns']
  have hshape : ShowsPara ⟨.blk .root, some (0, Lines.byteLen (w ++ (escapeAllPunct m ++ w'))), [],
        [⟨.blk .paragraph, some (w.length, Lines.byteLen (w ++ (escapeAllPunct m ++ w'))), [],
          ofInlineList ns⟩]⟩ m :=
    ⟨rfl, _, rfl, rfl, l1, by rw [l2, hshow]⟩
  unfold parseDoc
  rw [hsrc, hblock]
  simp only [afterBlocks, hsplice]
  by_cases hj : cfg.hasJoin = true
  · have hshape' := joinNode_showsPara hshape
    simp only [hj, if_true]
    by_cases hsp : cfg.sourcepos = true
    · simp only [hsp, if_true]; exact sourceposNode_showsPara _ hshape'
    · simp only [hsp]; exact ⟨_, rfl, hshape'⟩
  · simp only [hj]
    by_cases hsp : cfg.sourcepos = true
    · simp only [hsp, if_true]; exact sourceposNode_showsPara _ hshape
    · simp only [hsp]; exact ⟨_, rfl, hshape⟩

/-- **C12, round trip, whole document.**  For EVERY non-empty string `s` without LF / CR that neither
    starts nor ends with a space or tab (any other character allowed: controls, NUL, non-ASCII,
    interior blanks and tabs): parsing `s` with a backslash before every ASCII punctuation character
    gives one paragraph that displays exactly `s`. -/
theorem escape_roundtrip_doc (cfg : DocCfg) (hcfg : RoundTripCfg cfg) (s : List Char) (hne : s ≠ [])
    (hh : ∀ c ∈ s.head?, c ≠ ' ' ∧ c ≠ '\t') (hl : ∀ c ∈ s.getLast?, c ≠ ' ' ∧ c ≠ '\t')
    (hnt : ∀ c ∈ s, c ≠ '\n' ∧ c ≠ '\r') :
    ∃ t, parseDoc cfg (escapeAllPunct s) = .ok t ∧ ShowsPara t s := by
  have := escape_roundtrip_doc_blanks cfg hcfg [] s [] (by intro c hc; cases hc) (by decide)
    (by intro c hc; cases hc) hne hh hl hnt
  simpa using this

/-! ## examples: the hypotheses are satisfiable; each one is necessary
    (every witness below was run on the real crate: same trees) -/

section Examples

/-- the stock configuration of `Props/Pipeline.lean` (nine block rules, the twelve html-free inline
    rules in stock order, `*` `_` `~` markers) is in the class, with and without `sourcepos` -/
theorem exCfg_roundTrip (sp : Bool) (mn : Nat) (h : 0 < mn) : RoundTripCfg (exCfg sp mn) := by
  refine ⟨h, by simp [exCfg], ⟨by simp [exCfg], by simp [exCfg], ?_⟩⟩
  intro mk csw hm
  simp [exCfg] at hm
  rcases hm with ⟨rfl, _⟩ | ⟨rfl, _⟩ | ⟨rfl, _⟩ <;> decide

/-- a chain in another order, without most rules, is in the class as well -/
example : RoundTripCfg { exCfg true 1 with blockChain := [.paragraph, .list],
                                           inlineChain := [.entity, .escape, .link, .text] } :=
  ⟨by decide, by decide, ⟨by decide, by decide, by intro mk csw hm; simp at hm⟩⟩

/-- `1) #a_*` ↦ `1\) \#a\_\*` -/
example : escapeAllPunct "1) #a_*".toList = "1\\) \\#a\\_\\*".toList := by decide

/-- the theorem on `1) #a_*` (an ordered-list marker, a heading marker, emphasis delimiters) -/
example (sp : Bool) : ∃ t, parseDoc (exCfg sp 100) (escapeAllPunct "1) #a_*".toList) = .ok t ∧
    ShowsPara t "1) #a_*".toList :=
  escape_roundtrip_doc _ (exCfg_roundTrip sp 100 (by decide)) _ (by decide) (by decide) (by decide)
    (by decide)

/-- … and by evaluation: `Root[Paragraph[T X T X T X X]]`, displaying the string -/
example : (parseDoc (exCfg true 100) (escapeAllPunct "1) #a_*".toList)).toOption.map
      (fun t => (tags t, docAlt t)) =
    some ([.root, .p, .T, .X, .T, .X, .T, .X, .X], "1) #a_*".toList) := by decide +kernel

/-- without the escaping the same string is an ordered list -/
example : (parseDoc (exCfg true 100) "1) #a_*".toList).toOption.map tags =
    some [.root, .ol, .li, .T] := by decide +kernel

/-- the general form: two leading blanks, three trailing ones (a tab among them) are trimmed -/
example : ∃ t, parseDoc (exCfg false 100) (escapeAllPunct "  -a\t b \t ".toList) = .ok t ∧
    ShowsPara t "-a\t b".toList :=
  escape_roundtrip_doc_blanks _ (exCfg_roundTrip false 100 (by decide)) "  ".toList "-a\t b".toList
    " \t ".toList (by unfold Lines.AllBlank; decide) (by decide) (by unfold Lines.AllBlank; decide)
    (by decide) (by decide) (by decide) (by unfold Lines.NoTerm; decide)

/-- NECESSARY `0 < max_nesting`: with `max_nesting = 0` the block tokenizer skips the document -/
example : (parseDoc (exCfg false 0) ['a']).toOption.map tags = some [.root] := by decide +kernel

/-- NECESSARY the paragraph rule: without it the tokenizer's fall-back hangs the line PLUS a line feed
    directly under the root: `Root[Text "a", Softbreak]` -/
example : (parseDoc { exCfg false 100 with blockChain := [.code, .hr] } ['a']).toOption.map
      (fun t => (tags t, docAlt t)) = some ([.root, .T, .SB], ['a', '\n']) := by decide +kernel

/-- NECESSARY the escape rule: without it the backslash is displayed -/
example : (parseDoc { exCfg false 100 with inlineChain := [.text, .entity] } ['\\', '*']).toOption.map docAlt =
    some ['\\', '*'] := by decide +kernel

/-- NECESSARY `mk ≠ '\\'` for emphasis-like rules listed before the escape rule: a (custom) pair rule
    with marker `\` takes the backslash.  (That the other markers are ASCII punctuation is what keeps
    them away from unescaped text; it is sufficient, and true of the shipped `*`, `_`, `~`.) -/
example : (parseDoc { exCfg false 100 with inlineChain := [.emph '\\' true, .text, .escape] }
      ['\\', '*']).toOption.map docAlt = some ['\\', '*'] := by decide +kernel

/-- NECESSARY width < 4 of the leading blanks: four spaces, a tab, space + tab give an indented code
    block (nothing is displayed) -/
example : (parseDoc (exCfg false 100) "    a".toList).toOption.map tags = some [.root, .code] ∧
    (parseDoc (exCfg false 100) "\ta".toList).toOption.map tags = some [.root, .code] ∧
    (parseDoc (exCfg false 100) " \ta".toList).toOption.map tags = some [.root, .code] := by
  decide +kernel

/-- NECESSARY no blanks at the ends (for displaying `s` itself): they are trimmed -/
example : (parseDoc (exCfg false 100) "   a \t".toList).toOption.map (fun t => (tags t, docAlt t)) =
    some ([.root, .p, .T], ['a']) := by decide +kernel

/-- NECESSARY `s ≠ []` / not all blank: no paragraph at all -/
example : (parseDoc (exCfg false 100) []).toOption.map tags = some [.root] ∧
    (parseDoc (exCfg false 100) "  ".toList).toOption.map tags = some [.root] := by decide +kernel

/-- NECESSARY no CR: a lone CR is a line ending — two lines, displayed with a LF between them -/
example : (parseDoc (exCfg false 100) "a\rb".toList).toOption.map (fun t => (tags t, docAlt t)) =
    some ([.root, .p, .T, .SB, .T], "a\nb".toList) := by decide +kernel

/-- NOT excluded: NUL, DEL, vertical tab / form feed, U+00A0 and U+2028 at the ends, a 10-digit number
    followed by a dot (no list marker: more than 9 digits — and the dot is escaped anyway) -/
example : ∃ t, parseDoc (exCfg true 100)
      (escapeAllPunct [Char.ofNat 0, Char.ofNat 0x2028, '1', '2', '3', '4', '5', '6', '7', '8', '9', '0', '.',
        Char.ofNat 0x7f, Char.ofNat 0xb, Char.ofNat 0xa0]) = .ok t ∧
    ShowsPara t [Char.ofNat 0, Char.ofNat 0x2028, '1', '2', '3', '4', '5', '6', '7', '8', '9', '0', '.',
        Char.ofNat 0x7f, Char.ofNat 0xb, Char.ofNat 0xa0] :=
  escape_roundtrip_doc _ (exCfg_roundTrip true 100 (by decide)) _ (by decide) (by decide) (by decide)
    (by decide)

end Examples

end MdIt.Pipeline
