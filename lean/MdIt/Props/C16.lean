/-
  C16 — Look-ahead never contradicts, alters or replaces real parsing.

  FULL STATEMENT (composition target; DESIGN.md §9 C16): for every shipped rule and every
  contract-conforming custom rule, in every context in which look-ahead is used, a look-ahead success
  at a position is reproduced by the real call there with the same extent, look-ahead leaves the tree
  untouched, and a custom block rule is invoked for real at every line it claimed.
  OPEN: `silent_implies_real_<rule>` for the block rules and for link/autolink/entity/escape/newline
  needs their rule models (Layer 2); covered today by the dual-run probe and the claims cross-check of
  the hook over all generators (testing), and for the code-span rule by the theorems below.

  PROVED HERE (`_partial`):
   * the code-span rule (the one shipped rule whose look-ahead and real verdicts can interact through a
     shared cache): `codepair_silent_real` — from the same cache and arguments both modes give the same
     verdict, extent and cache, unconditionally; `cache_transparent` / `runSeq_transparent` — for ANY
     interleaving of look-ahead and real calls with ANY `pos_max` values that do not cut a backtick run,
     every answer equals the answer of the cache-free rule, i.e. an earlier look-ahead can never change
     what real parsing does; `inside_hit`; and the three negation witnesses for the pre-fix code.
   * the callers of the block look-ahead entry point (`test_rules_at_line`): after the look-ahead the
     current line is what it was before, whatever the custom rule did to it in look-ahead mode
     (`callers_restore_line`), hence look-ahead style A (advance the line, as the shipped Ferris example)
     and style B (leave it) are indistinguishable to every caller (`style_irrelevant`); negation witness
     for the pre-fix list caller.
-/
import MdIt.Props.CodePair

namespace MdIt.C16

/-- A contract-conforming custom block rule seen through look-ahead: does its construct start at a
line, and how many lines does it span. -/
structure Rule where
  claims : Nat → Bool
  extent : Nat → Nat

/-- the two look-ahead styles the contract permits -/
inductive Style where
  | advance   -- style A: `state.line += extent` also in look-ahead mode (examples/ferris/block_rule.rs)
  | keep      -- style B: leave `state.line` alone
  deriving DecidableEq

/-- a look-ahead call of one rule at `line`: verdict and the value it leaves in `state.line` -/
def silentCall (r : Rule) (st : Style) (line : Nat) : Bool × Nat :=
  if r.claims line then
    (true, match st with | .advance => line + r.extent line | .keep => line)
  else (false, line)

/-- `BlockState::test_rules_at_line`: the first rule that claims the line wins; `state.line` is whatever
that rule left (rules that fail leave it alone) -/
def testRulesAtLine : List (Rule × Style) → Nat → Bool × Nat
  | [], line => (false, line)
  | (r, st) :: rest, line =>
    match silentCall r st line with
    | (true, l) => (true, l)
    | (false, _) => testRulesAtLine rest line

/-- paragraph.rs, lheading.rs, reference.rs and (since 07357ef) list.rs:
`let old = state.line; state.line = next_line; let t = test_rules_at_line(); state.line = old;` -/
def callerRestoring (rules : List (Rule × Style)) (stateLine nextLine : Nat) : Bool × Nat :=
  let old := stateLine
  let (t, _) := testRulesAtLine rules nextLine
  (t, old)

/-- blockquote.rs: `state.line = next_line; test_rules_at_line()` inside the scan loop, and after the
loop unconditionally `state.line = start_line` -/
def callerQuote (rules : List (Rule × Style)) (startLine nextLine : Nat) : Bool × Nat :=
  let (t, _) := testRulesAtLine rules nextLine
  (t, startLine)

/-- list.rs before 07357ef: no restore -/
def callerListPinned (rules : List (Rule × Style)) (nextLine : Nat) : Bool × Nat :=
  testRulesAtLine rules nextLine

/-- the verdict of the look-ahead does not depend on the style of any rule -/
theorem verdict_style_irrelevant (rules : List (Rule × Style)) (f : Style → Style) (line : Nat) :
    (testRulesAtLine (rules.map (fun p => (p.1, f p.2))) line).1 = (testRulesAtLine rules line).1 := by
  induction rules with
  | nil => rfl
  | cons p rest ih =>
    obtain ⟨r, st⟩ := p
    simp only [List.map_cons, testRulesAtLine, silentCall]
    by_cases h : r.claims line = true
    · simp [h]
    · simp [h, ih]

/-- **C16 (callers).** Every restoring caller leaves `state.line` exactly where it was, for every rule
set, every style and every line. -/
theorem callers_restore_line (rules : List (Rule × Style)) (stateLine nextLine : Nat) :
    (callerRestoring rules stateLine nextLine).2 = stateLine := rfl

theorem quote_restores_line (rules : List (Rule × Style)) (startLine nextLine : Nat) :
    (callerQuote rules startLine nextLine).2 = startLine := rfl

/-- **C16 (styles).** What a caller observes (verdict, resulting line) is the same whichever permitted
look-ahead style each custom rule uses: a line claimed in look-ahead is therefore parsed for real from
the same state as with a style-B rule, and no source line is skipped. -/
theorem style_irrelevant (rules : List (Rule × Style)) (f : Style → Style) (stateLine nextLine : Nat) :
    callerRestoring (rules.map (fun p => (p.1, f p.2))) stateLine nextLine
      = callerRestoring rules stateLine nextLine := by
  have h := verdict_style_irrelevant rules f nextLine
  simp only [callerRestoring]
  rw [show (testRulesAtLine (rules.map (fun p => (p.1, f p.2))) nextLine)
        = ((testRulesAtLine (rules.map (fun p => (p.1, f p.2))) nextLine).1,
           (testRulesAtLine (rules.map (fun p => (p.1, f p.2))) nextLine).2) from rfl,
      show (testRulesAtLine rules nextLine)
        = ((testRulesAtLine rules nextLine).1, (testRulesAtLine rules nextLine).2) from rfl]
  simp [h]

theorem style_irrelevant_quote (rules : List (Rule × Style)) (f : Style → Style) (startLine nextLine : Nat) :
    callerQuote (rules.map (fun p => (p.1, f p.2))) startLine nextLine
      = callerQuote rules startLine nextLine := by
  have h := verdict_style_irrelevant rules f nextLine
  simp only [callerQuote]
  rw [show (testRulesAtLine (rules.map (fun p => (p.1, f p.2))) nextLine)
        = ((testRulesAtLine (rules.map (fun p => (p.1, f p.2))) nextLine).1,
           (testRulesAtLine (rules.map (fun p => (p.1, f p.2))) nextLine).2) from rfl,
      show (testRulesAtLine rules nextLine)
        = ((testRulesAtLine rules nextLine).1, (testRulesAtLine rules nextLine).2) from rfl]
  simp [h]

/-- a rule for `@@@` lines (claims line 1, one line long) — the witness used by the oracle -/
def atRule : Rule := { claims := fun l => l == 1, extent := fun _ => 1 }

/-- Negation witness for the pre-fix list caller: with a style-A rule the list's look-ahead leaves the
current line advanced past the claimed line (so the block at line 1 is lost), with style B it does not. -/
theorem pinned_list_caller_style_dependent :
    callerListPinned [(atRule, .advance)] 1 = (true, 2) ∧
    callerListPinned [(atRule, .keep)] 1 = (true, 1) := by decide

/-- non-vacuity: a rule set where the second rule claims the line -/
example : callerRestoring [({ claims := fun _ => false, extent := fun _ => 1 }, .advance), (atRule, .advance)] 0 1
    = (true, 0) := by decide

end MdIt.C16
