/-
  Emphasis nesting is limited by `max_nesting` (the `fix:` in `src/generics/inline/emph_pair.rs`):
  `scan_and_match_delimiters` keeps `inner_depth` — the deepest emphasis nesting among the nodes after
  `idx` — and stops matching an opener when `state.level + inner_depth >= state.md.max_nesting`.

  `wrapDepth` (`Model/Inline.lean`) is the `EmphDepth` a node carries: `Em` / `Strong` /
  `Strikethrough` nodes = 1 + the deepest value among their children, every other node 0.

  Everything is proved once for an abstract node invariant `Q room n` (`room` = `max_nesting - level`
  of the tokenizer that owns the node) with the closure properties `GoodQ`; the induction
  (`depth_induction`) has the shape of `Lemmas/InlineVals2.vals_induction` (partial correctness: any
  fuel, arbitrary states).  Instances:

    * `Q room n := wrapDepth n ≤ room`                       (a) `matchOuter_depth`, `scanAndMatch_depth`,
                                                             (b) `ruleEmph_depth`, `tokLoop_depth`
    * `Q room n := every node below n has wrapDepth ≤ room`  (c) `inline_emph_depth_bounded`
    * `Q room n := wrapDepth n ≤ room ∧ treeDepth n ≤ wrapDepth n + baseBound room`
                                                             (e) `inline_tree_depth_bounded`:
        `treeDepth n ≤ 1 + M (M + 3) / 2` for `M = max_nesting` — links and images nest through
        `level` (at most `M` of them on a path), the wrappers between two of them through
        `wrapDepth` (at most `M - level`), so the bound is quadratic in `M`, and it is reached.

  The loop invariant of the delimiter matching (`matchInner_q`, `matchOuter_q`): every sibling
  satisfies `Q room`, `wrapDepthList (children.drop (idx + 1)) ≤ innerDepth` (`inner_depth` is an upper
  bound for the nodes after `idx`), and — while the opener has delimiters left — the node at `idx`
  is not a wrapper (it is the opener token: `replace(opener)` rewrites a marker, never a wrapper
  that would have taken its index).  A wrapper is made only when `innerDepth < room` and gets
  `wrapDepth = wrapDepthList tail + 1 ≤ innerDepth + 1 ≤ room`.
-/
import MdIt.Props.Inline

namespace MdIt.EmphDepth
open MdIt.Inline
open MdIt.InlineOps (Srcmap getSourcePosFor getMap byteLen slice)

/-! ## `wrapDepth`, tree depth -/

/-- `Em` / `Strong` / `Strikethrough` -/
def isWrapVal : Val → Bool
  | .wrap _ _ => true
  | _ => false

theorem wrapDepth_eq (n : Node) :
    wrapDepth n = if isWrapVal n.val then wrapDepthList n.children + 1 else 0 := by
  obtain ⟨v, r, cs⟩ := n
  cases v <;> simp [wrapDepth, isWrapVal]

theorem wrapDepth_notWrap {n : Node} (h : isWrapVal n.val = false) : wrapDepth n = 0 := by
  rw [wrapDepth_eq, h]; rfl

theorem wrapDepth_congr {n n' : Node} (hv : isWrapVal n'.val = isWrapVal n.val)
    (hc : n'.children = n.children) : wrapDepth n' = wrapDepth n := by
  rw [wrapDepth_eq, wrapDepth_eq, hv, hc]

theorem wrapDepthList_le_iff (B : Nat) (cs : List Node) :
    wrapDepthList cs ≤ B ↔ ∀ c ∈ cs, wrapDepth c ≤ B := by
  induction cs with
  | nil => simp [wrapDepthList]
  | cons c cs ih => simp [wrapDepthList, Nat.max_le, ih]

theorem wrapDepth_le_of_mem {c : Node} {cs : List Node} (h : c ∈ cs) : wrapDepth c ≤ wrapDepthList cs :=
  (wrapDepthList_le_iff _ cs).mp (Nat.le_refl _) c h

mutual
/-- height of the tree below a node (a leaf has 1) -/
def treeDepth : Node → Nat
  | ⟨_, _, cs⟩ => treeDepthList cs + 1
def treeDepthList : List Node → Nat
  | [] => 0
  | c :: cs => max (treeDepth c) (treeDepthList cs)
end

theorem treeDepth_eq (n : Node) : treeDepth n = treeDepthList n.children + 1 := by
  cases n; simp [treeDepth]

theorem treeDepthList_le_iff (B : Nat) (cs : List Node) :
    treeDepthList cs ≤ B ↔ ∀ c ∈ cs, treeDepth c ≤ B := by
  induction cs with
  | nil => simp [treeDepthList]
  | cons c cs ih => simp [treeDepthList, Nat.max_le, ih]

mutual
/-- `p` holds of the node and of every node below it -/
def AllNodes (p : Node → Prop) : Node → Prop
  | ⟨v, r, cs⟩ => p ⟨v, r, cs⟩ ∧ AllNodesList p cs
def AllNodesList (p : Node → Prop) : List Node → Prop
  | [] => True
  | c :: cs => AllNodes p c ∧ AllNodesList p cs
end

theorem AllNodes_eq (p : Node → Prop) (n : Node) : AllNodes p n ↔ p n ∧ AllNodesList p n.children := by
  cases n; simp [AllNodes]

theorem allNodesList_iff (p : Node → Prop) (l : List Node) :
    AllNodesList p l ↔ ∀ n ∈ l, AllNodes p n := by
  induction l with
  | nil => simp [AllNodesList]
  | cons c cs ih => simp [AllNodesList, ih]

/-! ## the abstract invariant -/

/-- closure properties of a node invariant `Q room n` that the tokenizer maintains for the nodes it
    pushes at `room = max_nesting - level` -/
structure GoodQ (Q : Nat → Node → Prop) : Prop where
  /-- `Q` sees a node through "is it a wrapper" and its children only -/
  congr : ∀ r (n n' : Node), isWrapVal n'.val = isWrapVal n.val → n'.children = n.children →
    Q r n → Q r n'
  /-- text, breaks, escapes, entities, markers -/
  leaf : ∀ r v rg, isWrapVal v = false → Q r (Node.leaf v rg)
  /-- code spans and autolinks (made below the nesting limit only) -/
  nested : ∀ r v rg c rg', isWrapVal v = false → 1 ≤ r → Q r ⟨v, rg, [Node.newText c rg']⟩
  /-- the wrapper `scan_and_match_delimiters` makes around `tail` when `inner_depth < room` -/
  wrap : ∀ r w mk rg tail inner, (∀ c ∈ tail, Q r c) → wrapDepthList tail ≤ inner → inner < r →
    Q r ⟨.wrap w mk, rg, tail⟩
  /-- a link / image around what the tokenizer one level deeper has pushed -/
  link : ∀ r v rg cs, isWrapVal v = false → (∀ c ∈ cs, Q r c) → Q (r + 1) ⟨v, rg, cs⟩

/-- every sibling satisfies `Q r` -/
def LQ (Q : Nat → Node → Prop) (r : Nat) (cs : List Node) : Prop := ∀ c ∈ cs, Q r c

section lq
variable {Q : Nat → Node → Prop} {r : Nat}

theorem LQ.nil : LQ Q r [] := fun _ h => by simp at h

theorem LQ.append {a b : List Node} (ha : LQ Q r a) (hb : LQ Q r b) : LQ Q r (a ++ b) := by
  intro c hc
  rcases List.mem_append.mp hc with h | h
  · exact ha c h
  · exact hb c h

theorem LQ.left {a b : List Node} (h : LQ Q r (a ++ b)) : LQ Q r a :=
  fun c hc => h c (List.mem_append_left _ hc)

theorem LQ.right {a b : List Node} (h : LQ Q r (a ++ b)) : LQ Q r b :=
  fun c hc => h c (List.mem_append_right _ hc)

theorem LQ.single {n : Node} (h : Q r n) : LQ Q r [n] := by
  intro c hc; simp only [List.mem_singleton] at hc; subst hc; exact h

theorem LQ.last {a : List Node} {n : Node} (h : LQ Q r (a ++ [n])) : Q r n := h n (by simp)

theorem LQ.take {l : List Node} (h : LQ Q r l) (k : Nat) : LQ Q r (l.take k) :=
  fun c hc => h c (List.mem_of_mem_take hc)

theorem LQ.drop {l : List Node} (h : LQ Q r l) (k : Nat) : LQ Q r (l.drop k) :=
  fun c hc => h c (List.mem_of_mem_drop hc)

theorem LQ.set {l : List Node} (h : LQ Q r l) (k : Nat) {x : Node} (hx : Q r x) : LQ Q r (l.set k x) := by
  intro c hc
  rcases List.mem_or_eq_of_mem_set hc with h' | h'
  · exact h c h'
  · rw [h']; exact hx

theorem LQ.getElem? {l : List Node} (h : LQ Q r l) {k : Nat} {x : Node} (hx : l[k]? = some x) : Q r x :=
  h x (List.mem_of_getElem? hx)

end lq

theorem isText_notWrap {n : Node} (h : n.isText = true) : isWrapVal n.val = false := by
  unfold Node.isText at h
  split at h
  · next hv => rw [hv]; rfl
  · simp at h

theorem asMarker_notWrap {n : Node} {m : Marker} (h : n.asMarker = some m) : isWrapVal n.val = false := by
  rw [asMarker_val h]; rfl

theorem toVal_notWrap (m : Marker) : isWrapVal m.toVal = false := rfl

/-- a text node whose content / range is rewritten -/
theorem GoodQ.retext {Q : Nat → Node → Prop} (g : GoodQ Q) {r : Nat} {n : Node} (ht : n.isText = true)
    (h : Q r n) (c : List Char) (rg : Option (Nat × Nat)) : Q r { n with val := .text c, range := rg } :=
  g.congr r n _ (by rw [isText_notWrap ht]; rfl) rfl h

/-! ## trailing text -/

section rules
variable {Q : Nat → Node → Prop} (g : GoodQ Q) {r : Nat}
include g

theorem trailingTextPush_q {src : List Char} {m : Srcmap} {cs out : List Node} {a b : Nat}
    (h : trailingTextPush src m cs a b = .ok out) (hc : LQ Q r cs) : LQ Q r out := by
  have hfresh : ∀ out, (match liftOps (slice src a b) with
      | .error e => (.error e : Except RPanic (List Node))
      | .ok piece =>
        match liftOps (getMap m a b) with
        | .error e => .error e
        | .ok r => .ok (cs ++ [Node.newText piece (some r)])) = .ok out → LQ Q r out := by
    intro out h
    split at h
    · simp at h
    · split at h
      · simp at h
      · simp only [Except.ok.injEq] at h; subst h
        exact hc.append (LQ.single (g.leaf r _ _ rfl))
  unfold trailingTextPush at h
  simp only at h
  rcases popLast_spec cs with ⟨hp, _⟩ | ⟨init, last, hp, hcs⟩
  · rw [hp] at h; exact hfresh out h
  · rw [hp] at h
    simp only at h
    subst hcs
    have hlast : Q r last := hc.last
    split at h
    · next ht =>
      split at h
      · simp at h
      · split at h
        · simp only [Except.ok.injEq] at h; subst h
          exact hc.left.append (LQ.single (g.retext ht hlast _ _))
        · split at h
          · simp at h
          · simp only [Except.ok.injEq] at h; subst h
            exact hc.left.append (LQ.single (g.retext ht hlast _ _))
    · exact hfresh out h

theorem pushText_q {st st' : IState} {a b : Nat} (h : st.pushText a b = .ok st')
    (hc : LQ Q r st.children) : LQ Q r st'.children := by
  obtain ⟨cs, hcs, rfl⟩ := pushText_eq h
  exact trailingTextPush_q g hcs hc

theorem trailingTextPop_q {cs out : List Node} {count : Nat}
    (h : trailingTextPop cs count = .ok out) (hc : LQ Q r cs) : LQ Q r out := by
  unfold trailingTextPop at h
  split at h
  · simp only [Except.ok.injEq] at h; subst h; exact hc
  · rcases popLast_spec cs with ⟨hp, _⟩ | ⟨init, last, hp, hcs⟩
    · rw [hp] at h; simp at h
    · rw [hp] at h
      simp only at h
      subst hcs
      have hlast : Q r last := hc.last
      split at h
      · simp at h
      · next ht =>
        have ht : last.isText = true := by simpa using ht
        split at h
        · simp only [Except.ok.injEq] at h; subst h; exact hc.left
        · split at h
          · simp at h
          · split at h
            · simp at h
            · split at h
              · simp only [Except.ok.injEq] at h; subst h
                exact hc.left.append (LQ.single (g.retext ht hlast _ _))
              · split at h
                · simp at h
                · simp only [Except.ok.injEq] at h; subst h
                  exact hc.left.append (LQ.single (g.retext ht hlast _ _))

/-! ## the rules without look-ahead recursion -/

theorem ruleText_q {st st' : IState} {silent : Bool} {o : Option Nat}
    (h : ruleText st silent = .ok (o, st')) (hc : LQ Q r st.children) : LQ Q r st'.children := by
  unfold ruleText at h
  split at h
  · simp at h
  · simp only at h
    split at h
    · simp only [Except.ok.injEq, Prod.mk.injEq] at h; rw [← h.2]; exact hc
    · split at h
      · simp only [Except.ok.injEq, Prod.mk.injEq] at h; rw [← h.2]; exact hc
      · split at h
        · simp at h
        · next st2 hp =>
          simp only [Except.ok.injEq, Prod.mk.injEq] at h; rw [← h.2]
          exact pushText_q g hp hc

theorem ruleNewline_q {st st' : IState} {silent : Bool} {o : Option Nat}
    (h : ruleNewline st silent = .ok (o, st')) (hc : LQ Q r st.children) : LQ Q r st'.children := by
  unfold ruleNewline at h
  split at h
  · simp at h
  · simp at h
  · split at h
    · simp only [Except.ok.injEq, Prod.mk.injEq] at h; rw [← h.2]; exact hc
    · simp only at h
      split at h
      · simp only [Except.ok.injEq, Prod.mk.injEq] at h; rw [← h.2]; exact hc
      · split at h
        · simp at h
        · next cs hpop =>
          split at h
          · simp at h
          · split at h
            · simp at h
            · simp only [Except.ok.injEq, Prod.mk.injEq] at h; rw [← h.2]
              refine (trailingTextPop_q g hpop hc).append (LQ.single (g.leaf r _ _ ?_))
              split <;> rfl

theorem ruleEscape_q {st st' : IState} {silent : Bool} {o : Option Nat}
    (h : ruleEscape st silent = .ok (o, st')) (hc : LQ Q r st.children) : LQ Q r st'.children := by
  unfold ruleEscape at h
  split at h
  · simp at h
  · split at h
    · simp at h
    · simp only [Except.ok.injEq, Prod.mk.injEq] at h; rw [← h.2]; exact hc
    · split at h
      · simp only [Except.ok.injEq, Prod.mk.injEq] at h; rw [← h.2]; exact hc
      · split at h
        · simp at h
        · simp only [Except.ok.injEq, Prod.mk.injEq] at h; rw [← h.2]
          exact hc.append (LQ.single (g.leaf r _ _ rfl))
    · simp only at h
      split at h
      · simp only [Except.ok.injEq, Prod.mk.injEq] at h; rw [← h.2]; exact hc
      · split at h
        · simp at h
        · simp only [Except.ok.injEq, Prod.mk.injEq] at h; rw [← h.2]
          exact hc.append (LQ.single (g.leaf r _ _ rfl))

theorem ruleEntity_q {cfg : Cfg} {st st' : IState} {silent : Bool} {o : Option Nat}
    (h : ruleEntity cfg st silent = .ok (o, st')) (hc : LQ Q r st.children) : LQ Q r st'.children := by
  unfold ruleEntity at h
  split at h
  · simp at h
  · split at h
    · simp at h
    · split at h
      · simp only [Except.ok.injEq, Prod.mk.injEq] at h; rw [← h.2]; exact hc
      · split at h
        · simp at h
        · split at h
          · simp at h
          · simp only [Except.ok.injEq, Prod.mk.injEq] at h; rw [← h.2]; exact hc
          · simp only at h
            split at h
            · simp only [Except.ok.injEq, Prod.mk.injEq] at h; rw [← h.2]; exact hc
            · split at h
              · simp at h
              · simp only [Except.ok.injEq, Prod.mk.injEq] at h; rw [← h.2]
                exact hc.append (LQ.single (g.leaf r _ _ rfl))

theorem ruleBackticks_q (hr : 1 ≤ r) {st st' : IState} {silent : Bool} {o : Option Nat}
    (h : ruleBackticks st silent = .ok (o, st')) (hc : LQ Q r st.children) : LQ Q r st'.children := by
  unfold ruleBackticks at h
  split at h
  · simp at h
  · simp only [Except.ok.injEq, Prod.mk.injEq] at h; rw [← h.2]; exact hc
  · split at h
    · simp only [Except.ok.injEq, Prod.mk.injEq] at h; rw [← h.2]; exact hc
    · split at h
      · simp at h
      · split at h
        · simp at h
        · simp only [Except.ok.injEq, Prod.mk.injEq] at h; rw [← h.2]
          exact hc.append (LQ.single (g.nested r _ _ _ _ rfl hr))

theorem ruleAutolink_q (hr : 1 ≤ r) {st st' : IState} {silent : Bool} {o : Option Nat}
    (h : ruleAutolink st silent = .ok (o, st')) (hc : LQ Q r st.children) : LQ Q r st'.children := by
  unfold ruleAutolink at h
  split at h
  · simp at h
  · simp at h
  · split at h
    · simp only [Except.ok.injEq, Prod.mk.injEq] at h; rw [← h.2]; exact hc
    · split at h
      · simp only [Except.ok.injEq, Prod.mk.injEq] at h; rw [← h.2]; exact hc
      · split at h
        · simp at h
        · simp only at h
          split at h
          · simp only [Except.ok.injEq, Prod.mk.injEq] at h; rw [← h.2]; exact hc
          · split at h
            · simp only [Except.ok.injEq, Prod.mk.injEq] at h; rw [← h.2]; exact hc
            · split at h
              · simp only [Except.ok.injEq, Prod.mk.injEq] at h; rw [← h.2]; exact hc
              · split at h
                · simp at h
                · split at h
                  · simp at h
                  · simp only [Except.ok.injEq, Prod.mk.injEq] at h; rw [← h.2]
                    exact hc.append (LQ.single (g.nested r _ _ _ _ rfl hr))

/-! ## delimiter matching -/

/-- while the opener has delimiters left, the node at `idx` is not a wrapper (it is the opener token) -/
def OpenerAt (cs : List Node) (idx : Nat) (opener : Marker) : Prop :=
  0 < opener.remaining → ∃ n, cs[idx]? = some n ∧ isWrapVal n.val = false

/-- **the inner loop**: the invariant `LQ Q room children`, `inner_depth` bounds the nodes after
    `idx`, the opener token sits at `idx` -/
theorem matchInner_q (fns : Nat → Option Wrap) (mk : Char) (room idx : Nat) :
    ∀ (fuel : Nat) (opener : Marker) (ms : MatchSt) (opener' : Marker) (ms' : MatchSt),
      matchInner fns mk room idx fuel opener ms = .ok (opener', ms') →
      LQ Q room ms.children → wrapDepthList (ms.children.drop (idx + 1)) ≤ ms.innerDepth →
      OpenerAt ms.children idx opener →
      LQ Q room ms'.children ∧ wrapDepthList (ms'.children.drop (idx + 1)) ≤ ms'.innerDepth ∧
        OpenerAt ms'.children idx opener' := by
  intro fuel
  induction fuel with
  | zero =>
    intro opener ms opener' ms' h hc hd ho
    simp only [matchInner, Except.ok.injEq, Prod.mk.injEq] at h
    obtain ⟨rfl, rfl⟩ := h; exact ⟨hc, hd, ho⟩
  | succ fuel ih =>
    intro opener ms opener' ms' h hc hd ho
    unfold matchInner at h
    split at h
    · next hpos =>
      split at h
      · simp only [Except.ok.injEq, Prod.mk.injEq] at h
        obtain ⟨rfl, rfl⟩ := h; exact ⟨hc, hd, ho⟩
      next hroom =>
      have hroom : ms.innerDepth < room := by omega
      simp only at h
      split at h
      · simp only [Except.ok.injEq, Prod.mk.injEq] at h
        obtain ⟨rfl, rfl⟩ := h; exact ⟨hc, hd, ho⟩
      · next ml w hpick =>
        split at h
        · simp at h
        · split at h
          · simp at h
          · next hlen =>
            split at h
            · simp at h
            · next init otok hpop =>
              have hhead : ms.children.take (idx + 1) = init ++ [otok] := by
                rcases popLast_spec (ms.children.take (idx + 1)) with ⟨hp, _⟩ | ⟨i, l, hp, hl⟩
                · rw [hp] at hpop; simp at hpop
                · rw [hp] at hpop; simp only [Option.some.injEq, Prod.mk.injEq] at hpop
                  rw [hl, hpop.1, hpop.2]
              have hinitlen : init.length = idx := by
                have := congrArg List.length hhead
                simp only [List.length_take, List.length_append, List.length_singleton] at this
                omega
              have hheadOK : LQ Q room (init ++ [otok]) := by rw [← hhead]; exact hc.take _
              -- the node at `idx` is the last of the head: the opener token
              have hotokAt : ms.children[idx]? = some otok := by
                have : (ms.children.take (idx + 1))[idx]? = some otok := by
                  rw [hhead, ← hinitlen]; simp
                rw [List.getElem?_take] at this
                simpa using this
              have hotokNW : isWrapVal otok.val = false := by
                obtain ⟨n, hn, hnw⟩ := ho hpos.2
                rw [hotokAt] at hn; simp only [Option.some.injEq] at hn; subst hn; exact hnw
              split at h
              · simp at h
              · next otok' smp hcut =>
                have hotok' : otok'.val = otok.val ∧ otok'.children = otok.children := by
                  split at hcut
                  · split at hcut
                    · simp at hcut
                    · simp only [Except.ok.injEq, Prod.mk.injEq] at hcut
                      rw [← hcut.1]; exact ⟨rfl, rfl⟩
                  · simp only [Except.ok.injEq, Prod.mk.injEq] at hcut
                    rw [← hcut.1]; exact ⟨rfl, rfl⟩
                have hotok'Q : Q room otok' :=
                  g.congr room otok otok' (by rw [hotok'.1]) hotok'.2 hheadOK.last
                -- the wrapper
                have hnewQ : ∀ rg, Q room ⟨.wrap w mk, rg, ms.children.drop (idx + 1)⟩ :=
                  fun rg => g.wrap room w mk rg _ ms.innerDepth (hc.drop _) hd hroom
                have hnewD : ∀ rg, wrapDepth ⟨.wrap w mk, rg, ms.children.drop (idx + 1)⟩ ≤
                    ms.innerDepth + 1 := by
                  intro rg
                  rw [wrapDepth_eq]; simp only [isWrapVal, if_true]; omega
                refine ih _ _ _ _ h ?_ ?_ ?_
                · simp only
                  refine LQ.append ?_ (LQ.single (hnewQ _))
                  split
                  · exact hheadOK.left
                  · exact hheadOK.left.append (LQ.single hotok'Q)
                · simp only
                  split
                  · rw [List.drop_of_length_le (by simp only [List.length_append, List.length_singleton]; omega)]
                    simp [wrapDepthList]
                  · rw [List.drop_left' (by simp only [List.length_append, List.length_singleton]; omega)]
                    simp only [wrapDepthList, Nat.max_zero]
                    exact hnewD _
                · intro hrem
                  simp only at hrem ⊢
                  rw [if_neg (by omega)]
                  refine ⟨otok', ?_, by rw [hotok'.1]; exact hotokNW⟩
                  rw [← hinitlen]; simp
    · simp only [Except.ok.injEq, Prod.mk.injEq] at h
      obtain ⟨rfl, rfl⟩ := h; exact ⟨hc, hd, ho⟩

/-- **the outer loop**: `matchOuter .. k ms` is entered with `idx = minIdx + k`; `inner_depth` bounds
    the nodes after `idx` -/
theorem matchOuter_q (fns : Nat → Option Wrap) (mk : Char) (room minIdx : Nat) :
    ∀ (k : Nat) (ms ms' : MatchSt), matchOuter fns mk room minIdx k ms = .ok ms' →
      LQ Q room ms.children → wrapDepthList (ms.children.drop (minIdx + k + 1)) ≤ ms.innerDepth →
      LQ Q room ms'.children := by
  intro k
  induction k with
  | zero =>
    intro ms ms' h hc _
    simp only [matchOuter, Except.ok.injEq] at h; subst h; exact hc
  | succ k ih =>
    intro ms0 ms' h hc0 hd0
    rw [matchOuter_succ] at h
    split at h
    · simp at h
    next nxt hnxt =>
    -- `inner_depth = max(inner_depth, children[idx + 1].EmphDepth)` bounds the nodes after `idx`
    have hd1 : wrapDepthList (ms0.children.drop (minIdx + k + 1)) ≤
        max ms0.innerDepth (wrapDepth nxt) := by
      have hlt : minIdx + k + 1 < ms0.children.length := by
        rcases Nat.lt_or_ge (minIdx + k + 1) ms0.children.length with h' | h'
        · exact h'
        · rw [List.getElem?_eq_none h'] at hnxt; simp at hnxt
      rw [List.getElem?_eq_getElem hlt] at hnxt
      simp only [Option.some.injEq] at hnxt
      rw [List.drop_eq_getElem_cons hlt, hnxt]
      simp only [wrapDepthList]
      have : minIdx + (k + 1) + 1 = minIdx + k + 1 + 1 := by omega
      rw [this] at hd0
      omega
    generalize hmsdef : ({ ms0 with innerDepth := max ms0.innerDepth (wrapDepth nxt) } : MatchSt) = ms at h
    have hc : LQ Q room ms.children := by rw [← hmsdef]; exact hc0
    have hd : wrapDepthList (ms.children.drop (minIdx + k + 1)) ≤ ms.innerDepth := by
      rw [← hmsdef]; exact hd1
    clear hmsdef hd1 hd0 hc0 hnxt
    unfold matchOuterBody at h
    split at h
    · simp at h
    · next tok htok =>
      split at h
      · exact ih _ _ h hc hd
      · next opener hop =>
        simp only at h
        split at h
        · simp at h
        · next opener' ms1 hgo =>
          have hgo' : LQ Q room ms1.children ∧
              wrapDepthList (ms1.children.drop (minIdx + k + 1)) ≤ ms1.innerDepth ∧
              OpenerAt ms1.children (minIdx + k) opener' := by
            have ho : OpenerAt ms.children (minIdx + k) opener :=
              fun _ => ⟨tok, htok, asMarker_notWrap hop⟩
            split at hgo
            · exact matchInner_q g fns mk room _ _ _ _ _ _ hgo hc hd ho
            · simp only [Except.ok.injEq, Prod.mk.injEq] at hgo
              obtain ⟨rfl, rfl⟩ := hgo; exact ⟨hc, hd, ho⟩
          obtain ⟨hc1, hd1, ho1⟩ := hgo'
          split at h
          · next hrem =>
            split at h
            · simp at h
            · next cs hrep =>
              unfold replaceAt at hrep
              split at hrep
              · simp at hrep
              · next n hn =>
                simp only [Except.ok.injEq] at hrep; subst hrep
                obtain ⟨n', hn', hnw⟩ := ho1 hrem
                rw [hn] at hn'; simp only [Option.some.injEq] at hn'; subst hn'
                refine ih _ _ h ?_ ?_
                · exact hc1.set _ (g.congr room n _ (by rw [hnw]; rfl) rfl (hc1.getElem? hn))
                · simp only
                  rw [List.drop_set_of_lt (by omega)]
                  exact hd1
          · exact ih _ _ h hc1 hd1

/-- `scan_and_match_delimiters` keeps the invariant -/
theorem scanAndMatch_q {fns : Nat → Option Wrap} {mk : Char} {room : Nat} {cs out : List Node}
    {b b' : List (Char × List Nat)} (h : scanAndMatch fns mk room cs b = .ok (out, b'))
    (hc : LQ Q room cs) : LQ Q room out := by
  unfold scanAndMatch at h
  split at h
  · simp only [Except.ok.injEq, Prod.mk.injEq] at h; rw [← h.1]; exact hc
  · split at h
    · simp at h
    · next init closerTok hpop =>
      have hcs : cs = init ++ [closerTok] := by
        rcases popLast_spec cs with ⟨hp, _⟩ | ⟨i, l, hp, hl⟩
        · rw [hp] at hpop; simp at hpop
        · rw [hp] at hpop; simp only [Option.some.injEq, Prod.mk.injEq] at hpop
          rw [hl, hpop.1, hpop.2]
      subst hcs
      split at h
      · simp at h
      · next closer hcl =>
        simp only at h
        split at h
        · simp at h
        · next minIdx _ =>
          split at h
          · simp at h
          · split at h
            · simp at h
            · next ms hms =>
              have hok := matchOuter_q g fns mk room minIdx _ _ _ hms hc.left (by
                simp only
                rw [List.drop_of_length_le (by omega)]
                simp [wrapDepthList])
              split at h
              · simp only [Except.ok.injEq, Prod.mk.injEq] at h; rw [← h.1]
                refine hok.append (LQ.single ?_)
                exact g.congr room closerTok _ (by rw [asMarker_notWrap hcl]; rfl) rfl hc.last
              · simp only [Except.ok.injEq, Prod.mk.injEq] at h; rw [← h.1]; exact hok

/-- the emphasis-marker rule keeps the invariant at `room = max_nesting - level` -/
theorem ruleEmph_q {cfg : Cfg} {mk : Char} {csw : Bool} {st st' : IState} {silent : Bool}
    {o : Option Nat} (h : ruleEmph cfg mk csw st silent = .ok (o, st'))
    (hc : LQ Q (cfg.maxNesting - st.level) st.children) :
    LQ Q (cfg.maxNesting - st.level) st'.children := by
  unfold ruleEmph at h
  split at h
  · simp only [Except.ok.injEq, Prod.mk.injEq] at h; rw [← h.2]; exact hc
  · split at h
    · simp at h
    · simp at h
    · split at h
      · simp only [Except.ok.injEq, Prod.mk.injEq] at h; rw [← h.2]; exact hc
      · split at h
        · simp at h
        · next scanned hsc =>
          split at h
          · simp at h
          · next rg hr =>
            have hpush : LQ Q (cfg.maxNesting - st.level) (st.push (Node.leaf (.emphMarker mk
                scanned.length scanned.length scanned.canOpen scanned.canClose) (some rg))).children :=
              hc.append (LQ.single (g.leaf _ _ _ rfl))
            simp only at h
            split at h
            · split at h
              · simp at h
              · next cs b hsm =>
                simp only [Except.ok.injEq, Prod.mk.injEq] at h; rw [← h.2]
                exact scanAndMatch_q g hsm hpush
            · simp only [Except.ok.injEq, Prod.mk.injEq] at h; rw [← h.2]; exact hpush

/-! ## links, the chain, the loops -/

/-- `tok` keeps `level` and the invariant at its own level -/
def TokQ (Q : Nat → Node → Prop) (cfg : Cfg) (tok : IState → Except Panic IState) : Prop :=
  ∀ s s', tok s = .ok s' → LQ Q (cfg.maxNesting - s.level) s.children →
    s'.level = s.level ∧ LQ Q (cfg.maxNesting - s.level) s'.children

/-- what one step maintains, for a fixed level `l` -/
def StQ (Q : Nat → Node → Prop) (cfg : Cfg) (l : Nat) (s : IState) : Prop :=
  s.level = l ∧ LQ Q (cfg.maxNesting - l) s.children

omit g in
theorem StQ.of_calm {cfg : Cfg} {l : Nat} {s s' : IState} (q : Calm s s') (h : StQ Q cfg l s) :
    StQ Q cfg l s' :=
  ⟨q.level.trans h.1, by rw [q.children]; exact h.2⟩

omit g in
theorem StQ.of_simple {cfg : Cfg} {l : Nat} {s s' : IState} {silent : Bool} {o : Option Nat}
    (q : Simple s silent o s') (h : StQ Q cfg l s) (hc : LQ Q (cfg.maxNesting - l) s'.children) :
    StQ Q cfg l s' :=
  ⟨q.frame.level.trans h.1, hc⟩

theorem linkRule_q {cfg : Cfg} {skip tok : IState → Except Panic IState} (hq : CalmFn skip)
    (ht : TokQ Q cfg tok) {fuel : Nat} {mkv : List Nat → Option (List Char) → Val}
    (hmk : ∀ u t, isWrapVal (mkv u t) = false) {en : Bool} {offset l : Nat} {st : IState} {silent : Bool}
    {o : Option Nat} {st' : IState}
    (h : linkRule cfg skip tok fuel mkv en offset st silent = .ok (o, st'))
    (hl : l < cfg.maxNesting) (hc : StQ Q cfg l st) : StQ Q cfg l st' := by
  unfold linkRule at h
  simp only at h
  split at h
  · simp at h
  · next st1 hpl =>
    simp only [Except.ok.injEq, Prod.mk.injEq] at h; rw [← h.2]
    exact hc.of_calm (parseLink_calm hq hpl)
  · next res st1 hpl =>
    have q := parseLink_calm hq hpl
    have hc1 : StQ Q cfg l st1 := hc.of_calm q
    split at h
    · split at h
      · simp at h
      · simp only [Except.ok.injEq, Prod.mk.injEq] at h; rw [← h.2]; exact hc1
    · split at h
      · simp at h
      · next st3 htok =>
        obtain ⟨hl3, hc3⟩ := ht _ _ htok LQ.nil
        simp only at hl3 hc3
        split at h
        · simp at h
        · split at h
          · simp at h
          · split at h
            · simp at h
            · simp only [Except.ok.injEq, Prod.mk.injEq] at h; rw [← h.2]
              refine ⟨?_, ?_⟩
              · simp only; rw [hl3, hc1.1]; omega
              · simp only
                refine hc1.2.append (LQ.single ?_)
                have e : cfg.maxNesting - l = (cfg.maxNesting - (st1.level + 1)) + 1 := by
                  rw [hc1.1]; omega
                rw [e]
                exact g.link _ _ _ _ (hmk _ _) hc3

theorem runRule_q {cfg : Cfg} {skip tok : IState → Except Panic IState} (hq : CalmFn skip)
    (ht : TokQ Q cfg tok) {fuel : Nat} {id : RuleId} {l : Nat} {st : IState} {silent : Bool}
    {o : Option Nat} {st' : IState}
    (h : runRule cfg skip tok fuel id st silent = .ok (o, st'))
    (hl : l < cfg.maxNesting) (hc : StQ Q cfg l st) : StQ Q cfg l st' := by
  have hr : 1 ≤ cfg.maxNesting - l := by omega
  unfold runRule at h
  cases id with
  | text =>
    have h' := liftR_ok.mp h
    exact hc.of_simple (ruleText_simple h') (ruleText_q g h' hc.2)
  | newline =>
    have h' := liftR_ok.mp h
    exact hc.of_simple (ruleNewline_simple h') (ruleNewline_q g h' hc.2)
  | escape =>
    have h' := liftR_ok.mp h
    exact hc.of_simple (ruleEscape_simple h') (ruleEscape_q g h' hc.2)
  | backticks =>
    have h' := liftR_ok.mp h
    exact hc.of_simple (ruleBackticks_simple h') (ruleBackticks_q g hr h' hc.2)
  | emph mk csw =>
    have h' := liftR_ok.mp h
    refine hc.of_simple (ruleEmph_simple h') ?_
    have := ruleEmph_q g h' (by rw [hc.1]; exact hc.2)
    rw [hc.1] at this; exact this
  | link =>
    simp only at h
    unfold ruleLink at h
    split at h
    · simp at h
    · simp at h
    · split at h
      · simp only [Except.ok.injEq, Prod.mk.injEq] at h; rw [← h.2]; exact hc
      · exact linkRule_q g hq ht (fun _ _ => rfl) h hl hc
  | image =>
    simp only at h
    unfold ruleImage at h
    split at h
    · simp at h
    · exact linkRule_q g hq ht (fun _ _ => rfl) h hl hc
    · simp only [Except.ok.injEq, Prod.mk.injEq] at h; rw [← h.2]; exact hc
  | linkEnd =>
    simp only [Except.ok.injEq, Prod.mk.injEq] at h; rw [← h.2]; exact hc
  | autolink =>
    have h' := liftR_ok.mp h
    exact hc.of_simple (ruleAutolink_simple h') (ruleAutolink_q g hr h' hc.2)
  | entity =>
    have h' := liftR_ok.mp h
    exact hc.of_simple (ruleEntity_simple h') (ruleEntity_q g h' hc.2)

omit g in
theorem firstRule_inv {I : IState → Prop} {run : RuleId → IState → RuleRes} (rules : List RuleId)
    (hrun : ∀ id s o s', run id s = .ok (o, s') → I s → I s') :
    ∀ (st : IState) (o : Option Nat) (st' : IState), firstRule run rules st = .ok (o, st') →
      I st → I st' := by
  induction rules with
  | nil =>
    intro st o st' h hc
    simp only [firstRule, Except.ok.injEq, Prod.mk.injEq] at h; rw [← h.2]; exact hc
  | cons r rs ih =>
    intro st o st' h hc
    unfold firstRule at h
    split at h
    · simp at h
    · next n st1 hr =>
      simp only [Except.ok.injEq, Prod.mk.injEq] at h; rw [← h.2]
      exact hrun _ _ _ _ hr hc
    · next st1 hr => exact ih _ _ _ h (hrun _ _ _ _ hr hc)

theorem tokStep_q {cfg : Cfg} {skip tok : IState → Except Panic IState} (hq : CalmFn skip)
    (ht : TokQ Q cfg tok) {fuel : Nat} {l : Nat} {st st' : IState}
    (h : tokStep cfg skip tok fuel st = .ok st') (hc : StQ Q cfg l st) : StQ Q cfg l st' := by
  unfold tokStep at h
  simp only at h
  have hfirst : ∀ o st1, (if st.level < cfg.maxNesting then
        firstRule (fun id s => runRule cfg skip tok fuel id s false) cfg.chain st
      else .ok (none, st)) = .ok (o, st1) → StQ Q cfg l st1 := by
    intro o st1 hok
    split at hok
    · next hlt =>
      exact firstRule_inv cfg.chain
        (fun id s o s' hr hcs => runRule_q g hq ht hr (by rw [← hc.1]; exact hlt) hcs) _ _ _ hok hc
    · simp only [Except.ok.injEq, Prod.mk.injEq] at hok; rw [← hok.2]; exact hc
  split at h
  · simp at h
  · next len st1 hok =>
    simp only [Except.ok.injEq] at h; rw [← h]
    exact (hfirst _ _ hok : StQ Q cfg l st1)
  · next st1 hok =>
    have hc1 := hfirst _ _ hok
    split at h
    · simp at h
    · split at h
      · simp at h
      · next st2 hp =>
        simp only [Except.ok.injEq] at h; rw [← h]
        have hp' := liftR_ok.mp hp
        obtain ⟨cs, _, hst2⟩ := pushText_eq hp'
        refine ⟨?_, (pushText_q g hp' hc1.2 : LQ Q _ st2.children)⟩
        simp only; rw [hst2]; exact hc1.1

/-- **The invariant through the whole tokenizer** (partial correctness, any fuel, any state):
    `tokenize` entered at `level = l` returns at `level = l`, and if every node it finds satisfies
    `Q (max_nesting - l)` then so does every node it leaves. -/
theorem depth_induction (cfg : Cfg) : ∀ (fuel e : Nat) (st st' : IState),
    tokLoop cfg fuel e st = .ok st' → LQ Q (cfg.maxNesting - st.level) st.children →
    st'.level = st.level ∧ LQ Q (cfg.maxNesting - st.level) st'.children := by
  intro fuel
  induction fuel with
  | zero =>
    intro e st st' h hc
    unfold tokLoop at h
    split at h
    · simp at h
    · simp only [Except.ok.injEq] at h; rw [← h]; exact ⟨rfl, hc⟩
  | succ f ih =>
    have ht : TokQ Q cfg (fun s => tokLoop cfg f s.posMax s) := fun s s' h hc => ih _ _ _ h hc
    intro e st st' h hc
    unfold tokLoop at h
    split at h
    · simp only at h
      split at h
      · simp at h
      · next st1 hstep =>
        obtain ⟨hl1, hc1⟩ := tokStep_q g (skipToken_calm cfg f) ht hstep ⟨rfl, hc⟩
        obtain ⟨hl2, hc2⟩ := ih _ _ _ h (by rw [hl1]; exact hc1)
        exact ⟨hl2.trans hl1, by rw [hl1] at hc2; exact hc2⟩
    · simp only [Except.ok.injEq] at h; rw [← h]; exact ⟨rfl, hc⟩

/-- the invariant of an inline parse: every top-level node satisfies `Q max_nesting` -/
theorem parseInline_q {cfg : Cfg} {content : List Char} {mapping : Srcmap} {cs : List Node}
    (h : parseInline cfg content mapping = .ok cs) : LQ Q cfg.maxNesting cs := by
  unfold parseInline tokenize at h
  split at h
  · simp at h
  · next st hst =>
    simp only [Except.ok.injEq] at h; subst h
    have := (depth_induction g cfg _ _ _ _ hst LQ.nil).2
    simpa [IState.init] using this

end rules

/-! ## (a), (b): `wrapDepth ≤ room` -/

/-- the invariant "`EmphDepth ≤ room`" -/
def QW (r : Nat) (n : Node) : Prop := wrapDepth n ≤ r

theorem goodQ_QW : GoodQ QW where
  congr := by
    intro r n n' hv hc h
    unfold QW at *; rw [wrapDepth_congr hv hc]; exact h
  leaf := by
    intro r v rg hv
    unfold QW; rw [wrapDepth_notWrap (by exact hv)]; omega
  nested := by
    intro r v rg c rg' hv _
    unfold QW; rw [wrapDepth_notWrap (by exact hv)]; omega
  wrap := by
    intro r w mk rg tail inner _ hd hlt
    unfold QW; rw [wrapDepth_eq]; simp only [isWrapVal, if_true]; omega
  link := by
    intro r v rg cs hv _
    unfold QW; rw [wrapDepth_notWrap (by exact hv)]; omega

/-- (a) **the outer loop of `scan_and_match_delimiters`**, entered with `idx = minIdx + k` and an
    `inner_depth` that bounds the `EmphDepth` of the nodes after `idx`: if every sibling has
    `EmphDepth ≤ room` (`room` = `max_nesting - level`), every sibling it leaves has. -/
theorem matchOuter_depth {fns : Nat → Option Wrap} {mk : Char} {room minIdx k : Nat} {ms ms' : MatchSt}
    (h : matchOuter fns mk room minIdx k ms = .ok ms')
    (hc : ∀ n ∈ ms.children, wrapDepth n ≤ room)
    (hd : wrapDepthList (ms.children.drop (minIdx + k + 1)) ≤ ms.innerDepth) :
    ∀ n ∈ ms'.children, wrapDepth n ≤ room :=
  matchOuter_q goodQ_QW fns mk room minIdx k ms ms' h hc hd

/-- (a) **`scan_and_match_delimiters` never nests emphasis deeper than `room`** -/
theorem scanAndMatch_depth {fns : Nat → Option Wrap} {mk : Char} {room : Nat} {cs out : List Node}
    {b b' : List (Char × List Nat)} (h : scanAndMatch fns mk room cs b = .ok (out, b'))
    (hc : ∀ n ∈ cs, wrapDepth n ≤ room) : ∀ n ∈ out, wrapDepth n ≤ room :=
  scanAndMatch_q goodQ_QW h hc

/-- (b) **the emphasis-marker rule** at nesting level `state.level` -/
theorem ruleEmph_depth {cfg : Cfg} {mk : Char} {csw : Bool} {st st' : IState} {silent : Bool}
    {o : Option Nat} (h : ruleEmph cfg mk csw st silent = .ok (o, st'))
    (hc : ∀ n ∈ st.children, wrapDepth n ≤ cfg.maxNesting - st.level) :
    ∀ n ∈ st'.children, wrapDepth n ≤ cfg.maxNesting - st.level :=
  ruleEmph_q goodQ_QW h hc

/-- (b) **`InlineParser::tokenize` at nesting level `l`** (any fuel, any state): it returns at the
    level it was entered with, and every node it leaves has `EmphDepth ≤ max_nesting - l` if the
    nodes it found had. -/
theorem tokenize_depth {cfg : Cfg} {fuel : Nat} {st st' : IState}
    (h : tokenize cfg fuel st = .ok st')
    (hc : ∀ n ∈ st.children, wrapDepth n ≤ cfg.maxNesting - st.level) :
    st'.level = st.level ∧ ∀ n ∈ st'.children, wrapDepth n ≤ cfg.maxNesting - st.level :=
  depth_induction goodQ_QW cfg fuel _ st st' h hc

/-! ## (c): every node of every inline parse result -/

mutual
theorem AllNodes.mono {p q : Node → Prop} (hpq : ∀ n, p n → q n) : ∀ n, AllNodes p n → AllNodes q n
  | ⟨v, r, cs⟩, h => by
    simp only [AllNodes] at h ⊢
    exact ⟨hpq _ h.1, AllNodesList.mono hpq cs h.2⟩
theorem AllNodesList.mono {p q : Node → Prop} (hpq : ∀ n, p n → q n) :
    ∀ l, AllNodesList p l → AllNodesList q l
  | [], _ => by simp only [AllNodesList]
  | c :: cs, h => by
    simp only [AllNodesList] at h ⊢
    exact ⟨AllNodes.mono hpq c h.1, AllNodesList.mono hpq cs h.2⟩
end

/-- the invariant "`EmphDepth ≤ room` for the node and everything below it" -/
def QA (r : Nat) (n : Node) : Prop := AllNodes (fun m => wrapDepth m ≤ r) n

theorem goodQ_QA : GoodQ QA where
  congr := by
    intro r n n' hv hc h
    unfold QA at *
    rw [AllNodes_eq] at h ⊢
    rw [wrapDepth_congr hv hc, hc]; exact h
  leaf := by
    intro r v rg hv
    unfold QA; rw [AllNodes_eq]
    refine ⟨?_, by simp only [Node.leaf, AllNodesList]⟩
    rw [wrapDepth_notWrap (by exact hv)]; omega
  nested := by
    intro r v rg c rg' hv _
    unfold QA; rw [AllNodes_eq]
    refine ⟨by rw [wrapDepth_notWrap (by exact hv)]; omega, ?_⟩
    simp only [AllNodesList, Node.newText, AllNodes, and_true]
    rw [wrapDepth_notWrap rfl]; omega
  wrap := by
    intro r w mk rg tail inner ht hd hlt
    unfold QA at *; rw [AllNodes_eq]
    refine ⟨?_, (allNodesList_iff _ _).mpr ht⟩
    rw [wrapDepth_eq]; simp only [isWrapVal, if_true]; omega
  link := by
    intro r v rg cs hv hcs
    unfold QA at *; rw [AllNodes_eq]
    refine ⟨by rw [wrapDepth_notWrap (by exact hv)]; omega, (allNodesList_iff _ _).mpr ?_⟩
    intro c hc
    exact AllNodes.mono (fun n hn => Nat.le_succ_of_le hn) c (hcs c hc)

/-- (c) **Emphasis nesting is bounded by `max_nesting`**: in every result of the inline parser,
    every node — at any depth, inside link labels and image descriptions too — has
    `EmphDepth ≤ max_nesting`, i.e. no chain of directly nested `Em` / `Strong` / `Strikethrough`
    nodes is longer than `max_nesting`. -/
theorem inline_emph_depth_bounded {cfg : Cfg} {content : List Char} {mapping : Srcmap} {cs : List Node}
    (h : parseInline cfg content mapping = .ok cs) :
    ∀ n ∈ cs, AllNodes (fun m => wrapDepth m ≤ cfg.maxNesting) n :=
  parseInline_q goodQ_QA h

/-- (c), top level only -/
theorem parseInline_depth {cfg : Cfg} {content : List Char} {mapping : Srcmap} {cs : List Node}
    (h : parseInline cfg content mapping = .ok cs) : ∀ n ∈ cs, wrapDepth n ≤ cfg.maxNesting :=
  parseInline_q goodQ_QW h

/-! ## (e): the height of an inline tree -/

/-- height bound of a node that is not a wrapper, pushed at `room`: `1 + room (room + 1) / 2` -/
def baseBound : Nat → Nat
  | 0 => 1
  | r + 1 => baseBound r + r + 1

/-- height bound of any node pushed at `room` -/
def depthBound (r : Nat) : Nat := r + baseBound r

theorem baseBound_pos (r : Nat) : 1 ≤ baseBound r := by
  induction r with
  | zero => simp [baseBound]
  | succ r ih => simp only [baseBound]; omega

theorem baseBound_ge_two {r : Nat} (h : 1 ≤ r) : 2 ≤ baseBound r := by
  cases r with
  | zero => omega
  | succ r => have := baseBound_pos r; simp only [baseBound]; omega

/-- `baseBound r = 1 + r (r + 1) / 2` -/
theorem baseBound_closed (r : Nat) : 2 * baseBound r = r * r + r + 2 := by
  induction r with
  | zero => simp [baseBound]
  | succ r ih =>
    simp only [baseBound, Nat.mul_add, Nat.add_mul, Nat.mul_one, Nat.one_mul]
    omega

/-- `depthBound r = 1 + r (r + 3) / 2` -/
theorem depthBound_closed (r : Nat) : 2 * depthBound r = r * r + 3 * r + 2 := by
  have := baseBound_closed r
  unfold depthBound; omega

/-- the invariant "`EmphDepth ≤ room`, and the height exceeds `EmphDepth` by at most `baseBound room`" -/
def QT (r : Nat) (n : Node) : Prop := wrapDepth n ≤ r ∧ treeDepth n ≤ wrapDepth n + baseBound r

theorem goodQ_QT : GoodQ QT where
  congr := by
    intro r n n' hv hc h
    unfold QT at *
    rw [wrapDepth_congr hv hc, treeDepth_eq, hc, ← treeDepth_eq]; exact h
  leaf := by
    intro r v rg hv
    have := baseBound_pos r
    unfold QT; rw [wrapDepth_notWrap (by exact hv), treeDepth_eq]
    simp only [Node.leaf, treeDepthList]; omega
  nested := by
    intro r v rg c rg' hv hr
    have := baseBound_ge_two hr
    unfold QT; rw [wrapDepth_notWrap (by exact hv), treeDepth_eq]
    simp only [treeDepthList, Node.newText, treeDepth]; omega
  wrap := by
    intro r w mk rg tail inner ht hd hlt
    unfold QT at *
    have hwd : wrapDepth ⟨.wrap w mk, rg, tail⟩ = wrapDepthList tail + 1 := by
      rw [wrapDepth_eq]; simp only [isWrapVal, if_true]
    have htd : treeDepthList tail ≤ wrapDepthList tail + baseBound r := by
      rw [treeDepthList_le_iff]
      intro c hc
      have := (ht c hc).2
      have := wrapDepth_le_of_mem hc
      omega
    rw [hwd, treeDepth_eq]; simp only; omega
  link := by
    intro r v rg cs hv hcs
    unfold QT at *
    have htd : treeDepthList cs ≤ r + baseBound r := by
      rw [treeDepthList_le_iff]
      intro c hc
      have := hcs c hc
      omega
    rw [wrapDepth_notWrap (by exact hv), treeDepth_eq]
    simp only [baseBound]; omega

/-- (e) **The height of an inline tree is bounded by a function of `max_nesting` alone**: every node
    of a result of the inline parser has height at most `depthBound M = 1 + M (M + 3) / 2` for
    `M = max_nesting` — at most `M` links / images on a path (they nest through `level`), between the
    one at level `l - 1` and the one at level `l` at most `M - l` emphasis wrappers, and a text (or a
    code span / autolink with its text) at the end.  The bound is reached (example below). -/
theorem inline_tree_depth_bounded {cfg : Cfg} {content : List Char} {mapping : Srcmap} {cs : List Node}
    (h : parseInline cfg content mapping = .ok cs) :
    ∀ n ∈ cs, treeDepth n ≤ depthBound cfg.maxNesting := by
  intro n hn
  have := parseInline_q goodQ_QT h n hn
  unfold QT at this; unfold depthBound; omega

/-- (e) at nesting level `l`: what `tokenize` pushes at level `l` has height at most
    `depthBound (max_nesting - l)` -/
theorem tokenize_tree_depth {cfg : Cfg} {fuel : Nat} {st st' : IState}
    (h : tokenize cfg fuel st = .ok st') (hc : st.children = []) :
    ∀ n ∈ st'.children, treeDepth n ≤ depthBound (cfg.maxNesting - st.level) := by
  intro n hn
  have := (depth_induction goodQ_QT cfg fuel _ st st' h (by rw [hc]; exact LQ.nil)).2 n hn
  unfold QT at this; unfold depthBound; omega

/-! ## the post pass (`FragmentsJoin`): the final inline tree

  `fragments_join` turns the left-over markers into text, merges adjacent texts and drops the empty
  ones, at every level of the tree: no node gets new children, no node changes between "wrapper"
  and "not a wrapper" — so neither `EmphDepth` nor the height grows. -/

/-- the maximum of a measure over siblings -/
def maxOver (m : Node → Nat) : List Node → Nat
  | [] => 0
  | c :: cs => max (m c) (maxOver m cs)

theorem maxOver_le_iff (m : Node → Nat) (B : Nat) (cs : List Node) :
    maxOver m cs ≤ B ↔ ∀ c ∈ cs, m c ≤ B := by
  induction cs with
  | nil => simp [maxOver]
  | cons c cs ih => simp [maxOver, Nat.max_le, ih]

theorem maxOver_mono {m : Node → Nat} {a b : List Node} (h : ∀ c ∈ a, m c ≤ maxOver m b) :
    maxOver m a ≤ maxOver m b := (maxOver_le_iff m _ a).mpr h

theorem le_maxOver_of_mem {m : Node → Nat} {c : Node} {cs : List Node} (h : c ∈ cs) : m c ≤ maxOver m cs :=
  (maxOver_le_iff m _ cs).mp (Nat.le_refl _) c h

theorem wrapDepthList_eq_maxOver (cs : List Node) : wrapDepthList cs = maxOver wrapDepth cs := by
  induction cs with
  | nil => rfl
  | cons c cs ih => simp only [wrapDepthList, maxOver, ih]

theorem treeDepthList_eq_maxOver (cs : List Node) : treeDepthList cs = maxOver treeDepth cs := by
  induction cs with
  | nil => rfl
  | cons c cs ih => simp only [treeDepthList, maxOver, ih]

/-- a measure that sees a node through "is it a wrapper" and the maximum over its children,
    monotonically -/
structure Meas (m : Node → Nat) (F : Bool → Nat → Nat) : Prop where
  eq : ∀ n, m n = F (isWrapVal n.val) (maxOver m n.children)
  mono : ∀ b x y, x ≤ y → F b x ≤ F b y

theorem meas_wrapDepth : Meas wrapDepth (fun b x => if b then x + 1 else 0) where
  eq := by intro n; rw [wrapDepth_eq, wrapDepthList_eq_maxOver]
  mono := by intro b x y h; cases b <;> simp; omega

theorem meas_treeDepth : Meas treeDepth (fun _ x => x + 1) where
  eq := by intro n; rw [treeDepth_eq, treeDepthList_eq_maxOver]
  mono := by intro b x y h; omega

section join
variable {m : Node → Nat} {F : Bool → Nat → Nat} (hm : Meas m F)
include hm

theorem Meas.congr {n n' : Node} (hv : isWrapVal n'.val = isWrapVal n.val)
    (hc : n'.children = n.children) : m n' = m n := by
  rw [hm.eq, hm.eq, hv, hc]

theorem Meas.markerToText (c : Node) : m (markerToText c) = m c := by
  unfold Inline.markerToText
  split
  · next hv => exact hm.congr (by simp only [hv]; rfl) rfl
  · rfl

theorem Meas.pass1 (cs : List Node) : maxOver m (pass1 cs) = maxOver m cs := by
  induction cs with
  | nil => rfl
  | cons c cs ih =>
    simp only [Inline.pass1, List.map_cons, maxOver] at ih ⊢
    rw [hm.markerToText, ih]

theorem Meas.mergeLoop (cur : Node) (rest : List Node) :
    maxOver m (mergeLoop cur rest) ≤ max (m cur) (maxOver m rest) := by
  induction rest generalizing cur with
  | nil => simp [Inline.mergeLoop, maxOver]
  | cons nxt rest ih =>
    simp only [Inline.mergeLoop]
    split
    · next ht =>
      simp only [Bool.and_eq_true] at ht
      have e1 : m (emptied nxt) = m nxt :=
        hm.congr (by rw [isText_notWrap ht.2]; rfl) rfl
      have e2 : m (merged cur nxt) = m cur :=
        hm.congr (by rw [isText_notWrap ht.1]; rfl) rfl
      have := ih (merged cur nxt)
      simp only [maxOver, e1]
      rw [e2] at this
      omega
    · have := ih nxt
      simp only [maxOver]
      omega

omit hm in
theorem maxOver_filter_le (m : Node → Nat) (p : Node → Bool) (l : List Node) :
    maxOver m (l.filter p) ≤ maxOver m l :=
  maxOver_mono (fun _ hc => le_maxOver_of_mem (List.mem_filter.mp hc).1)

theorem Meas.fragmentsJoinN (cs : List Node) : maxOver m (fragmentsJoinN cs) ≤ maxOver m cs := by
  unfold Inline.fragmentsJoinN
  refine Nat.le_trans (maxOver_filter_le m _ _) ?_
  rw [← hm.pass1 cs]
  cases Inline.pass1 cs with
  | nil => simp [mergeAll]
  | cons c r =>
    simp only [mergeAll, maxOver]
    exact hm.mergeLoop c r

/-- the walk does not increase the measure of any node -/
theorem Meas.joinNodeN_le : ∀ (k : Nat) (n : Node), nsize n ≤ k → m (joinNodeN n) ≤ m n := by
  intro k
  induction k with
  | zero => intro n hn; rw [nsize_eq] at hn; omega
  | succ k ih =>
    intro n hn
    rw [hm.eq (joinNodeN n), hm.eq n, joinNodeN_val, joinNodeN_children]
    apply hm.mono
    refine Nat.le_trans ?_ (hm.fragmentsJoinN n.children)
    rw [joinListN_eq_map]
    rw [maxOver_le_iff]
    intro c hc
    obtain ⟨c0, hc0, rfl⟩ := List.mem_map.mp hc
    refine Nat.le_trans (ih c0 ?_) (le_maxOver_of_mem hc0)
    have h1 := nsize_le_of_mem hc0
    have h2 := nsizeList_fragmentsJoinN_le n.children
    rw [nsize_eq] at hn
    omega

theorem Meas.finish_le (cfg : Cfg) (cs : List Node) : maxOver m (finish cfg cs) ≤ maxOver m cs := by
  unfold finish
  split
  · unfold joinAllN
    rw [joinNodeN_children]
    simp only [rootOf]
    refine Nat.le_trans ?_ (hm.fragmentsJoinN cs)
    rw [joinListN_eq_map, maxOver_le_iff]
    intro c hc
    obtain ⟨c0, hc0, rfl⟩ := List.mem_map.mp hc
    exact Nat.le_trans (hm.joinNodeN_le _ c0 (Nat.le_refl _)) (le_maxOver_of_mem hc0)
  · exact Nat.le_refl _

end join

/-- **The final inline tree** (`md.inline.parse` followed by `FragmentsJoin`): every top-level node
    has `EmphDepth ≤ max_nesting` and height `≤ depthBound max_nesting = 1 + M (M + 3) / 2`. -/
theorem finish_depth_bounded {cfg : Cfg} {content : List Char} {mapping : Srcmap} {cs : List Node}
    (h : parseFinish cfg content mapping = .ok cs) :
    ∀ n ∈ cs, wrapDepth n ≤ cfg.maxNesting ∧ treeDepth n ≤ depthBound cfg.maxNesting := by
  unfold parseFinish at h
  split at h
  · simp at h
  · next cs0 h0 =>
    simp only [Except.ok.injEq] at h; subst h
    have hw : maxOver wrapDepth cs0 ≤ cfg.maxNesting :=
      (maxOver_le_iff _ _ _).mpr (parseInline_depth h0)
    have ht : maxOver treeDepth cs0 ≤ depthBound cfg.maxNesting :=
      (maxOver_le_iff _ _ _).mpr (inline_tree_depth_bounded h0)
    intro n hn
    exact ⟨Nat.le_trans (le_maxOver_of_mem hn) (Nat.le_trans (meas_wrapDepth.finish_le cfg cs0) hw),
      Nat.le_trans (le_maxOver_of_mem hn) (Nat.le_trans (meas_treeDepth.finish_le cfg cs0) ht)⟩

/-! ## examples -/

/-- `EmphDepth` of the top-level nodes of a result -/
def depths (r : Except Panic (List Node)) : List Nat :=
  match r with
  | .ok cs => cs.map wrapDepth
  | .error _ => []

/-- height of the top-level nodes of a result -/
def heights (r : Except Panic (List Node)) : List Nat :=
  match r with
  | .ok cs => cs.map treeDepth
  | .error _ => []

-- (d) the bound is reached exactly: with `max_nesting = 2` the two inner pairs of
-- `*a *b *c* b* a*` become `Em` nodes (`EmphDepth` 2), the outermost pair stays literal …
example : vals (parseInline (exCfg 2) "*a *b *c* b* a*".toList [(0, 0)]) =
      .ok [.emphMarker '*' 1 1 true false, .text "a ".toList, .wrap .em '*', .text " a".toList,
           .emphMarker '*' 1 1 false true] ∧
    depths (parseInline (exCfg 2) "*a *b *c* b* a*".toList [(0, 0)]) = [0, 0, 2, 0, 0] ∧
    vals (parseFinish (exCfg 2) "*a *b *c* b* a*".toList [(0, 0)]) =
      .ok [.text "*a ".toList, .wrap .em '*', .text " a*".toList] := by
  decide +kernel
-- … with `max_nesting = 3` all three pairs match, with `max_nesting = 1` only the innermost one
example : depths (parseInline (exCfg 3) "*a *b *c* b* a*".toList [(0, 0)]) = [3] ∧
    depths (parseInline (exCfg 1) "*a *b *c* b* a*".toList [(0, 0)]) = [0, 0, 0, 0, 1, 0, 0, 0, 0] := by
  decide +kernel
-- inside a link label (level 1) one pair less fits: `room = max_nesting - level`
example : (match parseInline (exCfg 2) "[*a *b* a*](u)".toList [(0, 0)] with
    | .ok [n] => (n.val, n.children.map (·.val), n.children.map wrapDepth)
    | _ => (.softbreak, [], [])) =
    (.link [117] none,
     [.emphMarker '*' 1 1 true false, .text "a ".toList, .wrap .em '*', .text " a".toList,
      .emphMarker '*' 1 1 false true], [0, 0, 1, 0, 0]) := by
  decide +kernel
-- (e) `depthBound 2 = 6` is reached: `Em ⊃ Em ⊃ Image ⊃ Em ⊃ Link ⊃ Text`
example : depthBound 2 = 6 ∧
    heights (parseInline (exCfg 2) "*a *b ![*c [t](u) c*](i) b* a*".toList [(0, 0)]) = [6] := by
  decide +kernel
-- `depthBound` for the default `max_nesting = 100`
example : depthBound 100 = 5151 := by decide +kernel

end MdIt.EmphDepth
