/-
  C10 at whole-document level WITH the sourcepos plugin (`cfg.sourcepos = true`): the HTML including
  the `data-sourcepos="l:c-l:c"` attributes under the three rewritings of the line endings.

      doc_cr_invariant_sp             '\r' ∉ src →  renderDoc x cfg (lfToCr src) = renderDoc x cfg src
                                      NO further hypothesis; `doc_cr_invariant_all`: every `cfg`.
      doc_final_newline_invariant_sp  src does not end with LF / CR, and every node of the tree of `src`
                                      that RENDERS its attributes has its range inside `src`
                                      (`Inside`: start `< |src|`, end `≤ |src|`)
                                                 →  renderDoc x cfg (src ++ "\n") = renderDoc x cfg src
      doc_crlf_invariant_sp_partial   '\r' ∉ src, the inline pass does not panic on src (as without sourcepos), and
                                      (hix) every pair of inline runs is `InlineExact`, (hanch) no attribute-
                                      rendering node starts AT a line feed
                                                 →  renderDoc x cfg (lfToCrlf src) = renderDoc x cfg src
                                      The BLOCK half is unconditional: `Block.LX.parseBlocks_crlf_exact`
                                      (`Lemmas/C10SourceposSim*.lean`, a copy of the lock-step simulation of
                                      `Lemmas/C10Doc*.lean` whose offset relation only has to survive shifts INSIDE
                                      a line) relates the two block trees by `b = a + #LF before a`, for every
                                      range end point and every value of a per-line table.
  The two hypotheses about ranges (`hin`, `hanch`) and `hix` are checked by evaluation on the examples of
  parts 2 and 3, and DISCHARGED in part 4 for every document in which no tab is split:
      doc_final_newline_invariant_sp_full   sourcepos on, src does not end with LF / CR, `hsmall` (i32 bound),
                                            `hpara` (paragraph rule), `hmk` (single-byte emphasis markers),
                                            `NoSplitTab cfg src`  →  renderDoc x cfg (src ++ "\n") = renderDoc x cfg src
      doc_crlf_invariant_sp_full            the same + '\r' ∉ src + the inline pass does not panic on src
                                                               →  renderDoc x cfg (lfToCrlf src) = renderDoc x cfg src
      …_tabFree                             with `'\t' ∉ src` in place of `NoSplitTab`
      doc_starts_on_bytes                   every attribute-rendering node starts at a byte that is not a LF
  (ingredients: `Block.parseBlocks_anchored`, `Block.LX.Y.parseBlocks_crlf_strict`, `C10SP.parseInline_exact`,
  `doc_placeholder_segs` / `tr_shift`, `doc_ranges_ok` of Props/C05Rest.lean), and in part 5 for EVERY source,
  tabs split by containers included (`NoSplitTab` dropped; markers `C05T.SolidMarkers`):
      doc_final_newline_invariant_sp_all    sourcepos on, src does not end with LF / CR, `hsmall`, `hpara`, `hmk`
      doc_crlf_invariant_sp_all             the same + '\r' ∉ src + the inline pass does not panic on src
      doc_starts_on_bytes_all
  (ingredients: `doc_placeholder_segsT` / `tr_shiftT` / `tr_onByteT` / `mapT_shift`, `C10SP.parseInline_exactT`,
  `doc_ranges_ordered_all` of Props/C05Tabs.lean).

  What decides (found with `#eval` on the model, then proved as the lemmas of
  `Lemmas/C10SourceposPos.lean`): `get_position(o)` is the state of a fold over the characters that start
  at an offset `≤ o` (`runSt`, Props/C15.lean); an offset that points AT a line terminator gets the
  position `(next line, column 0)` when the terminator is LF or a lone CR, but `(this line, last
  column + 1)` when it is the CR of a CR LF pair; an offset past the end is clamped to the last
  character.  Hence
    * LF ↦ CR changes no position at all (same offsets, one-byte terminators that both end the line);
    * a final LF changes the position of exactly the offsets `≥ |src|` (clamped before, `(L+1, 0)` after);
    * LF ↦ CR LF with offsets moved by the number of line feeds before them keeps the position of every
      range END (`get_positions` reads it at `end - 1`: for an end at a line start that is the LF in both
      texts) and of every range START that does not point at a line feed.
  Which nodes have ranges that touch a terminator or the end of the text?  The root (`(0, |src|+1)` after
  a final LF), `Softbreak` / `Hardbreak` (the range covers the terminator: `"a  \nb"` ↦ `Hardbreak (1, 4)`,
  `(1, 5)` with CR LF), and in configurations WITHOUT the paragraph rule the break at the end of every
  line (`Softbreak (1, 2)` for `"a"`, outside the text: the finding of Props/C05Doc.lean).  NONE of
  these values renders `node.attrs` (`Root::render` only renders the children, `Softbreak` is
  `fmt.cr()`, `Hardbreak` is `fmt.self_close("br", &[])` — an explicit EMPTY attribute list), so the
  HTML is invariant although the TREES (`data-sourcepos` entries of `node.attrs`) are not: witnesses
  at the end of part 2.
-/
import MdIt.Lemmas.C10SourceposDoc
import MdIt.Lemmas.C10SpFullFinal
import MdIt.Lemmas.C10SpFullInline
import MdIt.Lemmas.C10SpTabsFinal
import MdIt.Lemmas.C10SpTabsInline

namespace MdIt.Pipeline
open MdIt
open MdIt.Block.LE (FRel BRes BlocksRel NRel NRelL KRel MRel RgRel)
open MdIt.Lines (lfToCrlf lfToCr)
open MdIt.SourceMap (runSt mkMarks)

/-! # Part 2: LF ↦ CR and the final newline -/

/-- **C10 with sourcepos, LF ↦ CR**: the HTML with its `data-sourcepos` attributes does not change.
    No hypothesis beyond `'\r' ∉ src`. -/
theorem doc_cr_invariant_sp (x : Bool) (cfg : DocCfg) (src : List Char) (hsp : cfg.sourcepos = true)
    (hcr : '\r' ∉ src) : renderDoc x cfg (lfToCr src) = renderDoc x cfg src :=
  renderDoc_of_blocks_eq_sp x cfg _ _ hsp
    (Block.LE.parseBlocks_cr cfg.blockCfg src hcr (.inr (Block.parseBlocks_fuel _ _)))
    (fun _ => true)
    (fun r _ => by simp only [posAttr, C10SP.runSt_lfToCr src hcr])
    (fun t _ => allN_true t)

/-- **C10, LF ↦ CR, every configuration** (with or without the sourcepos plugin) -/
theorem doc_cr_invariant_all (x : Bool) (cfg : DocCfg) (src : List Char) (hcr : '\r' ∉ src) :
    renderDoc x cfg (lfToCr src) = renderDoc x cfg src := by
  cases hsp : cfg.sourcepos with
  | false => exact doc_cr_invariant_full x cfg src hsp hcr
  | true => exact doc_cr_invariant_sp x cfg src hsp hcr


/-- **C10 with sourcepos, final newline**: if every node of the tree of `src` that renders its
    attributes (everything but `Root`, `Text`, `TextSpecial`, `Softbreak`, `Hardbreak`) has its range
    inside `src`, a final LF does not change the HTML with its `data-sourcepos` attributes. -/
theorem doc_final_newline_invariant_sp (x : Bool) (cfg : DocCfg) (src : List Char) (hsp : cfg.sourcepos = true)
    (hlast : src.getLast? ≠ some '\n' ∧ src.getLast? ≠ some '\r')
    (hin : ∀ t, parseDoc cfg src = .ok t → allN (rendered (insideB src)) t = true) :
    renderDoc x cfg (src ++ ['\n']) = renderDoc x cfg src :=
  renderDoc_of_blocks_eq_sp x cfg _ _ hsp
    (Block.LE.parseBlocks_final_newline cfg.blockCfg src hlast (.inr (Block.parseBlocks_fuel _ _)))
    (insideB src)
    (fun r h => by
      have hi : C10SP.Inside src r := by simpa [insideB] using h
      have h3 : C10SP.endOff r.2 + 1 ≤ SourceMap.byteLen src := by
        unfold C10SP.endOff; split <;> have := hi.1 <;> have := hi.2 <;> omega
      simp only [posAttr]
      rw [C10SP.runSt_append_left src ['\n'] 1 0 _ (by have := hi.1; omega) (.inl hlast.2),
        C10SP.runSt_append_left src ['\n'] 1 0 _ h3 (.inl hlast.2)])
    hin

/-! ## non-vacuity, necessity, and what is NOT invariant -/

/-- the document of `Props/C10Doc.lean`: all hypotheses hold (stock chain, sourcepos on) -/
theorem exDoc_inside : ∀ t, parseDoc (exCfg true 100) exDoc = .ok t → allN (rendered (insideB exDoc)) t = true := by
  intro t ht
  have : (parseDoc (exCfg true 100) exDoc).toOption.map (allN (rendered (insideB exDoc))) = some true := by
    decide +kernel
  rw [ht] at this
  simpa [Except.toOption] using this

example (x : Bool) : renderDoc x (exCfg true 100) (lfToCr exDoc) = renderDoc x (exCfg true 100) exDoc :=
  doc_cr_invariant_sp x _ _ rfl exDoc_hyps.1

example (x : Bool) : renderDoc x (exCfg true 100) (exDoc ++ ['\n']) = renderDoc x (exCfg true 100) exDoc :=
  doc_final_newline_invariant_sp x _ _ rfl exDoc_hyps.2.1 exDoc_inside

/-- the output in question carries positions (3 attributes: 130 characters instead of 55) -/
example : (renderDoc false (exCfg true 100) exDoc).toOption.map List.length = some 130 := by decide +kernel


mutual
/-- the `data-sourcepos` values of a tree, with the kind tag of the node, in document order -/
def spValues : Node → List (Tag × List Char)
  | ⟨k, _, a, cs⟩ => (a.filter (fun nv => nv.1 = NodeRender.aSourcepos)).map (fun nv => (k.tag, nv.2)) ++ spValuesList cs
def spValuesList : List Node → List (Tag × List Char)
  | [] => []
  | c :: cs => spValues c ++ spValuesList cs
end

/-- a configuration WITHOUT the paragraph rule (every line goes through the fallback of
    `BlockParser::tokenize`: content `line + "\n"`, one-entry table) -/
def noParaCfg : DocCfg := { exCfg true 100 with blockChain := [.hr] }

/-- **the TREES are not invariant, only the HTML is** — (1) the root after a final LF: its range ends
    behind the LF, `get_positions` reads the end at the LF, position `2:0` -/
example : (parseDoc (exCfg true 100) "a".toList).toOption.map spValues =
      some [(.root, "1:1-1:1".toList), (.p, "1:1-1:1".toList), (.T, "1:1-1:1".toList)] ∧
    (parseDoc (exCfg true 100) "a\n".toList).toOption.map spValues =
      some [(.root, "1:1-2:0".toList), (.p, "1:1-1:1".toList), (.T, "1:1-1:1".toList)] := by decide +kernel

/-- (2) a hard break covers its line terminator; with the paragraph rule its range is translated line
    by line and ends at the START of the next line, so the end position is read at the LF in both texts
    (`2:0`) … -/
example : (parseDoc (exCfg true 100) "a  \nb".toList).toOption.map spValues =
      some [(.root, "1:1-2:1".toList), (.p, "1:1-2:1".toList), (.T, "1:1-1:1".toList), (.HB, "1:2-2:0".toList),
        (.T, "2:1-2:1".toList)] ∧
    (parseDoc (exCfg true 100) "a  \r\nb".toList).toOption.map spValues =
      some [(.root, "1:1-2:1".toList), (.p, "1:1-2:1".toList), (.T, "1:1-1:1".toList), (.HB, "1:2-2:0".toList),
        (.T, "2:1-2:1".toList)] := by decide +kernel

/-- … but WITHOUT the paragraph rule the one-entry table of the fallback translates the end of the
    break to `line_end + 1`: the LF itself in the LF text (`2:0`), the CR of the pair in the CR LF text
    (`1:4`) — the attribute of the `Hardbreak` NODE differs; `Hardbreak::render` passes `&[]`, so the
    HTML does not -/
example : (parseDoc noParaCfg "a  \nb".toList).toOption.map spValues =
      some [(.root, "1:1-2:1".toList), (.T, "1:1-1:1".toList), (.HB, "1:2-2:0".toList),
        (.T, "2:1-2:1".toList), (.SB, "2:1-2:1".toList)] ∧
    (parseDoc noParaCfg "a  \r\nb".toList).toOption.map spValues =
      some [(.root, "1:1-2:1".toList), (.T, "1:1-1:1".toList), (.HB, "1:2-1:4".toList),
        (.T, "2:1-2:1".toList), (.SB, "2:1-2:1".toList)] ∧
    renderDoc false noParaCfg "a  \r\nb".toList = renderDoc false noParaCfg "a  \nb".toList := by decide +kernel

/-- (3) the same configuration and a final LF: the `Softbreak (1, 2)` of `"a"` lies outside the text
    (clamped: `1:1-1:1`), in `"a\n"` it is the LF (`2:0-2:0`); `Inside` fails for it, but it renders no
    attributes, so `doc_final_newline_invariant_sp` applies -/
example : (parseDoc noParaCfg "a".toList).toOption.map spValues =
      some [(.root, "1:1-1:1".toList), (.T, "1:1-1:1".toList), (.SB, "1:1-1:1".toList)] ∧
    (parseDoc noParaCfg "a\n".toList).toOption.map spValues =
      some [(.root, "1:1-2:0".toList), (.T, "1:1-1:1".toList), (.SB, "2:0-2:0".toList)] ∧
    (parseDoc noParaCfg "a".toList).toOption.map (allN (rendered (insideB "a".toList))) = some true := by
  decide +kernel

/-
  The hypothesis `hin` is discharged in part 4 (`doc_final_newline_invariant_sp_full`) for documents in which
  no tab is split: block nodes by `Block.parseBlocks_anchored` (non-empty ranges starting at a byte of their
  own; every configuration), inline nodes by the exact inline simulation, `b ≤ |src|` by `doc_ranges_ok`.
  It is NOT true of `Softbreak` / `Hardbreak` in configurations without the paragraph rule (example (3)),
  which is why it is restricted to the values that render attributes.
-/


/-! # Part 3: LF ↦ CR LF (the lemmas are in `Lemmas/C10SourceposDoc.lean`) -/

/-- **C10 with sourcepos, LF ↦ CR LF (partial)**: the HTML with its `data-sourcepos` attributes does not
    change, PROVIDED (`hinl`, as in `doc_crlf_invariant`) the inline pass does not panic on `src`,
    (`hix`) every pair of inline runs of the two documents is `InlineExact` — the ranges of `CodeInline`,
    `Em` / `Strong` / `Strikethrough`, `Link`, `Image`, `Autolink` nodes move with their bytes —, and
    (`hanch`) no attribute-rendering node of the tree of `src` starts AT a line feed or has a range
    ending at 0.  The block half needs no hypothesis: `Block.LX.parseBlocks_crlf_exact`
    (`Lemmas/C10SourceposSim*.lean`) relates every block range and every value of a per-line table of
    the two block trees by `b = a + #LF before a`. -/
theorem doc_crlf_invariant_sp_partial (x : Bool) (cfg : DocCfg) (src : List Char) (hsp : cfg.sourcepos = true)
    (hcr : '\r' ∉ src)
    (hinl : ∀ e, parseDoc cfg src ≠ .error (.inline e))
    (hix : ∀ root₁ refs₁ root₂ refs₂, Block.parseBlocks cfg.blockCfg src = .ok (root₁, refs₁) →
      Block.parseBlocks cfg.blockCfg (lfToCrlf src) = .ok (root₂, refs₂) →
      PlN2 (InlineExact (cfg.inlineCfg refs₁) (shiftOf src)) root₁ root₂)
    (hanch : ∀ t, parseDoc cfg src = .ok t → allN (rendered (anchoredB src)) t = true) :
    renderDoc x cfg (lfToCrlf src) = renderDoc x cfg src :=
  doc_crlf_sp_of_blocks x cfg src hsp hcr (Block.LX.parseBlocks_crlf_exact cfg.blockCfg src hcr) hinl hix hanch

/-! ## non-vacuity: the hypotheses evaluated on a document -/

mutual
def beqN : Node → Node → Bool
  | ⟨k₁, r₁, a₁, c₁⟩, ⟨k₂, r₂, a₂, c₂⟩ => decide (k₁ = k₂) && decide (r₁ = r₂) && decide (a₁ = a₂) && beqL c₁ c₂
def beqL : List Node → List Node → Bool
  | [], [] => true
  | x :: xs, y :: ys => beqN x y && beqL xs ys
  | _, _ => false
end

mutual
theorem beqN_sound : ∀ (a b : Node), beqN a b = true → a = b
  | ⟨k₁, r₁, a₁, c₁⟩, ⟨k₂, r₂, a₂, c₂⟩, h => by
    simp only [beqN, Bool.and_eq_true, decide_eq_true_eq] at h
    obtain ⟨⟨⟨h1, h2⟩, h3⟩, h4⟩ := h
    rw [h1, h2, h3, beqL_sound c₁ c₂ h4]
theorem beqL_sound : ∀ (a b : List Node), beqL a b = true → a = b
  | [], [], _ => rfl
  | [], _ :: _, h => by simp [beqL] at h
  | _ :: _, [], h => by simp [beqL] at h
  | x :: xs, y :: ys, h => by
    simp only [beqL, Bool.and_eq_true] at h
    rw [beqN_sound x y h.1, beqL_sound xs ys h.2]
end

/-- `InlineExact`, evaluated -/
def inlineExactB (icfg : Inline.Cfg) (f : Nat → Nat) (c : List Char) (m₁ m₂ : InlineOps.Srcmap) : Bool :=
  match Inline.parseInline icfg c m₁, Inline.parseInline icfg c m₂ with
  | .ok ns₁, .ok ns₂ => beqL (rmapList id true (ofInlineList ns₂)) (rmapList f true (ofInlineList ns₁))
  | _, _ => true

theorem inlineExactB_sound {icfg : Inline.Cfg} {f : Nat → Nat} {c : List Char} {m₁ m₂ : InlineOps.Srcmap}
    (h : inlineExactB icfg f c m₁ m₂ = true) : InlineExact icfg f c m₁ m₂ := by
  intro ns₁ ns₂ h₁ h₂
  unfold inlineExactB at h
  rw [h₁, h₂] at h
  exact beqL_sound _ _ h

mutual
def plN2B (p : List Char → InlineOps.Srcmap → InlineOps.Srcmap → Bool) : Block.BNode → Block.BNode → Bool
  | ⟨_, _, c₁⟩, ⟨_, _, c₂⟩ => plL2B p c₁ c₂
def plL2B (p : List Char → InlineOps.Srcmap → InlineOps.Srcmap → Bool) : List Block.BNode → List Block.BNode → Bool
  | x :: xs, y :: ys =>
    (match x.kind, y.kind with
     | .inlineRoot c m₁, .inlineRoot _ m₂ => p c m₁ m₂
     | _, _ => plN2B p x y) && plL2B p xs ys
  | _, _ => true
end

mutual
theorem plN2B_sound {p : List Char → InlineOps.Srcmap → InlineOps.Srcmap → Bool}
    {P : List Char → InlineOps.Srcmap → InlineOps.Srcmap → Prop} (hp : ∀ c m₁ m₂, p c m₁ m₂ = true → P c m₁ m₂) :
    ∀ (a b : Block.BNode), plN2B p a b = true → PlN2 P a b
  | ⟨_, _, c₁⟩, ⟨_, _, c₂⟩, h => by
    simp only [plN2B] at h
    simp only [PlN2]
    exact plL2B_sound hp c₁ c₂ h
theorem plL2B_sound {p : List Char → InlineOps.Srcmap → InlineOps.Srcmap → Bool}
    {P : List Char → InlineOps.Srcmap → InlineOps.Srcmap → Prop} (hp : ∀ c m₁ m₂, p c m₁ m₂ = true → P c m₁ m₂) :
    ∀ (a b : List Block.BNode), plL2B p a b = true → PlL2 P a b
  | [], _, _ => by simp only [PlL2]
  | _ :: _, [], _ => by simp only [PlL2]
  | x :: xs, y :: ys, h => by
    simp only [plL2B, Bool.and_eq_true] at h
    simp only [PlL2]
    refine ⟨?_, plL2B_sound hp xs ys h.2⟩
    have h1 := h.1
    cases hx : x.kind with
    | inlineRoot c m₁ =>
      cases hy : y.kind with
      | inlineRoot c' m₂ =>
        rw [hx, hy] at h1
        exact hp _ _ _ h1
      | _ =>
        rw [hx, hy] at h1
        simp only at h1 ⊢
        exact plN2B_sound hp x y h1
    | _ =>
      rw [hx] at h1
      simp only at h1 ⊢
      exact plN2B_sound hp x y h1
end

/-- emphasis over a line break, a code span, a list item with a link on a continuation line -/
def exDoc2 : List Char := "*a\nb* `c`\n\n- x\n  [y](z)".toList

theorem exDoc2_hyps :
    '\r' ∉ exDoc2 ∧ (∀ e, parseDoc (exCfg true 100) exDoc2 ≠ .error (.inline e)) ∧
    (∀ root₁ refs₁ root₂ refs₂, Block.parseBlocks (exCfg true 100).blockCfg exDoc2 = .ok (root₁, refs₁) →
      Block.parseBlocks (exCfg true 100).blockCfg (lfToCrlf exDoc2) = .ok (root₂, refs₂) →
      PlN2 (InlineExact ((exCfg true 100).inlineCfg refs₁) (shiftOf exDoc2)) root₁ root₂) ∧
    (∀ t, parseDoc (exCfg true 100) exDoc2 = .ok t → allN (rendered (anchoredB exDoc2)) t = true) := by
  refine ⟨by decide, not_inline_of (by decide +kernel), ?_, ?_⟩
  · intro root₁ refs₁ root₂ refs₂ h₁ h₂
    have : (match Block.parseBlocks (exCfg true 100).blockCfg exDoc2,
        Block.parseBlocks (exCfg true 100).blockCfg (lfToCrlf exDoc2) with
      | .ok (r₁, rf₁), .ok (r₂, _) =>
        plN2B (inlineExactB ((exCfg true 100).inlineCfg rf₁) (shiftOf exDoc2)) r₁ r₂
      | _, _ => false) = true := by decide +kernel
    rw [h₁, h₂] at this
    exact plN2B_sound (fun c m₁ m₂ h => inlineExactB_sound h) _ _ this
  · intro t ht
    have : (parseDoc (exCfg true 100) exDoc2).toOption.map (allN (rendered (anchoredB exDoc2))) = some true := by
      decide +kernel
    rw [ht] at this
    simpa [Except.toOption] using this

example (x : Bool) : renderDoc x (exCfg true 100) (lfToCrlf exDoc2) = renderDoc x (exCfg true 100) exDoc2 :=
  doc_crlf_invariant_sp_partial x _ _ rfl exDoc2_hyps.1 exDoc2_hyps.2.1 exDoc2_hyps.2.2.1 exDoc2_hyps.2.2.2

/-- the instance is not trivial: seven positions, two of them on the second line of a node -/
example : (parseDoc (exCfg true 100) exDoc2).toOption.map (fun t => (spValues t).filter (fun p => p.1 ≠ .T ∧ p.1 ≠ .SB)) =
    some [(.root, "1:1-5:8".toList), (.p, "1:1-2:6".toList), (.E, "1:1-2:2".toList), (.C, "2:4-2:6".toList),
      (.ul, "4:1-5:8".toList), (.li, "4:1-5:8".toList), (.L, "5:3-5:8".toList)] := by decide +kernel

/-
  `hix` and `hanch` are discharged in part 4 (`doc_crlf_invariant_sp_full`) for documents in which no tab is
  split; `hix` is FALSE for arbitrary tables and for break nodes (part 2, example (2), second half:
  `Hardbreak (1,4)` in both texts under the one-entry table), hence the restriction of `rmap … true` to the
  values that render attributes.  `hinl` remains (as in Props/C10Doc.lean).
-/


/-! # Part 4: the full theorems (documents in which no tab is split)

  The hypotheses `hin`, `hanch`, `hix` of parts 2 and 3 discharged:
   * block nodes — `Block.parseBlocks_anchored` (`Lemmas/C10SpFullBlock*.lean`, every configuration, every
     source): every ranged node of the block tree has `a < b` and a character other than LF / CR starts at
     byte `a`; `Block.LX.Y.parseBlocks_crlf_strict`: the two block trees are related by `b = a + #LF before a`
     at every range end and every table value, placeholders pairwise with related TABLES;
   * tables — `doc_placeholder_segs` (`Lemmas/C10SpFullTables.lean`; C05Rest's `fa_Seg`): without split tab
     every per-line table is segmented line by line, so every position of the inline text is translated
     exactly (`tr_shift`) and a character other than LF to a byte that is not a line feed (`tr_onByte`);
   * inline nodes — the exact inline simulation `InlineExactThm` (`Lemmas/C10SpFullInline*.lean`): under two
     good tables with the same keys the ranges of `CodeInline` / `Em` / `Strong` / `Strikethrough` / `Link` /
     `Image` / `Autolink` nodes are the translations of ONE stretch of the inline text that starts at a
     character other than LF (`C10SP.SameSpan`);
   * `a ≤ b ≤ |src|` at every node — `doc_ranges_ok` (Props/C05Rest.lean).
  What remains: the size bound of the `i32` fields (`hsmall`), the paragraph rule (`hpara`; without it the
  fallback tables are not `get_lines` tables), single-byte emphasis markers other than LF (`hmk`, as in
  Props/C05Rest.lean), `NoSplitTab` (`hnv`; `'\t' ∉ src` suffices), and for CR LF the inline-no-panic
  hypothesis `hinl` of Props/C10Doc.lean. -/

/-- the exact inline simulation, for every inline configuration with single-byte non-LF emphasis markers -/
theorem inlineExactThm (icfg : Inline.Cfg) (hmk : C05R.AsciiMarkers icfg.chain) : InlineExactThm icfg :=
  C10SP.parseInline_exact' icfg hmk

/-- **every attribute-rendering node of the parsed tree** — every block node but the root, `CodeInline`,
    `Em` / `Strong` / `Strikethrough`, `Link`, `Image`, `Autolink` — **starts at a byte of the document
    that is not a line feed** (in a document in which no tab is split) -/
theorem doc_starts_on_bytes (cfg : DocCfg) (src : List Char) (hsp : cfg.sourcepos = true)
    (hsmall : 4 * Lines.byteLen src + 8 < 2147483648) (hpara : cfg.hasPara = true)
    (hmk : C05R.AsciiMarkers cfg.inlineChain) (hnv : NoSplitTab cfg src)
    {t : Node} (h : parseDoc cfg src = .ok t) :
    Every (fun n => n.kind.rendersAttrs = true → ∀ a b, n.range = some (a, b) → OnByteLf src a) t :=
  doc_anchored cfg src hsp (fun _ => inlineExactThm _ hmk) hsmall hpara hnv h

/-- **C10 with sourcepos, final newline, full**: in a document in which no tab is split a final LF does
    not change the HTML with its `data-sourcepos` attributes.  No hypothesis about ranges is left. -/
theorem doc_final_newline_invariant_sp_full (x : Bool) (cfg : DocCfg) (src : List Char)
    (hsp : cfg.sourcepos = true) (hlast : src.getLast? ≠ some '\n' ∧ src.getLast? ≠ some '\r')
    (hsmall : 4 * Lines.byteLen src + 8 < 2147483648) (hpara : cfg.hasPara = true)
    (hmk : C05R.AsciiMarkers cfg.inlineChain) (hnv : NoSplitTab cfg src) :
    renderDoc x cfg (src ++ ['\n']) = renderDoc x cfg src :=
  doc_final_newline_sp_of_inline x cfg src hsp hlast (fun _ => inlineExactThm _ hmk) hsmall hpara hmk hnv

/-- **C10 with sourcepos, LF ↦ CR LF, full**: in a CR-free document in which no tab is split, LF ↦ CR LF
    does not change the HTML with its `data-sourcepos` attributes — provided (`hinl`, as without the
    plugin) the inline pass does not panic on `src`.  No hypothesis about ranges or tables is left. -/
theorem doc_crlf_invariant_sp_full (x : Bool) (cfg : DocCfg) (src : List Char)
    (hsp : cfg.sourcepos = true) (hcr : '\r' ∉ src)
    (hinl : ∀ e, parseDoc cfg src ≠ .error (.inline e))
    (hsmall : 4 * Lines.byteLen src + 8 < 2147483648) (hpara : cfg.hasPara = true)
    (hmk : C05R.AsciiMarkers cfg.inlineChain) (hnv : NoSplitTab cfg src) :
    renderDoc x cfg (lfToCrlf src) = renderDoc x cfg src :=
  doc_crlf_sp_of_inline x cfg src hsp hcr hinl (fun _ => inlineExactThm _ hmk) hsmall hpara hmk hnv

/-- … for tab-free documents -/
theorem doc_final_newline_invariant_sp_tabFree (x : Bool) (cfg : DocCfg) (src : List Char)
    (hsp : cfg.sourcepos = true) (hlast : src.getLast? ≠ some '\n' ∧ src.getLast? ≠ some '\r')
    (hsmall : 4 * Lines.byteLen src + 8 < 2147483648) (hpara : cfg.hasPara = true)
    (hmk : C05R.AsciiMarkers cfg.inlineChain) (htab : '\t' ∉ src) :
    renderDoc x cfg (src ++ ['\n']) = renderDoc x cfg src :=
  doc_final_newline_invariant_sp_full x cfg src hsp hlast hsmall hpara hmk
    (noSplitTab_of_tabFree cfg src hsmall hpara htab)

theorem doc_crlf_invariant_sp_tabFree (x : Bool) (cfg : DocCfg) (src : List Char)
    (hsp : cfg.sourcepos = true) (hcr : '\r' ∉ src)
    (hinl : ∀ e, parseDoc cfg src ≠ .error (.inline e))
    (hsmall : 4 * Lines.byteLen src + 8 < 2147483648) (hpara : cfg.hasPara = true)
    (hmk : C05R.AsciiMarkers cfg.inlineChain) (htab : '\t' ∉ src) :
    renderDoc x cfg (lfToCrlf src) = renderDoc x cfg src :=
  doc_crlf_invariant_sp_full x cfg src hsp hcr hinl hsmall hpara hmk
    (noSplitTab_of_tabFree cfg src hsmall hpara htab)

/-! ## non-vacuity -/

/-- the hypotheses of the full theorems on `exDoc2` (emphasis over a line break, a code span, a link on
    the continuation line of a list item): nothing about ranges has to be evaluated -/
theorem exDoc2_full_hyps :
    4 * Lines.byteLen exDoc2 + 8 < 2147483648 ∧ (exCfg true 100).hasPara = true ∧
    C05R.AsciiMarkers (exCfg true 100).inlineChain ∧ '\t' ∉ exDoc2 ∧
    (exDoc2.getLast? ≠ some '\n' ∧ exDoc2.getLast? ≠ some '\r') :=
  ⟨by decide, by decide, exCfg_asciiMarkers true 100, by decide, by decide⟩

example (x : Bool) : renderDoc x (exCfg true 100) (lfToCrlf exDoc2) = renderDoc x (exCfg true 100) exDoc2 :=
  doc_crlf_invariant_sp_tabFree x _ _ rfl exDoc2_hyps.1 exDoc2_hyps.2.1 exDoc2_full_hyps.1
    exDoc2_full_hyps.2.1 exDoc2_full_hyps.2.2.1 exDoc2_full_hyps.2.2.2.1

example (x : Bool) : renderDoc x (exCfg true 100) (exDoc2 ++ ['\n']) = renderDoc x (exCfg true 100) exDoc2 :=
  doc_final_newline_invariant_sp_tabFree x _ _ rfl exDoc2_full_hyps.2.2.2.2 exDoc2_full_hyps.1
    exDoc2_full_hyps.2.1 exDoc2_full_hyps.2.2.1 exDoc2_full_hyps.2.2.2.1

/-- a document with a tab that is NOT split (inside a line): `NoSplitTab` by evaluation of the block pass -/
def exDoc3 : List Char := "a\t*b\nc*".toList

example (x : Bool) : renderDoc x (exCfg true 100) (exDoc3 ++ ['\n']) = renderDoc x (exCfg true 100) exDoc3 :=
  doc_final_newline_invariant_sp_full x _ _ rfl (by decide) (by decide) (by decide) (exCfg_asciiMarkers true 100)
    (noSplitTab_of_check _ _ (by decide +kernel))

/-
  OPEN (what separates the full theorems from hypothesis-free statements):
   1. `hnv : NoSplitTab` — a tab that straddles the content column of a container is split by `get_lines`
      into virtual spaces without bytes of their own (after `fix:` fc6af68 positions inside them are clamped
      to the next table entry).  The block half (`parseBlocks_anchored`, `parseBlocks_crlf_strict`) holds
      with split tabs; missing are the segment structure of such a table (`fa_Seg` with a virtual entry:
      Props/C05Inline.lean OPEN A/B) and `Inline.MapOK` for it (the exact inline simulation assumes both
      tables `MapOK`).  On samples the HTML is invariant with split tabs too (`"- a\n\n \t*b*"`, part 0).
   2. `hinl` (CR LF only) — equal inline PANICS under the two tables, as in Props/C10Doc.lean.
   3. `hpara` — without the paragraph rule the fallback of `BlockParser::tokenize` makes one-entry tables
      whose content ends with a LF the table does not know (Props/C05Doc.lean finding); C05Rest's table
      theorems assume the rule.  The HTML is still invariant on samples (part 2, examples (2), (3)).
   4. `hsmall`, `hmk` — the `i32` fields of the block state; single-byte emphasis markers (with a multi-byte
      marker the inline model panics as soon as the rule fires, Props/C05Rest.lean).
-/


/-! # Part 5: ALL sources — split tabs included (no `NoSplitTab`)

  The table class of Props/C05Tabs.lean instead of `Inline.MapOK`:
   * `doc_placeholder_segsT` (`Lemmas/C10SpTabsTables.lean`): EVERY placeholder table is segmented by
     `C05T.tf_Seg` — real entries (a LF-free copy of source bytes) and virtual entries (a run of spaces of
     the inline text sitting on ONE source offset); `tr_shiftT`: EVERY position of the inline text is
     translated to `a` / `a + #LF before a` under the table / its shifted copy (inside a virtual segment
     both are the clamp); `tr_onByteT`: a character other than LF and space lies in a real segment;
     `mapT_shift`: the shifted table is `C05T.MapT`;
   * `C10SP.parseInline_exactT` (`Lemmas/C10SpTabsInline*.lean`): the exact inline simulation for `MapT`
     tables (attribute-rendering nodes start at their marker character, which is solid: `C10SP.SameSpanT`);
   * `a ≤ b ≤ |src|` at every node: `doc_ranges_ordered_all` (Props/C05Tabs.lean).
  The marker hypothesis becomes `C05T.SolidMarkers` (single byte, not LF, not space: `*`, `_`, `~`). -/

theorem inlineExactThmT (icfg : Inline.Cfg) (hmk : C05T.SolidMarkers icfg.chain) : InlineExactThmT icfg :=
  C10SP.parseInline_exactT' icfg hmk

/-- every attribute-rendering node of the parsed tree starts at a byte that is not a line feed — every source -/
theorem doc_starts_on_bytes_all (cfg : DocCfg) (src : List Char) (hsp : cfg.sourcepos = true)
    (hsmall : 4 * Lines.byteLen src + 8 < 2147483648) (hpara : cfg.hasPara = true)
    (hmk : C05T.SolidMarkers cfg.inlineChain) {t : Node} (h : parseDoc cfg src = .ok t) :
    Every (fun n => n.kind.rendersAttrs = true → ∀ a b, n.range = some (a, b) → OnByteLf src a) t :=
  doc_anchoredT cfg src hsp (fun _ => inlineExactThmT _ hmk) hsmall hpara h

/-- **C10 with sourcepos, final newline, EVERY source** (tabs split by containers included): a final LF does
    not change the HTML with its `data-sourcepos` attributes. -/
theorem doc_final_newline_invariant_sp_all (x : Bool) (cfg : DocCfg) (src : List Char)
    (hsp : cfg.sourcepos = true) (hlast : src.getLast? ≠ some '\n' ∧ src.getLast? ≠ some '\r')
    (hsmall : 4 * Lines.byteLen src + 8 < 2147483648) (hpara : cfg.hasPara = true)
    (hmk : C05T.SolidMarkers cfg.inlineChain) :
    renderDoc x cfg (src ++ ['\n']) = renderDoc x cfg src :=
  doc_final_newline_sp_of_inlineT x cfg src hsp hlast (fun _ => inlineExactThmT _ hmk) hsmall hpara hmk

/-- **C10 with sourcepos, LF ↦ CR LF, EVERY CR-free source** (tabs split by containers included), provided
    (`hinl`, as without the plugin) the inline pass does not panic on `src`. -/
theorem doc_crlf_invariant_sp_all (x : Bool) (cfg : DocCfg) (src : List Char)
    (hsp : cfg.sourcepos = true) (hcr : '\r' ∉ src)
    (hinl : ∀ e, parseDoc cfg src ≠ .error (.inline e))
    (hsmall : 4 * Lines.byteLen src + 8 < 2147483648) (hpara : cfg.hasPara = true)
    (hmk : C05T.SolidMarkers cfg.inlineChain) :
    renderDoc x cfg (lfToCrlf src) = renderDoc x cfg src :=
  doc_crlf_sp_of_inlineT x cfg src hsp hcr hinl (fun _ => inlineExactThmT _ hmk) hsmall hpara hmk

/-! ## non-vacuity: a document whose tab IS split -/

/-- the second paragraph of the list item starts with a tab that straddles the content column: its table has
    a virtual-space entry (`NoSplitTab` fails), the emphasis starts behind the virtual spaces -/
def exDocTab : List Char := "- a\n\n \t*b*\n  `c\n\td`".toList

/-- … it really is split: some placeholder table has two consecutive entries with the same source offset -/
example : (match Block.parseBlocks (exCfg true 100).blockCfg exDocTab with
    | .ok (root, _) => allNoVirtB root
    | .error _ => true) = false := by decide +kernel

theorem exDocTab_hyps :
    '\r' ∉ exDocTab ∧ (exDocTab.getLast? ≠ some '\n' ∧ exDocTab.getLast? ≠ some '\r') ∧
    4 * Lines.byteLen exDocTab + 8 < 2147483648 ∧ (exCfg true 100).hasPara = true ∧
    ∀ e, parseDoc (exCfg true 100) exDocTab ≠ .error (.inline e) :=
  ⟨by decide, by decide, by decide, by decide, not_inline_of (by decide +kernel)⟩

example (x : Bool) : renderDoc x (exCfg true 100) (lfToCrlf exDocTab) = renderDoc x (exCfg true 100) exDocTab :=
  doc_crlf_invariant_sp_all x _ _ rfl exDocTab_hyps.1 exDocTab_hyps.2.2.2.2 exDocTab_hyps.2.2.1
    exDocTab_hyps.2.2.2.1 (exCfg_solidMarkers true 100)

example (x : Bool) : renderDoc x (exCfg true 100) (exDocTab ++ ['\n']) = renderDoc x (exCfg true 100) exDocTab :=
  doc_final_newline_invariant_sp_all x _ _ rfl exDocTab_hyps.2.1 exDocTab_hyps.2.2.1
    exDocTab_hyps.2.2.2.1 (exCfg_solidMarkers true 100)

/-- the positions in question (the emphasis and the code span sit behind split tabs) -/
example : (parseDoc (exCfg true 100) exDocTab).toOption.map
      (fun t => (spValues t).filter (fun p => p.1 = .E ∨ p.1 = .C)) =
    some [(.E, "3:3-3:5".toList), (.C, "4:3-5:3".toList)] := by decide +kernel

/-
  OPEN after part 5 (what separates `doc_final_newline_invariant_sp_all` / `doc_crlf_invariant_sp_all` from
  hypothesis-free statements): `hinl` (CR LF only: equal inline PANICS under the two tables), `hpara` (the
  no-paragraph fallback tables are not `get_lines` tables), `hsmall` (the `i32` fields), `hmk`
  (`SolidMarkers`: the inline theorems of Props/C05Tabs.lean and the token invariant of the exact
  simulation need single-byte markers other than LF and space; necessary for LF:
  `C10SP.InlineWitness.lf_not_exact_aux`).  `NoSplitTab` is gone.
-/

end MdIt.Pipeline
