/-
  C10 at whole-document level WITH the sourcepos plugin (`cfg.sourcepos = true`): the HTML including
  the `data-sourcepos="l:c-l:c"` attributes under the three rewritings of the line endings.

      doc_cr_invariant_sp             '\r' ∉ src →  renderDoc x cfg (lfToCr src) = renderDoc x cfg src
                                      NO further hypothesis; `doc_cr_invariant_all`: every `cfg`.
      doc_final_newline_invariant_sp  src does not end with LF / CR, and every node of the tree of `src`
                                      that RENDERS its attributes has its range inside `src`
                                      (`Inside`: start `< |src|`, end `≤ |src|`)
                                                 →  renderDoc x cfg (src ++ "\n") = renderDoc x cfg src
      doc_crlf_invariant_sp_partial   '\r' ∉ src, the inline pass does not panic on src (as without sourcepos), and
                                      (hix) every pair of inline runs is `InlineExact`, (hanch) no attribute-
                                      rendering node starts AT a line feed
                                                 →  renderDoc x cfg (lfToCrlf src) = renderDoc x cfg src
                                      The BLOCK half is unconditional: `Block.LX.parseBlocks_crlf_exact`
                                      (`Lemmas/C10SourceposSim*.lean`, a copy of the lock-step simulation of
                                      `Lemmas/C10Doc*.lean` whose offset relation only has to survive shifts INSIDE
                                      a line) relates the two block trees by `b = a + #LF before a`, for every
                                      range end point and every value of a per-line table.
  The two hypotheses about ranges (`hin`, `hanch`) and `hix` are checked by evaluation on the examples;
  the OPEN blocks at the end of parts 2 and 3 name the missing lemmas (non-emptiness of block ranges,
  the inline half of C05, exactness of the inline parser in its table).

  What decides (found with `#eval` on the model, then proved as the lemmas of
  `Lemmas/C10SourceposPos.lean`): `get_position(o)` is the state of a fold over the characters that start
  at an offset `≤ o` (`runSt`, Props/C15.lean); an offset that points AT a line terminator gets the
  position `(next line, column 0)` when the terminator is LF or a lone CR, but `(this line, last
  column + 1)` when it is the CR of a CR LF pair; an offset past the end is clamped to the last
  character.  Hence
    * LF ↦ CR changes no position at all (same offsets, one-byte terminators that both end the line);
    * a final LF changes the position of exactly the offsets `≥ |src|` (clamped before, `(L+1, 0)` after);
    * LF ↦ CR LF with offsets moved by the number of line feeds before them keeps the position of every
      range END (`get_positions` reads it at `end - 1`: for an end at a line start that is the LF in both
      texts) and of every range START that does not point at a line feed.
  Which nodes have ranges that touch a terminator or the end of the text?  The root (`(0, |src|+1)` after
  a final LF), `Softbreak` / `Hardbreak` (the range covers the terminator: `"a  \nb"` ↦ `Hardbreak (1, 4)`,
  `(1, 5)` with CR LF), and in configurations WITHOUT the paragraph rule the break at the end of every
  line (`Softbreak (1, 2)` for `"a"`, outside the text: the finding of Props/C05Doc.lean).  NONE of
  these values renders `node.attrs` (`Root::render` only renders the children, `Softbreak` is
  `fmt.cr()`, `Hardbreak` is `fmt.self_close("br", &[])` — an explicit EMPTY attribute list), so the
  HTML is invariant although the TREES (`data-sourcepos` entries of `node.attrs`) are not: witnesses
  at the end of part 2.
-/
import MdIt.Lemmas.C10SourceposTree
import MdIt.Lemmas.C10SourceposSim
import MdIt.Props.DocTotal

namespace MdIt.Pipeline
open MdIt
open MdIt.Block.LE (FRel BRes BlocksRel NRel NRelL KRel MRel RgRel)
open MdIt.Lines (lfToCrlf lfToCr)
open MdIt.SourceMap (runSt mkMarks)

/-! # Part 1: two sources whose block trees agree below the root -/

mutual
theorem allN_spPure (p : Node → Bool) (hp : ∀ k r a a' cs cs', p ⟨k, r, a, cs⟩ = p ⟨k, r, a', cs'⟩)
    (src : List Char) (t : Node) : allN p (spPure src t) = allN p t := by
  match t with
  | ⟨k, r, a, cs⟩ =>
    simp only [spPure, allN, allNList_spPure p hp src cs]
    rw [hp k r _ a _ cs]
theorem allNList_spPure (p : Node → Bool) (hp : ∀ k r a a' cs cs', p ⟨k, r, a, cs⟩ = p ⟨k, r, a', cs'⟩)
    (src : List Char) (cs : List Node) : allNList p (spPureList src cs) = allNList p cs := by
  match cs with
  | [] => rfl
  | c :: r => simp only [spPureList, allNList, allN_spPure p hp src c, allNList_spPure p hp src r]
end

theorem rendered_attrs (q : Nat × Nat → Bool) (k : Kind) (r : Option (Nat × Nat))
    (a a' : List (List Char × List Char)) (cs cs' : List Node) :
    rendered q ⟨k, r, a, cs⟩ = rendered q ⟨k, r, a', cs'⟩ := rfl

mutual
theorem allN_true (t : Node) : allN (rendered fun _ => true) t = true := by
  match t with
  | ⟨k, r, a, cs⟩ =>
    simp only [allN, allNList_true cs, Bool.and_true, rendered]
    cases r <;> simp
theorem allNList_true (cs : List Node) : allNList (rendered fun _ => true) cs = true := by
  match cs with
  | [] => rfl
  | c :: r => simp only [allNList, allN_true c, allNList_true r, Bool.and_self]
end

/-- the tree `afterBlocks` hands to the sourcepos pass -/
def joined (cfg : DocCfg) (t : Node) : Node := if cfg.hasJoin = true then joinNode t else t

theorem rmap_joined (cfg : DocCfg) (f : Nat → Nat) (nr : Bool) (t : Node) :
    rmap f nr (joined cfg t) = joined cfg (rmap f nr t) := by
  unfold joined
  split
  · exact rmap_joinNode f nr t
  · rfl

theorem afterBlocks_sp (cfg : DocCfg) (hsp : cfg.sourcepos = true) (src : List Char) (root : Block.BNode)
    (refs : Refs.RefMap) :
    afterBlocks cfg src root refs =
      match spliceNode (cfg.inlineCfg refs) root with
      | .error e => .error e
      | .ok t => .ok (spPure src (joined cfg t)) := by
  unfold afterBlocks
  cases spliceNode (cfg.inlineCfg refs) root with
  | error e => rfl
  | ok t => simp only [hsp, if_true, sourceposNode_eq, joined]

/-- the core chain behind the block pass, sourcepos on, on two block roots with the SAME children -/
theorem afterBlocks_same_children (x : Bool) (cfg : DocCfg) (hsp : cfg.sourcepos = true) (s₁ s₂ : List Char)
    (q : Nat × Nat → Bool) (hq : ∀ r, q r = true → posAttr s₂ r = posAttr s₁ r)
    (r₁ r₂ : Option (Nat × Nat)) (cs : List Block.BNode) (refs : Refs.RefMap)
    (hall : ∀ t, afterBlocks cfg s₁ ⟨.root, r₁, cs⟩ refs = .ok t → allN (rendered q) t = true) :
    renderOf x cfg (afterBlocks cfg s₂ ⟨.root, r₂, cs⟩ refs) =
      renderOf x cfg (afterBlocks cfg s₁ ⟨.root, r₁, cs⟩ refs) := by
  rw [afterBlocks_sp cfg hsp, afterBlocks_sp cfg hsp] at *
  simp only [spliceNode] at *
  cases hs : spliceList (cfg.inlineCfg refs) cs with
  | error e => rfl
  | ok cs' =>
    simp only [hs] at hall
    have hall' := hall _ rfl
    rw [allN_spPure _ (rendered_attrs q)] at hall'
    have hT : rmap id true (joined cfg ⟨.blk .root, r₂, [], cs'⟩) =
        rmap id true (joined cfg ⟨.blk .root, r₁, [], cs'⟩) := by
      rw [rmap_joined, rmap_joined]
      simp [rmap, rangeOf, Kind.rendersAttrs]
    have := final_stage x cfg s₁ s₂ id q (fun r h => hq r h) _ _ hT hall'
    rw [sourceposNode_eq, sourceposNode_eq] at this
    exact this

/-- two sources whose block passes agree up to the root's range render alike WITH `data-sourcepos`,
    when the ranges of the attribute-rendering nodes have the same positions in both -/
theorem renderDoc_of_blocks_eq_sp (x : Bool) (cfg : DocCfg) (s₁ s₂ : List Char) (hsp : cfg.sourcepos = true)
    (h : BRes Eq (Block.parseBlocks cfg.blockCfg s₁) (Block.parseBlocks cfg.blockCfg s₂))
    (q : Nat × Nat → Bool) (hq : ∀ r, q r = true → posAttr s₂ r = posAttr s₁ r)
    (hall : ∀ t, parseDoc cfg s₁ = .ok t → allN (rendered q) t = true) :
    renderDoc x cfg s₂ = renderDoc x cfg s₁ := by
  rcases h with ⟨a, b, h1, h2, hk, hc, hr⟩ | ⟨e, h1, h2⟩
  · obtain ⟨hroot, _⟩ := Block.parseBlocks_wf h1
    obtain ⟨⟨k₁, r₁, c₁⟩, refs₁⟩ := a
    obtain ⟨⟨k₂, r₂, c₂⟩, refs₂⟩ := b
    simp only at hk hc hr hroot
    subst hk hr hroot
    have := Block.LE.NRelL.eq hc; subst this
    rw [renderDoc_eq_renderOf, renderDoc_eq_renderOf]
    unfold parseDoc at hall ⊢
    rw [h1] at hall
    rw [h1, h2]
    exact afterBlocks_same_children x cfg hsp s₁ s₂ q hq r₁ r₂ c₁ refs₁ hall
  · unfold renderDoc parseDoc
    rw [h1, h2]

/-! # Part 2: LF ↦ CR and the final newline -/

/-- **C10 with sourcepos, LF ↦ CR**: the HTML with its `data-sourcepos` attributes does not change.
    No hypothesis beyond `'\r' ∉ src`. -/
theorem doc_cr_invariant_sp (x : Bool) (cfg : DocCfg) (src : List Char) (hsp : cfg.sourcepos = true)
    (hcr : '\r' ∉ src) : renderDoc x cfg (lfToCr src) = renderDoc x cfg src :=
  renderDoc_of_blocks_eq_sp x cfg _ _ hsp
    (Block.LE.parseBlocks_cr cfg.blockCfg src hcr (.inr (Block.parseBlocks_fuel _ _)))
    (fun _ => true)
    (fun r _ => by simp only [posAttr, C10SP.runSt_lfToCr src hcr])
    (fun t _ => allN_true t)

/-- **C10, LF ↦ CR, every configuration** (with or without the sourcepos plugin) -/
theorem doc_cr_invariant_all (x : Bool) (cfg : DocCfg) (src : List Char) (hcr : '\r' ∉ src) :
    renderDoc x cfg (lfToCr src) = renderDoc x cfg src := by
  cases hsp : cfg.sourcepos with
  | false => exact doc_cr_invariant_full x cfg src hsp hcr
  | true => exact doc_cr_invariant_sp x cfg src hsp hcr

/-- the range lies inside the text: it starts at one of its bytes and ends at or before its end -/
def insideB (src : List Char) (r : Nat × Nat) : Bool := decide (C10SP.Inside src r)

/-- **C10 with sourcepos, final newline**: if every node of the tree of `src` that renders its
    attributes (everything but `Root`, `Text`, `TextSpecial`, `Softbreak`, `Hardbreak`) has its range
    inside `src`, a final LF does not change the HTML with its `data-sourcepos` attributes. -/
theorem doc_final_newline_invariant_sp (x : Bool) (cfg : DocCfg) (src : List Char) (hsp : cfg.sourcepos = true)
    (hlast : src.getLast? ≠ some '\n' ∧ src.getLast? ≠ some '\r')
    (hin : ∀ t, parseDoc cfg src = .ok t → allN (rendered (insideB src)) t = true) :
    renderDoc x cfg (src ++ ['\n']) = renderDoc x cfg src :=
  renderDoc_of_blocks_eq_sp x cfg _ _ hsp
    (Block.LE.parseBlocks_final_newline cfg.blockCfg src hlast (.inr (Block.parseBlocks_fuel _ _)))
    (insideB src)
    (fun r h => by
      have hi : C10SP.Inside src r := by simpa [insideB] using h
      have h3 : C10SP.endOff r.2 + 1 ≤ SourceMap.byteLen src := by
        unfold C10SP.endOff; split <;> have := hi.1 <;> have := hi.2 <;> omega
      simp only [posAttr]
      rw [C10SP.runSt_append_left src ['\n'] 1 0 _ (by have := hi.1; omega) (.inl hlast.2),
        C10SP.runSt_append_left src ['\n'] 1 0 _ h3 (.inl hlast.2)])
    hin

/-! ## non-vacuity, necessity, and what is NOT invariant -/

/-- the document of `Props/C10Doc.lean`: all hypotheses hold (stock chain, sourcepos on) -/
theorem exDoc_inside : ∀ t, parseDoc (exCfg true 100) exDoc = .ok t → allN (rendered (insideB exDoc)) t = true := by
  intro t ht
  have : (parseDoc (exCfg true 100) exDoc).toOption.map (allN (rendered (insideB exDoc))) = some true := by
    decide +kernel
  rw [ht] at this
  simpa [Except.toOption] using this

example (x : Bool) : renderDoc x (exCfg true 100) (lfToCr exDoc) = renderDoc x (exCfg true 100) exDoc :=
  doc_cr_invariant_sp x _ _ rfl exDoc_hyps.1

example (x : Bool) : renderDoc x (exCfg true 100) (exDoc ++ ['\n']) = renderDoc x (exCfg true 100) exDoc :=
  doc_final_newline_invariant_sp x _ _ rfl exDoc_hyps.2.1 exDoc_inside

/-- the output in question carries positions (3 attributes: 130 characters instead of 55) -/
example : (renderDoc false (exCfg true 100) exDoc).toOption.map List.length = some 130 := by decide +kernel


mutual
/-- the `data-sourcepos` values of a tree, with the kind tag of the node, in document order -/
def spValues : Node → List (Tag × List Char)
  | ⟨k, _, a, cs⟩ => (a.filter (fun nv => nv.1 = NodeRender.aSourcepos)).map (fun nv => (k.tag, nv.2)) ++ spValuesList cs
def spValuesList : List Node → List (Tag × List Char)
  | [] => []
  | c :: cs => spValues c ++ spValuesList cs
end

/-- a configuration WITHOUT the paragraph rule (every line goes through the fallback of
    `BlockParser::tokenize`: content `line + "\n"`, one-entry table) -/
def noParaCfg : DocCfg := { exCfg true 100 with blockChain := [.hr] }

/-- **the TREES are not invariant, only the HTML is** — (1) the root after a final LF: its range ends
    behind the LF, `get_positions` reads the end at the LF, position `2:0` -/
example : (parseDoc (exCfg true 100) "a".toList).toOption.map spValues =
      some [(.root, "1:1-1:1".toList), (.p, "1:1-1:1".toList), (.T, "1:1-1:1".toList)] ∧
    (parseDoc (exCfg true 100) "a\n".toList).toOption.map spValues =
      some [(.root, "1:1-2:0".toList), (.p, "1:1-1:1".toList), (.T, "1:1-1:1".toList)] := by decide +kernel

/-- (2) a hard break covers its line terminator; with the paragraph rule its range is translated line
    by line and ends at the START of the next line, so the end position is read at the LF in both texts
    (`2:0`) … -/
example : (parseDoc (exCfg true 100) "a  \nb".toList).toOption.map spValues =
      some [(.root, "1:1-2:1".toList), (.p, "1:1-2:1".toList), (.T, "1:1-1:1".toList), (.HB, "1:2-2:0".toList),
        (.T, "2:1-2:1".toList)] ∧
    (parseDoc (exCfg true 100) "a  \r\nb".toList).toOption.map spValues =
      some [(.root, "1:1-2:1".toList), (.p, "1:1-2:1".toList), (.T, "1:1-1:1".toList), (.HB, "1:2-2:0".toList),
        (.T, "2:1-2:1".toList)] := by decide +kernel

/-- … but WITHOUT the paragraph rule the one-entry table of the fallback translates the end of the
    break to `line_end + 1`: the LF itself in the LF text (`2:0`), the CR of the pair in the CR LF text
    (`1:4`) — the attribute of the `Hardbreak` NODE differs; `Hardbreak::render` passes `&[]`, so the
    HTML does not -/
example : (parseDoc noParaCfg "a  \nb".toList).toOption.map spValues =
      some [(.root, "1:1-2:1".toList), (.T, "1:1-1:1".toList), (.HB, "1:2-2:0".toList),
        (.T, "2:1-2:1".toList), (.SB, "2:1-2:1".toList)] ∧
    (parseDoc noParaCfg "a  \r\nb".toList).toOption.map spValues =
      some [(.root, "1:1-2:1".toList), (.T, "1:1-1:1".toList), (.HB, "1:2-1:4".toList),
        (.T, "2:1-2:1".toList), (.SB, "2:1-2:1".toList)] ∧
    renderDoc false noParaCfg "a  \r\nb".toList = renderDoc false noParaCfg "a  \nb".toList := by decide +kernel

/-- (3) the same configuration and a final LF: the `Softbreak (1, 2)` of `"a"` lies outside the text
    (clamped: `1:1-1:1`), in `"a\n"` it is the LF (`2:0-2:0`); `Inside` fails for it, but it renders no
    attributes, so `doc_final_newline_invariant_sp` applies -/
example : (parseDoc noParaCfg "a".toList).toOption.map spValues =
      some [(.root, "1:1-1:1".toList), (.T, "1:1-1:1".toList), (.SB, "1:1-1:1".toList)] ∧
    (parseDoc noParaCfg "a\n".toList).toOption.map spValues =
      some [(.root, "1:1-2:0".toList), (.T, "1:1-1:1".toList), (.SB, "2:0-2:0".toList)] ∧
    (parseDoc noParaCfg "a".toList).toOption.map (allN (rendered (insideB "a".toList))) = some true := by
  decide +kernel

/-
  OPEN (final newline): the hypothesis `hin` always holds — every node of `parseDoc cfg src` other than
  `Root`, `Text`, `TextSpecial`, `Softbreak`, `Hardbreak` has a range `(a, b)` with `a < |src|` and
  `b ≤ |src|`.  Missing lemmas:
    (a) block nodes: `a < b ≤ |src|`.  `b ≤ |src|` is `doc_block_ranges` (Props/C05Doc.lean, under the
        `i32` hypothesis `4·|src| + 8 < 2³¹`) or `Block.LX.parseBlocks_in_lines` (no size hypothesis);
        NON-EMPTINESS `a < b` (every `get_map(start_line, _)` is called on a line that is not empty:
        `tokLoop` skips empty lines, list items / quotes start at their marker) is proved nowhere yet;
    (b) inline nodes `CodeInline`, `Em`, `Strong`, `Strikethrough`, `Link`, `Image`, `Autolink`: the OPEN
        `doc_inline_ranges` of Props/C05Doc.lean (`Lemmas/C05Inline*.lean`, in progress) plus non-emptiness.
  It is NOT true of `Softbreak` / `Hardbreak` in configurations without the paragraph rule (example (3)),
  which is why the hypothesis is restricted to the values that render attributes.
-/

/-! # Part 3: LF ↦ CR LF -/

/-- where LF ↦ CR LF moves the byte at offset `a` of a CR-free text -/
def shiftOf (src : List Char) (a : Nat) : Nat := a + C10SP.lfBelow src a

/-- the start of the range does not point at a line feed, and the end is not 0 -/
def anchoredB (src : List Char) (r : Nat × Nat) : Bool := decide (C10SP.Anchored src r)

theorem posAttr_crlf (src : List Char) (hcr : '\r' ∉ src) (r : Nat × Nat) (h : anchoredB src r = true) :
    posAttr (lfToCrlf src) (shiftOf src r.1, shiftOf src r.2) = posAttr src r := by
  have ha : C10SP.Anchored src r := by simpa [anchoredB] using h
  have h1 := C10SP.getPosition_crlf_start src hcr r.1 ha.1
  have h2 := C10SP.getPosition_crlf_end src hcr r.2 ha.2
  rw [C10SP.getPosition_run, C10SP.getPosition_run] at h1 h2
  simp only [Except.ok.injEq] at h1 h2
  simp only [posAttr, shiftOf, h1, h2]

/-- what is needed of ONE pair of inline runs: for the same text under the per-line tables of the LF and
    of the CR LF document, the nodes that render attributes have ranges moved by `f`, all else equal -/
def InlineExact (icfg : Inline.Cfg) (f : Nat → Nat) (c : List Char) (m₁ m₂ : InlineOps.Srcmap) : Prop :=
  ∀ ns₁ ns₂, Inline.parseInline icfg c m₁ = .ok ns₁ → Inline.parseInline icfg c m₂ = .ok ns₂ →
    rmapList id true (ofInlineList ns₂) = rmapList f true (ofInlineList ns₁)

mutual
/-- `P` at every pair of `InlineRoot` placeholders the splice walk visits in two block trees of the
    same shape -/
def PlN2 (P : List Char → InlineOps.Srcmap → InlineOps.Srcmap → Prop) : Block.BNode → Block.BNode → Prop
  | ⟨_, _, c₁⟩, ⟨_, _, c₂⟩ => PlL2 P c₁ c₂
def PlL2 (P : List Char → InlineOps.Srcmap → InlineOps.Srcmap → Prop) : List Block.BNode → List Block.BNode → Prop
  | x :: xs, y :: ys =>
    (match x.kind, y.kind with
     | .inlineRoot c m₁, .inlineRoot _ m₂ => P c m₁ m₂
     | _, _ => PlN2 P x y) ∧ PlL2 P xs ys
  | _, _ => True
end

theorem rangeOf_rel {ρsrc : List Char} {k : Kind} {r₁ r₂ : Option (Nat × Nat)}
    (h : RgRel (C10SP.crlfRel ρsrc) r₁ r₂) :
    rangeOf id true k r₂ = rangeOf (shiftOf ρsrc) true k r₁ := by
  unfold rangeOf
  split
  · rfl
  · match r₁, r₂, h with
    | none, none, _ => rfl
    | some x, some y, h =>
      obtain ⟨h1, h2⟩ := h
      unfold C10SP.crlfRel at h1 h2
      simp [mapRange, shiftOf, h1, h2]

mutual
/-- the splice walk on two block trees related by the EXACT offset relation -/
theorem spliceNode_exact {icfg : Inline.Cfg} {src : List Char} : ∀ (b₁ b₂ : Block.BNode) (t₁ t₂ : Node),
    NRel (C10SP.crlfRel src) b₁ b₂ → (∀ c m, b₁.kind ≠ .inlineRoot c m) →
    PlN2 (InlineExact icfg (shiftOf src)) b₁ b₂ →
    spliceNode icfg b₁ = .ok t₁ → spliceNode icfg b₂ = .ok t₂ →
    rmap id true t₂ = rmap (shiftOf src) true t₁
  | ⟨k₁, r₁, c₁⟩, ⟨k₂, r₂, c₂⟩, t₁, t₂, hn, hk, hp, h₁, h₂ => by
    simp only [NRel] at hn
    simp only [PlN2] at hp
    have hkk : k₂ = k₁ := hn.1.eq_of_not_inline hk
    subst hkk
    simp only [spliceNode] at h₁ h₂
    split at h₁
    · cases h₁
    · rename_i o₁ ho₁
      split at h₂
      · cases h₂
      · rename_i o₂ ho₂
        cases h₁; cases h₂
        simp only [rmap, rangeOf_rel hn.2.1, spliceList_exact c₁ c₂ o₁ o₂ hn.2.2 hp ho₁ ho₂]
theorem spliceList_exact {icfg : Inline.Cfg} {src : List Char} : ∀ (c₁ c₂ : List Block.BNode) (o₁ o₂ : List Node),
    NRelL (C10SP.crlfRel src) c₁ c₂ → PlL2 (InlineExact icfg (shiftOf src)) c₁ c₂ →
    spliceList icfg c₁ = .ok o₁ → spliceList icfg c₂ = .ok o₂ →
    rmapList id true o₂ = rmapList (shiftOf src) true o₁
  | [], [], o₁, o₂, _, _, h₁, h₂ => by
    simp only [spliceList, Except.ok.injEq] at h₁ h₂
    subst h₁ h₂; rfl
  | [], _ :: _, _, _, hn, _, _, _ => by simp only [NRelL] at hn
  | _ :: _, [], _, _, hn, _, _, _ => by simp only [NRelL] at hn
  | x :: xs, y :: ys, o₁, o₂, hn, hp, h₁, h₂ => by
    obtain ⟨hxy, hrest⟩ := hn.cons_inv
    have hk := hxy.kind
    simp only [PlL2] at hp
    obtain ⟨hp1, hp2⟩ := hp
    simp only [spliceList] at h₁
    split at h₁
    · -- an `InlineRoot` on side 1, hence on side 2
      rename_i content m₁ hk₁
      have hy : ∃ m₂, y.kind = .inlineRoot content m₂ := by
        rw [hk₁] at hk
        rcases hk with hk | ⟨c, a, b, e1, e2, _⟩
        · exact ⟨m₁, hk.symm⟩
        · cases e1; exact ⟨b, e2⟩
      obtain ⟨m₂, hy⟩ := hy
      rw [hk₁, hy] at hp1
      simp only at hp1
      simp only [spliceList, hy] at h₂
      split at h₁
      · cases h₁
      · rename_i ns₁ hns₁
        split at h₁
        · cases h₁
        · rename_i q₁ hq₁
          cases h₁
          split at h₂
          · cases h₂
          · rename_i ns₂ hns₂
            split at h₂
            · cases h₂
            · rename_i q₂ hq₂
              cases h₂
              have e1 := hp1 ns₁ ns₂ hns₁ hns₂
              have e2 := spliceList_exact xs ys q₁ q₂ hrest hp2 hq₁ hq₂
              simp only [rmapList_eq_map, List.map_append] at e1 e2 ⊢
              rw [e1, e2]
    · -- anything else: the same kind on side 2
      rename_i hne₁
      have hy : y.kind = x.kind := hk.eq_of_not_inline (fun c m e => hne₁ c m e)
      have hp1' : PlN2 (InlineExact icfg (shiftOf src)) x y := by
        revert hp1
        split
        · rename_i e1 _
          exact absurd e1 (hne₁ _ _)
        · exact id
      simp only [spliceList] at h₂
      split at h₂
      · rename_i c m hyk
        rw [hy] at hyk
        exact absurd hyk (hne₁ c m)
      · split at h₁
        · cases h₁
        · rename_i t₁ ht₁
          split at h₁
          · cases h₁
          · rename_i q₁ hq₁
            cases h₁
            split at h₂
            · cases h₂
            · rename_i t₂ ht₂
              split at h₂
              · cases h₂
              · rename_i q₂ hq₂
                cases h₂
                simp only [rmapList, spliceNode_exact x y t₁ t₂ hxy (fun c m e => hne₁ c m e) hp1' ht₁ ht₂,
                  spliceList_exact xs ys q₁ q₂ hrest hp2 hq₁ hq₂]
end

mutual
theorem nrel_mono {ρ ρ' : Nat → Nat → Prop} (h : ∀ a b, ρ a b → ρ' a b) :
    ∀ (n₁ n₂ : Block.BNode), NRel ρ n₁ n₂ → NRel ρ' n₁ n₂
  | ⟨k₁, r₁, c₁⟩, ⟨k₂, r₂, c₂⟩, hn => by
    simp only [NRel] at hn ⊢
    refine ⟨?_, ?_, nrelL_mono h c₁ c₂ hn.2.2⟩
    · rcases hn.1 with e | ⟨c, m₁, m₂, e1, e2, hm⟩
      · exact Or.inl e
      · refine Or.inr ⟨c, m₁, m₂, e1, e2, ?_⟩
        clear e1 e2
        induction m₁ generalizing m₂ with
        | nil => cases m₂ <;> simp_all [Block.LE.MRel]
        | cons p r ih =>
          cases m₂ with
          | nil => simp [Block.LE.MRel] at hm
          | cons p' r' => exact ⟨hm.1, h _ _ hm.2.1, ih r' hm.2.2⟩
    · match r₁, r₂, hn.2.1 with
      | none, none, _ => trivial
      | some x, some y, hr => exact ⟨h _ _ hr.1, h _ _ hr.2⟩
theorem nrelL_mono {ρ ρ' : Nat → Nat → Prop} (h : ∀ a b, ρ a b → ρ' a b) :
    ∀ (a b : List Block.BNode), NRelL ρ a b → NRelL ρ' a b
  | [], [], _ => by simp only [NRelL]
  | [], _ :: _, hn => by simp only [NRelL] at hn
  | _ :: _, [], hn => by simp only [NRelL] at hn
  | x :: xs, y :: ys, hn => by
    obtain ⟨h1, h2⟩ := hn.cons_inv
    exact Block.LE.NRelL.cons (nrel_mono h x y h1) (nrelL_mono h xs ys h2)
end

/-- **LF ↦ CR LF with sourcepos, from the exact block relation.** -/
theorem doc_crlf_sp_of_blocks (x : Bool) (cfg : DocCfg) (src : List Char) (hsp : cfg.sourcepos = true)
    (hcr : '\r' ∉ src)
    (hb : BRes (C10SP.crlfRel src) (Block.parseBlocks cfg.blockCfg src) (Block.parseBlocks cfg.blockCfg (lfToCrlf src)))
    (hinl : ∀ e, parseDoc cfg src ≠ .error (.inline e))
    (hix : ∀ root₁ refs₁ root₂ refs₂, Block.parseBlocks cfg.blockCfg src = .ok (root₁, refs₁) →
      Block.parseBlocks cfg.blockCfg (lfToCrlf src) = .ok (root₂, refs₂) →
      PlN2 (InlineExact (cfg.inlineCfg refs₁) (shiftOf src)) root₁ root₂)
    (hanch : ∀ t, parseDoc cfg src = .ok t → allN (rendered (anchoredB src)) t = true) :
    renderDoc x cfg (lfToCrlf src) = renderDoc x cfg src := by
  rcases hb with ⟨a, b, h1, h2, hk, hc, hr⟩ | ⟨e, h1, h2⟩
  · obtain ⟨hroot, _⟩ := Block.parseBlocks_wf h1
    have hix' := hix _ _ _ _ h1 h2
    obtain ⟨⟨k₁, r₁, c₁⟩, refs₁⟩ := a
    obtain ⟨⟨k₂, r₂, c₂⟩, refs₂⟩ := b
    simp only at hk hc hr hroot hix'
    subst hk hr hroot
    simp only [PlN2] at hix'
    rw [renderDoc_eq_renderOf, renderDoc_eq_renderOf]
    unfold parseDoc at hinl hanch ⊢
    rw [h1] at hinl hanch
    rw [h1, h2]
    simp only at hinl hanch ⊢
    rw [afterBlocks_sp cfg hsp] at hinl hanch ⊢
    rw [afterBlocks_sp cfg hsp]
    simp only [spliceNode] at hinl hanch ⊢
    cases hs₁ : spliceList (cfg.inlineCfg refs₁) c₁ with
    | error e =>
      exfalso
      obtain ⟨e', rfl⟩ := spliceList_error c₁ e hs₁
      rw [hs₁] at hinl
      exact hinl e' rfl
    | ok u₁ =>
      obtain ⟨u₂, hs₂⟩ := spliceList_ok_transfer c₁ c₂ u₁
        (nrelL_mono (fun a b (h : C10SP.crlfRel src a b) => by unfold C10SP.crlfRel at h; omega) c₁ c₂ hc) hs₁
      simp only [hs₁] at hanch
      simp only [hs₂]
      have hall := hanch _ rfl
      rw [allN_spPure _ (rendered_attrs _)] at hall
      have hu := spliceList_exact (icfg := cfg.inlineCfg refs₁) (src := src) c₁ c₂ u₁ u₂ hc hix' hs₁ hs₂
      have hT : rmap id true (joined cfg ⟨.blk .root, r₂, [], u₂⟩) =
          rmap (shiftOf src) true (joined cfg ⟨.blk .root, r₁, [], u₁⟩) := by
        rw [rmap_joined, rmap_joined]
        simp [rmap, rangeOf, Kind.rendersAttrs, hu]
      have := final_stage x cfg src (lfToCrlf src) (shiftOf src) (anchoredB src)
        (fun r h => posAttr_crlf src hcr r h) _ _ hT hall
      rw [sourceposNode_eq, sourceposNode_eq] at this
      exact this
  · unfold renderDoc parseDoc
    rw [h1, h2]


/-! ### `InlineExact` for inline content without attribute-rendering nodes -/

/-- no node of the tree renders attributes (`Text`, `TextSpecial`, breaks only) -/
def plainB (n : Node) : Bool := !n.kind.rendersAttrs

mutual
theorem rmap_plain (f : Nat → Nat) : ∀ t : Node, allN plainB t = true → rmap f true t = eraseRanges t
  | ⟨k, r, a, cs⟩, h => by
    simp only [allN, Bool.and_eq_true, plainB, Bool.not_eq_true'] at h
    simp only [rmap, eraseRanges, rangeOf, h.1, Bool.not_false, Bool.and_self, if_true,
      rmapList_plain f cs h.2]
theorem rmapList_plain (f : Nat → Nat) : ∀ l : List Node, allNList plainB l = true →
    rmapList f true l = eraseRangesList l
  | [], _ => rfl
  | c :: cs, h => by
    simp only [allNList, Bool.and_eq_true] at h
    simp only [rmapList, eraseRangesList, rmap_plain f c h.1, rmapList_plain f cs h.2]
end

mutual
theorem allN_plain_erase : ∀ t : Node, allN plainB (eraseRanges t) = allN plainB t
  | ⟨k, r, a, cs⟩ => by simp only [eraseRanges, allN, plainB, allNList_plain_erase cs]
theorem allNList_plain_erase : ∀ l : List Node, allNList plainB (eraseRangesList l) = allNList plainB l
  | [] => rfl
  | c :: cs => by simp only [eraseRangesList, allNList, allN_plain_erase c, allNList_plain_erase cs]
end

/-- an inline run that produces `Text` / `TextSpecial` / break nodes only is `InlineExact` for ANY pair
    of tables and any `f` (`inline_range_free`: the two runs differ in ranges only, and none of these
    ranges is rendered) — `hix` holds at every paragraph without emphasis, links, images, code spans
    and autolinks -/
theorem inlineExact_of_plain (icfg : Inline.Cfg) (f : Nat → Nat) (c : List Char) (m₁ m₂ : InlineOps.Srcmap)
    (hplain : ∀ ns₁, Inline.parseInline icfg c m₁ = .ok ns₁ → allNList plainB (ofInlineList ns₁) = true) :
    InlineExact icfg f c m₁ m₂ := by
  intro ns₁ ns₂ h₁ h₂
  have he := inline_range_free icfg c m₁ m₂ ns₁ ns₂ h₁ h₂
  have hp₁ := hplain ns₁ h₁
  have hp₂ : allNList plainB (ofInlineList ns₂) = true := by
    rw [← allNList_plain_erase, ← he, allNList_plain_erase]; exact hp₁
  rw [rmapList_plain id _ hp₂, rmapList_plain f _ hp₁, he]

/-- **C10 with sourcepos, LF ↦ CR LF (partial)**: the HTML with its `data-sourcepos` attributes does not
    change, PROVIDED (`hinl`, as in `doc_crlf_invariant`) the inline pass does not panic on `src`,
    (`hix`) every pair of inline runs of the two documents is `InlineExact` — the ranges of `CodeInline`,
    `Em` / `Strong` / `Strikethrough`, `Link`, `Image`, `Autolink` nodes move with their bytes —, and
    (`hanch`) no attribute-rendering node of the tree of `src` starts AT a line feed or has a range
    ending at 0.  The block half needs no hypothesis: `Block.LX.parseBlocks_crlf_exact`
    (`Lemmas/C10SourceposSim*.lean`) relates every block range and every value of a per-line table of
    the two block trees by `b = a + #LF before a`. -/
theorem doc_crlf_invariant_sp_partial (x : Bool) (cfg : DocCfg) (src : List Char) (hsp : cfg.sourcepos = true)
    (hcr : '\r' ∉ src)
    (hinl : ∀ e, parseDoc cfg src ≠ .error (.inline e))
    (hix : ∀ root₁ refs₁ root₂ refs₂, Block.parseBlocks cfg.blockCfg src = .ok (root₁, refs₁) →
      Block.parseBlocks cfg.blockCfg (lfToCrlf src) = .ok (root₂, refs₂) →
      PlN2 (InlineExact (cfg.inlineCfg refs₁) (shiftOf src)) root₁ root₂)
    (hanch : ∀ t, parseDoc cfg src = .ok t → allN (rendered (anchoredB src)) t = true) :
    renderDoc x cfg (lfToCrlf src) = renderDoc x cfg src :=
  doc_crlf_sp_of_blocks x cfg src hsp hcr (Block.LX.parseBlocks_crlf_exact cfg.blockCfg src hcr) hinl hix hanch

/-! ## non-vacuity: the hypotheses evaluated on a document -/

mutual
def beqN : Node → Node → Bool
  | ⟨k₁, r₁, a₁, c₁⟩, ⟨k₂, r₂, a₂, c₂⟩ => decide (k₁ = k₂) && decide (r₁ = r₂) && decide (a₁ = a₂) && beqL c₁ c₂
def beqL : List Node → List Node → Bool
  | [], [] => true
  | x :: xs, y :: ys => beqN x y && beqL xs ys
  | _, _ => false
end

mutual
theorem beqN_sound : ∀ (a b : Node), beqN a b = true → a = b
  | ⟨k₁, r₁, a₁, c₁⟩, ⟨k₂, r₂, a₂, c₂⟩, h => by
    simp only [beqN, Bool.and_eq_true, decide_eq_true_eq] at h
    obtain ⟨⟨⟨h1, h2⟩, h3⟩, h4⟩ := h
    rw [h1, h2, h3, beqL_sound c₁ c₂ h4]
theorem beqL_sound : ∀ (a b : List Node), beqL a b = true → a = b
  | [], [], _ => rfl
  | [], _ :: _, h => by simp [beqL] at h
  | _ :: _, [], h => by simp [beqL] at h
  | x :: xs, y :: ys, h => by
    simp only [beqL, Bool.and_eq_true] at h
    rw [beqN_sound x y h.1, beqL_sound xs ys h.2]
end

/-- `InlineExact`, evaluated -/
def inlineExactB (icfg : Inline.Cfg) (f : Nat → Nat) (c : List Char) (m₁ m₂ : InlineOps.Srcmap) : Bool :=
  match Inline.parseInline icfg c m₁, Inline.parseInline icfg c m₂ with
  | .ok ns₁, .ok ns₂ => beqL (rmapList id true (ofInlineList ns₂)) (rmapList f true (ofInlineList ns₁))
  | _, _ => true

theorem inlineExactB_sound {icfg : Inline.Cfg} {f : Nat → Nat} {c : List Char} {m₁ m₂ : InlineOps.Srcmap}
    (h : inlineExactB icfg f c m₁ m₂ = true) : InlineExact icfg f c m₁ m₂ := by
  intro ns₁ ns₂ h₁ h₂
  unfold inlineExactB at h
  rw [h₁, h₂] at h
  exact beqL_sound _ _ h

mutual
def plN2B (p : List Char → InlineOps.Srcmap → InlineOps.Srcmap → Bool) : Block.BNode → Block.BNode → Bool
  | ⟨_, _, c₁⟩, ⟨_, _, c₂⟩ => plL2B p c₁ c₂
def plL2B (p : List Char → InlineOps.Srcmap → InlineOps.Srcmap → Bool) : List Block.BNode → List Block.BNode → Bool
  | x :: xs, y :: ys =>
    (match x.kind, y.kind with
     | .inlineRoot c m₁, .inlineRoot _ m₂ => p c m₁ m₂
     | _, _ => plN2B p x y) && plL2B p xs ys
  | _, _ => true
end

mutual
theorem plN2B_sound {p : List Char → InlineOps.Srcmap → InlineOps.Srcmap → Bool}
    {P : List Char → InlineOps.Srcmap → InlineOps.Srcmap → Prop} (hp : ∀ c m₁ m₂, p c m₁ m₂ = true → P c m₁ m₂) :
    ∀ (a b : Block.BNode), plN2B p a b = true → PlN2 P a b
  | ⟨_, _, c₁⟩, ⟨_, _, c₂⟩, h => by
    simp only [plN2B] at h
    simp only [PlN2]
    exact plL2B_sound hp c₁ c₂ h
theorem plL2B_sound {p : List Char → InlineOps.Srcmap → InlineOps.Srcmap → Bool}
    {P : List Char → InlineOps.Srcmap → InlineOps.Srcmap → Prop} (hp : ∀ c m₁ m₂, p c m₁ m₂ = true → P c m₁ m₂) :
    ∀ (a b : List Block.BNode), plL2B p a b = true → PlL2 P a b
  | [], _, _ => by simp only [PlL2]
  | _ :: _, [], _ => by simp only [PlL2]
  | x :: xs, y :: ys, h => by
    simp only [plL2B, Bool.and_eq_true] at h
    simp only [PlL2]
    refine ⟨?_, plL2B_sound hp xs ys h.2⟩
    have h1 := h.1
    revert h1
    split
    · rename_i e1 e2
      intro h1
      exact hp _ _ _ h1
    · intro h1
      exact plN2B_sound hp x y h1
end

/-- emphasis over a line break, a code span, a list item with a link on a continuation line -/
def exDoc2 : List Char := "*a\nb* `c`\n\n- x\n  [y](z)".toList

theorem exDoc2_hyps :
    '\r' ∉ exDoc2 ∧ (∀ e, parseDoc (exCfg true 100) exDoc2 ≠ .error (.inline e)) ∧
    (∀ root₁ refs₁ root₂ refs₂, Block.parseBlocks (exCfg true 100).blockCfg exDoc2 = .ok (root₁, refs₁) →
      Block.parseBlocks (exCfg true 100).blockCfg (lfToCrlf exDoc2) = .ok (root₂, refs₂) →
      PlN2 (InlineExact ((exCfg true 100).inlineCfg refs₁) (shiftOf exDoc2)) root₁ root₂) ∧
    (∀ t, parseDoc (exCfg true 100) exDoc2 = .ok t → allN (rendered (anchoredB exDoc2)) t = true) := by
  refine ⟨by decide, not_inline_of (by decide +kernel), ?_, ?_⟩
  · intro root₁ refs₁ root₂ refs₂ h₁ h₂
    have : (match Block.parseBlocks (exCfg true 100).blockCfg exDoc2,
        Block.parseBlocks (exCfg true 100).blockCfg (lfToCrlf exDoc2) with
      | .ok (r₁, rf₁), .ok (r₂, _) =>
        plN2B (inlineExactB ((exCfg true 100).inlineCfg rf₁) (shiftOf exDoc2)) r₁ r₂
      | _, _ => false) = true := by decide +kernel
    rw [h₁, h₂] at this
    exact plN2B_sound (fun c m₁ m₂ h => inlineExactB_sound h) _ _ this
  · intro t ht
    have : (parseDoc (exCfg true 100) exDoc2).toOption.map (allN (rendered (anchoredB exDoc2))) = some true := by
      decide +kernel
    rw [ht] at this
    simpa [Except.toOption] using this

example (x : Bool) : renderDoc x (exCfg true 100) (lfToCrlf exDoc2) = renderDoc x (exCfg true 100) exDoc2 :=
  doc_crlf_invariant_sp_partial x _ _ rfl exDoc2_hyps.1 exDoc2_hyps.2.1 exDoc2_hyps.2.2.1 exDoc2_hyps.2.2.2

/-- the instance is not trivial: seven positions, two of them on the second line of a node -/
example : (parseDoc (exCfg true 100) exDoc2).toOption.map (fun t => (spValues t).filter (fun p => p.1 ≠ .T ∧ p.1 ≠ .SB)) =
    some [(.root, "1:1-5:8".toList), (.p, "1:1-2:6".toList), (.E, "1:1-2:2".toList), (.C, "2:4-2:6".toList),
      (.ul, "4:1-5:8".toList), (.li, "4:1-5:8".toList), (.L, "5:3-5:8".toList)] := by decide +kernel

/-
  OPEN (LF ↦ CR LF with sourcepos) — what separates `doc_crlf_invariant_sp_partial` from
      theorem doc_crlf_invariant_sp (x cfg src) (hsp : cfg.sourcepos = true) (hcr : '\r' ∉ src) :
          renderDoc x cfg (lfToCrlf src) = renderDoc x cfg src

   1. `hix` — EXACTNESS of the inline parser in its per-line table:
          theorem parseInline_exact (icfg) (src content m₁ m₂) (hm : MRel (C10SP.crlfRel src) m₁ m₂)
              (htab : m₁ is a table `get_lines` (or the ATX rule) made for `content` out of lines of `src`) :
              InlineExact icfg (shiftOf src) content m₁ m₂
      `Lemmas/C10DocInline.lean` proves the ORDER version only (`inline_ok_transfer_rel`: ranges `≤`).
      The exact version is a statement about every place where the inline parser computes with SOURCE
      offsets: `get_map` (a position is translated by the entry of ITS line: fine as long as the position
      lies inside the bytes that entry describes — false for the virtual spaces of a split tab and for
      the break behind the last line of the no-paragraph fallback, both of which only occur in `Text` /
      break nodes), `end - marker_len` / `start + marker_len` of the delimiter matching (the marker run
      lies inside one line), `map_end - count` of `trailing_text_pop`, the hull of `trailing_text_push`.
      It is FALSE for arbitrary tables and FALSE for break nodes (part 2, example (2), second half: `Hardbreak (1,4)`
      in both texts under the one-entry table), hence the restriction of `rmap … true` to the values
      that render attributes.  It contains the OPEN `doc_inline_ranges` of Props/C05Doc.lean.
   2. `hanch` — no block node and no `CodeInline` / `Em` / … / `Autolink` node starts at a line feed or
      ends at offset 0: non-emptiness of ranges (`a < b`, first byte a byte of the node).  For block
      nodes: every `get_map(start_line, _)` is called with a non-empty `start_line` (as OPEN (a) of
      part 2); `Block.LX.parseBlocks_in_lines` already gives "inside a line, ends included".
   3. `hinl` — as in Props/C10Doc.lean (equal inline PANICS on the two tables).
-/

end MdIt.Pipeline
