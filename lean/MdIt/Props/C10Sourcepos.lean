/-
  C10 at whole-document level WITH the sourcepos plugin (`cfg.sourcepos = true`): the HTML including
  the `data-sourcepos="l:c-l:c"` attributes under the three rewritings of the line endings.

      doc_cr_invariant_sp             '\r' ∉ src →  renderDoc x cfg (lfToCr src) = renderDoc x cfg src
                                      NO further hypothesis; `doc_cr_invariant_all`: every `cfg`.
      doc_final_newline_invariant_sp  src does not end with LF / CR, and every node of the tree of `src`
                                      that RENDERS its attributes has its range inside `src`
                                      (`Inside`: start `< |src|`, end `≤ |src|`)
                                                 →  renderDoc x cfg (src ++ "\n") = renderDoc x cfg src
      doc_crlf_invariant_sp_partial   see part 3.

  What decides (found with `#eval` on the model, then proved as the lemmas of
  `Lemmas/C10SourceposPos.lean`): `get_position(o)` is the state of a fold over the characters that start
  at an offset `≤ o` (`runSt`, Props/C15.lean); an offset that points AT a line terminator gets the
  position `(next line, column 0)` when the terminator is LF or a lone CR, but `(this line, last
  column + 1)` when it is the CR of a CR LF pair; an offset past the end is clamped to the last
  character.  Hence
    * LF ↦ CR changes no position at all (same offsets, one-byte terminators that both end the line);
    * a final LF changes the position of exactly the offsets `≥ |src|` (clamped before, `(L+1, 0)` after);
    * LF ↦ CR LF with offsets moved by the number of line feeds before them keeps the position of every
      range END (`get_positions` reads it at `end - 1`: for an end at a line start that is the LF in both
      texts) and of every range START that does not point at a line feed.
  Which nodes have ranges that touch a terminator or the end of the text?  The root (`(0, |src|+1)` after
  a final LF), `Softbreak` / `Hardbreak` (the range covers the terminator: `"a  \nb"` ↦ `Hardbreak (1, 4)`,
  `(1, 5)` with CR LF), and in configurations WITHOUT the paragraph rule the break at the end of every
  line (`Softbreak (1, 2)` for `"a"`, outside the text: the finding of Props/C05Doc.lean).  NONE of
  these values renders `node.attrs` (`Root::render` only renders the children, `Softbreak` is
  `fmt.cr()`, `Hardbreak` is `fmt.self_close("br", &[])` — an explicit EMPTY attribute list), so the
  HTML is invariant although the TREES (`data-sourcepos` entries of `node.attrs`) are not: witnesses
  at the end of part 2.
-/
import MdIt.Lemmas.C10SourceposTree
import MdIt.Props.DocTotal

namespace MdIt.Pipeline
open MdIt
open MdIt.Block.LE (FRel BRes BlocksRel NRel NRelL KRel MRel RgRel)
open MdIt.Lines (lfToCrlf lfToCr)
open MdIt.SourceMap (runSt mkMarks)

/-! # Part 1: two sources whose block trees agree below the root -/

mutual
theorem allN_spPure (p : Node → Bool) (hp : ∀ k r a a' cs cs', p ⟨k, r, a, cs⟩ = p ⟨k, r, a', cs'⟩)
    (src : List Char) (t : Node) : allN p (spPure src t) = allN p t := by
  match t with
  | ⟨k, r, a, cs⟩ =>
    simp only [spPure, allN, allNList_spPure p hp src cs]
    rw [hp k r _ a _ cs]
theorem allNList_spPure (p : Node → Bool) (hp : ∀ k r a a' cs cs', p ⟨k, r, a, cs⟩ = p ⟨k, r, a', cs'⟩)
    (src : List Char) (cs : List Node) : allNList p (spPureList src cs) = allNList p cs := by
  match cs with
  | [] => rfl
  | c :: r => simp only [spPureList, allNList, allN_spPure p hp src c, allNList_spPure p hp src r]
end

theorem rendered_attrs (q : Nat × Nat → Bool) (k : Kind) (r : Option (Nat × Nat))
    (a a' : List (List Char × List Char)) (cs cs' : List Node) :
    rendered q ⟨k, r, a, cs⟩ = rendered q ⟨k, r, a', cs'⟩ := rfl

mutual
theorem allN_true (t : Node) : allN (rendered fun _ => true) t = true := by
  match t with
  | ⟨k, r, a, cs⟩ =>
    simp only [allN, allNList_true cs, Bool.and_true, rendered]
    cases r <;> simp
theorem allNList_true (cs : List Node) : allNList (rendered fun _ => true) cs = true := by
  match cs with
  | [] => rfl
  | c :: r => simp only [allNList, allN_true c, allNList_true r, Bool.and_self]
end

/-- the tree `afterBlocks` hands to the sourcepos pass -/
def joined (cfg : DocCfg) (t : Node) : Node := if cfg.hasJoin = true then joinNode t else t

theorem rmap_joined (cfg : DocCfg) (f : Nat → Nat) (nr : Bool) (t : Node) :
    rmap f nr (joined cfg t) = joined cfg (rmap f nr t) := by
  unfold joined
  split
  · exact rmap_joinNode f nr t
  · rfl

theorem afterBlocks_sp (cfg : DocCfg) (hsp : cfg.sourcepos = true) (src : List Char) (root : Block.BNode)
    (refs : Refs.RefMap) :
    afterBlocks cfg src root refs =
      match spliceNode (cfg.inlineCfg refs) root with
      | .error e => .error e
      | .ok t => .ok (spPure src (joined cfg t)) := by
  unfold afterBlocks
  cases spliceNode (cfg.inlineCfg refs) root with
  | error e => rfl
  | ok t => simp only [hsp, if_true, sourceposNode_eq, joined]

/-- the core chain behind the block pass, sourcepos on, on two block roots with the SAME children -/
theorem afterBlocks_same_children (x : Bool) (cfg : DocCfg) (hsp : cfg.sourcepos = true) (s₁ s₂ : List Char)
    (q : Nat × Nat → Bool) (hq : ∀ r, q r = true → posAttr s₂ r = posAttr s₁ r)
    (r₁ r₂ : Option (Nat × Nat)) (cs : List Block.BNode) (refs : Refs.RefMap)
    (hall : ∀ t, afterBlocks cfg s₁ ⟨.root, r₁, cs⟩ refs = .ok t → allN (rendered q) t = true) :
    renderOf x cfg (afterBlocks cfg s₂ ⟨.root, r₂, cs⟩ refs) =
      renderOf x cfg (afterBlocks cfg s₁ ⟨.root, r₁, cs⟩ refs) := by
  rw [afterBlocks_sp cfg hsp, afterBlocks_sp cfg hsp] at *
  simp only [spliceNode] at *
  cases hs : spliceList (cfg.inlineCfg refs) cs with
  | error e => rfl
  | ok cs' =>
    simp only [hs] at hall
    have hall' := hall _ rfl
    rw [allN_spPure _ (rendered_attrs q)] at hall'
    have hT : rmap id true (joined cfg ⟨.blk .root, r₂, [], cs'⟩) =
        rmap id true (joined cfg ⟨.blk .root, r₁, [], cs'⟩) := by
      rw [rmap_joined, rmap_joined]
      simp [rmap, rangeOf, Kind.rendersAttrs]
    have := final_stage x cfg s₁ s₂ id q (fun r h => hq r h) _ _ hT hall'
    rw [sourceposNode_eq, sourceposNode_eq] at this
    exact this

/-- two sources whose block passes agree up to the root's range render alike WITH `data-sourcepos`,
    when the ranges of the attribute-rendering nodes have the same positions in both -/
theorem renderDoc_of_blocks_eq_sp (x : Bool) (cfg : DocCfg) (s₁ s₂ : List Char) (hsp : cfg.sourcepos = true)
    (h : BRes Eq (Block.parseBlocks cfg.blockCfg s₁) (Block.parseBlocks cfg.blockCfg s₂))
    (q : Nat × Nat → Bool) (hq : ∀ r, q r = true → posAttr s₂ r = posAttr s₁ r)
    (hall : ∀ t, parseDoc cfg s₁ = .ok t → allN (rendered q) t = true) :
    renderDoc x cfg s₂ = renderDoc x cfg s₁ := by
  rcases h with ⟨a, b, h1, h2, hk, hc, hr⟩ | ⟨e, h1, h2⟩
  · obtain ⟨hroot, _⟩ := Block.parseBlocks_wf h1
    obtain ⟨⟨k₁, r₁, c₁⟩, refs₁⟩ := a
    obtain ⟨⟨k₂, r₂, c₂⟩, refs₂⟩ := b
    simp only at hk hc hr hroot
    subst hk hr hroot
    have := Block.LE.NRelL.eq hc; subst this
    rw [renderDoc_eq_renderOf, renderDoc_eq_renderOf]
    unfold parseDoc at hall ⊢
    rw [h1] at hall
    rw [h1, h2]
    exact afterBlocks_same_children x cfg hsp s₁ s₂ q hq r₁ r₂ c₁ refs₁ hall
  · unfold renderDoc parseDoc
    rw [h1, h2]

/-! # Part 2: LF ↦ CR and the final newline -/

/-- **C10 with sourcepos, LF ↦ CR**: the HTML with its `data-sourcepos` attributes does not change.
    No hypothesis beyond `'\r' ∉ src`. -/
theorem doc_cr_invariant_sp (x : Bool) (cfg : DocCfg) (src : List Char) (hsp : cfg.sourcepos = true)
    (hcr : '\r' ∉ src) : renderDoc x cfg (lfToCr src) = renderDoc x cfg src :=
  renderDoc_of_blocks_eq_sp x cfg _ _ hsp
    (Block.LE.parseBlocks_cr cfg.blockCfg src hcr (.inr (Block.parseBlocks_fuel _ _)))
    (fun _ => true)
    (fun r _ => by simp only [posAttr, C10SP.runSt_lfToCr src hcr])
    (fun t _ => allN_true t)

/-- **C10, LF ↦ CR, every configuration** (with or without the sourcepos plugin) -/
theorem doc_cr_invariant_all (x : Bool) (cfg : DocCfg) (src : List Char) (hcr : '\r' ∉ src) :
    renderDoc x cfg (lfToCr src) = renderDoc x cfg src := by
  cases hsp : cfg.sourcepos with
  | false => exact doc_cr_invariant_full x cfg src hsp hcr
  | true => exact doc_cr_invariant_sp x cfg src hsp hcr

/-- the range lies inside the text: it starts at one of its bytes and ends at or before its end -/
def insideB (src : List Char) (r : Nat × Nat) : Bool := decide (C10SP.Inside src r)

/-- **C10 with sourcepos, final newline**: if every node of the tree of `src` that renders its
    attributes (everything but `Root`, `Text`, `TextSpecial`, `Softbreak`, `Hardbreak`) has its range
    inside `src`, a final LF does not change the HTML with its `data-sourcepos` attributes. -/
theorem doc_final_newline_invariant_sp (x : Bool) (cfg : DocCfg) (src : List Char) (hsp : cfg.sourcepos = true)
    (hlast : src.getLast? ≠ some '\n' ∧ src.getLast? ≠ some '\r')
    (hin : ∀ t, parseDoc cfg src = .ok t → allN (rendered (insideB src)) t = true) :
    renderDoc x cfg (src ++ ['\n']) = renderDoc x cfg src :=
  renderDoc_of_blocks_eq_sp x cfg _ _ hsp
    (Block.LE.parseBlocks_final_newline cfg.blockCfg src hlast (.inr (Block.parseBlocks_fuel _ _)))
    (insideB src)
    (fun r h => by
      have hi : C10SP.Inside src r := by simpa [insideB] using h
      have h3 : C10SP.endOff r.2 + 1 ≤ SourceMap.byteLen src := by
        unfold C10SP.endOff; split <;> have := hi.1 <;> have := hi.2 <;> omega
      simp only [posAttr]
      rw [C10SP.runSt_append_left src ['\n'] 1 0 _ (by have := hi.1; omega) (.inl hlast.2),
        C10SP.runSt_append_left src ['\n'] 1 0 _ h3 (.inl hlast.2)])
    hin

/-! ## non-vacuity, necessity, and what is NOT invariant -/

/-- the document of `Props/C10Doc.lean`: all hypotheses hold (stock chain, sourcepos on) -/
theorem exDoc_inside : ∀ t, parseDoc (exCfg true 100) exDoc = .ok t → allN (rendered (insideB exDoc)) t = true := by
  intro t ht
  have : (parseDoc (exCfg true 100) exDoc).toOption.map (allN (rendered (insideB exDoc))) = some true := by
    decide +kernel
  rw [ht] at this
  simpa [Except.toOption] using this

example (x : Bool) : renderDoc x (exCfg true 100) (lfToCr exDoc) = renderDoc x (exCfg true 100) exDoc :=
  doc_cr_invariant_sp x _ _ rfl exDoc_hyps.1

example (x : Bool) : renderDoc x (exCfg true 100) (exDoc ++ ['\n']) = renderDoc x (exCfg true 100) exDoc :=
  doc_final_newline_invariant_sp x _ _ rfl exDoc_hyps.2.1 exDoc_inside

/-- the output in question carries positions (3 attributes: 130 characters instead of 55) -/
example : (renderDoc false (exCfg true 100) exDoc).toOption.map List.length = some 130 := by decide +kernel

end MdIt.Pipeline
