/-
  C01, inline pass: towards the ONE open lemma of `Props/InlineTotal.lean`
  (`memoSafe_of_coherent`: the guard of the guarded tokenizer — a `skip_token` memo hit whose stored
  end lies beyond the current `pos_max` — never trips for `ChainCoherent` chains).

  WHAT IS PROVED HERE (all for every chain, every `max_nesting`, every content; no coherence needed):

   A. THE GUARD CAN ONLY MATTER AT THE ENTRY OF A NESTED LABEL FRAME.
      Look-ahead code (`skip_token`, the label walks, every rule in look-ahead mode) runs inside ONE
      frame: `pos_max` never changes and every memo entry it adds ends at or before `pos_max`.  So a
      frame whose memo is `Closed cache lo posMax` (every entry that STARTS in `[lo, posMax)` ENDS
      `≤ posMax`; `Lemmas/MemoSafeDef.lean`) stays closed, and inside it the guarded look-ahead IS the
      model's look-ahead: `lookahead_guard_free` (= `skip_guard_free`, `Lemmas/MemoSafeClosed.lean`),
      `parseLink_guard_free`; memo growth contract `skip_grow` / `parseLink_guard_grow` (`Grow`: old
      answers stay, keys below the walk untouched, new entries end `≤ pos_max`, the visited position
      is recorded).  The top frame starts with the empty memo, which is closed; a nested frame
      `[labelStart, labelEnd)` is closed iff the entry test `Closed cache labelStart labelEnd` holds.
      `Lemmas/MemoSafeEntry.lean` turns this into a theorem about whole runs: the ENTRY-CHECKED
      tokenizer `tokLoopE` (the MODEL tokenizer, no guard on memo hits, plus that one test at each
      nested `tokenize` call; `entrySafe` = it completes) — `entry_total`: a completed entry-checked
      run IS a completed guarded run with the same final state (real mode threaded through
      `linkRule_real_E … tokStep_E`); `entrySafe_memoSafe`, `parseInline_total_of_entrySafe`.

   B. L1 — REPLAY OF LABEL WALKS (`Lemmas/MemoSafeWalk.lean`, `MemoSafeLabel.lean`).
      `pwalk` = the label walk on the memo ALONE (no rule runs).
      `labelLoop_replay`  — where `pwalk` ends with a verdict, `labelLoop` over the model's or the
                            guarded `skip_token`, at ANY nesting level, returns that verdict at that
                            position and changes nothing (the memo does not grow);
      `labelLoop_records` — a completed `labelLoop` leaves a memo on which, and on every extension
                            of which, `pwalk` from the same start gives the same verdict;
      `pwalk_mono`, `pwalk_shrink_found`, `pwalk_frame` — more memo / smaller `pos_max`: under
                            `pos_max =` the label end it found, the walk is replayed up to that end
                            (no position without entry, no entry beyond `pos_max`);
      `pwalk_level_le`    — a walk over the same entries at a lower bracket level stops no later
                            (the ingredient of the laminarity argument);
      `parseLink_records`, `parseLink_path`, `parseLink_frame_replay`, `nested_walk_replay` — after a
                            successful `parse_link` (inline OR reference form, second label walk
                            included) the label walk is recorded, the memo has a path
                            `labelStart → … → labelEnd`, and inside the nested frame the walk from
                            `labelStart` is a pure replay.

   C. LAMINARITY ⇒ THE ENTRY CONDITION.
      `closed_of_path`: over a `Laminar` memo (no two entries cross: `k ≤ k' < v → v' ≤ v`) a memo
      path `a → … → b` is `Closed m a b`; with B: `frame_entry_closed_of_laminar`
      (= `parseLink_entry_closed_G`): if the memo `parse_link` returns is laminar, the nested frame
      starts closed.

   D. WINDOW INDEPENDENCE (`Lemmas/MemoSafeWindow.lean`, `MemoSafeWindow2.lean`): the look-ahead verdict
      of every rule without look-ahead recursion does not change when `pos_max` shrinks from `M` to
      `M'`, as long as the verdict ends `≤ M'` and the character at `M'` is `]` (or `M' = M`):
      `ruleText_window`, `ruleNewline_window`, `ruleEscape_window`, `ruleAutolink_window`,
      `ruleEntity_window`, `ruleBackticks_window` (code-span cache: any `CacheInv` cache),
      `parseInlineTail_window` (the `(dest "title")` tail; needs only boundaries, and `Link.DecOk` of
      the decoder — `decOk_unescapeAll`).  Each hypothesis is shown necessary by an example there.
      Packaged for `runRule`: `runRule_flat_window`.

   E. WHAT `ChainCoherent` MEANS (`Lemmas/MemoSafeFires.lean`): `silent_declines` — `RuleId.firesAt` is
      sound (a rule declines in look-ahead mode at a first character not in its list);
      `chain_declines_at_marker`, `skipStep_unit_at_marker` — for a coherent chain the look-ahead token
      at an emphasis marker is the single character (`pos ↦ pos + 1`): a real delimiter run covers
      single-character entries.

   F. (I3) AT CREATION AND L2 FOR LINKS (`Lemmas/MemoSafeRec.lean`): `skipStep_records_link` — the
      entry a look-ahead step makes at a `[` is the single character, or the memo records (for ever)
      a label walk from `pos + 1` that finds a `]` strictly inside the entry; `parseLinkLabel_replay` —
      the real link rule re-finds that label end in every frame with a smaller `pos_max` that
      contains it, at any level, on less fuel, by memo hits only, returning the state it was given;
      `parseLink_replay_inline` — a successful inline-form `parse_link` is replayed IDENTICALLY (same
      label, destination, title, end) in every such frame (L1 + D).

  ═══ SECOND PART (`Lemmas/MemoSafeLam*.lean`): a simpler architecture that avoids laminarity ═══

  KEY FACT (brute force, 0 exceptions in 11 million runs of coherent chains; check `NM-NESTED-MISS` of
  `/verif/work/w9-memo/Brute.lean`): a NESTED label frame never has a memo MISS.  Every memo entry is
  made by look-ahead that starts in the TOP frame, under the top `pos_max`; inside a link label the memo
  is constant and the real tokenizer walks along the entries of the label walk that found the label.
  The proof therefore has two halves, both by equality "guarded run = model run":

   G. TOP FRAME (`Lemmas/MemoSafeLamTop.lean`, generic in the predicate `P` of nested entry states):
      `TopInv` (same text, top `pos_max`, every memo entry ends `≤ pos_max` — so the frame is `Closed`
      and A applies — and carries its WITNESS `Just`: the `skipStep` call that made it, or it is an
      entry made over the nesting limit) is kept by all look-ahead (`skip_top`, `parseLink_top_G`) and
      by the real chain (`tokStep_top`); `top_total`, `parseInlineG_eq`,
      `parseInline_total_of_nested`: if at every state satisfying `P` the guarded nested run equals the
      model's and leaves the memo alone (`TokEqAt`), and every nested frame entered from the top frame
      satisfies `P` (`EntryP`), then `parseInline` is TOTAL.
      `entryP_NF` (`MemoSafeLamFinal.lean`): `EntryP` holds for `P := NF` — the invariant of nested
      states (`Lemmas/MemoSafeLamNF.lean`: constant memo with witnesses, the `]` at the frame end, and
      `Outer`: the position lies on a label walk over the memo that finds the frame end).
   H. PER-RULE COMPARISON (L2) between the witness state (look-ahead, top `pos_max`) and a nested real
      state (smaller `pos_max`, different tree / caches):
      `flat_L2` (text, newline, escape, autolink, entity), `real_silent_verdict`, `real_declines`,
      `emph_real_L2` (`MemoSafeLamFlat.lean`); `back_L2`, `back_L2_none`, `run_cache_indep`
      (`MemoSafeLamBack.lean`: code spans across caches — needs agreement on `inside_failed`, see OPEN);
      `parseLinkL2_link` (`MemoSafeLamLink.lean`): the real link rule's `parse_link` in a nested frame —
      inline form, full / collapsed / shortcut reference form, and every FAILING case — over any
      `skip_token` that follows memo hits, at any fuel, is one fixed result that leaves the state alone
      and, unless out of fuel, is the witness's result.  Tools (`MemoSafeLamWalk.lean`): `pwalk_below`
      (a walk at a strictly lower bracket level ends strictly earlier), `pwalk_through`,
      `pwalk_shrink`, `pwalk_det`, `pwalk_en`, `labelLoop_hits`, `parseLinkLabel_hits`;
      `witness_summary`, `walk_below_bracket`, `just_unit_at_closer`, `just_at_bracket`.
   I. NESTED FRAMES (`Lemmas/MemoSafeLamNest.lean`): `nested_eq` — from the statements of H (bundled as
      `NestHyps`), by induction on the fuel: every state satisfying `NF` has guarded nested run = model
      nested run, with the memo unchanged (`chain_L2`: the real chain at a position takes the step the
      witness of its memo entry took; `outer_marker_run`: a real delimiter run walks over
      single-character entries; `over_limit`: frames at `level ≥ max_nesting` run no rule).
   J. RESULT (`Lemmas/MemoSafeLamFinal.lean`): `parseInline_total_of_nestHyps` — `parseInline` is total
      whenever `NestHyps` holds; `parseInline_total_link` — **UNCONDITIONALLY total** for every
      `ChainCoherent` chain without the code-span rule and without the image rule (the link rule at
      most once): text, newline, escape, any emphasis-like pairs, link (inline and all reference
      forms, nesting to any depth, any `max_nesting`), autolink, entity.
      THIRD PART: the image rule is covered too (`Lemmas/MemoSafeLamImage.lean`: `parseLinkL2_core` for
      either rule, `just_link_call` — the witness of a link TOKEN of the memo exposes its `parse_link`
      call —, `parseLinkL2_image`): `parseInline_total_nocode` — UNCONDITIONALLY total for every
      `ChainCoherent` chain without the code-span rule (links AND images); and code spans for contents
      without two adjacent backticks: `parseInline_total_nodouble` — total for EVERY coherent chain, the
      stock chain with strikethrough included, when `NoDoubleTick content` (single-backtick code spans
      only: then no position is strictly inside a backtick run and `back_L2` applies).  Whole document
      (`Lemmas/MemoSafeLamDoc.lean`): `doc_total_nocode`, `doc_total_nodouble`, `doc_total_src` (hypotheses on
      the SOURCE only: no tab, no two adjacent backticks), `doc_total_stock` (below).
      FOURTH PART (`Lemmas/MemoSafeLamCS*.lean`, namespace `MdIt.Inline.CS`: copies of the top-frame and
      nested-frame developments with two more state invariants — `MK`: every unit memo entry whose end
      is strictly inside a backtick run is marked in the CURRENT `inside_failed`; `IFP`: a look-ahead or
      nested real state at a position strictly inside a run has it marked — `BackOK` with a `NoCut`
      premise, run-complete marks `InsideFull`, `endHyp_holds`: with `NoEscTickTick` the unit step at a
      backtick is the only token that ends strictly inside a run): `parseInline_total_noesctick` — total
      for EVERY coherent chain, the stock chain with strikethrough included, on contents without
      backslash-backtick-backtick (code spans with ANY backtick runs); `doc_total_noesctick`,
      `doc_total_src_noesc`, `doc_total_stock`.
      FIFTH PART (`Lemmas/MemoSafeLamES*.lean`, namespace `MdIt.Inline.ES`: the same two developments once
      more, with the position invariant `EPc` — a state at which rules run is never at an ESCAPED character
      (`esc`: odd number of backslashes right before) —, the cache invariant `NL` — no mark of
      `inside_failed` sits right behind an escaped character —, and `IFP` refined to positions whose
      previous character is not escaped; `endHyp_holds` without text hypothesis, `endEP_holds`,
      `stepEP_holds`, `landHyp_holds`): **`parseInline_total` — total for EVERY coherent chain on EVERY
      content**; `memoSafe_of_coherent`; whole document `doc_total_coherent_all`, `doc_total_src_all`,
      `doc_total_stock_notab` (FIFTH PART at the end of the file; what is still open: see there).
      (ABOUT `BackL2`, fourth and fifth part: `back_L2` needs the two caches to agree on
      `inside_failed.contains pos` — true at every position not strictly inside a backtick run
      (`inside_agree_of_not_interior`); at a position strictly inside a run (reached after a failed
      opener, or behind an escaped backtick) it is a fact about the HISTORY of the shared cache: the
      run start was tried before, with the same cache — `back_L2_needs_inside` shows the statement is
      false for arbitrary reachable caches).

  FIRST PART, conclusion: the open lemma is reduced to ONE static, global property of the memo:

      the memo is `Laminar` whenever the real link rule enters a nested frame.          (L3)

  EVIDENCE for (L3) (native instrumented copy, `/verif/work/w7-inlinetotal/` + the checks of this
  session; coherent chains incl. the stock one; `max_nesting` 1, 2, 3, 4, 100; three reference maps):
  the FINAL memo of every run is laminar, every nested frame starts closed, and (L2) every real
  tokenizer step at a position with a memo entry ends where the entry says — except over entries
  made over the nesting limit (`k ↦ pos_max`) and in frames at `level ≥ max_nesting` (no rule runs
  there) — in 45 million runs: exhaustive over `[]()!a` to length 7, over `[]!a(` to length 8, over
  ``[]a` `` to length 8, random over ``[]()!a`*\ `` (length 14) and ``[]!a` `` (length 12).
  The entry check is STRICTLY stronger than the memo check (`Lemmas/MemoSafeEntry.lean`: for the
  incoherent witness chain, ``[`[a`a`](u) ` `` enters the label `[3,7)` with the crossing entry `6 ↦ 13`,
  which the label run never looks up); for coherent chains no run fails it.
  (L3) is NOT necessary for `memoSafe` and FAILS without coherence: `laminar_needs_coherence` below
  (emphasis on `[` in front of the link rule: the real delimiter run steps INTO a look-ahead link
  token; the memo ends up crossing, yet no hit lies beyond `pos_max`).

  OPEN: NOTHING for the inline pass of coherent chains — `parseInline_total` (FIFTH PART, end of the file)
  is proved without going through (L3), which stays unproved and is no longer needed.  What remains for
  C01 as a whole: sources with a tab split by a container indent (`NoSplitTab`; `Props/TotalTabs`), and
  non-coherent custom chains, for which the panic is real (`witness_panics`).  The "OPEN after the fourth
  part" block further down is kept for the record; the FIFTH PART closes it.
-/
import MdIt.Lemmas.MemoSafeLabel
import MdIt.Lemmas.MemoSafeEntry
import MdIt.Lemmas.MemoSafeRec
import MdIt.Lemmas.MemoSafeWindow
import MdIt.Lemmas.MemoSafeWindow2
import MdIt.Lemmas.MemoSafeLamFinal
import MdIt.Lemmas.MemoSafeLamDoc
import MdIt.Lemmas.MemoSafeLamBack2
import MdIt.Lemmas.MemoSafeLamCSDoc
import MdIt.Lemmas.MemoSafeLamESDoc
import MdIt.Props.InlineTotal

namespace MdIt.Inline
open MdIt.InlineOps (Srcmap getSourcePosFor getMap byteLen slice)

/-! ## A. look-ahead inside a closed frame -/

/-- **Inside a closed frame the guard never trips in look-ahead code**: from every state under `LInv`
    whose memo is closed on `[lo, posMax)` with `lo ≤ pos`, the guarded `skip_token` returns exactly
    what the model's `skip_token` returns, and every entry it adds ends at or before `posMax` (so the
    frame stays closed).  Every chain, every fuel, every nesting level. -/
theorem lookahead_guard_free (cfg : Cfg) (fuel : Nat) (st : IState) (lo : Nat) (hi : LInv st)
    (hlt : st.pos < st.posMax) (hc : Closed st.cache lo st.posMax) (hlo : lo ≤ st.pos) :
    skipTokenG cfg true fuel st = skipToken cfg fuel st ∧
    ∀ st', skipTokenG cfg true fuel st = .ok st' →
      Closed st'.cache lo st.posMax ∧ st'.cache.lookup st.pos = some st'.pos ∧
      LookupMono st.cache st'.cache := by
  obtain ⟨h1, h2⟩ := skip_guard_free cfg fuel st lo hi hlt hc hlo
  refine ⟨h1, ?_⟩
  intro st' h
  obtain ⟨g, r⟩ := skip_grow cfg fuel st hi hlt st' h
  exact ⟨hc.of_new (h2 st' h), r, g.mono⟩

/-! ## B. replay inside the nested frame -/

/-- **the nested frame replays the label walk**: after a successful `parse_link` (guarded
    `skip_token`; on closed frames that is the model's) every state of the nested frame — `pos_max`
    the label end, ANY level, any extension of the memo — walks from the label start over recorded
    entries only and stops at the label end on the empty window: `labelLoop` answers "not found" there
    and leaves the state alone. -/
theorem nested_walk_replay (cfg : Cfg) (f fuel F : Nat) (g : Bool) (st : IState) (pos : Nat) (en : Bool)
    (hi : LInv st) (hb : Boundary st.src (pos + 1)) (hle : pos + 1 ≤ st.posMax)
    {res : LinkRes} {st' : IState}
    (h : parseLink cfg (fun s => skipTokenG cfg true f s) fuel st pos en = .ok (some res, st'))
    (s : IState) (hsrc : s.src = st.src) (hmax : s.posMax = res.labelEnd) (hpos : s.pos = res.labelStart)
    (hext : LookupMono st'.cache s.cache) (hfw : MemoInv s) :
    labelLoop (fun x => skipTokenG cfg g (F + 1) x) en fuel 1 s =
      .ok (some false, { s with pos := res.labelEnd }) := by
  apply labelLoop_replay (followsHits_guarded cfg g F) en fuel 1 s
  rw [hsrc, hmax, hpos]
  exact parseLink_frame_replay (skipTokenG_calm cfg true f) (skipTokenG_T cfg f) (skip_grow cfg f)
    fuel st pos en hi hb hle h hext hfw

/-! ## C. laminarity gives the entry condition -/

/-- **the nested frame starts closed when the memo is laminar** -/
theorem frame_entry_closed_of_laminar (cfg : Cfg) (f fuel : Nat) (st : IState) (pos : Nat) (en : Bool)
    (hi : LInv st) (hb : Boundary st.src (pos + 1)) (hle : pos + 1 ≤ st.posMax)
    {res : LinkRes} {st' : IState}
    (h : parseLink cfg (fun s => skipTokenG cfg true f s) fuel st pos en = .ok (some res, st'))
    (hlam : Laminar st'.cache) : Closed st'.cache res.labelStart res.labelEnd :=
  parseLink_entry_closed_G cfg f fuel st pos en hi hb hle h hlam

/-! ## D, packaged: every rule without look-ahead recursion, as `runRule` sees it -/

/-- **window independence of the flat rules** (everything but link / image), in look-ahead mode: the
    verdict at `pos` under `pos_max = M` that ends at or before `M'` is the verdict under
    `pos_max = M'`, when the character at `M'` is `]` or `M' = M` (`WinHyp`).  Entity needs `EntStop`
    (its regexes ignore `pos_max`), code spans a sound closer table and no marker run cut by the outer
    `pos_max`; emphasis and `linkEnd` never answer in look-ahead mode. -/
theorem runRule_flat_window {cfg : Cfg} {skip tok : IState → Except Panic IState} {fuel : Nat}
    (id : RuleId) (hflat : id.isFlat = true) {st : IState} {M' : Nat} (h : WinHyp st M')
    (hstop : EntStop st.src st.posMax) (hinv : CodePair.CacheInv '`' st.src st.backticks)
    (hnc : st.posMax = st.backticks.scannedTo ∨ CodePair.NoCut '`' st.src st.posMax) (n : Nat) :
    ((∃ s1, runRule cfg skip tok fuel id st true = .ok (some n, s1)) ∧ st.pos + n ≤ M') ↔
      (∃ s2, runRule cfg skip tok fuel id (st.shrink M') true = .ok (some n, s2)) := by
  cases id with
  | text => simp only [runRule, liftR_ok]; exact ruleText_window h n
  | newline => simp only [runRule, liftR_ok]; exact ruleNewline_window h n
  | escape => simp only [runRule, liftR_ok]; exact ruleEscape_window h n
  | backticks => simp only [runRule, liftR_ok]; exact ruleBackticks_window h hinv hnc n
  | emph mk csw => simp [runRule, liftR_ok, ruleEmph_silent]
  | link => simp [RuleId.isFlat] at hflat
  | image => simp [RuleId.isFlat] at hflat
  | linkEnd => simp [runRule]
  | autolink => simp only [runRule, liftR_ok]; exact ruleAutolink_window h n
  | entity => simp only [runRule, liftR_ok]; exact ruleEntity_window cfg h hstop n

/-! ## J. the result of the second part -/

/-- **C01, inline pass, link chains: `md.inline.parse` is total** for every `ChainCoherent` chain without
    the code-span rule and without the image rule (link rule at most once), every `max_nesting`, every
    reference map, every content with a `MapOK` table (`Lemmas/MemoSafeLamFinal.lean`). -/
theorem parseInline_total_coherent_link (cfg : Cfg) (hc : ChainCoherent cfg = true)
    (hnb : RuleId.backticks ∉ cfg.chain) (hni : RuleId.image ∉ cfg.chain)
    (hone : cfg.chain.count .link ≤ 1) {content : List Char} {mapping : Srcmap}
    (hm : MapOK content mapping) : ∃ cs, parseInline cfg content mapping = .ok cs :=
  parseInline_total_link cfg hc hnb hni hone hm

/-- a chain the theorem covers: everything of the stock chain but code spans and images -/
def linkCfg (maxNesting : Nat) : Cfg :=
  { stockCfg maxNesting with
    chain := [.text, .newline, .escape, .emph '~' true, .emph '*' true, .emph '_' false, .link,
              .autolink, .entity] }

example : ChainCoherent (linkCfg 100) = true ∧ RuleId.backticks ∉ (linkCfg 100).chain ∧
    RuleId.image ∉ (linkCfg 100).chain ∧ (linkCfg 100).chain.count .link ≤ 1 := by decide +kernel

-- … hence every one-line content parses, whatever `max_nesting` (no `decide` on the content)
example (n : Nat) (content : List Char) : ∃ cs, parseInline (linkCfg n) content [(0, 0)] = .ok cs :=
  parseInline_total_coherent_link (linkCfg n)
    (by show ChainCoherent (linkCfg 0) = true; decide +kernel)
    (by show RuleId.backticks ∉ (linkCfg 0).chain; decide)
    (by show RuleId.image ∉ (linkCfg 0).chain; decide)
    (by show (linkCfg 0).chain.count .link ≤ 1; decide)
    (mapOK_single content)

/-! ## J'. the results of the third part -/

/-- **C01, inline pass: `md.inline.parse` is total for every `ChainCoherent` chain without the code-span
    rule** — links and images (each rule at most once), emphasis-like pairs, text, newline, escape,
    autolink, entity; every `max_nesting`, reference map, `MapOK` content. -/
theorem parseInline_total_coherent_nocode (cfg : Cfg) (hc : ChainCoherent cfg = true)
    (hnb : RuleId.backticks ∉ cfg.chain)
    (hone : cfg.chain.count .link ≤ 1 ∧ cfg.chain.count .image ≤ 1) {content : List Char}
    {mapping : Srcmap} (hm : MapOK content mapping) : ∃ cs, parseInline cfg content mapping = .ok cs :=
  parseInline_total_nocode cfg hc hnb hone hm

/-- **C01, inline pass: `md.inline.parse` is total for EVERY `ChainCoherent` chain on contents without
    two adjacent backticks** -/
theorem parseInline_total_coherent_nodouble (cfg : Cfg) (hc : ChainCoherent cfg = true)
    (hone : cfg.chain.count .link ≤ 1 ∧ cfg.chain.count .image ≤ 1) {content : List Char}
    {mapping : Srcmap} (hm : MapOK content mapping) (hnd : NoDoubleTick content) :
    ∃ cs, parseInline cfg content mapping = .ok cs :=
  parseInline_total_nodouble cfg hc hone hm hnd

-- the STOCK chain with strikethrough: every one-line content without "``" parses, whatever `max_nesting`
example (n : Nat) (content : List Char) (hnd : NoDoubleTick content) :
    ∃ cs, parseInline (stockCfg n) content [(0, 0)] = .ok cs :=
  parseInline_total_coherent_nodouble (stockCfg n)
    (by show ChainCoherent (stockCfg 0) = true; decide +kernel)
    (by show (stockCfg 0).chain.count .link ≤ 1 ∧ (stockCfg 0).chain.count .image ≤ 1; decide)
    (mapOK_single content) hnd

example : NoDoubleTick "[a `b` ![c](d)](e) `f`".toList ∧ ¬ NoDoubleTick "a ``b`` c".toList := by
  decide +kernel

/-! ## J''. the result of the fourth part -/

/-- **C01, inline pass: `md.inline.parse` is total for EVERY `ChainCoherent` chain on contents without
    backslash-backtick-backtick** — code spans with any runs of backticks, links, images, emphasis-like
    pairs, …; every `max_nesting`, reference map, `MapOK` content. -/
theorem parseInline_total_noesctick (cfg : Cfg) (hc : ChainCoherent cfg = true)
    (hone : cfg.chain.count .link ≤ 1 ∧ cfg.chain.count .image ≤ 1) {content : List Char}
    {mapping : Srcmap} (hm : MapOK content mapping) (hne : CS.NoEscTickTick content) :
    ∃ cs, parseInline cfg content mapping = .ok cs :=
  CS.parseInline_total_noesc cfg hc hone hm hne

-- the STOCK chain with strikethrough: every one-line content without "\``" parses, whatever `max_nesting`
example (n : Nat) (content : List Char) (hne : CS.NoEscTickTick content) :
    ∃ cs, parseInline (stockCfg n) content [(0, 0)] = .ok cs :=
  parseInline_total_noesctick (stockCfg n)
    (by show ChainCoherent (stockCfg 0) = true; decide +kernel)
    (by show (stockCfg 0).chain.count .link ≤ 1 ∧ (stockCfg 0).chain.count .image ≤ 1; decide)
    (mapOK_single content) hne

example : CS.NoEscTickTick "a ``b ` c`` [```d```](e) \\` f".toList ∧
    ¬ CS.NoEscTickTick "a \\``b`".toList := by decide +kernel

/-! ## executable versions, examples -/

/-- executable `Laminar` -/
def laminarB (m : List (Nat × Nat)) : Bool :=
  m.all fun e => m.all fun e' => !(decide (e.1 ≤ e'.1) && decide (e'.1 < e.2)) || decide (e'.2 ≤ e.2)

theorem laminarB_iff (m : List (Nat × Nat)) : laminarB m = true ↔ Laminar m := by
  unfold laminarB Laminar
  simp only [List.all_eq_true, Bool.or_eq_true, Bool.not_eq_true', Bool.and_eq_false_iff,
    decide_eq_false_iff_not, decide_eq_true_eq, Prod.forall]
  constructor
  · intro h k v k' v' h1 h2 h3 h4
    rcases h k v h1 k' v' h2 with (h5 | h5) | h5
    · exact absurd h3 h5
    · exact absurd h4 h5
    · exact h5
  · intro h k v h1 k' v' h2
    by_cases h3 : k ≤ k'
    · by_cases h4 : k' < v
      · exact .inr (h k v k' v' h1 h2 h3 h4)
      · exact .inl (.inr h4)
    · exact .inl (.inl h3)

/-- the memo at the end of the guarded run -/
def finalMemo (cfg : Cfg) (content : List Char) (mapping : Srcmap) : Option (List (Nat × Nat)) :=
  match tokLoopG cfg true (topFuel cfg content) (IState.init content mapping).posMax
      (IState.init content mapping) with
  | .ok st => some st.cache
  | .error _ => none

-- the memo of a run of the stock chain with nested image / link labels, a failed link, a reference
-- link and look-ahead over the nesting limit is laminar
example : (finalMemo (stockCfg 100) "![a [b](c) *d*](e) [a][a] [x".toList [(0, 0)]).map laminarB
    = some true := by decide +kernel
example : (finalMemo (stockCfg 2) "[[[a](b)](c)](d) `[`".toList [(0, 0)]).map laminarB
    = some true := by decide +kernel

/-- the configuration of `laminar_needs_coherence`: emphasis on `[`, the link rule in the chain -/
def crossCfg : Cfg := { exCfg 1 with chain := [.escape, .image, .link, .emph '[' true] }

/-- **(L3) needs coherence, and is not necessary for `memoSafe`**: with an emphasis pair on `[` (a
    character at which the link rule answers in look-ahead mode: not `ChainCoherent`) the real
    delimiter run `[[` steps INTO the look-ahead link token `1 ↦ 10`; the walk of the link at 4 then
    leaves `7 ↦ 14`, which crosses it.  The memo check still passes (no hit beyond `pos_max`). -/
theorem laminar_needs_coherence :
    ChainCoherent crossCfg = false ∧
    (finalMemo crossCfg "[[]([![*])(\\*)".toList [(0, 0)]).map laminarB = some false ∧
    memoSafe crossCfg "[[]([![*])(\\*)".toList [(0, 0)] = true := by decide +kernel

-- the witness of `Props/InlineTotal.lean` (guard trips): the guarded run does not complete
example : finalMemo witnessCfg witness [(0, 0)] = none := by decide +kernel

-- `pwalk` on a recorded walk: `[a [b] c]`-like memo over "a[b]c]": entries of single characters, the
-- walk from 0 at level 1 passes the inner brackets and finds the `]` at 5
example : pwalk "a[b]c]".toList 6 [(0, 1), (1, 2), (2, 3), (3, 4), (4, 5)] false 10 1 0
    = .done (some true) 5 := by decide +kernel
-- … the nested frame (`pos_max = 5`): replayed to the end, "not found" on the empty window
example : pwalk "a[b]c]".toList 5 [(0, 1), (1, 2), (2, 3), (3, 4), (4, 5)] false 10 1 0
    = .done (some false) 5 := by decide +kernel
-- … an entry beyond `pos_max` (what the guard is about) and a position without entry are reported
example : pwalk "a[b]c]".toList 5 [(0, 1), (1, 6)] false 10 1 0 = .beyond 1 6 := by decide +kernel
example : pwalk "a[b]c]".toList 6 [(0, 1)] false 10 1 0 = .miss 1 := by decide +kernel
-- E on the stock chain: the look-ahead token at `*` is the single character (entry `0 ↦ 1`)
example : (match skipToken (stockCfg 100) 5 (IState.init "*a*".toList [(0, 0)]) with
    | .ok s => some (s.pos, s.cache) | .error _ => none) = some (1, [(0, 1)]) := by decide +kernel
-- F: the entry at the `[` of "[a](b) c" covers the link (`0 ↦ 6`), the label walk `1 ↦ 2` is in the memo
example : (match skipToken (stockCfg 100) 9 (IState.init "[a](b) c".toList [(0, 0)]) with
    | .ok s => some (s.pos, s.cache) | .error _ => none) = some (6, [(0, 6), (1, 2)]) := by decide +kernel
-- a laminar memo with a path is closed; a crossing one is not
example : laminarB [(0, 1), (1, 5), (2, 3), (3, 4)] = true ∧ laminarB [(1, 5), (2, 7)] = false := by
  decide +kernel

/-- the chain from the entry check to totality, for coherent chains (`ChainCoherent` supplies the
    single-byte markers the no-panic theorems need) -/
theorem parseInline_total_of_entrySafe_coherent (cfg : Cfg) (hc : ChainCoherent cfg = true)
    {content : List Char} {mapping : Srcmap} (hm : MapOK content mapping)
    (h : entrySafe cfg content mapping = true) : ∃ cs, parseInline cfg content mapping = .ok cs :=
  parseInline_total_of_entrySafe cfg (coherent_hsz hc) hm h

-- the entry check on runs with nested frames (stock chain; `max_nesting = 2`: look-ahead over the limit)
example : entrySafe (stockCfg 100) "![a [b](c) *d*](e) [a][a] [x".toList [(0, 0)] = true := by
  decide +kernel
example : entrySafe (stockCfg 2) "[[[a](b)](c)](d) `[`".toList [(0, 0)] = true := by decide +kernel
-- it fails on the witness of `Props/InlineTotal.lean` (the label `[3,7)` is entered with `6 ↦ 13`)
example : entrySafe witnessCfg witness [(0, 0)] = false := by decide +kernel

/-
  OPEN after the fourth part.

  PROVED: `parseInline_total_noesctick` (EVERY coherent chain on contents without
  backslash-backtick-backtick), `doc_total_noesctick`, `doc_total_src_noesc`, `doc_total_stock`; earlier:
  `parseInline_total_coherent_nocode`, `parseInline_total_coherent_nodouble`, `doc_total_nocode`, ….
  REMAINING for `parseInline_total (hc : ChainCoherent cfg = true) (hm : MapOK c m)` without text
  hypothesis: the ESCAPE LANDING (K3 of `/verif/work/w9-memo/Brute.lean`, 0 exceptions in 5 million runs):
  a position `k` behind `\`` with a backtick at `k` is "strictly inside a backtick run" as far as the
  characters go, but the code-span rule treats it as a run start, and `k` must NOT be in `inside_failed`
  in either cache.  `EndHyp` is where `NoEscTickTick` is used (`endHyp_holds`: the escape token is the one
  exception of `rule_end_not_interior`); without it `IFP` has to be refined to "strictly inside a run AND
  reached by the unit step from the backtick before", and one needs: no rule call ever happens AT the
  escaped backtick `k - 1` (then nothing marks `k`: `InsideInv` + the marks come from opener calls only).
  In nested frames that is the memo path; in the TOP frame it is a parity argument along the run of
  backslashes in front (the real tokenizer and every label walk enter a backslash run at its first
  character — tokens end in front of a backslash, walks start behind `[`), i.e. flat-rule tiling
  consistency of the top frame, which the present architecture does not otherwise need.
-/

end MdIt.Inline

/-! ## whole document -/

namespace MdIt.Pipeline
open MdIt

-- the stock configuration with strikethrough (`exCfg`): coherent, link / image once each
example : Inline.ChainCoherent ((exCfg false 100).inlineCfg []) = true ∧
    (exCfg false 100).inlineChain.count .link ≤ 1 ∧ (exCfg false 100).inlineChain.count .image ≤ 1 := by
  decide +kernel

/-- a document for the example: block quote, list, nested image / link labels, emphasis,
    strikethrough, a single-backtick code span, a reference definition -/
def memoDoc : List Char := "> ![a [b](c)](d) [x]\n\n- *e* ~~s~~ [f `g`](h)\n\n[x]: /u".toList

/-- **`doc_total_nodouble` on the stock chain with strikethrough**: `md.parse` / `render` / `xrender`
    return, by the THEOREM (the inline runs are not evaluated: only the block pass is, for the two
    hypotheses on the paragraph contents and tables) -/
example : (∃ t, parseDoc (exCfg false 100) memoDoc = .ok t) ∧
    ∀ x, ∃ html, renderDoc x (exCfg false 100) memoDoc = .ok html :=
  doc_total_nodouble (exCfg false 100) memoDoc (by decide +kernel) (by decide +kernel) (by decide +kernel)
    (by decide +kernel) (noSplitTab_of_check _ _ (by decide +kernel))
    (docNoDoubleTick_of_check _ _ (by decide +kernel))

/-- **C01 for the STOCK configuration with strikethrough** (`exCfg`: CommonMark block and inline chains,
    `*`, `_`, `~~`), any `max_nesting`, sourcepos on or off: `md.parse(src)` returns a tree and `render` /
    `xrender` return a string for EVERY source without tab and without backslash-backtick-backtick (code
    spans with any number of backticks are allowed), within the `i32` size bound — no evaluation, no
    hypothesis on the run. -/
theorem doc_total_stock (sp : Bool) (mn : Nat) (src : List Char)
    (hsmall : 4 * Lines.byteLen src + 8 < 2147483648) (htab : '\t' ∉ src)
    (hne : Inline.CS.NoEscTickTick src) :
    (∃ t, parseDoc (exCfg sp mn) src = .ok t) ∧ ∀ x, ∃ html, renderDoc x (exCfg sp mn) src = .ok html :=
  doc_total_src_noesc (exCfg sp mn) src
    (by show Inline.ChainCoherent ((exCfg false 0).inlineCfg []) = true; decide +kernel)
    (by show (exCfg false 0).inlineChain.count .link ≤ 1 ∧ (exCfg false 0).inlineChain.count .image ≤ 1
        decide +kernel)
    hsmall (by show (exCfg false 0).hasPara = true; decide +kernel) htab hne

/-- the earlier form: no two adjacent backticks -/
theorem doc_total_stock_nodouble (sp : Bool) (mn : Nat) (src : List Char)
    (hsmall : 4 * Lines.byteLen src + 8 < 2147483648) (htab : '\t' ∉ src)
    (hnd : Inline.NoDoubleTick src) :
    (∃ t, parseDoc (exCfg sp mn) src = .ok t) ∧ ∀ x, ∃ html, renderDoc x (exCfg sp mn) src = .ok html :=
  doc_total_src (exCfg sp mn) src
    (by show Inline.ChainCoherent ((exCfg false 0).inlineCfg []) = true; decide +kernel)
    (by show (exCfg false 0).inlineChain.count .link ≤ 1 ∧ (exCfg false 0).inlineChain.count .image ≤ 1
        decide +kernel)
    hsmall (by show (exCfg false 0).hasPara = true; decide +kernel) htab hnd

/-- a document with multi-backtick code spans -/
def memoDoc2 : List Char :=
  "> ![a [b](c)](d) [x]\n\n- *e* ~~s~~ [f ``g ` h``](i) ```j``` \\` k\n\n[x]: /u".toList

example : (∃ t, parseDoc (exCfg true 100) memoDoc2 = .ok t) ∧
    ∀ x, ∃ html, renderDoc x (exCfg true 100) memoDoc2 = .ok html :=
  doc_total_stock true 100 memoDoc2 (by decide +kernel) (by decide +kernel) (by decide +kernel)

end MdIt.Pipeline

/-! # FIFTH PART — the escape landing: no hypothesis on the text -/

namespace MdIt.Inline
open MdIt.InlineOps (Srcmap getSourcePosFor getMap byteLen slice)

/-- **C01, inline pass, UNCONDITIONAL for coherent chains: `md.inline.parse` never panics.**
    For every chain that is `ChainCoherent` (decidable: every emphasis marker is a single byte at which
    no rule of the chain answers in look-ahead mode — true of the stock chain with strikethrough and of
    every shipped configuration) and lists the link rule and the image rule at most once each, for EVERY
    content (any runs of backticks, escaped backticks anywhere), every `max_nesting` (0 included), every
    reference map and every `MapOK` offset table, the inline parser returns a tree.  This is the theorem
    `parseInline_total` that `Props/InlineTotal.lean` left open (there without `hone`: see OPEN below). -/
theorem parseInline_total (cfg : Cfg) (hc : ChainCoherent cfg = true)
    (hone : cfg.chain.count .link ≤ 1 ∧ cfg.chain.count .image ≤ 1) {content : List Char}
    {mapping : Srcmap} (hm : MapOK content mapping) :
    ∃ cs, parseInline cfg content mapping = .ok cs :=
  ES.parseInline_total cfg hc hone hm

/-- … in the terms of `Props/InlineTotal.lean`: the memo check passes, i.e. the guard of the guarded
    tokenizer (a `skip_token` memo hit beyond the current `pos_max`) never trips -/
theorem memoSafe_of_coherent (cfg : Cfg) (hc : ChainCoherent cfg = true)
    (hone : cfg.chain.count .link ≤ 1 ∧ cfg.chain.count .image ≤ 1) {content : List Char}
    {mapping : Srcmap} (hm : MapOK content mapping) : memoSafe cfg content mapping = true := by
  obtain ⟨cs, hcs⟩ := parseInline_total cfg hc hone hm
  unfold memoSafe
  rw [ES.parseInlineG_eq_all cfg hc hone hm, hcs]

-- the hypotheses hold for the STOCK chain with strikethrough, whatever `max_nesting`
example : ChainCoherent (stockCfg 100) = true ∧
    (stockCfg 100).chain.count .link ≤ 1 ∧ (stockCfg 100).chain.count .image ≤ 1 := by decide +kernel

/-- the STOCK chain with strikethrough: EVERY one-line content parses, whatever `max_nesting` -/
theorem parseInline_total_stock (n : Nat) (content : List Char) :
    ∃ cs, parseInline (stockCfg n) content [(0, 0)] = .ok cs :=
  parseInline_total (stockCfg n)
    (by show ChainCoherent (stockCfg 0) = true; decide +kernel)
    (by show (stockCfg 0).chain.count .link ≤ 1 ∧ (stockCfg 0).chain.count .image ≤ 1; decide)
    (mapOK_single content)

-- the theorem covers what the fourth part excluded: backslash-backtick-backtick, at the top and inside a
-- link label, below and at the nesting limit (kernel evaluation agrees: text + code span, link + text, …)
example : ¬ CS.NoEscTickTick "\\``a``".toList ∧ ¬ CS.NoEscTickTick "[x \\``a`` `b](u) ``".toList := by
  decide +kernel
example : (match parseInline (stockCfg 100) "\\``a``".toList [(0, 0)] with
    | .ok cs => cs.length | .error _ => 0) = 2 := by decide +kernel
example : (match parseInline (stockCfg 100) "[x \\``a`` `b](u) ``".toList [(0, 0)] with
    | .ok cs => cs.length | .error _ => 0) = 2 := by decide +kernel
example : (match parseInline (stockCfg 0) "[x \\``a`` `b](u) ``".toList [(0, 0)] with
    | .ok cs => cs.length | .error _ => 0) = 1 := by decide +kernel
example : ∃ cs, parseInline (stockCfg 100) "[x \\``a`` `b](u) ``".toList [(0, 0)] = .ok cs :=
  parseInline_total_stock 100 _
-- `ChainCoherent` is necessary: `witness_panics` (`Props/InlineTotal.lean`) — and the witness chain is not coherent
example : ChainCoherent witnessCfg = false := by decide +kernel

/-
  OPEN after the fifth part (inline pass).

  PROVED: `parseInline_total` — every `ChainCoherent` chain with the link rule and the image rule at most
  once each, EVERY content, every `max_nesting`, reference map, `MapOK` table; `memoSafe_of_coherent`.
  NOT COVERED, and why:
   * non-coherent custom chains: the panic is REAL (`witness_panics`, model and crate);
   * chains that list the link rule or the image rule TWICE (`hone`; no shipped configuration does; the
     statement of `Props/InlineTotal.lean` had no such hypothesis — `just_link_call` identifies the
     witness of a link token with THE link rule of the chain; no counterexample is known);
   * (L3) laminarity of the memo itself is not proved — it is no longer needed.
-/

end MdIt.Inline

/-! ## whole document, fifth part -/

namespace MdIt.Pipeline
open MdIt

/-- **C01, whole pipeline, EVERY coherent inline chain, every text**: for every configuration with the
    paragraph rule whose inline chain is `ChainCoherent` (link / image rule at most once each), every
    source within the `i32` size bound in which no tab is split by a container indent (`NoSplitTab`),
    `md.parse(src)` returns a tree and `render` / `xrender` return a string.  No hypothesis on backticks
    or backslashes any more. -/
theorem doc_total_coherent_all (cfg : DocCfg) (src : List Char)
    (hc : Inline.ChainCoherent (cfg.inlineCfg []) = true)
    (hone : cfg.inlineChain.count .link ≤ 1 ∧ cfg.inlineChain.count .image ≤ 1)
    (hsmall : 4 * Lines.byteLen src + 8 < 2147483648) (hpara : cfg.hasPara = true)
    (hnv : NoSplitTab cfg src) :
    (∃ t, parseDoc cfg src = .ok t) ∧ ∀ x, ∃ html, renderDoc x cfg src = .ok html :=
  doc_total_coherent cfg src hc hone hsmall hpara hnv

/-- … with hypotheses on the SOURCE only: the source has no tab (then no tab is split) and is within the
    size bound -/
theorem doc_total_src_all (cfg : DocCfg) (src : List Char)
    (hc : Inline.ChainCoherent (cfg.inlineCfg []) = true)
    (hone : cfg.inlineChain.count .link ≤ 1 ∧ cfg.inlineChain.count .image ≤ 1)
    (hsmall : 4 * Lines.byteLen src + 8 < 2147483648) (hpara : cfg.hasPara = true)
    (htab : '\t' ∉ src) :
    (∃ t, parseDoc cfg src = .ok t) ∧ ∀ x, ∃ html, renderDoc x cfg src = .ok html :=
  doc_total_coherent_src cfg src hc hone hsmall hpara htab

/-- **C01 for the STOCK configuration with strikethrough** (`exCfg`: CommonMark block and inline chains,
    `*`, `_`, `~~`), any `max_nesting`, sourcepos on or off: `md.parse(src)` returns a tree and `render` /
    `xrender` return a string for EVERY source without a tab character, within the `i32` size bound — no
    evaluation, no hypothesis on the run, no hypothesis on the text besides "no tab". -/
theorem doc_total_stock_notab (sp : Bool) (mn : Nat) (src : List Char)
    (hsmall : 4 * Lines.byteLen src + 8 < 2147483648) (htab : '\t' ∉ src) :
    (∃ t, parseDoc (exCfg sp mn) src = .ok t) ∧ ∀ x, ∃ html, renderDoc x (exCfg sp mn) src = .ok html :=
  doc_total_stock_all sp mn src htab hsmall

/-- a document with backslash-backtick-backtick in a quoted paragraph, in a link label of a list item and
    in a heading -/
def memoDoc3 : List Char :=
  "> \\``a`` ![b [c](d)](e) [x]\n\n- *e* ~~s~~ [f \\``g ` h``](i) ```j```\n\n# \\\\\\``k``\n\n[x]: /u".toList

example : ¬ Inline.CS.NoEscTickTick memoDoc3 := by decide +kernel

example : (∃ t, parseDoc (exCfg true 100) memoDoc3 = .ok t) ∧
    ∀ x, ∃ html, renderDoc x (exCfg true 100) memoDoc3 = .ok html :=
  doc_total_stock_notab true 100 memoDoc3 (by decide +kernel) (by decide +kernel)

-- `max_nesting = 0` is covered too
example : (∃ t, parseDoc (exCfg false 0) memoDoc3 = .ok t) ∧
    ∀ x, ∃ html, renderDoc x (exCfg false 0) memoDoc3 = .ok html :=
  doc_total_stock_notab false 0 memoDoc3 (by decide +kernel) (by decide +kernel)

/-
  OPEN after the fifth part (whole document): the hypothesis `NoSplitTab cfg src` of
  `doc_total_coherent_all` — a tab of a paragraph line that a container indent (list item, block quote)
  splits into virtual spaces gives a per-paragraph offset table outside `MapOK`; `doc_total_src_all` /
  `doc_total_stock_notab` discharge it for sources WITHOUT any tab.  Sources with split tabs are being done
  separately (`Props/TotalTabs`).  The size bound is the crate's `i32` arithmetic; the paragraph rule is
  part of every shipped block chain.
-/

end MdIt.Pipeline
