/-
  C02 — the nesting limit bounds tree depth and recursion.

  Model: `MdIt/Model/Nesting.lean` (call trees admitted by the guards, parameterised by
  `N = max_nesting` and by the table `Sites` of level increments at the five recursive call sites).

  Every theorem takes the site table `s` with the hypothesis `s.raising = true`
  (`0 < quote`, `0 < listOuter + listItem`, `0 < linkLabel`, `0 < skipRule`); the tie to the source
  is the one-line obligation `currentSites.raising = true` / `Gen.Consts.levelSites = currentSites`.

  KNOWN FINDING (class `emph-depth`): the full statement — "tree depth is bounded by the limit" —
  is FALSE for the code: emphasis matches nest wrapper nodes without any counter
  (`'*a ' × n ++ 'a*' × n` gives depth n + 2 whatever `max_nesting` is).  The negation witness on
  the model is `emphasis_unbounded` / `full_statement_false`; the proved part is
  `depth_bounded_partial` (depth NOT counting emphasis wrappers).

  Property theorems (all for EVERY limit `N`, every admissible run, every raising table):
    currentSites_raising, sites_toList            the tie to the source (one `decide` each)
    over_limit_degrades (_block / _inline / _skip)
    block_frames_bounded   ≤ N + 1      inline_frames_bounded ≤ N + 2     recursion_bounded ≤ N + 2
    parse_stack_bounded    ≤ 2·N + 3    (walk_recursive frames of the inline pass included)
    depth_bounded_partial  ≤ 2·N + 2    (…_weak: 3·N + 1 if a list costs one level only)
    depth_oracle_bound     ≤ 4·N + 16   (the harness oracle's bound)
    block_frames_tight, recursion_tight, depth_tight, parse_stack_tight, limit_zero
    tree_depth, walk_render_drop_recursion, walk_of_run,
    depth_excess_is_emphasis, walk_bounded_up_to_emphasis
    sites_needed, sites_needed_depth, bounded_iff_raising
    emphasis_unbounded, full_statement_false        (negation witness of the full statement)
    trace_bounded, trace_prefix_bounded, trace_of_run   (the driver's trace checker)
-/
import MdIt.Model.Nesting

namespace MdIt.Nesting

variable {s : Sites} {N : Nat}

theorem Sites.raising_iff (s : Sites) :
    s.raising = true ↔
      0 < s.quote ∧ 0 < s.listOuter + s.listItem ∧ 0 < s.linkLabel ∧ 0 < s.skipRule := by
  simp [Sites.raising, and_assoc]

/-- the tie to the source: all five sites of the code on disk raise the level -/
theorem currentSites_raising : currentSites.raising = true := by decide

/-- a table read off the source (`Gen.Consts.levelSites : List Nat`) that equals
`currentSites.toList` IS `currentSites`; so the obligation is
`Gen.Consts.levelSites = currentSites.toList := by decide`. -/
theorem sites_toList (s : Sites) (h : s.toList = currentSites.toList) : s = currentSites := by
  cases s
  simp [Sites.toList, currentSites] at h ⊢
  omega

example : Sites.ofList currentSites.toList = some currentSites := by decide

/-! The tie to the source (`gen_levelSites`, `gen_sites_raising`: the level increments found by the static scan
of the five recursive call sites in /repo are exactly the table the bounds are proved for) is in
`Props/GenC02.lean`, regenerated and re-checked on every run. -/

/-! ## Over the limit nothing nests -/

/-- **C02 (degradation, block).** A block tokenizer entered at `level ≥ N` fires no rule at all:
the rest of its range is skipped. -/
theorem over_limit_degrades_block (s : Sites) (N L : Nat) (hL : N ≤ L) (fs : List Blk)
    (h : Blk.okL s N L fs = true) : fs = [] := by
  cases fs with
  | nil => rfl
  | cons f fs =>
    cases f <;> simp_all [Blk.okL, Blk.ok] <;> omega

/-- **C02 (degradation, inline).** An inline tokenizer entered at `level ≥ N` produces text only
(no link, no image, no emphasis, no look-ahead). -/
theorem over_limit_degrades_inline (s : Sites) (N L : Nat) (hL : N ≤ L) (fs : List Inl)
    (h : Inl.okL s N L fs = true) : ∀ f ∈ fs, f = Inl.text := by
  induction fs with
  | nil => simp
  | cons f fs ih =>
    simp only [Inl.okL, Bool.and_eq_true] at h
    intro g hg
    simp only [List.mem_cons] at hg
    rcases hg with rfl | hg
    · cases g <;> simp_all [Inl.ok] <;> omega
    · exact ih h.2 g hg

/-- **C02 (degradation, look-ahead).** `skip_token` entered at `level ≥ N` calls no rule. -/
theorem over_limit_degrades_skip (s : Sites) (N L : Nat) (hL : N ≤ L) (t : Skip)
    (h : Skip.ok s N L t = true) : t = Skip.tok [] := by
  cases t with
  | tok nested => cases nested <;> simp_all [Skip.ok] <;> omega

/-- **C02 (degradation).** Constructs nested beyond the limit degrade to plain text or are
skipped: at `level ≥ N` a block tokenizer produces nothing, an inline tokenizer text only, and
`skip_token` calls no rule. -/
theorem over_limit_degrades (s : Sites) (N L : Nat) (hL : N ≤ L) :
    (∀ fs, Blk.okL s N L fs = true → fs = []) ∧
    (∀ fs, Inl.okL s N L fs = true → ∀ f ∈ fs, f = Inl.text) ∧
    (∀ t, Skip.ok s N L t = true → t = Skip.tok []) :=
  ⟨over_limit_degrades_block s N L hL, over_limit_degrades_inline s N L hL,
    over_limit_degrades_skip s N L hL⟩

/-- non-vacuity: a tokenizer AT the limit is entered by admissible runs (its frame exists, it is
just empty): 3 quotes under limit 3, the innermost tokenizer runs at level 3 -/
example : Doc.ok currentSites 3 [.quote [.quote [.quote []]]] = true ∧
    Doc.ok currentSites 3 [.quote [.quote [.quote [.leaf]]]] = false := by decide

/-! ## Frames -/

mutual
theorem Skip.frames_le (hs : 0 < s.skipRule) :
    ∀ (t : Skip) (L : Nat), Skip.ok s N L t = true → Skip.frames t ≤ (N - L) + 1
  | .tok nested, L, h => by
    simp only [Skip.ok, Bool.and_eq_true, Bool.or_eq_true, decide_eq_true_eq] at h
    have ih := Skip.framesL_le hs nested (L + s.skipRule) h.2
    simp only [Skip.frames]
    rcases h.1 with h1 | h1
    · cases nested <;> simp_all [Skip.framesL]
    · omega
theorem Skip.framesL_le (hs : 0 < s.skipRule) :
    ∀ (ts : List Skip) (L : Nat), Skip.chainOk s N L ts = true → Skip.framesL ts ≤ (N - L) + 1
  | [], _, _ => by simp [Skip.framesL]
  | t :: ts, L, h => by
    simp only [Skip.chainOk, Bool.and_eq_true] at h
    have := Skip.frames_le hs t L h.1
    have := Skip.framesL_le hs ts L h.2
    simp only [Skip.framesL]; omega
end

mutual
theorem Inl.nested_le (hs : 0 < s.skipRule) (hl : 0 < s.linkLabel) :
    ∀ (f : Inl) (L : Nat), Inl.ok s N L f = true → Inl.nested f ≤ (N - L) + 1
  | .text, _, _ => by simp [Inl.nested]
  | .link la label, L, h => by
    simp only [Inl.ok, Bool.and_eq_true, decide_eq_true_eq] at h
    have := Skip.framesL_le hs la L h.1.2
    have := Inl.nestedL_le hs hl label (L + s.linkLabel) h.2
    simp only [Inl.nested]; omega
  | .emph w, L, h => by
    simp only [Inl.ok, Bool.and_eq_true, decide_eq_true_eq] at h
    have := Inl.nestedL_le hs hl w L h.2
    simp only [Inl.nested]; omega
  | .failed la, L, h => by
    simp only [Inl.ok, Bool.and_eq_true, decide_eq_true_eq] at h
    have := Skip.framesL_le hs la L h.2
    simp only [Inl.nested]; omega
theorem Inl.nestedL_le (hs : 0 < s.skipRule) (hl : 0 < s.linkLabel) :
    ∀ (fs : List Inl) (L : Nat), Inl.okL s N L fs = true → Inl.nestedL fs ≤ (N - L) + 1
  | [], _, _ => by simp [Inl.nestedL]
  | f :: fs, L, h => by
    simp only [Inl.okL, Bool.and_eq_true] at h
    have := Inl.nested_le hs hl f L h.1
    have := Inl.nestedL_le hs hl fs L h.2
    simp only [Inl.nestedL]; omega
end

/-- frames of one inline parse (fresh state, level 0) -/
theorem Inl.frames_le (hs : 0 < s.skipRule) (hl : 0 < s.linkLabel) (c : List Inl)
    (h : Inl.okL s N 0 c = true) : Inl.frames c ≤ N + 2 := by
  have := Inl.nestedL_le hs hl c 0 h
  simp only [Inl.frames]; omega

mutual
theorem Blk.nested_le (hq : 0 < s.quote) (hi : 0 < s.listOuter + s.listItem) :
    ∀ (f : Blk) (L : Nat), Blk.ok s N L f = true → Blk.nested f ≤ N - L
  | .leaf, _, _ => by simp [Blk.nested]
  | .para _, _, _ => by simp [Blk.nested]
  | .quote body, L, h => by
    simp only [Blk.ok, Bool.and_eq_true, decide_eq_true_eq] at h
    have := Blk.nestedL_le hq hi body (L + s.quote) h.2
    simp only [Blk.nested]; omega
  | .list items, L, h => by
    simp only [Blk.ok, Bool.and_eq_true, decide_eq_true_eq] at h
    have := Blk.nestedItems_le hq hi items (L + s.listOuter) h.2
    simp only [Blk.nested]; omega
  | .item _, _, h => by simp [Blk.ok] at h
theorem Blk.nestedL_le (hq : 0 < s.quote) (hi : 0 < s.listOuter + s.listItem) :
    ∀ (fs : List Blk) (L : Nat), Blk.okL s N L fs = true → Blk.nestedL fs ≤ N - L
  | [], _, _ => by simp [Blk.nestedL]
  | f :: fs, L, h => by
    simp only [Blk.okL, Bool.and_eq_true] at h
    have := Blk.nested_le hq hi f L h.1
    have := Blk.nestedL_le hq hi fs L h.2
    simp only [Blk.nestedL]; omega
theorem Blk.nestedItems_le (hq : 0 < s.quote) (hi : 0 < s.listOuter + s.listItem) :
    ∀ (items : List Blk) (L : Nat), Blk.itemsOk s N L items = true →
      Blk.nestedL items ≤ 1 + (N - (L + s.listItem))
  | [], _, _ => by simp [Blk.nestedL]
  | .item body :: r, L, h => by
    simp only [Blk.itemsOk, Bool.and_eq_true] at h
    have := Blk.nestedL_le hq hi body (L + s.listItem) h.1
    have := Blk.nestedItems_le hq hi r L h.2
    simp only [Blk.nestedL, Blk.nested]; omega
  | .leaf :: _, _, h => by simp [Blk.itemsOk] at h
  | .para _ :: _, _, h => by simp [Blk.itemsOk] at h
  | .quote _ :: _, _, h => by simp [Blk.itemsOk] at h
  | .list _ :: _, _, h => by simp [Blk.itemsOk] at h
end

/-! ## Heights (tree depth, inline-pass stack): one induction, several budgets -/

/-- a budget `g level` for `Blk.height w X`: what a block tokenizer frame running at `level` may
produce, given that inline content is worth at most `K` -/
structure Budget (s : Sites) (N w K : Nat) (g : Nat → Nat) : Prop where
  para : ∀ L, L < N → w + K ≤ g L
  quote : ∀ L, L < N → w + g (L + s.quote) ≤ g L
  list : ∀ L, L < N → w + (w + g (L + s.listOuter + s.listItem)) ≤ g L

section
variable {w K : Nat} {X : List Inl → Nat} {g : Nat → Nat}

mutual
theorem Blk.height_le (hX : ∀ c, Inl.okL s N 0 c = true → X c ≤ K) (hg : Budget s N w K g) :
    ∀ (f : Blk) (L : Nat), Blk.ok s N L f = true → Blk.height w X f ≤ g L
  | .leaf, L, h => by
    simp only [Blk.ok, decide_eq_true_eq] at h
    have := hg.para L h
    simp only [Blk.height]; omega
  | .para c, L, h => by
    simp only [Blk.ok, Bool.and_eq_true, decide_eq_true_eq] at h
    have := hg.para L h.1
    have := hX c h.2
    simp only [Blk.height]; omega
  | .quote body, L, h => by
    simp only [Blk.ok, Bool.and_eq_true, decide_eq_true_eq] at h
    have := Blk.heightL_le hX hg body (L + s.quote) h.2
    have := hg.quote L h.1
    simp only [Blk.height]; omega
  | .list items, L, h => by
    simp only [Blk.ok, Bool.and_eq_true, decide_eq_true_eq] at h
    have := Blk.heightItems_le hX hg items (L + s.listOuter) h.2
    have := hg.list L h.1
    simp only [Blk.height]; omega
  | .item _, _, h => by simp [Blk.ok] at h
theorem Blk.heightL_le (hX : ∀ c, Inl.okL s N 0 c = true → X c ≤ K) (hg : Budget s N w K g) :
    ∀ (fs : List Blk) (L : Nat), Blk.okL s N L fs = true → Blk.heightL w X fs ≤ g L
  | [], _, _ => by simp [Blk.heightL]
  | f :: fs, L, h => by
    simp only [Blk.okL, Bool.and_eq_true] at h
    have := Blk.height_le hX hg f L h.1
    have := Blk.heightL_le hX hg fs L h.2
    simp only [Blk.heightL]; omega
theorem Blk.heightItems_le (hX : ∀ c, Inl.okL s N 0 c = true → X c ≤ K) (hg : Budget s N w K g) :
    ∀ (items : List Blk) (L : Nat), Blk.itemsOk s N L items = true →
      Blk.heightL w X items ≤ w + g (L + s.listItem)
  | [], _, _ => by simp [Blk.heightL]
  | .item body :: r, L, h => by
    simp only [Blk.itemsOk, Bool.and_eq_true] at h
    have := Blk.heightL_le hX hg body (L + s.listItem) h.1
    have := Blk.heightItems_le hX hg r L h.2
    simp only [Blk.heightL, Blk.height]; omega
  | .leaf :: _, _, h => by simp [Blk.itemsOk] at h
  | .para _ :: _, _, h => by simp [Blk.itemsOk] at h
  | .quote _ :: _, _, h => by simp [Blk.itemsOk] at h
  | .list _ :: _, _, h => by simp [Blk.itemsOk] at h
end
end

/-- budget when a list costs at least two levels (the code: `listOuter = listItem = 1`): one level
per block node, so `N - level` nodes, then a leaf worth `w + K` -/
theorem budget_tight (hq : 0 < s.quote) (hi : 2 ≤ s.listOuter + s.listItem) (w K : Nat)
    (hw : w ≤ 1) (hK : w ≤ K) :
    Budget s N w K (fun L => if L < N then (N - L) + K else 0) where
  para := by intro L hL; simp only [hL, if_true]; omega
  quote := by intro L hL; simp only [hL, if_true]; split <;> omega
  list := by intro L hL; simp only [hL, if_true]; split <;> omega

/-- budget when a list is only known to cost one level: two block nodes per level -/
theorem budget_weak (hq : 0 < s.quote) (hi : 0 < s.listOuter + s.listItem) (w K : Nat)
    (hw : w ≤ 1) (hK : w ≤ K) :
    Budget s N w K (fun L => if L < N then 2 * (N - L) - 1 + K else 0) where
  para := by intro L hL; simp only [hL, if_true]; omega
  quote := by intro L hL; simp only [hL, if_true]; split <;> omega
  list := by intro L hL; simp only [hL, if_true]; split <;> omega

/-- constant budget for weight-0 heights -/
theorem budget_const (K : Nat) : Budget s N 0 K (fun _ => K) where
  para := by intro L _; omega
  quote := by intro L _; omega
  list := by intro L _; omega

/-! ## Inline tree depth -/

mutual
theorem Inl.depth_le (hl : 0 < s.linkLabel) :
    ∀ (f : Inl) (L : Nat), Inl.ok s N L f = true → Inl.depth false f ≤ (N - L) + 1
  | .text, _, _ => by simp [Inl.depth]
  | .link _ label, L, h => by
    simp only [Inl.ok, Bool.and_eq_true, decide_eq_true_eq] at h
    have := Inl.depthL_le hl label (L + s.linkLabel) h.2
    simp only [Inl.depth]; omega
  | .emph w, L, h => by
    simp only [Inl.ok, Bool.and_eq_true, decide_eq_true_eq] at h
    have := Inl.depthL_le hl w L h.2
    simp only [Inl.depth]; simp; omega
  | .failed _, _, _ => by simp [Inl.depth]
theorem Inl.depthL_le (hl : 0 < s.linkLabel) :
    ∀ (fs : List Inl) (L : Nat), Inl.okL s N L fs = true → Inl.depthL false fs ≤ (N - L) + 1
  | [], _, _ => by simp [Inl.depthL]
  | f :: fs, L, h => by
    simp only [Inl.okL, Bool.and_eq_true] at h
    have := Inl.depth_le hl f L h.1
    have := Inl.depthL_le hl fs L h.2
    simp only [Inl.depthL]; omega
end

/-! ## The property theorems: recursion -/

/-- **C02 (block pass).** At most `N + 1` block `tokenize` frames are ever active at once. -/
theorem block_frames_bounded (s : Sites) (hs : s.raising = true) (N : Nat) (d : Doc)
    (h : Doc.ok s N d = true) : Doc.blockFrames d ≤ N + 1 := by
  obtain ⟨hq, hi, _, _⟩ := (Sites.raising_iff s).1 hs
  have := Blk.nestedL_le hq hi d 0 h
  simp only [Doc.blockFrames]; omega

/-- **C02 (inline pass).** At most `N + 2` inline `tokenize` + `skip_token` frames are ever active
at once (tokenizers at levels `0..k`, look-ahead frames at levels `k..N`: both recursions consume
the same counter). -/
theorem inline_frames_bounded (s : Sites) (hs : s.raising = true) (N : Nat) (d : Doc)
    (h : Doc.ok s N d = true) : Doc.inlineFrames d ≤ N + 2 := by
  obtain ⟨_, _, hl, hk⟩ := (Sites.raising_iff s).1 hs
  exact Blk.heightL_le (fun c hc => Inl.frames_le hk hl c hc) (budget_const (N + 2)) d 0 h

/-- **C02 (recursion).** The recursion gauge — simultaneously active `tokenize` / `skip_token`
frames — never exceeds `max_nesting + 2`, whatever the input. -/
theorem recursion_bounded (s : Sites) (hs : s.raising = true) (N : Nat) (d : Doc)
    (h : Doc.ok s N d = true) : Doc.frames d ≤ N + 2 := by
  have := block_frames_bounded s hs N d h
  have := inline_frames_bounded s hs N d h
  simp only [Doc.frames]; omega

/-- **C02 (recursion, whole parse).** Counting also the `walk_recursive` frames of the core rule
that runs the inline pass: at most `2·N + 3` frames (`N - 1` containers + paragraph + root, then
`N + 2` inline frames). -/
theorem parse_stack_bounded (s : Sites) (hs : s.raising = true)
    (hi : 2 ≤ s.listOuter + s.listItem) (N : Nat) (d : Doc) (h : Doc.ok s N d = true) :
    Doc.parseStack d ≤ 2 * N + 3 := by
  obtain ⟨hq, _, hl, hk⟩ := (Sites.raising_iff s).1 hs
  have h1 := block_frames_bounded s hs N d h
  have h2 := Blk.heightL_le (fun c hc => Inl.frames_le hk hl c hc)
    (budget_tight hq hi 1 (N + 2) (Nat.le_refl 1) (by omega)) d 0 h
  simp only [Doc.parseStack, Doc.passStack, Blk.passStackL]
  simp only [Nat.sub_zero] at h2
  split at h2 <;> omega

/-- the same for any raising table: `3·N + 2` -/
theorem parse_stack_bounded_weak (s : Sites) (hs : s.raising = true) (N : Nat) (d : Doc)
    (h : Doc.ok s N d = true) : Doc.parseStack d ≤ 3 * N + 2 := by
  obtain ⟨hq, hi, hl, hk⟩ := (Sites.raising_iff s).1 hs
  have h1 := block_frames_bounded s hs N d h
  have h2 := Blk.heightL_le (fun c hc => Inl.frames_le hk hl c hc)
    (budget_weak hq hi 1 (N + 2) (Nat.le_refl 1) (by omega)) d 0 h
  simp only [Doc.parseStack, Doc.passStack, Blk.passStackL]
  simp only [Nat.sub_zero] at h2
  split at h2 <;> omega

/-! ## The property theorems: tree depth -/

/-- **C02 (tree depth, partial: emphasis wrappers not counted).** root + at most `N - 1`
containers + paragraph + at most `N` nested links/images + text: `2·N + 2`. -/
theorem depth_bounded_partial (s : Sites) (hs : s.raising = true)
    (hi : 2 ≤ s.listOuter + s.listItem) (N : Nat) (d : Doc) (h : Doc.ok s N d = true) :
    Doc.treeDepthNoEmph d ≤ 2 * N + 2 := by
  obtain ⟨hq, _, hl, _⟩ := (Sites.raising_iff s).1 hs
  have h2 := Blk.heightL_le (X := Inl.depthL false)
    (fun c hc => by have := Inl.depthL_le hl c 0 hc; omega)
    (budget_tight hq hi 1 (N + 1) (Nat.le_refl 1) (by omega)) d 0 h
  simp only [Doc.treeDepthNoEmph, Blk.depthL]
  simp only [Nat.sub_zero] at h2
  split at h2 <;> omega

/-- the same for any raising table (a list may then cost a single level for two nodes):
`3·N + 1` -/
theorem depth_bounded_partial_weak (s : Sites) (hs : s.raising = true) (N : Nat) (d : Doc)
    (h : Doc.ok s N d = true) : Doc.treeDepthNoEmph d ≤ 3 * N + 1 := by
  obtain ⟨hq, hi, hl, _⟩ := (Sites.raising_iff s).1 hs
  have h2 := Blk.heightL_le (X := Inl.depthL false)
    (fun c hc => by have := Inl.depthL_le hl c 0 hc; omega)
    (budget_weak hq hi 1 (N + 1) (Nat.le_refl 1) (by omega)) d 0 h
  simp only [Doc.treeDepthNoEmph, Blk.depthL]
  simp only [Nat.sub_zero] at h2
  split at h2 <;> omega

/-- the bound used by the harness oracle (`4·N + 16`) follows, for the code on disk -/
theorem depth_oracle_bound (N : Nat) (d : Doc) (h : Doc.ok currentSites N d = true) :
    Doc.treeDepthNoEmph d ≤ 4 * N + 16 := by
  have := depth_bounded_partial currentSites currentSites_raising (by decide) N d h
  omega

/-! ## The produced tree and structural traversals -/

mutual
theorem Inl.tree_depth : ∀ f : Inl, Rose.depth (Inl.tree f) = Inl.depth true f
  | .text => by simp [Inl.tree, Rose.depth, Rose.depthL, Inl.depth]
  | .link _ label => by simp [Inl.tree, Rose.depth, Inl.depth, Inl.treeL_depth label]
  | .emph w => by simp [Inl.tree, Rose.depth, Inl.depth, Inl.treeL_depth w]
  | .failed _ => by simp [Inl.tree, Rose.depth, Rose.depthL, Inl.depth]
theorem Inl.treeL_depth : ∀ fs : List Inl, Rose.depthL (Inl.treeL fs) = Inl.depthL true fs
  | [] => by simp [Inl.treeL, Rose.depthL, Inl.depthL]
  | f :: fs => by simp [Inl.treeL, Rose.depthL, Inl.depthL, Inl.tree_depth f, Inl.treeL_depth fs]
end

mutual
theorem Blk.tree_depth : ∀ f : Blk, Rose.depth (Blk.tree f) = Blk.height 1 (Inl.depthL true) f
  | .leaf => by simp [Blk.tree, Rose.depth, Rose.depthL, Blk.height]
  | .para c => by simp [Blk.tree, Rose.depth, Blk.height, Inl.treeL_depth c]
  | .quote body => by simp [Blk.tree, Rose.depth, Blk.height, Blk.treeL_depth body, Blk.depthL]
  | .list items => by simp [Blk.tree, Rose.depth, Blk.height, Blk.treeL_depth items, Blk.depthL]
  | .item body => by simp [Blk.tree, Rose.depth, Blk.height, Blk.treeL_depth body, Blk.depthL]
theorem Blk.treeL_depth : ∀ fs : List Blk, Rose.depthL (Blk.treeL fs) = Blk.depthL true fs
  | [] => by simp [Blk.treeL, Rose.depthL, Blk.depthL, Blk.heightL]
  | f :: fs => by
    have := Blk.treeL_depth fs
    simp only [Blk.depthL] at this
    simp [Blk.treeL, Rose.depthL, Blk.depthL, Blk.heightL, Blk.tree_depth f, this]
end

/-- `Doc.treeDepth` is the depth of the tree the run produces -/
theorem tree_depth (d : Doc) : Rose.depth (Doc.tree d) = Doc.treeDepth d := by
  simp [Doc.tree, Rose.depth, Doc.treeDepth, Blk.treeL_depth]

mutual
theorem Rose.walk_depthFrom : ∀ (t : Rose) (r : List Bool) (cur mx : Nat),
    callDepthFrom (Rose.walk t ++ r) cur mx = callDepthFrom r cur (max mx (cur + Rose.depth t))
  | .node cs, r, cur, mx => by
    simp only [Rose.walk, List.cons_append, List.append_assoc, callDepthFrom, Rose.depth]
    rw [Rose.walkL_depthFrom cs _ (cur + 1) _ (by omega)]
    simp only [List.nil_append, callDepthFrom, Nat.add_sub_cancel]
    congr 1; omega
theorem Rose.walkL_depthFrom : ∀ (cs : List Rose) (r : List Bool) (cur mx : Nat), cur ≤ mx →
    callDepthFrom (Rose.walkL cs ++ r) cur mx = callDepthFrom r cur (max mx (cur + Rose.depthL cs))
  | [], r, cur, mx, h => by
    simp only [Rose.walkL, List.nil_append, Rose.depthL]
    congr 1; omega
  | c :: cs, r, cur, mx, h => by
    simp only [Rose.walkL, List.append_assoc, Rose.depthL]
    rw [Rose.walk_depthFrom c, Rose.walkL_depthFrom cs _ _ _ (by omega)]
    congr 1; omega
end

/-- **C02 (walk / render / drop).** The recursion depth of a structural traversal of a tree
(`Node::walk`, `walk_mut`, `render` via `contents`, the drop glue) is the depth of the tree: bounding
the tree bounds them, and an unbounded tree makes all of them unbounded. -/
theorem walk_render_drop_recursion (t : Rose) : callDepth (Rose.walk t) = Rose.depth t := by
  have := Rose.walk_depthFrom t [] 0 0
  simpa [callDepth, callDepthFrom] using this

/-- for the tree a run produces: walk recursion = `treeDepth` -/
theorem walk_of_run (d : Doc) : callDepth (Rose.walk (Doc.tree d)) = Doc.treeDepth d := by
  rw [walk_render_drop_recursion, tree_depth]

/-! ### every level beyond the bound is an emphasis wrapper -/

mutual
theorem Inl.depth_split : ∀ f : Inl, Inl.depth true f ≤ Inl.depth false f + Inl.emphDepth f
  | .text => by simp [Inl.depth]
  | .link _ label => by
    have := Inl.depthL_split label
    simp only [Inl.depth, Inl.emphDepth]; omega
  | .emph w => by
    have := Inl.depthL_split w
    simp only [Inl.depth, Inl.emphDepth]; simp; omega
  | .failed _ => by simp [Inl.depth]
theorem Inl.depthL_split :
    ∀ fs : List Inl, Inl.depthL true fs ≤ Inl.depthL false fs + Inl.emphDepthL fs
  | [] => by simp [Inl.depthL]
  | f :: fs => by
    have := Inl.depth_split f
    have := Inl.depthL_split fs
    simp only [Inl.depthL, Inl.emphDepthL]; omega
end

mutual
theorem Blk.height_split {X Y Z : List Inl → Nat} (h : ∀ c, X c ≤ Y c + Z c) (w : Nat) :
    ∀ f : Blk, Blk.height w X f ≤ Blk.height w Y f + Blk.height 0 Z f
  | .leaf => by simp [Blk.height]
  | .para c => by have := h c; simp only [Blk.height]; omega
  | .quote body => by have := Blk.heightL_split h w body; simp only [Blk.height]; omega
  | .list items => by have := Blk.heightL_split h w items; simp only [Blk.height]; omega
  | .item body => by have := Blk.heightL_split h w body; simp only [Blk.height]; omega
theorem Blk.heightL_split {X Y Z : List Inl → Nat} (h : ∀ c, X c ≤ Y c + Z c) (w : Nat) :
    ∀ fs : List Blk, Blk.heightL w X fs ≤ Blk.heightL w Y fs + Blk.heightL 0 Z fs
  | [] => by simp [Blk.heightL]
  | f :: fs => by
    have := Blk.height_split h w f
    have := Blk.heightL_split h w fs
    simp only [Blk.heightL]; omega
end

/-- the tree is deeper than the emphasis-free depth by at most the number of nested emphasis
wrappers -/
theorem depth_excess_is_emphasis (d : Doc) :
    Doc.treeDepth d ≤ Doc.treeDepthNoEmph d + Doc.emphDepth d := by
  have := Blk.heightL_split (X := Inl.depthL true) (Y := Inl.depthL false) (Z := Inl.emphDepthL)
    Inl.depthL_split 1 d
  simp only [Doc.treeDepth, Doc.treeDepthNoEmph, Doc.emphDepth, Blk.depthL]; omega

/-- **C02 (walk / render / drop, partial).** For the tree produced by an admissible run the
recursion of `walk` / `render` / drop is at most `2·N + 2` PLUS the number of nested emphasis
wrappers — the part the SKELETON does not control (see `emphasis_unbounded`; the repaired code bounds
it too: `Props/EmphDepth.lean`). -/
theorem walk_bounded_up_to_emphasis (s : Sites) (hs : s.raising = true)
    (hi : 2 ≤ s.listOuter + s.listItem) (N : Nat) (d : Doc) (h : Doc.ok s N d = true) :
    callDepth (Rose.walk (Doc.tree d)) ≤ 2 * N + 2 + Doc.emphDepth d := by
  have := depth_bounded_partial s hs hi N d h
  have := depth_excess_is_emphasis d
  rw [walk_of_run]; omega

/-! ## Witness families -/

/-- `n` nested block quotes around `inner` (`'>' × n`) -/
def quoteNest : Nat → List Blk → List Blk
  | 0, inner => inner
  | n + 1, inner => [.quote (quoteNest n inner)]

/-- `n` nested one-item lists around `inner` (`'- ' × n`) -/
def listNest : Nat → List Blk → List Blk
  | 0, inner => inner
  | n + 1, inner => [.list [.item (listNest n inner)]]

/-- `n` nested links around `inner` (`'[' × n ++ 'a' ++ '](x)' × n`), look-ahead not shown -/
def linkNest : Nat → List Inl → List Inl
  | 0, inner => inner
  | n + 1, inner => [.link [] (linkNest n inner)]

/-- a look-ahead that recurses `n` deep (`'[' × n`) -/
def skipNest : Nat → List Skip
  | 0 => []
  | n + 1 => [.tok (skipNest n)]

/-- `n` nested emphasis wrappers around `inner` (`'*a ' × n ++ 'a*' × n`) -/
def emphNest : Nat → List Inl → List Inl
  | 0, inner => inner
  | n + 1, inner => [.emph (emphNest n inner)]

theorem quoteNest_nested (n : Nat) (inner : List Blk) :
    Blk.nestedL (quoteNest n inner) = n + Blk.nestedL inner := by
  induction n with
  | zero => simp [quoteNest]
  | succ n ih => simp [quoteNest, Blk.nestedL, Blk.nested, ih]; omega

theorem quoteNest_height (w : Nat) (X : List Inl → Nat) (n : Nat) (inner : List Blk) :
    Blk.heightL w X (quoteNest n inner) = n * w + Blk.heightL w X inner := by
  induction n with
  | zero => simp [quoteNest]
  | succ n ih => simp [quoteNest, Blk.heightL, Blk.height, ih, Nat.add_mul]; omega

theorem listNest_nested (n : Nat) (inner : List Blk) :
    Blk.nestedL (listNest n inner) = n + Blk.nestedL inner := by
  induction n with
  | zero => simp [listNest]
  | succ n ih => simp [listNest, Blk.nestedL, Blk.nested, ih]; omega

theorem listNest_height (w : Nat) (X : List Inl → Nat) (n : Nat) (inner : List Blk) :
    Blk.heightL w X (listNest n inner) = n * (w + w) + Blk.heightL w X inner := by
  induction n with
  | zero => simp [listNest]
  | succ n ih => simp [listNest, Blk.heightL, Blk.height, ih, Nat.add_mul]; omega

theorem linkNest_nested (n : Nat) (inner : List Inl) :
    Inl.nestedL (linkNest n inner) = n + Inl.nestedL inner := by
  induction n with
  | zero => simp [linkNest]
  | succ n ih => simp [linkNest, Inl.nestedL, Inl.nested, Skip.framesL, ih]; omega

theorem linkNest_depth (e : Bool) (n : Nat) (inner : List Inl) :
    Inl.depthL e (linkNest n inner) = n + Inl.depthL e inner := by
  induction n with
  | zero => simp [linkNest]
  | succ n ih => simp [linkNest, Inl.depthL, Inl.depth, ih]; omega

theorem skipNest_frames (n : Nat) : Skip.framesL (skipNest n) = n := by
  induction n with
  | zero => simp [skipNest, Skip.framesL]
  | succ n ih => simp [skipNest, Skip.framesL, Skip.frames, ih]; omega

theorem emphNest_depth_true (n : Nat) (inner : List Inl) :
    Inl.depthL true (emphNest n inner) = n + Inl.depthL true inner := by
  induction n with
  | zero => simp [emphNest]
  | succ n ih => simp [emphNest, Inl.depthL, Inl.depth, ih]; omega

theorem emphNest_depth_false (n : Nat) (inner : List Inl) :
    Inl.depthL false (emphNest n inner) = Inl.depthL false inner := by
  induction n with
  | zero => simp [emphNest]
  | succ n ih => simp [emphNest, Inl.depthL, Inl.depth, ih]

theorem emphNest_nested (n : Nat) (inner : List Inl) :
    Inl.nestedL (emphNest n inner) = Inl.nestedL inner := by
  induction n with
  | zero => simp [emphNest]
  | succ n ih => simp [emphNest, Inl.nestedL, Inl.nested, ih]

/-! admissibility of the families when the site does NOT raise the level -/

theorem quoteNest_ok_zero (hq : s.quote = 0) (L : Nat) (hL : L < N) (n : Nat) (inner : List Blk)
    (h : Blk.okL s N L inner = true) : Blk.okL s N L (quoteNest n inner) = true := by
  induction n with
  | zero => simpa [quoteNest]
  | succ n ih => simp [quoteNest, Blk.okL, Blk.ok, hq, hL, ih]

theorem listNest_ok_zero (ho : s.listOuter = 0) (hi : s.listItem = 0) (L : Nat) (hL : L < N)
    (n : Nat) (inner : List Blk) (h : Blk.okL s N L inner = true) :
    Blk.okL s N L (listNest n inner) = true := by
  induction n with
  | zero => simpa [listNest]
  | succ n ih => simp [listNest, Blk.okL, Blk.ok, Blk.itemsOk, ho, hi, hL, ih]

theorem linkNest_ok_zero (hl : s.linkLabel = 0) (L : Nat) (hL : L < N) (n : Nat)
    (inner : List Inl) (h : Inl.okL s N L inner = true) :
    Inl.okL s N L (linkNest n inner) = true := by
  induction n with
  | zero => simpa [linkNest]
  | succ n ih => simp [linkNest, Inl.okL, Inl.ok, Skip.chainOk, hl, hL, ih]

theorem skipNest_ok_zero (hk : s.skipRule = 0) (L : Nat) (hL : L < N) (n : Nat) :
    Skip.chainOk s N L (skipNest n) = true := by
  induction n with
  | zero => simp [skipNest, Skip.chainOk]
  | succ n ih => simp [skipNest, Skip.chainOk, Skip.ok, hk, hL, ih]

theorem emphNest_ok (L : Nat) (hL : L < N) (n : Nat) (inner : List Inl)
    (h : Inl.okL s N L inner = true) : Inl.okL s N L (emphNest n inner) = true := by
  induction n with
  | zero => simpa [emphNest]
  | succ n ih => simp [emphNest, Inl.okL, Inl.ok, hL, ih]

/-! ## Each raising site is necessary -/

/-- **C02 (the sites are needed — detects a reverted repair).** If any of the four conditions of
`raising` fails — the quote site, the list sites together, the link-label site or the
`skip_token` site applies no increment — then for every limit `N ≥ 1` the number of simultaneously
active frames is unbounded: for every `B` some admissible run exceeds it. -/
theorem sites_needed (s : Sites) (hs : s.raising = false) (N : Nat) (hN : 0 < N) (B : Nat) :
    ∃ d : Doc, Doc.ok s N d = true ∧ B < Doc.frames d := by
  have hs' : ¬ (0 < s.quote ∧ 0 < s.listOuter + s.listItem ∧ 0 < s.linkLabel ∧ 0 < s.skipRule) :=
    fun h => by simp [(Sites.raising_iff s).2 h] at hs
  by_cases hq : s.quote = 0
  · refine ⟨quoteNest B [], quoteNest_ok_zero hq 0 hN B [] (by simp [Blk.okL]), ?_⟩
    simp only [Doc.frames, Doc.blockFrames, quoteNest_nested, Blk.nestedL]; omega
  by_cases hi : s.listOuter + s.listItem = 0
  · refine ⟨listNest B [], listNest_ok_zero (by omega) (by omega) 0 hN B [] (by simp [Blk.okL]), ?_⟩
    simp only [Doc.frames, Doc.blockFrames, listNest_nested, Blk.nestedL]; omega
  by_cases hl : s.linkLabel = 0
  · refine ⟨[.para (linkNest B [])], ?_, ?_⟩
    · simp [Doc.ok, Blk.okL, Blk.ok, hN, linkNest_ok_zero hl 0 hN B [] (by simp [Inl.okL])]
    · simp only [Doc.frames, Doc.inlineFrames, Blk.inlFramesL, Blk.heightL, Blk.height, Inl.frames,
        linkNest_nested, Inl.nestedL]; omega
  · have hk : s.skipRule = 0 := by omega
    refine ⟨[.para [.failed (skipNest B)]], ?_, ?_⟩
    · simp [Doc.ok, Blk.okL, Blk.ok, Inl.okL, Inl.ok, hN, skipNest_ok_zero hk 0 hN B]
    · simp only [Doc.frames, Doc.inlineFrames, Blk.inlFramesL, Blk.heightL, Blk.height, Inl.frames,
        Inl.nestedL, Inl.nested, skipNest_frames]; omega

/-- the three sites that build tree nodes are also needed for the depth bound -/
theorem sites_needed_depth (s : Sites)
    (hs : s.quote = 0 ∨ s.listOuter + s.listItem = 0 ∨ s.linkLabel = 0) (N : Nat) (hN : 0 < N)
    (B : Nat) : ∃ d : Doc, Doc.ok s N d = true ∧ B < Doc.treeDepthNoEmph d := by
  rcases hs with hq | hi | hl
  · refine ⟨quoteNest B [], quoteNest_ok_zero hq 0 hN B [] (by simp [Blk.okL]), ?_⟩
    simp only [Doc.treeDepthNoEmph, Blk.depthL, quoteNest_height]; omega
  · refine ⟨listNest B [], listNest_ok_zero (by omega) (by omega) 0 hN B [] (by simp [Blk.okL]), ?_⟩
    simp only [Doc.treeDepthNoEmph, Blk.depthL, listNest_height]; omega
  · refine ⟨[.para (linkNest B [])], ?_, ?_⟩
    · simp [Doc.ok, Blk.okL, Blk.ok, hN, linkNest_ok_zero hl 0 hN B [] (by simp [Inl.okL])]
    · simp only [Doc.treeDepthNoEmph, Blk.depthL, Blk.heightL, Blk.height, linkNest_depth]; omega

/-- **C02 (exact characterisation).** The recursion gauge is bounded for every limit exactly when
every site raises the level. -/
theorem bounded_iff_raising (s : Sites) :
    s.raising = true ↔ ∀ N, ∃ B, ∀ d : Doc, Doc.ok s N d = true → Doc.frames d ≤ B := by
  constructor
  · intro hs N
    exact ⟨N + 2, recursion_bounded s hs N⟩
  · intro h
    cases hr : s.raising with
    | true => rfl
    | false =>
      obtain ⟨B, hB⟩ := h 1
      obtain ⟨d, hd, hlt⟩ := sites_needed s hr 1 (by omega) B
      have := hB d hd
      omega

/-! ## Emphasis in the SKELETON is not bounded by the limit (the pre-fix behaviour of the code)

The skeleton's admissible runs put no constraint on emphasis matches.  That was the behaviour of the
pinned code (a genuine defect, found through the two theorems below and repaired by `fix:` 8078f5b:
the delimiter matcher now stops at `level + emphasis depth ≥ max_nesting`).  Since the fix the runs of
the code are a SUBSET of the skeleton's runs, so every upper bound proved above still applies to the
code, while the two negative theorems below describe the skeleton (= the pre-fix code) only; the
statement with emphasis counted is proved on the real parser models: `Props/EmphDepth.lean`
(`inline_emph_depth_bounded`) and `Props/EmphDepthDoc.lean` (`doc_full_depth_bounded`). -/

/-- **C02 — negation witness of the full statement.** For every limit `N ≥ 1` and every bound `B`
there is an admissible run, made of emphasis matches only, whose tree is deeper than `B`; it needs
ONE tokenizer frame and its emphasis-free depth is 3 (root, paragraph, text).
(For `N = 0` no inline rule runs at all, so there is no emphasis either.) -/
theorem emphasis_unbounded (s : Sites) (N : Nat) (hN : 0 < N) (B : Nat) :
    ∃ d : Doc, Doc.ok s N d = true ∧ B < Doc.treeDepth d ∧ Doc.frames d = 1 ∧
      Doc.treeDepthNoEmph d = 3 ∧ Doc.treeDepth d = Doc.emphDepth d + 3 := by
  refine ⟨[.para (emphNest B [.text])], ?_, ?_, ?_, ?_, ?_⟩
  · simp [Doc.ok, Blk.okL, Blk.ok, hN, emphNest_ok 0 hN B [.text] (by simp [Inl.okL, Inl.ok])]
  · simp only [Doc.treeDepth, Blk.depthL, Blk.heightL, Blk.height, emphNest_depth_true]; omega
  · simp [Doc.frames, Doc.blockFrames, Doc.inlineFrames, Blk.inlFramesL, Blk.nestedL, Blk.nested,
      Blk.heightL, Blk.height, Inl.frames, emphNest_nested, Inl.nestedL, Inl.nested]
  · simp [Doc.treeDepthNoEmph, Blk.depthL, Blk.heightL, Blk.height, emphNest_depth_false,
      Inl.depthL, Inl.depth]
  · have : ∀ n, Inl.emphDepthL (emphNest n [.text]) = n := by
      intro n
      induction n with
      | zero => simp [emphNest, Inl.emphDepthL, Inl.emphDepth]
      | succ n ih => simp [emphNest, Inl.emphDepthL, Inl.emphDepth, ih]; omega
    simp [Doc.treeDepth, Doc.emphDepth, Blk.depthL, Blk.heightL, Blk.height, emphNest_depth_true,
      this, Inl.depthL, Inl.depth]; omega

/-
  FALSE for the skeleton and for the PRE-FIX code (kept for the record; for the repaired code see
  `Pipeline.doc_full_depth_bounded`):
    theorem depth_bounded : ∃ c₁ c₂, ∀ N d, Doc.ok currentSites N d = true →
        Doc.treeDepth d ≤ c₁ * N + c₂
  Its negation is proved below; the proved part is `depth_bounded_partial`.
-/

/-- **C02 — the full statement is false of the skeleton** (for every site table), i.e. of the code
    before `fix:` 8078f5b. -/
theorem full_statement_false (s : Sites) :
    ¬ ∃ c₁ c₂ : Nat, ∀ (N : Nat) (d : Doc), Doc.ok s N d = true → Doc.treeDepth d ≤ c₁ * N + c₂ := by
  rintro ⟨c₁, c₂, h⟩
  obtain ⟨d, hd, hlt, -⟩ := emphasis_unbounded s 1 (by omega) (c₁ * 1 + c₂)
  have := h 1 d hd
  omega

/-! ## The constants are tight (code on disk) -/

theorem quoteNest_ok_cur (n : Nat) : ∀ (L : Nat) (inner : List Blk), L + n ≤ N →
    Blk.okL currentSites N (L + n) inner = true →
    Blk.okL currentSites N L (quoteNest n inner) = true := by
  induction n with
  | zero => intro L inner _ h; simpa [quoteNest] using h
  | succ n ih =>
    intro L inner hL h
    have h' : Blk.okL currentSites N (L + 1 + n) inner = true := by
      rw [show L + 1 + n = L + (n + 1) by omega]; exact h
    have := ih (L + 1) inner (by omega) h'
    have hlt : L < N := by omega
    simp [quoteNest, Blk.okL, Blk.ok, currentSites, hlt] at this ⊢
    exact this

theorem linkNest_ok_cur (n : Nat) : ∀ (L : Nat) (inner : List Inl), L + n ≤ N →
    Inl.okL currentSites N (L + n) inner = true →
    Inl.okL currentSites N L (linkNest n inner) = true := by
  induction n with
  | zero => intro L inner _ h; simpa [linkNest] using h
  | succ n ih =>
    intro L inner hL h
    have h' : Inl.okL currentSites N (L + 1 + n) inner = true := by
      rw [show L + 1 + n = L + (n + 1) by omega]; exact h
    have := ih (L + 1) inner (by omega) h'
    have hlt : L < N := by omega
    simp [linkNest, Inl.okL, Inl.ok, Skip.chainOk, currentSites, hlt] at this ⊢
    exact this

theorem skipNest_ok_cur (n : Nat) : ∀ (L : Nat), L + n ≤ N + 1 →
    Skip.chainOk currentSites N L (skipNest n) = true := by
  induction n with
  | zero => intro L _; simp [skipNest, Skip.chainOk]
  | succ n ih =>
    intro L hL
    have := ih (L + 1) (by omega)
    cases n with
    | zero => simp [skipNest, Skip.chainOk, Skip.ok]
    | succ m =>
      have hlt : L < N := by omega
      simp [skipNest, Skip.chainOk, Skip.ok, currentSites, hlt] at this ⊢
      exact this

/-- `block_frames_bounded` is tight: `'>' × N` -/
theorem block_frames_tight (N : Nat) :
    ∃ d : Doc, Doc.ok currentSites N d = true ∧ Doc.blockFrames d = N + 1 := by
  refine ⟨quoteNest N [], quoteNest_ok_cur N 0 [] (by omega) (by simp [Blk.okL]), ?_⟩
  simp [Doc.blockFrames, quoteNest_nested, Blk.nestedL]; omega

/-- `recursion_bounded` is tight for `N ≥ 1`: a paragraph of `'[' × (N+1)` -/
theorem recursion_tight (N : Nat) (hN : 0 < N) :
    ∃ d : Doc, Doc.ok currentSites N d = true ∧ Doc.frames d = N + 2 := by
  refine ⟨[.para [.failed (skipNest (N + 1))]], ?_, ?_⟩
  · have := skipNest_ok_cur (N := N) (N + 1) 0 (by omega)
    simp [Doc.ok, Blk.okL, Blk.ok, Inl.okL, Inl.ok, hN, this]
  · simp only [Doc.frames, Doc.blockFrames, Doc.inlineFrames, Blk.inlFramesL, Blk.heightL,
      Blk.height, Inl.frames, Inl.nestedL, Inl.nested, skipNest_frames, Blk.nestedL, Blk.nested]
    omega

/-- `depth_bounded_partial` is tight for `N ≥ 1`: `N - 1` quotes, a paragraph, `N` nested links -/
theorem depth_tight (N : Nat) (hN : 0 < N) :
    ∃ d : Doc, Doc.ok currentSites N d = true ∧ Doc.treeDepthNoEmph d = 2 * N + 2 := by
  refine ⟨quoteNest (N - 1) [.para (linkNest N [.text])], ?_, ?_⟩
  · apply quoteNest_ok_cur (N := N) (N - 1) 0 _ (by omega)
    have h1 : N - 1 < N := by omega
    have := linkNest_ok_cur (N := N) N 0 [.text] (by omega) (by simp [Inl.okL, Inl.ok])
    simp [Blk.okL, Blk.ok, h1, this]
  · simp only [Doc.treeDepthNoEmph, Blk.depthL, quoteNest_height, Blk.heightL, Blk.height,
      linkNest_depth, Inl.depthL, Inl.depth]
    omega

/-- `parse_stack_bounded` is tight for `N ≥ 1` -/
theorem parse_stack_tight (N : Nat) (hN : 0 < N) :
    ∃ d : Doc, Doc.ok currentSites N d = true ∧ Doc.parseStack d = 2 * N + 3 := by
  refine ⟨quoteNest (N - 1) [.para [.failed (skipNest (N + 1))]], ?_, ?_⟩
  · apply quoteNest_ok_cur (N := N) (N - 1) 0 _ (by omega)
    have h1 : N - 1 < N := by omega
    have := skipNest_ok_cur (N := N) (N + 1) 0 (by omega)
    simp [Blk.okL, Blk.ok, Inl.okL, Inl.ok, h1, hN, this]
  · simp only [Doc.parseStack, Doc.blockFrames, Doc.passStack, Blk.passStackL, quoteNest_height,
      quoteNest_nested, Blk.heightL, Blk.height, Inl.frames, Inl.nestedL, Inl.nested,
      skipNest_frames, Blk.nestedL, Blk.nested]
    omega

/-- with limit 0 nothing is parsed at all: one frame, a bare root -/
theorem limit_zero (s : Sites) (d : Doc) (h : Doc.ok s 0 d = true) :
    d = [] ∧ Doc.frames [] = 1 ∧ Doc.treeDepth [] = 1 :=
  ⟨over_limit_degrades_block s 0 0 (Nat.le_refl 0) d h, by decide, by decide⟩

/-! ## Non-vacuity: concrete runs -/

/-- `> - > [a [b](x) c](y) *e*` : a quote in a list in a quote; a link in a link label whose
look-ahead recursed once; an emphasis match -/
def exRun : Doc :=
  [.quote [.list [.item [.quote
    [.para [.link [.tok [.tok []]] [.text, .link [.tok []] [.text], .text], .emph [.text]]]]]]]

example : Doc.ok currentSites 5 exRun = true := by decide
example : Doc.ok currentSites 4 exRun = false := by decide   -- paragraph would sit at level 4
example : Doc.blockFrames exRun = 4 := by decide
example : Doc.inlineFrames exRun = 3 := by decide
example : Doc.frames exRun = 4 ∧ Doc.frames exRun ≤ 5 + 2 := by decide
example : Doc.parseStack exRun = 9 ∧ Doc.parseStack exRun ≤ 2 * 5 + 3 := by decide
example : Doc.treeDepthNoEmph exRun = 9 ∧ Doc.treeDepthNoEmph exRun ≤ 2 * 5 + 2 := by decide
example : Doc.treeDepth exRun = 9 ∧ Doc.emphDepth exRun = 1 := by decide
example : callDepth (Rose.walk (Doc.tree exRun)) = 9 := by decide

/-- the pre-repair table (`⟨0,0,0,0,0⟩`) admits 7 nested quotes under limit 1 … -/
example : Doc.ok ⟨0, 0, 0, 0, 0⟩ 1 (quoteNest 7 []) = true ∧ Doc.frames (quoteNest 7 []) = 8 := by
  decide
/-- … the code on disk does not -/
example : Doc.ok currentSites 1 (quoteNest 7 []) = false := by decide
/-- reverting a single site is detected -/
example : (⟨1, 1, 1, 0, 1⟩ : Sites).raising = false ∧ (⟨1, 1, 1, 1, 0⟩ : Sites).raising = false ∧
    (⟨0, 1, 1, 1, 1⟩ : Sites).raising = false ∧ (⟨1, 0, 0, 1, 1⟩ : Sites).raising = false := by
  decide
/-- … except that one of the two list sites alone would suffice for boundedness -/
example : (⟨1, 0, 1, 1, 1⟩ : Sites).raising = true ∧ (⟨1, 1, 0, 1, 1⟩ : Sites).raising = true := by
  decide

/-- emphasis: 6 wrappers under limit 1, one frame, depth 9 -/
example : Doc.ok currentSites 1 [.para (emphNest 6 [.text])] = true ∧
    Doc.treeDepth [.para (emphNest 6 [.text])] = 9 ∧
    Doc.treeDepthNoEmph [.para (emphNest 6 [.text])] = 3 ∧
    Doc.frames [.para (emphNest 6 [.text])] = 1 := by decide

/-- tight runs for limit 3 -/
example : Doc.ok currentSites 3 (quoteNest 2 [.para (linkNest 3 [.text])]) = true ∧
    Doc.treeDepthNoEmph (quoteNest 2 [.para (linkNest 3 [.text])]) = 8 := by decide
example : Doc.ok currentSites 3 [.para [.failed (skipNest 4)]] = true ∧
    Doc.frames [.para [.failed (skipNest 4)]] = 5 := by decide
example : Doc.ok currentSites 3 [.para [.failed (skipNest 5)]] = false := by decide

/-! ## Frame traces: every accepted trace is bounded -/

/-- invariant of the frame stack of an accepted trace: a frame at level `L` sits at most
`min L N + 1` deep (`+ 2` for a `skip_token` frame) -/
def stackInv (N : Nat) : List (Kind × Nat) → Prop
  | [] => True
  | (k, L) :: rest =>
    rest.length + 1 ≤ min L N + (if k = Kind.skip then 2 else 1) ∧ stackInv N rest

theorem stackInv_length {st : List (Kind × Nat)} (h : stackInv N st) : st.length ≤ N + 2 := by
  cases st with
  | nil => simp
  | cons a rest =>
    obtain ⟨k, L⟩ := a
    simp only [stackInv] at h
    have := h.1
    simp only [List.length_cons]
    split at this <;> omega

theorem stackInv_push (hs : s.raising = true) {st : List (Kind × Nat)} {k : Kind} {L : Nat}
    (hst : stackInv N st) (h : enterCheck s N st k L = .ok ()) : stackInv N ((k, L) :: st) := by
  obtain ⟨hq, hi, hl, hk⟩ := (Sites.raising_iff s).1 hs
  cases st with
  | nil =>
    simp only [enterCheck] at h
    split at h
    · rename_i h0
      simp only [stackInv, List.length_nil, and_true]
      cases k <;> simp_all
    · cases h
  | cons a rest =>
    obtain ⟨pk, pL⟩ := a
    have hp := hst.1
    refine ⟨?_, hst⟩
    simp only [enterCheck] at h
    split at h
    · cases h
    · rename_i hN
      cases pk <;> cases k <;> simp at h hp ⊢ <;> omega

theorem runTrace_le (hs : s.raising = true) : ∀ (evs : List Event) (st : List (Kind × Nat))
    (mx m o : Nat), stackInv N st → mx ≤ N + 2 → runTrace s N evs st mx = .ok (m, o) →
    m ≤ N + 2 := by
  intro evs
  induction evs with
  | nil =>
    intro st mx m o _ hmx h
    simp [runTrace] at h; omega
  | cons e evs ih =>
    intro st mx m o hst hmx h
    cases e with
    | exit =>
      cases st with
      | nil => simp [runTrace] at h
      | cons a rest =>
        simp only [runTrace] at h
        exact ih rest mx m o hst.2 hmx h
    | enter k L =>
      simp only [runTrace] at h
      split at h
      · cases h
      · rename_i hc
        have hinv := stackInv_push hs hst hc
        have := stackInv_length hinv
        simp only [List.length_cons] at this
        exact ih _ _ m o hinv (by omega) h

/-- **C02 (trace checker, soundness).** A gauge trace accepted by `checkTrace` never has more than
`N + 2` simultaneously active frames — the driver's `bad:bound` answer is unreachable. -/
theorem trace_bounded (s : Sites) (hs : s.raising = true) (N : Nat) (evs : List Event) (m : Nat)
    (h : checkTrace s N evs = .ok m) : m ≤ N + 2 := by
  unfold checkTrace at h
  split at h
  · rename_i m' hr
    cases h
    exact runTrace_le hs evs [] 0 m 0 trivial (by omega) hr
  · cases h
  · cases h

/-- the same for a truncated trace -/
theorem trace_prefix_bounded (s : Sites) (hs : s.raising = true) (N : Nat) (evs : List Event)
    (m : Nat) (h : checkTracePrefix s N evs = .ok m) : m ≤ N + 2 := by
  unfold checkTracePrefix at h
  split at h
  · rename_i m' o hr
    cases h
    exact runTrace_le hs evs [] 0 m o trivial (by omega) hr
  · cases h

/-! ## Frame traces: the trace of an admissible run is accepted -/

theorem runTrace_enter {k : Kind} {L : Nat} {st : List (Kind × Nat)}
    (h : enterCheck s N st k L = .ok ()) (r : List Event) (mx : Nat) :
    runTrace s N (.enter k L :: r) st mx = runTrace s N r ((k, L) :: st) (max mx (st.length + 1)) := by
  simp [runTrace, h]

theorem runTrace_exit (a : Kind × Nat) (st : List (Kind × Nat)) (r : List Event) (mx : Nat) :
    runTrace s N (.exit :: r) (a :: st) mx = runTrace s N r st mx := by
  simp [runTrace]

theorem enterCheck_skip_skip {L : Nat} (hL : L < N) (st : List (Kind × Nat)) :
    enterCheck s N ((Kind.skip, L) :: st) .skip (L + s.skipRule) = .ok () := by
  simp [enterCheck]; omega

mutual
theorem Skip.run_trace : ∀ (t : Skip) (L : Nat) (st : List (Kind × Nat)) (mx : Nat)
    (r : List Event), Skip.ok s N L t = true → enterCheck s N st .skip L = .ok () →
    runTrace s N (Skip.trace s L t ++ r) st mx =
      runTrace s N r st (max mx (st.length + Skip.frames t))
  | .tok nested, L, st, mx, r, h, hc => by
    simp only [Skip.ok, Bool.and_eq_true, Bool.or_eq_true, decide_eq_true_eq] at h
    simp only [Skip.trace, List.cons_append, List.append_assoc, Skip.frames]
    rw [runTrace_enter hc]
    rw [Skip.run_traceL nested (L + s.skipRule) ((Kind.skip, L) :: st) _ _ h.2
      (by
        intro hne
        rcases h.1 with h1 | h1
        · cases nested <;> simp_all
        · exact enterCheck_skip_skip h1 st)
      (by simp only [List.length_cons]; omega)]
    simp only [List.nil_append, runTrace_exit, List.length_cons]
    congr 1; omega
theorem Skip.run_traceL : ∀ (ts : List Skip) (L : Nat) (st : List (Kind × Nat)) (mx : Nat)
    (r : List Event), Skip.chainOk s N L ts = true →
    (ts ≠ [] → enterCheck s N st .skip L = .ok ()) → st.length ≤ mx →
    runTrace s N (Skip.traceL s L ts ++ r) st mx =
      runTrace s N r st (max mx (st.length + Skip.framesL ts))
  | [], L, st, mx, r, _, _, hmx => by
    simp only [Skip.traceL, List.nil_append, Skip.framesL]
    congr 1; omega
  | t :: ts, L, st, mx, r, h, hc, hmx => by
    simp only [Skip.chainOk, Bool.and_eq_true] at h
    have hc' := hc (by simp)
    simp only [Skip.traceL, List.append_assoc, Skip.framesL]
    rw [Skip.run_trace t L st mx _ h.1 hc',
      Skip.run_traceL ts L st _ r h.2 (fun _ => hc') (by omega)]
    congr 1; omega
end
theorem enterCheck_inline_skip {L : Nat} (hL : L < N) (st : List (Kind × Nat)) :
    enterCheck s N ((Kind.inline, L) :: st) .skip L = .ok () := by
  simp [enterCheck]; omega

theorem enterCheck_inline_inline {L : Nat} (hL : L < N) (st : List (Kind × Nat)) :
    enterCheck s N ((Kind.inline, L) :: st) .inline (L + s.linkLabel) = .ok () := by
  simp [enterCheck]; omega

mutual
theorem Inl.run_trace : ∀ (f : Inl) (L : Nat) (st : List (Kind × Nat)) (mx : Nat)
    (r : List Event), Inl.ok s N L f = true → st.length + 1 ≤ mx →
    runTrace s N (Inl.trace s L f ++ r) ((Kind.inline, L) :: st) mx =
      runTrace s N r ((Kind.inline, L) :: st) (max mx (st.length + 1 + Inl.nested f))
  | .text, L, st, mx, r, _, hmx => by
    simp only [Inl.trace, List.nil_append, Inl.nested]
    congr 1; omega
  | .link la label, L, st, mx, r, h, hmx => by
    simp only [Inl.ok, Bool.and_eq_true, decide_eq_true_eq] at h
    simp only [Inl.trace, List.cons_append, List.append_assoc, Inl.nested]
    rw [Skip.run_traceL la L _ mx _ h.1.2 (fun _ => enterCheck_inline_skip h.1.1 st)
      (by simp only [List.length_cons]; omega)]
    rw [runTrace_enter (enterCheck_inline_inline h.1.1 st)]
    rw [Inl.run_traceL label (L + s.linkLabel) _ _ _ h.2 (by simp only [List.length_cons]; omega)]
    simp only [List.nil_append, runTrace_exit, List.length_cons]
    congr 1; omega
  | .emph w, L, st, mx, r, h, hmx => by
    simp only [Inl.ok, Bool.and_eq_true, decide_eq_true_eq] at h
    simp only [Inl.trace, Inl.nested]
    exact Inl.run_traceL w L st mx r h.2 hmx
  | .failed la, L, st, mx, r, h, hmx => by
    simp only [Inl.ok, Bool.and_eq_true, decide_eq_true_eq] at h
    simp only [Inl.trace, Inl.nested]
    rw [Skip.run_traceL la L _ mx _ h.2 (fun _ => enterCheck_inline_skip h.1 st)
      (by simp only [List.length_cons]; omega)]
    simp only [List.length_cons]
theorem Inl.run_traceL : ∀ (fs : List Inl) (L : Nat) (st : List (Kind × Nat)) (mx : Nat)
    (r : List Event), Inl.okL s N L fs = true → st.length + 1 ≤ mx →
    runTrace s N (Inl.traceL s L fs ++ r) ((Kind.inline, L) :: st) mx =
      runTrace s N r ((Kind.inline, L) :: st) (max mx (st.length + 1 + Inl.nestedL fs))
  | [], L, st, mx, r, _, hmx => by
    simp only [Inl.traceL, List.nil_append, Inl.nestedL]
    congr 1; omega
  | f :: fs, L, st, mx, r, h, hmx => by
    simp only [Inl.okL, Bool.and_eq_true] at h
    simp only [Inl.traceL, List.append_assoc, Inl.nestedL]
    rw [Inl.run_trace f L st mx _ h.1 hmx,
      Inl.run_traceL fs L st _ r h.2 (by omega)]
    congr 1; omega
end

/-- one `inline.parse` call of the inline pass -/
theorem Inl.run_parse (c : List Inl) (h : Inl.okL s N 0 c = true) (mx : Nat) (r : List Event) :
    runTrace s N (.enter .inline 0 :: (Inl.traceL s 0 c ++ [.exit]) ++ r) [] mx =
      runTrace s N r [] (max mx (Inl.frames c)) := by
  have hc : enterCheck s N [] .inline 0 = .ok () := by simp [enterCheck]
  simp only [List.cons_append, List.append_assoc]
  rw [runTrace_enter hc, Inl.run_traceL c 0 [] _ _ h (by simp only [List.length_nil]; omega)]
  simp only [List.nil_append, runTrace_exit, List.length_nil, Inl.frames]
  congr 1; omega

theorem enterCheck_block_quote {L : Nat} (hL : L < N) (st : List (Kind × Nat)) :
    enterCheck s N ((Kind.block, L) :: st) .block (L + s.quote) = .ok () := by
  simp [enterCheck]; omega

theorem enterCheck_block_item {L : Nat} (hL : L < N) (st : List (Kind × Nat)) :
    enterCheck s N ((Kind.block, L) :: st) .block (L + s.listOuter + s.listItem) = .ok () := by
  simp [enterCheck]; omega

mutual
theorem Blk.run_trace : ∀ (f : Blk) (L : Nat) (st : List (Kind × Nat)) (mx : Nat)
    (r : List Event), Blk.ok s N L f = true → st.length + 1 ≤ mx →
    runTrace s N (Blk.trace s L f ++ r) ((Kind.block, L) :: st) mx =
      runTrace s N r ((Kind.block, L) :: st) (max mx (st.length + 1 + Blk.nested f))
  | .leaf, L, st, mx, r, _, hmx => by
    simp only [Blk.trace, List.nil_append, Blk.nested]
    congr 1; omega
  | .para _, L, st, mx, r, _, hmx => by
    simp only [Blk.trace, List.nil_append, Blk.nested]
    congr 1; omega
  | .quote body, L, st, mx, r, h, hmx => by
    simp only [Blk.ok, Bool.and_eq_true, decide_eq_true_eq] at h
    simp only [Blk.trace, List.cons_append, List.append_assoc, Blk.nested]
    rw [runTrace_enter (enterCheck_block_quote h.1 st)]
    rw [Blk.run_traceL body (L + s.quote) _ _ _ h.2 (by simp only [List.length_cons]; omega)]
    simp only [List.nil_append, runTrace_exit, List.length_cons]
    congr 1; omega
  | .list items, L, st, mx, r, h, hmx => by
    simp only [Blk.ok, Bool.and_eq_true, decide_eq_true_eq] at h
    simp only [Blk.trace, Blk.nested]
    exact Blk.run_traceItems items L st mx r h.1 h.2 hmx
  | .item _, _, _, _, _, h, _ => by simp [Blk.ok] at h
theorem Blk.run_traceL : ∀ (fs : List Blk) (L : Nat) (st : List (Kind × Nat)) (mx : Nat)
    (r : List Event), Blk.okL s N L fs = true → st.length + 1 ≤ mx →
    runTrace s N (Blk.traceL s L fs ++ r) ((Kind.block, L) :: st) mx =
      runTrace s N r ((Kind.block, L) :: st) (max mx (st.length + 1 + Blk.nestedL fs))
  | [], L, st, mx, r, _, hmx => by
    simp only [Blk.traceL, List.nil_append, Blk.nestedL]
    congr 1; omega
  | f :: fs, L, st, mx, r, h, hmx => by
    simp only [Blk.okL, Bool.and_eq_true] at h
    simp only [Blk.traceL, List.append_assoc, Blk.nestedL]
    rw [Blk.run_trace f L st mx _ h.1 hmx, Blk.run_traceL fs L st _ r h.2 (by omega)]
    congr 1; omega
theorem Blk.run_traceItems : ∀ (items : List Blk) (L : Nat) (st : List (Kind × Nat)) (mx : Nat)
    (r : List Event), L < N → Blk.itemsOk s N (L + s.listOuter) items = true → st.length + 1 ≤ mx →
    runTrace s N (Blk.traceL s (L + s.listOuter) items ++ r) ((Kind.block, L) :: st) mx =
      runTrace s N r ((Kind.block, L) :: st) (max mx (st.length + 1 + Blk.nestedL items))
  | [], L, st, mx, r, _, _, hmx => by
    simp only [Blk.traceL, List.nil_append, Blk.nestedL]
    congr 1; omega
  | .item body :: rest, L, st, mx, r, hL, h, hmx => by
    simp only [Blk.itemsOk, Bool.and_eq_true] at h
    simp only [Blk.traceL, Blk.trace, List.cons_append, List.append_assoc, Blk.nestedL, Blk.nested]
    rw [runTrace_enter (enterCheck_block_item hL st)]
    rw [Blk.run_traceL body (L + s.listOuter + s.listItem) _ _ _ h.1
      (by simp only [List.length_cons]; omega)]
    simp only [List.nil_append, runTrace_exit, List.length_cons]
    rw [Blk.run_traceItems rest L st _ r hL h.2 (by omega)]
    congr 1; omega
  | .leaf :: _, _, _, _, _, _, h, _ => by simp [Blk.itemsOk] at h
  | .para _ :: _, _, _, _, _, _, h, _ => by simp [Blk.itemsOk] at h
  | .quote _ :: _, _, _, _, _, _, h, _ => by simp [Blk.itemsOk] at h
  | .list _ :: _, _, _, _, _, _, h, _ => by simp [Blk.itemsOk] at h
end

mutual
theorem Blk.run_inlTrace : ∀ (f : Blk) (L : Nat) (mx : Nat) (r : List Event),
    Blk.ok s N L f = true →
    runTrace s N (Blk.inlTrace s f ++ r) [] mx =
      runTrace s N r [] (max mx (Blk.height 0 Inl.frames f))
  | .leaf, L, mx, r, _ => by simp [Blk.inlTrace, Blk.height]
  | .para c, L, mx, r, h => by
    simp only [Blk.ok, Bool.and_eq_true, decide_eq_true_eq] at h
    simp only [Blk.inlTrace, Blk.height, Nat.zero_add]
    exact Inl.run_parse c h.2 mx r
  | .quote body, L, mx, r, h => by
    simp only [Blk.ok, Bool.and_eq_true, decide_eq_true_eq] at h
    simp only [Blk.inlTrace, Blk.height, Nat.zero_add]
    exact Blk.run_inlTraceL body _ mx r h.2
  | .list items, L, mx, r, h => by
    simp only [Blk.ok, Bool.and_eq_true, decide_eq_true_eq] at h
    simp only [Blk.inlTrace, Blk.height, Nat.zero_add]
    exact Blk.run_inlTraceItems items _ mx r h.2
  | .item _, _, _, _, h => by simp [Blk.ok] at h
theorem Blk.run_inlTraceL : ∀ (fs : List Blk) (L : Nat) (mx : Nat) (r : List Event),
    Blk.okL s N L fs = true →
    runTrace s N (Blk.inlTraceL s fs ++ r) [] mx =
      runTrace s N r [] (max mx (Blk.heightL 0 Inl.frames fs))
  | [], L, mx, r, _ => by simp [Blk.inlTraceL, Blk.heightL]
  | f :: fs, L, mx, r, h => by
    simp only [Blk.okL, Bool.and_eq_true] at h
    simp only [Blk.inlTraceL, List.append_assoc, Blk.heightL]
    rw [Blk.run_inlTrace f L mx _ h.1, Blk.run_inlTraceL fs L _ r h.2]
    congr 1; omega
theorem Blk.run_inlTraceItems : ∀ (items : List Blk) (L : Nat) (mx : Nat) (r : List Event),
    Blk.itemsOk s N L items = true →
    runTrace s N (Blk.inlTraceL s items ++ r) [] mx =
      runTrace s N r [] (max mx (Blk.heightL 0 Inl.frames items))
  | [], L, mx, r, _ => by simp [Blk.inlTraceL, Blk.heightL]
  | .item body :: rest, L, mx, r, h => by
    simp only [Blk.itemsOk, Bool.and_eq_true] at h
    simp only [Blk.inlTraceL, Blk.inlTrace, List.append_assoc, Blk.heightL, Blk.height,
      Nat.zero_add]
    rw [Blk.run_inlTraceL body _ mx _ h.1, Blk.run_inlTraceItems rest L _ r h.2]
    congr 1; omega
  | .leaf :: _, _, _, _, h => by simp [Blk.itemsOk] at h
  | .para _ :: _, _, _, _, h => by simp [Blk.itemsOk] at h
  | .quote _ :: _, _, _, _, h => by simp [Blk.itemsOk] at h
  | .list _ :: _, _, _, _, h => by simp [Blk.itemsOk] at h
end

/-- **C02 (the trace checker agrees with the model).** The recursion-gauge trace of every
admissible run is accepted by `checkTrace`, and the reported maximum is the model's `frames`. -/
theorem trace_of_run (s : Sites) (N : Nat) (d : Doc) (h : Doc.ok s N d = true) :
    checkTrace s N (Doc.trace s d) = .ok (Doc.frames d) := by
  have hc : enterCheck s N [] .block 0 = .ok () := by simp [enterCheck]
  simp only [checkTrace, Doc.trace, List.cons_append, List.append_assoc]
  rw [runTrace_enter hc, Blk.run_traceL d 0 [] _ _ h (by simp only [List.length_nil]; omega)]
  simp only [List.nil_append, runTrace_exit, List.length_nil]
  have := Blk.run_inlTraceL d 0 (max (max 0 (0 + 1)) (0 + 1 + Blk.nestedL d)) [] h
  simp only [List.append_nil] at this
  rw [this]
  simp only [runTrace, List.length_nil, Doc.frames, Doc.blockFrames, Doc.inlineFrames,
    Blk.inlFramesL]
  congr 1; omega


instance traceResultDecEq : DecidableEq (Except TraceErr Nat)
  | .ok a, .ok b =>
    if h : a = b then isTrue (by rw [h]) else isFalse (by intro h'; cases h'; exact h rfl)
  | .error a, .error b =>
    if h : a = b then isTrue (by rw [h]) else isFalse (by intro h'; cases h'; exact h rfl)
  | .ok _, .error _ => isFalse (by intro h; cases h)
  | .error _, .ok _ => isFalse (by intro h; cases h)

example : checkTrace currentSites 5 (Doc.trace currentSites exRun) = .ok 4 := by decide
/-- a pre-repair trace (`'>' × 3`, nothing raises the level) is rejected under the current table -/
example : checkTrace currentSites 5
    [.enter .block 0, .enter .block 0, .enter .block 0, .exit, .exit, .exit] = .error .level := by
  decide
/-- a truncated trace: rejected as complete, accepted as prefix -/
example : checkTrace currentSites 5 [.enter .block 0, .enter .block 1, .exit] = .error .unbalanced ∧
    checkTracePrefix currentSites 5 [.enter .block 0, .enter .block 1, .exit] = .ok 2 := by decide
/-- a nested call from a frame at the limit is rejected -/
example : checkTrace currentSites 1
    [.enter .block 0, .enter .block 1, .enter .block 2, .exit, .exit, .exit] = .error .guard := by
  decide

end MdIt.Nesting
