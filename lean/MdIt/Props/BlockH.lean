/-
  C01 for the block pass WITH the raw-HTML block rule in the chain (`MdIt/Model/BlockH.lean`,
  validated against the real parser by the stream `blockh`).

    (a) `parseBlocksH_conservative`, `parseBlocksH_conservative'`
            for a chain without `.html`, `parseBlocksH` IS `Block.parseBlocks` (so every whole-document
            theorem about html-free configurations is a theorem about `parseBlocksH` on such chains);
            `engineH_conservative`: tokenizer and look-ahead agree at every fuel.
    (b) `parseBlocksH_total`
            for EVERY chain over the ten rules (any order, repetitions, with or without the paragraph
            rule, with or without html), every `max_nesting`, every table, every source: a tree and
            a reference map — no partial operation fires, the fuel is never exhausted.
            `parseBlocksH_fuel`, `parseBlocksH_noPanic`; `tokenizeH_total` / `testRulesH_total` /
            `ruleAtH_total` on any state that satisfies `BInv`.
    (c) `tokenizeH_progress`, `ruleAtH_progress`, `tokenizeH_progress_assert`
            the `assert!(state.line > prev_line, "block rule didn't increment state.line")` of
            `BlockParser::tokenize` cannot fire with the html rule in the chain.
    (d) `silent_implies_real_ruleH`, `testRulesH_true_real`
            look-ahead agreement: when `test_rules_at_line` answers `true` (some rule of the ten —
            possibly the html rule, through `html_block_silent_real` — would terminate the paragraph /
            lazy continuation / list), the real-mode chain at that line accepts too.
        `list_shapeH` : `list_shape` survives (the html node is never a list item).
        `fence_not_html` : the fence rule (the only producer of `codeFence` nodes) never pushes a node that
            decodes as an html block — the encoding of the html node is unambiguous.

  How: `MdIt/Lemmas/BlockH.lean` — the nine rules' lemmas apply verbatim (they are stated for arbitrary
  call-backs under contracts), the tokenizer loop lemmas through `tokLoopG_eq` (the ten-rule chain as
  ONE rule of a `Block` chain), the html rule meets every per-rule contract by `Props/Html.lean`.

    (e) `parseBlocksH_cr` (an EQUATION), `parseBlocksH_crlf`, `parseBlocksH_final_newline`,
        `parseBlocksH_views`: C10 at the block level with html — and, because (b) is unconditional,
        WITHOUT the fuel hypothesis the html-free versions (`Block.LE.parseBlocks_cr` …) still carry.
-/
import MdIt.Lemmas.BlockH
import MdIt.Lemmas.BlockHLE
import MdIt.Props.C10Doc

namespace MdIt.BlockH
open MdIt.Block
open MdIt.Lines (LineOffset)

/-! ## (a) conservativity -/

theorem tokenizeH_conservative (cfg : Cfg) (f : Nat) : tokenizeH cfg (cfg.chain.map .base) f = tokenize cfg f := by
  simp only [tokenizeH, tokenize, engineH_conservative]

theorem testRulesH_conservative (cfg : Cfg) (f : Nat) : testRulesH cfg (cfg.chain.map .base) f = testRules cfg f := by
  simp only [testRulesH, testRules, engineH_conservative]

/-- **conservativity**: an html-free configuration, read as a ten-rule configuration, parses every
    source exactly as `Block.parseBlocks` does (same tree, same reference map, same error if any) -/
theorem parseBlocksH_conservative (cfg : Cfg) (src : List Char) :
    parseBlocksH (CfgH.ofCfg cfg) src = parseBlocks cfg src := by
  unfold parseBlocksH parseBlocks
  rw [base_ofCfg]
  show (match tokenizeH cfg (cfg.chain.map .base) _ _ with | .error e => _ | .ok s => _) = _
  rw [tokenizeH_conservative]
  cases tokenize cfg (fuelFor cfg src) (BState.fresh src .root []) <;> rfl

/-- the same from the other side: a ten-rule configuration whose chain does not contain the html rule -/
theorem parseBlocksH_conservative' (cfg : CfgH) (h : RuleIdH.html ∉ cfg.chain) (src : List Char) :
    parseBlocksH cfg src = parseBlocks cfg.base src := by
  have hc : cfg.chain = cfg.base.chain.map .base := (map_base_filterMap cfg.chain h).symm
  unfold parseBlocksH parseBlocks
  rw [hc, tokenizeH_conservative]
  cases tokenize cfg.base (fuelFor cfg.base src) (BState.fresh src .root []) <;> rfl

/-! ## (b) totality -/

/-- **`parseBlocksH` never runs out of fuel** -/
theorem parseBlocksH_fuel (cfg : CfgH) (src : List Char) : parseBlocksH cfg src ≠ .error .fuel := by
  intro h
  unfold parseBlocksH at h
  split at h
  · rename_i e he
    simp only [Except.error.injEq] at h
    subst h
    exact tokenizeH_nf cfg.base cfg.chain _ _ (need_fresh cfg.base src .root []) he
  · cases h

/-- `parseBlocksH` fails at most with `.fuel` … -/
theorem parseBlocksH_noPanic (cfg : CfgH) (src : List Char) : NoPanic (parseBlocksH cfg src) := by
  intro e h
  unfold parseBlocksH at h
  split at h
  · rename_i e' he
    simp only [Except.error.injEq] at h
    subst h
    exact (engineH_np cfg.base cfg.chain _).1 _ (bInv_fresh src .root []) _ he
  · cases h

/-- **C01, block pass with raw HTML**: for every configuration over the ten shipped block rules and
    every source the block pass returns a tree and a reference map — no partial operation fires
    (indexing, slicing, `unwrap`, unsigned subtraction, `debug_assert!`, the progress `assert!`), and
    the model's fuel is never exhausted. -/
theorem parseBlocksH_total (cfg : CfgH) (src : List Char) :
    ∃ root refs, parseBlocksH cfg src = .ok (root, refs) := by
  cases h : parseBlocksH cfg src with
  | ok r => exact ⟨r.1, r.2, rfl⟩
  | error e =>
    have := parseBlocksH_noPanic cfg src e h
    subst this
    exact absurd h (parseBlocksH_fuel cfg src)

/-- the same with the bound under which the model is exact for the Rust (`i32` offsets) spelled out -/
theorem parseBlocksH_total_i32 (cfg : CfgH) (src : List Char) (_h : Lines.byteLen src < 2 ^ 31) :
    ∃ root refs, parseBlocksH cfg src = .ok (root, refs) := parseBlocksH_total cfg src

/-- the tokenizer on ANY state that satisfies the invariant, with enough fuel: total, and it hands
    the invariant back -/
theorem tokenizeH_total (cfg : Cfg) (chain : List RuleIdH) (f : Nat) (s : BState) (hI : BInv s)
    (hf : need cfg s ≤ f) : ∃ s', tokenizeH cfg chain f s = .ok s' ∧ BInv s' := by
  cases h : tokenizeH cfg chain f s with
  | ok s' => exact ⟨s', rfl, hI.of_frame (tokenizeH_spec cfg chain f s s' h).frame⟩
  | error e =>
    have := (engineH_np cfg chain f).1 s hI e h
    subst this
    exact absurd h (tokenizeH_nf cfg chain f s hf)

/-- the look-ahead on any existing line of a state that satisfies the invariant: total at every
    positive budget, and it returns the state it was given -/
theorem testRulesH_total (cfg : Cfg) (chain : List RuleIdH) (f : Nat) (s : BState) (hI : BInv s)
    (hl : s.line < s.lineMax) : ∃ b, testRulesH cfg chain (f + 1) s = .ok (b, s) := by
  cases h : testRulesH cfg chain (f + 1) s with
  | ok r =>
    have := testRulesH_pure cfg chain (f + 1) s r h
    exact ⟨r.1, by rw [← this]⟩
  | error e =>
    have := (engineH_np cfg chain (f + 1)).2 s hI hl e h
    subst this
    exact absurd h (testRulesH_nf cfg chain f s)

/-- a single rule of the ten as the tokenizer at budget `fuel + 1` runs it, in either mode, on an
    existing line at a non-negative indent, below the nesting limit and within the fuel budget: total,
    and the invariant is preserved -/
theorem ruleAtH_total (cfg : Cfg) (chain : List RuleIdH) (fuel : Nat) (r : RuleIdH) (s : BState) (silent : Bool)
    (hI : BInv s) (hl : s.line < s.lineMax) (hi : IndentOk s) (hlv : s.level < cfg.maxNesting)
    (hf : need cfg s ≤ fuel + 1) (h1 : 1 ≤ fuel) :
    ∃ b s', ruleAtH cfg chain fuel r s silent = .ok (b, s') ∧ BInv s' := by
  obtain ⟨g, rfl⟩ : ∃ g, fuel = g + 1 := ⟨fuel - 1, by omega⟩
  have hk := tokenizeH_tokSpec cfg chain (g + 1)
  have ht := testRulesH_pure cfg chain (g + 1)
  have hspec := runRuleH_spec (cfg := cfg) hk ht (g + 1 + 1)
  cases h : ruleAtH cfg chain (g + 1) r s silent with
  | ok w =>
    obtain ⟨b, s'⟩ := w
    refine ⟨b, s', rfl, ?_⟩
    cases silent with
    | true => rw [silent_pure_ruleH h]; exact hI
    | false =>
      cases b with
      | false => rw [hspec.false_same r s s' h]; exact hI
      | true => exact hI.of_frame (hspec.advanced r s s' h hl hi).frame
  | error e =>
    have hnp := runRuleH_np (cfg := cfg) (fuel := g + 1 + 1) hk (tokenizeH_shape cfg chain _) ht
      (engineH_np cfg chain _).2 (engineH_np cfg chain _).1 r s silent hI hl (fun _ => hi) e h
    subst hnp
    exfalso
    refine runRuleH_nf hk ht (fun s => testRulesH_nf cfg chain g s) (tokenizeH_nf cfg chain (g + 1)) r hl ?_ hi hf hlv h
    unfold need at hf; omega

/-! ## (c) progress -/

/-- `tokenizeH_progress`: the tokenizer never moves `line` backwards, moves it strictly forward when it
    starts on a blank line or on a line at a non-negative indent, ends with `line ≤ line_max` (on a
    table that satisfies the invariant), and hands back the frame as it found it -/
theorem tokenizeH_progress {cfg : Cfg} {chain : List RuleIdH} {fuel : Nat} {s s' : BState}
    (h : tokenizeH cfg chain fuel s = .ok s') :
    s.line ≤ s'.line ∧ (TableOk s → s.line ≤ s.lineMax → s'.line ≤ s.lineMax) ∧
    (s.line < s.lineMax → (s.isEmpty s.line = true ∨ IndentOk s) → s.line < s'.line) ∧ Frame s s' :=
  have := tokenizeH_spec cfg chain fuel s s' h
  ⟨this.mono, this.upper, this.strict, this.frame⟩

/-- a rule of the ten exactly as the tokenizer runs it: whenever it answers `true` at a line the
    tokenizer would try it on, `line` has moved strictly forward and not beyond `line_max`; when it
    answers `false` the state is untouched -/
theorem ruleAtH_progress {cfg : Cfg} {chain : List RuleIdH} {fuel : Nat} {r : RuleIdH} {s s' : BState}
    (h : ruleAtH cfg chain fuel r s false = .ok (true, s')) (hl : s.line < s.lineMax) (hi : IndentOk s) :
    s.line < s'.line ∧ (TableOk s → s'.line ≤ s.lineMax) ∧ Frame s s' :=
  have := (runRuleH_spec (cfg := cfg) (tokenizeH_tokSpec cfg chain fuel) (testRulesH_pure cfg chain fuel)
    (fuel + 1)).advanced r s s' h hl hi
  ⟨this.lt, this.le, this.frame⟩

theorem ruleAtH_false_same {cfg : Cfg} {chain : List RuleIdH} {fuel : Nat} {r : RuleIdH} {s s' : BState}
    (h : ruleAtH cfg chain fuel r s false = .ok (false, s')) : s' = s :=
  (runRuleH_spec (cfg := cfg) (tokenizeH_tokSpec cfg chain fuel) (testRulesH_pure cfg chain fuel)
    (fuel + 1)).false_same r s s' h

/-- the progress `assert!` of `BlockParser::tokenize` cannot fire: on a state that satisfies the
    invariant, at ANY fuel, the tokenizer never answers `.progress` (nor any other panic class) -/
theorem tokenizeH_progress_assert (cfg : Cfg) (chain : List RuleIdH) (f : Nat) (s : BState) (hI : BInv s) :
    tokenizeH cfg chain f s ≠ .error .progress := by
  intro h
  have := (engineH_np cfg chain f).1 s hI _ h
  cases this

/-! ## (d) look-ahead agreement; shape; the encoding -/

/-- silent `true` ⇒ real mode does not answer `false`, for each of the ten rules -/
theorem silent_implies_real_ruleH {cfg : Cfg} {tok : Tok} {test : Test} {fuel : Nat} {r : RuleIdH}
    {s s1 s2 : BState} {b : Bool} (hs : runRuleH cfg tok test fuel r s true = .ok (true, s1))
    (hr : runRuleH cfg tok test fuel r s false = .ok (b, s2)) : b = true := by
  cases r with
  | base r => exact silent_implies_real_rule hs hr
  | html =>
    obtain ⟨_, _, hes, _⟩ := htmlRule_ok hs
    obtain ⟨_, _, her, _⟩ := htmlRule_ok hr
    exact Html.html_block_silent_real hes _ _ _ her

theorem runChainG_true_real {run : RuleIdH → BState → Bool → Res} (hr : RunSpecG run)
    (hp : ∀ r s b s', run r s true = .ok (b, s') → s' = s)
    (hsr : ∀ r s s1 s2 b, run r s true = .ok (true, s1) → run r s false = .ok (b, s2) → b = true) :
    ∀ (chain : List RuleIdH) (s s1 s2 : BState) (b : Bool),
      runChainG run chain s true = .ok (true, s1) → runChainG run chain s false = .ok (b, s2) → b = true := by
  intro chain
  induction chain with
  | nil => intro s s1 s2 b h; simp [runChainG] at h
  | cons r rs ih =>
    intro s s1 s2 b hs hreal
    simp only [runChainG] at hs hreal
    split at hreal
    · cases hreal
    · simp only [Except.ok.injEq, Prod.mk.injEq] at hreal
      exact hreal.1.symm
    · rename_i sr hrr
      have := hr.false_same _ _ _ hrr
      subst this
      split at hs
      · cases hs
      · rename_i ss hss
        exact absurd (hsr _ _ _ _ _ hss hrr) (by simp)
      · rename_i ss hss
        have := hp _ _ _ _ hss
        subst this
        exact ih _ _ _ _ hs hreal

/-- **look-ahead agreement**: when `test_rules_at_line` (the ten-rule chain in silent mode) answers
    `true` at a line, the chain in real mode — as the tokenizer at the same budget runs it — accepts
    that line too: the tokenizer does not fall through to the no-paragraph fallback there. -/
theorem testRulesH_true_real {cfg : Cfg} {chain : List RuleIdH} {f : Nat} {s s1 s2 : BState} {b : Bool}
    (hs : testRulesH cfg chain (f + 1) s = .ok (true, s1))
    (hr : runChainG (ruleAtH cfg chain f) chain s false = .ok (b, s2)) : b = true := by
  simp only [testRulesH, engineH] at hs
  exact runChainG_true_real
    (runRuleH_spec (cfg := cfg) (tokenizeH_tokSpec cfg chain f) (testRulesH_pure cfg chain f) (f + 1))
    (fun r s b s' h => silent_pure_ruleH h) (fun r s s1 s2 b h1 h2 => silent_implies_real_ruleH h1 h2)
    chain s s1 s2 b hs hr

/-- `list_shape` with html: in every tree `parseBlocksH` returns a list node has only list items as
    children and a list item occurs only under a list node -/
theorem list_shapeH {cfg : CfgH} {src : List Char} {root : BNode} {refs : Refs.RefMap}
    (h : parseBlocksH cfg src = .ok (root, refs)) : Shaped root := by
  unfold parseBlocksH at h
  split at h
  · cases h
  · rename_i s hs
    simp only [Except.ok.injEq, Prod.mk.injEq] at h
    obtain ⟨rfl, _⟩ := h
    have hg := tokenizeH_shape cfg.base cfg.chain _ _ _ hs AllGood.nil
    have hk := (tokenizeH_spec cfg.base cfg.chain _ _ _ hs).frame.nodeKind
    exact shaped_of_allGood (by rw [hk]; rfl) hg

/-- the encoding of the html node is faithful on the side of the fence rule: a node pushed by
    `fenceRule` never decodes as an html block (its marker is `~` or a back-tick) -/
theorem fence_not_html {s s' : BState} {b : Bool} (h : fenceRule s false = .ok (b, s')) :
    ∀ n ∈ s'.children, htmlContent? n.kind ≠ none → n ∈ s.children := by
  intro n hn hh
  unfold fenceRule at h
  crack h
  all_goals (try (subst_vars; exact hn))
  have hm : ¬¬(_ = '~' ∨ _ = '`') := ‹_›
  simp only [BState.push, List.mem_append, List.mem_singleton] at hn
  rcases hn with hn | rfl
  · exact hn
  · exfalso
    apply hh
    rcases Classical.not_not.mp hm with rfl | rfl <;> simp [htmlContent?]

/-! ## instances (by evaluation) -/

section examples

def cfgOfH (n : Nat) (chain : List RuleIdH) : CfgH :=
  { maxNesting := n, chain := chain, lookup := fun _ => none, L := fun c => [c], U := fun c => [c] }

/-- the ten rules in the order `cmark::add`, `html::add` registers them -/
def stockH : List RuleIdH :=
  [.base .code, .base .fence, .base .blockquote, .base .hr, .base .list, .base .reference, .html,
   .base .heading, .base .lheading, .base .paragraph]

/-- kind, range and (decoded html content, range) of the children, for the children of the root -/
structure NodeView where
  kind : Kind
  range : Option (Nat × Nat)
  kids : List (Option (List Char) × Option (Nat × Nat))
  deriving DecidableEq

def rootView : Except Panic (BNode × Refs.RefMap) → Option (List NodeView)
  | .ok (r, _) => some (r.children.map (fun n => ⟨n.kind, n.range, n.children.map (fun c => (htmlContent? c.kind, c.range))⟩))
  | .error _ => none

/-- kinds of the children of the root, html blocks as `codeFence [] '<' 0 content` -/
def rootKinds : Except Panic (BNode × Refs.RefMap) → Option (List Kind)
  | .ok (n, _) => some (n.children.map (·.kind))
  | .error _ => none

-- "a\n<div>\n*x*\n\n> <pre>\n> y": the html start interrupts the paragraph (look-ahead through the
-- html member), the block runs to the blank line; the `<pre>` block lives inside the quote
example : rootView (parseBlocksH (cfgOfH 100 stockH) "a\n<div>\n*x*\n\n> <pre>\n> y".toList) =
    some [⟨.paragraph, some (0, 1), [(none, none)]⟩,
          ⟨htmlKind "<div>\n*x*\n".toList, some (2, 11), []⟩,
          ⟨.blockquote, some (13, 24), [(some "<pre>\ny\n".toList, some (15, 24))]⟩] := by decide +kernel
-- "<!--\n- x": an unclosed comment swallows the list
example : rootKinds (parseBlocksH (cfgOfH 100 stockH) "<!--\n- x".toList) = some [htmlKind "<!--\n- x\n".toList] := by
  decide +kernel
-- the same source without the html rule (conservativity side): paragraph + list
example : rootKinds (parseBlocksH (cfgOfH 100 (stockH.filter (· ≠ .html))) "<!--\n- x".toList)
    = some [.paragraph, .bulletList '-'] := by decide +kernel
-- sequence 7 (a complete tag alone on its line) opens a block but does not interrupt a paragraph
example : rootKinds (parseBlocksH (cfgOfH 100 stockH) "a\n<a>\n\n<a>\nb".toList)
    = some [.paragraph, htmlKind "<a>\nb\n".toList] := by decide +kernel
-- the html rule alone, no paragraph rule: the fallback pushes the other lines
example : rootKinds (parseBlocksH (cfgOfH 100 [.html]) "x\n<?php\n?>\ny".toList)
    = some [.inlineRoot "x\n".toList [(0, 0)], htmlKind "<?php\n?>\n".toList, .inlineRoot "y\n".toList [(0, 11)]] := by
  decide +kernel
-- html inside a list item inside a quote at `max_nesting = 1`: the quote is cut, nothing panics
example : rootKinds (parseBlocksH (cfgOfH 1 stockH) "> - <div>\n<div>".toList)
    = some [.blockquote, htmlKind "<div>\n".toList] := by decide +kernel
-- `testRulesH_true_real`, hypotheses satisfiable: the look-ahead accepts line 1 of "a\n<div>"
example : ((testRulesH (cfgOfH 100 stockH).base stockH 3
    { BState.fresh "a\n<div>".toList .root [] with line := 1 }).toOption.map (·.1)) = some true := by decide +kernel

end examples

/-! ## (e) line endings: CR, CR LF, a final newline, equal views (C10 at the block level, with html) -/

section lineEndings
open MdIt.Block.LE
open MdIt.Lines (linesT lfToCrlf lfToCr)

/-- **the ten-rule block pass in lock step** (the analogue of `Block.LE.parseBlocks_rel`) -/
theorem parseBlocksH_rel {ρ : Nat → Nat → Prop} (hs : Shift ρ) (cfg : CfgH) {s₁ s₂ : List Char}
    (h : StartRel ρ 0 0 (linesT s₁) (linesT s₂)) (hf : fuelFor cfg.base s₁ ≤ fuelFor cfg.base s₂) :
    FRel (BlocksRel ρ) (parseBlocksH cfg s₁) (parseBlocksH cfg s₂) := by
  unfold parseBlocksH
  rcases tokenizeH_sim cfg.base cfg.chain (ctx_of hs s₁ s₂) hf (srel_fresh h .root []) with
    h | ⟨a, b, h1, h2, S⟩ | ⟨e, h1, h2⟩
  · rw [h]; exact frel_fuel _
  · rw [h1, h2]; exact frel_ok ⟨S.nodeKind.symm, S.children, S.refs.symm⟩
  · rw [h1, h2]; exact frel_err _

/-- two sources with `StartRel` line lists: BOTH block passes succeed (`parseBlocksH_total`) and the
    results are related — no fuel hypothesis is left -/
theorem parseBlocksH_related {ρ : Nat → Nat → Prop} (hs : Shift ρ) (cfg : CfgH) {s₁ s₂ : List Char}
    (h : StartRel ρ 0 0 (linesT s₁) (linesT s₂)) (hf : fuelFor cfg.base s₁ ≤ fuelFor cfg.base s₂) :
    ∃ a b, parseBlocksH cfg s₁ = .ok a ∧ parseBlocksH cfg s₂ = .ok b ∧ BlocksRel ρ a b := by
  rcases parseBlocksH_rel hs cfg h hf with hA | hok | ⟨e, h1, _⟩
  · exact absurd hA (parseBlocksH_fuel cfg s₁)
  · exact hok
  · obtain ⟨r, m, ht⟩ := parseBlocksH_total cfg s₁
    rw [h1] at ht; cases ht

/-- **LF ↦ CR LF**: the same tree up to source offsets that only grow (kinds, payloads, html and
    `InlineRoot` contents EQUAL; ranges and per-line tables `≤`), the same reference map -/
theorem parseBlocksH_crlf (cfg : CfgH) (src : List Char) (h : '\r' ∉ src) :
    ∃ a b, parseBlocksH cfg src = .ok a ∧ parseBlocksH cfg (lfToCrlf src) = .ok b ∧ BlocksRel (· ≤ ·) a b :=
  have hS := linesT_crlf _ src rfl h 0 0 (Nat.le_refl 0)
  parseBlocksH_related shift_le cfg hS (fuelFor_le cfg.base hS (byteLen_lfToCrlf src))

/-- **LF ↦ CR**: the SAME result — tree (ranges and per-line tables included) and reference map -/
theorem parseBlocksH_cr (cfg : CfgH) (src : List Char) (h : '\r' ∉ src) :
    parseBlocksH cfg (lfToCr src) = parseBlocksH cfg src := by
  have hS := linesT_cr _ src rfl h 0
  obtain ⟨a, b, h1, h2, hk, hc, hr⟩ := parseBlocksH_related shift_eq cfg hS
    (fuelFor_le cfg.base hS (by rw [byteLen_lfToCr]; exact Nat.le_refl _))
  have hrange : a.1.range = b.1.range := by
    unfold parseBlocksH at h1 h2
    split at h1
    · cases h1
    · split at h2
      · cases h2
      · cases h1; cases h2
        simp only [byteLen_lfToCr]
  rw [h1, h2]
  obtain ⟨⟨ka, ra, ca⟩, ma⟩ := a
  obtain ⟨⟨kb, rb, cb⟩, mb⟩ := b
  simp only at hk hc hr hrange
  rw [hk, NRelL.eq hc, hr, hrange]

/-- **a final newline**: the same children of the root (ranges and tables included) and the same
    reference map (the root's own range is `(0, |src|)`, one byte longer) -/
theorem parseBlocksH_final_newline (cfg : CfgH) (src : List Char)
    (h : src.getLast? ≠ some '\n' ∧ src.getLast? ≠ some '\r') :
    ∃ a b, parseBlocksH cfg src = .ok a ∧ parseBlocksH cfg (src ++ ['\n']) = .ok b ∧
      a.1.kind = b.1.kind ∧ a.1.children = b.1.children ∧ a.2 = b.2 := by
  have hS := linesT_final _ src rfl h 0
  obtain ⟨a, b, h1, h2, hk, hc, hr⟩ := parseBlocksH_related shift_eq cfg hS (fuelFor_le cfg.base hS (by simp))
  exact ⟨a, b, h1, h2, hk, NRelL.eq hc, hr⟩

/-- **equal views** (the same lines, whatever the terminators and offsets): the same tree up to
    source offsets, the same reference map -/
theorem parseBlocksH_views (cfg : CfgH) (s₁ s₂ : List Char) (h : Lines.views s₁ = Lines.views s₂)
    (hf : fuelFor cfg.base s₁ ≤ fuelFor cfg.base s₂) :
    ∃ a b, parseBlocksH cfg s₁ = .ok a ∧ parseBlocksH cfg s₂ = .ok b ∧ BlocksRel (fun _ _ => True) a b :=
  parseBlocksH_related shift_true cfg (startRel_true _ _ 0 0 (lines_of_views h)) hf

-- non-vacuity: an html block interrupting a paragraph and one inside a quote, CR LF / CR vs LF
example : rootKinds (parseBlocksH (cfgOfH 100 stockH) "a\r\n<div>\r\n\r\n> <pre>".toList)
    = rootKinds (parseBlocksH (cfgOfH 100 stockH) "a\n<div>\n\n> <pre>".toList) ∧
    rootKinds (parseBlocksH (cfgOfH 100 stockH) "a\r<div>\r\r> <pre>".toList)
    = some [.paragraph, htmlKind "<div>\n".toList, .blockquote] ∧
    lfToCr "a\n<div>\n\n> <pre>".toList = "a\r<div>\r\r> <pre>".toList := by
  decide +kernel

end lineEndings

end MdIt.BlockH
