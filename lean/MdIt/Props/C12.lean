/-
  C12 — Escapes and character references mean the same in every context.

  Path A = inline text (`EntityScanner`, `EscapeScanner`, the `tokenize` loop with the text scanner),
  path B = `unescape_all` (link destination, link title, reference definition, fence info string).
  All statements hold for EVERY entity table `lookup` (a parameter); the table lemmas at the end
  instantiate them with `Gen.Entities.table` (the `entities` crate as linked).

  Property theorems:
    agreement        `named_agree`, `numeric_agree`, `escape_agree`, `escape_literal_agree`
                     (+ `…_inline`: the whole chain `[text, escape, entity]`; `…_at`: at any position of a
                     longer source; `unescapeScan_named/_numeric/_escape`: path B followed by anything)
    no panic         `numeric_parse_total`, `valid_code_is_scalar`, `codeToChars_valid`,
                     `unescapeAllE_total`, `tokenizeTEE_total`, `matchUnescapeAllRe_prefix`
    literal sets     `escapable_is_ascii_punct`, `escapable_eq_unescapeClass`, `stopset_subset_punct`,
                     `escapable_length`
    shipped table    `entity_names_fit_syntax`, `table_no_hash`, `table_sorted`, `table_lookup_complete`,
                     `table_named_agree`, `table_numeric_agree`
    round trip       `escape_roundtrip`, `escape_roundtrip_TE`
    regex modelling  `runThenSemi_ok`, `runThenSemi_sound`, `runThenSemi_too_long`

  Scope notes.
  * `\` + newline is a hard break in inline text and literal on path B (`escape_newline`); the property
    speaks of escapable punctuation only.
  * The round trip is stated for the inline loop.  That `escapeAllPunct s` is ONE paragraph whose inline
    content is `escapeAllPunct s` (no block construct starts with `\` or a non-punctuation character
    other than digits/blank; leading/trailing blanks are trimmed) is block-level and not modelled here.
-/
import MdIt.Model.Entity
import MdIt.Gen.Entities

namespace MdIt.Entity

/-! ## digits and the radix parse -/

theorem digitVal?_hex (c : Char) (h : isHexDigit c = true) :
    digitVal? 16 c = some (digitVal c) ∧ digitVal c < 16 := by
  simp [isHexDigit, isDigit] at h
  unfold digitVal? digitVal
  by_cases h1 : (48 ≤ c.toNat && c.toNat ≤ 57) = true
  · simp only [h1, if_true]; simp at h1; constructor
    · rw [if_pos (by omega)]
    · omega
  · by_cases h2 : (97 ≤ c.toNat && c.toNat ≤ 102) = true
    · simp only [h1, h2, if_true]; simp at h2; constructor
      · simp; omega
      · simp; omega
    · by_cases h3 : (65 ≤ c.toNat && c.toNat ≤ 70) = true
      · simp only [h1, h2, h3, if_true]; simp at h3; constructor
        · simp; omega
        · simp; omega
      · simp at h1 h2 h3; omega

theorem digitVal?_dec (c : Char) (h : isDigit c = true) :
    digitVal? 10 c = some (digitVal c) ∧ digitVal c < 10 := by
  unfold isDigit at h
  unfold digitVal? digitVal
  simp only [h, if_true]; simp at h; constructor
  · rw [if_pos (by omega)]
  · omega

theorem foldl_digits_cons (radix acc : Nat) (c : Char) (s : List Char) :
    List.foldl (fun acc c => acc * radix + digitVal c) acc (c :: s) =
    List.foldl (fun acc c => acc * radix + digitVal c) (acc * radix + digitVal c) s := rfl

theorem parseU32Loop_ok (radix : Nat) (s : List Char)
    (hd : ∀ c ∈ s, digitVal? radix c = some (digitVal c) ∧ digitVal c < radix) :
    ∀ acc, (acc + 1) * radix ^ s.length ≤ 4294967296 →
      parseU32Loop radix acc s = some (s.foldl (fun acc c => acc * radix + digitVal c) acc) := by
  induction s with
  | nil => intro acc _; simp [parseU32Loop]
  | cons c t ih =>
    intro acc hb
    have ⟨h1, h2⟩ := hd c (by simp)
    have hpos : 0 < radix ^ t.length := Nat.pow_pos (by omega)
    have hstep : (acc * radix + digitVal c + 1) * radix ^ t.length ≤ 4294967296 := by
      have : acc * radix + digitVal c + 1 ≤ (acc + 1) * radix := by
        rw [Nat.add_mul]; omega
      calc (acc * radix + digitVal c + 1) * radix ^ t.length
          ≤ ((acc + 1) * radix) * radix ^ t.length := Nat.mul_le_mul_right _ this
        _ = (acc + 1) * radix ^ (t.length + 1) := by rw [Nat.pow_succ, Nat.mul_assoc, Nat.mul_comm radix]
        _ ≤ 4294967296 := by simpa using hb
    have hlt : acc * radix + digitVal c < 4294967296 := by
      have : (acc * radix + digitVal c + 1) * 1 ≤ (acc * radix + digitVal c + 1) * radix ^ t.length :=
        Nat.mul_le_mul_left _ hpos
      omega
    simp only [parseU32Loop, h1, hlt, if_true, foldl_digits_cons]
    exact ih (fun c hc => hd c (by simp [hc])) _ hstep

/-- `from_str_radix` on a non-empty digit string short enough for `u32` -/
theorem parseU32_ok (radix : Nat) (s : List Char) (hne : s ≠ [])
    (hd : ∀ c ∈ s, digitVal? radix c = some (digitVal c) ∧ digitVal c < radix)
    (hb : radix ^ s.length ≤ 4294967296) :
    parseU32 radix s = some (digitsVal radix s) := by
  have hplus : ∀ c ∈ s, c ≠ '+' := by
    intro c hc he
    have := (hd c hc).1
    rw [he] at this
    simp [digitVal?] at this
  unfold parseU32 digitsVal
  split
  · exact absurd rfl hne
  · exact absurd rfl (hplus '+' (by simp))
  · exact absurd rfl (hplus '+' (by simp))
  · exact parseU32Loop_ok radix s hd 0 (by simpa using hb)

/-! ## valid codes are scalar values -/

theorem valid_code_is_scalar (code : Nat) (h : isValidEntityCode code = true) : code.isValidChar := by
  unfold isValidEntityCode at h
  unfold Nat.isValidChar
  by_cases h1 : code < 0xD800
  · exact Or.inl h1
  · right
    split at h
    · cases h
    · rename_i hs
      simp at hs
      repeat (split at h; (try cases h))
      rename_i hr
      simp at hr
      omega

theorem charFromU32_valid (code : Nat) (h : isValidEntityCode code = true) :
    charFromU32 code = some (Char.ofNat code) := by
  have hv := valid_code_is_scalar code h
  simp [charFromU32, hv, Char.ofNat]

/-- the character denoted really has the referenced code -/
theorem codeToChars_valid (code : Nat) (h : isValidEntityCode code = true) :
    codeToChars code = [Char.ofNat code] ∧ (Char.ofNat code).toNat = code := by
  have hv := valid_code_is_scalar code h
  refine ⟨by simp [codeToChars, h], ?_⟩
  simp [Char.ofNat, hv, Char.ofNatAux, Char.toNat]

/-! ## `splitRun`, `runThenSemi` -/

theorem splitRun_append (p : Char → Bool) (n rest : List Char) (hn : ∀ c ∈ n, p c = true)
    (hr : ∀ c ∈ rest.head?, p c = false) : splitRun p (n ++ rest) = (n, rest) := by
  induction n with
  | nil =>
    match rest, hr with
    | [], _ => simp [splitRun]
    | c :: r, hr => simp [splitRun, hr c (by simp)]
  | cons c t ih =>
    have := ih (fun x hx => hn x (by simp [hx]))
    simp [splitRun, hn c (by simp), this]

theorem splitRun_sound (p : Char → Bool) (s : List Char) :
    (∀ c ∈ (splitRun p s).1, p c = true) ∧ s = (splitRun p s).1 ++ (splitRun p s).2 ∧
    (∀ c ∈ (splitRun p s).2.head?, p c = false) := by
  induction s with
  | nil => simp [splitRun]
  | cons c t ih =>
    by_cases h : p c = true
    · simp only [splitRun, h, if_true]
      refine ⟨?_, ?_, ih.2.2⟩
      · intro x hx; simp at hx; rcases hx with rfl | hx; exact h; exact ih.1 x hx
      · simp; exact ih.2.1
    · simp [splitRun, h]

theorem runThenSemi_ok (p : Char → Bool) (max : Nat) (n rest : List Char) (hn : ∀ c ∈ n, p c = true)
    (hp : p ';' = false) (h1 : 1 ≤ n.length) (h2 : n.length ≤ max) :
    runThenSemi p max (n ++ ';' :: rest) = some (n, rest) := by
  have := splitRun_append p n (';' :: rest) hn (by simp [hp])
  simp [runThenSemi, this, h1, h2]

theorem runThenSemi_sound (p : Char → Bool) (max : Nat) (s run rest : List Char)
    (h : runThenSemi p max s = some (run, rest)) :
    (∀ c ∈ run, p c = true) ∧ 1 ≤ run.length ∧ run.length ≤ max ∧ s = run ++ ';' :: rest := by
  unfold runThenSemi at h
  have hs := splitRun_sound p s
  by_cases hl : (decide (1 ≤ (splitRun p s).1.length) && decide ((splitRun p s).1.length ≤ max)) = true
  · simp only [hl, if_true] at h
    split at h
    · rename_i r heq
      simp at h
      obtain ⟨rfl, rfl⟩ := h
      simp at hl
      refine ⟨hs.1, hl.1, hl.2, ?_⟩
      rw [← heq]; exact hs.2.1
    · cases h
  · simp only [hl] at h; cases h

/-- a run longer than the bound never matches, whatever follows (no help from backtracking) -/
theorem runThenSemi_too_long (p : Char → Bool) (max : Nat) (n rest : List Char)
    (hn : ∀ c ∈ n, p c = true) (hp : p ';' = false) (h : max < n.length) :
    runThenSemi p max (n ++ ';' :: rest) = none := by
  have := splitRun_append p n (';' :: rest) hn (by simp [hp])
  simp [runThenSemi, this]
  omega

/-! ## syntax of references -/

/-- capture 1 of a numeric reference: `x`/`X` + 1–6 hex digits, or 1–7 decimal digits -/
def numericBody : List Char → Bool
  | [] => false
  | c :: t =>
    if isX c then t.all isHexDigit && 1 ≤ t.length && t.length ≤ 6
    else (c :: t).all isDigit && (c :: t).length ≤ 7

/-- the name of a named reference (between `&` and `;`): ASCII letter + 1–31 ASCII alphanumerics -/
def namedSyntax : List Char → Bool
  | [] => false
  | c :: t => isAlpha c && t.all isAlnum && 1 ≤ t.length && t.length ≤ 31

theorem isX_not_digit (c : Char) (h : isX c = true) : isDigit c = false := by
  simp [isX] at h; rcases h with rfl | rfl <;> decide

theorem matchDigitalBody_ok (cap rest : List Char) (h : numericBody cap = true) :
    matchDigitalBody (cap ++ ';' :: rest) = some (cap, rest) := by
  match cap, h with
  | c :: t, h =>
    unfold numericBody at h
    by_cases hx : isX c = true
    · simp [hx] at h
      have := runThenSemi_ok isHexDigit 6 t rest h.1.1 (by decide) h.1.2 h.2
      simp [matchDigitalBody, hx, this]
    · simp [hx] at h
      have := runThenSemi_ok isDigit 7 (c :: t) rest (by simpa using h.1) (by decide) (by simp) (by simpa using h.2)
      simp at this
      simp [matchDigitalBody, hx, this]

theorem matchDigitalBody_sound (s cap rest : List Char) (h : matchDigitalBody s = some (cap, rest)) :
    numericBody cap = true ∧ s = cap ++ ';' :: rest := by
  match s, h with
  | c :: t, h =>
    unfold matchDigitalBody at h
    by_cases hx : isX c = true
    · simp only [hx, if_true] at h
      split at h
      · rename_i run rest' heq
        simp at h
        obtain ⟨rfl, rfl⟩ := h
        have := runThenSemi_sound _ _ _ _ _ heq
        simp [numericBody, hx, this.2.1, this.2.2.1]
        exact ⟨this.1, this.2.2.2⟩
      · cases h
    · simp only [hx] at h
      have := runThenSemi_sound _ _ _ _ _ h
      match cap, this with
      | [], this => simp at this
      | d :: u, this =>
        have hd : isDigit d = true := this.1 d (by simp)
        have hxd : isX d = false := by
          cases hh : isX d
          · rfl
          · rw [isX_not_digit d hh] at hd; cases hd
        refine ⟨?_, this.2.2.2⟩
        simp [numericBody, hxd]
        exact ⟨⟨hd, fun x hx => this.1 x (by simp [hx])⟩, by simpa using this.2.2.1⟩


/-! ## the numeric decode never panics -/

theorem entityCode_hex (c : Char) (t : List Char) (h : isX c = true) :
    entityCode (c :: t) = digitsVal 16 t := by simp [entityCode, h]

/-- **C12 (`numeric_parse_total`).** On every capture the numeric patterns can produce, both
    `from_str_radix(..).unwrap()` and `char::from_u32(..).unwrap()` succeed (≤ 6 hex / ≤ 7 decimal
    digits fit `u32`; a code accepted by `is_valid_entity_code` is a scalar value), and the result is
    the specification `decodeEntity`. -/
theorem numeric_parse_total (cap : List Char) (h : numericBody cap = true) :
    decodeEntityE cap = .ok (decodeEntity cap) := by
  match cap, h with
  | c :: t, h =>
    unfold numericBody at h
    have hcode : (if isX c then parseU32 16 t else parseU32 10 (c :: t)) = some (entityCode (c :: t)) := by
      by_cases hx : isX c = true
      · simp [hx] at h
        simp only [hx, if_true, entityCode]
        refine parseU32_ok 16 t ?_ (fun x hx => digitVal?_hex x (h.1.1 x hx)) ?_
        · intro he; rw [he] at h; simp at h
        · calc 16 ^ t.length ≤ 16 ^ 6 := Nat.pow_le_pow_right (by decide) h.2
            _ ≤ 4294967296 := by decide
      · simp [hx] at h
        simp only [hx, entityCode]
        refine parseU32_ok 10 (c :: t) (by simp) ?_ ?_
        · intro x hx'
          simp at hx'
          rcases hx' with rfl | hx'
          · exact digitVal?_dec x h.1.1
          · exact digitVal?_dec x (h.1.2 x hx')
        · calc 10 ^ (c :: t).length ≤ 10 ^ 7 := Nat.pow_le_pow_right (by decide) (by simpa using h.2)
            _ ≤ 4294967296 := by decide
    simp only [decodeEntityE, hcode, decodeEntity, codeToChars]
    by_cases hv : isValidEntityCode (entityCode (c :: t)) = true
    · simp [hv, charFromU32_valid _ hv]
    · simp [hv]

/-- `replace_entity_pattern` never panics, on any string and any table -/
theorem replaceEntityPatternE_total (lookup : List Char → Option (List Char)) (str : List Char) :
    replaceEntityPatternE lookup str = .ok (replaceEntityPattern lookup str) := by
  unfold replaceEntityPatternE replaceEntityPattern
  split
  · rfl
  · split
    · rename_i cap heq
      have hb : numericBody cap = true := by
        unfold matchDigitalTestRe at heq
        split at heq
        · rename_i cap' hm
          simp at heq; subst heq
          unfold matchDigitalRe at hm
          split at hm
          · exact (matchDigitalBody_sound _ _ _ hm).1
          · cases hm
        · cases heq
      simp [numeric_parse_total cap hb]
    · rfl

theorem replacementE_total (lookup : List Char → Option (List Char)) (m : ReMatch) :
    replacementE lookup m = .ok (replacement lookup m) := by
  unfold replacementE replacement
  split
  · rfl
  · rw [replaceEntityPatternE_total]
    split <;> simp_all

theorem unescapeScanE_total (lookup : List Char → Option (List Char)) (skip : Nat) (s : List Char) :
    unescapeScanE lookup skip s = .ok (unescapeScan lookup skip s) := by
  fun_induction unescapeScan lookup skip s with
  | case1 => simp [unescapeScanE]
  | case2 skip c r ih => simpa [unescapeScanE] using ih
  | case3 c r hm ih => simp [unescapeScanE, hm, ih]
  | case4 c r m hm ih => simp [unescapeScanE, hm, ih, replacementE_total]

/-- **C12 / C01.** `unescape_all` never panics (for every input and every table) and computes the
    total specification `unescapeAll`. -/
theorem unescapeAllE_total (lookup : List Char → Option (List Char)) (s : List Char) :
    unescapeAllE lookup s = .ok (unescapeAll lookup s) := by
  unfold unescapeAllE unescapeAll
  split
  · rfl
  · exact unescapeScanE_total lookup 0 s

/-! ## the regex matchers: matches are prefixes of the input -/

theorem matchEntityRe_sound (s whole rest : List Char) (h : matchEntityRe s = some (whole, rest)) :
    s = whole ++ rest ∧ ∃ c run, whole = '&' :: c :: (run ++ [';']) ∧ (isAlpha c = true ∨ c = '#') ∧
      (∀ x ∈ run, isAlnum x = true) ∧ 1 ≤ run.length ∧ run.length ≤ 31 := by
  unfold matchEntityRe at h
  split at h
  · rename_i c t
    split at h
    · rename_i hc
      split at h
      · rename_i run rest' heq
        simp at h
        obtain ⟨rfl, rfl⟩ := h
        have := runThenSemi_sound _ _ _ _ _ heq
        refine ⟨by simp [this.2.2.2], c, run, rfl, by simpa using hc, this.1, this.2.1, this.2.2.1⟩
      · cases h
    · cases h
  · cases h

/-- what `matchUnescapeAllRe` reports is a prefix of the input of length ≥ 2 starting with the
    current character: `unescapeScan`'s `m.whole.length - 1` is the number of FURTHER characters of
    the match and the subtraction never truncates. -/
theorem matchUnescapeAllRe_prefix (c : Char) (r : List Char) (m : ReMatch)
    (h : matchUnescapeAllRe (c :: r) = some m) :
    ∃ t rest, m.whole = c :: t ∧ t ≠ [] ∧ r = t ++ rest := by
  unfold matchUnescapeAllRe at h
  split at h
  · rename_i e he
    simp at h; subst h
    unfold matchEscapeRe at he
    split at he
    · rename_i c' t heq
      split at he
      · simp at he heq; subst he
        exact ⟨[c'], t, by simp [heq.1], by simp, by simp [heq.2]⟩
      · cases he
    · cases he
  · split at h
    · rename_i whole rest heq
      simp at h; subst h
      obtain ⟨hs, c', run, hw, _⟩ := matchEntityRe_sound _ _ _ heq
      subst hw
      simp at hs
      exact ⟨c' :: (run ++ [';']), rest, by simp [hs.1], by simp, by simp [hs.2]⟩
    · cases h

/-! ## scanning -/

theorem unescapeScan_skip (lookup : List Char → Option (List Char)) (a b : List Char) :
    unescapeScan lookup a.length (a ++ b) = unescapeScan lookup 0 b := by
  induction a with
  | nil => simp
  | cons c t ih => simpa [unescapeScan] using ih

theorem unescapeScan_nil (lookup : List Char → Option (List Char)) (k : Nat) :
    unescapeScan lookup k [] = [] := by
  cases k <;> simp [unescapeScan]

/-- a match at the head of the input is replaced and scanning resumes right after it -/
theorem unescapeScan_match (lookup : List Char → Option (List Char)) (c : Char) (t rest : List Char)
    (m : ReMatch) (hm : matchUnescapeAllRe (c :: (t ++ rest)) = some m) (hw : m.whole = c :: t) :
    unescapeScan lookup 0 (c :: (t ++ rest)) = replacement lookup m ++ unescapeScan lookup 0 rest := by
  simp [unescapeScan, hm, hw, unescapeScan_skip]

theorem unescapeScan_nomatch (lookup : List Char → Option (List Char)) (c : Char) (r : List Char)
    (hm : matchUnescapeAllRe (c :: r) = none) :
    unescapeScan lookup 0 (c :: r) = c :: unescapeScan lookup 0 r := by
  simp [unescapeScan, hm]

/-! ## named references -/

theorem isAlpha_isAlphaI (c : Char) (h : isAlpha c = true) : isAlphaI c = true := by simp [isAlphaI, h]
theorem isAlnum_isAlnumI (c : Char) (h : isAlnum c = true) : isAlnumI c = true := by
  simp [isAlnum] at h; rcases h with h | h <;> simp [isAlnumI, isAlphaI, h]

theorem namedSyntax_parts (n : List Char) (h : namedSyntax n = true) :
    ∃ c t, n = c :: t ∧ isAlpha c = true ∧ (∀ x ∈ t, isAlnum x = true) ∧ 1 ≤ t.length ∧ t.length ≤ 31 := by
  match n, h with
  | c :: t, h =>
    simp [namedSyntax] at h
    exact ⟨c, t, rfl, h.1.1.1, h.1.1.2, h.1.2, h.2⟩

theorem matchNamedRe_ok (n rest : List Char) (h : namedSyntax n = true) :
    matchNamedRe ('&' :: (n ++ ';' :: rest)) = some ('&' :: (n ++ [';']), rest) := by
  obtain ⟨c, t, rfl, hc, ht, h1, h2⟩ := namedSyntax_parts n h
  have := runThenSemi_ok isAlnumI 31 t rest (fun x hx => isAlnum_isAlnumI x (ht x hx)) (by decide) h1 h2
  simp [matchNamedRe, isAlpha_isAlphaI c hc, this]

theorem matchEntityRe_named (n rest : List Char) (h : namedSyntax n = true) :
    matchEntityRe ('&' :: (n ++ ';' :: rest)) = some ('&' :: (n ++ [';']), rest) := by
  obtain ⟨c, t, rfl, hc, ht, h1, h2⟩ := namedSyntax_parts n h
  have := runThenSemi_ok isAlnum 31 t rest ht (by decide) h1 h2
  simp [matchEntityRe, hc, this]

theorem matchEscapeRe_amp (s : List Char) : matchEscapeRe ('&' :: s) = none := by
  unfold matchEscapeRe
  split
  · rename_i heq; simp at heq
  · rfl

theorem slice?_all (s : List Char) : slice? s 0 s.length = some s := by simp [slice?]

theorem isAlpha_ne_hash (c : Char) (h : isAlpha c = true) : c ≠ '#' := by
  intro he; subst he; revert h; decide

/-- path A on a named reference followed by anything -/
theorem entityCore_named (lookup : List Char → Option (List Char)) (n rest cs : List Char)
    (hn : namedSyntax n = true) (hl : lookup ('&' :: (n ++ [';'])) = some cs) :
    entityCore lookup ('&' :: (n ++ ';' :: rest)) ('&' :: (n ++ ';' :: rest)) =
      .ok (some ⟨('&' :: (n ++ [';'])).length, cs, '&' :: (n ++ [';'])⟩) := by
  have hm := matchNamedRe_ok n rest hn
  obtain ⟨c, t, rfl, hc, -⟩ := namedSyntax_parts n hn
  have hne := isAlpha_ne_hash c hc
  simp only [entityCore, List.cons_append]
  split
  · rename_i heq; simp at heq
  · split
    · rename_i heq; simp at heq; exact absurd heq.1 hne
    · simp only [parseNamedEntity]
      simp only [List.cons_append] at hm
      rw [hm]
      simp only [List.cons_append] at hl
      simp [hl]

/-- path B on a named reference followed by anything -/
theorem unescapeScan_named (lookup : List Char → Option (List Char)) (n rest cs : List Char)
    (hn : namedSyntax n = true) (hl : lookup ('&' :: (n ++ [';'])) = some cs) :
    unescapeScan lookup 0 ('&' :: (n ++ ';' :: rest)) = cs ++ unescapeScan lookup 0 rest := by
  have hm : matchUnescapeAllRe ('&' :: ((n ++ [';']) ++ rest)) = some ⟨'&' :: (n ++ [';']), none⟩ := by
    simp [matchUnescapeAllRe, matchEscapeRe_amp, matchEntityRe_named n rest hn]
  rw [show n ++ ';' :: rest = (n ++ [';']) ++ rest by simp]
  rw [unescapeScan_match lookup '&' (n ++ [';']) rest _ hm rfl]
  simp [replacement, replaceEntityPattern, hl]

/-- **C12 (`named_agree`).** For every table, every name `n` with the syntax of a named reference
    (ASCII letter + 1–31 ASCII alphanumerics) that the table maps to `cs`: the inline rule at
    position 0 of `&n;` consumes all of it and produces content `cs`; the whole inline chain shows `cs`;
    `unescape_all("&n;") = cs`, without panic. -/
theorem named_agree (lookup : List Char → Option (List Char)) (n cs : List Char)
    (hn : namedSyntax n = true) (hl : lookup ('&' :: (n ++ [';'])) = some cs) :
    entityRule lookup ('&' :: (n ++ [';'])) 0 ('&' :: (n ++ [';'])).length =
        .ok (some ⟨('&' :: (n ++ [';'])).length, cs, '&' :: (n ++ [';'])⟩) ∧
    unescapeAllE lookup ('&' :: (n ++ [';'])) = .ok cs ∧
    unescapeAll lookup ('&' :: (n ++ [';'])) = cs := by
  have hB : unescapeAll lookup ('&' :: (n ++ [';'])) = cs := by
    have := unescapeScan_named lookup n [] cs hn hl
    simp [unescapeAll, this, unescapeScan_nil]
  refine ⟨?_, by rw [unescapeAllE_total, hB], hB⟩
  unfold entityRule
  rw [slice?_all]
  exact entityCore_named lookup n [] cs hn hl

/-! ## numeric references -/

theorem isHexDigit_isAlnum (c : Char) (h : isHexDigit c = true) : isAlnum c = true := by
  simp [isHexDigit, isDigit] at h
  simp [isAlnum, isAlpha, isDigit]
  omega

theorem isX_isAlnum (c : Char) (h : isX c = true) : isAlnum c = true := by
  simp [isX] at h; rcases h with rfl | rfl <;> decide

theorem numericBody_alnum (cap : List Char) (h : numericBody cap = true) :
    (∀ x ∈ cap, isAlnum x = true) ∧ 1 ≤ cap.length ∧ cap.length ≤ 7 := by
  match cap, h with
  | c :: t, h =>
    unfold numericBody at h
    by_cases hx : isX c = true
    · simp [hx] at h
      refine ⟨?_, by simp, by simp; omega⟩
      intro x hx'
      simp at hx'
      rcases hx' with rfl | hx'
      · exact isX_isAlnum x hx
      · exact isHexDigit_isAlnum x (h.1.1 x hx')
    · simp [hx] at h
      refine ⟨?_, by simp, by simpa using h.2⟩
      intro x hx'
      simp at hx'
      rcases hx' with rfl | hx'
      · simp [isAlnum, h.1.1]
      · simp [isAlnum, h.1.2 x hx']

theorem matchDigitalRe_ok (cap rest : List Char) (h : numericBody cap = true) :
    matchDigitalRe ('&' :: '#' :: (cap ++ ';' :: rest)) = some (cap, rest) := by
  simp [matchDigitalRe, matchDigitalBody_ok cap rest h]

theorem matchEntityRe_numeric (cap rest : List Char) (h : numericBody cap = true) :
    matchEntityRe ('&' :: '#' :: (cap ++ ';' :: rest)) = some ('&' :: '#' :: (cap ++ [';']), rest) := by
  obtain ⟨ha, h1, h2⟩ := numericBody_alnum cap h
  have := runThenSemi_ok isAlnum 31 cap rest ha (by decide) h1 (by omega)
  simp [matchEntityRe, this]

/-- path A on a numeric reference followed by anything -/
theorem entityCore_numeric (lookup : List Char → Option (List Char)) (cap rest : List Char)
    (h : numericBody cap = true) :
    entityCore lookup ('&' :: '#' :: (cap ++ ';' :: rest)) ('&' :: '#' :: (cap ++ ';' :: rest)) =
      .ok (some ⟨('&' :: '#' :: (cap ++ [';'])).length, decodeEntity cap, '&' :: '#' :: (cap ++ [';'])⟩) := by
  simp [entityCore, parseDigitalEntity, matchDigitalRe_ok cap rest h, numeric_parse_total cap h]

/-- path B on a numeric reference followed by anything -/
theorem unescapeScan_numeric (lookup : List Char → Option (List Char)) (cap rest : List Char)
    (h : numericBody cap = true) (hl : lookup ('&' :: '#' :: (cap ++ [';'])) = none) :
    unescapeScan lookup 0 ('&' :: '#' :: (cap ++ ';' :: rest)) =
      decodeEntity cap ++ unescapeScan lookup 0 rest := by
  have hm : matchUnescapeAllRe ('&' :: (('#' :: (cap ++ [';'])) ++ rest)) =
      some ⟨'&' :: '#' :: (cap ++ [';']), none⟩ := by
    have := matchEntityRe_numeric cap rest h
    simp [matchUnescapeAllRe, matchEscapeRe_amp] at this ⊢
    simp [this]
  rw [show '#' :: (cap ++ ';' :: rest) = ('#' :: (cap ++ [';'])) ++ rest by simp]
  rw [unescapeScan_match lookup '&' ('#' :: (cap ++ [';'])) rest _ hm rfl]
  have ht : matchDigitalTestRe ('&' :: '#' :: (cap ++ [';'])) = some cap := by
    simp [matchDigitalTestRe, matchDigitalRe_ok cap [] h]
  simp [replacement, replaceEntityPattern, hl, ht]

/-- **C12 (`numeric_agree`).** For every capture `cap` = `x`/`X` + 1–6 hex digits or 1–7 decimal digits,
    with `r = "&#" ++ cap ++ ";"`: the inline rule at position 0 consumes all of `r`, and its content,
    `unescape_all(r)` (no panic) and the specification agree: the character with that code if
    `is_valid_entity_code` accepts it (it is then a scalar value: `codeToChars_valid`), U+FFFD otherwise
    (code 0, surrogates, > 0x10FFFF, non-characters, controls).
    The table is only required not to contain names starting `&#` (`table_no_hash`). -/
theorem numeric_agree (lookup : List Char → Option (List Char)) (cap : List Char)
    (h : numericBody cap = true) (hl : ∀ s, lookup ('&' :: '#' :: s) = none) :
    entityRule lookup ('&' :: '#' :: (cap ++ [';'])) 0 ('&' :: '#' :: (cap ++ [';'])).length =
        .ok (some ⟨('&' :: '#' :: (cap ++ [';'])).length, codeToChars (entityCode cap),
          '&' :: '#' :: (cap ++ [';'])⟩) ∧
    unescapeAllE lookup ('&' :: '#' :: (cap ++ [';'])) = .ok (codeToChars (entityCode cap)) ∧
    unescapeAll lookup ('&' :: '#' :: (cap ++ [';'])) = codeToChars (entityCode cap) ∧
    codeToChars (entityCode cap) =
      (if isValidEntityCode (entityCode cap) then [Char.ofNat (entityCode cap)] else [Char.ofNat 0xFFFD]) := by
  have hB : unescapeAll lookup ('&' :: '#' :: (cap ++ [';'])) = codeToChars (entityCode cap) := by
    have := unescapeScan_numeric lookup cap [] h (hl _)
    simp [unescapeAll, this, unescapeScan_nil, decodeEntity]
  refine ⟨?_, by rw [unescapeAllE_total, hB], hB, rfl⟩
  unfold entityRule
  rw [slice?_all]
  exact entityCore_numeric lookup cap [] h

/-! ## backslash escapes -/

/-- the `match` arm of `escape.rs` and the class of `UNESCAPE_MD_RE` list the same characters -/
theorem escapable_eq_unescapeClass (c : Char) : c ∈ escapable ↔ c ∈ unescapeClass :=
  ⟨(by decide : ∀ c ∈ escapable, c ∈ unescapeClass) c, (by decide : ∀ c ∈ unescapeClass, c ∈ escapable) c⟩

theorem escapable_length : escapable.length = 32 ∧ escapable.Nodup ∧
    unescapeClass.length = 32 ∧ unescapeClass.Nodup ∧ textStop.length = 23 ∧ textStop.Nodup := by decide

theorem punctN_escapable : ∀ n < 128, isAsciiPunctN n = true → Char.ofNat n ∈ escapable := by decide

/-- **C12.** the escapable characters are exactly the 32 ASCII punctuation characters -/
theorem escapable_is_ascii_punct (c : Char) : c ∈ escapable ↔ isAsciiPunct c = true := by
  constructor
  · exact (by decide : ∀ c ∈ escapable, isAsciiPunct c = true) c
  · intro h
    have hlt : c.toNat < 128 := by
      simp [isAsciiPunct, isAsciiPunctN] at h; omega
    have := punctN_escapable c.toNat hlt h
    rwa [Char.ofNat_toNat] at this

/-- every stop character of the text scanner other than the newline is ASCII punctuation -/
theorem stopset_subset_punct : ∀ c ∈ textStop, c = '\n' ∨ isAsciiPunct c = true := by decide

theorem newline_not_escapable : '\n' ∉ escapable := by decide

theorem escapeCore_escapable (c : Char) (rest : List Char) (h : c ∈ escapable) :
    escapeCore ('\\' :: c :: rest) = .ok (some (.special ⟨2, [c], ['\\', c]⟩)) := by
  have hn : c ≠ '\n' := fun he => newline_not_escapable (he ▸ h)
  simp [escapeCore, hn, h]

theorem escapeCore_literal (c : Char) (rest : List Char) (h : c ∉ escapable) (hn : c ≠ '\n') :
    escapeCore ('\\' :: c :: rest) = .ok (some (.special ⟨2, ['\\', c], ['\\', c]⟩)) := by
  simp [escapeCore, hn, h]

theorem matchEscapeRe_escapable (c : Char) (rest : List Char) (h : c ∈ escapable) :
    matchEscapeRe ('\\' :: c :: rest) = some c := by
  simp [matchEscapeRe, (escapable_eq_unescapeClass c).1 h]

theorem matchEscapeRe_not (c : Char) (rest : List Char) (h : c ∉ escapable) :
    matchEscapeRe ('\\' :: c :: rest) = none := by
  have : c ∉ unescapeClass := fun hc => h ((escapable_eq_unescapeClass c).2 hc)
  simp [matchEscapeRe, this]

theorem matchEntityRe_backslash (s : List Char) : matchEntityRe ('\\' :: s) = none := by
  unfold matchEntityRe
  split
  · rename_i heq; simp at heq
  · rfl

theorem matchUnescapeAllRe_single (c : Char) : matchUnescapeAllRe [c] = none := by
  simp [matchUnescapeAllRe, matchEscapeRe, matchEntityRe]

/-- path B on an escape followed by anything -/
theorem unescapeScan_escape (lookup : List Char → Option (List Char)) (c : Char) (rest : List Char)
    (h : c ∈ escapable) :
    unescapeScan lookup 0 ('\\' :: c :: rest) = c :: unescapeScan lookup 0 rest := by
  have hm : matchUnescapeAllRe ('\\' :: ([c] ++ rest)) = some ⟨['\\', c], some c⟩ := by
    simp [matchUnescapeAllRe, matchEscapeRe_escapable c rest h]
  have := unescapeScan_match lookup '\\' [c] rest _ hm rfl
  simpa [replacement] using this

theorem contains_backslash (c : Char) : (['\\', c] : List Char).contains '\\' = true := by simp

/-- **C12 (`escape_agree`).** For each of the 32 escapable characters `c`: the inline rule on `\c`
    consumes both characters with content `c`, and `unescape_all("\c") = c`. -/
theorem escape_agree (lookup : List Char → Option (List Char)) (c : Char) (h : c ∈ escapable) :
    escapeRule ['\\', c] 0 2 = .ok (some (.special ⟨2, [c], ['\\', c]⟩)) ∧
    unescapeAllE lookup ['\\', c] = .ok [c] ∧
    unescapeAll lookup ['\\', c] = [c] := by
  have hB : unescapeAll lookup ['\\', c] = [c] := by
    simp [unescapeAll, unescapeScan_escape lookup c [] h, unescapeScan_nil]
  refine ⟨?_, by rw [unescapeAllE_total, hB], hB⟩
  have : slice? ['\\', c] 0 2 = some ['\\', c] := slice?_all ['\\', c]
  simp only [escapeRule, this]
  exact escapeCore_escapable c [] h

/-- **C12 (`escape_agree`, other characters).** For every other character `c` except the newline
    (which makes a hard break in inline text only) both paths leave `\c` literal. -/
theorem escape_literal_agree (lookup : List Char → Option (List Char)) (c : Char)
    (h : c ∉ escapable) (hn : c ≠ '\n') :
    escapeRule ['\\', c] 0 2 = .ok (some (.special ⟨2, ['\\', c], ['\\', c]⟩)) ∧
    unescapeAllE lookup ['\\', c] = .ok ['\\', c] ∧
    unescapeAll lookup ['\\', c] = ['\\', c] := by
  have hB : unescapeAll lookup ['\\', c] = ['\\', c] := by
    have h1 : matchUnescapeAllRe ['\\', c] = none := by
      simp [matchUnescapeAllRe, matchEscapeRe_not c [] h, matchEntityRe_backslash]
    simp [unescapeAll, unescapeScan_nomatch lookup _ _ h1,
      unescapeScan_nomatch lookup _ _ (matchUnescapeAllRe_single c), unescapeScan_nil]
  refine ⟨?_, by rw [unescapeAllE_total, hB], hB⟩
  have : slice? ['\\', c] 0 2 = some ['\\', c] := slice?_all ['\\', c]
  simp only [escapeRule, this]
  exact escapeCore_literal c [] h hn

/-- the one disagreement, outside the property: `\` + newline is a hard break in inline text and
    stays literal in attribute contexts -/
theorem escape_newline (lookup : List Char → Option (List Char)) :
    escapeRule ['\\', '\n'] 0 2 = .ok (some (.hardbreak 2)) ∧
    unescapeAll lookup ['\\', '\n'] = ['\\', '\n'] := by
  constructor
  · simp [escapeRule, slice?, escapeCore, splitRun]
  · have h1 : matchUnescapeAllRe ['\\', '\n'] = none := by decide
    simp [unescapeAll, unescapeScan_nomatch lookup _ _ h1,
      unescapeScan_nomatch lookup _ _ (matchUnescapeAllRe_single '\n'), unescapeScan_nil]

/-! ## the shipped table (`entities` crate as linked, names ending in `;`) -/

section Table
open MdIt.Gen.Entities

/-- `get_entity_from_str` over the generated table -/
def tableLookup : List Char → Option (List Char) := lookupIn table

theorem table_rows : table.length = 2125 := by decide +kernel

/-- a table name, as code points: ASCII only, `&` + named-reference syntax + `;` -/
def nameFits (name : List Nat) : Bool :=
  name.all (fun n => n < 128) &&
  match name.map Char.ofNat with
  | '&' :: rest => rest.getLast? == some ';' && namedSyntax rest.dropLast
  | _ => false

set_option maxRecDepth 100000 in
theorem names_fit_chunks :
    tableChunks.all (fun ch => ch.all (fun row =>
      nameFits row.1 && row.2.all (fun n => n.isValidChar))) = true := by
  decide +kernel

/-- **C12 (`entity_names_fit_syntax`).** Every one of the 2125 names of the table is ASCII and has the
    shape `&` + ASCII letter + 1–31 ASCII alphanumerics + `;` — the shape both `NAMED_RE` (path A) and
    `ENTITY_RE` (path B) accept — and every value consists of scalar values. So `named_agree` applies
    to every row (`table_named_agree`). -/
theorem entity_names_fit_syntax : ∀ row ∈ table,
    nameFits row.1 = true ∧ ∀ n ∈ row.2, n.isValidChar := by
  intro row hrow
  obtain ⟨ch, hch, hr⟩ := List.mem_flatten.1 hrow
  have := names_fit_chunks
  rw [List.all_eq_true] at this
  have := this ch hch
  rw [List.all_eq_true] at this
  have := this row hr
  simp at this
  exact ⟨this.1, fun n hn => this.2 n hn⟩

theorem ofNat_toNat_ascii : ∀ n < 128, (Char.ofNat n).toNat = n := by decide

theorem map_ofNat_toNat (l : List Nat) (h : ∀ n ∈ l, n < 128) :
    (l.map Char.ofNat).map Char.toNat = l := by
  induction l with
  | nil => rfl
  | cons a t ih =>
    simp only [List.map_cons, ofNat_toNat_ascii a (h a (by simp)), ih (fun n hn => h n (by simp [hn]))]

/-- what `nameFits` says about the name as a string -/
theorem nameFits_shape (name : List Nat) (h : nameFits name = true) :
    (name.map Char.ofNat).map Char.toNat = name ∧
    ∃ n, name.map Char.ofNat = '&' :: (n ++ [';']) ∧ namedSyntax n = true := by
  unfold nameFits at h
  simp only [Bool.and_eq_true] at h
  refine ⟨map_ofNat_toNat name (by simpa using h.1), ?_⟩
  have h2 := h.2
  split at h2
  · rename_i rest heq
    simp only [Bool.and_eq_true, beq_iff_eq] at h2
    obtain ⟨ys, hys⟩ := List.getLast?_eq_some_iff.1 h2.1
    refine ⟨ys, by rw [heq, hys], ?_⟩
    have h3 := h2.2
    rw [hys] at h3
    simpa using h3
  · cases h2

/-- fixed-width (40 code points) big-endian key of a name: numeric order = lexicographic order -/
def nameKey (name : List Nat) : Nat :=
  name.foldl (fun a n => a * 256 + n) 0 * 256 ^ (40 - name.length)

def increasing : Nat → List Nat → Bool
  | _, [] => true
  | lo, x :: r => lo < x && increasing x r

set_option maxRecDepth 100000 in
/-- the generated table is strictly sorted by name -/
theorem table_sorted : increasing 0 (table.map (fun row => nameKey row.1)) = true := by
  decide +kernel

theorem increasing_lt (lo : Nat) (l : List Nat) (h : increasing lo l = true) : ∀ x ∈ l, lo < x := by
  induction l generalizing lo with
  | nil => simp
  | cons a t ih =>
    simp [increasing] at h
    intro x hx
    simp at hx
    rcases hx with rfl | hx
    · exact h.1
    · exact Nat.lt_trans h.1 (ih a h.2 x hx)

theorem lookupNat_complete (t : List (List Nat × List Nat)) (lo : Nat)
    (h : increasing lo (t.map (fun row => nameKey row.1)) = true) :
    ∀ row ∈ t, lookupNat t row.1 = some row.2 := by
  induction t generalizing lo with
  | nil => simp
  | cons a t ih =>
    obtain ⟨k, v⟩ := a
    simp [increasing] at h
    intro row hrow
    simp at hrow
    rcases hrow with rfl | hrow
    · simp [lookupNat]
    · have hlt := increasing_lt _ _ h.2 (nameKey row.1) (List.mem_map.2 ⟨row, hrow, rfl⟩)
      have hne : ¬ k = row.1 := fun he => by rw [he] at hlt; exact Nat.lt_irrefl _ hlt
      simp [lookupNat, hne]
      exact ih _ h.2 row hrow

/-- **C12.** no name occurs twice: looking a row's name up yields that row's characters (so
    first-match here and last-insert-wins in the Rust `HashMap` are the same function) -/
theorem table_lookup_complete : ∀ row ∈ table, lookupNat table row.1 = some row.2 :=
  lookupNat_complete table 0 table_sorted

theorem lookupNat_some_mem (t : List (List Nat × List Nat)) (key v : List Nat)
    (h : lookupNat t key = some v) : (key, v) ∈ t := by
  induction t with
  | nil => simp [lookupNat] at h
  | cons a t ih =>
    obtain ⟨k, v'⟩ := a
    simp only [lookupNat] at h
    split at h
    · rename_i he; simp at he h; simp [he, h]
    · simp [ih h]

set_option maxRecDepth 100000 in
theorem no_hash_chunks :
    tableChunks.all (fun ch => ch.all (fun row => row.1[1]? != some 35)) = true := by
  decide +kernel

/-- **C12 (`table_no_hash`).** no table name starts with `&#`: the hypothesis of `numeric_agree` -/
theorem table_no_hash (s : List Char) : tableLookup ('&' :: '#' :: s) = none := by
  unfold tableLookup lookupIn
  split
  · rename_i v heq
    have hmem := lookupNat_some_mem _ _ _ heq
    obtain ⟨ch, hch, hr⟩ := List.mem_flatten.1 hmem
    have := no_hash_chunks
    rw [List.all_eq_true] at this
    have := this ch hch
    rw [List.all_eq_true] at this
    have := this _ hr
    simp at this
  · rfl

/-- **C12.** `named_agree` instantiated at every row of the shipped table: for each of the 2125 names,
    inline text and `unescape_all` produce exactly the row's characters. -/
theorem table_named_agree : ∀ row ∈ table,
    entityRule tableLookup (row.1.map Char.ofNat) 0 (row.1.map Char.ofNat).length =
      .ok (some ⟨(row.1.map Char.ofNat).length, row.2.map Char.ofNat, row.1.map Char.ofNat⟩) ∧
    unescapeAllE tableLookup (row.1.map Char.ofNat) = .ok (row.2.map Char.ofNat) ∧
    unescapeAll tableLookup (row.1.map Char.ofNat) = row.2.map Char.ofNat := by
  intro row hrow
  obtain ⟨hmap, n, hshape, hn⟩ := nameFits_shape row.1 (entity_names_fit_syntax row hrow).1
  have hl : tableLookup ('&' :: (n ++ [';'])) = some (row.2.map Char.ofNat) := by
    rw [← hshape]
    simp [tableLookup, lookupIn, hmap, table_lookup_complete row hrow]
  rw [hshape]
  exact named_agree tableLookup n _ hn hl

/-- **C12.** `numeric_agree` for the shipped table (its hypothesis is `table_no_hash`) -/
theorem table_numeric_agree (cap : List Char) (h : numericBody cap = true) :
    entityRule tableLookup ('&' :: '#' :: (cap ++ [';'])) 0 ('&' :: '#' :: (cap ++ [';'])).length =
        .ok (some ⟨('&' :: '#' :: (cap ++ [';'])).length, codeToChars (entityCode cap),
          '&' :: '#' :: (cap ++ [';'])⟩) ∧
    unescapeAll tableLookup ('&' :: '#' :: (cap ++ [';'])) = codeToChars (entityCode cap) :=
  let r := numeric_agree tableLookup cap h table_no_hash
  ⟨r.1, r.2.2.1⟩

end Table

/-! ## escaping every punctuation character round-trips through the inline loop -/

/-- the text scanner's "not a stop character" -/
def nonStop (c : Char) : Bool := !textStop.contains c
def notPunct (c : Char) : Bool := !isAsciiPunct c

theorem nonStop_of_notPunct (c : Char) (h : isAsciiPunct c = false) (hn : c ≠ '\n') :
    nonStop c = true := by
  unfold nonStop
  cases hc : textStop.contains c
  · rfl
  · rcases stopset_subset_punct c (by simpa using hc) with h1 | h1
    · exact absurd h1 hn
    · rw [h] at h1; cases h1

theorem nonStop_backslash : nonStop '\\' = false := by decide

/-- in `escapeAllPunct s` the text scanner reads exactly the punctuation-free prefix of `s` -/
theorem splitRun_escaped (s : List Char) (hn : '\n' ∉ s) :
    splitRun nonStop (escapeAllPunct s) =
      ((splitRun notPunct s).1, escapeAllPunct (splitRun notPunct s).2) := by
  induction s with
  | nil => simp [escapeAllPunct, splitRun]
  | cons c t ih =>
    have ih := ih (fun h => hn (by simp [h]))
    by_cases hp : isAsciiPunct c = true
    · simp [escapeAllPunct, hp, splitRun, nonStop_backslash, notPunct]
    · have hp' : isAsciiPunct c = false := by simpa using hp
      have hc : c ≠ '\n' := fun he => hn (by simp [he])
      simp [escapeAllPunct, hp', splitRun, nonStop_of_notPunct c hp' hc, notPunct, ih]

theorem escapeAllPunct_append_notPunct (a s : List Char) (ha : ∀ c ∈ a, notPunct c = true) :
    escapeAllPunct (a ++ s) = a ++ escapeAllPunct s := by
  induction a with
  | nil => rfl
  | cons c t ih =>
    have hc : isAsciiPunct c = false := by simpa [notPunct] using ha c (by simp)
    simp [escapeAllPunct, hc, ih (fun x hx => ha x (by simp [hx]))]

theorem textRule_eq (s : List Char) :
    textRule s = if (splitRun nonStop s).1.length == 0 then .ok none
      else .ok (some ((splitRun nonStop s).1.length, [.text (splitRun nonStop s).1])) := rfl

/-- **C12 (`escape_roundtrip`).** For every string `s` without a newline and every rule chain that
    starts with the text scanner and the escape rule (ANY further rules `rest`): the inline loop on
    `escapeAllPunct s` never panics, never consults `rest` nor the one-character fallback — every stop
    character of the text scanner that occurs is a `\`, which the escape rule consumes together with
    the escaped character — and the pieces display exactly `s`. (`s.length` iterations suffice.) -/
theorem escape_roundtrip (rest : List Rule) (s : List Char) (hn : '\n' ∉ s) :
    ∀ fuel, s.length ≤ fuel →
      ∃ ps, inlineLoop ([textRule, escapeRuleR] ++ rest) fuel (escapeAllPunct s) = .ok ps ∧
        display ps = s ∧ ∀ p ∈ ps, (∃ t, p = .text t) ∨ (∃ c, p = .special [c] ['\\', c]) := by
  have key : ∀ n (s : List Char), s.length ≤ n → '\n' ∉ s → ∀ fuel, s.length ≤ fuel →
      ∃ ps, inlineLoop ([textRule, escapeRuleR] ++ rest) fuel (escapeAllPunct s) = .ok ps ∧
        display ps = s ∧ ∀ p ∈ ps, (∃ t, p = .text t) ∨ (∃ c, p = .special [c] ['\\', c]) := by
    intro n
    induction n with
    | zero =>
      intro s hs _ fuel _
      match s, hs with
      | [], _ => exact ⟨[], by cases fuel <;> simp [escapeAllPunct, inlineLoop], rfl, by simp⟩
    | succ n ih =>
      intro s hs hn fuel hf
      match s, hs, hn, hf with
      | [], _, _, _ => exact ⟨[], by cases fuel <;> simp [escapeAllPunct, inlineLoop], rfl, by simp⟩
      | c :: t, hs, hn, hf =>
        match fuel, hf with
        | f + 1, hf =>
          have hnt : '\n' ∉ t := fun h => hn (by simp [h])
          by_cases hp : isAsciiPunct c = true
          · -- `\c`: the text scanner stops at once, the escape rule takes both characters
            obtain ⟨ps, hps, hd, hk⟩ := ih t (by simpa using hs) hnt f (by simpa using hf)
            refine ⟨.special [c] ['\\', c] :: ps, ?_, by simp [display, Piece.display] at hd ⊢; exact hd, ?_⟩
            · have hesc : escapeAllPunct (c :: t) = '\\' :: c :: escapeAllPunct t := by
                simp [escapeAllPunct, hp]
              have ht : textRule ('\\' :: c :: escapeAllPunct t) = .ok none := by
                simp [textRule_eq, splitRun, nonStop_backslash]
              have he : escapeRuleR ('\\' :: c :: escapeAllPunct t) =
                  .ok (some (2, [.special [c] ['\\', c]])) := by
                simp [escapeRuleR, escapeCore_escapable c _ ((escapable_is_ascii_punct c).2 hp)]
              have hps' : inlineLoop (textRule :: escapeRuleR :: rest) f (escapeAllPunct t) = .ok ps := by
                simpa using hps
              rw [hesc]
              simp [inlineLoop, firstRule, ht, he, hps']
            · intro p hp'
              simp at hp'
              rcases hp' with rfl | hp'
              · exact Or.inr ⟨c, rfl⟩
              · exact hk p hp'
          · -- a punctuation-free run `a`, read by the text scanner in one go
            have hp' : isAsciiPunct c = false := by simpa using hp
            have hsound := splitRun_sound notPunct (c :: t)
            have hsplit := splitRun_escaped (c :: t) hn
            generalize ha : (splitRun notPunct (c :: t)).1 = a at hsound hsplit
            generalize hs' : (splitRun notPunct (c :: t)).2 = s' at hsound hsplit
            have hane : a ≠ [] := by
              intro he
              rw [← ha] at he
              simp [splitRun, notPunct, hp'] at he
            have hlen : (c :: t).length = a.length + s'.length := by
              rw [hsound.2.1]; simp
            have hapos : 0 < a.length := List.length_pos_iff.2 hane
            have hns' : '\n' ∉ s' := fun h => hn (by rw [hsound.2.1]; simp [h])
            obtain ⟨ps, hps, hd, hk⟩ := ih s' (by simp at hs hlen; omega) hns' f (by simp at hf hlen; omega)
            refine ⟨.text a :: ps, ?_, ?_, ?_⟩
            · have hesc : escapeAllPunct (c :: t) = a ++ escapeAllPunct s' := by
                rw [hsound.2.1]; exact escapeAllPunct_append_notPunct a s' hsound.1
              have ht : textRule (escapeAllPunct (c :: t)) = .ok (some (a.length, [.text a])) := by
                rw [textRule_eq, hsplit]
                have : (a.length == 0) = false := by simp; omega
                simp [this]
              have hne : ∃ x y, escapeAllPunct (c :: t) = x :: y := by
                simp [escapeAllPunct, hp']
              obtain ⟨x, y, hxy⟩ := hne
              have hdrop : (x :: y).drop a.length = escapeAllPunct s' := by
                rw [← hxy, hesc]; simp
              have hps' : inlineLoop (textRule :: escapeRuleR :: rest) f (escapeAllPunct s') = .ok ps := by
                simpa using hps
              rw [hxy] at ht ⊢
              simp only [inlineLoop, List.cons_append, List.nil_append, firstRule, ht, hdrop, hps']
            · simp [display, Piece.display] at hd ⊢
              rw [hd]; exact hsound.2.1.symm
            · intro p hp''
              simp at hp''
              rcases hp'' with rfl | hp''
              · exact Or.inl ⟨a, rfl⟩
              · exact hk p hp''
  exact key s.length s (Nat.le_refl _) hn

/-- the concrete chain `[text, escape, entity]` on the escaped string -/
theorem escape_roundtrip_TE (lookup : List Char → Option (List Char)) (s : List Char) (hn : '\n' ∉ s) :
    ∃ ps, tokenizeTEE lookup (escapeAllPunct s) = .ok ps ∧ display ps = s := by
  have hlen : s.length ≤ (escapeAllPunct s).length + 1 := by
    have : ∀ l : List Char, l.length ≤ (escapeAllPunct l).length := by
      intro l
      induction l with
      | nil => simp [escapeAllPunct]
      | cons c t ih => simp only [escapeAllPunct]; split <;> simp <;> omega
    have := this s; omega
  obtain ⟨ps, h1, h2, _⟩ := escape_roundtrip [entityRuleR lookup] s hn _ hlen
  exact ⟨ps, h1, h2⟩

/-! ## the whole inline chain on a single reference / escape -/

theorem textRule_stop (c : Char) (r : List Char) (h : nonStop c = false) : textRule (c :: r) = .ok none := by
  simp [textRule_eq, splitRun, h]

theorem escapeRuleR_other (c : Char) (r : List Char) (h : c ≠ '\\') : escapeRuleR (c :: r) = .ok none := by
  simp [escapeRuleR, escapeCore, h]

theorem inlineLoop_one (rules : List Rule) (s : List Char) (hs : s ≠ []) (len : Nat) (ps : List Piece)
    (h : firstRule rules s = .ok (some (len, ps))) (hl : s.length ≤ len) :
    inlineLoop rules (s.length + 1) s = .ok ps := by
  match s, hs with
  | c :: r, _ =>
    have : (c :: r).drop len = [] := List.drop_eq_nil_iff.2 hl
    simp only [inlineLoop, h, this]
    cases (c :: r).length <;> simp

/-- `named_agree` at the level of the parsed paragraph text: the chain `[text, escape, entity]` turns
    `&n;` into the single node `TextSpecial { content: cs, markup: "&n;" }` -/
theorem named_inline (lookup : List Char → Option (List Char)) (n cs : List Char)
    (hn : namedSyntax n = true) (hl : lookup ('&' :: (n ++ [';'])) = some cs) :
    tokenizeTEE lookup ('&' :: (n ++ [';'])) = .ok [.special cs ('&' :: (n ++ [';']))] := by
  have hc := entityCore_named lookup n [] cs hn hl
  apply inlineLoop_one _ _ (by simp) ('&' :: (n ++ [';'])).length
  · simp only [firstRule, textRule_stop '&' _ (by decide), escapeRuleR_other '&' _ (by decide),
      entityRuleR, hc]
  · exact Nat.le_refl _

/-- `numeric_agree` at the level of the parsed paragraph text -/
theorem numeric_inline (lookup : List Char → Option (List Char)) (cap : List Char)
    (h : numericBody cap = true) :
    tokenizeTEE lookup ('&' :: '#' :: (cap ++ [';'])) =
      .ok [.special (codeToChars (entityCode cap)) ('&' :: '#' :: (cap ++ [';']))] := by
  have hc := entityCore_numeric lookup cap [] h
  apply inlineLoop_one _ _ (by simp) ('&' :: '#' :: (cap ++ [';'])).length
  · simp only [firstRule, textRule_stop '&' _ (by decide), escapeRuleR_other '&' _ (by decide),
      entityRuleR, hc, decodeEntity]
  · exact Nat.le_refl _

/-- `escape_agree` at the level of the parsed paragraph text (both kinds of `c`) -/
theorem escape_inline (lookup : List Char → Option (List Char)) (c : Char) (hn : c ≠ '\n') :
    tokenizeTEE lookup ['\\', c] =
      .ok [.special (if c ∈ escapable then [c] else ['\\', c]) ['\\', c]] := by
  apply inlineLoop_one _ _ (by simp) 2
  · by_cases h : c ∈ escapable
    · simp [firstRule, textRule_stop '\\' _ (by decide), escapeRuleR, escapeCore_escapable c [] h, h]
    · simp [firstRule, textRule_stop '\\' _ (by decide), escapeRuleR, escapeCore_literal c [] h hn, h]
  · simp

/-! ## non-vacuity: the hypotheses are satisfiable, the statements say something on concrete inputs -/

section Examples

/-- a two-row table for the abstract theorems -/
private def lk : List Char → Option (List Char) :=
  lookupIn [([38, 97, 109, 112, 59], [38]), ([38, 110, 103, 69, 59], [8807, 824])]

private theorem lk_no_hash (s : List Char) : lk ('&' :: '#' :: s) = none := by
  simp [lk, lookupIn, lookupNat]

/-- `&amp;` through `named_agree` -/
example : entityRule lk ['&', 'a', 'm', 'p', ';'] 0 5 = .ok (some ⟨5, ['&'], ['&', 'a', 'm', 'p', ';']⟩) ∧
    unescapeAll lk ['&', 'a', 'm', 'p', ';'] = ['&'] :=
  let r := named_agree lk ['a', 'm', 'p'] ['&'] (by decide) (by decide)
  ⟨r.1, r.2.2⟩

/-- a two-character value (`&ngE;` = U+2267 U+0338) -/
example : unescapeAll lk ['&', 'n', 'g', 'E', ';'] = [Char.ofNat 8807, Char.ofNat 824] :=
  (named_agree lk ['n', 'g', 'E'] _ (by decide) (by decide)).2.2

/-- `&amp;` in the shipped table, through `table_named_agree` -/
example : unescapeAll tableLookup ['&', 'a', 'm', 'p', ';'] = ['&'] ∧
    entityRule tableLookup ['&', 'a', 'm', 'p', ';'] 0 5 = .ok (some ⟨5, ['&'], ['&', 'a', 'm', 'p', ';']⟩) := by
  have hmem : (([38, 97, 109, 112, 59], [38]) : List Nat × List Nat) ∈ Gen.Entities.table := by
    decide +kernel
  have := table_named_agree _ hmem
  exact ⟨this.2.2, this.1⟩

/-- `&#x41;` = `&#X41;` = `&#65;` = `&#0000065;` = "A" on both paths -/
example : unescapeAll lk ['&', '#', 'x', '4', '1', ';'] = ['A'] ∧
    unescapeAll lk ['&', '#', 'X', '4', '1', ';'] = ['A'] ∧
    unescapeAll lk ['&', '#', '6', '5', ';'] = ['A'] ∧
    unescapeAll lk ['&', '#', '0', '0', '0', '0', '0', '6', '5', ';'] = ['A'] ∧
    entityRule lk ['&', '#', 'x', '4', '1', ';'] 0 6 =
      .ok (some ⟨6, ['A'], ['&', '#', 'x', '4', '1', ';']⟩) :=
  ⟨(numeric_agree lk ['x', '4', '1'] (by decide) lk_no_hash).2.2.1,
   (numeric_agree lk ['X', '4', '1'] (by decide) lk_no_hash).2.2.1,
   (numeric_agree lk ['6', '5'] (by decide) lk_no_hash).2.2.1,
   (numeric_agree lk ['0', '0', '0', '0', '0', '6', '5'] (by decide) lk_no_hash).2.2.1,
   (numeric_agree lk ['x', '4', '1'] (by decide) lk_no_hash).1⟩

/-- `&#0;`, `&#xD800;`, `&#x110000;`, `&#xFFFE;`, `&#9999999;` all denote U+FFFD on both paths -/
example : unescapeAll lk ['&', '#', '0', ';'] = [Char.ofNat 0xFFFD] ∧
    unescapeAll lk ['&', '#', 'x', 'D', '8', '0', '0', ';'] = [Char.ofNat 0xFFFD] ∧
    unescapeAll lk ['&', '#', 'x', '1', '1', '0', '0', '0', '0', ';'] = [Char.ofNat 0xFFFD] ∧
    unescapeAll lk ['&', '#', 'x', 'F', 'F', 'F', 'E', ';'] = [Char.ofNat 0xFFFD] ∧
    unescapeAll lk ['&', '#', '9', '9', '9', '9', '9', '9', '9', ';'] = [Char.ofNat 0xFFFD] ∧
    entityRule lk ['&', '#', '0', ';'] 0 4 = .ok (some ⟨4, [Char.ofNat 0xFFFD], ['&', '#', '0', ';']⟩) :=
  ⟨(numeric_agree lk ['0'] (by decide) lk_no_hash).2.2.1,
   (numeric_agree lk ['x', 'D', '8', '0', '0'] (by decide) lk_no_hash).2.2.1,
   (numeric_agree lk ['x', '1', '1', '0', '0', '0', '0'] (by decide) lk_no_hash).2.2.1,
   (numeric_agree lk ['x', 'F', 'F', 'F', 'E'] (by decide) lk_no_hash).2.2.1,
   (numeric_agree lk ['9', '9', '9', '9', '9', '9', '9'] (by decide) lk_no_hash).2.2.1,
   (numeric_agree lk ['0'] (by decide) lk_no_hash).1⟩

/-- eight decimal / seven hex digits, a missing `;`, and a 33-character name are no references:
    both paths leave them alone (the greedy `{1,31}` cannot backtrack onto a `;`) -/
example : unescapeAll lk ['&', '#', '0', '0', '0', '0', '0', '0', '6', '5', ';'] =
      ['&', '#', '0', '0', '0', '0', '0', '0', '6', '5', ';'] ∧
    unescapeAll lk ['&', '#', '6', '5'] = ['&', '#', '6', '5'] := by
  constructor <;> decide

example : runThenSemi isAlnum 31 (List.replicate 32 'a' ++ [';']) = none :=
  runThenSemi_too_long isAlnum 31 (List.replicate 32 'a') [] (by simp; decide) (by decide) (by simp)

/-- `\*` and `\a` -/
example : escapeRule ['\\', '*'] 0 2 = .ok (some (.special ⟨2, ['*'], ['\\', '*']⟩)) ∧
    unescapeAll lk ['\\', '*'] = ['*'] :=
  let r := escape_agree lk '*' (by decide)
  ⟨r.1, r.2.2⟩

example : escapeRule ['\\', 'a'] 0 2 = .ok (some (.special ⟨2, ['\\', 'a'], ['\\', 'a']⟩)) ∧
    unescapeAll lk ['\\', 'a'] = ['\\', 'a'] :=
  let r := escape_literal_agree lk 'a' (by decide) (by decide)
  ⟨r.1, r.2.2⟩

/-- nesting is not re-scanned: `&amp;amp;` → `&amp;`; an escaped ampersand starts no reference -/
example : unescapeAll lk ['&', 'a', 'm', 'p', ';', 'a', 'm', 'p', ';'] = ['&', 'a', 'm', 'p', ';'] ∧
    unescapeAll lk ['\\', '&', 'a', 'm', 'p', ';'] = ['&', 'a', 'm', 'p', ';'] := by
  constructor <;> decide

/-- round trip of `a*b [c]_&amp;` -/
example : escapeAllPunct ['a', '*', 'b', ' ', '[', 'c', ']', '_', '&', 'a', 'm', 'p', ';'] =
    ['a', '\\', '*', 'b', ' ', '\\', '[', 'c', '\\', ']', '\\', '_', '\\', '&', 'a', 'm', 'p', '\\', ';'] := by
  decide

example : ∃ ps, tokenizeTEE lk
      ['a', '\\', '*', 'b', ' ', '\\', '[', 'c', '\\', ']', '\\', '_', '\\', '&', 'a', 'm', 'p', '\\', ';'] = .ok ps ∧
    display ps = ['a', '*', 'b', ' ', '[', 'c', ']', '_', '&', 'a', 'm', 'p', ';'] :=
  escape_roundtrip_TE lk ['a', '*', 'b', ' ', '[', 'c', ']', '_', '&', 'a', 'm', 'p', ';'] (by decide)

/-- without the escaping the same string does not round-trip (`&amp;` is decoded) -/
example : ∃ ps, tokenizeTEE lk ['&', 'a', 'm', 'p', ';'] = .ok ps ∧ display ps ≠ ['&', 'a', 'm', 'p', ';'] :=
  ⟨_, named_inline lk ['a', 'm', 'p'] ['&'] (by decide) (by decide), by decide⟩

/-- the hypothesis `'\n' ∉ s` of the round trip is needed: the newline is a stop character of the
    text scanner that is not punctuation, so `escapeAllPunct` leaves it for another rule -/
example : escapeAllPunct ['a', '\n', 'b'] = ['a', '\n', 'b'] ∧ nonStop '\n' = false := by decide

end Examples

/-! ## the inline chain `[text, escape, entity]` never panics and always terminates -/

theorem parseDigitalEntity_total (s : List Char) :
    ∃ r, parseDigitalEntity s = .ok r ∧ ∀ sp, r = some sp → 1 ≤ sp.len := by
  unfold parseDigitalEntity
  split
  · exact ⟨none, rfl, by simp⟩
  · rename_i cap rest heq
    have hb : numericBody cap = true := by
      unfold matchDigitalRe at heq
      split at heq
      · exact (matchDigitalBody_sound _ _ _ heq).1
      · cases heq
    simp only [numeric_parse_total cap hb]
    exact ⟨_, rfl, by intro sp h; simp at h; subst h; simp⟩

theorem parseNamedEntity_total (lookup : List Char → Option (List Char)) (s : List Char) :
    ∃ r, parseNamedEntity lookup s = .ok r ∧ ∀ sp, r = some sp → 1 ≤ sp.len := by
  unfold parseNamedEntity
  split
  · exact ⟨none, rfl, by simp⟩
  · rename_i whole rest heq
    have hw : 1 ≤ whole.length := by
      unfold matchNamedRe at heq
      split at heq
      · split at heq
        · split at heq
          · simp at heq; rw [← heq.1]; simp
          · cases heq
        · cases heq
      · cases heq
    split
    · exact ⟨none, rfl, by simp⟩
    · exact ⟨_, rfl, by intro sp h; simp at h; subst h; exact hw⟩

theorem entityCore_total (lookup : List Char → Option (List Char)) (window suffix : List Char)
    (hw : window ≠ []) :
    ∃ r, entityCore lookup window suffix = .ok r ∧ ∀ sp, r = some sp → 1 ≤ sp.len := by
  match window, hw with
  | c :: w, _ =>
    unfold entityCore
    simp only
    split
    · exact ⟨none, rfl, by simp⟩
    · split
      · exact parseDigitalEntity_total suffix
      · exact parseNamedEntity_total lookup suffix

theorem escapeCore_total (window : List Char) (hw : window ≠ []) :
    ∃ r, escapeCore window = .ok r ∧
      ∀ o, r = some o → (∃ len, o = .hardbreak len ∧ 2 ≤ len) ∨ (∃ sp, o = .special sp ∧ sp.len = 2) := by
  match window, hw with
  | c :: w, _ =>
    unfold escapeCore
    simp only
    split
    · exact ⟨none, rfl, by simp⟩
    · split
      · exact ⟨none, rfl, by simp⟩
      · split
        · exact ⟨_, rfl, by intro o h; simp at h; subst h; exact Or.inl ⟨_, rfl, by omega⟩⟩
        · exact ⟨_, rfl, by intro o h; simp at h; subst h; exact Or.inr ⟨_, rfl, rfl⟩⟩

/-- every rule of the chain answers without panic on non-empty input, and a `Some(len)` has `len ≥ 1` -/
theorem firstRule_TE_total (lookup : List Char → Option (List Char)) (s : List Char) (hs : s ≠ []) :
    ∃ r, firstRule [textRule, escapeRuleR, entityRuleR lookup] s = .ok r ∧
      ∀ len ps, r = some (len, ps) → 1 ≤ len := by
  simp only [firstRule]
  by_cases hrun : ((splitRun nonStop s).1.length == 0) = true
  · have ht : textRule s = .ok none := by rw [textRule_eq, if_pos hrun]
    simp only [ht]
    obtain ⟨r, hr, hlen⟩ := escapeCore_total s hs
    simp only [escapeRuleR, hr]
    match r, hlen with
    | some (.hardbreak len), hlen =>
      refine ⟨_, rfl, ?_⟩
      intro l ps h; simp at h
      rcases hlen _ rfl with ⟨len', h1, h2⟩ | ⟨sp, h1, _⟩
      · simp at h1; omega
      · cases h1
    | some (.special sp), hlen =>
      refine ⟨_, rfl, ?_⟩
      intro l ps h; simp at h
      rcases hlen _ rfl with ⟨len', h1, _⟩ | ⟨sp', h1, h2⟩
      · cases h1
      · simp at h1; subst h1; omega
    | none, _ =>
      obtain ⟨r, hr, hlen⟩ := entityCore_total lookup s s hs
      simp only [entityRuleR, hr]
      match r, hlen with
      | none, _ => exact ⟨none, rfl, by simp⟩
      | some sp, hlen =>
        refine ⟨_, rfl, ?_⟩
        intro l ps h; simp at h
        have := hlen sp rfl; omega
  · have ht : textRule s =
        .ok (some ((splitRun nonStop s).1.length, [.text (splitRun nonStop s).1])) := by
      rw [textRule_eq, if_neg hrun]
    simp only [ht]
    refine ⟨_, rfl, ?_⟩
    intro l ps h; simp at h hrun
    have : 0 < (splitRun nonStop s).1.length := List.length_pos_iff.2 hrun
    omega

/-- **C12 / C01.** On every input and every table the chain `[text, escape, entity]` runs to the end
    without panic (`chars.next().unwrap()`, the radix parse, `char::from_u32(..).unwrap()`), and
    `s.length` iterations suffice. -/
theorem tokenizeTEE_total (lookup : List Char → Option (List Char)) (s : List Char) :
    ∃ ps, tokenizeTEE lookup s = .ok ps := by
  have key : ∀ fuel (s : List Char), s.length ≤ fuel →
      ∃ ps, inlineLoop [textRule, escapeRuleR, entityRuleR lookup] fuel s = .ok ps := by
    intro fuel
    induction fuel with
    | zero => intro s hs; match s, hs with | [], _ => exact ⟨[], rfl⟩
    | succ f ih =>
      intro s hs
      match s, hs with
      | [], _ => exact ⟨[], rfl⟩
      | c :: r, hs =>
        obtain ⟨res, hres, hlen⟩ := firstRule_TE_total lookup (c :: r) (by simp)
        simp only [inlineLoop, hres]
        match res, hlen with
        | none, _ =>
          obtain ⟨ps, hps⟩ := ih r (by simpa using hs)
          rw [hps]; exact ⟨_, rfl⟩
        | some (len, ps'), hlen =>
          have h1 := hlen len ps' rfl
          obtain ⟨ps, hps⟩ := ih ((c :: r).drop len) (by simp at hs ⊢; omega)
          simp only [hps]; exact ⟨_, rfl⟩
  exact key _ s (Nat.le_succ _)

/-! ## the rules at an arbitrary position of a longer source -/

theorem slice?_suffix (pre suf : List Char) :
    slice? (pre ++ suf) pre.length (pre ++ suf).length = some suf := by
  simp [slice?]

/-- at top level (`pos_max` = end of the source) the rules depend on the rest of the input only -/
theorem entityRule_at (lookup : List Char → Option (List Char)) (pre suf : List Char) :
    entityRule lookup (pre ++ suf) pre.length (pre ++ suf).length = entityCore lookup suf suf := by
  simp only [entityRule, slice?_suffix]

theorem escapeRule_at (pre suf : List Char) :
    escapeRule (pre ++ suf) pre.length (pre ++ suf).length = escapeCore suf := by
  simp only [escapeRule, slice?_suffix]

/-- `named_agree`, path A, anywhere in a paragraph: whatever precedes and follows the reference -/
theorem named_agree_at (lookup : List Char → Option (List Char)) (pre n rest cs : List Char)
    (hn : namedSyntax n = true) (hl : lookup ('&' :: (n ++ [';'])) = some cs) :
    entityRule lookup (pre ++ '&' :: (n ++ ';' :: rest)) pre.length (pre ++ '&' :: (n ++ ';' :: rest)).length =
      .ok (some ⟨('&' :: (n ++ [';'])).length, cs, '&' :: (n ++ [';'])⟩) := by
  rw [entityRule_at]; exact entityCore_named lookup n rest cs hn hl

/-- `numeric_agree`, path A, anywhere in a paragraph -/
theorem numeric_agree_at (lookup : List Char → Option (List Char)) (pre cap rest : List Char)
    (h : numericBody cap = true) :
    entityRule lookup (pre ++ '&' :: '#' :: (cap ++ ';' :: rest)) pre.length
        (pre ++ '&' :: '#' :: (cap ++ ';' :: rest)).length =
      .ok (some ⟨('&' :: '#' :: (cap ++ [';'])).length, codeToChars (entityCode cap),
        '&' :: '#' :: (cap ++ [';'])⟩) := by
  rw [entityRule_at]; exact entityCore_numeric lookup cap rest h

/-- `escape_agree`, path A, anywhere in a paragraph -/
theorem escape_agree_at (pre rest : List Char) (c : Char) (h : c ∈ escapable) :
    escapeRule (pre ++ '\\' :: c :: rest) pre.length (pre ++ '\\' :: c :: rest).length =
      .ok (some (.special ⟨2, [c], ['\\', c]⟩)) := by
  rw [escapeRule_at]; exact escapeCore_escapable c rest h
end MdIt.Entity
