/-
  C07 — Parsing is a pure function of parser configuration and input: a parser that has already
  parsed any sequence of documents answers every new document exactly like a freshly built parser with
  the same configuration, and the same text parsed twice gives the same answer.

  Model: `MdIt/Model/ParserState.lean`.  Everything a parse keeps in `&MarkdownIt` beyond the call are
  the four caches (`compiled` × 3, `text_impl`); link reference definitions (`Root.env`), the
  per-paragraph inline caches and the emphasis bounds are local values of the pipeline `run`.  The
  theorems hold for every pure `run : Effective → Doc → ρ` (tree + HTML + anything else computed from
  the chains read and the document).  The machinery (`Coherent`, `effP`, `parseEff_spec`) is in
  `Props/C08.lean`.
-/
import MdIt.Props.C08

namespace MdIt.ParserState
open MdIt.Ruler (RuleItem Cons Prio CompileErr foldE)

/-! ## `parse` (and `Debug`) never write the configuration — in ANY state, coherent or not -/

/-- the state carried by a result (normal or panicking) has configuration `c` -/
def CfgKept (c : Config) : Except (PState × CompileErr) Walk → Prop
  | .ok w2 => w2.s.cfg = c
  | .error (s2, _) => s2.cfg = c

theorem coreRule_cfg (doc : Doc) (w : Walk) (rule : Nat) : CfgKept w.s.cfg (coreRule doc w rule) := by
  unfold coreRule
  by_cases h1 : rule = idBlockParser
  · rw [if_pos h1]
    by_cases h2 : doc.usesBlock = true
    · rw [if_pos h2]
      cases getOrInit w.s.block w.s.cBlock with
      | error e => rfl
      | ok p => rfl
    · rw [if_neg h2]; rfl
  · rw [if_neg h1]
    by_cases h3 : rule = idInlineParser
    · rw [if_pos h3]
      by_cases h4 : (w.rootsReady && doc.usesInline) = true
      · rw [if_pos h4]
        cases getOrInit w.s.inline w.s.cInline with
        | error e => rfl
        | ok p =>
          obtain ⟨cell, c⟩ := p
          simp only
          by_cases h5 : c.vals.contains idTextScanner = true
          · rw [if_pos h5]; rfl
          · rw [if_neg h5]; rfl
      · rw [if_neg h4]; rfl
    · rw [if_neg h3]; rfl

theorem fold_cfg (doc : Doc) (l : List Nat) :
    ∀ w : Walk, CfgKept w.s.cfg (foldE (coreRule doc) w l) := by
  induction l with
  | nil => intro w; rfl
  | cons a l ih =>
    intro w
    have h1 := coreRule_cfg doc w a
    simp only [foldE]
    cases h : coreRule doc w a with
    | error p => rw [h] at h1; exact h1
    | ok w2 =>
      rw [h] at h1
      have h2 := ih w2
      rw [show w2.s.cfg = w.s.cfg from h1] at h2
      exact h2

theorem parseEff_cfg (s : PState) (doc : Doc) : (parseEff s doc).1.cfg = s.cfg := by
  unfold parseEff
  cases hg : getOrInit s.core s.cCore with
  | error e => rfl
  | ok p =>
    obtain ⟨cell, c⟩ := p
    have := fold_cfg doc c.vals ⟨{ s with cCore := cell }, false, none, none, none⟩
    simp only
    cases h' : foldE (coreRule doc) ⟨{ s with cCore := cell }, false, none, none, none⟩ c.vals with
    | error p => rw [h'] at this; exact this
    | ok w => rw [h'] at this; exact this

/-- **C07 (`parse_preserves_config`).** A `parse` call leaves the three rule lists and the marker map
    exactly as they were, whatever the state of the caches (also on the pinned tree). -/
theorem parse_preserves_config (resets : Bool) (s : PState) (doc : Doc) :
    (next resets s (.parse doc)).cfg = s.cfg := parseEff_cfg s doc

-- non-vacuity: the state does change (caches get filled) while the configuration does not
example : next true init (.parse ⟨true, true, 1⟩) ≠ init ∧
    (next true init (.parse ⟨true, true, 1⟩)).cfg = init.cfg := by decide

/-- **C07 (`parse_preserves_coherent`).** What a `parse` call leaves in the caches is a function of
    the configuration only: every cell it fills holds `compile(deps)` / `choose_text_impl(keys)` of the
    current configuration — nothing derived from the document, so nothing of the document can reach
    the next one through `&MarkdownIt`. -/
theorem parse_preserves_coherent (s : PState) (doc : Doc) (h : Coherent s) :
    Coherent (next true s (.parse doc)) := (parseEff_spec s doc h).1

/-- the only trace a document leaves is WHICH cells are filled; the filled contents are the same for
    every document -/
theorem parse_cache_contents_doc_independent (s : PState) (d1 d2 : Doc) (h : Coherent s) :
    let s1 := next true s (.parse d1)
    let s2 := next true s (.parse d2)
    (∀ a b, s1.cBlock = some a → s2.cBlock = some b → a = b) ∧
    (∀ a b, s1.cInline = some a → s2.cInline = some b → a = b) ∧
    (∀ a b, s1.cCore = some a → s2.cCore = some b → a = b) ∧
    (∀ a b, s1.textImpl = some a → s2.textImpl = some b → a = b) := by
  intro s1 s2
  have c1 : Coherent s1 := parse_preserves_coherent s d1 h
  have c2 : Coherent s2 := parse_preserves_coherent s d2 h
  have e1 : s1.cfg = s.cfg := parse_preserves_config true s d1
  have e2 : s2.cfg = s.cfg := parse_preserves_config true s d2
  have e : s1.cfg = s2.cfg := e1.trans e2.symm
  obtain ⟨hb, hi, hc, ht⟩ := (cfg_eq_iff s1 s2).1 e
  refine ⟨fun a b ha hb' => ?_, fun a b ha hb' => ?_, fun a b ha hb' => ?_, fun a b ha hb' => ?_⟩
  · have := c1.1 a ha; rw [hb, c2.1 b hb'] at this; cases this; rfl
  · have := c1.2.1 a ha; rw [hi, c2.2.1 b hb'] at this; cases this; rfl
  · have := c1.2.2.1 a ha; rw [hc, c2.2.2.1 b hb'] at this; cases this; rfl
  · rw [c1.2.2.2 a ha, c2.2.2.2 b hb', ht]

section Run
variable {ρ : Type} (run : Effective → Doc → ρ)

theorem cfgRun_parses (docs : List Doc) : ∀ c, cfgRun c (docs.map Op.parse) = c := by
  induction docs with
  | nil => intro c; rfl
  | cons d rest ih => intro c; simp only [List.map_cons, cfgRun]; exact ih _

/-- **C07 (`fresh_equiv`).** For every history `cfgOps` (the configuration of the parser — any calls,
    in fact), every sequence `docs` of documents parsed afterwards and every new document `doc`: the
    parser that has parsed `docs` answers `doc` exactly as the parser built by the same calls that has
    parsed nothing — same tree, same HTML, same panic. -/
theorem fresh_equiv (cfgOps : List Op) (docs : List Doc) (doc : Doc) :
    lastOut true run (cfgOps ++ docs.map Op.parse ++ [.parse doc]) =
      lastOut true run (cfgOps ++ [.parse doc]) := by
  rw [history_parse_spec, history_parse_spec, cfgRun_append, cfgRun_parses]

/-- the same with the fresh parser taken literally: a new state with that configuration and all four
    caches empty (`Config.cold`) -/
theorem fresh_equiv_cold (cfgOps : List Op) (docs : List Doc) (doc : Doc) :
    lastOut true run (cfgOps ++ docs.map Op.parse ++ [.parse doc]) =
      some (out run (cfgRun init.cfg cfgOps).cold (.parse doc)) := by
  rw [history_parse_spec, cfgRun_append, cfgRun_parses]
  have hc : Coherent (cfgRun init.cfg cfgOps).cold := by simp [Coherent, Config.cold]
  rw [parse_out_spec run _ doc hc]
  rfl

/-- …and as a function: the answer is `run` applied to what the configuration alone determines -/
theorem fresh_equiv_spec (cfgOps : List Op) (docs : List Doc) (doc : Doc) :
    lastOut true run (cfgOps ++ docs.map Op.parse ++ [.parse doc]) =
      some (outP run (cfgRun init.cfg cfgOps) doc) := by
  rw [history_parse_spec, cfgRun_append, cfgRun_parses]

theorem cfgRun_nonconfig (obs : List Op) (hobs : ∀ op ∈ obs, op.isConfig = false) :
    ∀ c, cfgRun c obs = c := by
  induction obs with
  | nil => intro c; rfl
  | cons o rest ih =>
    intro c
    simp only [cfgRun]
    rw [cfgNext_nonconfig _ o (hobs o (by simp))]
    exact ih (fun op h => hobs op (by simp [h])) c

/-- interleaved `Debug` prints and `has_rule` queries do not matter either -/
theorem fresh_equiv_observed (cfgOps obs : List Op) (hobs : ∀ op ∈ obs, op.isConfig = false) (doc : Doc) :
    lastOut true run (cfgOps ++ obs ++ [.parse doc]) = lastOut true run (cfgOps ++ [.parse doc]) := by
  rw [history_parse_spec, history_parse_spec, cfgRun_append, cfgRun_nonconfig obs hobs]

/-- **C07 (`parse_deterministic`).** Parsing the same text twice in a row gives identical answers. -/
theorem parse_deterministic (ops : List Op) (doc : Doc) :
    lastOut true run (ops ++ [.parse doc]) = lastOut true run (ops ++ [.parse doc] ++ [.parse doc]) := by
  have := fresh_equiv run ops [doc] doc
  simpa using this.symm

/-- …and so does parsing it again at any later time, as long as the configuration is not touched. -/
theorem parse_deterministic_later (ops : List Op) (docs : List Doc) (doc : Doc) :
    lastOut true run (ops ++ [.parse doc]) =
      lastOut true run (ops ++ (Op.parse doc :: docs.map Op.parse) ++ [.parse doc]) := by
  have := fresh_equiv run ops (doc :: docs) doc
  simpa using this.symm

/-- state-level form: on any reachable (indeed any coherent) parser, the answer to `doc` before and
    after parsing an arbitrary other document is the same -/
theorem parse_after_parse (s : PState) (h : Coherent s) (other doc : Doc) :
    out run (next true s (.parse other)) (.parse doc) = out run s (.parse doc) := by
  rw [parse_out_spec run _ doc (parse_preserves_coherent s other h), parse_out_spec run _ doc h,
    parse_preserves_config]

end Run

/-! ## Non-vacuity -/

/-- a configured parser: block rule 1, inline rules 10 (`'x'`) and 11 (`'('`, placed before 10), core rule 20 -/
def sampleConfig : List Op :=
  [.addBlock 1 {}, .addInline 10 120 {}, .addInline 11 40 { cons := [.before 10] }, .addCore 20 {}]

/-- three documents that initialise the caches in three different ways: blank (core chain only),
    block-only, full -/
def sampleDocs : List Doc := [⟨false, false, 0⟩, ⟨true, false, 2⟩, ⟨true, true, 1⟩]

-- the used parser really is in a different state than the fresh one (all four caches filled) …
example : runOps true init (sampleConfig ++ sampleDocs.map Op.parse) ≠ runOps true init sampleConfig ∧
    (runOps true init (sampleConfig ++ sampleDocs.map Op.parse)).textImpl = some (.regex [40, 120]) ∧
    (runOps true init sampleConfig).textImpl = none := by decide

-- … and both sides of `fresh_equiv` are a successful parse reading non-trivial chains
example : lastEff true (sampleConfig ++ sampleDocs.map Op.parse) ⟨true, true, 7⟩ =
    .ok ⟨[900, 901, 20], some [1], some [902, 11, 10], some (.regex [40, 120])⟩ ∧
    lastEff true sampleConfig ⟨true, true, 7⟩ =
    .ok ⟨[900, 901, 20], some [1], some [902, 11, 10], some (.regex [40, 120])⟩ := by decide

-- with the identity pipeline the common answer can be displayed
example : lastOut true (fun e d => (e, d)) (sampleConfig ++ sampleDocs.map Op.parse ++ [.parse ⟨true, true, 7⟩]) =
    some (.parsed (⟨[900, 901, 20], some [1], some [902, 11, 10], some (.regex [40, 120])⟩, ⟨true, true, 7⟩)) := by
  decide

-- a configuration whose chain cannot be compiled: used and fresh parser panic alike, every time
example : lastOut true (fun e d => (e, d)) ([.addCore 20 { cons := [.require 21] }] ++
      [Op.parse ⟨true, true, 1⟩, .parse ⟨false, false, 0⟩] ++ [.parse ⟨true, true, 7⟩]) =
    some (.panicked (.missing 20 21)) := by decide

end MdIt.ParserState
