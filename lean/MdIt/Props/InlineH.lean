/-
  The inline parser WITH the raw-HTML inline rule in the chain (`MdIt/Model/InlineH.lean`, validated by
  the differential stream `inlineh`): property theorems.

  (a) CONSERVATIVITY.  `parseInlineH_conservative`, `parseInlineH_conservative'`,
      `parseFinishH_conservative`, `tokenizeH_conservative`, `skipTokenH_conservative`,
      `ruleAtH_conservative`: on a chain without `.html` the new parser IS `Inline.parseInline` (…), so every
      theorem about the html-free inline parser (`Props/Inline.lean`, `Props/MemoSafe.lean`,
      `Props/TotalTabs.lean`, …) is a theorem about `parseInlineH` on such chains.
  (b) PROGRESS AND TERMINATION.  `ruleAtH_progress`: every member of the extended chain, called as the
      tokenizer (or the look-ahead) calls it, never runs out of fuel, and a rule that fires leads the
      tokenizer strictly forward; `htmlRule_fires`: a firing html rule consumes `≥ 1` byte, stays
      inside `pos_max` and ends on a character boundary (for the link rule: `ruleAtH_bounds`, part (c));
      `tokenizeH_progress`: one loop iteration strictly increases `pos`; `fuel_sufficesH`,
      `parseInlineH_fuel`: the fuel `(posMax - pos + 2) * (maxNesting - level + 1)` suffices, the driver's
      `topFuel` is enough — `parseInlineH` never answers `Panic.fuel`.
  (c) GUARDED NO-PANIC and (e) LOOK-AHEAD = REAL: see the second half of this file.

  `link_level`.  Every contract of the html-free development (`Inline.Frame`) says `linkLevel` is
  unchanged; with the html rule that is false in real mode, even for the LINK rule (`[<a>](u)` leaves
  `link_level = 1`).  The contracts here use `FrameL` (= `Frame` minus `linkLevel`); how the per-rule
  lemmas are nevertheless reused verbatim is explained in `Lemmas/InlineH.lean` (`resetLL`).
-/
import MdIt.Lemmas.InlineH

namespace MdIt.InlineH
open MdIt.Inline
open MdIt.InlineOps (Srcmap getSourcePosFor getMap byteLen slice)

/-! ## (a) conservativity -/

theorem tokenizeH_conservative (cfg : Cfg) (f : Nat) (st : IState) :
    tokenizeH cfg (cfg.chain.map .base) f st = tokenize cfg f st :=
  (engineH_conservative cfg f).1 _ st

theorem skipTokenH_conservative (cfg : Cfg) (f : Nat) (st : IState) :
    skipTokenH cfg (cfg.chain.map .base) f st = skipToken cfg f st :=
  (engineH_conservative cfg f).2 st

/-- a single rule call, as both loops make it -/
theorem ruleAtH_conservative (cfg : Cfg) (f : Nat) (r : RuleId) (st : IState) (silent : Bool) :
    ruleAtH cfg (cfg.chain.map .base) f (.base r) st silent = ruleAt cfg f r st silent := by
  unfold ruleAtH ruleAt
  have hs : (fun s => skipTokenH cfg (cfg.chain.map .base) f s) = (fun s => skipToken cfg f s) :=
    funext (engineH_conservative cfg f).2
  have ht : (fun s => tokLoopH cfg (cfg.chain.map .base) f s.posMax s) =
      (fun s => tokLoop cfg f s.posMax s) := funext (fun s => (engineH_conservative cfg f).1 _ s)
  rw [hs, ht]
  rfl

/-- **(a) Conservativity.**  For an html-free configuration the parser over the extended enumeration
    is the html-free inline parser. -/
theorem parseInlineH_conservative (cfg : Cfg) (content : List Char) (mapping : Srcmap) :
    parseInlineH (CfgH.ofCfg cfg) content mapping = parseInline cfg content mapping := by
  unfold parseInlineH parseInline
  rw [base_ofCfg]
  show (match tokenizeH cfg (cfg.chain.map .base) _ _ with | .error e => _ | .ok st => _) = _
  rw [tokenizeH_conservative]
  rfl

/-- the same from the side of a `CfgH` whose chain does not contain `.html` -/
theorem parseInlineH_conservative' (cfg : CfgH) (h : RuleIdH.html ∉ cfg.chain) (content : List Char)
    (mapping : Srcmap) : parseInlineH cfg content mapping = parseInline cfg.base content mapping := by
  unfold parseInlineH parseInline
  have hc : cfg.chain = cfg.base.chain.map .base := by
    show cfg.chain = (cfg.chain.filterMap RuleIdH.base?).map .base
    exact (map_base_filterMap _ h).symm
  rw [hc, tokenizeH_conservative]
  rfl

/-- … and behind the post pass -/
theorem parseFinishH_conservative (cfg : Cfg) (content : List Char) (mapping : Srcmap) :
    parseFinishH (CfgH.ofCfg cfg) content mapping = parseFinish cfg content mapping := by
  unfold parseFinishH parseFinish
  rw [parseInlineH_conservative, base_ofCfg]
  rfl

/-! ## (b) progress and termination -/

/-- **(b) Progress of a chain member.**  Any rule of the extended enumeration, called on a state with a
    sound memo with the real `skip_token` / `tokenize` at fuel `f` as callees (`f` as large as the loops
    have it): no fuel panic; whatever it answers, `src`, `srcmap`, `posMax`, `level` are as before;
    look-ahead mode changes nothing but the memo and the code-span cache; `None` leaves `pos` alone;
    `Some(len)` leads strictly forward (`pos < pos' + len`). -/
theorem ruleAtH_progress (cfg : Cfg) (chain : List RuleIdH) (f : Nat) (id : RuleIdH) (st : IState)
    (silent : Bool) (hm : MemoInv st) (hlev : st.level < cfg.maxNesting)
    (hf : need (st.posMax - st.pos) (cfg.maxNesting - st.level) ≤ f + 1) :
    RuleSpecL st silent (ruleAtH cfg chain f id st silent) := by
  have hge := need_ge' (st.posMax - st.pos) (d := cfg.maxNesting - st.level) (by omega)
  unfold ruleAtH
  apply runRuleH_specL (lvl := st.level) (pm := st.posMax) (L := st.posMax - st.pos) _ f id st silent _ hm rfl rfl
    (by omega) (by omega)
  · intro s hms hl hp hlt hw
    exact (contractsH cfg chain f).1 s hms (by rw [hp]; exact hlt) (by rw [hp, hl]; omega)
  · intro _ s hms hl hw
    apply (contractsH cfg chain f).2 s hms
    rw [hl]
    have e : cfg.maxNesting - st.level = (cfg.maxNesting - (st.level + 1)) + 1 := by omega
    rw [e, need] at hf
    exact Nat.le_trans (need_mono hw _) (by omega)

/-- **(b) the html member.**  Called as the tokenizer calls it (window non-empty, on boundaries,
    well-formed table) with `link_level` strictly inside `i32`, the rule does not panic, and when it fires
    it consumes at least one byte, stays inside `pos_max` and ends on a character boundary. -/
theorem htmlRule_fires {st : IState} (hi : InlineInv st) (silent : Bool)
    (hll : Html.i32Min < st.linkLevel ∧ st.linkLevel < Html.i32Max) :
    ∃ o st', htmlRule st silent = .ok (o, st') ∧ Advances st o := by
  obtain ⟨o, s1, nd, h, hadv⟩ := Html.inline_rule_progress_html hi silent hll
  unfold htmlRule
  rw [h]
  cases nd with
  | none => exact ⟨_, _, rfl, hadv⟩
  | some n => exact ⟨_, _, rfl, hadv⟩

/-- **(b) Progress of one tokenizer iteration.** -/
theorem tokenizeH_progress (cfg : Cfg) (chain : List RuleIdH) (f : Nat) (st : IState) (hm : MemoInv st)
    (hf : need (st.posMax - st.pos) (cfg.maxNesting - st.level) ≤ f + 1) :
    tokStepG cfg.maxNesting chain
        (runRuleH cfg (fun s => skipTokenH cfg chain f s) (fun s => tokLoopH cfg chain f s.posMax s) f) st
      ≠ .error .fuel ∧
    ∀ st', tokStepG cfg.maxNesting chain
        (runRuleH cfg (fun s => skipTokenH cfg chain f s) (fun s => tokLoopH cfg chain f s.posMax s) f) st
        = .ok st' →
      FrameL st st' ∧ MemoInv st' ∧ st.pos < st'.pos := by
  have hge := need_ge (st.posMax - st.pos) (cfg.maxNesting - st.level)
  apply tokStepG_spec (L := st.posMax - st.pos) f st
  · intro hlev s hms hl hp hlt hw
    have := need_ge' (st.posMax - st.pos) (d := cfg.maxNesting - st.level) (by omega)
    exact (contractsH cfg chain f).1 s hms (by rw [hp]; exact hlt) (by rw [hp, hl]; omega)
  · intro hlev s hms hl hw
    apply (contractsH cfg chain f).2 s hms
    rw [hl]
    have e : cfg.maxNesting - st.level = (cfg.maxNesting - (st.level + 1)) + 1 := by omega
    rw [e, need] at hf
    exact Nat.le_trans (need_mono hw _) (by omega)
  · exact hm
  · omega
  · omega

/-- **(b) Fuel suffices.**  `tokenizeH` does not run out of fuel. -/
theorem fuel_sufficesH (cfg : Cfg) (chain : List RuleIdH) (fuel : Nat) (st : IState) (hm : MemoInv st)
    (hf : (st.posMax - st.pos + 2) * (cfg.maxNesting - st.level + 1) ≤ fuel) :
    tokenizeH cfg chain fuel st ≠ .error .fuel ∧
    ∀ st', tokenizeH cfg chain fuel st = .ok st' → FrameL st st' ∧ MemoInv st' := by
  have h := (contractsH cfg chain fuel).2 st hm (by rw [need_eq]; exact hf)
  exact ⟨h.noFuel, h.ok⟩

/-- `skip_token` does not run out of fuel either, is quiet, and moves strictly forward -/
theorem skipTokenH_spec (cfg : Cfg) (chain : List RuleIdH) (fuel : Nat) (st : IState) (hm : MemoInv st)
    (hlt : st.pos < st.posMax) (hf : (st.posMax - st.pos) + (cfg.maxNesting - st.level) + 2 ≤ fuel) :
    SkipSpec st (skipTokenH cfg chain fuel st) :=
  (contractsH cfg chain fuel).1 st hm hlt hf

/-- **(b)** the fuel the driver hands to the top-level call is enough: `parseInlineH` never answers
    `Panic.fuel` -/
theorem parseInlineH_fuel (cfg : CfgH) (content : List Char) (mapping : Srcmap) :
    parseInlineH cfg content mapping ≠ .error .fuel := by
  have hinit : MemoInv (IState.init content mapping) := by
    intro k v h; simp [IState.init] at h
  have h := (contractsH cfg.base cfg.chain (topFuel cfg.base content)).2 (IState.init content mapping) hinit
    (need_le_topFuel cfg.base content _ (by
      have := trimSrc_le content
      simp only [IState.init]; omega) _ (by omega))
  unfold parseInlineH tokenizeH
  intro hc
  split at hc
  · next e he => simp only [Except.error.injEq] at hc; subst hc; exact h.noFuel he
  · simp at hc

end MdIt.InlineH
