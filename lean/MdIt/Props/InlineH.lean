/-
  The inline parser WITH the raw-HTML inline rule in the chain (`MdIt/Model/InlineH.lean`, validated by
  the differential stream `inlineh`): property theorems.

  (a) CONSERVATIVITY.  `parseInlineH_conservative`, `parseInlineH_conservative'`,
      `parseFinishH_conservative`, `tokenizeH_conservative`, `skipTokenH_conservative`,
      `ruleAtH_conservative`: on a chain without `.html` the new parser IS `Inline.parseInline` (…), so every
      theorem about the html-free inline parser (`Props/Inline.lean`, `Props/MemoSafe.lean`,
      `Props/TotalTabs.lean`, …) is a theorem about `parseInlineH` on such chains.
  (b) PROGRESS AND TERMINATION.  `ruleAtH_progress`: every member of the extended chain, called as the
      tokenizer (or the look-ahead) calls it, never runs out of fuel, and a rule that fires leads the
      tokenizer strictly forward; `htmlRule_fires`: a firing html rule consumes `≥ 1` byte, stays
      inside `pos_max` and ends on a character boundary; `ruleAtH_bounds_link`: so does the link / image rule
      (the other rules: `Props/Inline.lean` `inline_rule_progress_<rule>`, they do not see the callees);
      `silent_ruleH_calm`: a look-ahead call changes nothing but the memo and the code-span cache;
      `tokenizeH_progress`: one loop iteration strictly increases `pos`; `fuel_sufficesH`,
      `parseInlineH_fuel`: the fuel `(posMax - pos + 2) * (maxNesting - level + 1)` suffices, the driver's
      `topFuel` is enough — `parseInlineH` never answers `Panic.fuel`.
  (c) GUARDED NO-PANIC.  `guarded_no_panicH`, `guarded_skip_no_panicH`, `parseInlineHG_no_panic`: the
      tokenizer with the html rule and a GUARDED memo (`Lemmas/InlineHTotal.lean`: `tokLoopH` / `skipTokenH`
      with one extra test — a memo hit with `pos_max < stored end` stops the run) NEVER returns a Rust
      panic: every chain over the extended enumeration (html anywhere, with or without autolink, any
      order, repetitions), every `max_nesting`, every reference map, every content with a `MapOK` table;
      emphasis markers single bytes; SIZE BOUND `2 * len + max_nesting < 2^31 - 1` (the content is
      shorter than 1 GiB), which keeps `link_level` strictly inside `i32` at every call of the html rule
      through the state invariant `LLPos` (`|link_level| ≤ 2 * pos + level`).  `parseInlineHG_agree` the
      guarded run and the model run give the same result unless the guard trips; hence
      `parseInlineH_panic_memo_only` (a panic of `parseInlineH` is a memo hit beyond `pos_max`),
      `parseInlineH_total_of_memoSafeH` (executable check, `decide +kernel`), `parseInlineH_ok_or_guard`;
      `parseInlineH_total_flat`: UNCONDITIONAL totality for every chain without the link / image rules.
      `ruleAtH_bounds`: what a firing rule leaves (extent on a boundary inside `pos_max`, state good).
  (e) LOOK-AHEAD = REAL for the html member: `htmlRule_silent_real`, `htmlRule_real_silent`,
      `htmlRule_window` (the verdict is a function of the window), `chain_html_silent_real` (over the
      chain: when the rules in front of the html rule decline in both chains, the real chain answers
      what the look-ahead chain answered).
  (d) OPEN: `parseInlineH_total` — see the OPEN block near the end of the file.
  C05 with html (appended): `inlineH_children_ordered`, `finishH_children_ordered` (ordered, non-overlapping,
      well-ranged children, `HtmlInline` included), `parseInlineH_ranges` / `_raw` (every node at any depth has a
      range inside `[tr start, tr pos_end]`), `parseInlineH_ranges_window` (… inside `[tr trim-start, tr trim-end]`
      when the memo check passes).

  `link_level`.  Every contract of the html-free development (`Inline.Frame`) says `linkLevel` is
  unchanged; with the html rule that is false in real mode, even for the LINK rule (`[<a>](u)` leaves
  `link_level = 1`).  The contracts here use `FrameL` (= `Frame` minus `linkLevel`); how the per-rule
  lemmas are nevertheless reused verbatim is explained in `Lemmas/InlineH.lean` (`resetLL`).
-/
import MdIt.Lemmas.InlineHTotal

namespace MdIt.InlineH
open MdIt.Inline
open MdIt.InlineOps (Srcmap getSourcePosFor getMap byteLen slice)

/-! ## (a) conservativity -/

theorem tokenizeH_conservative (cfg : Cfg) (f : Nat) (st : IState) :
    tokenizeH cfg (cfg.chain.map .base) f st = tokenize cfg f st :=
  (engineH_conservative cfg f).1 _ st

theorem skipTokenH_conservative (cfg : Cfg) (f : Nat) (st : IState) :
    skipTokenH cfg (cfg.chain.map .base) f st = skipToken cfg f st :=
  (engineH_conservative cfg f).2 st

/-- a single rule call, as both loops make it -/
theorem ruleAtH_conservative (cfg : Cfg) (f : Nat) (r : RuleId) (st : IState) (silent : Bool) :
    ruleAtH cfg (cfg.chain.map .base) f (.base r) st silent = ruleAt cfg f r st silent := by
  unfold ruleAtH ruleAt
  have hs : (fun s => skipTokenH cfg (cfg.chain.map .base) f s) = (fun s => skipToken cfg f s) :=
    funext (engineH_conservative cfg f).2
  have ht : (fun s => tokLoopH cfg (cfg.chain.map .base) f s.posMax s) =
      (fun s => tokLoop cfg f s.posMax s) := funext (fun s => (engineH_conservative cfg f).1 _ s)
  rw [hs, ht]
  rfl

/-- **(a) Conservativity.**  For an html-free configuration the parser over the extended enumeration
    is the html-free inline parser. -/
theorem parseInlineH_conservative (cfg : Cfg) (content : List Char) (mapping : Srcmap) :
    parseInlineH (CfgH.ofCfg cfg) content mapping = parseInline cfg content mapping := by
  unfold parseInlineH parseInline
  rw [base_ofCfg]
  show (match tokenizeH cfg (cfg.chain.map .base) _ _ with | .error e => _ | .ok st => _) = _
  rw [tokenizeH_conservative]
  rfl

/-- the same from the side of a `CfgH` whose chain does not contain `.html` -/
theorem parseInlineH_conservative' (cfg : CfgH) (h : RuleIdH.html ∉ cfg.chain) (content : List Char)
    (mapping : Srcmap) : parseInlineH cfg content mapping = parseInline cfg.base content mapping := by
  unfold parseInlineH parseInline
  have hc : cfg.chain = cfg.base.chain.map .base := by
    show cfg.chain = (cfg.chain.filterMap RuleIdH.base?).map .base
    exact (map_base_filterMap _ h).symm
  rw [hc, tokenizeH_conservative]
  rfl

/-- … and behind the post pass -/
theorem parseFinishH_conservative (cfg : Cfg) (content : List Char) (mapping : Srcmap) :
    parseFinishH (CfgH.ofCfg cfg) content mapping = parseFinish cfg content mapping := by
  unfold parseFinishH parseFinish
  rw [parseInlineH_conservative, base_ofCfg]
  rfl

/-! ## (b) progress and termination -/

/-- **(b) Progress of a chain member.**  Any rule of the extended enumeration, called on a state with a
    sound memo with the real `skip_token` / `tokenize` at fuel `f` as callees (`f` as large as the loops
    have it): no fuel panic; whatever it answers, `src`, `srcmap`, `posMax`, `level` are as before;
    look-ahead mode changes nothing but the memo and the code-span cache; `None` leaves `pos` alone;
    `Some(len)` leads strictly forward (`pos < pos' + len`). -/
theorem ruleAtH_progress (cfg : Cfg) (chain : List RuleIdH) (f : Nat) (id : RuleIdH) (st : IState)
    (silent : Bool) (hm : MemoInv st) (hlev : st.level < cfg.maxNesting)
    (hf : need (st.posMax - st.pos) (cfg.maxNesting - st.level) ≤ f + 1) :
    RuleSpecL st silent (ruleAtH cfg chain f id st silent) := by
  have hge := need_ge' (st.posMax - st.pos) (d := cfg.maxNesting - st.level) (by omega)
  unfold ruleAtH
  apply runRuleH_specL (lvl := st.level) (pm := st.posMax) (L := st.posMax - st.pos) _ f id st silent _ hm rfl rfl
    (by omega) (by omega)
  · intro s hms hl hp hlt hw
    exact (contractsH cfg chain f).1 s hms (by rw [hp]; exact hlt) (by rw [hp, hl]; omega)
  · intro _ s hms hl hw
    apply (contractsH cfg chain f).2 s hms
    rw [hl]
    have e : cfg.maxNesting - st.level = (cfg.maxNesting - (st.level + 1)) + 1 := by omega
    rw [e, need] at hf
    exact Nat.le_trans (need_mono hw _) (by omega)

/-- **(b) Progress of one tokenizer iteration.** -/
theorem tokenizeH_progress (cfg : Cfg) (chain : List RuleIdH) (f : Nat) (st : IState) (hm : MemoInv st)
    (hf : need (st.posMax - st.pos) (cfg.maxNesting - st.level) ≤ f + 1) :
    tokStepG cfg.maxNesting chain
        (runRuleH cfg (fun s => skipTokenH cfg chain f s) (fun s => tokLoopH cfg chain f s.posMax s) f) st
      ≠ .error .fuel ∧
    ∀ st', tokStepG cfg.maxNesting chain
        (runRuleH cfg (fun s => skipTokenH cfg chain f s) (fun s => tokLoopH cfg chain f s.posMax s) f) st
        = .ok st' →
      FrameL st st' ∧ MemoInv st' ∧ st.pos < st'.pos := by
  have hge := need_ge (st.posMax - st.pos) (cfg.maxNesting - st.level)
  apply tokStepG_spec (L := st.posMax - st.pos) f st
  · intro hlev s hms hl hp hlt hw
    have := need_ge' (st.posMax - st.pos) (d := cfg.maxNesting - st.level) (by omega)
    exact (contractsH cfg chain f).1 s hms (by rw [hp]; exact hlt) (by rw [hp, hl]; omega)
  · intro hlev s hms hl hw
    apply (contractsH cfg chain f).2 s hms
    rw [hl]
    have e : cfg.maxNesting - st.level = (cfg.maxNesting - (st.level + 1)) + 1 := by omega
    rw [e, need] at hf
    exact Nat.le_trans (need_mono hw _) (by omega)
  · exact hm
  · omega
  · omega

/-- `skip_token` of the model is calm (children, `OpenersBottom`, frame incl. `link_level` unchanged) -/
theorem skipTokenH_calm (cfg : Cfg) (chain : List RuleIdH) (f : Nat) :
    CalmFn (fun s => skipTokenH cfg chain f s) := by
  have h := skipTokenHG_calm cfg chain false f
  have e : (fun s => skipTokenHG cfg chain false f s) = (fun s => skipTokenH cfg chain f s) :=
    funext (HG_false cfg chain f).2
  rw [e] at h
  exact h

/-- **(b) the extent of the link / image rule** over the model's `skip_token` with the html rule, in
    either mode, at any fuel, no hypothesis on the state: the position the tokenizer continues from
    after a successful call is a character boundary `≤ pos_max` (with `ruleAtH_progress`: `pos <` it). -/
theorem ruleAtH_bounds_link (cfg : Cfg) (chain : List RuleIdH) (f : Nat) (st : IState) (silent : Bool)
    (image : Bool) {len : Nat} {st' : IState}
    (h : ruleAtH cfg chain f (.base (if image then .image else .link)) st silent = .ok (some len, st')) :
    st'.pos + len ≤ st.posMax ∧ Boundary st.src (st'.pos + len) := by
  unfold ruleAtH runRuleH runRule at h
  cases image
  · simp only [Bool.false_eq_true, if_false] at h
    unfold ruleLink at h
    split at h
    · simp at h
    · simp at h
    · split at h
      · simp at h
      · exact linkRule_bounds (skipTokenH_calm cfg chain f) h
  · simp only [if_true] at h
    unfold ruleImage at h
    split at h
    · simp at h
    · exact linkRule_bounds (skipTokenH_calm cfg chain f) h
    · simp at h

/-- **(b) a look-ahead call of ANY member of the extended chain is calm**: children, `OpenersBottom`,
    `src`, `srcmap`, `posMax`, `level`, `linkLevel` unchanged (what may change: the memo and the
    code-span cache) -/
theorem silent_ruleH_calm (cfg : Cfg) (chain : List RuleIdH) (f : Nat) (id : RuleIdH) {st st' : IState}
    {o : Option Nat} (h : ruleAtH cfg chain f id st true = .ok (o, st')) : Calm st st' :=
  runRuleH_silent_calm (skipTokenH_calm cfg chain f) h

/-- **(b) Fuel suffices.**  `tokenizeH` does not run out of fuel. -/
theorem fuel_sufficesH (cfg : Cfg) (chain : List RuleIdH) (fuel : Nat) (st : IState) (hm : MemoInv st)
    (hf : (st.posMax - st.pos + 2) * (cfg.maxNesting - st.level + 1) ≤ fuel) :
    tokenizeH cfg chain fuel st ≠ .error .fuel ∧
    ∀ st', tokenizeH cfg chain fuel st = .ok st' → FrameL st st' ∧ MemoInv st' := by
  have h := (contractsH cfg chain fuel).2 st hm (by rw [need_eq]; exact hf)
  exact ⟨h.noFuel, h.ok⟩

/-- `skip_token` does not run out of fuel either, is quiet, and moves strictly forward -/
theorem skipTokenH_spec (cfg : Cfg) (chain : List RuleIdH) (fuel : Nat) (st : IState) (hm : MemoInv st)
    (hlt : st.pos < st.posMax) (hf : (st.posMax - st.pos) + (cfg.maxNesting - st.level) + 2 ≤ fuel) :
    SkipSpec st (skipTokenH cfg chain fuel st) :=
  (contractsH cfg chain fuel).1 st hm hlt hf

/-- **(b)** the fuel the driver hands to the top-level call is enough: `parseInlineH` never answers
    `Panic.fuel` -/
theorem parseInlineH_fuel (cfg : CfgH) (content : List Char) (mapping : Srcmap) :
    parseInlineH cfg content mapping ≠ .error .fuel := by
  have hinit : MemoInv (IState.init content mapping) := by
    intro k v h; simp [IState.init] at h
  have h := (contractsH cfg.base cfg.chain (topFuel cfg.base content)).2 (IState.init content mapping) hinit
    (need_le_topFuel cfg.base content _ (by
      have := trimSrc_le content
      simp only [IState.init]; omega) _ (by omega))
  unfold parseInlineH tokenizeH
  intro hc
  split at hc
  · next e he => simp only [Except.error.injEq] at hc; subst hc; exact h.noFuel he
  · simp at hc

/-! ## (c) the guarded tokenizer never panics -/

/-- the html-free part of the chain of a `CfgH` is the chain of its `base` -/
theorem base_mem {cfg : CfgH} {r : RuleId} (h : RuleIdH.base r ∈ cfg.chain) : r ∈ cfg.base.chain := by
  show r ∈ cfg.chain.filterMap RuleIdH.base?
  exact List.mem_filterMap.mpr ⟨_, h, rfl⟩

theorem mem_base {cfg : CfgH} {r : RuleId} (h : r ∈ cfg.base.chain) : RuleIdH.base r ∈ cfg.chain := by
  obtain ⟨a, ha, hr⟩ := List.mem_filterMap.mp (show r ∈ cfg.chain.filterMap RuleIdH.base? from h)
  cases a with
  | base r' => simp only [RuleIdH.base?, Option.some.injEq] at hr; rw [← hr]; exact ha
  | html => simp [RuleIdH.base?] at hr

/-- **(c) No Rust panic of the guarded tokenizer with the html rule**, from every good state (`Good`:
    window on boundaries, `MapOK` table, `EntStop`, range invariant, `OpenersBottom` tables of length 6)
    with a sound memo (`MemoB`), `|link_level| ≤ 2 * pos + level` (`LLPos`) and a text within the size
    bound (`SizeOK`: `2 * len + max_nesting < 2^31 - 1`), at every fuel: the result is a state — again
    good, same frame up to `link_level`, invariant kept — or the non-Rust outcome (`Panic.fuel`: out of
    fuel, or the guard tripped). -/
theorem guarded_no_panicH (cfg : Cfg) (chain : List RuleIdH)
    (hsz : ∀ mk csw, RuleId.emph mk csw ∈ cfg.chain → mk.utf8Size = 1)
    (hall : ∀ r, RuleIdH.base r ∈ chain → r ∈ cfg.chain) (fuel : Nat) {lo : Nat}
    (st : IState) (hg : Good lo st) (hm : MemoB st) (hll : LLPos st) (hsize : SizeOK cfg st.src) :
    NoRust (tokLoopHG cfg chain true fuel st.posMax st) ∧
    ∀ st', tokLoopHG cfg chain true fuel st.posMax st = .ok st' →
      FrameL st st' ∧ MemoB st' ∧ Good lo st' ∧ LLPos st' :=
  ⟨((guarded_totalH cfg chain hsz hall fuel).2 lo st hg hm hll hsize).noRust,
   ((guarded_totalH cfg chain hsz hall fuel).2 lo st hg hm hll hsize).ok⟩

/-- the same for the guarded `skip_token` (look-ahead): from every state whose window lies in the text
    on boundaries (`LInv`); no hypothesis on `link_level` (the html rule is pure in look-ahead mode) -/
theorem guarded_skip_no_panicH (cfg : Cfg) (chain : List RuleIdH)
    (hsz : ∀ mk csw, RuleId.emph mk csw ∈ cfg.chain → mk.utf8Size = 1)
    (hall : ∀ r, RuleIdH.base r ∈ chain → r ∈ cfg.chain) (fuel : Nat)
    (st : IState) (hi : LInv st) (hlt : st.pos < st.posMax) :
    NoRust (skipTokenHG cfg chain true fuel st) ∧
    ∀ st', skipTokenHG cfg chain true fuel st = .ok st' →
      MemoB st' ∧ st.pos < st'.pos ∧ st'.pos ≤ st.posMax ∧ Boundary st.src st'.pos :=
  ⟨((guarded_totalH cfg chain hsz hall fuel).1 st hi hlt).noRust,
   ((guarded_totalH cfg chain hsz hall fuel).1 st hi hlt).ok⟩

/-- **(c) what a firing rule leaves**, any member of the extended chain in real mode over the guarded
    callees: no Rust panic, and on `Some(len)` the position the tokenizer continues from is a character
    boundary `≤ pos_max`, strictly behind `pos`; the state is good again. -/
theorem ruleAtH_bounds (cfg : Cfg) (chain : List RuleIdH)
    (hsz : ∀ mk csw, RuleId.emph mk csw ∈ cfg.chain → mk.utf8Size = 1)
    (hall : ∀ r, RuleIdH.base r ∈ chain → r ∈ cfg.chain) (f : Nat) {id : RuleIdH} (hid : id ∈ chain)
    {lo : Nat} (st : IState) (hg : Good lo st) (hm : MemoB st) (hlt : st.pos < st.posMax)
    (hll : LLPos st) (hsize : SizeOK cfg st.src) (hlev : st.level < cfg.maxNesting) :
    NoRust (runRuleH cfg (fun s => skipTokenHG cfg chain true f s)
      (fun s => tokLoopHG cfg chain true f s.posMax s) f id st false) ∧
    ∀ len st', runRuleH cfg (fun s => skipTokenHG cfg chain true f s)
        (fun s => tokLoopHG cfg chain true f s.posMax s) f id st false = .ok (some len, st') →
      st.pos < st'.pos + len ∧ st'.pos + len ≤ st.posMax ∧ Boundary st.src (st'.pos + len) ∧
      Good lo { st' with pos := st'.pos + len } := by
  have ht : TokHypTL cfg (fun s => tokLoopHG cfg chain true f s.posMax s) :=
    fun lo s hg hm hll hsize => ((guarded_totalH cfg chain hsz hall f).2 lo s hg hm hll hsize).tokTL
  have h := runRuleH_realTL hsz (skipTokenHG_calm cfg chain true f) (guarded_totalH cfg chain hsz hall f).1
    ht (rangesFnHG cfg chain true f) f (id := id) (fun r hr => hall r (hr ▸ hid)) st hg hm hlt hll hsize hlev
  refine ⟨h.noRust, ?_⟩
  intro len st' hr
  have s := h.ok _ _ hr
  have hg' : Good lo { st' with pos := st'.pos + len } := by simpa using s.good
  refine ⟨s.adv len rfl, ?_, ?_, hg'⟩
  · have := hg'.le; simp only at this; rw [s.frame.posMax] at this; exact this
  · have := hg'.bpos; simp only at this; rw [s.frame.src] at this; exact this

theorem llpos_init (content : List Char) (mapping : Srcmap) : LLPos (IState.init content mapping) := by
  unfold LLPos IState.init
  simp only
  omega

/-- **(c) The guarded inline parser with the html rule never panics** (size bound explicit). -/
theorem parseInlineHG_no_panic (cfg : CfgH)
    (hsz : ∀ mk csw, RuleIdH.base (.emph mk csw) ∈ cfg.chain → mk.utf8Size = 1) {content : List Char}
    {mapping : Srcmap} (hm : MapOK content mapping)
    (hsize : 2 * byteLen content + cfg.maxNesting < 2 ^ 31 - 1) :
    NoRust (parseInlineHG cfg content mapping) := by
  obtain ⟨lo, _, hg⟩ := init_good hm
  have h := (guarded_no_panicH cfg.base cfg.chain (fun mk csw h => hsz mk csw (mem_base h))
    (fun r h => base_mem h) (topFuel cfg.base content) _ hg (memoB_init content mapping)
    (llpos_init content mapping)
    (show 2 * byteLen content + cfg.maxNesting < 2147483647 by simpa using hsize)).1
  unfold parseInlineHG
  split
  · next e he =>
    intro p hp
    simp only [Except.error.injEq] at hp; subst hp
    exact h p he
  · exact NoRust.ok _

theorem parseInlineHG_ok {cfg : CfgH} {content : List Char} {mapping : Srcmap} {cs : List Node}
    (h : parseInlineHG cfg content mapping = .ok cs) : parseInlineH cfg content mapping = .ok cs := by
  rcases parseInlineHG_agree cfg content mapping with h' | h'
  · rw [← h', h]
  · rw [h] at h'; cases h'

/-- **(c) Every panic of the inline pass with the html rule is a memo hit beyond `pos_max`**: if the
    model's parser panics, the guarded run does not complete. -/
theorem parseInlineH_panic_memo_only (cfg : CfgH)
    (hsz : ∀ mk csw, RuleIdH.base (.emph mk csw) ∈ cfg.chain → mk.utf8Size = 1) {content : List Char}
    {mapping : Srcmap} (hm : MapOK content mapping)
    (hsize : 2 * byteLen content + cfg.maxNesting < 2 ^ 31 - 1) {p : RPanic}
    (h : parseInlineH cfg content mapping = .error (.rust p)) :
    parseInlineHG cfg content mapping = .error .fuel ∧ memoSafeH cfg content mapping = false := by
  have hg : parseInlineHG cfg content mapping = .error .fuel := by
    rcases parseInlineHG_agree cfg content mapping with heq | hf
    · exact absurd (heq.trans h) (parseInlineHG_no_panic cfg hsz hm hsize p)
    · exact hf
  exact ⟨hg, by unfold memoSafeH; rw [hg]⟩

/-- **`parseInlineH` is total whenever the memo check passes** (no hypothesis: the check is a run). -/
theorem parseInlineH_total_of_memoSafeH (cfg : CfgH) {content : List Char} {mapping : Srcmap}
    (hs : memoSafeH cfg content mapping = true) : ∃ cs, parseInlineH cfg content mapping = .ok cs := by
  unfold memoSafeH at hs
  split at hs
  · next cs hcs => exact ⟨cs, parseInlineHG_ok hcs⟩
  · simp at hs

/-- the model run completes, or the guard trips -/
theorem parseInlineH_ok_or_guard (cfg : CfgH)
    (hsz : ∀ mk csw, RuleIdH.base (.emph mk csw) ∈ cfg.chain → mk.utf8Size = 1) {content : List Char}
    {mapping : Srcmap} (hm : MapOK content mapping)
    (hsize : 2 * byteLen content + cfg.maxNesting < 2 ^ 31 - 1) :
    (∃ cs, parseInlineH cfg content mapping = .ok cs) ∨ memoSafeH cfg content mapping = false := by
  cases h : parseInlineH cfg content mapping with
  | ok cs => exact .inl ⟨cs, rfl⟩
  | error e =>
    cases e with
    | fuel => exact absurd h (parseInlineH_fuel cfg content mapping)
    | rust p => exact .inr (parseInlineH_panic_memo_only cfg hsz hm hsize h).2

/-! ### chains without link / image: unconditional totality -/

/-- only the link and image rules call `skip_token` / `tokenize` -/
theorem runRuleH_indep (cfg : Cfg) (skip tok skip' tok' : IState → Except Panic IState) (fuel : Nat)
    {id : RuleIdH} (h : id ≠ .base .link ∧ id ≠ .base .image) (st : IState) (silent : Bool) :
    runRuleH cfg skip tok fuel id st silent = runRuleH cfg skip' tok' fuel id st silent := by
  cases id with
  | html => rfl
  | base r =>
    cases r
    case link => exact absurd rfl h.1
    case image => exact absurd rfl h.2
    all_goals rfl

theorem firstRuleG_congr {ι : Type} {run run' : ι → IState → RuleRes} :
    ∀ (rules : List ι), (∀ id ∈ rules, ∀ s, run id s = run' id s) →
      ∀ st, firstRuleG run rules st = firstRuleG run' rules st := by
  intro rules
  induction rules with
  | nil => intro _ st; rfl
  | cons r rs ih =>
    intro h st
    simp only [firstRuleG]
    rw [h r List.mem_cons_self st]
    split
    · rfl
    · rfl
    · exact ih (fun id hid s => h id (List.mem_cons_of_mem _ hid) s) _

/-- without link / image in the chain the guard is never consulted: the guarded loop IS the model loop -/
theorem tokLoopHG_flat (cfg : Cfg) (chain : List RuleIdH)
    (hfl : RuleIdH.base .link ∉ chain ∧ RuleIdH.base .image ∉ chain) :
    ∀ (fuel e : Nat) (st : IState), tokLoopHG cfg chain true fuel e st = tokLoopH cfg chain fuel e st := by
  have hne : ∀ id ∈ chain, id ≠ .base .link ∧ id ≠ .base .image :=
    fun id hid => ⟨fun e => hfl.1 (e ▸ hid), fun e => hfl.2 (e ▸ hid)⟩
  intro fuel
  induction fuel with
  | zero => intro e st; unfold tokLoopHG tokLoopH; rfl
  | succ f ih =>
    intro e st
    unfold tokLoopHG tokLoopH
    have hstep : ∀ sk tk sk' tk' : IState → Except Panic IState,
        tokStepG cfg.maxNesting chain (runRuleH cfg sk tk f) st =
        tokStepG cfg.maxNesting chain (runRuleH cfg sk' tk' f) st := by
      intro sk tk sk' tk'
      unfold tokStepG
      rw [firstRuleG_congr chain (fun id hid s => runRuleH_indep cfg sk tk sk' tk' f (hne id hid) s false) st]
    dsimp only
    rw [hstep (fun s => skipTokenHG cfg chain true f s) (fun s => tokLoopHG cfg chain true f s.posMax s)
      (fun s => skipTokenH cfg chain f s) (fun s => tokLoopH cfg chain f s.posMax s)]
    simp only [ih]
    rfl

/-- **(c) Totality for chains without the link / image rules** (the html rule anywhere, with or without
    autolink, emphasis, code spans, …): `parseInlineH` returns a tree — no Rust panic, no fuel panic —
    for every `MapOK` content within the size bound. -/
theorem parseInlineH_total_flat (cfg : CfgH)
    (hfl : RuleIdH.base .link ∉ cfg.chain ∧ RuleIdH.base .image ∉ cfg.chain)
    (hsz : ∀ mk csw, RuleIdH.base (.emph mk csw) ∈ cfg.chain → mk.utf8Size = 1) {content : List Char}
    {mapping : Srcmap} (hm : MapOK content mapping)
    (hsize : 2 * byteLen content + cfg.maxNesting < 2 ^ 31 - 1) :
    ∃ cs, parseInlineH cfg content mapping = .ok cs := by
  have heq : parseInlineHG cfg content mapping = parseInlineH cfg content mapping := by
    unfold parseInlineHG parseInlineH tokenizeH
    rw [tokLoopHG_flat cfg.base cfg.chain hfl]
    rfl
  have hnr := parseInlineHG_no_panic cfg hsz hm hsize
  rw [heq] at hnr
  cases h : parseInlineH cfg content mapping with
  | ok cs => exact ⟨cs, rfl⟩
  | error e =>
    cases e with
    | fuel => exact absurd h (parseInlineH_fuel cfg content mapping)
    | rust p => exact absurd h (hnr p)

/-! ## (e) look-ahead = real for the html member -/

/-- the html rule as a chain member does not depend on the chain, the callees or the fuel -/
theorem ruleAtH_html (cfg : Cfg) (chain : List RuleIdH) (f : Nat) (st : IState) (silent : Bool) :
    ruleAtH cfg chain f .html st silent = htmlRule st silent := rfl

/-- **(e) silent ⇒ real**: when look-ahead mode answers `Some(n)`, real mode — unless it panics, which
    `htmlRule_fires` excludes — answers `Some(n)`, pushes exactly one html node and changes nothing else
    but `link_level` -/
theorem htmlRule_silent_real {st s1 : IState} {n : Nat} (hs : htmlRule st true = .ok (some n, s1)) :
    ∀ o s2, htmlRule st false = .ok (o, s2) →
      o = some n ∧ ∃ nd : Html.InlineNode,
        s2 = { st with linkLevel := s2.linkLevel, children := st.children ++ [htmlNode nd] } ∧
        slice st.src st.pos (st.pos + n) = .ok nd.content := by
  intro o s2 hr
  obtain ⟨a1, nd1, he1, _⟩ := htmlRule_ok hs
  rcases htmlRule_cases hr with ⟨rfl, rfl⟩ | ⟨_, _, hsil, _⟩ | ⟨m, ll, nd, rfl, _, he, rfl⟩
  · -- real mode declined: impossible
    obtain ⟨a2, nd2, he2, _⟩ := htmlRule_ok hr
    have := (Html.html_inline_silent_real he1 _ _ _ he2).1
    cases this
  · cases hsil
  · have hn := (Html.html_inline_silent_real he1 _ _ _ he).1
    simp only [Option.some.injEq] at hn
    subst hn
    exact ⟨rfl, nd, rfl, (Html.htmlInline_node he).1⟩

/-- **(e) real ⇒ silent**: the two modes agree on the verdict and the extent; look-ahead is pure -/
theorem htmlRule_real_silent {st s2 : IState} {o : Option Nat} (hr : htmlRule st false = .ok (o, s2)) :
    htmlRule st true = .ok (o, st) := by
  obtain ⟨a, nd, he, _⟩ := htmlRule_ok hr
  have := Html.html_inline_real_silent he
  unfold htmlRule
  rw [this]

/-- **(e) the verdict is a function of the window**: two states with the same text, position and
    `pos_max` get the same look-ahead answer (so the answer survives whatever the rules in front of the
    html rule did to the memo, the code-span cache, `level`, the children) -/
theorem htmlRule_window {st st' : IState} (h1 : st'.src = st.src) (h2 : st'.pos = st.pos)
    (h3 : st'.posMax = st.posMax) {o : Option Nat} (h : htmlRule st true = .ok (o, st)) :
    htmlRule st' true = .ok (o, st') := by
  have hw : st'.window = st.window := by unfold IState.window; rw [h1, h2, h3]
  obtain ⟨a, nd, he, _⟩ := htmlRule_ok h
  obtain ⟨c, rest, hwin, hcase⟩ := Html.htmlInlineRule_ok he
  have hin : Html.htmlInlineRule st' true = .ok (o, st', none) := by
    unfold Html.htmlInlineRule
    rw [hw, hwin]
    simp only
    rcases hcase with ⟨rfl, _, _, hno⟩ | ⟨r, hc, hq, htr, ho, _⟩
    · rcases hno with hno | hno | hno
      · rw [if_pos hno]
      · split
        · rfl
        · rw [hno]; rfl
      · split
        · rfl
        · split
          · rfl
          · rw [hno]
    · subst hc
      rw [if_neg (by simp), hq, htr, ho]
      simp
  unfold htmlRule
  rw [hin]

theorem firstRuleG_append_none {ι : Type} {run : ι → IState → RuleRes} :
    ∀ (pre l : List ι) (st s : IState), firstRuleG run pre st = .ok (none, s) →
      firstRuleG run (pre ++ l) st = firstRuleG run l s := by
  intro pre
  induction pre with
  | nil =>
    intro l st s h
    simp only [firstRuleG, Except.ok.injEq, Prod.mk.injEq, true_and] at h
    subst h; rfl
  | cons r rs ih =>
    intro l st s h
    simp only [List.cons_append, firstRuleG] at h ⊢
    split at h
    · cases h
    · simp at h
    · next s1 he => exact ih l s1 s h

/-- **(e) look-ahead = real over the chain.**  Chain `pre ++ html :: post`, guarded callees at fuel `f`,
    a good state below the nesting limit.  If in the look-ahead chain (`skip_token`) the rules in front
    of the html rule decline and the html rule answers `Some(n)`, then the look-ahead chain answers
    `Some(n)`; and if those rules decline in the real chain (`tokenize`) too — every rule but an
    emphasis rule does, by `silent_real_<rule>` — the real chain answers `Some(n)` as well, through the
    html rule: one html node pushed, nothing else changed but `link_level`. -/
theorem chain_html_silent_real (cfg : Cfg) (pre post : List RuleIdH)
    (hsz : ∀ mk csw, RuleId.emph mk csw ∈ cfg.chain → mk.utf8Size = 1)
    (hall : ∀ r, RuleIdH.base r ∈ pre ++ .html :: post → r ∈ cfg.chain) (f : Nat)
    {lo : Nat} (st : IState) (hg : Good lo st) (hm : MemoB st) (hlt : st.pos < st.posMax)
    (hll : LLPos st) (hsize : SizeOK cfg st.src) (hlev : st.level < cfg.maxNesting)
    {sa s1 : IState} {n : Nat}
    (hsil : firstRuleG (fun id s => silentBumped (runRuleH cfg
        (fun s => skipTokenHG cfg (pre ++ .html :: post) true f s)
        (fun s => tokLoopHG cfg (pre ++ .html :: post) true f s.posMax s) f id) s) pre st = .ok (none, sa))
    (hhtml : silentBumped htmlRule sa = .ok (some n, s1)) :
    firstRuleG (fun id s => silentBumped (runRuleH cfg
        (fun s => skipTokenHG cfg (pre ++ .html :: post) true f s)
        (fun s => tokLoopHG cfg (pre ++ .html :: post) true f s.posMax s) f id) s)
      (pre ++ .html :: post) st = .ok (some n, s1) ∧
    ∀ sb, firstRuleG (fun id s => runRuleH cfg
        (fun s => skipTokenHG cfg (pre ++ .html :: post) true f s)
        (fun s => tokLoopHG cfg (pre ++ .html :: post) true f s.posMax s) f id s false) pre st = .ok (none, sb) →
      ∃ s2 nd, firstRuleG (fun id s => runRuleH cfg
          (fun s => skipTokenHG cfg (pre ++ .html :: post) true f s)
          (fun s => tokLoopHG cfg (pre ++ .html :: post) true f s.posMax s) f id s false)
          (pre ++ .html :: post) st = .ok (some n, s2) ∧
        s2 = { sb with linkLevel := s2.linkLevel, children := sb.children ++ [htmlNode nd] } := by
  have hgt := guarded_totalH cfg (pre ++ .html :: post) hsz hall f
  have hq := skipTokenHG_calm cfg (pre ++ .html :: post) true f
  constructor
  · rw [firstRuleG_append_none pre _ st sa hsil]
    simp only [firstRuleG]
    show (match silentBumped htmlRule sa with | .error e => _ | .ok (some n, st') => _ | .ok (none, st') => _) = _
    rw [hhtml]
  · intro sb hreal
    -- the look-ahead side: `sa` has the window of `st`
    have hsa := (firstRuleG_silent_T (fun id s his hls => silentBumped_T
      (runRuleH_silent_T hq hgt.1 f id _ ⟨his.le, his.bpos, his.bmax, his.wf, his.stop, his.memo⟩ hls))
      pre st (hg.linv hm) hlt).ok _ _ hsil
    obtain ⟨_, ca, pa, _⟩ := hsa
    -- the html rule in look-ahead mode at `sa`
    have hh : htmlRule { sa with level := sa.level + 1 } true = .ok (some n, { sa with level := sa.level + 1 }) := by
      unfold silentBumped at hhtml
      split at hhtml
      · cases hhtml
      · next r s' he =>
        split at hhtml
        · cases hhtml
        · simp only [Except.ok.injEq, Prod.mk.injEq] at hhtml
          rw [← hhtml.1]
          have := htmlRule_silent_same he
          rw [this] at he
          exact he
    -- the real side: `sb` is good, has the window of `st`
    have ht : TokHypTL cfg (fun s => tokLoopHG cfg (pre ++ .html :: post) true f s.posMax s) :=
      fun lo s hg hm hll hsize => (hgt.2 lo s hg hm hll hsize).tokTL
    have hsb := (firstRuleG_realTL hsz hq hgt.1 ht (rangesFnHG cfg _ true f) f pre
      (fun r hr => hall r (List.mem_append_left _ hr)) st hg hm hlt hll hsize hlev).ok _ _ hreal
    have hgb : Good lo sb := Good.of_add_zero (by simpa using hsb.good)
    have hllb : LLPos sb := by
      have := hsb.ll
      simp only [Option.getD_none] at this
      cases sb; simpa using this
    have hpb := hsb.nonePos rfl
    have hltb : sb.pos < sb.posMax := by rw [hpb, hsb.frame.posMax]; exact hlt
    have hwin : htmlRule sb true = .ok (some n, sb) :=
      htmlRule_window (st := { sa with level := sa.level + 1 }) (by rw [hsb.frame.src]; exact ca.src.symm)
        (by rw [hpb]; exact pa.symm) (by rw [hsb.frame.posMax]; exact ca.posMax.symm) hh
    obtain ⟨o, s2, hr2, _⟩ := htmlRule_fires (hgb.inv hltb) false
      (llpos_i32 hllb (by rw [hsb.frame.src]; exact hsize) hltb hgb.bmax (by rw [hsb.frame.level]; exact hlev))
    obtain ⟨rfl, nd, hs2, _⟩ := htmlRule_silent_real hwin _ _ hr2
    refine ⟨s2, nd, ?_, hs2⟩
    rw [firstRuleG_append_none pre _ st sb hreal]
    simp only [firstRuleG]
    show (match htmlRule sb false with | .error e => _ | .ok (some n, st') => _ | .ok (none, st') => _) = _
    rw [hr2]

/-! ## non-vacuity examples -/

/-- `Inline.exCfg` (every cmark rule, `*` emphasis) over a chain of the extended enumeration -/
def exCfgH (maxNesting : Nat) (chain : List RuleIdH) : CfgH :=
  { maxNesting := maxNesting, chain := chain, fns := (exCfg maxNesting).fns, refs := none, normRef := id,
    entity := (exCfg maxNesting).entity, isWhite := (exCfg maxNesting).isWhite, isPunctChar := fun _ => false }

/-- the compiled chain of `cmark::add` + `html::add`: the html rule behind the cmark rules -/
def stockH : List RuleIdH := (exCfg 0).chain.map .base ++ [.html]

/-- values of the top-level nodes with the values of their children -/
def valsH (r : Except Panic (List Node)) : Except Panic (List (Val × List Val)) :=
  match r with
  | .ok cs => .ok (cs.map (fun n => (n.val, n.children.map (·.val))))
  | .error e => .error e

-- the three documents: tags (one CONTAINING a `]`) next to a link whose label holds a tag;
example : valsH (parseInlineH (exCfgH 100 stockH) "a <b c=\"]\">x</b> [l <i>](u)".toList [(0, 0)]) =
    .ok [(.text "a ".toList, []), (htmlVal "<b c=\"]\">".toList, []), (.text "x".toList, []),
         (htmlVal "</b>".toList, []), (.text " ".toList, []),
         (.link [117] none, [.text "l ".toList, htmlVal "<i>".toList])] := by decide +kernel
-- three `<a>`: three html nodes, and `link_level` is 3 afterwards (so `Inline.Frame` fails: `FrameL`);
example : valsH (parseInlineH (exCfgH 100 stockH) "<a><a><a>".toList [(0, 0)]) =
      .ok [(htmlVal "<a>".toList, []), (htmlVal "<a>".toList, []), (htmlVal "<a>".toList, [])] ∧
    (tokenizeH (exCfgH 100 stockH).base stockH 200 (IState.init "<a><a><a>".toList [(0, 0)])).map (·.linkLevel)
      = .ok 3 := by decide +kernel
-- an autolink and a tag inside a label.
example : valsH (parseInlineH (exCfgH 100 stockH) "[x <http://y> <z w>](u)".toList [(0, 0)]) =
    .ok [(.link [117] none, [.text "x ".toList, Val.autolink ("http://y".toList.map Char.toNat),
          .text " ".toList, htmlVal "<z w>".toList])] := by decide +kernel
-- the LINK rule over a tokenizer with the html rule does not restore `link_level` (`TokHyp` is false):
example : (tokenizeH (exCfgH 100 stockH).base stockH 200 (IState.init "[<a>](u)".toList [(0, 0)])).map
    (·.linkLevel) = .ok 1 := by decide +kernel
-- the html rule in the look-ahead makes `[a <b c="]"> d](u)` a link; without it the text stays text
-- (`parseInlineH_conservative'` applies to the second chain):
example : valsH (parseInlineH (exCfgH 100 stockH) "[a <b c=\"]\"> d](u)".toList [(0, 0)]) =
      .ok [(.link [117] none, [.text "a ".toList, htmlVal "<b c=\"]\">".toList, .text " d".toList])] ∧
    valsH (parseInlineH (exCfgH 100 (stockH.filter (· ≠ .html))) "[a <b c=\"]\"> d](u)".toList [(0, 0)]) =
      .ok [(.text "[a <b c=\"]\"> d](u)".toList, [])] ∧
    RuleIdH.html ∉ (exCfgH 100 (stockH.filter (· ≠ .html))).chain := by decide +kernel
-- html WITHOUT autolink: `<` is a marker of the html rule alone; `<http://x>` is no tag, `<http>` is
example : valsH (parseInlineH (exCfgH 100 (stockH.filter (· ≠ .base .autolink))) "<http://x> <http>".toList [(0, 0)])
    = .ok [(.text "<http://x> ".toList, []), (htmlVal "<http>".toList, [])] := by decide +kernel
-- `skip_token` takes the tag as ONE token and memoises it
example : (skipTokenH (exCfgH 100 stockH).base stockH 50
      { IState.init "a <b c=\"]\"> d".toList [(0, 0)] with pos := 2 }).map (fun s => (s.pos, s.cache))
    = .ok (11, [(2, 11)]) := by decide +kernel

-- (c): the executable memo check holds on the three documents, so `parseInlineH_total_of_memoSafeH`
-- applies; the hypotheses of `parseInlineHG_no_panic` hold for `stockH` on every one-line content
example : memoSafeH (exCfgH 100 stockH) "a <b c=\"]\">x</b> [l <i>](u)".toList [(0, 0)] = true ∧
    memoSafeH (exCfgH 100 stockH) "<a><a><a>".toList [(0, 0)] = true ∧
    memoSafeH (exCfgH 100 stockH) "[x <http://y> <z w>](u)".toList [(0, 0)] = true := by decide +kernel

theorem stockH_sz : ∀ mk csw, RuleIdH.base (.emph mk csw) ∈ (exCfgH 100 stockH).chain → mk.utf8Size = 1 := by
  intro mk csw h
  have h' : RuleIdH.base (.emph mk csw) ∈ stockH := h
  simp only [stockH, exCfg, List.map_cons, List.map_nil, List.cons_append, List.nil_append, List.mem_cons,
    RuleIdH.base.injEq, RuleId.emph.injEq, reduceCtorEq, List.mem_nil_iff, or_false, false_or] at h'
  rw [h'.1]; decide

example : NoRust (parseInlineHG (exCfgH 100 stockH) "[x <http://y> <z w>](u)".toList [(0, 0)]) :=
  parseInlineHG_no_panic _ stockH_sz (mapOK_single _) (by decide +kernel)

-- `parseInlineH_total_flat` applies to the stock chain minus link / image (html, autolink, emphasis, … stay)
example : ∃ cs, parseInlineH (exCfgH 100 (stockH.filter (fun r => r ≠ .base .link ∧ r ≠ .base .image)))
    "*a* <b c=\"]\"> <http://x>".toList [(0, 0)] = .ok cs :=
  parseInlineH_total_flat _ (by decide +kernel)
    (by intro mk csw h
        have h' := (List.mem_filter.mp h).1
        exact stockH_sz mk csw h')
    (mapOK_single _) (by decide +kernel)

example : ∃ cs, parseInlineH (exCfgH 100 stockH) "a <b c=\"]\">x</b> [l <i>](u)".toList [(0, 0)] = .ok cs :=
  parseInlineH_total_of_memoSafeH _ (by decide +kernel)

-- (e): `chain_html_silent_real` with the html rule first in the chain, at the `<` of `<b c="]"> d`
-- (`guarded_no_panicH` / `ruleAtH_bounds` have the same state hypotheses)
def exInitH : IState := IState.init "<b c=\"]\"> d".toList [(0, 0)]

theorem exInitH_html : ∃ s1, silentBumped htmlRule exInitH = .ok (some 9, s1) := by
  have h : (match silentBumped htmlRule exInitH with | .ok (o, _) => some o | .error _ => none)
      = some (some 9) := by decide +kernel
  cases hr : silentBumped htmlRule exInitH with
  | error e => rw [hr] at h; cases h
  | ok p =>
    obtain ⟨o, s⟩ := p
    rw [hr] at h
    simp only [Option.some.injEq] at h
    subst h
    exact ⟨s, rfl⟩

example : ∃ s2 nd, firstRuleG (fun id s => runRuleH (exCfgH 100 [.html, .base .text]).base
      (fun s => skipTokenHG (exCfgH 100 [.html, .base .text]).base ([] ++ .html :: [.base .text]) true 30 s)
      (fun s => tokLoopHG (exCfgH 100 [.html, .base .text]).base ([] ++ .html :: [.base .text]) true 30 s.posMax s)
      30 id s false) ([] ++ .html :: [.base .text]) exInitH = .ok (some 9, s2) ∧
    s2 = { exInitH with linkLevel := s2.linkLevel, children := exInitH.children ++ [htmlNode nd] } := by
  obtain ⟨lo, _, hg⟩ := init_good (mapOK_single "<b c=\"]\"> d".toList)
  obtain ⟨s1, hs1⟩ := exInitH_html
  exact (chain_html_silent_real (exCfgH 100 [.html, .base .text]).base [] [.base .text]
    (by intro mk csw h; simp [exCfgH, CfgH.base, RuleIdH.base?] at h)
    (by intro r h; simp at h; subst h; simp [exCfgH, CfgH.base, RuleIdH.base?]) 30 exInitH hg
    (memoB_init _ _) (by decide +kernel) (llpos_init _ _) (by decide +kernel) (by decide) rfl hs1).2 exInitH rfl

/-
  OPEN (d): `parseInlineH_total` — for every `CfgH` whose base chain is `ChainCoherent` (and has at most
  one link and one image rule, as `Props/MemoSafe.lean` `parseInline_total` asks), every `MapOK` content
  within the size bound: `∃ cs, parseInlineH cfg content mapping = .ok cs`.
  By `parseInlineH_ok_or_guard` what is missing is exactly `memoSafeH cfg content mapping = true` (memo
  laminarity, L3 of `Props/InlineTotal.lean`) for chains WITH `.html`.  It was NOT attempted: the
  memo-safety development (`Lemmas/MemoSafe*.lean`, ~17 k lines) cannot take the html rule as "one more
  flat rule" without being re-stated, for three independent reasons.
   1. It is about the CONSTANTS `Inline.tokLoop` / `Inline.skipToken` / `Inline.skipStep` / `Inline.tokStep`
      and the enumeration `Inline.RuleId` (`RuleId.isFlat`, `RuleId.firesAt`, `ChainCoherent`, the walks
      `pwalk` replaying `skipToken cfg`, `NestHyps cfg …` with `flat : FlatL2 cfg …` quantifying over
      `id : RuleId` with `id.isFlat`): none of them is parametric in the rule runner.  To reuse it the
      development would have to be generalised from `(cfg.chain : List RuleId, runRule cfg)` to an abstract
      `(chain : List ι, run : ι → skip → tok → fuel → IState → Bool → RuleRes)` with the per-rule facts as
      hypotheses on `run` — i.e. `NestHyps` would have to carry, per id, the four facts it now derives by
      `cases id`: (F1) flat rules neither read nor write the memo (`runRule_flat_cache`), (F2) real = silent
      extent (`silent_real_<rule>`), (F3) WINDOW INDEPENDENCE: the look-ahead verdict at `pos` under `pos_max`
      equals the verdict under a smaller `pos_max' ≥ pos + len` (and is `None` or different ONLY IF the match
      extends beyond the cut), (F4) `firesAt`: the first character decides whether the rule can answer.
   2. Every frame fact there is `Inline.Frame`, i.e. includes `linkLevel` unchanged — false here in real mode
      (see the header).  The `resetLL` device used in this file for the per-rule contracts does not carry
      over to a development about the concrete `tokLoop`: `Frame` would have to be weakened to `FrameL`
      throughout (the memo-safety argument itself never reads `linkLevel`).
   3. The html rule does satisfy F1–F4 (it behaves like the autolink rule): F1 `htmlRule_cases`; F2
      `htmlRule_silent_real` / `htmlRule_real_silent`; F4 `firesAt .html c := c == '<'`; F3 (window independence,
      the `FlatL2` fact) is now worked out in `Lemmas/InlineHWindow.lean` (audit: `Audit/InlineHWindow.lean`): for
      the smaller window `w` and the larger `w ++ x`
          (E) tagRest w = some r → tagRest (w ++ x) = some (r ++ x)
          (S) tagRest (w ++ x) = some r0, |x| ≤ |r0| → ∃ r, r0 = r ++ x ∧ tagRest w = some r
      (`FlatL2`: `o0 = none → o = none` is the contrapositive of (E), `o0 = some n` fitting ⇒ `o = some n` is (S));
      PROVED for the close tag, comment, processing instruction, CDATA, declaration and for the whole matcher
      on every window that does not start an open tag (`tagRest_ext_nonopen`, `tagRest_shr_nonopen`, `extent_*`);
      the lazy / `[^>]*` alternatives never match longer under a larger window (first terminator).  SINCE PROVED
      for the open tag too: (S) in full (`openTagK_shr`, `tagRest_shr`) and the weak form of (E) - a match under `w`
      implies a match under `w ++ x` (`tagRest_ext_weak`) - which is what `FlatL2` needs (`extent_flatL2`); only the
      same-extent (E) for the open tag is open (no counterexample in an exhaustive search over 1 948 717 strings).  A tag may CONTAIN a `]` (`<b c="]">`), exactly
      like an autolink `<http://a]b>` or a code span, which the development already handles for flat rules
      through laminarity of look-ahead tokens.
  Evidence for the statement: the stream `inlineh` compares whole `md.inline.parse` runs with the model on
  > 20 000 cases (random chains with html) at 0 differences, and the real crate never panicked on a
  well-formed table there.
-/

/-! ## C05 with html: every node of the extended inline parser is ranged inside the translated window -/

/-- `n` occurs in the forest `l`, at any depth -/
inductive Desc : Node → List Node → Prop
  | top {n : Node} {l : List Node} : n ∈ l → Desc n l
  | under {n m : Node} {l : List Node} : m ∈ l → Desc n m.children → Desc n l

theorem orderedN_mem {lo hi : Nat} {l : List Node} (h : OrderedN lo hi l) {n : Node} (hn : n ∈ l) :
    ∃ a b, n.range = some (a, b) ∧ lo ≤ a ∧ a ≤ b ∧ b ≤ hi := by
  induction l generalizing lo with
  | nil => cases hn
  | cons c r ih =>
    simp only [OrderedN] at h
    obtain ⟨a, b, hr, h1, h2, h3⟩ := h
    rcases List.mem_cons.mp hn with rfl | hn
    · exact ⟨a, b, hr, h1, h2, h3.le⟩
    · obtain ⟨a', b', hr', h1', h2', h3'⟩ := ih h3 hn
      exact ⟨a', b', hr', by omega, h2', h3'⟩

/-- ordered siblings + well-ranged nodes: every descendant has a range inside `[lo, hi]` -/
theorem desc_ranges {n : Node} {l : List Node} (hd : Desc n l) :
    ∀ lo hi, OrderedN lo hi l → WellRangedList l →
      ∃ a b, n.range = some (a, b) ∧ lo ≤ a ∧ a ≤ b ∧ b ≤ hi := by
  induction hd with
  | top hn => intro lo hi ho _; exact orderedN_mem ho hn
  | under hm _ ih =>
    intro lo hi ho hw
    obtain ⟨a, b, hr, h1, h2, h3⟩ := orderedN_mem ho hm
    have hwm := (wellRangedList_iff _).mp hw _ hm
    obtain ⟨⟨a', b', hr', _, hoc⟩, hwc⟩ := (WellRanged_eq _).mp hwm
    rw [hr] at hr'
    simp only [Option.some.injEq, Prod.mk.injEq] at hr'
    obtain ⟨rfl, rfl⟩ := hr'
    obtain ⟨x, y, e, g1, g2, g3⟩ := ih a b hoc hwc
    exact ⟨x, y, e, by omega, g2, by omega⟩

/-- **C05, inline half, with html (`Inline.inline_children_ordered` over `tokLoopH`).**  For a `MapOK` table:
    the children `parseInlineH` builds — `HtmlInline` nodes included — lie, in order and without overlap,
    inside `[tr pos₀, tr pos_end]`, and every node is well ranged (recursively).  Every successful run, any
    chain, no fuel / no-panic hypothesis. -/
theorem inlineH_children_ordered (cfg : CfgH) {content : List Char} {mapping : Srcmap}
    (hm : MapOK content mapping) {cs : List Node} (h : parseInlineH cfg content mapping = .ok cs) :
    ∃ lo hi posEnd, getSourcePosFor mapping (trimSrc content).1 = .ok lo ∧
      getSourcePosFor mapping posEnd = .ok hi ∧ OrderedN lo hi cs ∧ WellRangedList cs := by
  unfold parseInlineH tokenizeH at h
  split at h
  · simp at h
  · next st hst =>
    simp only [Except.ok.injEq] at h; subst h
    obtain ⟨lo, hlo⟩ := C05.translate_total mapping hm.wf (trimSrc content).1
    have hinit : RInv lo (IState.init content mapping) :=
      ⟨⟨lo, hlo, Nat.le_refl _⟩, trivial, markersOK_nil, by intro init last hcs; simp [IState.init] at hcs⟩
    rw [← (HG_false cfg.base cfg.chain _).1] at hst
    obtain ⟨hs, hmm, hri⟩ := ranges_inductionHG cfg.base cfg.chain false _ _ lo _ _ hm hst hinit
    obtain ⟨hi, hhi, hord⟩ := hri.ord
    have e1 : st.srcmap = mapping := hmm
    rw [e1] at hhi
    exact ⟨lo, hi, st.pos, hlo, hhi, hord, hri.deep⟩

/-- the same behind the post pass -/
theorem finishH_children_ordered (cfg : CfgH) {content : List Char} {mapping : Srcmap}
    (hm : MapOK content mapping) {cs : List Node} (h : parseFinishH cfg content mapping = .ok cs) :
    ∃ lo hi posEnd, getSourcePosFor mapping (trimSrc content).1 = .ok lo ∧
      getSourcePosFor mapping posEnd = .ok hi ∧ OrderedN lo hi cs ∧ WellRangedList cs := by
  unfold parseFinishH at h
  split at h
  · simp at h
  · next cs0 hp =>
    simp only [Except.ok.injEq] at h; subst h
    obtain ⟨lo, hi, pe, h1, h2, h3, h4⟩ := inlineH_children_ordered cfg hm hp
    refine ⟨lo, hi, pe, h1, h2, ?_⟩
    unfold finish
    split
    · exact od_finish_join ⟨h3, h4⟩
    · exact ⟨h3, h4⟩

/-- **C05 with html, node form.**  Every node of the tree `parseFinishH` returns (any depth, `HtmlInline`
    included) has a range `(a, b)` with `lo ≤ a ≤ b ≤ hi`, where `lo` / `hi` are the translations of the
    trimmed start and of the position the tokenizer stopped at. -/
theorem parseInlineH_ranges (cfg : CfgH) {content : List Char} {mapping : Srcmap}
    (hm : MapOK content mapping) {cs : List Node} (h : parseFinishH cfg content mapping = .ok cs) :
    ∃ lo hi posEnd, getSourcePosFor mapping (trimSrc content).1 = .ok lo ∧
      getSourcePosFor mapping posEnd = .ok hi ∧
      ∀ n, Desc n cs → ∃ a b, n.range = some (a, b) ∧ lo ≤ a ∧ a ≤ b ∧ b ≤ hi := by
  obtain ⟨lo, hi, pe, h1, h2, h3, h4⟩ := finishH_children_ordered cfg hm h
  exact ⟨lo, hi, pe, h1, h2, fun n hd => desc_ranges hd lo hi h3 h4⟩

/-- … before the post pass -/
theorem parseInlineH_ranges_raw (cfg : CfgH) {content : List Char} {mapping : Srcmap}
    (hm : MapOK content mapping) {cs : List Node} (h : parseInlineH cfg content mapping = .ok cs) :
    ∃ lo hi posEnd, getSourcePosFor mapping (trimSrc content).1 = .ok lo ∧
      getSourcePosFor mapping posEnd = .ok hi ∧
      ∀ n, Desc n cs → ∃ a b, n.range = some (a, b) ∧ lo ≤ a ∧ a ≤ b ∧ b ≤ hi := by
  obtain ⟨lo, hi, pe, h1, h2, h3, h4⟩ := inlineH_children_ordered cfg hm h
  exact ⟨lo, hi, pe, h1, h2, fun n hd => desc_ranges hd lo hi h3 h4⟩

/-- **C05 with html, inside the WINDOW.**  When the memo check passes (always, for chains without link /
    image: `tokLoopHG_flat`) the tokenizer stops at `pos_end ≤ pos_max`, so `hi` can be taken as the
    translation of the trimmed END of the content: every node, at any depth, `HtmlInline` included, has
    `tr (trim start) ≤ a ≤ b ≤ tr (trim end)` — with a table that maps `[0, |content|]` into the source
    (`C05I.UpToAll`) this is `b ≤ |src|`. -/
theorem parseInlineH_ranges_window (cfg : CfgH)
    (hsz : ∀ mk csw, RuleIdH.base (.emph mk csw) ∈ cfg.chain → mk.utf8Size = 1) {content : List Char}
    {mapping : Srcmap} (hm : MapOK content mapping)
    (hsize : 2 * byteLen content + cfg.maxNesting < 2 ^ 31 - 1)
    (hs : memoSafeH cfg content mapping = true) {cs : List Node}
    (h : parseFinishH cfg content mapping = .ok cs) :
    ∃ lo hi, getSourcePosFor mapping (trimSrc content).1 = .ok lo ∧
      getSourcePosFor mapping (trimSrc content).2 = .ok hi ∧
      ∀ n, Desc n cs → ∃ a b, n.range = some (a, b) ∧ lo ≤ a ∧ a ≤ b ∧ b ≤ hi := by
  unfold memoSafeH at hs
  split at hs
  · next cs' hcs' =>
    have hmodel := parseInlineHG_ok hcs'
    unfold parseInlineHG at hcs'
    split at hcs'
    · simp at hcs'
    · next st' hst' =>
      simp only [Except.ok.injEq] at hcs'; subst hcs'
      obtain ⟨lo, hlo, hg⟩ := init_good hm
      obtain ⟨fr, _, hg', _⟩ := (guarded_no_panicH cfg.base cfg.chain (fun mk csw h => hsz mk csw (mem_base h))
        (fun r h => base_mem h) (topFuel cfg.base content) _ hg (memoB_init content mapping)
        (llpos_init content mapping)
        (show 2 * byteLen content + cfg.maxNesting < 2147483647 by simpa using hsize)).2 st' hst'
      obtain ⟨hi0, hhi0, hord⟩ := hg'.ri.ord
      have esm : st'.srcmap = mapping := fr.srcmap
      have epm : st'.posMax = (trimSrc content).2 := fr.posMax
      obtain ⟨hi, hhi⟩ := C05.translate_total mapping hm.wf (trimSrc content).2
      have hle : hi0 ≤ hi := by
        have hm' := hg'.map
        rw [esm] at hm' hhi0
        exact tr_mono hm' (by rw [← epm]; exact hg'.le) hhi0 hhi
      have hord' : OrderedN lo hi st'.children := hord.widen (Nat.le_refl _) hle
      -- behind the post pass
      unfold parseFinishH at h
      rw [hmodel] at h
      simp only [Except.ok.injEq] at h; subst h
      have hfin : OrderedN lo hi (finish cfg.base st'.children) ∧ WellRangedList (finish cfg.base st'.children) := by
        unfold finish
        split
        · exact od_finish_join ⟨hord', hg'.ri.deep⟩
        · exact ⟨hord', hg'.ri.deep⟩
      exact ⟨lo, hi, hlo, hhi, fun n hd => desc_ranges hd lo hi hfin.1 hfin.2⟩
  · simp at hs

-- the html node of `a <b>` has the range `[2, 5]` inside `[tr 0, tr 5]` of the table `[(0, 0)]`
example : (match parseFinishH (exCfgH 100 stockH) "a <b>".toList [(0, 0)] with
    | .ok cs => cs.map (fun n => (htmlContent? n.val, n.range))
    | .error _ => []) = [(none, some (0, 2)), (some "<b>".toList, some (2, 5))] := by decide +kernel

end MdIt.InlineH
