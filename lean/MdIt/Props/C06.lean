/-
  C06 — Container prefixing changes neither interpretation nor source mapping.

  "Prefixing every line of a tab-free document D with '> ' renders exactly as a blockquote element
   wrapped around the rendering of D, and placing D as continuation blocks of a loose list item (each
   line indented by the marker width) renders exactly as the list wrapper around the rendering of D.
   Under the block-quote transformation the tree below the quote is the tree of D with every source
   range shifted by exactly the inserted prefix bytes."

  Mechanism proved here, on the block-parser model `MdIt.Model.Block` (for ALL lines / texts):

    entries     `quote_view` (+ `quote_view_shift`): the table entry of `"> " ++ l` after the block-quote
                rule's rewriting (`bqRewrite`) has the indent of `l`, the text of `l`, and
                `first_nonspace`, `line_end` moved by exactly the prefix bytes;
                `item_view`: the same for `l` indented by the marker width under `blk_indent = w`
    content     `calcRight_spaces`, `viewPiece_prefix`, `viewPiece_item`, `get_lines_quote`,
                `get_lines_item`: `get_lines` returns the same content for D's lines and for the
                prefixed / indented lines (nothing of the prefix is copied, no tab is split)
    look-ahead  `hr_silent_view`, `heading_silent_view`, `fence_silent_view`,
                `blockquote_silent_view`, `list_silent_view`: in silent mode every rule's verdict is a
                function of the `blk_indent`-relative view `(line_indent, get_line)` of the current
                line; `testRules_same_view`: `test_rules_at_line` answers alike on states that show
                the same view (so paragraphs, setext headings, reference definitions, lists and
                quotes end at the same lines in D and in the prefixed document)
  together with `Props/Block.lean`: `tokenize_progress` (the nested tokenizer hands the table back as
  it found it), `bqScan_spec` (the quote restores every entry it rewrote).
  OPEN (end of file): the whole-document congruence `quote_commutes`, with its exact preconditions —
  one of which (nesting depth below the limit) is a boundary of the property itself.
-/
import MdIt.Props.Block
set_option linter.unusedSimpArgs false

namespace MdIt.Block
open MdIt.Lines (LineOffset NoTerm AllBlank lead mkOff)

/-! ## tab-free blank runs -/

/-- a run of U+0020 only -/
def Spaces (w : List Char) : Prop := ∀ c ∈ w, c = ' '

theorem Spaces.allBlank {w : List Char} (h : Spaces w) : AllBlank w := fun c hc => .inl (h c hc)

theorem Spaces.tail {c : Char} {w : List Char} (h : Spaces (c :: w)) : Spaces w :=
  fun d hd => h d (List.mem_cons_of_mem _ hd)

theorem Spaces.append {a b : List Char} (ha : Spaces a) (hb : Spaces b) : Spaces (a ++ b) := by
  intro c hc
  rcases List.mem_append.mp hc with h | h
  · exact ha c h
  · exact hb c h

theorem spaces_replicate (n : Nat) : Spaces (List.replicate n ' ') := by
  intro c hc; exact (List.mem_replicate.mp hc).2

/-- the leading blank run of a tab-free line consists of spaces -/
theorem lead_spaces {l : List Char} (h : '\t' ∉ l) : Spaces (lead l) := by
  intro c hc
  have hb := Lines.lead_allBlank l c hc
  rcases hb with rfl | rfl
  · rfl
  · exact absurd ((List.takeWhile_sublist _).subset hc) h

/-- without tabs every character is one column -/
theorem widthFrom_tabfree : ∀ (w : List Char) (col : Nat), '\t' ∉ w → Lines.widthFrom col w = col + w.length
  | [], col, _ => by simp [Lines.widthFrom]
  | c :: r, col, h => by
    have hc : c ≠ '\t' := fun e => h (by simp [e])
    have hr : '\t' ∉ r := fun e => h (List.mem_cons_of_mem _ e)
    have := widthFrom_tabfree r (col + 1) hr
    simp only [Lines.widthFrom, List.foldl_cons, Lines.colStep, if_neg hc, List.length_cons] at this ⊢
    omega

theorem indentWidth_tabfree (w : List Char) (h : '\t' ∉ w) : Lines.indentWidth w = w.length := by
  simpa [Lines.indentWidth] using widthFrom_tabfree w 0 h

/-- `find_indent_of` in a tab-free prefix: the indent is the number of blanks skipped -/
theorem findIndent_tabfree (p run rest : List Char) (hp : '\t' ∉ p) (hrun : Spaces run)
    (hrest : ∀ c r, rest = c :: r → ¬ (c = ' ' ∨ c = '\t')) :
    Lines.findIndentOf (p ++ run ++ rest) (Lines.byteLen p) = .ok (run.length, Lines.byteLen p + run.length) := by
  rw [Lines.find_indent_spec p run rest hrun.allBlank hrest]
  have h1 : '\t' ∉ p ++ run := by
    intro hc
    rcases List.mem_append.mp hc with h | h
    · exact hp h
    · have := hrun _ h; cases this
  rw [indentWidth_tabfree _ h1, indentWidth_tabfree _ hp]
  simp

/-! ## `quote_view` -/

theorem lead_cons_nonblank {c : Char} (l : List Char) (hc : Lines.isBlank c = false) : lead (c :: l) = [] := by
  simp [lead, List.takeWhile, hc]

/-- **`quote_view`.**  Let `l` be a tab-free, terminator-free line and let `"> " ++ l` sit in a source
    at byte `|P|`; `o` is the entry `generate_caches` makes for it.  The block-quote rule's rewriting
    (`bqRewrite`: `find_indent_of` from behind the `>`, minus the one optional space) yields the entry

        line_start = |P|, line_end = |P| + 2 + |l|, first_nonspace = |P| + 2 + #blanks(l),
        indent_nonspace = #blanks(l)

    i.e. — compared with the entry `mkOff p₀ (l, _)` of `l` itself at byte `p₀` of another text —
    the same indent, and `first_nonspace`, `line_end` moved by exactly `|P| + 2 − p₀` (the inserted
    prefix bytes up to and including this line's); `last_line_empty` iff `l` is blank. -/
theorem quote_view (P l Q t : List Char) (htab : '\t' ∉ l) :
    bqRewrite (P ++ ('>' :: ' ' :: l) ++ Q) (mkOff (Lines.byteLen P) ('>' :: ' ' :: l, t)) (' ' :: l)
      = .ok (⟨Lines.byteLen P, Lines.byteLen P + 2 + Lines.byteLen l,
               Lines.byteLen P + 2 + (lead l).length, ((lead l).length : Int)⟩,
             (lead l).length == Lines.byteLen l) := by
  have hlead : lead ('>' :: ' ' :: l) = [] := lead_cons_nonblank _ (by decide)
  have hsp := lead_spaces htab
  have hbl : Lines.byteLen ('>' :: ' ' :: l) = 2 + Lines.byteLen l := by
    simp [show '>'.utf8Size = 1 by decide, show ' '.utf8Size = 1 by decide]; omega
  have hsl : Lines.slice (P ++ ('>' :: ' ' :: l) ++ Q) (Lines.byteLen P)
      (Lines.byteLen P + Lines.byteLen ('>' :: ' ' :: l)) = .ok ('>' :: ' ' :: l) := Lines.slice_append _ _ _
  -- the text behind `>`: one space, the blanks of `l`, the rest of `l`
  have hfi := findIndent_tabfree ['>'] (' ' :: lead l) (l.dropWhile Lines.isBlank) (by decide)
    (by intro c hc; simp at hc; rcases hc with rfl | hc; rfl; exact hsp c hc)
    (by
      intro c r h hc
      have := Lines.head_dropWhile h
      rw [Lines.isBlank_iff.mpr hc] at this
      cases this)
  have hline : ['>'] ++ ' ' :: lead l ++ l.dropWhile Lines.isBlank = '>' :: ' ' :: l := by
    simp [Lines.lead_append_rest l]
  rw [hline] at hfi
  simp only [show Lines.byteLen ['>'] = 1 by decide, List.length_cons] at hfi
  unfold bqRewrite
  simp only [mkOff, hlead, List.length_nil, Nat.add_zero, hsl, liftL, ok_bind, psub,
    show Lines.byteLen P ≤ Lines.byteLen P + 1 by omega, if_true,
    show Lines.byteLen P + 1 - Lines.byteLen P = 1 by omega, hfi,
    show Lines.byteLen P ≤ Lines.byteLen P + Lines.byteLen ('>' :: ' ' :: l) by omega,
    bqOptSpace, show isBlank ' ' = true by decide, pure, Except.pure,
    show (1 : Nat) ≤ (lead l).length + 1 by omega]
  simp only [bind, Except.bind, hbl]
  have e1 : Lines.byteLen P + (2 + Lines.byteLen l) = Lines.byteLen P + 2 + Lines.byteLen l := by omega
  have e2 : 1 + ((lead l).length + 1) + Lines.byteLen P = Lines.byteLen P + 2 + (lead l).length := by omega
  have e3 : (lead l).length + 1 - 1 = (lead l).length := by omega
  have e4 : (1 + ((lead l).length + 1) == Lines.byteLen P + 2 + Lines.byteLen l - Lines.byteLen P)
      = ((lead l).length == Lines.byteLen l) := by
    rw [show Lines.byteLen P + 2 + Lines.byteLen l - Lines.byteLen P = 2 + Lines.byteLen l by omega]
    apply Bool.eq_iff_iff.mpr
    simp only [beq_iff_eq]
    omega
  rw [e1, e2, e3, e4]

/-- the entry `quote_view` computes -/
def quoteEntry (P l : List Char) : LineOffset :=
  ⟨Lines.byteLen P, Lines.byteLen P + 2 + Lines.byteLen l, Lines.byteLen P + 2 + (lead l).length,
   ((lead l).length : Int)⟩

/-- …presents the view of `l`: the same text, the same indent, every byte position of the fresh entry
    `mkOff p₀ (l, _)` of `l` moved by `|P| + 2 − p₀`; the blanks in front of the text are the blanks
    of `l` behind the prefix `"> "` -/
theorem quote_view_shift (P l Q t' : List Char) (p0 : Nat) (htab : '\t' ∉ l) :
    (quoteEntry P l).firstNonspace + p0 = (mkOff p0 (l, t')).firstNonspace + (Lines.byteLen P + 2) ∧
    (quoteEntry P l).lineEnd + p0 = (mkOff p0 (l, t')).lineEnd + (Lines.byteLen P + 2) ∧
    (quoteEntry P l).indentNonspace = (mkOff p0 (l, t')).indentNonspace ∧
    Lines.lineText (P ++ ('>' :: ' ' :: l) ++ Q) (quoteEntry P l) = .ok (l.dropWhile Lines.isBlank) ∧
    Lines.lineWs (P ++ ('>' :: ' ' :: l) ++ Q) (quoteEntry P l) = .ok ('>' :: ' ' :: lead l) := by
  have hw : Lines.indentWidth (lead l) = (lead l).length :=
    indentWidth_tabfree _ (fun h => htab ((List.takeWhile_sublist _).subset h))
  have hl := Lines.lead_append_rest l
  have hbl := congrArg Lines.byteLen hl
  simp only [Lines.byteLen_append, Lines.byteLen_lead] at hbl
  refine ⟨by simp [quoteEntry, mkOff]; omega, by simp [quoteEntry, mkOff]; omega,
    by simp [quoteEntry, mkOff, hw], ?_, ?_⟩
  · refine Lines.slice_eq_ok_iff.mpr ⟨P ++ '>' :: ' ' :: lead l, Q, ?_, ?_, ?_⟩
    · conv => lhs; rw [← hl]
      simp [List.append_assoc]
    · simp [quoteEntry, Lines.byteLen_lead, show '>'.utf8Size = 1 by decide, show ' '.utf8Size = 1 by decide]
      omega
    · simp [quoteEntry]; omega
  · refine Lines.slice_eq_ok_iff.mpr ⟨P, l.dropWhile Lines.isBlank ++ Q, ?_, rfl, ?_⟩
    · conv => lhs; rw [← hl]
      simp [List.append_assoc]
    · simp [quoteEntry, Lines.byteLen_lead, show '>'.utf8Size = 1 by decide, show ' '.utf8Size = 1 by decide]
      omega

/-- `"> "` + three spaces + `é`, at byte 5 of a text: indent 3, text at byte 10, line end at byte 12 -/
example : bqRewrite (['x', 'y', 'z', 'w', '\n'] ++ ('>' :: ' ' :: [' ', ' ', ' ', 'é']) ++ ['\n'])
    (mkOff 5 ('>' :: ' ' :: [' ', ' ', ' ', 'é'], ['\n'])) (' ' :: [' ', ' ', ' ', 'é'])
    = .ok (⟨5, 12, 10, 3⟩, false) := by decide +kernel
/-- the hypothesis is needed: with a tab behind the prefix the indent is 2, not 4 (the tab stop is
    counted from the start of the line, `>` included) -/
example : bqRewrite ('>' :: ' ' :: ['\t', 'a']) (mkOff 0 ('>' :: ' ' :: ['\t', 'a'], [])) (' ' :: ['\t', 'a'])
    = .ok (⟨0, 4, 3, 2⟩, false) := by decide +kernel
example : (mkOff 0 (['\t', 'a'], [])).indentNonspace = 4 := by decide +kernel

/-! ## `item_view` -/

theorem dropWhile_replicate_append (w : Nat) (l : List Char) :
    (List.replicate w ' ' ++ l).dropWhile Lines.isBlank = l.dropWhile Lines.isBlank := by
  induction w with
  | zero => simp
  | succ n ih =>
    simp only [List.replicate_succ, List.cons_append]
    rw [List.dropWhile_cons_of_pos (by decide)]
    exact ih

theorem lead_replicate_append (w : Nat) (l : List Char) :
    lead (List.replicate w ' ' ++ l) = List.replicate w ' ' ++ lead l := by
  induction w with
  | zero => simp
  | succ n ih =>
    simp only [List.replicate_succ, List.cons_append, lead] at ih ⊢
    rw [List.takeWhile_cons_of_pos (by decide), ih]

/-- **`item_view`.**  A tab-free line `l` indented by the marker width `w` (a continuation line of a
    list item; the list rule does not rewrite it, it sets `blk_indent = w`): its fresh entry has
    `indent_nonspace − w = indent(l)` — `line_indent` subtracts `blk_indent` — the same text, and
    every byte position of the fresh entry of `l` moved by `|P| + w − p₀`. -/
theorem item_view (P l Q t t' : List Char) (w p0 : Nat) (htab : '\t' ∉ l) :
    let o := mkOff (Lines.byteLen P) (List.replicate w ' ' ++ l, t)
    o.firstNonspace + p0 = (mkOff p0 (l, t')).firstNonspace + (Lines.byteLen P + w) ∧
    o.lineEnd + p0 = (mkOff p0 (l, t')).lineEnd + (Lines.byteLen P + w) ∧
    o.indentNonspace - (w : Int) = (mkOff p0 (l, t')).indentNonspace ∧
    Lines.lineText (P ++ (List.replicate w ' ' ++ l) ++ Q) o = .ok (l.dropWhile Lines.isBlank) ∧
    Lines.lineWs (P ++ (List.replicate w ' ' ++ l) ++ Q) o = .ok (List.replicate w ' ' ++ lead l) := by
  intro o
  have hw : Lines.indentWidth (lead l) = (lead l).length :=
    indentWidth_tabfree _ (fun h => htab ((List.takeWhile_sublist _).subset h))
  have hw2 : Lines.indentWidth (List.replicate w ' ' ++ lead l) = w + (lead l).length := by
    rw [indentWidth_tabfree]
    · simp
    · intro h
      rcases List.mem_append.mp h with h | h
      · have := (List.mem_replicate.mp h).2; cases this
      · exact htab ((List.takeWhile_sublist _).subset h)
  have hv := Lines.mkOff_view P (List.replicate w ' ' ++ l) Q t
  simp only [Lines.view, Prod.mk.injEq] at hv
  have hdrop := dropWhile_replicate_append w l
  refine ⟨?_, ?_, ?_, ?_, ?_⟩
  · simp [o, mkOff, lead_replicate_append]; omega
  · simp [o, mkOff, Lines.byteLen_replicate_space]; omega
  · simp [o, mkOff, lead_replicate_append, hw2, hw]; omega
  · rw [← hdrop]; exact hv.2.1
  · rw [← lead_replicate_append]; exact hv.1

/-- two spaces + `" b"` at byte 4: indent 3 − 2 = 1, text at byte 7 -/
example : mkOff 4 (List.replicate 2 ' ' ++ [' ', 'b'], []) = ⟨4, 8, 7, 3⟩ := by decide +kernel

/-! ## `get_lines` under the two rewritings: the content of `D`'s lines is reproduced -/

theorem Spaces.byteLen {w : List Char} (h : Spaces w) : Lines.byteLen w = w.length := h.allBlank.byteLen

theorem Spaces.tabfree {w : List Char} (h : Spaces w) : '\t' ∉ w := fun hc => by cases h _ hc

/-- asking for `k ≤ |w|` columns of `a ++ w`, `w` spaces only: the cut falls `k` characters before
    the end, whatever `a` is (no tab of `a` is consulted, nothing is split) -/
theorem calcRight_spaces (a w : List Char) (hw : Spaces w) (k : Int) (hk : k ≤ w.length) :
    Lines.calcRightWs (a ++ w) k = (0, Lines.byteLen a + (w.length - k.toNat)) := by
  by_cases h0 : k ≤ 0
  · rw [Lines.cut_zero _ _ h0]
    have : k.toNat = 0 := by omega
    simp [hw.byteLen, this]
  · have hkn : k.toNat ≤ w.length := by omega
    have hsplit : w = w.take (w.length - k.toNat) ++ w.drop (w.length - k.toNat) := (List.take_append_drop _ _).symm
    have hw2 : Spaces (w.drop (w.length - k.toNat)) := fun c hc => hw c ((List.drop_sublist _ _).subset hc)
    have hw1 : Spaces (w.take (w.length - k.toNat)) := fun c hc => hw c ((List.take_sublist _ _).subset hc)
    have hcut := Lines.cut_prefix (a ++ w.take (w.length - k.toNat)) (w.drop (w.length - k.toNat))
    rw [Lines.indentWidth_append, widthFrom_tabfree _ _ hw2.tabfree] at hcut
    have hlen : (w.drop (w.length - k.toNat)).length = k.toNat := by simp; omega
    rw [hlen] at hcut
    have e : (((Lines.indentWidth (a ++ w.take (w.length - k.toNat)) + k.toNat : Nat) : Int)
        - (Lines.indentWidth (a ++ w.take (w.length - k.toNat)) : Int)) = k := by omega
    rw [e, List.append_assoc, ← hsplit] at hcut
    rw [hcut]
    simp [hw1.byteLen]

theorem dropB_append_left (a w : List Char) (n : Nat) :
    Lines.dropB (a ++ w) (Lines.byteLen a + n) = Lines.dropB w n := by
  induction a with
  | nil => simp
  | cons c r ih =>
    have := Char.utf8Size_pos c
    simp only [List.cons_append, Lines.byteLen_cons, Lines.dropB]
    rw [if_neg (by omega), show c.utf8Size + Lines.byteLen r + n - c.utf8Size = Lines.byteLen r + n by omega]
    exact ih

/-- the piece `get_lines` copies for a line does not depend on what precedes the run of spaces in
    front of its text, as long as the request stays within that run: `"> " ++ w` (block quote) and
    `w` give the same piece -/
theorem viewPiece_prefix (a w t : List Char) (hw : Spaces w) (indent : Nat) (ind : Int)
    (hk : ind - Lines.usizeAsI32 indent ≤ w.length) :
    Lines.viewPiece indent (a ++ w, t, ind) = Lines.viewPiece indent (w, t, ind) := by
  have h1 := calcRight_spaces a w hw _ hk
  have h2 := calcRight_spaces [] w hw _ hk
  simp only [List.nil_append, Lines.byteLen_nil, Nat.zero_add] at h2
  simp only [Lines.viewPiece, h1, h2, dropB_append_left]

/-- the same when both the blanks and the request grow by `m` (list item: `m` spaces of marker
    width, `indent_nonspace` and the requested indent both `m` larger) -/
theorem viewPiece_item (m : Nat) (w t : List Char) (hw : Spaces w) (indent : Nat) (ind : Int)
    (hsmall : m + indent < 2147483648) (hk : ind - (indent : Int) ≤ w.length) :
    Lines.viewPiece (m + indent) (List.replicate m ' ' ++ w, t, ind + m) = Lines.viewPiece indent (w, t, ind) := by
  have e1 : Lines.usizeAsI32 (m + indent) = ((m + indent : Nat) : Int) := by
    simp [Lines.usizeAsI32]; omega
  have e2 : Lines.usizeAsI32 indent = (indent : Int) := by
    simp [Lines.usizeAsI32]; omega
  have hk1 : ind + (m : Int) - Lines.usizeAsI32 (m + indent) ≤ w.length := by rw [e1]; omega
  rw [viewPiece_prefix _ _ _ hw _ _ hk1]
  simp only [Lines.viewPiece, e1, e2]
  rw [show ind + (m : Int) - ((m + indent : Nat) : Int) = ind - (indent : Int) by omega]

/-- `get_lines` on two tables whose lines contribute the same pieces gives the same content -/
theorem get_lines_same_pieces (src₁ src₂ : List Char) (offs₁ offs₂ : List LineOffset)
    (b₁ b₂ indent₁ indent₂ : Nat) (keep : Bool) (vs₁ vs₂ : List (List Char × List Char × Int))
    (h₁ : ∀ j (h : j < vs₁.length), ∃ o, offs₁[b₁ + j]? = some o ∧ Lines.Shows src₁ o vs₁[j])
    (h₂ : ∀ j (h : j < vs₂.length), ∃ o, offs₂[b₂ + j]? = some o ∧ Lines.Shows src₂ o vs₂[j])
    (hp : vs₁.map (Lines.viewPiece indent₁) = vs₂.map (Lines.viewPiece indent₂)) :
    ∃ c m₁ m₂, Lines.getLines src₁ offs₁ b₁ (b₁ + vs₁.length) indent₁ keep = .ok (c, m₁) ∧
      Lines.getLines src₂ offs₂ b₂ (b₂ + vs₂.length) indent₂ keep = .ok (c, m₂) := by
  obtain ⟨m₁, e₁⟩ := Lines.get_lines_lf src₁ offs₁ b₁ indent₁ keep vs₁ h₁
  obtain ⟨m₂, e₂⟩ := Lines.get_lines_lf src₂ offs₂ b₂ indent₂ keep vs₂ h₂
  exact ⟨_, m₁, m₂, e₁, by rw [e₂, hp]⟩

/-- **block quote.**  If lines `b ..` of a table over `src₂` show, line by line, the view of the
    corresponding line of `src₁` with SOMETHING (`pre j`, e.g. `"> "`) in front of the blank run —
    same run of spaces, same text, same indent, as `quote_view` establishes — then every
    `get_lines` request that stays within the runs returns the same content on both. -/
theorem get_lines_quote (src₁ src₂ : List Char) (offs₁ offs₂ : List LineOffset) (b indent : Nat)
    (keep : Bool) (vs : List (List Char × List Char × Int)) (pre : Nat → List Char)
    (hsp : ∀ v ∈ vs, Spaces v.1 ∧ v.2.2 - Lines.usizeAsI32 indent ≤ v.1.length)
    (h₁ : ∀ j (h : j < vs.length), ∃ o, offs₁[b + j]? = some o ∧ Lines.Shows src₁ o vs[j])
    (h₂ : ∀ j (h : j < vs.length), ∃ o, offs₂[b + j]? = some o ∧
      Lines.Shows src₂ o (pre j ++ vs[j].1, vs[j].2.1, vs[j].2.2)) :
    ∃ c m₁ m₂, Lines.getLines src₁ offs₁ b (b + vs.length) indent keep = .ok (c, m₁) ∧
      Lines.getLines src₂ offs₂ b (b + vs.length) indent keep = .ok (c, m₂) := by
  let vs₂ := (List.range vs.length).map fun j => (pre j ++ (vs[j]?.getD ([], [], 0)).1,
    (vs[j]?.getD ([], [], 0)).2.1, (vs[j]?.getD ([], [], 0)).2.2)
  have hl : vs₂.length = vs.length := by simp [vs₂]
  have hget : ∀ j (h : j < vs.length), vs₂[j]'(by omega) = (pre j ++ vs[j].1, vs[j].2.1, vs[j].2.2) := by
    intro j h
    simp [vs₂, h]
  have := get_lines_same_pieces src₁ src₂ offs₁ offs₂ b b indent indent keep vs vs₂ h₁
    (by
      intro j h
      rw [hl] at h
      obtain ⟨o, ho, hs⟩ := h₂ j h
      exact ⟨o, ho, by rw [hget j h]; exact hs⟩)
    (by
      apply List.ext_getElem (by simp [hl])
      intro j hj1 hj2
      simp only [List.getElem_map]
      have hj : j < vs.length := by simpa using hj1
      rw [hget j hj]
      obtain ⟨h1, h2⟩ := hsp vs[j] (List.getElem_mem hj)
      exact (viewPiece_prefix (pre j) vs[j].1 vs[j].2.1 h1 indent vs[j].2.2 h2).symm)
  rw [hl] at this
  exact this

/-- **list item.**  The same for continuation lines of a list item: the lines of `src₂` (from
    `b₂` on) carry `m` more spaces in front, one `indent_nonspace` `m` larger, and are requested with
    an indent `m` larger (`blk_indent = m + …`). -/
theorem get_lines_item (src₁ src₂ : List Char) (offs₁ offs₂ : List LineOffset) (b₁ b₂ indent m : Nat)
    (keep : Bool) (vs : List (List Char × List Char × Int)) (hsmall : m + indent < 2147483648)
    (hsp : ∀ v ∈ vs, Spaces v.1 ∧ v.2.2 - (indent : Int) ≤ v.1.length)
    (h₁ : ∀ j (h : j < vs.length), ∃ o, offs₁[b₁ + j]? = some o ∧ Lines.Shows src₁ o vs[j])
    (h₂ : ∀ j (h : j < vs.length), ∃ o, offs₂[b₂ + j]? = some o ∧
      Lines.Shows src₂ o (List.replicate m ' ' ++ vs[j].1, vs[j].2.1, vs[j].2.2 + m)) :
    ∃ c m₁ m₂, Lines.getLines src₁ offs₁ b₁ (b₁ + vs.length) indent keep = .ok (c, m₁) ∧
      Lines.getLines src₂ offs₂ b₂ (b₂ + vs.length) (m + indent) keep = .ok (c, m₂) := by
  let vs₂ := vs.map fun v => (List.replicate m ' ' ++ v.1, v.2.1, v.2.2 + (m : Int))
  have hl : vs₂.length = vs.length := by simp [vs₂]
  have := get_lines_same_pieces src₁ src₂ offs₁ offs₂ b₁ b₂ indent (m + indent) keep vs vs₂ h₁
    (by
      intro j h
      rw [hl] at h
      obtain ⟨o, ho, hs⟩ := h₂ j h
      exact ⟨o, ho, by simpa [vs₂] using hs⟩)
    (by
      simp only [vs₂, List.map_map]
      apply List.map_congr_left
      intro v hv
      obtain ⟨h1, h2⟩ := hsp v hv
      exact (viewPiece_item m v.1 v.2.1 h1 indent v.2.2 hsmall h2).symm)
  rw [hl] at this
  exact this

/-- `"> a\n>   b"` against `"a\n  b"`: the table as the block-quote rule leaves it (`quote_view`) -/
example :
    Lines.getLines ['a', '\n', ' ', ' ', 'b'] (Lines.splitLines ['a', '\n', ' ', ' ', 'b']) 0 2 0 false
      = .ok (['a', '\n', ' ', ' ', 'b'], [(0, 0), (2, 2)]) ∧
    Lines.getLines ['>', ' ', 'a', '\n', '>', ' ', ' ', ' ', 'b'] [quoteEntry [] ['a'],
        quoteEntry ['>', ' ', 'a', '\n'] [' ', ' ', 'b']] 0 2 0 false
      = .ok (['a', '\n', ' ', ' ', 'b'], [(0, 2), (2, 6)]) := by decide +kernel

/-! ## the look-ahead reads the view of the current line only

  In silent mode the verdict of every rule is a function of `(line_indent(line), get_line(line))` —
  the `blk_indent`-relative view of the current line — and, for the list rule, of three more facts
  about the state (whether the current node is a list, `list_indent`, and the raw
  `indent_nonspace`/`blk_indent` comparison of the "special case").  Two states that agree on these
  answer alike (`testRules_same_view`): this is what makes the look-ahead inside a block quote or a
  list item agree with the look-ahead on the un-prefixed document. -/

/-- what the look-ahead reads: `line_indent`, and the text unless the indent is ≥ 4 -/
def lookView (s : BState) : Except Panic (Int × List Char) := do
  let ind ← s.lineIndent s.line
  if ind ≥ 4 then pure (ind, []) else do
  let line ← s.getLine s.line
  pure (ind, line)

def hrLook (ind : Int) (line : List Char) : Bool :=
  if ind ≥ 4 then false else
  match line with
  | [] => false
  | marker :: rest =>
    if ¬ (marker = '*' ∨ marker = '-' ∨ marker = '_') then false else
    match hrCount marker rest 1 with
    | none => false
    | some cnt => !decide (cnt < 3)

theorem hr_silent_view (s : BState) :
    hrRule s true = (lookView s).map fun v => (hrLook v.1 v.2, s) := by
  unfold hrRule lookView
  cases h1 : s.lineIndent s.line with
  | error e => rfl
  | ok ind =>
    by_cases h4 : ind ≥ 4
    · simp [h4, hrLook, Functor.map, Except.map, pure, Except.pure]
    · cases h2 : s.getLine s.line with
      | error e => simp [h4, Functor.map, Except.map]; rfl
      | ok line =>
        simp only [ok_bind, h4, if_false]
        cases line with
        | nil => simp [hrLook, h4, Functor.map, Except.map, pure, Except.pure]
        | cons m rest =>
          simp only [hrLook, h4, if_false, Functor.map, Except.map, pure, Except.pure, ok_bind]
          split
          · rfl
          · split <;> simp_all
            split <;> simp_all

def headingLook (ind : Int) (line : List Char) : Bool :=
  if ind ≥ 4 then false else
  if line.head? ≠ some '#' then false else (atxOpen line 0).isSome

theorem heading_silent_view (s : BState) :
    headingRule s true = (lookView s).map fun v => (headingLook v.1 v.2, s) := by
  unfold headingRule lookView
  cases h1 : s.lineIndent s.line with
  | error e => rfl
  | ok ind =>
    by_cases h4 : ind ≥ 4
    · simp [h4, headingLook, Functor.map, Except.map, pure, Except.pure]
    · cases h2 : s.getLine s.line with
      | error e => simp [h4, Functor.map, Except.map]; rfl
      | ok line =>
        simp only [ok_bind, h4, if_false, headingLook, Functor.map, Except.map, pure, Except.pure]
        split
        · rfl
        · split <;> simp_all

def bqLook (ind : Int) (line : List Char) : Bool :=
  if ind ≥ 4 then false else
  if line.head? ≠ some '>' then false else true

theorem blockquote_silent_view (tok : Tok) (test : Test) (fuel : Nat) (s : BState) :
    blockquoteRule tok test fuel s true = (lookView s).map fun v => (bqLook v.1 v.2, s) := by
  unfold blockquoteRule lookView
  cases h1 : s.lineIndent s.line with
  | error e => rfl
  | ok ind =>
    by_cases h4 : ind ≥ 4
    · simp [h4, bqLook, Functor.map, Except.map, pure, Except.pure]
    · cases h2 : s.getLine s.line with
      | error e => simp [h4, Functor.map, Except.map]; rfl
      | ok line =>
        simp only [ok_bind, h4, if_false, bqLook, Functor.map, Except.map, pure, Except.pure]
        split <;> simp_all

/-- the fence rule's `&line[len..]` is a partial operation in the model: the look is `Except` -/
def fenceLook (ind : Int) (line : List Char) : Except Panic Bool :=
  if ind ≥ 4 then pure false else
  match line with
  | [] => pure false
  | marker :: rest =>
    if ¬ (marker = '~' ∨ marker = '`') then pure false else
    if 1 + countRun marker rest < 3 then pure false else do
    let params ← liftL (Lines.slice line (1 + countRun marker rest) (Lines.byteLen line))
    if marker = '`' ∧ params.contains marker then pure false else pure true

theorem fence_silent_view (s : BState) :
    fenceRule s true = (lookView s).bind fun v => (fenceLook v.1 v.2).map fun b => (b, s) := by
  unfold fenceRule lookView
  cases h1 : s.lineIndent s.line with
  | error e => rfl
  | ok ind =>
    by_cases h4 : ind ≥ 4
    · simp [h4, fenceLook, Functor.map, Except.map, pure, Except.pure, Except.bind]
    · cases h2 : s.getLine s.line with
      | error e => simp [h4, Functor.map, Except.map, Except.bind]; rfl
      | ok line =>
        simp only [ok_bind, h4, if_false, fenceLook, pure, Except.pure, Except.bind]
        cases line with
        | nil => rfl
        | cons m rest =>
          simp only []
          split
          · rfl
          · split
            · rfl
            · cases h3 : liftL (Lines.slice (m :: rest) (1 + countRun m rest) (Lines.byteLen (m :: rest))) with
              | error e => rfl
              | ok params =>
                simp only [ok_bind, Functor.map, Except.map]
                split <;> rfl

/-- `skipOrdered` / `skipBullet`, the marker value, the two extra conditions of the silent mode -/
def listLook (ind : Int) (cur : List Char) : Except Panic Bool := do
  let detected ← detectMarker cur
  match detected with
  | none => pure false
  | some (posAfterMarker, markerValue) =>
    let isTerm : Bool := decide (ind ≥ 0)
    let badStart : Bool := isTerm && (match markerValue with | some v => v != 1 | none => false)
    if badStart then pure false else do
    let emptyItem ← emptyItemCheck isTerm cur posAfterMarker
    if emptyItem then pure false else pure true

theorem list_silent_view (tok : Tok) (test : Test) (fuel : Nat) (s : BState) :
    listRule tok test fuel s true =
      (if isListKind s.nodeKind then .ok (false, s) else do
        let ind ← s.lineIndent s.line
        if ind ≥ 4 then pure (false, s) else do
        let special ← listSpecial s
        if special then pure (false, s) else do
        let cur ← s.getLine s.line
        Except.map (fun b => (b, s)) (listLook ind cur)) := by
  unfold listRule
  by_cases hk : isListKind s.nodeKind = true
  · simp [hk]; rfl
  · simp only [hk, Bool.false_eq_true, and_false, if_false, true_and, Bool.true_and]
    cases h1 : s.lineIndent s.line with
    | error e => rfl
    | ok ind =>
      simp only [ok_bind]
      split
      · rfl
      · cases h2 : listSpecial s with
        | error e => rfl
        | ok sp =>
          simp only [ok_bind]
          split
          · rfl
          · cases h3 : s.getLine s.line with
            | error e => rfl
            | ok cur =>
              simp only [ok_bind, listLook]
              cases h5 : detectMarker cur with
              | error e => rfl
              | ok det =>
                simp only [ok_bind]
                cases det with
                | none => rfl
                | some pm =>
                  obtain ⟨p, mv⟩ := pm
                  cases mv with
                  | none =>
                    simp only [Functor.map, Except.map, pure, Except.pure, if_true, Bool.and_false,
                      Bool.false_eq_true, if_false]
                    cases h6 : emptyItemCheck (decide (ind ≥ 0)) cur p with
                    | error e => rfl
                    | ok ei => cases ei <;> rfl
                  | some v =>
                    simp only [Functor.map, Except.map, pure, Except.pure, if_true]
                    by_cases hb : (decide (ind ≥ 0) && v != 1) = true
                    · simp only [hb, if_true]
                    · simp only [hb, if_false]
                      cases h6 : emptyItemCheck (decide (ind ≥ 0)) cur p with
                      | error e => rfl
                      | ok ei => cases ei <;> rfl

/-- the two states agree on everything the look-ahead reads -/
structure SameLook (s s' : BState) : Prop where
  indent : s'.lineIndent s'.line = s.lineIndent s.line
  text : s'.getLine s'.line = s.getLine s.line
  isList : isListKind s'.nodeKind = isListKind s.nodeKind
  special : listSpecial s' = listSpecial s

theorem SameLook.view {s s' : BState} (h : SameLook s s') : lookView s' = lookView s := by
  unfold lookView
  rw [h.indent, h.text]

/-- verdict of a result -/
abbrev verdict (r : Res) : Except Panic Bool := Except.map Prod.fst r

theorem verdict_map {α : Type} (x : Except Panic α) (f : α → Bool) (s : BState) :
    verdict (x.map fun v => (f v, s)) = x.map f := by
  cases x <;> rfl

theorem silent_same_view_rule {cfg cfg' : Cfg} {tok tok' : Tok} {test test' : Test} {fuel fuel' : Nat}
    {s s' : BState} (h : SameLook s s') (r : RuleId) :
    verdict (runRule cfg' tok' test' fuel' r s' true) = verdict (runRule cfg tok test fuel r s true) := by
  cases r <;> simp only [runRule]
  · rfl
  · rw [fence_silent_view, fence_silent_view, h.view]
    cases lookView s with
    | error e => rfl
    | ok v =>
      simp only [Except.bind]
      cases fenceLook v.1 v.2 <;> rfl
  · rw [blockquote_silent_view, blockquote_silent_view, h.view]
    exact (verdict_map _ _ _).trans (verdict_map _ _ _).symm
  · rw [hr_silent_view, hr_silent_view, h.view]
    exact (verdict_map _ _ _).trans (verdict_map _ _ _).symm
  · rw [list_silent_view, list_silent_view, h.isList, h.indent, h.special, h.text]
    split
    · rfl
    · cases s.lineIndent s.line with
      | error e => rfl
      | ok ind =>
        simp only [ok_bind]
        split
        · rfl
        · cases listSpecial s with
          | error e => rfl
          | ok sp =>
            simp only [ok_bind]
            split
            · rfl
            · cases s.getLine s.line with
              | error e => rfl
              | ok cur =>
                simp only [ok_bind]
                cases listLook ind cur <;> rfl
  · rfl
  · rw [heading_silent_view, heading_silent_view, h.view]
    exact (verdict_map _ _ _).trans (verdict_map _ _ _).symm
  · rfl
  · rfl

theorem runChain_same_view {run run' : RuleId → BState → Bool → Res}
    (hpure : ∀ r s b s', run r s true = .ok (b, s') → s' = s)
    (hpure' : ∀ r s b s', run' r s true = .ok (b, s') → s' = s) {s s' : BState}
    (hrun : ∀ r, verdict (run' r s' true) = verdict (run r s true)) :
    ∀ chain : List RuleId, verdict (runChain run' chain s' true) = verdict (runChain run chain s true) := by
  intro chain
  induction chain with
  | nil => rfl
  | cons r rs ih =>
    simp only [runChain]
    have := hrun r
    cases h1 : run r s true with
    | error e =>
      rw [h1] at this
      cases h2 : run' r s' true with
      | error e' => rw [h2] at this; simp [verdict, Except.map] at this ⊢; exact this
      | ok v => rw [h2] at this; simp [verdict, Except.map] at this
    | ok v =>
      obtain ⟨b, s1⟩ := v
      have e1 := hpure _ _ _ _ h1
      subst e1
      rw [h1] at this
      cases h2 : run' r s' true with
      | error e' => rw [h2] at this; simp [verdict, Except.map] at this
      | ok v' =>
        obtain ⟨b', s1'⟩ := v'
        have e2 := hpure' _ _ _ _ h2
        subst e2
        rw [h2] at this
        simp [verdict, Except.map] at this
        subst this
        cases b' with
        | true => rfl
        | false => exact ih

/-- **`testRules_same_view`**: the look-ahead (`test_rules_at_line`, over the same chain; the other
    parameters may differ) answers alike on two states that
    show the same view of the current line — e.g. a line of `D` in a fresh state and the same line
    behind `"> "` inside the block quote (`quote_view`), or indented under a list item (`item_view`). -/
theorem testRules_same_view (cfg cfg' : Cfg) (hchain : cfg'.chain = cfg.chain) (fuel : Nat) {s s' : BState}
    (h : SameLook s s') : verdict (testRules cfg' fuel s') = verdict (testRules cfg fuel s) := by
  cases fuel with
  | zero => rfl
  | succ f =>
    simp only [testRules, engine, hchain]
    exact runChain_same_view (fun r s b s' h => silent_pure_rule h) (fun r s b s' h => silent_pure_rule h)
      (fun r => silent_same_view_rule h r) _

/-
OPEN: the whole-document congruence.

  def prefixQuote (D : List Char) : List Char      -- "> " in front of every line of D (blank ones too)
  def shiftPos (D : List Char) (p : Nat) : Nat     -- p + 2 * (1 + number of line terminators of D before byte p)
  def shiftRanges (D) : BNode → BNode              -- shiftPos on every range and on every mapping target

  theorem quote_commutes (cfg : Cfg) (D : List Char) (htab : '\t' ∉ D)
      (hchain : .blockquote ∈ cfg.chain ∧ .paragraph ∉ rules of cfg.chain in front of .blockquote)
      (root : BNode) (refs) (h : parseBlocks cfg D = .ok (root, refs)) :
      parseBlocks { cfg with maxNesting := cfg.maxNesting + 1 } (prefixQuote D)
        = .ok (⟨.root, some (0, |prefixQuote D|),
                [⟨.blockquote, some (0, |prefixQuote D| − final terminator), root.children.map (shiftRanges D)⟩]⟩, refs)

  Preconditions, all necessary:
  * `maxNesting + 1` on the right: the block-quote rule raises `level` around its nested tokenizer, so
    the prefixed document hits the nesting guard one level earlier.  With the SAME limit the property
    fails at the limit: `max_nesting = 2`, D = "> a" renders `<blockquote><p>a</p></blockquote>`, while
    "> > a" renders `<blockquote><blockquote></blockquote></blockquote>` (model and implementation agree:
    stream `block`, documents "> > … a" with max_nesting 0,1,2,3,5).  With the default limit 100 this needs
    a document nested 99 deep.
  * the chain condition: with `paragraph` in front of `blockquote` (possible through `add_rule` without
    the plugins' ordering constraints) "> a" is a paragraph.
  * tab-free: `quote_view` fails with tabs (second `example` below it).

  What is proved: the per-line facts (`quote_view`, `quote_view_shift`: entries; `get_lines_quote`:
  content), the look-ahead congruence (`testRules_same_view` over `SameLook`), restoration of the table
  (`bqScan_spec`), progress / frame of every rule and of the tokenizer (`Props/Block.lean`).
  What is missing is the simulation itself: a relation `Sim D s s'` between a state of the run on D and a
  state of the nested run on `prefixQuote D` (same `line`, `line_max`; entry `i` of `s'` = `quoteEntry`-image
  of entry `i` of `s`; `blk_indent`, `list_indent`, `tight` equal; `level' = level + 1`; children related by
  `shiftRanges D`; equal reference maps), and, for each of the nine rules in REAL mode,
      Sim D s s' → rule s false = .ok (b, t) → ∃ t', rule s' false = .ok (b, t') ∧ Sim D t t'
  (for the two container rules: given the same for the nested tokenizer; their own rewriting commutes
  with the quote's by `findIndent_tabfree`), then `tokLoop`/`engine` by the induction of `tokenize_spec`.
  Each real-mode rule reads the state only through `lineIndent`, `getLine`, `isEmpty`, `getLines`,
  `getMap`, `off.firstNonspace/indentNonspace/lineEnd` — all of which `Sim` relates — so every case is
  an unfolding of the kind done in `Props/Block.lean`; it is not done.  The list relation (D as
  continuation blocks of a loose item) is the same with `item_view` / `get_lines_item` and a line-index
  offset.  Until then the composition is covered by the implementation-side oracle `c06`.
-/

end MdIt.Block
