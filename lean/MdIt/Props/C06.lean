/-
  C06 — Container prefixing changes neither interpretation nor source mapping.

  "Prefixing every line of a tab-free document D with '> ' renders exactly as a blockquote element
   wrapped around the rendering of D, and placing D as continuation blocks of a loose list item (each
   line indented by the marker width) renders exactly as the list wrapper around the rendering of D.
   Under the block-quote transformation the tree below the quote is the tree of D with every source
   range shifted by exactly the inserted prefix bytes."

  Mechanism proved here, on the block-parser model `MdIt.Model.Block` (for ALL lines / texts):

    entries     `quote_view` (+ `quote_view_shift`): the table entry of `"> " ++ l` after the block-quote
                rule's rewriting (`bqRewrite`) has the indent of `l`, the text of `l`, and
                `first_nonspace`, `line_end` moved by exactly the prefix bytes;
                `item_view`: the same for `l` indented by the marker width under `blk_indent = w`
    content     `calcRight_spaces`, `viewPiece_prefix`, `viewPiece_item`, `get_lines_quote`,
                `get_lines_item`: `get_lines` returns the same content for D's lines and for the
                prefixed / indented lines (nothing of the prefix is copied, no tab is split)
    look-ahead  `hr_silent_view`, `heading_silent_view`, `fence_silent_view`,
                `blockquote_silent_view`, `list_silent_view`: in silent mode every rule's verdict is a
                function of the `blk_indent`-relative view `(line_indent, get_line)` of the current
                line; `testRules_same_view`: `test_rules_at_line` answers alike on states that show
                the same view (so paragraphs, setext headings, reference definitions, lists and
                quotes end at the same lines in D and in the prefixed document)
    simulation  `Sim L s s'` relates a state of the run on D (lines `L`) to a state of the run nested in
                the quote on the prefixed document (same `line`, `line_max`, `blk_indent`, `tight`,
                `list_indent`; entry `i` of `s'` = `shiftEntry i` of entry `i` of `s`; `level' = level + 1`;
                children related by `relocNodes (sigma L)`; equal reference maps).  Every rule in real
                mode preserves it: `hr_sim`, `heading_sim`, `code_sim`, `fence_sim`, `paragraph_sim`,
                `lheading_sim`, `reference_sim`, `blockquote_sim` (with `bqScan_sim`), `list_sim`
                (with `listItem_sim`, `listLoop_sim`), then `runChain_sim`, `tokLoop_sim`,
                `tokenize_sim` for every fuel
    whole doc   `quote_commutes`: for a tab-free D (< 2 GiB) and a chain with the block-quote rule behind
                code/fence/hr/list/reference/heading only, `parseBlocks cfg D = ok (root, refs)` implies
                that, with one more level of nesting allowed, `prefixQuote D` parses to a root with one
                child, a block quote over all lines, whose children are `relocNodes sigma root.children`,
                with the same reference map; `sigma_spec`: byte `x` of line `i` ↦ byte `2 + x` of line `i`
                of the prefixed document.  Examples below it instantiate it (stock chain, a 16-line
                document in which all nine rules fire) and show that each hypothesis is needed
                (nesting limit, chain order, tabs).
  together with `Props/Block.lean`: `tokenize_progress` (the nested tokenizer hands the table back as
  it found it), `bqScan_spec` (the quote restores every entry it rewrote), `tokenize_mono` (more fuel
  does not change a result), `tokenize_exit`.
  OPEN (end of file): the list half at whole-document level (`item_commutes`), with what is proved
  towards it and what is missing.
-/
import MdIt.Props.Block
set_option linter.unusedSimpArgs false

namespace MdIt.Block
open MdIt.Lines (LineOffset NoTerm AllBlank lead mkOff)

/-! ## tab-free blank runs -/

/-- a run of U+0020 only -/
def Spaces (w : List Char) : Prop := ∀ c ∈ w, c = ' '

theorem Spaces.allBlank {w : List Char} (h : Spaces w) : AllBlank w := fun c hc => .inl (h c hc)

theorem Spaces.tail {c : Char} {w : List Char} (h : Spaces (c :: w)) : Spaces w :=
  fun d hd => h d (List.mem_cons_of_mem _ hd)

theorem Spaces.append {a b : List Char} (ha : Spaces a) (hb : Spaces b) : Spaces (a ++ b) := by
  intro c hc
  rcases List.mem_append.mp hc with h | h
  · exact ha c h
  · exact hb c h

theorem spaces_replicate (n : Nat) : Spaces (List.replicate n ' ') := by
  intro c hc; exact (List.mem_replicate.mp hc).2

/-- the leading blank run of a tab-free line consists of spaces -/
theorem lead_spaces {l : List Char} (h : '\t' ∉ l) : Spaces (lead l) := by
  intro c hc
  have hb := Lines.lead_allBlank l c hc
  rcases hb with rfl | rfl
  · rfl
  · exact absurd ((List.takeWhile_sublist _).subset hc) h

/-- without tabs every character is one column -/
theorem widthFrom_tabfree : ∀ (w : List Char) (col : Nat), '\t' ∉ w → Lines.widthFrom col w = col + w.length
  | [], col, _ => by simp [Lines.widthFrom]
  | c :: r, col, h => by
    have hc : c ≠ '\t' := fun e => h (by simp [e])
    have hr : '\t' ∉ r := fun e => h (List.mem_cons_of_mem _ e)
    have := widthFrom_tabfree r (col + 1) hr
    simp only [Lines.widthFrom, List.foldl_cons, Lines.colStep, if_neg hc, List.length_cons] at this ⊢
    omega

theorem indentWidth_tabfree (w : List Char) (h : '\t' ∉ w) : Lines.indentWidth w = w.length := by
  simpa [Lines.indentWidth] using widthFrom_tabfree w 0 h

/-- `find_indent_of` in a tab-free prefix: the indent is the number of blanks skipped -/
theorem findIndent_tabfree (p run rest : List Char) (hp : '\t' ∉ p) (hrun : Spaces run)
    (hrest : ∀ c r, rest = c :: r → ¬ (c = ' ' ∨ c = '\t')) :
    Lines.findIndentOf (p ++ run ++ rest) (Lines.byteLen p) = .ok (run.length, Lines.byteLen p + run.length) := by
  rw [Lines.find_indent_spec p run rest hrun.allBlank hrest]
  have h1 : '\t' ∉ p ++ run := by
    intro hc
    rcases List.mem_append.mp hc with h | h
    · exact hp h
    · have := hrun _ h; cases this
  rw [indentWidth_tabfree _ h1, indentWidth_tabfree _ hp]
  simp

/-! ## `quote_view` -/

theorem lead_cons_nonblank {c : Char} (l : List Char) (hc : Lines.isBlank c = false) : lead (c :: l) = [] := by
  simp [lead, List.takeWhile, hc]

/-- **`quote_view`.**  Let `l` be a tab-free, terminator-free line and let `"> " ++ l` sit in a source
    at byte `|P|`; `o` is the entry `generate_caches` makes for it.  The block-quote rule's rewriting
    (`bqRewrite`: `find_indent_of` from behind the `>`, minus the one optional space) yields the entry

        line_start = |P|, line_end = |P| + 2 + |l|, first_nonspace = |P| + 2 + #blanks(l),
        indent_nonspace = #blanks(l)

    i.e. — compared with the entry `mkOff p₀ (l, _)` of `l` itself at byte `p₀` of another text —
    the same indent, and `first_nonspace`, `line_end` moved by exactly `|P| + 2 − p₀` (the inserted
    prefix bytes up to and including this line's); `last_line_empty` iff `l` is blank. -/
theorem quote_view (P l Q t : List Char) (htab : '\t' ∉ l) :
    bqRewrite (P ++ ('>' :: ' ' :: l) ++ Q) (mkOff (Lines.byteLen P) ('>' :: ' ' :: l, t)) (' ' :: l)
      = .ok (⟨Lines.byteLen P, Lines.byteLen P + 2 + Lines.byteLen l,
               Lines.byteLen P + 2 + (lead l).length, ((lead l).length : Int)⟩,
             (lead l).length == Lines.byteLen l) := by
  have hlead : lead ('>' :: ' ' :: l) = [] := lead_cons_nonblank _ (by decide)
  have hsp := lead_spaces htab
  have hbl : Lines.byteLen ('>' :: ' ' :: l) = 2 + Lines.byteLen l := by
    simp [show '>'.utf8Size = 1 by decide, show ' '.utf8Size = 1 by decide]; omega
  have hsl : Lines.slice (P ++ ('>' :: ' ' :: l) ++ Q) (Lines.byteLen P)
      (Lines.byteLen P + Lines.byteLen ('>' :: ' ' :: l)) = .ok ('>' :: ' ' :: l) := Lines.slice_append _ _ _
  -- the text behind `>`: one space, the blanks of `l`, the rest of `l`
  have hfi := findIndent_tabfree ['>'] (' ' :: lead l) (l.dropWhile Lines.isBlank) (by decide)
    (by intro c hc; simp at hc; rcases hc with rfl | hc; rfl; exact hsp c hc)
    (by
      intro c r h hc
      have := Lines.head_dropWhile h
      rw [Lines.isBlank_iff.mpr hc] at this
      cases this)
  have hline : ['>'] ++ ' ' :: lead l ++ l.dropWhile Lines.isBlank = '>' :: ' ' :: l := by
    simp [Lines.lead_append_rest l]
  rw [hline] at hfi
  simp only [show Lines.byteLen ['>'] = 1 by decide, List.length_cons] at hfi
  unfold bqRewrite
  simp only [mkOff, hlead, List.length_nil, Nat.add_zero, hsl, liftL, ok_bind, psub,
    show Lines.byteLen P ≤ Lines.byteLen P + 1 by omega, if_true,
    show Lines.byteLen P + 1 - Lines.byteLen P = 1 by omega, hfi,
    show Lines.byteLen P ≤ Lines.byteLen P + Lines.byteLen ('>' :: ' ' :: l) by omega,
    bqOptSpace, show isBlank ' ' = true by decide, pure, Except.pure,
    show (1 : Nat) ≤ (lead l).length + 1 by omega]
  simp only [bind, Except.bind, hbl]
  have e1 : Lines.byteLen P + (2 + Lines.byteLen l) = Lines.byteLen P + 2 + Lines.byteLen l := by omega
  have e2 : 1 + ((lead l).length + 1) + Lines.byteLen P = Lines.byteLen P + 2 + (lead l).length := by omega
  have e3 : (lead l).length + 1 - 1 = (lead l).length := by omega
  have e4 : (1 + ((lead l).length + 1) == Lines.byteLen P + 2 + Lines.byteLen l - Lines.byteLen P)
      = ((lead l).length == Lines.byteLen l) := by
    rw [show Lines.byteLen P + 2 + Lines.byteLen l - Lines.byteLen P = 2 + Lines.byteLen l by omega]
    apply Bool.eq_iff_iff.mpr
    simp only [beq_iff_eq]
    omega
  rw [e1, e2, e3, e4]

/-- the entry `quote_view` computes -/
def quoteEntry (P l : List Char) : LineOffset :=
  ⟨Lines.byteLen P, Lines.byteLen P + 2 + Lines.byteLen l, Lines.byteLen P + 2 + (lead l).length,
   ((lead l).length : Int)⟩

/-- …presents the view of `l`: the same text, the same indent, every byte position of the fresh entry
    `mkOff p₀ (l, _)` of `l` moved by `|P| + 2 − p₀`; the blanks in front of the text are the blanks
    of `l` behind the prefix `"> "` -/
theorem quote_view_shift (P l Q t' : List Char) (p0 : Nat) (htab : '\t' ∉ l) :
    (quoteEntry P l).firstNonspace + p0 = (mkOff p0 (l, t')).firstNonspace + (Lines.byteLen P + 2) ∧
    (quoteEntry P l).lineEnd + p0 = (mkOff p0 (l, t')).lineEnd + (Lines.byteLen P + 2) ∧
    (quoteEntry P l).indentNonspace = (mkOff p0 (l, t')).indentNonspace ∧
    Lines.lineText (P ++ ('>' :: ' ' :: l) ++ Q) (quoteEntry P l) = .ok (l.dropWhile Lines.isBlank) ∧
    Lines.lineWs (P ++ ('>' :: ' ' :: l) ++ Q) (quoteEntry P l) = .ok ('>' :: ' ' :: lead l) := by
  have hw : Lines.indentWidth (lead l) = (lead l).length :=
    indentWidth_tabfree _ (fun h => htab ((List.takeWhile_sublist _).subset h))
  have hl := Lines.lead_append_rest l
  have hbl := congrArg Lines.byteLen hl
  simp only [Lines.byteLen_append, Lines.byteLen_lead] at hbl
  refine ⟨by simp [quoteEntry, mkOff]; omega, by simp [quoteEntry, mkOff]; omega,
    by simp [quoteEntry, mkOff, hw], ?_, ?_⟩
  · refine Lines.slice_eq_ok_iff.mpr ⟨P ++ '>' :: ' ' :: lead l, Q, ?_, ?_, ?_⟩
    · conv => lhs; rw [← hl]
      simp [List.append_assoc]
    · simp [quoteEntry, Lines.byteLen_lead, show '>'.utf8Size = 1 by decide, show ' '.utf8Size = 1 by decide]
      omega
    · simp [quoteEntry]; omega
  · refine Lines.slice_eq_ok_iff.mpr ⟨P, l.dropWhile Lines.isBlank ++ Q, ?_, rfl, ?_⟩
    · conv => lhs; rw [← hl]
      simp [List.append_assoc]
    · simp [quoteEntry, Lines.byteLen_lead, show '>'.utf8Size = 1 by decide, show ' '.utf8Size = 1 by decide]
      omega

/-- `"> "` + three spaces + `é`, at byte 5 of a text: indent 3, text at byte 10, line end at byte 12 -/
example : bqRewrite (['x', 'y', 'z', 'w', '\n'] ++ ('>' :: ' ' :: [' ', ' ', ' ', 'é']) ++ ['\n'])
    (mkOff 5 ('>' :: ' ' :: [' ', ' ', ' ', 'é'], ['\n'])) (' ' :: [' ', ' ', ' ', 'é'])
    = .ok (⟨5, 12, 10, 3⟩, false) := by decide +kernel
/-- the hypothesis is needed: with a tab behind the prefix the indent is 2, not 4 (the tab stop is
    counted from the start of the line, `>` included) -/
example : bqRewrite ('>' :: ' ' :: ['\t', 'a']) (mkOff 0 ('>' :: ' ' :: ['\t', 'a'], [])) (' ' :: ['\t', 'a'])
    = .ok (⟨0, 4, 3, 2⟩, false) := by decide +kernel
example : (mkOff 0 (['\t', 'a'], [])).indentNonspace = 4 := by decide +kernel

/-! ## `item_view` -/

theorem dropWhile_replicate_append (w : Nat) (l : List Char) :
    (List.replicate w ' ' ++ l).dropWhile Lines.isBlank = l.dropWhile Lines.isBlank := by
  induction w with
  | zero => simp
  | succ n ih =>
    simp only [List.replicate_succ, List.cons_append]
    rw [List.dropWhile_cons_of_pos (by decide)]
    exact ih

theorem lead_replicate_append (w : Nat) (l : List Char) :
    lead (List.replicate w ' ' ++ l) = List.replicate w ' ' ++ lead l := by
  induction w with
  | zero => simp
  | succ n ih =>
    simp only [List.replicate_succ, List.cons_append, lead] at ih ⊢
    rw [List.takeWhile_cons_of_pos (by decide), ih]

/-- **`item_view`.**  A tab-free line `l` indented by the marker width `w` (a continuation line of a
    list item; the list rule does not rewrite it, it sets `blk_indent = w`): its fresh entry has
    `indent_nonspace − w = indent(l)` — `line_indent` subtracts `blk_indent` — the same text, and
    every byte position of the fresh entry of `l` moved by `|P| + w − p₀`. -/
theorem item_view (P l Q t t' : List Char) (w p0 : Nat) (htab : '\t' ∉ l) :
    let o := mkOff (Lines.byteLen P) (List.replicate w ' ' ++ l, t)
    o.firstNonspace + p0 = (mkOff p0 (l, t')).firstNonspace + (Lines.byteLen P + w) ∧
    o.lineEnd + p0 = (mkOff p0 (l, t')).lineEnd + (Lines.byteLen P + w) ∧
    o.indentNonspace - (w : Int) = (mkOff p0 (l, t')).indentNonspace ∧
    Lines.lineText (P ++ (List.replicate w ' ' ++ l) ++ Q) o = .ok (l.dropWhile Lines.isBlank) ∧
    Lines.lineWs (P ++ (List.replicate w ' ' ++ l) ++ Q) o = .ok (List.replicate w ' ' ++ lead l) := by
  intro o
  have hw : Lines.indentWidth (lead l) = (lead l).length :=
    indentWidth_tabfree _ (fun h => htab ((List.takeWhile_sublist _).subset h))
  have hw2 : Lines.indentWidth (List.replicate w ' ' ++ lead l) = w + (lead l).length := by
    rw [indentWidth_tabfree]
    · simp
    · intro h
      rcases List.mem_append.mp h with h | h
      · have := (List.mem_replicate.mp h).2; cases this
      · exact htab ((List.takeWhile_sublist _).subset h)
  have hv := Lines.mkOff_view P (List.replicate w ' ' ++ l) Q t
  simp only [Lines.view, Prod.mk.injEq] at hv
  have hdrop := dropWhile_replicate_append w l
  refine ⟨?_, ?_, ?_, ?_, ?_⟩
  · simp [o, mkOff, lead_replicate_append]; omega
  · simp [o, mkOff, Lines.byteLen_replicate_space]; omega
  · simp [o, mkOff, lead_replicate_append, hw2, hw]; omega
  · rw [← hdrop]; exact hv.2.1
  · rw [← lead_replicate_append]; exact hv.1

/-- two spaces + `" b"` at byte 4: indent 3 − 2 = 1, text at byte 7 -/
example : mkOff 4 (List.replicate 2 ' ' ++ [' ', 'b'], []) = ⟨4, 8, 7, 3⟩ := by decide +kernel

/-! ## `get_lines` under the two rewritings: the content of `D`'s lines is reproduced -/

theorem Spaces.byteLen {w : List Char} (h : Spaces w) : Lines.byteLen w = w.length := h.allBlank.byteLen

theorem Spaces.tabfree {w : List Char} (h : Spaces w) : '\t' ∉ w := fun hc => by cases h _ hc

/-- asking for `k ≤ |w|` columns of `a ++ w`, `w` spaces only: the cut falls `k` characters before
    the end, whatever `a` is (no tab of `a` is consulted, nothing is split) -/
theorem calcRight_spaces (a w : List Char) (hw : Spaces w) (k : Int) (hk : k ≤ w.length) :
    Lines.calcRightWs (a ++ w) k = (0, Lines.byteLen a + (w.length - k.toNat)) := by
  by_cases h0 : k ≤ 0
  · rw [Lines.cut_zero _ _ h0]
    have : k.toNat = 0 := by omega
    simp [hw.byteLen, this]
  · have hkn : k.toNat ≤ w.length := by omega
    have hsplit : w = w.take (w.length - k.toNat) ++ w.drop (w.length - k.toNat) := (List.take_append_drop _ _).symm
    have hw2 : Spaces (w.drop (w.length - k.toNat)) := fun c hc => hw c ((List.drop_sublist _ _).subset hc)
    have hw1 : Spaces (w.take (w.length - k.toNat)) := fun c hc => hw c ((List.take_sublist _ _).subset hc)
    have hcut := Lines.cut_prefix (a ++ w.take (w.length - k.toNat)) (w.drop (w.length - k.toNat))
    rw [Lines.indentWidth_append, widthFrom_tabfree _ _ hw2.tabfree] at hcut
    have hlen : (w.drop (w.length - k.toNat)).length = k.toNat := by simp; omega
    rw [hlen] at hcut
    have e : (((Lines.indentWidth (a ++ w.take (w.length - k.toNat)) + k.toNat : Nat) : Int)
        - (Lines.indentWidth (a ++ w.take (w.length - k.toNat)) : Int)) = k := by omega
    rw [e, List.append_assoc, ← hsplit] at hcut
    rw [hcut]
    simp [hw1.byteLen]

theorem dropB_append_left (a w : List Char) (n : Nat) :
    Lines.dropB (a ++ w) (Lines.byteLen a + n) = Lines.dropB w n := by
  induction a with
  | nil => simp
  | cons c r ih =>
    have := Char.utf8Size_pos c
    simp only [List.cons_append, Lines.byteLen_cons, Lines.dropB]
    rw [if_neg (by omega), show c.utf8Size + Lines.byteLen r + n - c.utf8Size = Lines.byteLen r + n by omega]
    exact ih

/-- the piece `get_lines` copies for a line does not depend on what precedes the run of spaces in
    front of its text, as long as the request stays within that run: `"> " ++ w` (block quote) and
    `w` give the same piece -/
theorem viewPiece_prefix (a w t : List Char) (hw : Spaces w) (indent : Nat) (ind : Int)
    (hk : ind - Lines.usizeAsI32 indent ≤ w.length) :
    Lines.viewPiece indent (a ++ w, t, ind) = Lines.viewPiece indent (w, t, ind) := by
  have h1 := calcRight_spaces a w hw _ hk
  have h2 := calcRight_spaces [] w hw _ hk
  simp only [List.nil_append, Lines.byteLen_nil, Nat.zero_add] at h2
  simp only [Lines.viewPiece, h1, h2, dropB_append_left]

/-- the same when both the blanks and the request grow by `m` (list item: `m` spaces of marker
    width, `indent_nonspace` and the requested indent both `m` larger) -/
theorem viewPiece_item (m : Nat) (w t : List Char) (hw : Spaces w) (indent : Nat) (ind : Int)
    (hsmall : m + indent < 2147483648) (hk : ind - (indent : Int) ≤ w.length) :
    Lines.viewPiece (m + indent) (List.replicate m ' ' ++ w, t, ind + m) = Lines.viewPiece indent (w, t, ind) := by
  have e1 : Lines.usizeAsI32 (m + indent) = ((m + indent : Nat) : Int) := by
    simp [Lines.usizeAsI32]; omega
  have e2 : Lines.usizeAsI32 indent = (indent : Int) := by
    simp [Lines.usizeAsI32]; omega
  have hk1 : ind + (m : Int) - Lines.usizeAsI32 (m + indent) ≤ w.length := by rw [e1]; omega
  rw [viewPiece_prefix _ _ _ hw _ _ hk1]
  simp only [Lines.viewPiece, e1, e2]
  rw [show ind + (m : Int) - ((m + indent : Nat) : Int) = ind - (indent : Int) by omega]

/-- `get_lines` on two tables whose lines contribute the same pieces gives the same content -/
theorem get_lines_same_pieces (src₁ src₂ : List Char) (offs₁ offs₂ : List LineOffset)
    (b₁ b₂ indent₁ indent₂ : Nat) (keep : Bool) (vs₁ vs₂ : List (List Char × List Char × Int))
    (h₁ : ∀ j (h : j < vs₁.length), ∃ o, offs₁[b₁ + j]? = some o ∧ Lines.Shows src₁ o vs₁[j])
    (h₂ : ∀ j (h : j < vs₂.length), ∃ o, offs₂[b₂ + j]? = some o ∧ Lines.Shows src₂ o vs₂[j])
    (hp : vs₁.map (Lines.viewPiece indent₁) = vs₂.map (Lines.viewPiece indent₂)) :
    ∃ c m₁ m₂, Lines.getLines src₁ offs₁ b₁ (b₁ + vs₁.length) indent₁ keep = .ok (c, m₁) ∧
      Lines.getLines src₂ offs₂ b₂ (b₂ + vs₂.length) indent₂ keep = .ok (c, m₂) := by
  obtain ⟨m₁, e₁⟩ := Lines.get_lines_lf src₁ offs₁ b₁ indent₁ keep vs₁ h₁
  obtain ⟨m₂, e₂⟩ := Lines.get_lines_lf src₂ offs₂ b₂ indent₂ keep vs₂ h₂
  exact ⟨_, m₁, m₂, e₁, by rw [e₂, hp]⟩

/-- **block quote.**  If lines `b ..` of a table over `src₂` show, line by line, the view of the
    corresponding line of `src₁` with SOMETHING (`pre j`, e.g. `"> "`) in front of the blank run —
    same run of spaces, same text, same indent, as `quote_view` establishes — then every
    `get_lines` request that stays within the runs returns the same content on both. -/
theorem get_lines_quote (src₁ src₂ : List Char) (offs₁ offs₂ : List LineOffset) (b indent : Nat)
    (keep : Bool) (vs : List (List Char × List Char × Int)) (pre : Nat → List Char)
    (hsp : ∀ v ∈ vs, Spaces v.1 ∧ v.2.2 - Lines.usizeAsI32 indent ≤ v.1.length)
    (h₁ : ∀ j (h : j < vs.length), ∃ o, offs₁[b + j]? = some o ∧ Lines.Shows src₁ o vs[j])
    (h₂ : ∀ j (h : j < vs.length), ∃ o, offs₂[b + j]? = some o ∧
      Lines.Shows src₂ o (pre j ++ vs[j].1, vs[j].2.1, vs[j].2.2)) :
    ∃ c m₁ m₂, Lines.getLines src₁ offs₁ b (b + vs.length) indent keep = .ok (c, m₁) ∧
      Lines.getLines src₂ offs₂ b (b + vs.length) indent keep = .ok (c, m₂) := by
  let vs₂ := (List.range vs.length).map fun j => (pre j ++ (vs[j]?.getD ([], [], 0)).1,
    (vs[j]?.getD ([], [], 0)).2.1, (vs[j]?.getD ([], [], 0)).2.2)
  have hl : vs₂.length = vs.length := by simp [vs₂]
  have hget : ∀ j (h : j < vs.length), vs₂[j]'(by omega) = (pre j ++ vs[j].1, vs[j].2.1, vs[j].2.2) := by
    intro j h
    simp [vs₂, h]
  have := get_lines_same_pieces src₁ src₂ offs₁ offs₂ b b indent indent keep vs vs₂ h₁
    (by
      intro j h
      rw [hl] at h
      obtain ⟨o, ho, hs⟩ := h₂ j h
      exact ⟨o, ho, by rw [hget j h]; exact hs⟩)
    (by
      apply List.ext_getElem (by simp [hl])
      intro j hj1 hj2
      simp only [List.getElem_map]
      have hj : j < vs.length := by simpa using hj1
      rw [hget j hj]
      obtain ⟨h1, h2⟩ := hsp vs[j] (List.getElem_mem hj)
      exact (viewPiece_prefix (pre j) vs[j].1 vs[j].2.1 h1 indent vs[j].2.2 h2).symm)
  rw [hl] at this
  exact this

/-- **list item.**  The same for continuation lines of a list item: the lines of `src₂` (from
    `b₂` on) carry `m` more spaces in front, one `indent_nonspace` `m` larger, and are requested with
    an indent `m` larger (`blk_indent = m + …`). -/
theorem get_lines_item (src₁ src₂ : List Char) (offs₁ offs₂ : List LineOffset) (b₁ b₂ indent m : Nat)
    (keep : Bool) (vs : List (List Char × List Char × Int)) (hsmall : m + indent < 2147483648)
    (hsp : ∀ v ∈ vs, Spaces v.1 ∧ v.2.2 - (indent : Int) ≤ v.1.length)
    (h₁ : ∀ j (h : j < vs.length), ∃ o, offs₁[b₁ + j]? = some o ∧ Lines.Shows src₁ o vs[j])
    (h₂ : ∀ j (h : j < vs.length), ∃ o, offs₂[b₂ + j]? = some o ∧
      Lines.Shows src₂ o (List.replicate m ' ' ++ vs[j].1, vs[j].2.1, vs[j].2.2 + m)) :
    ∃ c m₁ m₂, Lines.getLines src₁ offs₁ b₁ (b₁ + vs.length) indent keep = .ok (c, m₁) ∧
      Lines.getLines src₂ offs₂ b₂ (b₂ + vs.length) (m + indent) keep = .ok (c, m₂) := by
  let vs₂ := vs.map fun v => (List.replicate m ' ' ++ v.1, v.2.1, v.2.2 + (m : Int))
  have hl : vs₂.length = vs.length := by simp [vs₂]
  have := get_lines_same_pieces src₁ src₂ offs₁ offs₂ b₁ b₂ indent (m + indent) keep vs vs₂ h₁
    (by
      intro j h
      rw [hl] at h
      obtain ⟨o, ho, hs⟩ := h₂ j h
      exact ⟨o, ho, by simpa [vs₂] using hs⟩)
    (by
      simp only [vs₂, List.map_map]
      apply List.map_congr_left
      intro v hv
      obtain ⟨h1, h2⟩ := hsp v hv
      exact (viewPiece_item m v.1 v.2.1 h1 indent v.2.2 hsmall h2).symm)
  rw [hl] at this
  exact this

/-- `"> a\n>   b"` against `"a\n  b"`: the table as the block-quote rule leaves it (`quote_view`) -/
example :
    Lines.getLines ['a', '\n', ' ', ' ', 'b'] (Lines.splitLines ['a', '\n', ' ', ' ', 'b']) 0 2 0 false
      = .ok (['a', '\n', ' ', ' ', 'b'], [(0, 0), (2, 2)]) ∧
    Lines.getLines ['>', ' ', 'a', '\n', '>', ' ', ' ', ' ', 'b'] [quoteEntry [] ['a'],
        quoteEntry ['>', ' ', 'a', '\n'] [' ', ' ', 'b']] 0 2 0 false
      = .ok (['a', '\n', ' ', ' ', 'b'], [(0, 2), (2, 6)]) := by decide +kernel

/-! ## the look-ahead reads the view of the current line only

  In silent mode the verdict of every rule is a function of `(line_indent(line), get_line(line))` —
  the `blk_indent`-relative view of the current line — and, for the list rule, of three more facts
  about the state (whether the current node is a list, `list_indent`, and the raw
  `indent_nonspace`/`blk_indent` comparison of the "special case").  Two states that agree on these
  answer alike (`testRules_same_view`): this is what makes the look-ahead inside a block quote or a
  list item agree with the look-ahead on the un-prefixed document. -/

/-- what the look-ahead reads: `line_indent`, and the text unless the indent is ≥ 4 -/
def lookView (s : BState) : Except Panic (Int × List Char) := do
  let ind ← s.lineIndent s.line
  if ind ≥ 4 then pure (ind, []) else do
  let line ← s.getLine s.line
  pure (ind, line)

def hrLook (ind : Int) (line : List Char) : Bool :=
  if ind ≥ 4 then false else
  match line with
  | [] => false
  | marker :: rest =>
    if ¬ (marker = '*' ∨ marker = '-' ∨ marker = '_') then false else
    match hrCount marker rest 1 with
    | none => false
    | some cnt => !decide (cnt < 3)

theorem hr_silent_view (s : BState) :
    hrRule s true = (lookView s).map fun v => (hrLook v.1 v.2, s) := by
  unfold hrRule lookView
  cases h1 : s.lineIndent s.line with
  | error e => rfl
  | ok ind =>
    by_cases h4 : ind ≥ 4
    · simp [h4, hrLook, Functor.map, Except.map, pure, Except.pure]
    · cases h2 : s.getLine s.line with
      | error e => simp [h4, Functor.map, Except.map]; rfl
      | ok line =>
        simp only [ok_bind, h4, if_false]
        cases line with
        | nil => simp [hrLook, h4, Functor.map, Except.map, pure, Except.pure]
        | cons m rest =>
          simp only [hrLook, h4, if_false, Functor.map, Except.map, pure, Except.pure, ok_bind]
          split
          · rfl
          · split <;> simp_all
            split <;> simp_all

def headingLook (ind : Int) (line : List Char) : Bool :=
  if ind ≥ 4 then false else
  if line.head? ≠ some '#' then false else (atxOpen line 0).isSome

theorem heading_silent_view (s : BState) :
    headingRule s true = (lookView s).map fun v => (headingLook v.1 v.2, s) := by
  unfold headingRule lookView
  cases h1 : s.lineIndent s.line with
  | error e => rfl
  | ok ind =>
    by_cases h4 : ind ≥ 4
    · simp [h4, headingLook, Functor.map, Except.map, pure, Except.pure]
    · cases h2 : s.getLine s.line with
      | error e => simp [h4, Functor.map, Except.map]; rfl
      | ok line =>
        simp only [ok_bind, h4, if_false, headingLook, Functor.map, Except.map, pure, Except.pure]
        split
        · rfl
        · split <;> simp_all

def bqLook (ind : Int) (line : List Char) : Bool :=
  if ind ≥ 4 then false else
  if line.head? ≠ some '>' then false else true

theorem blockquote_silent_view (tok : Tok) (test : Test) (fuel : Nat) (s : BState) :
    blockquoteRule tok test fuel s true = (lookView s).map fun v => (bqLook v.1 v.2, s) := by
  unfold blockquoteRule lookView
  cases h1 : s.lineIndent s.line with
  | error e => rfl
  | ok ind =>
    by_cases h4 : ind ≥ 4
    · simp [h4, bqLook, Functor.map, Except.map, pure, Except.pure]
    · cases h2 : s.getLine s.line with
      | error e => simp [h4, Functor.map, Except.map]; rfl
      | ok line =>
        simp only [ok_bind, h4, if_false, bqLook, Functor.map, Except.map, pure, Except.pure]
        split <;> simp_all

/-- the fence rule's `&line[len..]` is a partial operation in the model: the look is `Except` -/
def fenceLook (ind : Int) (line : List Char) : Except Panic Bool :=
  if ind ≥ 4 then pure false else
  match line with
  | [] => pure false
  | marker :: rest =>
    if ¬ (marker = '~' ∨ marker = '`') then pure false else
    if 1 + countRun marker rest < 3 then pure false else do
    let params ← liftL (Lines.slice line (1 + countRun marker rest) (Lines.byteLen line))
    if marker = '`' ∧ params.contains marker then pure false else pure true

theorem fence_silent_view (s : BState) :
    fenceRule s true = (lookView s).bind fun v => (fenceLook v.1 v.2).map fun b => (b, s) := by
  unfold fenceRule lookView
  cases h1 : s.lineIndent s.line with
  | error e => rfl
  | ok ind =>
    by_cases h4 : ind ≥ 4
    · simp [h4, fenceLook, Functor.map, Except.map, pure, Except.pure, Except.bind]
    · cases h2 : s.getLine s.line with
      | error e => simp [h4, Functor.map, Except.map, Except.bind]; rfl
      | ok line =>
        simp only [ok_bind, h4, if_false, fenceLook, pure, Except.pure, Except.bind]
        cases line with
        | nil => rfl
        | cons m rest =>
          simp only []
          split
          · rfl
          · split
            · rfl
            · cases h3 : liftL (Lines.slice (m :: rest) (1 + countRun m rest) (Lines.byteLen (m :: rest))) with
              | error e => rfl
              | ok params =>
                simp only [ok_bind, Functor.map, Except.map]
                split <;> rfl

/-- `skipOrdered` / `skipBullet`, the marker value, the two extra conditions of the silent mode -/
def listLook (ind : Int) (cur : List Char) : Except Panic Bool := do
  let detected ← detectMarker cur
  match detected with
  | none => pure false
  | some (posAfterMarker, markerValue) =>
    let isTerm : Bool := decide (ind ≥ 0)
    let badStart : Bool := isTerm && (match markerValue with | some v => v != 1 | none => false)
    if badStart then pure false else do
    let emptyItem ← emptyItemCheck isTerm cur posAfterMarker
    if emptyItem then pure false else pure true

theorem list_silent_view (tok : Tok) (test : Test) (fuel : Nat) (s : BState) :
    listRule tok test fuel s true =
      (if isListKind s.nodeKind then .ok (false, s) else do
        let ind ← s.lineIndent s.line
        if ind ≥ 4 then pure (false, s) else do
        let special ← listSpecial s
        if special then pure (false, s) else do
        let cur ← s.getLine s.line
        Except.map (fun b => (b, s)) (listLook ind cur)) := by
  unfold listRule
  by_cases hk : isListKind s.nodeKind = true
  · simp [hk]; rfl
  · simp only [hk, Bool.false_eq_true, and_false, if_false, true_and, Bool.true_and]
    cases h1 : s.lineIndent s.line with
    | error e => rfl
    | ok ind =>
      simp only [ok_bind]
      split
      · rfl
      · cases h2 : listSpecial s with
        | error e => rfl
        | ok sp =>
          simp only [ok_bind]
          split
          · rfl
          · cases h3 : s.getLine s.line with
            | error e => rfl
            | ok cur =>
              simp only [ok_bind, listLook]
              cases h5 : detectMarker cur with
              | error e => rfl
              | ok det =>
                simp only [ok_bind]
                cases det with
                | none => rfl
                | some pm =>
                  obtain ⟨p, mv⟩ := pm
                  cases mv with
                  | none =>
                    simp only [Functor.map, Except.map, pure, Except.pure, if_true, Bool.and_false,
                      Bool.false_eq_true, if_false]
                    cases h6 : emptyItemCheck (decide (ind ≥ 0)) cur p with
                    | error e => rfl
                    | ok ei => cases ei <;> rfl
                  | some v =>
                    simp only [Functor.map, Except.map, pure, Except.pure, if_true]
                    by_cases hb : (decide (ind ≥ 0) && v != 1) = true
                    · simp only [hb, if_true]
                    · simp only [hb, if_false]
                      cases h6 : emptyItemCheck (decide (ind ≥ 0)) cur p with
                      | error e => rfl
                      | ok ei => cases ei <;> rfl

/-- the two states agree on everything the look-ahead reads -/
structure SameLook (s s' : BState) : Prop where
  indent : s'.lineIndent s'.line = s.lineIndent s.line
  text : s'.getLine s'.line = s.getLine s.line
  isList : isListKind s'.nodeKind = isListKind s.nodeKind
  special : listSpecial s' = listSpecial s

theorem SameLook.view {s s' : BState} (h : SameLook s s') : lookView s' = lookView s := by
  unfold lookView
  rw [h.indent, h.text]

/-- verdict of a result -/
abbrev verdict (r : Res) : Except Panic Bool := Except.map Prod.fst r

theorem verdict_map {α : Type} (x : Except Panic α) (f : α → Bool) (s : BState) :
    verdict (x.map fun v => (f v, s)) = x.map f := by
  cases x <;> rfl

theorem silent_same_view_rule {cfg cfg' : Cfg} {tok tok' : Tok} {test test' : Test} {fuel fuel' : Nat}
    {s s' : BState} (h : SameLook s s') (r : RuleId) :
    verdict (runRule cfg' tok' test' fuel' r s' true) = verdict (runRule cfg tok test fuel r s true) := by
  cases r <;> simp only [runRule]
  · rfl
  · rw [fence_silent_view, fence_silent_view, h.view]
    cases lookView s with
    | error e => rfl
    | ok v =>
      simp only [Except.bind]
      cases fenceLook v.1 v.2 <;> rfl
  · rw [blockquote_silent_view, blockquote_silent_view, h.view]
    exact (verdict_map _ _ _).trans (verdict_map _ _ _).symm
  · rw [hr_silent_view, hr_silent_view, h.view]
    exact (verdict_map _ _ _).trans (verdict_map _ _ _).symm
  · rw [list_silent_view, list_silent_view, h.isList, h.indent, h.special, h.text]
    split
    · rfl
    · cases s.lineIndent s.line with
      | error e => rfl
      | ok ind =>
        simp only [ok_bind]
        split
        · rfl
        · cases listSpecial s with
          | error e => rfl
          | ok sp =>
            simp only [ok_bind]
            split
            · rfl
            · cases s.getLine s.line with
              | error e => rfl
              | ok cur =>
                simp only [ok_bind]
                cases listLook ind cur <;> rfl
  · rfl
  · rw [heading_silent_view, heading_silent_view, h.view]
    exact (verdict_map _ _ _).trans (verdict_map _ _ _).symm
  · rfl
  · rfl

theorem runChain_same_view {run run' : RuleId → BState → Bool → Res}
    (hpure : ∀ r s b s', run r s true = .ok (b, s') → s' = s)
    (hpure' : ∀ r s b s', run' r s true = .ok (b, s') → s' = s) {s s' : BState}
    (hrun : ∀ r, verdict (run' r s' true) = verdict (run r s true)) :
    ∀ chain : List RuleId, verdict (runChain run' chain s' true) = verdict (runChain run chain s true) := by
  intro chain
  induction chain with
  | nil => rfl
  | cons r rs ih =>
    simp only [runChain]
    have := hrun r
    cases h1 : run r s true with
    | error e =>
      rw [h1] at this
      cases h2 : run' r s' true with
      | error e' => rw [h2] at this; simp [verdict, Except.map] at this ⊢; exact this
      | ok v => rw [h2] at this; simp [verdict, Except.map] at this
    | ok v =>
      obtain ⟨b, s1⟩ := v
      have e1 := hpure _ _ _ _ h1
      subst e1
      rw [h1] at this
      cases h2 : run' r s' true with
      | error e' => rw [h2] at this; simp [verdict, Except.map] at this
      | ok v' =>
        obtain ⟨b', s1'⟩ := v'
        have e2 := hpure' _ _ _ _ h2
        subst e2
        rw [h2] at this
        simp [verdict, Except.map] at this
        subst this
        cases b' with
        | true => rfl
        | false => exact ih

/-- **`testRules_same_view`**: the look-ahead (`test_rules_at_line`, over the same chain; the other
    parameters may differ) answers alike on two states that
    show the same view of the current line — e.g. a line of `D` in a fresh state and the same line
    behind `"> "` inside the block quote (`quote_view`), or indented under a list item (`item_view`). -/
theorem testRules_same_view (cfg cfg' : Cfg) (hchain : cfg'.chain = cfg.chain) (fuel : Nat) {s s' : BState}
    (h : SameLook s s') : verdict (testRules cfg' fuel s') = verdict (testRules cfg fuel s) := by
  cases fuel with
  | zero => rfl
  | succ f =>
    simp only [testRules, engine, hchain]
    exact runChain_same_view (fun r s b s' h => silent_pure_rule h) (fun r s b s' h => silent_pure_rule h)
      (fun r => silent_same_view_rule h r) _

/-! ## the block-quote congruence: a simulation between the run on `D` and the nested run on `"> "`-prefixed `D` -/

/-- the lines of a document with their terminators (`Lines.linesT`) -/
abbrev DLines := List (List Char × List Char)

/-- `"> "` in front of every line -/
def prefixLines (L : DLines) : DLines := L.map fun lt => ('>' :: ' ' :: lt.1, lt.2)

/-- byte offset at which line `i` starts -/
def startOf (L : DLines) (i : Nat) : Nat := Lines.byteLen (Lines.flat (L.take i))

theorem startOf_zero (L : DLines) : startOf L 0 = 0 := by simp [startOf]

theorem startOf_succ (L : DLines) (i : Nat) (h : i < L.length) :
    startOf L (i + 1) = startOf L i + Lines.byteLen L[i].1 + Lines.byteLen L[i].2 := by
  unfold startOf
  rw [List.take_add_one, List.getElem?_eq_getElem h]
  simp only [Option.toList_some, Lines.flat_append, Lines.flat_cons, Lines.flat_nil, Lines.byteLen_append,
    List.append_nil]
  omega

theorem prefixLines_length (L : DLines) : (prefixLines L).length = L.length := by simp [prefixLines]

theorem byteLen_gt_sp (l : List Char) : Lines.byteLen ('>' :: ' ' :: l) = 2 + Lines.byteLen l := by
  simp [show '>'.utf8Size = 1 by decide, show ' '.utf8Size = 1 by decide]; omega

theorem startOf_prefix (L : DLines) : ∀ i, i ≤ L.length → startOf (prefixLines L) i = startOf L i + 2 * i := by
  intro i
  induction i with
  | zero => intro _; simp [startOf_zero]
  | succ i ih =>
    intro h
    have hi : i < L.length := by omega
    rw [startOf_succ _ _ (by rw [prefixLines_length]; exact hi), startOf_succ _ _ hi, ih (by omega)]
    simp only [prefixLines, List.getElem_map, byteLen_gt_sp]
    omega

/-- the source splits at line `i` -/
theorem flat_split (L : DLines) (i : Nat) (h : i < L.length) :
    Lines.flat L = Lines.flat (L.take i) ++ L[i].1 ++ (L[i].2 ++ Lines.flat (L.drop (i + 1))) := by
  conv => lhs; rw [← List.take_append_drop i L]
  rw [List.drop_eq_getElem_cons h]
  simp only [Lines.flat_append, Lines.flat_cons, List.append_assoc]

/-- a slice inside line `i` -/
theorem slice_in_line (L : DLines) (i : Nat) (h : i < L.length) (a b c : List Char) (hl : L[i].1 = a ++ b ++ c) :
    Lines.slice (Lines.flat L) (startOf L i + Lines.byteLen a) (startOf L i + Lines.byteLen a + Lines.byteLen b)
      = .ok b := by
  refine Lines.slice_eq_ok_iff.mpr ⟨Lines.flat (L.take i) ++ a, c ++ (L[i].2 ++ Lines.flat (L.drop (i + 1))), ?_, ?_, rfl⟩
  · rw [flat_split L i h, hl]; simp [List.append_assoc]
  · simp [startOf]

/-- what the lines of a document (`Lines.linesT`) satisfy, plus tab-freeness -/
structure LinesOk (L : DLines) : Prop where
  noTerm : ∀ lt ∈ L, NoTerm lt.1
  tabfree : ∀ lt ∈ L, '\t' ∉ lt.1
  term : ∀ i (h : i + 1 < L.length), 1 ≤ Lines.byteLen (L[i]'(by omega)).2
  /-- the model's `i32` / `usize` casts are exact below 2³¹ bytes -/
  size : Lines.byteLen (Lines.flat L) + 8 < 2147483648

/-- where byte `p` of the document lands in the prefixed document: `2 (i + 1)` further, `i` the line
    it belongs to (a line owns the bytes from its start up to and including the position of its end) -/
def sigmaGo : DLines → Nat → Nat → Nat
  | [], _, p => p
  | lt :: r, start, p =>
    if p ≤ start + Lines.byteLen lt.1 then p + 2
    else 2 + sigmaGo r (start + Lines.byteLen lt.1 + Lines.byteLen lt.2) p

def sigma (L : DLines) (p : Nat) : Nat := sigmaGo L 0 p

theorem sigmaGo_in_line : ∀ (L : DLines) (start : Nat) (i : Nat) (h : i < L.length) (x : Nat),
    (∀ j (hj : j + 1 < L.length), 1 ≤ Lines.byteLen (L[j]'(by omega)).2) → x ≤ Lines.byteLen L[i].1 →
    sigmaGo L start (start + startOf L i + x) = start + startOf L i + 2 * i + 2 + x
  | [], _, i, h, _, _, _ => by simp at h
  | lt :: r, start, 0, _, x, _, hx => by
    simp only [sigmaGo, startOf_zero, List.getElem_cons_zero] at hx ⊢
    rw [if_pos (by omega)]
    omega
  | lt :: r, start, i + 1, h, x, ht, hx => by
    have hi : i < r.length := by simpa using h
    have h1 := ht 0 (by simp; omega)
    simp only [List.getElem_cons_zero] at h1
    have hs : startOf (lt :: r) (i + 1) = Lines.byteLen lt.1 + Lines.byteLen lt.2 + startOf r i := by
      simp [startOf, Lines.flat, Nat.add_assoc]
    simp only [sigmaGo, hs, List.getElem_cons_succ] at hx ⊢
    rw [if_neg (by omega)]
    have := sigmaGo_in_line r (start + Lines.byteLen lt.1 + Lines.byteLen lt.2) i hi x
      (fun j hj => by have := ht (j + 1) (by simp; omega); simpa using this) hx
    rw [show start + (Lines.byteLen lt.1 + Lines.byteLen lt.2 + startOf r i) + x
        = start + Lines.byteLen lt.1 + Lines.byteLen lt.2 + startOf r i + x by omega, this]
    omega

theorem sigma_in_line {L : DLines} (hL : LinesOk L) {i : Nat} (h : i < L.length) {x : Nat}
    (hx : x ≤ Lines.byteLen L[i].1) : sigma L (startOf L i + x) = startOf L i + 2 * i + 2 + x := by
  have := sigmaGo_in_line L 0 i h x hL.term hx
  simpa [sigma] using this

/-! ### entries and tables -/

/-- the entry of line `i` in the nested run on the prefixed document, from the entry `o` of the run
    on `D`: line `i` starts `2 i` bytes later, its text and its end `2 i + 2` bytes later -/
def shiftEntry (i : Nat) (o : LineOffset) : LineOffset :=
  ⟨o.lineStart + 2 * i, o.lineEnd + 2 * i + 2, o.firstNonspace + 2 * i + 2, o.indentNonspace⟩

/-- entry `i` of the run on `D` cuts line `i` into `a ++ b` at `first_nonspace`, and its indent does
    not exceed the number of characters in front of the cut -/
def EntryOk (L : DLines) (i : Nat) (o : LineOffset) : Prop :=
  ∃ l t a b, L[i]? = some (l, t) ∧ l = a ++ b ∧ o.lineStart = startOf L i ∧
    o.firstNonspace = startOf L i + Lines.byteLen a ∧
    o.lineEnd = startOf L i + Lines.byteLen a + Lines.byteLen b ∧ o.indentNonspace ≤ (a.length : Int)

/-- the two tables -/
structure QRel (L : DLines) (offs offs' : List LineOffset) : Prop where
  len : offs.length = L.length
  ok : ∀ (i : Nat) (o : LineOffset), offs[i]? = some o → EntryOk L i o
  shift : ∀ i : Nat, offs'[i]? = (offs[i]?).map (shiftEntry i)

theorem QRel.len' {L : DLines} {offs offs' : List LineOffset} (q : QRel L offs offs') : offs'.length = L.length := by
  have h1 := q.shift offs.length
  have h2 := q.shift (offs.length - 1)
  rw [← q.len]
  by_cases h : offs'.length ≤ offs.length
  · by_cases h0 : offs.length = 0
    · simp [h0] at h ⊢; exact h
    · have : offs.length - 1 < offs.length := by omega
      rw [List.getElem?_eq_getElem this] at h2
      simp at h2
      have := (List.getElem?_eq_some_iff.mp h2).1
      omega
  · have : offs.length < offs'.length := by omega
    rw [List.getElem?_eq_getElem this] at h1
    simp at h1

/-- the two states share a table relation: sources, tables, block indent -/
structure Tbl (L : DLines) (s s' : BState) : Prop where
  lines : LinesOk L
  src : s.src = Lines.flat L
  src' : s'.src = Lines.flat (prefixLines L)
  q : QRel L s.offs s'.offs
  blk : s'.blkIndent = s.blkIndent
  small : s.blkIndent ≤ Lines.byteLen (Lines.flat L) + 1

section accessors
variable {L : DLines} {s s' : BState}

theorem Tbl.off (T : Tbl L s s') (n : Nat) : s'.off n = Except.map (shiftEntry n) (s.off n) := by
  simp only [BState.off, T.q.shift n]
  cases s.offs[n]? <;> rfl

theorem Tbl.lineIndent (T : Tbl L s s') (n : Nat) : s'.lineIndent n = s.lineIndent n := by
  simp only [BState.lineIndent, Lines.lineIndent, T.q.shift n, T.blk]
  cases s.offs[n]? <;> rfl

theorem Tbl.isEmpty (T : Tbl L s s') (n : Nat) : s'.isEmpty n = s.isEmpty n := by
  simp only [BState.isEmpty, Lines.isEmpty, T.q.shift n]
  cases s.offs[n]? with
  | none => rfl
  | some o => simp [shiftEntry]

/-- the text of line `i` behind the cut, read from either source -/
theorem entry_text (_hL : LinesOk L) {i : Nat} {o : LineOffset} (h : EntryOk L i o) :
    ∃ b, Lines.slice (Lines.flat L) o.firstNonspace o.lineEnd = .ok b ∧
      Lines.slice (Lines.flat (prefixLines L)) (shiftEntry i o).firstNonspace (shiftEntry i o).lineEnd = .ok b := by
  obtain ⟨l, t, a, b, hi, hl, hs, hf, he, _⟩ := h
  have hlt : i < L.length := (List.getElem?_eq_some_iff.mp hi).1
  have hLi : L[i] = (l, t) := (List.getElem?_eq_some_iff.mp hi).2
  refine ⟨b, ?_, ?_⟩
  · rw [hf, he]
    exact slice_in_line L i hlt a b [] (by rw [hLi, hl]; simp)
  · have hlt' : i < (prefixLines L).length := by rw [prefixLines_length]; exact hlt
    have := slice_in_line (prefixLines L) i hlt' ('>' :: ' ' :: a) b []
      (by simp [prefixLines, hLi, hl])
    rw [startOf_prefix L i (by omega), byteLen_gt_sp] at this
    simp only [shiftEntry, hf, he]
    rw [← this]
    congr 1 <;> omega

theorem Tbl.getLine (T : Tbl L s s') (n : Nat) : s'.getLine n = s.getLine n := by
  simp only [BState.getLine, Lines.getLine, T.q.shift n, T.src, T.src']
  cases h : s.offs[n]? with
  | none => rfl
  | some o =>
    obtain ⟨b, h1, h2⟩ := entry_text T.lines (T.q.ok n o h)
    simp [h1, h2]
end accessors

/-- `calc_right_whitespace_with_tabstops` on a tab-free tail `w`: asking for `k ≤ |w|` columns cuts
    `k` characters before the end, whatever precedes `w` -/
theorem calcRight_tabfree (a w : List Char) (hw : '\t' ∉ w) (k : Int) (hk : k ≤ w.length) :
    Lines.calcRightWs (a ++ w) k = (0, Lines.byteLen a + Lines.byteLen (w.take (w.length - k.toNat))) := by
  by_cases h0 : k ≤ 0
  · rw [Lines.cut_zero _ _ h0]
    have : k.toNat = 0 := by omega
    simp [this]
  · have hkn : k.toNat ≤ w.length := by omega
    have hsplit : w = w.take (w.length - k.toNat) ++ w.drop (w.length - k.toNat) := (List.take_append_drop _ _).symm
    have hw2 : '\t' ∉ w.drop (w.length - k.toNat) := fun hc => hw ((List.drop_sublist _ _).subset hc)
    have hcut := Lines.cut_prefix (a ++ w.take (w.length - k.toNat)) (w.drop (w.length - k.toNat))
    rw [Lines.indentWidth_append, widthFrom_tabfree _ _ hw2] at hcut
    have hlen : (w.drop (w.length - k.toNat)).length = k.toNat := by simp; omega
    rw [hlen] at hcut
    have e : (((Lines.indentWidth (a ++ w.take (w.length - k.toNat)) + k.toNat : Nat) : Int)
        - (Lines.indentWidth (a ++ w.take (w.length - k.toNat)) : Int)) = k := by omega
    rw [e, List.append_assoc, ← hsplit] at hcut
    rw [hcut]
    simp

section accessors2
variable {L : DLines} {s s' : BState}

/-- a byte of line `i` (between the entry's `line_start` and `line_end`) moves by `2 i + 2` -/
theorem sigma_of_entry (hL : LinesOk L) {i : Nat} {o : LineOffset} (h : EntryOk L i o) {p : Nat}
    (h1 : o.lineStart ≤ p) (h2 : p ≤ o.lineEnd) : sigma L p = p + 2 * i + 2 := by
  obtain ⟨l, t, a, b, hi, hl, hs, hf, he, _⟩ := h
  have hlt : i < L.length := (List.getElem?_eq_some_iff.mp hi).1
  have hLi : L[i] = (l, t) := (List.getElem?_eq_some_iff.mp hi).2
  have hx : p - startOf L i ≤ Lines.byteLen L[i].1 := by
    rw [hLi, hl]; simp; omega
  have := sigma_in_line hL hlt hx
  rw [show startOf L i + (p - startOf L i) = p by omega] at this
  rw [this]; omega

theorem entry_bounds {i : Nat} {o : LineOffset} (h : EntryOk L i o) :
    o.lineStart ≤ o.firstNonspace ∧ o.firstNonspace ≤ o.lineEnd := by
  obtain ⟨l, t, a, b, hi, hl, hs, hf, he, _⟩ := h
  omega

/-- positions pair of a range -/
def sigma2 (L : DLines) (r : Nat × Nat) : Nat × Nat := (sigma L r.1, sigma L r.2)

theorem Tbl.getMap (T : Tbl L s s') (a b : Nat) :
    s'.getMap a b = Except.map (sigma2 L) (s.getMap a b) := by
  simp only [BState.getMap, Lines.getMap, T.q.shift a, T.q.shift b]
  split
  · rfl
  · cases ha : s.offs[a]? with
    | none => rfl
    | some oa =>
      cases hb : s.offs[b]? with
      | none => rfl
      | some ob =>
        have ea := T.q.ok a oa ha
        have eb := T.q.ok b ob hb
        have ba := entry_bounds ea
        have bb := entry_bounds eb
        simp only [Option.map_some, liftL, Except.map, sigma2, shiftEntry]
        rw [sigma_of_entry T.lines ea ba.1 ba.2, sigma_of_entry T.lines eb (by omega) (Nat.le_refl _)]
end accessors2

/-- the mapping `get_lines` returns, relocated -/
def mapSigma (L : DLines) (m : List (Nat × Nat)) : List (Nat × Nat) := m.map fun kv => (kv.1, sigma L kv.2)

section getlines
variable {L : DLines} {s s' : BState}

theorem getLinesGo_sim (T : Tbl L s s') (end_ indent : Nat) (keep : Bool)
    (hi : 0 ≤ Lines.usizeAsI32 indent) :
    ∀ (n line : Nat) (result : List Char) (m : List (Nat × Nat)), end_ - line = n →
      Lines.getLinesGo s'.src s'.offs end_ indent keep line result (mapSigma L m)
        = Except.map (fun r => (r.1, mapSigma L r.2))
            (Lines.getLinesGo s.src s.offs end_ indent keep line result m) := by
  intro n
  induction n with
  | zero =>
    intro line result m hn
    rw [Lines.getLinesGo, Lines.getLinesGo, if_neg (by omega), if_neg (by omega)]
    rfl
  | succ n ih =>
    intro line result m hn
    rw [Lines.getLinesGo, Lines.getLinesGo, if_pos (by omega), if_pos (by omega), T.q.shift line]
    cases ho : s.offs[line]? with
    | none => rfl
    | some o =>
      have eo := T.q.ok line o ho
      obtain ⟨l, t, a, b, hLi, hl, hs, hf, he, hind⟩ := eo
      have hlt : line < L.length := (List.getElem?_eq_some_iff.mp hLi).1
      have hLe : L[line] = (l, t) := (List.getElem?_eq_some_iff.mp hLi).2
      have hlt' : line < (prefixLines L).length := by rw [prefixLines_length]; exact hlt
      have hLe' : (prefixLines L)[line].1 = '>' :: ' ' :: (a ++ b) := by simp [prefixLines, hLe, hl]
      have htab : '\t' ∉ a := by
        intro hc
        exact T.lines.tabfree (l, t) (by rw [← hLe]; exact List.getElem_mem hlt) (by rw [hl]; simp [hc])
      have hst' := startOf_prefix L line (by omega)
      -- the blanks
      have hws : Lines.slice (Lines.flat L) o.lineStart o.firstNonspace = .ok a := by
        have := slice_in_line L line hlt [] a b (by rw [hLe, hl]; simp)
        simpa [hs, hf] using this
      have hws' : Lines.slice (Lines.flat (prefixLines L)) (shiftEntry line o).lineStart
          (shiftEntry line o).firstNonspace = .ok ('>' :: ' ' :: a) := by
        have := slice_in_line (prefixLines L) line hlt' [] ('>' :: ' ' :: a) b (by rw [hLe']; simp)
        rw [hst', byteLen_gt_sp] at this
        simp only [Lines.byteLen_nil, Nat.add_zero] at this
        simp only [shiftEntry, hs, hf]
        rw [← this]; congr 1; omega
      -- the cut
      have hk : o.indentNonspace - Lines.usizeAsI32 indent ≤ (a.length : Int) := by omega
      obtain ⟨j, hj⟩ : ∃ j, j = a.length - (o.indentNonspace - Lines.usizeAsI32 indent).toNat := ⟨_, rfl⟩
      have hc := calcRight_tabfree [] a htab _ hk
      have hc' := calcRight_tabfree ['>', ' '] a htab _ hk
      simp only [List.nil_append, Lines.byteLen_nil, Nat.zero_add, ← hj] at hc
      simp only [← hj, show Lines.byteLen ['>', ' '] = 2 by decide] at hc'
      have hsplit : a = a.take j ++ a.drop j := (List.take_append_drop _ _).symm
      -- the text copied
      have htx : Lines.slice (Lines.flat L) (o.lineStart + Lines.byteLen (a.take j)) o.lineEnd
          = .ok (a.drop j ++ b) := by
        have := slice_in_line L line hlt (a.take j) (a.drop j ++ b) []
          (by rw [hLe, hl]; simp [← List.append_assoc, ← hsplit])
        rw [← this, hs, he]
        have := congrArg Lines.byteLen hsplit
        simp only [Lines.byteLen_append] at this ⊢
        congr 1; omega
      have htx' : Lines.slice (Lines.flat (prefixLines L))
          ((shiftEntry line o).lineStart + (2 + Lines.byteLen (a.take j))) (shiftEntry line o).lineEnd
          = .ok (a.drop j ++ b) := by
        have := slice_in_line (prefixLines L) line hlt' ('>' :: ' ' :: a.take j) (a.drop j ++ b) []
          (by rw [hLe']; simp [← List.append_assoc, ← hsplit])
        rw [← this, hst', byteLen_gt_sp]
        simp only [shiftEntry, hs, he]
        have := congrArg Lines.byteLen hsplit
        simp only [Lines.byteLen_append] at this ⊢
        congr 1 <;> omega
      -- the mapping entry
      have hsig : sigma L (o.lineStart + Lines.byteLen (a.take j))
          = (shiftEntry line o).lineStart + (2 + Lines.byteLen (a.take j)) := by
        have hb : Lines.byteLen (a.take j) ≤ Lines.byteLen a := by
          have := congrArg Lines.byteLen hsplit
          simp only [Lines.byteLen_append] at this; omega
        rw [sigma_of_entry T.lines ⟨l, t, a, b, hLi, hl, hs, hf, he, hind⟩ (by omega) (by omega)]
        simp only [shiftEntry]; omega
      simp only [Option.map_some, T.src, T.src', hws, hws', List.cons_append, List.nil_append] at hc' ⊢
      have hind' : (shiftEntry line o).indentNonspace = o.indentNonspace := rfl
      simp only [hind', hc, hc', List.replicate_zero, List.append_nil, show ¬ (0 > 0) by omega, if_false, htx, htx']
      have := ih (line + 1)
        (if (decide (line + 1 < end_) || keep) = true then result ++ (a.drop j ++ b) ++ ['\n']
          else result ++ (a.drop j ++ b))
        (m ++ [(Lines.byteLen result, o.lineStart + Lines.byteLen (a.take j))]) (by omega)
      simp only [mapSigma, List.map_append, List.map_cons, List.map_nil, hsig, T.src, T.src'] at this ⊢
      exact this

theorem Tbl.getLines (T : Tbl L s s') (b e indent : Nat) (keep : Bool) (hi : 0 ≤ Lines.usizeAsI32 indent) :
    s'.getLines b e indent keep
      = Except.map (fun r => (r.1, mapSigma L r.2)) (s.getLines b e indent keep) := by
  simp only [BState.getLines, Lines.getLines]
  split
  · rfl
  · have := getLinesGo_sim T e indent keep hi (e - b) b [] [] rfl
    simp only [mapSigma, List.map_nil] at this
    rw [this]
    cases Lines.getLinesGo s.src s.offs e indent keep b [] [] with
    | error er => cases er <;> rfl
    | ok v => rfl
end getlines

/-! ### relocation of trees, the simulation relation -/

def relocKind (σ : Nat → Nat) : Kind → Kind
  | .inlineRoot c m => .inlineRoot c (m.map fun kv => (kv.1, σ kv.2))
  | k => k

mutual
/-- every range and every mapping target of the tree through `σ` -/
def relocNode (σ : Nat → Nat) : BNode → BNode
  | ⟨k, r, cs⟩ => ⟨relocKind σ k, r.map fun p => (σ p.1, σ p.2), relocNodes σ cs⟩
def relocNodes (σ : Nat → Nat) : List BNode → List BNode
  | [] => []
  | n :: r => relocNode σ n :: relocNodes σ r
end

theorem relocNodes_append (σ : Nat → Nat) (a b : List BNode) :
    relocNodes σ (a ++ b) = relocNodes σ a ++ relocNodes σ b := by
  induction a with
  | nil => rfl
  | cons n r ih => simp [relocNodes, ih]

theorem relocNodes_eq_map (σ : Nat → Nat) (cs : List BNode) : relocNodes σ cs = cs.map (relocNode σ) := by
  induction cs with
  | nil => rfl
  | cons n r ih => simp [relocNodes, ih]

theorem relocNode_kind (σ : Nat → Nat) (n : BNode) : (relocNode σ n).kind = relocKind σ n.kind := by
  cases n; rfl

/-- the kinds of the two current nodes: equal — or, at the top of the two runs, `Root` on the `D` side and
    the block quote on the other (no rule distinguishes the two) -/
def KindRel (k k' : Kind) : Prop := k' = k ∨ (k = .root ∧ k' = .blockquote)

theorem KindRel.isList {k k' : Kind} (h : KindRel k k') : isListKind k' = isListKind k := by
  rcases h with h | ⟨h1, h2⟩
  · rw [h]
  · rw [h1, h2]; rfl

theorem KindRel.eq_of_ne_root {k k' : Kind} (h : KindRel k k') (hk : k ≠ .root) : k' = k := by
  rcases h with h | ⟨h1, _⟩
  · exact h
  · exact absurd h1 hk

/-- the run on `D` (state `s`) and the nested run on the prefixed document (state `s'`) -/
structure Sim (L : DLines) (s s' : BState) : Prop where
  tbl : Tbl L s s'
  line : s'.line = s.line
  lineMax : s'.lineMax = s.lineMax
  tight : s'.tight = s.tight
  listIndent : s'.listIndent = s.listIndent
  level : s'.level = s.level + 1
  nodeKind : KindRel s.nodeKind s'.nodeKind
  children : s'.children = relocNodes (sigma L) s.children
  refs : s'.refs = s.refs

theorem usizeAsI32_small {n : Nat} (h : n < 2147483648) : Lines.usizeAsI32 n = (n : Int) := by
  simp [Lines.usizeAsI32]; omega

section simbasics
variable {L : DLines} {s s' : BState}

theorem Tbl.indent_ok (T : Tbl L s s') (d : Nat) (hd : d ≤ 4) : 0 ≤ Lines.usizeAsI32 (d + s.blkIndent) := by
  have := T.small
  have := T.lines.size
  rw [usizeAsI32_small (by omega)]
  omega

/-- a table relation does not depend on the other fields -/
theorem Tbl.of_eq {t t' : BState} (T : Tbl L s s') (h1 : t.src = s.src) (h2 : t.offs = s.offs)
    (h3 : t.blkIndent = s.blkIndent) (h1' : t'.src = s'.src) (h2' : t'.offs = s'.offs)
    (h3' : t'.blkIndent = s'.blkIndent) : Tbl L t t' :=
  ⟨T.lines, by rw [h1, T.src], by rw [h1', T.src'], by rw [h2, h2']; exact T.q, by rw [h3, h3', T.blk],
   by rw [h3]; exact T.small⟩

/-- pushing related nodes, moving `line` alike -/
theorem Sim.push_line (S : Sim L s s') (n : BNode) (l : Nat) :
    Sim L { s.push n with line := l } { s'.push (relocNode (sigma L) n) with line := l } :=
  ⟨S.tbl.of_eq rfl rfl rfl rfl rfl rfl, rfl, S.lineMax, S.tight, S.listIndent, S.level, S.nodeKind,
   by simp [BState.push, S.children, relocNodes_append, relocNodes], S.refs⟩
end simbasics

@[simp] theorem map_ok' {α β : Type} (f : α → β) (a : α) : Except.map f (Except.ok a : Except Panic α) = .ok (f a) := rfl

/-- close `Sim L t t'` where `t`, `t'` are `s`, `s'` with nodes pushed and `line` moved alike -/
syntax "sim_close " ident : tactic
macro_rules
| `(tactic| sim_close $S:ident) => `(tactic|
    (refine ⟨Tbl.of_eq (Sim.tbl $S) rfl rfl rfl rfl rfl rfl, ?_, ?_, ?_, ?_, ?_, ?_, ?_, ?_⟩ <;>
      simp [BState.push, Sim.line $S, Sim.lineMax $S, Sim.tight $S, Sim.listIndent $S, Sim.level $S,
        Sim.nodeKind $S, Sim.children $S, Sim.refs $S, relocNodes_append, relocNodes, relocNode,
        relocKind, sigma2, mapSigma]))

theorem sigmaGo_ge : ∀ (L : DLines) (start p : Nat), p ≤ sigmaGo L start p
  | [], _, _ => Nat.le_refl _
  | lt :: r, start, p => by
    simp only [sigmaGo]
    split
    · omega
    · have := sigmaGo_ge r (start + Lines.byteLen lt.1 + Lines.byteLen lt.2) p; omega

theorem sigmaGo_mono : ∀ (L : DLines) (start p q : Nat), p ≤ q → sigmaGo L start p ≤ sigmaGo L start q
  | [], _, _, _, h => h
  | lt :: r, start, p, q, h => by
    simp only [sigmaGo]
    split
    · split
      · omega
      · have := sigmaGo_ge r (start + Lines.byteLen lt.1 + Lines.byteLen lt.2) q; omega
    · split
      · omega
      · have := sigmaGo_mono r (start + Lines.byteLen lt.1 + Lines.byteLen lt.2) p q h; omega

theorem sigma_mono (L : DLines) {p q : Nat} (h : p ≤ q) : sigma L p ≤ sigma L q := sigmaGo_mono L 0 p q h

@[simp] theorem shiftEntry_indent (i : Nat) (o : LineOffset) : (shiftEntry i o).indentNonspace = o.indentNonspace := rfl

/-- re-run the goal (the rule on `s'`) along the path the run on `s` took -/
syntax "replay_goal" : tactic
macro_rules
| `(tactic| replay_goal) => `(tactic|
    simp only [*, ok_bind, map_ok', ↓reduceIte, ne_eq, not_true_eq_false, not_false_eq_true,
      Bool.false_eq_true, pure, Except.pure, decide_true, decide_false, false_and, and_false, and_true,
      true_and, Classical.not_not, shiftEntry_indent])

section leaf
variable {L : DLines} {s s' : BState}

theorem hr_sim (S : Sim L s s') {b : Bool} {t : BState} (h : hrRule s false = .ok (b, t)) :
    ∃ t', hrRule s' false = .ok (b, t') ∧ Sim L t t' := by
  unfold hrRule at h ⊢
  rw [S.line, S.tbl.lineIndent, S.tbl.getLine, S.tbl.getMap]
  crack h
  all_goals (try subst_vars)
  all_goals replay_goal
  all_goals (first | exact ⟨_, rfl, S⟩ | (refine ⟨_, rfl, ?_⟩; sim_close S))

theorem liftL_ok {α : Type} {x : Except Lines.Panic α} {a : α} (h : liftL x = .ok a) : x = .ok a := by
  cases x with
  | error e => cases e <;> simp [liftL] at h
  | ok v => simp [liftL] at h; rw [h]

/-- the entry of an existing line, with its text -/
theorem Tbl.entry_of_off (T : Tbl L s s') {n : Nat} {o : LineOffset} (h : s.off n = .ok o) :
    EntryOk L n o := T.q.ok n o (off_ok h)

theorem getLine_len {n : Nat} {o : LineOffset} {line : List Char} (ho : s.off n = .ok o)
    (hl : s.getLine n = .ok line) : o.lineEnd = o.firstNonspace + Lines.byteLen line := by
  have ho' := off_ok ho
  simp only [BState.getLine, Lines.getLine, ho'] at hl
  obtain ⟨p, q, _, hp, hq⟩ := Lines.slice_eq_ok_iff.mp (liftL_ok hl)
  omega

theorem heading_sim (S : Sim L s s') {b : Bool} {t : BState} (h : headingRule s false = .ok (b, t)) :
    ∃ t', headingRule s' false = .ok (b, t') ∧ Sim L t t' := by
  unfold headingRule at h ⊢
  rw [S.line, S.tbl.lineIndent, S.tbl.getLine, S.tbl.getMap, S.tbl.off]
  crack h
  all_goals (try subst_vars)
  all_goals replay_goal
  all_goals (try (exact ⟨_, rfl, S⟩))
  -- the mapping of the inline root
  rename_i ind hind _ line hline _ _ level tp rest hatx content hsl o hoff r hmap
  obtain ⟨p, q, hdec, hp, hq⟩ := Lines.slice_eq_ok_iff.mp (liftL_ok hsl)
  have hlen := getLine_len hoff hline
  have eo := S.tbl.entry_of_off hoff
  have hb := entry_bounds eo
  have htp : tp ≤ Lines.byteLen line := by
    have := congrArg Lines.byteLen hdec
    simp only [Lines.byteLen_append] at this; omega
  have hsig : sigma L (o.firstNonspace + tp) = o.firstNonspace + 2 * s.line + 2 + tp := by
    rw [sigma_of_entry S.tbl.lines eo (by omega) (by omega)]; omega
  refine ⟨_, rfl, ?_⟩
  sim_close S
  simp [shiftEntry, hsig]

theorem codeScan_congr (h1 : s'.lineMax = s.lineMax) (h2 : ∀ n, s'.isEmpty n = s.isEmpty n)
    (h3 : ∀ n, s'.lineIndent n = s.lineIndent n) :
    ∀ (d n last : Nat), s.lineMax - n = d → codeScan s' n last = codeScan s n last := by
  intro d
  induction d with
  | zero =>
    intro n last hd
    conv => lhs; rw [codeScan]
    conv => rhs; rw [codeScan]
    rw [h1, if_neg (show ¬ n < s.lineMax by omega), if_neg (show ¬ n < s.lineMax by omega)]
  | succ d ih =>
    intro n last hd
    conv => lhs; rw [codeScan]
    conv => rhs; rw [codeScan]
    rw [h1, if_pos (show n < s.lineMax by omega), if_pos (show n < s.lineMax by omega), h2, h3]
    split
    · exact ih _ _ (by omega)
    · cases s.lineIndent n with
      | error e => rfl
      | ok ind =>
        simp only []
        split
        · exact ih _ _ (by omega)
        · rfl

theorem Sim.setLine (S : Sim L s s') (l : Nat) : Sim L { s with line := l } { s' with line := l } :=
  ⟨S.tbl.of_eq rfl rfl rfl rfl rfl rfl, rfl, S.lineMax, S.tight, S.listIndent, S.level, S.nodeKind,
   S.children, S.refs⟩

theorem code_sim (S : Sim L s s') {b : Bool} {t : BState} (h : codeRule s false = .ok (b, t)) :
    ∃ t', codeRule s' false = .ok (b, t') ∧ Sim L t t' := by
  unfold codeRule at h ⊢
  rw [S.line, S.tbl.lineIndent,
    codeScan_congr S.lineMax S.tbl.isEmpty S.tbl.lineIndent _ _ _ rfl]
  crack h
  all_goals (try subst_vars)
  · replay_goal
    exact ⟨_, rfl, S⟩
  · rename_i ind hind _ last hscan gl hgl _ m0 tl hmap l1 hl1 o hoff hassert
    have T2 := (S.setLine last).tbl
    have hgl' := T2.getLines s.line last (4 + s.blkIndent) false (S.tbl.indent_ok 4 (by omega))
    have hoff' := T2.off l1
    have e4 : 4 + s'.blkIndent = 4 + s.blkIndent := by rw [S.tbl.blk]
    simp only [e4]
    replay_goal
    simp only [hgl', hgl, map_ok', mapSigma, hmap, List.map_cons, hoff', hoff, ok_bind]
    -- the debug assertion
    have eo := T2.entry_of_off hoff
    have hle : sigma L o.lineEnd = (shiftEntry l1 o).lineEnd := by
      rw [sigma_of_entry S.tbl.lines eo (by have := entry_bounds eo; omega) (Nat.le_refl _)]
      simp [shiftEntry]
    have hmono := sigma_mono L (show m0.2 ≤ o.lineEnd by omega)
    rw [hle] at hmono
    rw [if_neg (by omega)]
    refine ⟨_, rfl, ?_⟩
    sim_close S
    rw [← hle]

theorem fenceScan_congr (h1 : s'.lineMax = s.lineMax) (h2 : ∀ n, s'.getLine n = s.getLine n)
    (h3 : ∀ n, s'.lineIndent n = s.lineIndent n) (marker : Char) (len : Nat) :
    ∀ (d n : Nat), s.lineMax - n = d → fenceScan s' marker len n = fenceScan s marker len n := by
  intro d
  induction d with
  | zero =>
    intro n hd
    conv => lhs; rw [fenceScan]
    conv => rhs; rw [fenceScan]
    rw [h1, if_pos (show n + 1 ≥ s.lineMax by omega), if_pos (show n + 1 ≥ s.lineMax by omega)]
  | succ d ih =>
    intro n hd
    conv => lhs; rw [fenceScan]
    conv => rhs; rw [fenceScan]
    rw [h1, h2, h3]
    split
    · rfl
    · have hrec := ih (n + 1) (by omega)
      rw [hrec]

theorem entry_le_size {i : Nat} {o : LineOffset} (h : EntryOk L i o) :
    o.lineEnd ≤ Lines.byteLen (Lines.flat L) ∧ o.indentNonspace ≤ (Lines.byteLen (Lines.flat L) : Int) := by
  obtain ⟨l, t, a, b, hi, hl, hs, hf, he, hind⟩ := h
  have hlt : i < L.length := (List.getElem?_eq_some_iff.mp hi).1
  have hLi : L[i] = (l, t) := (List.getElem?_eq_some_iff.mp hi).2
  have := congrArg Lines.byteLen (flat_split L i hlt)
  rw [hLi, hl] at this
  simp only [Lines.byteLen_append] at this
  have h2 := Lines.length_le_byteLen a
  unfold startOf at hs he
  constructor <;> omega

theorem fence_sim (S : Sim L s s') (hi : IndentOk s) {b : Bool} {t : BState}
    (h : fenceRule s false = .ok (b, t)) : ∃ t', fenceRule s' false = .ok (b, t') ∧ Sim L t t' := by
  unfold fenceRule at h ⊢
  simp only [S.line, S.tbl.lineIndent, S.tbl.getLine, S.tbl.off,
    fenceScan_congr S.lineMax S.tbl.getLine S.tbl.lineIndent _ _ _ _ rfl, S.tbl.getMap]
  crack h
  all_goals (try subst_vars)
  all_goals (try (replay_goal; exact ⟨_, rfl, S⟩))
  all_goals (try (rcases ‹(_ : Char) = '`' ∧ _› with ⟨rfl, _⟩))
  all_goals (try (replay_goal; exact ⟨_, rfl, S⟩))
  rename_i ind hind _ _ marker rest hline _ _ params hparams _ scan hscan o hoff gl hgl e he r hr
  obtain ⟨i, hi1, hi0⟩ := hi
  have hoi := lineIndent_of_off (off_ok hoff)
  rw [hi1] at hoi
  have hon : 0 ≤ o.indentNonspace := by
    simp only [Except.ok.injEq] at hoi; omega
  have eo := S.tbl.entry_of_off hoff
  have hsz := entry_le_size eo
  have hsize := S.tbl.lines.size
  have hcast : 0 ≤ Lines.usizeAsI32 (i32AsUsize o.indentNonspace) := by
    simp only [i32AsUsize, hon, ge_iff_le, if_true]
    rw [usizeAsI32_small (by omega)]; omega
  have hgl' := S.tbl.getLines (s.line + 1) scan.1 (i32AsUsize o.indentNonspace) true hcast
  replay_goal
  refine ⟨_, rfl, ?_⟩
  sim_close S

theorem Sim.sameLook (S : Sim L s s') : SameLook s s' := by
  refine ⟨by rw [S.line, S.tbl.lineIndent], by rw [S.line, S.tbl.getLine], S.nodeKind.isList, ?_⟩
  unfold listSpecial
  rw [S.listIndent, S.line, S.tbl.off, S.tbl.blk]
  cases s.listIndent with
  | none => rfl
  | some li =>
    simp only []
    cases s.off s.line with
    | error e => rfl
    | ok o => rfl

/-- the two look-aheads: pure, and with the same verdict on related states -/
structure TestSim (L : DLines) (test test' : Test) : Prop where
  pure : TestPure test
  pure' : TestPure test'
  same : ∀ s s', Sim L s s' → verdict (test' s') = verdict (test s)

theorem TestSim.transfer {test test' : Test} (TS : TestSim L test test') (S : Sim L s s')
    {w : Bool × BState} (h : test s = .ok w) : w.2 = s ∧ test' s' = .ok (w.1, s') := by
  have h1 := TS.pure _ _ h
  have h2 := TS.same _ _ S
  rw [h] at h2
  cases h3 : test' s' with
  | error e => rw [h3] at h2; simp [verdict, Except.map] at h2
  | ok w' =>
    have h4 := TS.pure' _ _ h3
    rw [h3] at h2
    simp [verdict, Except.map] at h2
    refine ⟨h1, ?_⟩
    rw [← h2, ← h4]

theorem setextCheck_congr (S : Sim L s s') (setext : Bool) (ind : Int) (n : Nat) :
    setextCheck setext s' ind n = setextCheck setext s ind n := by
  unfold setextCheck
  rw [S.tbl.getLine]

theorem set_line_back' (s' : BState) (n l : Nat) (h : l = s'.line) :
    ({ ({ s' with line := n } : BState) with line := l } : BState) = s' := by
  subst h; exact set_line_back s' n

theorem lazyScan_sim {test test' : Test} (TS : TestSim L test test') (setext : Bool) :
    ∀ (fuel : Nat) (s s' : BState) (n : Nat) (r : Nat × Nat × BState), Sim L s s' →
      lazyScan test setext fuel s n = .ok r → lazyScan test' setext fuel s' n = .ok (r.1, r.2.1, s') := by
  intro fuel
  induction fuel with
  | zero => intro s s' n r _ h; simp [lazyScan] at h
  | succ f ih =>
    intro s s' n r S h
    simp only [lazyScan] at h ⊢
    simp only [S.lineMax, S.tbl.isEmpty, S.tbl.lineIndent, setextCheck_congr S, S.tbl.off, S.line]
    crack h
    all_goals (try subst_vars)
    · replay_goal
    · replay_goal
      exact ih _ _ _ _ S h
    · replay_goal
    · replay_goal
      exact ih _ _ _ _ S h
    · obtain ⟨h1, ht⟩ := TS.transfer (S.setLine (n + 1)) ‹test _ = _›
      have hb := set_line_back' s' (n + 1) s.line S.line.symm
      simp only [S.lineMax] at ht hb
      replay_goal
    · obtain ⟨h1, ht⟩ := TS.transfer (S.setLine (n + 1)) ‹test _ = _›
      have hb := set_line_back' s' (n + 1) s.line S.line.symm
      simp only [S.lineMax] at ht hb
      replay_goal
      simp only [h1, set_line_back] at h
      exact ih _ _ _ _ S h

theorem Tbl.indent_ok0 (T : Tbl L s s') : 0 ≤ Lines.usizeAsI32 s.blkIndent := by
  have := T.indent_ok 0 (by omega)
  simpa using this

theorem paragraph_sim {test test' : Test} (TS : TestSim L test test') {fuel : Nat} (S : Sim L s s')
    {b : Bool} {t : BState} (h : paragraphRule test fuel s false = .ok (b, t)) :
    ∃ t', paragraphRule test' fuel s' false = .ok (b, t') ∧ Sim L t t' := by
  unfold paragraphRule at h ⊢
  crack h
  rename_i scan hscan gl hgl e he r hr hb
  subst hb
  have h1 := (lazyScan_spec TS.pure false _ _ _ _ hscan).1
  have hscan' := lazyScan_sim TS false _ _ _ _ _ S hscan
  rw [h1] at hgl hr
  have T2 := (S.setLine scan.1).tbl
  have hgl' := S.tbl.getLines s.line scan.1 s'.blkIndent false (by rw [S.tbl.blk]; exact S.tbl.indent_ok0)
  conv at hgl' => rhs; rw [S.tbl.blk]
  have hr' := T2.getMap s.line e
  simp only [Bool.false_eq_true, if_false, S.line, hscan', ok_bind, hgl', hgl, map_ok', he, hr', hr,
    pure, Except.pure, h1]
  refine ⟨_, rfl, ?_⟩
  sim_close S

theorem lheading_sim {test test' : Test} (TS : TestSim L test test') {fuel : Nat} (S : Sim L s s')
    {b : Bool} {t : BState} (h : lheadingRule test fuel s false = .ok (b, t)) :
    ∃ t', lheadingRule test' fuel s' false = .ok (b, t') ∧ Sim L t t' := by
  unfold lheadingRule at h ⊢
  simp only [S.line, S.tbl.lineIndent]
  crack h
  all_goals (try subst_vars)
  · replay_goal
    exact ⟨_, rfl, S⟩
  · have hscan := ‹lazyScan _ _ _ _ _ = _›
    have h1 := (lazyScan_spec TS.pure true _ _ _ _ hscan).1
    have hscan' := lazyScan_sim TS true _ _ _ _ _ S hscan
    replay_goal
    try simp only [h1]
    exact ⟨_, rfl, S⟩
  · rename_i ind hind _ scan hscan hlvl gl hgl e he r hr
    have h1 := (lazyScan_spec TS.pure true _ _ _ _ hscan).1
    have hscan' := lazyScan_sim TS true _ _ _ _ _ S hscan
    rw [h1] at hgl hr
    have T2 := (S.setLine (scan.1 + 1)).tbl
    have hgl' := S.tbl.getLines s.line scan.1 s'.blkIndent false (by rw [S.tbl.blk]; exact S.tbl.indent_ok0)
    conv at hgl' => rhs; rw [S.tbl.blk]
    have hr' := T2.getMap s.line e
    replay_goal
    try simp only [h1]
    refine ⟨_, rfl, ?_⟩
    sim_close S

theorem reference_sim {cfg cfg' : Cfg} (hc : cfg'.lookup = cfg.lookup ∧ cfg'.L = cfg.L ∧ cfg'.U = cfg.U)
    {test test' : Test} (TS : TestSim L test test') {fuel : Nat} (S : Sim L s s')
    {b : Bool} {t : BState} (h : referenceRule cfg test fuel s false = .ok (b, t)) :
    ∃ t', referenceRule cfg' test' fuel s' false = .ok (b, t') ∧ Sim L t t' := by
  have hparse : ∀ str, refParse cfg' str = refParse cfg str := by
    intro str
    simp only [refParse, refTitle, hc.1]
  unfold referenceRule at h ⊢
  simp only [S.line, S.tbl.lineIndent, S.tbl.getLine, hparse, hc.2.1, hc.2.2]
  crack h
  all_goals (try subst_vars)
  all_goals (try (replay_goal; exact ⟨_, rfl, S⟩))
  all_goals (
    have hscan := ‹lazyScan _ _ _ _ _ = _›
    have hgl := ‹BState.getLines _ _ _ _ _ = _›
    have h1 := (lazyScan_spec TS.pure false _ _ _ _ hscan).1
    have hscan' := lazyScan_sim TS false _ _ _ _ _ S hscan
    rw [h1] at hgl
    have hgl' := S.tbl.getLines s.line ‹Nat × Nat × BState›.1 s'.blkIndent false
      (by rw [S.tbl.blk]; exact S.tbl.indent_ok0)
    conv at hgl' => rhs; rw [S.tbl.blk]
    replay_goal
    try simp only [h1])
  all_goals (first | exact ⟨_, rfl, S⟩ | (refine ⟨_, rfl, ?_⟩; sim_close S))

end leaf

/-! ### the containers' rewriting commutes with the prefix -/

/-- `find_indent_of` behind a tab-free prefix -/
theorem findIndent_prefix_tabfree (pre l : List Char) (hpre : '\t' ∉ pre) (hl : '\t' ∉ l) {r i f : Nat}
    (h : Lines.findIndentOf l r = .ok (i, f)) :
    Lines.findIndentOf (pre ++ l) (Lines.byteLen pre + r) = .ok (i, Lines.byteLen pre + f) ∧
    ∃ p run rest, l = p ++ run ++ rest ∧ Lines.byteLen p = r ∧ Lines.byteLen (p ++ run) = f ∧
      i = run.length ∧ AllBlank run := by
  have hb := (Lines.find_indent_total l r).mp ⟨_, h⟩
  obtain ⟨p, t, rfl, rfl⟩ := Lines.onBoundary_iff.mp hb
  obtain ⟨run, rest, rfl, hrun, hrest⟩ := Lines.blank_run_split t
  have htp : '\t' ∉ p := fun hc => hl (by simp [hc])
  have htr : '\t' ∉ run := fun hc => hl (by simp [hc])
  have hspec := Lines.find_indent_spec p run rest hrun hrest
  rw [← List.append_assoc] at h
  rw [hspec] at h
  simp only [Except.ok.injEq, Prod.mk.injEq] at h
  obtain ⟨rfl, rfl⟩ := h
  have hspec' := Lines.find_indent_spec (pre ++ p) run rest hrun hrest
  have e1 : Lines.indentWidth (p ++ run) - Lines.indentWidth p = run.length := by
    rw [indentWidth_tabfree _ (by simp [htp, htr]), indentWidth_tabfree _ htp]; simp
  have e2 : Lines.indentWidth (pre ++ p ++ run) - Lines.indentWidth (pre ++ p) = run.length := by
    rw [indentWidth_tabfree _ (by simp [hpre, htp, htr]), indentWidth_tabfree _ (by simp [hpre, htp])]; simp; omega
  refine ⟨?_, p, run, rest, by simp, rfl, by simp [hrun.byteLen], e1, hrun⟩
  rw [e1]
  rw [e2] at hspec'
  have : pre ++ (p ++ (run ++ rest)) = pre ++ p ++ run ++ rest := by simp
  rw [this, show Lines.byteLen pre + Lines.byteLen p = Lines.byteLen (pre ++ p) by simp, hspec']
  simp [Nat.add_assoc]

section rewrite
variable {L : DLines}

theorem shiftEntry_with (i : Nat) (o : LineOffset) (x : Int) (f : Nat) :
    shiftEntry i { o with indentNonspace := x, firstNonspace := f } =
      { shiftEntry i o with indentNonspace := x, firstNonspace := f + 2 * i + 2 } := rfl

theorem EntryOk.indent {i : Nat} {o : LineOffset} (h : EntryOk L i o) {x : Int} (hx : x ≤ o.indentNonspace) :
    EntryOk L i { o with indentNonspace := x } := by
  obtain ⟨l, t, a, b, hi, hl, hs, hf, he, hind⟩ := h
  exact ⟨l, t, a, b, hi, hl, hs, hf, he, by simp only; omega⟩

/-- the line behind entry `i`, from either source -/
theorem entry_line (hL : LinesOk L) {i : Nat} {o : LineOffset} (h : EntryOk L i o) :
    ∃ l, (∃ t, L[i]? = some (l, t)) ∧ '\t' ∉ l ∧
      Lines.slice (Lines.flat L) o.lineStart o.lineEnd = .ok l ∧
      Lines.slice (Lines.flat (prefixLines L)) (shiftEntry i o).lineStart (shiftEntry i o).lineEnd
        = .ok ('>' :: ' ' :: l) := by
  obtain ⟨l, t, a, b, hi, hl, hs, hf, he, _⟩ := h
  have hlt : i < L.length := (List.getElem?_eq_some_iff.mp hi).1
  have hLi : L[i] = (l, t) := (List.getElem?_eq_some_iff.mp hi).2
  have hlt' : i < (prefixLines L).length := by rw [prefixLines_length]; exact hlt
  refine ⟨l, ⟨t, hi⟩, ?_, ?_, ?_⟩
  · exact hL.tabfree (l, t) (by rw [← hLi]; exact List.getElem_mem hlt)
  · have := slice_in_line L i hlt [] l [] (by rw [hLi]; simp)
    simp only [Lines.byteLen_nil, Nat.add_zero] at this
    have hbl : Lines.byteLen l = Lines.byteLen a + Lines.byteLen b := by rw [hl]; simp
    rw [hs, he, show startOf L i + Lines.byteLen a + Lines.byteLen b = startOf L i + Lines.byteLen l by omega]
    exact this
  · have := slice_in_line (prefixLines L) i hlt' [] ('>' :: ' ' :: l) [] (by simp [prefixLines, hLi])
    simp only [Lines.byteLen_nil, Nat.add_zero] at this
    rw [startOf_prefix L i (by omega), byteLen_gt_sp] at this
    have hbl : Lines.byteLen l = Lines.byteLen a + Lines.byteLen b := by rw [hl]; simp
    simp only [shiftEntry, hs, he]
    rw [show startOf L i + Lines.byteLen a + Lines.byteLen b + 2 * i + 2
        = startOf L i + 2 * i + (2 + Lines.byteLen l) by omega]
    exact this
end rewrite

@[simp] theorem liftL_ok' {α : Type} (a : α) : liftL (.ok a : Except Lines.Panic α) = .ok a := rfl

theorem psub_eq {a b : Nat} (h : b ≤ a) : psub a b = .ok (a - b) := by simp [psub, h]

section bq
variable {L : DLines}

theorem bqRewrite_sim (hL : LinesOk L) {i : Nat} {o o₂ : LineOffset} {rest : List Char} {le : Bool}
    (eo : EntryOk L i o) (h : bqRewrite (Lines.flat L) o rest = .ok (o₂, le)) :
    bqRewrite (Lines.flat (prefixLines L)) (shiftEntry i o) rest = .ok (shiftEntry i o₂, le) ∧ EntryOk L i o₂ := by
  obtain ⟨l, ⟨t, hLi⟩, htab, hsl, hsl'⟩ := entry_line hL eo
  obtain ⟨l0, t0, a, b, hi, hl, hs, hf, he, hind⟩ := eo
  rw [hLi] at hi
  simp only [Option.some.injEq, Prod.mk.injEq] at hi
  obtain ⟨rfl, rfl⟩ := hi
  unfold bqRewrite at h ⊢
  simp only [hsl, hsl', liftL_ok', ok_bind] at h ⊢
  crack h
  rename_i rel hrel fi hfi lineLen hlen ind2 hopt ho2
  obtain ⟨hr1, rfl⟩ := psub_ok hrel
  obtain ⟨hr2, rfl⟩ := psub_ok hlen
  have hfi' := liftL_ok hfi
  obtain ⟨ind, fn⟩ := fi
  obtain ⟨hpre, p, run, rest2, hdec, hp, hpr, hir, hrun⟩ :=
    findIndent_prefix_tabfree ['>', ' '] l (by decide) htab hfi'
  simp only [show Lines.byteLen ['>', ' '] = 2 by decide, List.cons_append, List.nil_append] at hpre
  -- the primed run
  have hrel' : psub ((shiftEntry i o).firstNonspace + 1) (shiftEntry i o).lineStart
      = .ok (2 + (o.firstNonspace + 1 - o.lineStart)) := by
    rw [psub_eq (by simp only [shiftEntry]; omega)]
    congr 1; simp only [shiftEntry]; omega
  have hlen' : psub (shiftEntry i o).lineEnd (shiftEntry i o).lineStart = .ok (o.lineEnd - o.lineStart + 2) := by
    rw [psub_eq (by simp only [shiftEntry]; omega)]
    congr 1; simp only [shiftEntry]; omega
  simp only [hrel', hpre, liftL_ok', hlen', ok_bind, hopt, pure, Except.pure]
  subst ho2
  refine ⟨?_, ?_⟩
  · simp only [Except.ok.injEq, Prod.mk.injEq]
    refine ⟨?_, ?_⟩
    · simp only [shiftEntry]
      congr 1 <;> omega
    · apply Bool.eq_iff_iff.mpr
      simp only [beq_iff_eq]
      omega
  · -- the new cut
    refine ⟨l, t, p ++ run, rest2, hLi, by rw [hdec], hs, ?_, ?_, ?_⟩
    · simp only; rw [hpr]; omega
    · simp only
      have := congrArg Lines.byteLen hdec
      simp only [Lines.byteLen_append] at this hpr ⊢
      have hbl : Lines.byteLen l = Lines.byteLen a + Lines.byteLen b := by rw [hl]; simp
      omega
    · simp only
      have : (ind2 : Int) ≤ (ind : Int) := by
        unfold bqOptSpace at hopt
        split at hopt
        · split at hopt
          · have := (psub_ok hopt).2; omega
          · simp [pure, Except.pure] at hopt; omega
        · simp [pure, Except.pure] at hopt; omega
      simp only [List.length_append]
      omega

theorem EntryOk.indent_neg {i : Nat} {o : LineOffset} (h : EntryOk L i o) {x : Int} (hx : x ≤ 0) :
    EntryOk L i { o with indentNonspace := x } := by
  obtain ⟨l, t, a, b, hi, hl, hs, hf, he, hind⟩ := h
  exact ⟨l, t, a, b, hi, hl, hs, hf, he, by simp only; omega⟩

theorem Sim.setOff {s s' s₂ : BState} (S : Sim L s s') {m : Nat} {o₂ : LineOffset}
    (h : s.setOff m o₂ = .ok s₂) (eo : EntryOk L m o₂) :
    ∃ s₂', s'.setOff m (shiftEntry m o₂) = .ok s₂' ∧ Sim L s₂ s₂' := by
  obtain ⟨hm, rfl⟩ := setOff_ok h
  have hm' : m < s'.offs.length := by rw [S.tbl.q.len', ← S.tbl.q.len]; exact hm
  refine ⟨{ s' with offs := s'.offs.set m (shiftEntry m o₂) }, by simp [BState.setOff, hm'], ?_⟩
  refine ⟨⟨S.tbl.lines, S.tbl.src, S.tbl.src', ⟨by simp [S.tbl.q.len], ?_, ?_⟩, S.tbl.blk, S.tbl.small⟩,
    S.line, S.lineMax, S.tight, S.listIndent, S.level, S.nodeKind, S.children, S.refs⟩
  · intro i o ho
    simp only [List.getElem?_set] at ho
    split at ho
    · simp [hm] at ho; subst ho; rename_i h; subst h; exact eo
    · exact S.tbl.q.ok i o ho
  · intro i
    simp only [List.getElem?_set]
    split
    · rename_i h; subst h; simp [hm, hm']
    · exact S.tbl.q.shift i

theorem bqScan_sim {test test' : Test} (TS : TestSim L test test') :
    ∀ (fuel : Nat) (s s' : BState) (m : Nat) (old old' : List LineOffset) (le : Bool)
      (r : Nat × List LineOffset × BState), Sim L s s' → bqScan test fuel s m old le = .ok r →
      ∃ old₂' S', bqScan test' fuel s' m old' le = .ok (r.1, old₂', S') ∧ Sim L r.2.2 S' := by
  intro fuel
  induction fuel with
  | zero => intro s s' m old old' le r _ h; simp [bqScan] at h
  | succ f ih =>
    intro s s' m old old' le r S h
    simp only [bqScan] at h ⊢
    simp only [S.lineMax, S.tbl.lineIndent, S.tbl.getLine, S.tbl.off, S.tbl.src']
    crack h
    all_goals (try subst_vars)
    · replay_goal
      exact ⟨_, _, rfl, S⟩
    · replay_goal
      exact ⟨_, _, rfl, S⟩
    · -- inside the quote
      rename_i ind hind line c rest hline hc o hoff rw hrw s₂ hset
      obtain ⟨o₂, le₂⟩ := rw
      rw [S.tbl.src] at hrw
      obtain ⟨hrw', eo₂⟩ := bqRewrite_sim S.tbl.lines (S.tbl.entry_of_off hoff) hrw
      obtain ⟨s₂', hset', S₂⟩ := S.setOff hset eo₂
      replay_goal
      exact ih _ _ _ _ _ _ _ S₂ h
    · replay_goal
      exact ⟨_, _, rfl, S⟩
    · -- a terminating rule, `blk_indent ≠ 0`
      obtain ⟨h1, ht⟩ := TS.transfer (S.setLine m) ‹test _ = _›
      simp only [S.lineMax, S.tbl.src'] at ht
      rename_i w hw _ hb o hoff s₂ hset
      rw [h1] at hoff hset
      have Sm := S.setLine m
      have hoff' := Sm.tbl.off m
      rw [hoff] at hoff'
      obtain ⟨s₂', hset', S₂⟩ := Sm.setOff hset ((Sm.tbl.entry_of_off hoff).indent (by simp only; omega))
      simp only [S.lineMax, S.tbl.src'] at hoff' hset'
      have hblk : w.2.blkIndent ≠ 0 := hb
      rw [h1] at hblk
      have hblk' : s'.blkIndent ≠ 0 := by rw [S.tbl.blk]; exact hblk
      have ecast : ((s'.blkIndent : Nat) : Int) = (s.blkIndent : Int) := by rw [S.tbl.blk]
      replay_goal
      try simp only [hoff', map_ok', ok_bind, ecast]
      simp only [shiftEntry] at hset' ⊢
      simp only [hset', ok_bind]
      exact ⟨_, _, rfl, S₂⟩
    · obtain ⟨h1, ht⟩ := TS.transfer (S.setLine m) ‹test _ = _›
      simp only [S.lineMax, S.tbl.src'] at ht
      have hblk : ¬ (‹Bool × BState›.2.blkIndent ≠ 0) := ‹_›
      rw [h1] at hblk
      have hblk' : ¬ (s'.blkIndent ≠ 0) := by rw [S.tbl.blk]; exact hblk
      replay_goal
      refine ⟨_, _, rfl, ?_⟩
      have := S.setLine m
      simp only [S.lineMax, S.tbl.src'] at this
      exact this
    · obtain ⟨h1, ht⟩ := TS.transfer (S.setLine m) ‹test _ = _›
      simp only [S.lineMax, S.tbl.src'] at ht
      rename_i w hw _ o hoff s₂ hset
      have hle : le = false := by simpa using ‹¬le = true›
      subst hle
      rw [h1] at hoff hset
      have Sm := S.setLine m
      have hoff' := Sm.tbl.off m
      rw [hoff] at hoff'
      obtain ⟨s₂', hset', S₂⟩ := Sm.setOff hset ((Sm.tbl.entry_of_off hoff).indent_neg (x := -1) (by omega))
      simp only [S.lineMax, S.tbl.src'] at hoff' hset'
      replay_goal
      try simp only [hoff', map_ok', ok_bind]
      simp only [shiftEntry] at hset' ⊢
      simp only [hset', ok_bind]
      exact ih _ _ _ _ _ _ _ S₂ h

/-- the nested tokenizers correspond -/
def TokSim (L : DLines) (tok tok' : Tok) : Prop :=
  ∀ s s' t, Sim L s s' → tok s = .ok t → ∃ t', tok' s' = .ok t' ∧ Sim L t t'

/-- the state the block-quote rule hands to the nested tokenizer -/
abbrev nestBq (S1 : BState) (line n : Nat) : BState :=
  { S1 with blkIndent := 0, nodeKind := .blockquote, children := [], line := line, lineMax := n, level := S1.level + 1 }

/-- the state the block-quote rule reads its range from -/
abbrev finBq (s2 S1 : BState) (offs : List LineOffset) : BState :=
  { s2 with level := s2.level - 1, lineMax := S1.lineMax, offs := offs, blkIndent := S1.blkIndent }

theorem blockquote_sim {tok tok' : Tok} {test test' : Test} (hk : TokSpec tok) (hk' : TokSpec tok')
    (TK : TokSim L tok tok') (TS : TestSim L test test') {fuel : Nat} {s s' : BState} (S : Sim L s s')
    {b : Bool} {t : BState} (h : blockquoteRule tok test fuel s false = .ok (b, t)) :
    ∃ t', blockquoteRule tok' test' fuel s' false = .ok (b, t') ∧ Sim L t t' := by
  unfold blockquoteRule at h ⊢
  simp only [S.line, S.tbl.lineIndent, S.tbl.getLine]
  crack h
  all_goals (try subst_vars)
  · replay_goal
    exact ⟨_, rfl, S⟩
  · replay_goal
    exact ⟨_, rfl, S⟩
  · rename_i ind hind _ line hline hhead scan hscan s2 htok lvl hlvl offs hoffs e he r hr
    obtain ⟨n, old, S1⟩ := scan
    -- the scans
    obtain ⟨old', S1', hscan', SS1⟩ := bqScan_sim TS _ _ _ _ _ [] _ _ S hscan
    obtain ⟨hsb, hmn, _, _, _, add, hadd, hrest⟩ := bqScan_spec TS.pure _ _ _ _ _ _ _ _ hscan
    obtain ⟨hsb', _, _, _, _, add', hadd', hrest'⟩ := bqScan_spec TS.pure' _ _ _ _ _ _ _ _ hscan'
    simp only [List.nil_append] at hadd hadd'
    rw [← hadd] at hrest
    rw [← hadd'] at hrest'
    clear hadd hadd'
    simp only at htok hlvl hoffs he hr SS1
    -- the nested tokenizers
    have S1s : Sim L (nestBq S1 s.line n) (nestBq S1' s.line n) :=
      ⟨⟨SS1.tbl.lines, SS1.tbl.src, SS1.tbl.src', SS1.tbl.q, rfl, Nat.zero_le _⟩, rfl, rfl, SS1.tight,
        SS1.listIndent, by simp [SS1.level], .inl rfl, rfl, SS1.refs⟩
    obtain ⟨s2', htok', S2⟩ := TK _ _ _ S1s htok
    have hfr := hk.frame _ _ htok
    have hfr' := hk'.frame _ _ htok'
    -- the tables are restored
    rw [hfr.offs] at hoffs
    try simp only at hoffs
    rw [hrest] at hoffs
    cases hoffs
    have hoffs' : restoreOffs s2'.offs s.line old' = .ok s'.offs := by
      rw [hfr'.offs]; exact hrest'
    obtain ⟨hl1, rfl⟩ := psub_ok hlvl
    have hlvl' : psub s2'.level 1 = .ok (s2'.level - 1) := psub_eq (by rw [S2.level]; omega)
    have he' : psub s2'.line 1 = .ok e := by rw [S2.line]; exact he
    -- the final states
    have Tfin : Tbl L (finBq s2 S1 s.offs) (finBq s2' S1' s'.offs) :=
      S.tbl.of_eq (by simp [hfr.src, hsb.src]) rfl (by simp [hsb.blkIndent])
        (by simp [hfr'.src, hsb'.src]) rfl (by simp [hsb'.blkIndent])
    have hr' := Tfin.getMap s.line e
    rw [hr] at hr'
    replay_goal
    refine ⟨_, rfl, ?_⟩
    refine ⟨S.tbl.of_eq (by simp [hfr.src, hsb.src]) rfl (by simp [hsb.blkIndent])
        (by simp [hfr'.src, hsb'.src]) rfl (by simp [hsb'.blkIndent]), ?_, ?_, ?_, ?_, ?_, ?_, ?_, ?_⟩
    · simp [S2.line]
    · simp [hsb.lineMax, hsb'.lineMax, S.lineMax]
    · simp [S2.tight]
    · simp [S2.listIndent]
    · simp [S2.level]; omega
    · simpa [hsb.nodeKind, hsb'.nodeKind] using S.nodeKind
    · simp [hsb.children, hsb'.children, S.children, relocNodes_append, relocNodes, relocNode, S2.children,
        hfr'.nodeKind, hfr.nodeKind, relocKind, sigma2]
    · simp [S2.refs]
end bq



/-! ### list markers are ASCII: `pos_after_marker` counts characters and bytes alike -/

/-- the first `p` bytes of `cur` are `p` one-byte characters -/
def MarkerW (cur : List Char) (p : Nat) : Prop :=
  ∃ mk rest, cur = mk ++ rest ∧ mk.length = p ∧ Lines.byteLen mk = p

theorem isDigit_size {c : Char} (h : isDigit c = true) : c.utf8Size = 1 := by
  simp only [isDigit, Bool.and_eq_true, decide_eq_true_eq] at h
  have h2 : c.val.toNat = c.toNat := rfl
  unfold Char.utf8Size
  have : c.val ≤ 127 := by
    rw [UInt32.le_iff_toNat_le]
    simp
    omega
  simp [this]

theorem ordLoop_spec : ∀ (cs : List Char) (pos p : Nat) (rest : List Char), ordLoop cs pos = some (p, rest) →
    ∃ mk, cs = mk ++ rest ∧ pos + mk.length = p ∧ pos + Lines.byteLen mk = p
  | [], _, _, _, h => by simp [ordLoop] at h
  | c :: r, pos, p, rest, h => by
    simp only [ordLoop] at h
    split at h
    · rename_i hd
      split at h
      · cases h
      · obtain ⟨mk, h1, h2, h3⟩ := ordLoop_spec r (pos + 1) p rest h
        exact ⟨c :: mk, by simp [h1], by simp; omega, by simp [isDigit_size hd]; omega⟩
    · split at h
      · rename_i hc
        simp at h
        obtain ⟨rfl, rfl⟩ := h
        have : c.utf8Size = 1 := by rcases hc with rfl | rfl <;> decide
        exact ⟨[c], by simp, by simp, by simp [this]⟩
      · cases h

theorem skipOrdered_marker {cur : List Char} {p : Nat} (h : skipOrdered cur = some p) : MarkerW cur p := by
  cases cur with
  | nil => simp [skipOrdered] at h
  | cons c r =>
    simp only [skipOrdered] at h
    split at h
    · rename_i hd
      cases hl : ordLoop r 1 with
      | none => simp [hl] at h
      | some v =>
        obtain ⟨q, rest⟩ := v
        obtain ⟨mk, h1, h2, h3⟩ := ordLoop_spec r 1 q rest hl
        have hq : q = p := by
          simp only [hl] at h
          split at h
          · simpa using h
          · split at h
            · simpa using h
            · cases h
        subst hq
        exact ⟨c :: mk, rest, by simp [h1], by simp; omega, by simp [isDigit_size hd]; omega⟩
    · cases h

theorem skipBullet_marker {cur : List Char} {p : Nat} (h : skipBullet cur = some p) : MarkerW cur p := by
  cases cur with
  | nil => simp [skipBullet] at h
  | cons c r =>
    simp only [skipBullet] at h
    split at h
    · rename_i hc
      have hs : c.utf8Size = 1 := by rcases hc with rfl | rfl | rfl <;> decide
      have hp : p = 1 := by
        split at h
        · simpa using h.symm
        · split at h
          · simpa using h.symm
          · cases h
      subst hp
      exact ⟨[c], r, by simp, by simp, by simp [hs]⟩
    · cases h

theorem detectMarker_marker {cur : List Char} {p : Nat} {v : Option Nat}
    (h : detectMarker cur = .ok (some (p, v))) : MarkerW cur p := by
  unfold detectMarker at h
  split at h
  · rename_i q hq
    crack h
    exact skipOrdered_marker hq
  · split at h
    · rename_i q hq
      simp [pure, Except.pure] at h
      obtain ⟨rfl, _⟩ := h
      exact skipBullet_marker hq
    · simp [pure, Except.pure] at h

section item
variable {L : DLines}

theorem itemRewrite_sim (hL : LinesOk L) {i : Nat} {o o₂ : LineOffset} {pos indent : Nat} {re : Bool}
    (eo : EntryOk L i o) {cur : List Char}
    (hcur : Lines.slice (Lines.flat L) o.firstNonspace o.lineEnd = .ok cur) (hm : MarkerW cur pos)
    (h : itemRewrite (Lines.flat L) o pos = .ok (o₂, indent, re)) :
    itemRewrite (Lines.flat (prefixLines L)) (shiftEntry i o) pos = .ok (shiftEntry i o₂, indent, re) ∧
      EntryOk L i o₂ ∧ indent ≤ Lines.byteLen (Lines.flat L) + 1 := by
  obtain ⟨l, ⟨t, hLi⟩, htab, hsl, hsl'⟩ := entry_line hL eo
  have hsz := (entry_le_size eo).1
  obtain ⟨l0, t0, a, b, hi, hl, hs, hf, he, hind⟩ := eo
  rw [hLi] at hi
  simp only [Option.some.injEq, Prod.mk.injEq] at hi
  obtain ⟨rfl, rfl⟩ := hi
  -- `cur = b`
  have hlt : i < L.length := (List.getElem?_eq_some_iff.mp hLi).1
  have hLe : L[i] = (l, t) := (List.getElem?_eq_some_iff.mp hLi).2
  have hcb : cur = b := by
    have := slice_in_line L i hlt a b [] (by rw [hLe, hl]; simp)
    rw [← hf, show o.firstNonspace + Lines.byteLen b = o.lineEnd by omega, hcur] at this
    exact Except.ok.inj this
  subst hcb
  obtain ⟨mk, rest, hmk, hmkl, hmkb⟩ := hm
  unfold itemRewrite at h ⊢
  simp only [shiftEntry_indent, hsl, hsl', liftL_ok', ok_bind] at h ⊢
  crack h
  rename_i hneg rel hrel fi hfi lineLen hlen ho2 hind2
  obtain ⟨hr1, rfl⟩ := psub_ok hrel
  obtain ⟨hr2, rfl⟩ := psub_ok hlen
  have hfi' := liftL_ok hfi
  obtain ⟨ind0, fn⟩ := fi
  obtain ⟨hpre, p, run, rest2, hdec, hp, hpr, hir, hrun⟩ :=
    findIndent_prefix_tabfree ['>', ' '] l (by decide) htab hfi'
  simp only [show Lines.byteLen ['>', ' '] = 2 by decide, List.cons_append, List.nil_append] at hpre
  -- `p = a ++ mk`
  have hpa : p = a ++ mk := by
    have h1 : p ++ (run ++ rest2) = (a ++ mk) ++ rest := by rw [← List.append_assoc, ← hdec, hl, hmk]; simp
    exact (Lines.append_inj_byteLen h1 (by simp; omega)).1
  have hrel' : psub (pos + (shiftEntry i o).firstNonspace) (shiftEntry i o).lineStart
      = .ok (2 + (pos + o.firstNonspace - o.lineStart)) := by
    rw [psub_eq (by simp only [shiftEntry]; omega)]
    congr 1; simp only [shiftEntry]; omega
  have hlen' : psub (shiftEntry i o).lineEnd (shiftEntry i o).lineStart = .ok (o.lineEnd - o.lineStart + 2) := by
    rw [psub_eq (by simp only [shiftEntry]; omega)]
    congr 1; simp only [shiftEntry]; omega
  have hbeq : (2 + fn == o.lineEnd - o.lineStart + 2) = (fn == o.lineEnd - o.lineStart) := by
    apply Bool.eq_iff_iff.mpr
    simp only [beq_iff_eq]
    omega
  rw [if_neg hneg]
  simp only [hrel', hpre, liftL_ok', hlen', ok_bind, pure, Except.pure, hbeq]
  subst ho2 hind2
  refine ⟨?_, ?_, ?_⟩
  · simp only [Except.ok.injEq, Prod.mk.injEq, and_true]
    simp only [shiftEntry]
    congr 1 <;> omega
  · refine ⟨l, t, p ++ run, rest2, hLi, by rw [hdec], hs, ?_, ?_, ?_⟩
    · simp only; rw [hpr]; omega
    · simp only
      have := congrArg Lines.byteLen hdec
      simp only [Lines.byteLen_append] at this hpr ⊢
      have hbl : Lines.byteLen l = Lines.byteLen a + Lines.byteLen cur := by rw [hl]; simp
      omega
    · simp only [List.length_append, hpa]
      omega
  · -- the content indent stays within the line, plus one
    have h2 : (if (fn == o.lineEnd - o.lineStart) = true then 1 else if ind0 > 4 then 1 else ind0) ≤ ind0 + 1 := by
      split
      · omega
      · split <;> omega
    generalize (if (fn == o.lineEnd - o.lineStart) = true then 1 else if ind0 > 4 then 1 else ind0) = X at h2
    have hbl : Lines.byteLen l = Lines.byteLen a + Lines.byteLen cur := by rw [hl]; simp
    have h3 := Lines.length_le_byteLen a
    have h4 := hrun.byteLen
    have h5 : Lines.byteLen p = Lines.byteLen a + Lines.byteLen mk := by rw [hpa]; simp
    have h6 := congrArg Lines.byteLen hdec
    simp only [Lines.byteLen_append] at h6 hpr
    omega

theorem listItemBody_sim {tok tok' : Tok} (TK : TokSim L tok tok') {S2 S2' S3 : BState} (S : Sim L S2 S2')
    {m : Nat} {re : Bool} (h : listItemBody tok S2 m re = .ok S3) :
    ∃ S3', listItemBody tok' S2' m re = .ok S3' ∧ Sim L S3 S3' := by
  unfold listItemBody at h ⊢
  simp only [S.tbl.isEmpty]
  crack h
  all_goals (try subst_vars)
  · replay_goal
    refine ⟨_, rfl, ?_⟩
    exact ⟨S.tbl.of_eq rfl rfl rfl rfl rfl rfl, by simp [S.line, S.lineMax], S.lineMax, S.tight, S.listIndent,
      S.level, S.nodeKind, S.children, S.refs⟩
  · rename_i hc s2 htok lvl hlvl
    have Sn : Sim L { S2 with line := m, level := S2.level + 1 } { S2' with line := m, level := S2'.level + 1 } :=
      ⟨S.tbl.of_eq rfl rfl rfl rfl rfl rfl, rfl, S.lineMax, S.tight, S.listIndent, by simp [S.level],
        S.nodeKind, S.children, S.refs⟩
    obtain ⟨s2', htok', S2s⟩ := TK _ _ _ Sn htok
    obtain ⟨hl1, rfl⟩ := psub_ok hlvl
    have hlvl' : psub s2'.level 1 = .ok (s2'.level - 1) := psub_eq (by rw [S2s.level]; omega)
    replay_goal
    refine ⟨_, rfl, ?_⟩
    exact ⟨S2s.tbl.of_eq rfl rfl rfl rfl rfl rfl, S2s.line, S2s.lineMax, S2s.tight, S2s.listIndent,
      by simp [S2s.level]; omega, S2s.nodeKind, S2s.children, S2s.refs⟩

theorem prevEmptyEndOf_sim {s s' : BState} (S : Sim L s s') (m : Nat) :
    prevEmptyEndOf s' m = prevEmptyEndOf s m := by
  unfold prevEmptyEndOf
  simp only [S.line, S.tbl.isEmpty]

/-- the state the list rule hands to an item -/
abbrev nestItem (s : BState) (indent : Nat) : BState :=
  { s with nodeKind := .listItem, children := [], listIndent := some s.blkIndent, blkIndent := indent, tight := true }

/-- …and the state after the item, before its entry is restored -/
abbrev afterItem (S3 : BState) (li : Nat) (old : Option Nat) : BState :=
  { S3 with blkIndent := li, listIndent := old }

theorem listItem_sim {tok tok' : Tok} (hk : TokSpec tok) (_hk' : TokSpec tok') (TK : TokSim L tok tok')
    {s s' : BState} (S : Sim L s s') {m pos : Nat} {pee tight pee₂ tight₂ : Bool} {t : BState}
    (hmk : ∃ cur, s.getLine m = .ok cur ∧ MarkerW cur pos) (hline : s.line = m) (hlt : m < s.lineMax)
    (h : listItem tok s m pos pee tight = .ok (t, tight₂, pee₂)) :
    ∃ t', listItem tok' s' m pos pee tight = .ok (t', tight₂, pee₂) ∧ Sim L t t' := by
  have hspec := listItem_spec hk h hline hlt
  unfold listItem at h ⊢
  simp only [S.tbl.off]
  crack h
  rename_i o ho rw hrw S2 hS2 S3 hbody _ li hli S5 hS5 e he r hr hS' htight hpee
  obtain ⟨o₂, indent, re⟩ := rw
  obtain ⟨cur, hcur, hmw⟩ := hmk
  have eo := S.tbl.entry_of_off ho
  have hcur' : Lines.slice (Lines.flat L) o.firstNonspace o.lineEnd = .ok cur := by
    simp only [BState.getLine, Lines.getLine, off_ok ho, S.tbl.src] at hcur
    exact liftL_ok hcur
  have hrw0 := hrw
  rw [S.tbl.src] at hrw
  obtain ⟨hrw', eo₂, hbound⟩ := itemRewrite_sim S.tbl.lines eo hcur' hmw hrw
  rw [← S.tbl.src'] at hrw'
  simp only at hS2 hbody
  -- the item's state
  have S1 : Sim L (nestItem s indent) (nestItem s' indent) :=
    ⟨⟨S.tbl.lines, S.tbl.src, S.tbl.src', S.tbl.q, rfl, hbound⟩, S.line, S.lineMax, rfl,
      by simp [S.tbl.blk], S.level, .inl rfl, rfl, S.refs⟩
  obtain ⟨S2', hS2', SS2⟩ := S1.setOff hS2 eo₂
  obtain ⟨S3', hbody', SS3⟩ := listItemBody_sim TK SS2 hbody
  have hli' : S3'.listIndent = some li := by rw [SS3.listIndent]; exact hli
  -- `li` is the list's own block indent
  obtain ⟨hfr3, _, _⟩ := listItemBody_spec hk hbody (by rw [(setOff_ok hS2).2]; exact hline)
    (by rw [(setOff_ok hS2).2]; exact hlt) (by
      have := itemRewrite_spec hrw0
      refine item_cond (x := o₂) (by rw [(setOff_ok hS2).2]; simp [(setOff_ok hS2).1]) ?_
      rw [(setOff_ok hS2).2]
      exact this.2)
  have hlieq : li = s.blkIndent := by
    have : some li = some s.blkIndent := by rw [← hli, hfr3.listIndent, (setOff_ok hS2).2]
    exact Option.some.inj this
  have S4 : Sim L (afterItem S3 li s.listIndent) (afterItem S3' li s'.listIndent) :=
    ⟨⟨SS3.tbl.lines, SS3.tbl.src, SS3.tbl.src', SS3.tbl.q, rfl, by rw [hlieq]; exact S.tbl.small⟩, SS3.line,
      SS3.lineMax, SS3.tight, S.listIndent, SS3.level, SS3.nodeKind, SS3.children, SS3.refs⟩
  obtain ⟨S5', hS5', SS5⟩ := S4.setOff hS5 eo
  have hpee' := prevEmptyEndOf_sim SS3 m
  rw [hpee] at hpee'
  have he' : psub S5'.line 1 = .ok e := by rw [SS5.line]; exact he
  have T6 : Tbl L { S5 with tight := s.tight } { S5' with tight := s'.tight } := SS5.tbl.of_eq rfl rfl rfl rfl rfl rfl
  have hr' := T6.getMap m e
  rw [hr] at hr'
  -- the kind of the node pushed
  have hkind : S5.nodeKind = .listItem := by
    rw [(setOff_ok hS5).2]
    simp only
    rw [hfr3.nodeKind, (setOff_ok hS2).2]
  have hflag : (if ¬S3'.tight = true ∨ pee = true then false else tight)
      = (if ¬S3.tight = true ∨ pee = true then false else tight) := by rw [SS3.tight]
  clear hlieq hspec
  replay_goal
  try simp only [hflag]
  subst hS' htight
  refine ⟨_, rfl, ?_⟩
  refine ⟨SS5.tbl.of_eq rfl rfl rfl rfl rfl rfl, SS5.line, SS5.lineMax, by simp [S.tight], SS5.listIndent, SS5.level,
    by simpa using S.nodeKind, ?_, SS5.refs⟩
  have hkind' : S5'.nodeKind = .listItem := by
    rw [SS5.nodeKind.eq_of_ne_root (by rw [hkind]; simp), hkind]
  simp [S.children, relocNodes_append, relocNodes, relocNode, hkind', SS5.children, hkind, relocKind, sigma2]

theorem listContinue_sim {test test' : Test} (TS : TestSim L test test') {ordered : Bool} {mc : Char}
    {s s' t : BState} (S : Sim L s s') {c : Option Nat}
    (h : listContinue test ordered mc s s.line = .ok (c, t)) :
    t = s ∧ listContinue test' ordered mc s' s.line = .ok (c, s') ∧
      (∀ p, c = some p → ∃ cur, s.getLine s.line = .ok cur ∧ MarkerW cur p) := by
  have hpure := (listContinue_spec TS.pure h).1
  subst hpure
  refine ⟨rfl, ?_⟩
  unfold listContinue at h ⊢
  simp only [S.lineMax, S.tbl.lineIndent]
  crack h
  all_goals (try subst_vars)
  · replay_goal
    first | exact ⟨trivial, fun p hp => by cases hp⟩ | exact fun p hp => by cases hp
  · replay_goal
    first | exact ⟨trivial, fun p hp => by cases hp⟩ | exact fun p hp => by cases hp
  · replay_goal
    first | exact ⟨trivial, fun p hp => by cases hp⟩ | exact fun p hp => by cases hp
  · obtain ⟨hc, hst⟩ := h
    subst hc
    obtain ⟨h1, ht⟩ := TS.transfer S ‹test _ = _›
    have hself : ({ s' with line := s'.line } : BState) = s' := by cases s'; rfl
    replay_goal
    try simp only [hself]
    first | exact ⟨trivial, fun p hp => by cases hp⟩ | exact fun p hp => by cases hp
  · obtain ⟨hc, hst⟩ := h
    subst hc
    obtain ⟨h1, ht⟩ := TS.transfer S ‹test _ = _›
    have hself : ({ s' with line := s'.line } : BState) = s' := by cases s'; rfl
    have hcur := ‹BState.getLine _ _ = _›
    simp only [h1, set_line_back] at hcur
    have hcur2 : t.getLine t.line = _ := hcur
    have hcur' := (show s'.getLine s'.line = t.getLine t.line by rw [S.line, S.tbl.getLine]).trans hcur2
    replay_goal
    try simp only [hself, hcur', ok_bind]
    try replay_goal
    first | exact ⟨trivial, fun p hp => by cases hp⟩ | exact fun p hp => by cases hp
  · obtain ⟨hc, hst⟩ := h
    subst hc
    obtain ⟨h1, ht⟩ := TS.transfer S ‹test _ = _›
    have hself : ({ s' with line := s'.line } : BState) = s' := by cases s'; rfl
    have hcur := ‹BState.getLine _ _ = _›
    simp only [h1, set_line_back] at hcur
    have hcur2 : t.getLine t.line = _ := hcur
    have hcur' := (show s'.getLine s'.line = t.getLine t.line by rw [S.line, S.tbl.getLine]).trans hcur2
    replay_goal
    try simp only [hself, hcur', ok_bind]
    try replay_goal
    first | exact ⟨trivial, fun p hp => by cases hp⟩ | exact fun p hp => by cases hp
  · obtain ⟨hc, hst⟩ := h
    subst hc
    obtain ⟨h1, ht⟩ := TS.transfer S ‹test _ = _›
    have hself : ({ s' with line := s'.line } : BState) = s' := by cases s'; rfl
    have hcur := ‹BState.getLine _ _ = _›
    simp only [h1, set_line_back] at hcur
    have hcur2 : t.getLine t.line = _ := hcur
    have hcur' := (show s'.getLine s'.line = t.getLine t.line by rw [S.line, S.tbl.getLine]).trans hcur2
    have hskip := ‹(if ordered = true then _ else _) = some _›
    replay_goal
    try simp only [hself, hcur', ok_bind]
    try replay_goal
    first | refine ⟨trivial, fun p hp => ⟨_, rfl, ?_⟩⟩ | refine fun p hp => ⟨_, rfl, ?_⟩ | refine ⟨trivial, fun p hp => ⟨_, hcur2, ?_⟩⟩ | refine fun p hp => ⟨_, hcur2, ?_⟩
    cases hp
    cases ordered
    · exact skipBullet_marker (by simpa using hskip)
    · exact skipOrdered_marker (by simpa using hskip)

theorem listLoop_sim {tok tok' : Tok} {test test' : Test} (hk : TokSpec tok) (hk' : TokSpec tok')
    (TK : TokSim L tok tok') (TS : TestSim L test test') {ordered : Bool} {mc : Char} :
    ∀ (fuel : Nat) (s s' : BState) (m pos : Nat) (pee tight : Bool) (r : Nat × Bool × BState),
      Sim L s s' → s.line = m → m < s.lineMax → (∃ cur, s.getLine m = .ok cur ∧ MarkerW cur pos) →
      listLoop tok test ordered mc fuel s m pos pee tight = .ok r →
      ∃ S', listLoop tok' test' ordered mc fuel s' m pos pee tight = .ok (r.1, r.2.1, S') ∧ Sim L r.2.2 S' := by
  intro fuel
  induction fuel with
  | zero => intro s s' m pos pee tight r _ _ _ _ h; simp [listLoop] at h
  | succ f ih =>
    intro s s' m pos pee tight r S hline hlt hmk h
    simp only [listLoop] at h ⊢
    simp only [S.lineMax]
    crack h
    all_goals (try subst_vars)
    · rename_i wi wc hc _ hnone _ hitem
      obtain ⟨S1, t1, p1⟩ := wi
      obtain ⟨c, S2⟩ := wc
      obtain ⟨S1', hitem', SS1⟩ := listItem_sim hk hk' TK S hmk rfl hlt hitem
      simp only at hc hnone
      subst hnone
      obtain ⟨rfl, hc', _⟩ := listContinue_sim TS SS1 hc
      rw [← SS1.line] at hc'
      replay_goal
      rw [SS1.line]
      exact ⟨_, rfl, SS1⟩
    · rename_i wi wc hc _ p hsome _ hitem
      obtain ⟨S1, t1, p1⟩ := wi
      obtain ⟨c, S2⟩ := wc
      obtain ⟨S1', hitem', SS1⟩ := listItem_sim hk hk' TK S hmk rfl hlt hitem
      simp only at hc hsome h
      subst hsome
      obtain ⟨hfr, h1, _⟩ := listItem_spec hk hitem rfl hlt
      obtain ⟨_, hc2⟩ := listContinue_spec TS.pure hc
      obtain ⟨rfl, hc', hmk2⟩ := listContinue_sim TS SS1 hc
      rw [← SS1.line] at hc'
      have hlt2 := hc2 (by simp)
      obtain ⟨S', hrec, SS'⟩ := ih _ _ _ _ _ _ _ SS1 rfl hlt2 (hmk2 p rfl) h
      replay_goal
      rw [SS1.line]
      exact ⟨_, hrec, SS'⟩

theorem relocKind_paragraph (σ : Nat → Nat) (k : Kind) : (relocKind σ k = .paragraph) ↔ (k = .paragraph) := by
  cases k <;> simp [relocKind]

theorem relocKind_listItem (σ : Nat → Nat) (k : Kind) : (relocKind σ k = .listItem) ↔ (k = .listItem) := by
  cases k <;> simp [relocKind]

theorem markTight_reloc (σ : Nat → Nat) : ∀ cs : List BNode,
    markTight (relocNodes σ cs) = relocNodes σ (markTight cs)
  | [] => rfl
  | n :: r => by
    have ih := markTight_reloc σ r
    obtain ⟨k, rg, cs⟩ := n
    simp only [relocNodes, markTight, relocNode, relocKind_paragraph]
    split
    · rw [ih, relocNodes_append]
    · rw [ih]; simp [relocNodes, relocNode]

theorem tightenItems_reloc (σ : Nat → Nat) : ∀ cs : List BNode,
    tightenItems (relocNodes σ cs) = Except.map (relocNodes σ) (tightenItems cs)
  | [] => rfl
  | n :: r => by
    have ih := tightenItems_reloc σ r
    obtain ⟨k, rg, cs⟩ := n
    simp only [relocNodes, tightenItems, relocNode, ne_eq, relocKind_listItem]
    split
    · rfl
    · rw [ih]
      cases tightenItems r with
      | error e => rfl
      | ok r' =>
        simp only [Except.map, relocNodes, relocNode, markTight_reloc]

/-- the state the list rule iterates on -/
abbrev nestList (s : BState) (k : Kind) : BState :=
  { s with nodeKind := k, children := [], level := s.level + 1 }

theorem Sim.nestList {s s' : BState} (S : Sim L s s') (k : Kind) : Sim L (nestList s k) (nestList s' k) :=
  ⟨S.tbl.of_eq rfl rfl rfl rfl rfl rfl, S.line, S.lineMax, S.tight, S.listIndent, by simp [S.level], .inl rfl,
    rfl, S.refs⟩

theorem list_sim {tok tok' : Tok} {test test' : Test} (hk : TokSpec tok) (hk' : TokSpec tok')
    (TK : TokSim L tok tok') (TS : TestSim L test test') {fuel : Nat} {s s' : BState} (S : Sim L s s')
    (hl : s.line < s.lineMax) {b : Bool} {t : BState} (h : listRule tok test fuel s false = .ok (b, t)) :
    ∃ t', listRule tok' test' fuel s' false = .ok (b, t') ∧ Sim L t t' := by
  unfold listRule at h ⊢
  simp only [S.line, S.tbl.lineIndent, S.sameLook.special, S.tbl.getLine]
  crack h
  all_goals (try subst_vars)
  all_goals (try (replay_goal; exact ⟨_, rfl, S⟩))
  all_goals (try (have hx := ‹emptyItemCheck _ _ _ = Except.ok true›; simp [emptyItemCheck, pure, Except.pure] at hx))
  all_goals (
    have hE := ‹emptyItemCheck _ _ _ = _›
    simp only [decide_false] at hE
    have hloop := ‹listLoop _ _ _ _ _ _ _ _ _ _ = _›
    have htight := ‹(if _ then tightenItems _ else _) = Except.ok _›
    have hdet := ‹detectMarker _ = _›
    have hcur := ‹s.getLine s.line = _›
    have hmap := ‹BState.getMap _ _ _ = _›
    have hlvl := ‹psub (BState.level _) 1 = _›
    rename_i wl _ cs _ _ _ _ _ _ _
    obtain ⟨n, tg, S1⟩ := wl
    obtain ⟨S1', hloop', SS1⟩ := listLoop_sim hk hk' TK TS _ _ _ _ _ _ _ _ (S.nestList _) rfl hl
      ⟨_, hcur, detectMarker_marker hdet⟩ hloop
    simp only [nestList, S.line] at htight hmap hlvl hloop' SS1
    have htight' : (if tg = true then tightenItems S1'.children else Except.ok S1'.children)
        = .ok (relocNodes (sigma L) cs) := by
      rw [SS1.children]
      split at htight
      · rw [if_pos ‹_›, tightenItems_reloc, htight]; rfl
      · rw [if_neg ‹_›]
        simp [pure, Except.pure] at htight ⊢
        rw [htight]
    obtain ⟨hl1, rfl⟩ := psub_ok hlvl
    have hlvl' : psub S1'.level 1 = .ok (S1'.level - 1) := psub_eq (by rw [SS1.level]; omega)
    have hmap' := SS1.tbl.getMap s.line
    replay_goal
    simp only [Bool.false_and, Bool.false_eq_true, if_false, hloop', ok_bind, htight', hlvl', hmap', hmap, map_ok',
      ‹psub n 1 = _›]
    refine ⟨_, rfl, ?_⟩
    obtain ⟨hfr, _⟩ := listLoop_spec hk TS.pure _ _ _ _ _ _ _ _ _ hloop rfl hl
    refine ⟨SS1.tbl.of_eq rfl rfl rfl rfl rfl rfl, SS1.line, SS1.lineMax, SS1.tight, SS1.listIndent,
      by simp [SS1.level]; omega, by simpa using S.nodeKind, ?_, SS1.refs⟩
    have hk1 : S1.nodeKind ≠ .root := by rw [hfr.nodeKind]; cases ‹Option Nat› <;> simp
    simp [S.children, relocNodes_append, relocNodes, relocNode, SS1.nodeKind.eq_of_ne_root hk1, hfr.nodeKind,
      relocKind, sigma2])
end item






/-! ### the tokenizers correspond -/

section tok
variable {L : DLines}

theorem skipEmpty_congr {offs offs' : List LineOffset} (h : ∀ n, Lines.isEmpty offs' n = Lines.isEmpty offs n)
    (lm line : Nat) : Lines.skipEmptyLines offs' lm line = Lines.skipEmptyLines offs lm line := by
  fun_induction Lines.skipEmptyLines offs lm line with
  | case1 line hc ih =>
    rw [Lines.skipEmptyLines, dif_pos (by rw [h]; exact hc)]
    exact ih
  | case2 line hc =>
    rw [Lines.skipEmptyLines, dif_neg (by rw [h]; exact hc)]

/-- a chain rule on `D` and on the prefixed document -/
def RunSim (L : DLines) (run run' : RuleId → BState → Bool → Res) : Prop :=
  ∀ r s s' b t, Sim L s s' → s.line < s.lineMax → IndentOk s → run r s false = .ok (b, t) →
    ∃ t', run' r s' false = .ok (b, t') ∧ Sim L t t'

theorem runChain_sim {run run' : RuleId → BState → Bool → Res} (hr : RunSpec run) (R : RunSim L run run') :
    ∀ (chain : List RuleId) (s s' : BState) (b : Bool) (t : BState), Sim L s s' → s.line < s.lineMax →
      IndentOk s → runChain run chain s false = .ok (b, t) →
      ∃ t', runChain run' chain s' false = .ok (b, t') ∧ Sim L t t' := by
  intro chain
  induction chain with
  | nil =>
    intro s s' b t S _ _ h
    simp [runChain] at h
    obtain ⟨rfl, rfl⟩ := h
    exact ⟨s', rfl, S⟩
  | cons r rs ih =>
    intro s s' b t S hl hi h
    simp only [runChain] at h ⊢
    split at h
    · cases h
    · rename_i s1 h1
      cases h
      obtain ⟨t', h1', S1⟩ := R _ _ _ _ _ S hl hi h1
      rw [h1']
      exact ⟨t', rfl, S1⟩
    · rename_i s1 h1
      obtain ⟨t', h1', S1⟩ := R _ _ _ _ _ S hl hi h1
      have := hr.false_same _ _ _ h1
      subst this
      rw [h1']
      simp only
      -- the primed state is unchanged as well: it is related to the same `s`; continue with it
      exact ih _ _ _ _ S1 hl hi h

theorem afterChain_sim {ok : Bool} {s s' t : BState} {prev : Nat} (S : Sim L s s')
    (h : afterChain ok s prev = .ok t) : ∃ t', afterChain ok s' prev = .ok t' ∧ Sim L t t' := by
  unfold afterChain at h ⊢
  simp only [S.line, S.tbl.getLine, S.tbl.off]
  crack h
  all_goals (try subst_vars)
  · replay_goal
    exact ⟨_, rfl, S⟩
  · rename_i line hline o hoff
    have eo := S.tbl.entry_of_off hoff
    have hb := entry_bounds eo
    have hsig : sigma L o.firstNonspace = (shiftEntry s.line o).firstNonspace := by
      rw [sigma_of_entry S.tbl.lines eo hb.1 hb.2]; simp [shiftEntry]
    replay_goal
    refine ⟨_, rfl, ?_⟩
    sim_close S
    rw [← hsig]

theorem Sim.setLineTight {s s' : BState} (S : Sim L s s') (l : Nat) (tg : Bool) :
    Sim L { s with line := l, tight := tg } { s' with line := l, tight := tg } :=
  ⟨S.tbl.of_eq rfl rfl rfl rfl rfl rfl, rfl, S.lineMax, rfl, S.listIndent, S.level, S.nodeKind, S.children, S.refs⟩

theorem tokLoop_sim {cfg cfg' : Cfg} (hc : cfg'.chain = cfg.chain) (hm : cfg'.maxNesting = cfg.maxNesting + 1)
    {run run' : RuleId → BState → Bool → Res} (hr : RunSpec run) (R : RunSim L run run') :
    ∀ (fuel : Nat) (he : Bool) (s s' t : BState), Sim L s s' → tokLoop cfg run fuel he s = .ok t →
      ∃ t', tokLoop cfg' run' fuel he s' = .ok t' ∧ Sim L t t' := by
  intro fuel
  induction fuel with
  | zero => intro he s s' t _ h; simp [tokLoop] at h
  | succ f ih =>
    intro he s s' t S h
    simp only [tokLoop] at h ⊢
    generalize hl' : Lines.skipEmptyLines s.offs s.lineMax s.line = l' at h
    have hskip : Lines.skipEmptyLines s'.offs s'.lineMax s'.line = l' := by
      rw [S.lineMax, S.line, ← hl']
      exact skipEmpty_congr (fun n => S.tbl.isEmpty n) _ _
    have hc1 : (s'.line < s'.lineMax) = (s.line < s.lineMax) := by rw [S.line, S.lineMax]
    have hc2 : (l' ≥ s'.lineMax) = (l' ≥ s.lineMax) := by rw [S.lineMax]
    have hc3 : (s'.level ≥ cfg'.maxNesting) = (s.level ≥ cfg.maxNesting) := by
      rw [S.level, hm]; simp
    simp only [hskip, hc, hc1, hc2, hc3]
    have Sl := S.setLine l'
    have hind' := Sl.tbl.lineIndent l'
    clear hl' hskip
    crack h
    · subst_vars
      replay_goal
      exact ⟨_, rfl, S⟩
    · subst_vars
      replay_goal
      exact ⟨_, rfl, Sl⟩
    · subst_vars
      replay_goal
      exact ⟨_, rfl, Sl⟩
    · subst_vars
      replay_goal
      refine ⟨_, rfl, ?_⟩
      exact ⟨S.tbl.of_eq rfl rfl rfl rfl rfl rfl, S.lineMax, S.lineMax, S.tight, S.listIndent, S.level, S.nodeKind,
        S.children, S.refs⟩
    all_goals (
      have hchain := ‹runChain _ _ _ _ = _›
      have hafter := ‹afterChain _ _ _ = _›
      have hind := ‹BState.lineIndent _ _ = _›
      have hpsub := ‹psub _ 1 = _›
      rename_i w _ s3 _ _ _ _
      obtain ⟨b, s2⟩ := w
      obtain ⟨s2', hchain', Sw⟩ := runChain_sim hr R _ _ _ _ _ Sl (by simp only; omega) ⟨_, hind, by omega⟩ hchain
      obtain ⟨s3', hafter', S3⟩ := afterChain_sim Sw hafter
      have T3 : Tbl L { s3 with tight := !he } { s3' with tight := !he } := S3.tbl.of_eq rfl rfl rfl rfl rfl rfl
      have hpsub' := (show psub s3'.line 1 = psub s3.line 1 by rw [S3.line]).trans hpsub
      have hcA : (s3'.line < s3'.lineMax) = (s3.line < s3.lineMax) := by rw [S3.line, S3.lineMax]
      have hemp := T3.isEmpty
      simp only at hchain' hafter'
      replay_goal
      simp only [hemp, S3.line]
      replay_goal)
    · exact ih _ _ _ _ (by have := S3.setLineTight (s3.line + 1) (!he); simpa using this) h
    · exact ih _ _ _ _ (by have := S3.setLineTight s3.line (!he); simpa using this) h

/-- the two configurations: the same chain and tables, one more level of nesting allowed -/
structure CfgRel (cfg cfg' : Cfg) : Prop where
  chain : cfg'.chain = cfg.chain
  nesting : cfg'.maxNesting = cfg.maxNesting + 1
  lookup : cfg'.lookup = cfg.lookup
  lower : cfg'.L = cfg.L
  upper : cfg'.U = cfg.U

theorem testRules_sim {cfg cfg' : Cfg} (C : CfgRel cfg cfg') (fuel : Nat) :
    TestSim L (testRules cfg fuel) (testRules cfg' fuel) :=
  ⟨testRules_pure cfg fuel, testRules_pure cfg' fuel,
   fun _ _ S => testRules_same_view cfg cfg' C.chain fuel S.sameLook⟩

theorem runRule_sim {cfg cfg' : Cfg} (C : CfgRel cfg cfg') {tok tok' : Tok} {test test' : Test}
    (hk : TokSpec tok) (hk' : TokSpec tok') (TK : TokSim L tok tok') (TS : TestSim L test test') (fuel : Nat) :
    RunSim L (runRule cfg tok test fuel) (runRule cfg' tok' test' fuel) := by
  intro r s s' b t S hl hi h
  cases r <;> simp only [runRule] at h ⊢
  · exact code_sim S h
  · exact fence_sim S hi h
  · exact blockquote_sim hk hk' TK TS S h
  · exact hr_sim S h
  · exact list_sim hk hk' TK TS S hl h
  · exact reference_sim ⟨C.lookup, C.lower, C.upper⟩ TS S h
  · exact heading_sim S h
  · exact lheading_sim TS S h
  · exact paragraph_sim TS S h

/-- **the nested tokenizer on the prefixed document simulates the tokenizer on `D`**, for every fuel -/
theorem tokenize_sim {cfg cfg' : Cfg} (C : CfgRel cfg cfg') :
    ∀ fuel : Nat, TokSim L (tokenize cfg fuel) (tokenize cfg' fuel) := by
  intro fuel
  induction fuel with
  | zero => intro s s' t _ h; simp [tokenize, engine] at h
  | succ f ih =>
    intro s s' t S h
    simp only [tokenize, engine] at h ⊢
    have hk := tokenize_tokSpec cfg f
    have hk' := tokenize_tokSpec cfg' f
    have TS := testRules_sim (L := L) C f
    exact tokLoop_sim C.chain C.nesting (runRule_spec hk TS.pure _)
      (runRule_sim C hk hk' ih TS _) _ _ _ _ _ S h
end tok



/-! ### the line tables of `D` and of the prefixed document -/

open MdIt.Lines (IsTerminator)

theorem lineOf_append {l x : List Char} (hl : NoTerm l)
    (hx : x = [] ∨ ∃ c r, x = c :: r ∧ (c = '\n' ∨ c = '\r')) :
    Lines.lineOf (l ++ x) = l ∧ Lines.afterLine (l ++ x) = x := by
  induction l with
  | nil =>
    rcases hx with rfl | ⟨c, r, rfl, hc⟩
    · simp [Lines.lineOf, Lines.afterLine]
    · have : Lines.notTerm c = false := by
        rcases hc with rfl | rfl <;> decide
      simp [Lines.lineOf, Lines.afterLine, List.takeWhile, List.dropWhile, this]
  | cons c r ih =>
    have hc := hl c (by simp)
    have hn : Lines.notTerm c = true := Lines.notTerm_iff.mpr hc
    have := ih hl.tail
    simp only [Lines.lineOf, Lines.afterLine, List.cons_append, List.takeWhile, List.dropWhile, hn] at this ⊢
    simp [this.1, this.2]

theorem termOf_terminator {t x : List Char} (ht : IsTerminator t)
    (hx : ∀ c r, x = c :: r → c ≠ '\n') : Lines.termOf (t ++ x) = (t, x) := by
  rcases ht with rfl | rfl | rfl
  · simp [Lines.termOf]
  · simp only [Lines.termOf, List.cons_append, List.nil_append]
    rw [if_neg]
    rintro ⟨_, h⟩
    cases x with
    | nil => simp at h
    | cons c r => simp at h; exact hx c r rfl h
  · simp [Lines.termOf]

/-- the shape `Lines.linesT` guarantees (`linesT_shape`) -/
def LShape (L : DLines) : Prop :=
  ∀ (i : Nat) (lt : List Char × List Char), L[i]? = some lt →
    NoTerm lt.1 ∧ (IsTerminator lt.2 ∨ (lt.2 = [] ∧ i + 1 = L.length))

theorem LShape.tail {lt : List Char × List Char} {r : DLines} (h : LShape (lt :: r)) : LShape r := by
  intro i x hx
  have := h (i + 1) x (by simpa using hx)
  simpa using this

/-- a list of non-empty lines of that shape is the line decomposition of its concatenation -/
theorem linesT_flat_of_shape : ∀ (L : DLines), L ≠ [] → LShape L → (∀ lt ∈ L, lt.1 ≠ []) →
    Lines.linesT (Lines.flat L) = L
  | [], h, _, _ => absurd rfl h
  | [lt], _, hs, _ => by
    obtain ⟨hn, ht⟩ := hs 0 lt rfl
    have hx : lt.2 = [] ∨ ∃ c r, lt.2 = c :: r ∧ (c = '\n' ∨ c = '\r') := by
      rcases ht with ht | ⟨ht, _⟩
      · right
        rcases ht with h | h | h <;> simp [h]
      · left; exact ht
    have := lineOf_append hn hx
    rw [Lines.linesT]
    simp only [Lines.flat_cons, Lines.flat_nil, List.append_nil, this.1, this.2]
    have hterm : (Lines.termOf lt.2) = (lt.2, []) := by
      rcases ht with ht | ⟨ht, _⟩
      · have := termOf_terminator (x := []) ht (by simp)
        simpa using this
      · rw [ht]; rfl
    simp [hterm]
  | lt :: lt2 :: r, _, hs, hne => by
    obtain ⟨hn, ht⟩ := hs 0 lt rfl
    have ht' : IsTerminator lt.2 := by
      rcases ht with ht | ⟨_, h⟩
      · exact ht
      · simp at h
    have ih := linesT_flat_of_shape (lt2 :: r) (by simp) hs.tail (fun x hx => hne x (List.mem_cons_of_mem _ hx))
    -- what follows the terminator starts with a character of `lt2`'s (non-empty) line
    obtain ⟨hn2, _⟩ := hs 1 lt2 rfl
    have hne2 := hne lt2 (by simp)
    obtain ⟨c2, r2, hc2⟩ : ∃ c r, lt2.1 = c :: r := by
      cases h : lt2.1 with
      | nil => exact absurd h hne2
      | cons c r => exact ⟨c, r, rfl⟩
    have hc2n := hn2 c2 (by rw [hc2]; simp)
    have hX : ∀ c r', Lines.flat (lt2 :: r) = c :: r' → c ≠ '\n' := by
      intro c r' h
      simp only [Lines.flat_cons, hc2, List.cons_append, List.cons.injEq] at h
      rw [← h.1]; exact hc2n.1
    have hXne : Lines.flat (lt2 :: r) ≠ [] := by simp [hc2]
    have hx : (lt.2 ++ Lines.flat (lt2 :: r)) = [] ∨
        ∃ c r', lt.2 ++ Lines.flat (lt2 :: r) = c :: r' ∧ (c = '\n' ∨ c = '\r') := by
      right
      rcases ht' with h | h | h <;> simp [h]
    have hla := lineOf_append (x := lt.2 ++ Lines.flat (lt2 :: r)) hn hx
    have hterm := termOf_terminator ht' hX
    rw [Lines.linesT]
    simp only [Lines.flat_cons] at hla hterm ih hXne ⊢
    rw [show lt.1 ++ lt.2 ++ (lt2.1 ++ lt2.2 ++ Lines.flat r) = lt.1 ++ (lt.2 ++ (lt2.1 ++ lt2.2 ++ Lines.flat r)) by simp,
      hla.1, hla.2, hterm]
    simp only [hXne, if_false, ih]

section outer
variable {L : DLines}

theorem prefixLines_getElem (L : DLines) (i : Nat) (h : i < L.length) :
    (prefixLines L)[i]'(by rw [prefixLines_length]; exact h) = ('>' :: ' ' :: L[i].1, L[i].2) := by
  simp [prefixLines]

/-- the entry `generate_caches` makes for line `i` of a document given by its lines -/
def freshEntry (L : DLines) (i : Nat) : LineOffset :=
  match L[i]? with
  | some lt => mkOff (startOf L i) lt
  | none => ⟨0, 0, 0, 0⟩

theorem offsetsOf_entry (L : DLines) (i : Nat) (h : i < L.length) :
    (Lines.offsetsOf 0 L)[i]? = some (freshEntry L i) := by
  have hlen : i < (Lines.offsetsOf 0 L).length := by simpa using h
  obtain ⟨A, lt, B, hL, hA, ho⟩ := Lines.offsetsOf_getElem? (List.getElem?_eq_getElem hlen)
  rw [List.getElem?_eq_getElem hlen, ho]
  have hA' : A = L.take i := by
    rw [hL, ← hA]; simp
  have hlt : L[i]? = some lt := by rw [hL, ← hA]; simp
  simp [freshEntry, hlt, startOf, hA']

/-- the fresh entry of a line, shifted, is the entry `quote_view` computes for the prefixed line -/
theorem shift_fresh (hL : LinesOk L) (i : Nat) (h : i < L.length) :
    shiftEntry i (freshEntry L i)
      = ⟨startOf (prefixLines L) i, startOf (prefixLines L) i + 2 + Lines.byteLen L[i].1,
         startOf (prefixLines L) i + 2 + (lead L[i].1).length, ((lead L[i].1).length : Int)⟩ := by
  have htab : '\t' ∉ lead L[i].1 := fun hc =>
    hL.tabfree L[i] (List.getElem_mem h) ((List.takeWhile_sublist _).subset hc)
  simp only [freshEntry, List.getElem?_eq_getElem h, shiftEntry, mkOff, startOf_prefix L i (by omega),
    indentWidth_tabfree _ htab]
  congr 1 <;> omega

theorem entryOk_fresh (hL : LinesOk L) (i : Nat) (h : i < L.length) : EntryOk L i (freshEntry L i) := by
  have htab : '\t' ∉ lead L[i].1 := fun hc =>
    hL.tabfree L[i] (List.getElem_mem h) ((List.takeWhile_sublist _).subset hc)
  refine ⟨L[i].1, L[i].2, lead L[i].1, L[i].1.dropWhile Lines.isBlank, by simp [List.getElem?_eq_getElem h],
    (Lines.lead_append_rest _).symm, ?_, ?_, ?_, ?_⟩
  · simp [freshEntry, List.getElem?_eq_getElem h, mkOff]
  · simp [freshEntry, List.getElem?_eq_getElem h, mkOff, Lines.byteLen_lead]
  · have := congrArg Lines.byteLen (Lines.lead_append_rest L[i].1)
    simp only [Lines.byteLen_append] at this
    simp [freshEntry, List.getElem?_eq_getElem h, mkOff]
    omega
  · simp [freshEntry, List.getElem?_eq_getElem h, mkOff, indentWidth_tabfree _ htab]

/-- the state's table holds the fresh entries of the prefixed document from line `m` on -/
structure FreshFrom (L : DLines) (m : Nat) (s' : BState) : Prop where
  src : s'.src = Lines.flat (prefixLines L)
  lineMax : s'.lineMax = L.length
  blk : s'.blkIndent = 0
  len : s'.offs.length = L.length
  fresh : ∀ i, m ≤ i → i < L.length → s'.offs[i]? = some (freshEntry (prefixLines L) i)

/-- reading line `i` of the prefixed document through its fresh entry -/
theorem fresh_prefixed_reads (hL : LinesOk L) {m : Nat} {s' : BState} (F : FreshFrom L m s') {i : Nat}
    (hmi : m ≤ i) (hi : i < L.length) :
    s'.lineIndent i = .ok 0 ∧ s'.getLine i = .ok ('>' :: ' ' :: L[i].1) ∧
    s'.off i = .ok (freshEntry (prefixLines L) i) ∧
    ∃ le, bqRewrite s'.src (freshEntry (prefixLines L) i) (' ' :: L[i].1) = .ok (shiftEntry i (freshEntry L i), le) := by
  have hi' : i < (prefixLines L).length := by rw [prefixLines_length]; exact hi
  have ho := F.fresh i hmi hi
  have hent : freshEntry (prefixLines L) i = mkOff (startOf (prefixLines L) i) ('>' :: ' ' :: L[i].1, L[i].2) := by
    simp [freshEntry, List.getElem?_eq_getElem hi', prefixLines_getElem L i hi]
  have hsplit := flat_split (prefixLines L) i hi'
  rw [prefixLines_getElem L i hi] at hsplit
  simp only at hsplit
  have hview := Lines.mkOff_view (Lines.flat ((prefixLines L).take i)) ('>' :: ' ' :: L[i].1)
    (L[i].2 ++ Lines.flat ((prefixLines L).drop (i + 1))) L[i].2
  rw [← hsplit] at hview
  have hlead : lead ('>' :: ' ' :: L[i].1) = [] := lead_cons_nonblank _ (by decide)
  have hdrop : ('>' :: ' ' :: L[i].1).dropWhile Lines.isBlank = '>' :: ' ' :: L[i].1 := by
    simp [List.dropWhile, show Lines.isBlank '>' = false by decide]
  simp only [Lines.view, hlead, hdrop, Prod.mk.injEq] at hview
  have hst : Lines.byteLen (Lines.flat ((prefixLines L).take i)) = startOf (prefixLines L) i := rfl
  rw [hst, ← hent] at hview
  have htab : '\t' ∉ L[i].1 := hL.tabfree L[i] (List.getElem_mem hi)
  have hq := quote_view (Lines.flat ((prefixLines L).take i)) L[i].1
    (L[i].2 ++ Lines.flat ((prefixLines L).drop (i + 1))) L[i].2 htab
  rw [← hsplit, hst, ← hent] at hq
  refine ⟨?_, ?_, ?_, (lead L[i].1).length == Lines.byteLen L[i].1, ?_⟩
  · simp only [BState.lineIndent, Lines.lineIndent, ho, F.blk, liftL_ok', hview.2.2]
    simp [Lines.indentWidth, Lines.widthFrom]
  · have := hview.2.1
    unfold Lines.lineText at this
    simp only [BState.getLine, Lines.getLine, ho, F.src, this, liftL_ok']
  · simp [BState.off, ho]
  · rw [F.src, hq, shift_fresh hL i hi]

/-- the block-quote scan over the prefixed document takes every line: from line `m` on, each fresh
    entry becomes the shifted fresh entry of the same line of `D` -/
theorem bqScan_prefixed (hL : LinesOk L) {test' : Test} :
    ∀ (d m fuel : Nat) (s' : BState) (old : List LineOffset) (le : Bool), m + d = L.length → d < fuel →
      FreshFrom L m s' →
      ∃ old' S', bqScan test' fuel s' m old le = .ok (L.length, old', S') ∧ SameBut s' S' ∧
        (∀ i, i < m → S'.offs[i]? = s'.offs[i]?) ∧
        (∀ i, m ≤ i → i < L.length → S'.offs[i]? = some (shiftEntry i (freshEntry L i))) := by
  intro d
  induction d with
  | zero =>
    intro m fuel s' old le hm hf F
    obtain ⟨f, rfl⟩ : ∃ f, fuel = f + 1 := ⟨fuel - 1, by omega⟩
    refine ⟨old, s', ?_, SameBut.refl _, fun _ _ => rfl, fun i h1 h2 => by omega⟩
    simp only [bqScan]
    rw [if_pos (by rw [F.lineMax]; omega)]
    rw [show m = L.length by omega]
  | succ d ih =>
    intro m fuel s' old le hm hf F
    obtain ⟨f, rfl⟩ : ∃ f, fuel = f + 1 := ⟨fuel - 1, by omega⟩
    have hmL : m < L.length := by omega
    obtain ⟨hind, hline, hoff, le₂, hrw⟩ := fresh_prefixed_reads hL F (Nat.le_refl m) hmL
    have hmo : m < s'.offs.length := by rw [F.len]; exact hmL
    -- the state after rewriting line `m`
    have F2 : FreshFrom L (m + 1) { s' with offs := s'.offs.set m (shiftEntry m (freshEntry L m)) } :=
      ⟨F.src, F.lineMax, F.blk, by simp [F.len], fun i h1 h2 => by
        simp only [List.getElem?_set]
        rw [if_neg (by omega)]
        exact F.fresh i (by omega) h2⟩
    obtain ⟨old', S', hrec, hsb, hlt, hge⟩ := ih (m + 1) f _ (old ++ [freshEntry (prefixLines L) m]) le₂
      (by omega) (by omega) F2
    refine ⟨old', S', ?_, ?_, ?_, ?_⟩
    · simp only [bqScan]
      rw [if_neg (by rw [F.lineMax]; omega)]
      simp only [hind, hline, ok_bind, hoff, hrw, BState.setOff, hmo, if_true]
      first | exact hrec | (rw [if_pos (by simp)]; exact hrec) | (simp only [ok_bind]; exact hrec)
    · exact ⟨hsb.src, hsb.blkIndent, hsb.lineMax, hsb.tight, hsb.listIndent, hsb.level, hsb.nodeKind,
        hsb.children, hsb.refs, by rw [hsb.len]; simp⟩
    · intro i hi
      rw [hlt i (by omega)]
      simp only [List.getElem?_set]
      rw [if_neg (by omega)]
    · intro i h1 h2
      by_cases hmi : i = m
      · subst hmi
        rw [hlt i (by omega)]
        simp [hmo]
      · exact hge i (by omega) h2
end outer

/-! ### the outer run on the prefixed document -/

/-- the rules that may stand in front of the block-quote rule in the chain -/
def frontOk : RuleId → Bool
  | .code | .fence | .hr | .list | .reference | .heading => true
  | _ => false

/-- a front rule rejects a line that starts with `>` at indent 0 (outside any list) -/
theorem front_rejects {cfg : Cfg} {tok : Tok} {test : Test} {fuel : Nat} {r : RuleId} (hr : frontOk r = true)
    {s : BState} {rest : List Char} (hind : s.lineIndent s.line = .ok 0)
    (hline : s.getLine s.line = .ok ('>' :: rest)) (hli : s.listIndent = none) :
    runRule cfg tok test fuel r s false = .ok (false, s) := by
  cases r <;> simp [frontOk] at hr
  · simp [runRule, codeRule, hind, pure, Except.pure]
  · simp [runRule, fenceRule, hind, hline, pure, Except.pure]
  · simp [runRule, hrRule, hind, hline, pure, Except.pure]
  · simp [runRule, listRule, hind, hline, listSpecial, hli, detectMarker, skipOrdered, skipBullet, isDigit,
      pure, Except.pure]
  · simp [runRule, referenceRule, hind, hline, pure, Except.pure]
  · simp [runRule, headingRule, hind, hline, pure, Except.pure]

theorem runChain_front {run : RuleId → BState → Bool → Res} {s : BState}
    (hrej : ∀ r, frontOk r = true → run r s false = .ok (false, s)) :
    ∀ (pre : List RuleId) (post : List RuleId), (∀ r ∈ pre, frontOk r = true) →
      runChain run (pre ++ post) s false = runChain run post s false := by
  intro pre
  induction pre with
  | nil => intro post _; rfl
  | cons r rs ih =>
    intro post h
    simp only [List.cons_append, runChain, hrej r (h r (by simp))]
    exact ih post (fun x hx => h x (List.mem_cons_of_mem _ hx))

/-- the entries `generate_caches` makes have a non-negative indent -/
theorem splitLines_indent_nonneg (D : List Char) {i : Nat} {o : LineOffset}
    (h : (Lines.splitLines D)[i]? = some o) : 0 ≤ o.indentNonspace := by
  obtain ⟨A, lt, B, _, _, rfl, _⟩ := Lines.split_entry h
  simp [mkOff]

/-- at the top level the tokenizer consumes every line -/
theorem tokenize_fresh_end {cfg : Cfg} {F : Nat} {D : List Char} {k : Kind} {refs : Refs.RefMap} {t : BState}
    (h : tokenize cfg F (BState.fresh D k refs) = .ok t) : t.line = (Lines.splitLines D).length := by
  obtain ⟨_, hup, _, hfr⟩ := tokenize_progress h
  have hle := hup (tableOk_fresh D k refs) (by simp [BState.fresh])
  have hlm : t.lineMax = (Lines.splitLines D).length := by rw [hfr.lineMax]; rfl
  rcases tokenize_exit h with hx | ⟨i, hi, hneg⟩
  · simp only [BState.fresh] at hle; omega
  · exfalso
    unfold BState.lineIndent Lines.lineIndent at hi
    rw [hfr.offs, hfr.blkIndent] at hi
    simp only [BState.fresh] at hi
    cases ho : (Lines.splitLines D)[t.line]? with
    | none => simp [ho, liftL] at hi
    | some o =>
      have := splitLines_indent_nonneg D ho
      simp [ho, liftL] at hi
      omega

/-- the document with `"> "` in front of every line (blank lines included; terminators kept) -/
def prefixQuote (D : List Char) : List Char := Lines.flat (prefixLines (Lines.linesT D))

theorem lshape_linesT (D : List Char) : LShape (Lines.linesT D) :=
  fun i lt h => Lines.linesT_shape D i lt h

theorem linesOk_linesT (D : List Char) (htab : '\t' ∉ D) (hsize : Lines.byteLen D + 8 < 2147483648) :
    LinesOk (Lines.linesT D) := by
  have hflat := Lines.linesT_flat D
  refine ⟨?_, ?_, ?_, by rw [hflat]; exact hsize⟩
  · intro lt hlt
    obtain ⟨i, hi⟩ := List.getElem?_of_mem hlt
    exact (lshape_linesT D i lt hi).1
  · intro lt hlt hc
    apply htab
    rw [← hflat]
    simp only [Lines.flat, List.mem_flatMap]
    exact ⟨lt, hlt, by simp [hc]⟩
  · intro i hi
    have hlt : i < (Lines.linesT D).length := by omega
    have := (lshape_linesT D i _ (List.getElem?_eq_getElem hlt)).2
    rcases this with h | ⟨_, h⟩
    · rcases h.byteLen with h | h <;> omega
    · omega

theorem lshape_prefix {L : DLines} (h : LShape L) : LShape (prefixLines L) := by
  intro i lt hi
  simp only [prefixLines, List.getElem?_map] at hi
  cases hL : L[i]? with
  | none => simp [hL] at hi
  | some x =>
    simp only [hL, Option.map_some, Option.some.injEq] at hi
    subst hi
    obtain ⟨h1, h2⟩ := h i x hL
    refine ⟨?_, by simpa [prefixLines] using h2⟩
    intro c hc
    simp at hc
    rcases hc with rfl | rfl | hc
    · decide
    · decide
    · exact h1 c hc

theorem linesT_prefixQuote (D : List Char) :
    Lines.linesT (prefixQuote D) = prefixLines (Lines.linesT D) := by
  unfold prefixQuote
  apply linesT_flat_of_shape
  · have := Lines.linesT_ne_nil D
    simp [prefixLines, this]
  · exact lshape_prefix (lshape_linesT D)
  · intro lt hlt
    simp only [prefixLines, List.mem_map] at hlt
    obtain ⟨x, _, rfl⟩ := hlt
    simp

theorem splitLines_prefixQuote (D : List Char) :
    Lines.splitLines (prefixQuote D) = Lines.offsetsOf 0 (prefixLines (Lines.linesT D)) := by
  rw [Lines.splitLines_eq, linesT_prefixQuote]

theorem byteLen_prefixQuote (D : List Char) :
    Lines.byteLen (prefixQuote D) = Lines.byteLen D + 2 * (Lines.linesT D).length := by
  have h := startOf_prefix (Lines.linesT D) (Lines.linesT D).length (Nat.le_refl _)
  unfold startOf at h
  rw [List.take_of_length_le (by rw [prefixLines_length]; exact Nat.le_refl _), List.take_of_length_le (Nat.le_refl _),
    Lines.linesT_flat] at h
  exact h

/-- the block-quote rule on the prefixed document, given the run on `D` -/
theorem blockquote_on_prefixed {cfg cfg' : Cfg} (C : CfgRel cfg cfg') (D : List Char) (htab : '\t' ∉ D)
    (hsize : Lines.byteLen D + 8 < 2147483648) {G : Nat} (hG : (Lines.linesT D).length < G + 1) {t : BState}
    (ht : tokenize cfg G (BState.fresh D .root []) = .ok t) :
    ∃ (t1 : BState) (r : Nat × Nat),
      blockquoteRule (tokenize cfg' G) (testRules cfg' G) (G + 1) (BState.fresh (prefixQuote D) .root []) false
        = .ok (true, t1) ∧
      t1.line = (Lines.linesT D).length ∧ t1.lineMax = (Lines.linesT D).length ∧ t1.nodeKind = .root ∧
      t1.refs = t.refs ∧
      t1.children = [⟨.blockquote, some r, relocNodes (sigma (Lines.linesT D)) t.children⟩] ∧
      Lines.getMap (Lines.splitLines (prefixQuote D)) 0 ((Lines.linesT D).length - 1) = .ok r := by
  obtain ⟨L, hLdef⟩ : ∃ L, L = Lines.linesT D := ⟨_, rfl⟩
  rw [← hLdef] at hG ⊢
  have hL : LinesOk L := by rw [hLdef]; exact linesOk_linesT D htab hsize
  have hflat : Lines.flat L = D := by rw [hLdef]; exact Lines.linesT_flat D
  have hn1 : 1 ≤ L.length := by
    have := Lines.linesT_ne_nil D
    rw [← hLdef] at this
    cases L with
    | nil => exact absurd rfl this
    | cons a b => simp
  obtain ⟨s0, hs0⟩ : ∃ s0, s0 = BState.fresh D .root [] := ⟨_, rfl⟩
  obtain ⟨s0', hs0'⟩ : ∃ s0', s0' = BState.fresh (prefixQuote D) .root [] := ⟨_, rfl⟩
  rw [← hs0] at ht
  rw [← hs0']
  -- the two fresh tables
  have hoffs0 : s0.offs = Lines.offsetsOf 0 L := by rw [hs0, hLdef]; exact Lines.splitLines_eq D
  have hoffs0' : s0'.offs = Lines.offsetsOf 0 (prefixLines L) := by
    rw [hs0', hLdef]; exact splitLines_prefixQuote D
  have hlen0 : s0.offs.length = L.length := by rw [hoffs0]; simp
  have hlen0' : s0'.offs.length = L.length := by rw [hoffs0']; simp [prefixLines_length]
  have hlm0 : s0.lineMax = L.length := by rw [← hlen0, hs0]; rfl
  have F0 : FreshFrom L 0 s0' :=
    ⟨by rw [hs0', hLdef]; rfl, by rw [← hlen0', hs0']; rfl, by rw [hs0']; rfl, hlen0', fun i _ hi => by
      rw [hoffs0']; exact offsetsOf_entry _ i (by rw [prefixLines_length]; exact hi)⟩
  -- the outer scan
  obtain ⟨old', S1', hscan, hsb, _, hge⟩ := bqScan_prefixed hL (test' := testRules cfg' G) L.length 0 (G + 1) s0' []
    false (by omega) hG F0
  -- the simulation
  have hq : QRel L s0.offs S1'.offs := by
    refine ⟨hlen0, ?_, ?_⟩
    · intro i o ho
      rw [hoffs0] at ho
      have hi : i < L.length := by
        have := (List.getElem?_eq_some_iff.mp ho).1; simpa using this
      rw [offsetsOf_entry L i hi] at ho
      cases ho
      exact entryOk_fresh hL i hi
    · intro i
      by_cases hi : i < L.length
      · rw [hge i (Nat.zero_le _) hi, hoffs0, offsetsOf_entry L i hi]; rfl
      · have h1 : S1'.offs[i]? = none := by
          apply List.getElem?_eq_none; rw [hsb.len, hlen0']; omega
        have h2 : s0.offs[i]? = none := by
          apply List.getElem?_eq_none; rw [hlen0]; omega
        rw [h1, h2]; rfl
  have S0 : Sim L s0 (nestBq S1' 0 L.length) := by
    refine ⟨⟨hL, by rw [hs0, hflat]; rfl, by simp only [nestBq]; rw [hsb.src]; exact F0.src, hq,
      by rw [hs0]; rfl, by rw [hs0]; exact Nat.zero_le _⟩, by rw [hs0]; rfl, ?_, ?_, ?_, ?_, .inr ⟨by rw [hs0]; rfl, rfl⟩,
      by rw [hs0]; rfl, ?_⟩
    · exact hlm0.symm
    · simp only [nestBq]; rw [hsb.tight, hs0', hs0]; rfl
    · simp only [nestBq]; rw [hsb.listIndent, hs0', hs0]; rfl
    · simp only [nestBq]; rw [hsb.level, hs0', hs0]; rfl
    · simp only [nestBq]; rw [hsb.refs, hs0', hs0]; rfl
  obtain ⟨t', htok', St⟩ := tokenize_sim (L := L) C G _ _ _ S0 ht
  -- reading line 0
  obtain ⟨hind0, hline0, _, _⟩ := fresh_prefixed_reads hL F0 (Nat.le_refl 0) (by omega)
  have hline00 : s0'.line = 0 := by rw [hs0']; rfl
  -- levels
  have hfrt := (tokenize_spec cfg G _ _ ht).frame
  have hfrt' := (tokenize_tokSpec cfg' G).frame _ _ htok'
  have hlvl : psub t'.level 1 = .ok (t'.level - 1) := psub_eq (by rw [St.level]; omega)
  -- the table is restored
  obtain ⟨_, _, _, _, _, add, hadd, hrest⟩ := bqScan_spec (testRules_pure cfg' G) _ _ _ _ _ _ _ _ hscan
  simp only [List.nil_append] at hadd
  have hrest' : restoreOffs t'.offs 0 old' = .ok s0'.offs := by
    rw [hfrt'.offs, hadd]; exact hrest
  -- the lines consumed
  have htl : t.line = L.length := by
    have h1 := tokenize_fresh_end (cfg := cfg) (F := G) (D := D) (k := .root) (refs := []) (t := t) (by rw [← hs0]; exact ht)
    rw [h1, ← hlen0, hs0]; rfl
  have hpl : psub t'.line 1 = .ok (L.length - 1) := by
    rw [St.line, htl]; exact psub_eq hn1
  -- the range
  obtain ⟨r, hr0⟩ : ∃ r, Lines.getMap s0'.offs 0 (L.length - 1) = .ok r := by
    have h0 : 0 < s0'.offs.length := by omega
    have h1 : L.length - 1 < s0'.offs.length := by omega
    refine ⟨(s0'.offs[0].firstNonspace, s0'.offs[L.length - 1].lineEnd), ?_⟩
    simp [Lines.getMap, List.getElem?_eq_getElem h0, List.getElem?_eq_getElem h1]
  have hr : BState.getMap (finBq t' S1' s0'.offs) 0 (L.length - 1) = .ok r := by
    simp [BState.getMap, finBq, hr0, liftL]
  have hrule : blockquoteRule (tokenize cfg' G) (testRules cfg' G) (G + 1) s0' false = .ok (true,
      { finBq t' S1' s0'.offs with nodeKind := S1'.nodeKind, children := S1'.children ++ [⟨t'.nodeKind, some r, t'.children⟩] }) := by
    clear hs0' hLdef hs0 hadd hrest hoffs0' hoffs0
    unfold blockquoteRule
    simp only [hline00, hind0, hline0]
    replay_goal
    simp
  refine ⟨_, r, hrule, ?_, ?_, ?_, ?_, ?_, by rw [← hr0, hs0']; rfl⟩
  · simp [St.line, htl]
  · simp [hsb.lineMax, F0.lineMax]
  · simp [hsb.nodeKind, hs0']; rfl
  · simp [St.refs]
  · simp [hsb.children, hs0', St.children, hfrt'.nodeKind]
    rfl

/-- what `sigma` does, in terms of the two documents: byte `x` of line `i` of `D` (the position of the
    line's end included) lands on byte `2 + x` of line `i` of the prefixed document -/
theorem sigma_spec (D : List Char) (htab : '\t' ∉ D) (hsize : Lines.byteLen D + 8 < 2147483648) {i : Nat}
    (h : i < (Lines.linesT D).length) {x : Nat} (hx : x ≤ Lines.byteLen (Lines.linesT D)[i].1) :
    sigma (Lines.linesT D) (startOf (Lines.linesT D) i + x) = startOf (prefixLines (Lines.linesT D)) i + 2 + x := by
  rw [sigma_in_line (linesOk_linesT D htab hsize) h hx, startOf_prefix _ _ (Nat.le_of_lt h)]

/-- one iteration of the tokenizer loop in which a rule consumes everything up to `line_max` -/
theorem tokLoop_one {cfg : Cfg} {run : RuleId → BState → Bool → Res} {fuel : Nat} {he : Bool} {s t1 : BState}
    (hlt : s.line < s.lineMax) (hne : s.isEmpty s.line = false) (hind : s.lineIndent s.line = .ok 0)
    (hlvl : s.level < cfg.maxNesting) (hrun : runChain run cfg.chain s false = .ok (true, t1))
    (h1 : s.line < t1.line) (h2 : t1.lineMax ≤ t1.line) :
    tokLoop cfg run (fuel + 2) he s = .ok { t1 with tight := !he } := by
  have hskip : Lines.skipEmptyLines s.offs s.lineMax s.line = s.line := (skipEmpty_spec _ _ _).2.2.1 hne
  have hs : { s with line := Lines.skipEmptyLines s.offs s.lineMax s.line } = s := by rw [hskip]
  have hp : psub t1.line 1 = .ok (t1.line - 1) := psub_eq (by omega)
  rw [tokLoop, hs]
  simp only [hlt, not_true_eq_false, if_false, hind, ok_bind, hrun, afterChain, if_true, h1, pure, Except.pure, hp]
  rw [if_neg (by omega), if_neg (by decide), if_neg (by omega), if_neg (fun h => by omega), tokLoop, if_pos (by simp only; omega)]

/-- **C06, block-quote half, whole document.**  `D` a tab-free document (shorter than 2 GiB), the chain
    of `cfg` contains the block-quote rule behind rules of `frontOk` only (code, fence, hr, list,
    reference, heading in any order and selection — in particular the shipped order); whatever may
    follow it.  If the block parser accepts `D`, then with one more level of nesting allowed it parses
    `"> "`-prefixed `D` to a root with exactly one child, a block quote, whose children are the
    children of `D`'s root with every position moved by the bytes inserted in front of it (`sigma`),
    and the reference definitions collected are the same. -/
theorem quote_commutes (cfg : Cfg) (D : List Char) (htab : '\t' ∉ D) (hsize : Lines.byteLen D + 8 < 2147483648)
    (pre post : List RuleId) (hchain : cfg.chain = pre ++ .blockquote :: post)
    (hpre : ∀ r ∈ pre, frontOk r = true) {root : BNode} {refs : Refs.RefMap}
    (h : parseBlocks cfg D = .ok (root, refs)) :
    ∃ r, Lines.getMap (Lines.splitLines (prefixQuote D)) 0 ((Lines.linesT D).length - 1) = .ok r ∧
      parseBlocks { cfg with maxNesting := cfg.maxNesting + 1 } (prefixQuote D) =
      .ok (⟨.root, some (0, Lines.byteLen (prefixQuote D)),
            [⟨.blockquote, some r, relocNodes (sigma (Lines.linesT D)) root.children⟩]⟩, refs) := by
  obtain ⟨cfg', hcfg'⟩ : ∃ c, c = { cfg with maxNesting := cfg.maxNesting + 1 } := ⟨_, rfl⟩
  have C : CfgRel cfg cfg' := by subst hcfg'; exact ⟨rfl, rfl, rfl, rfl, rfl⟩
  rw [← hcfg']
  unfold parseBlocks at h
  cases htk : tokenize cfg (fuelFor cfg D) (BState.fresh D .root []) with
  | error e => rw [htk] at h; cases h
  | ok s =>
    rw [htk] at h
    simp only [Except.ok.injEq, Prod.mk.injEq] at h
    obtain ⟨rfl, rfl⟩ := h
    have hn : (Lines.splitLines D).length = (Lines.linesT D).length := by rw [Lines.splitLines_eq]; simp
    have hn' : (Lines.splitLines (prefixQuote D)).length = (Lines.linesT D).length := by
      rw [splitLines_prefixQuote]; simp [prefixLines_length]
    have hn1 : 1 ≤ (Lines.linesT D).length := by
      have := Lines.linesT_ne_nil D
      cases hL : Lines.linesT D with
      | nil => exact absurd hL this
      | cons a b => simp
    obtain ⟨G, hG, hle, hGn⟩ : ∃ G, fuelFor cfg' (prefixQuote D) = G + 2 ∧ fuelFor cfg D ≤ G + 1 ∧
        (Lines.linesT D).length < G + 2 := by
      refine ⟨fuelFor cfg' (prefixQuote D) - 2, ?_, ?_, ?_⟩
      · unfold fuelFor; omega
      · unfold fuelFor
        rw [hn, hn', byteLen_prefixQuote, C.nesting]
        omega
      · unfold fuelFor
        rw [hn']
        omega
    have ht := tokenize_mono hle htk
    obtain ⟨t1, r, hrule, h1, h2, h3, h4, h5, h6⟩ := blockquote_on_prefixed C D htab hsize (G := G + 1) hGn ht
    refine ⟨r, h6, ?_⟩
    have hL := linesOk_linesT D htab hsize
    have F0 : FreshFrom (Lines.linesT D) 0 (BState.fresh (prefixQuote D) .root []) :=
      ⟨rfl, hn', rfl, hn', fun i _ hi => by
        show (Lines.splitLines (prefixQuote D))[i]? = _
        rw [splitLines_prefixQuote]; exact offsetsOf_entry _ i (by rw [prefixLines_length]; exact hi)⟩
    obtain ⟨hind0, hline0, hoff0, _⟩ := fresh_prefixed_reads hL F0 (Nat.le_refl 0) (by omega)
    have hrej : ∀ r, frontOk r = true → runRule cfg' (tokenize cfg' (G + 1)) (testRules cfg' (G + 1)) (G + 2) r
        (BState.fresh (prefixQuote D) .root []) false = .ok (false, BState.fresh (prefixQuote D) .root []) :=
      fun r hr => front_rejects hr hind0 hline0 rfl
    have hrun : runChain (runRule cfg' (tokenize cfg' (G + 1)) (testRules cfg' (G + 1)) (G + 2)) cfg'.chain
        (BState.fresh (prefixQuote D) .root []) false = .ok (true, t1) := by
      rw [C.chain, hchain, runChain_front hrej pre _ hpre]
      simp only [runChain, runRule, hrule]
    have hne : (BState.fresh (prefixQuote D) .root []).isEmpty (BState.fresh (prefixQuote D) .root []).line = false := by
      have hi : 0 < (Lines.linesT D).length := hn1
      have hi' : 0 < (prefixLines (Lines.linesT D)).length := by rw [prefixLines_length]; exact hi
      have ho := F0.fresh 0 (Nat.le_refl 0) hi
      have hent : freshEntry (prefixLines (Lines.linesT D)) 0
          = mkOff (startOf (prefixLines (Lines.linesT D)) 0) ('>' :: ' ' :: (Lines.linesT D)[0].1, (Lines.linesT D)[0].2) := by
        simp [freshEntry, List.getElem?_eq_getElem hi', prefixLines_getElem (Lines.linesT D) 0 hi]
      show Lines.isEmpty (BState.fresh (prefixQuote D) .root []).offs 0 = false
      simp [Lines.isEmpty, ho, hent, mkOff, lead, Lines.isBlank]
      have : 0 < '>'.utf8Size := by decide
      omega
    have htok : tokenize cfg' (G + 2) (BState.fresh (prefixQuote D) .root []) = .ok { t1 with tight := !false } := by
      simp only [tokenize, engine]
      exact tokLoop_one (by show 0 < (Lines.splitLines (prefixQuote D)).length; rw [hn']; omega) hne hind0 (by rw [C.nesting]; exact Nat.succ_pos _) hrun
        (by rw [h1]; exact hn1) (by rw [h1, h2]; exact Nat.le_refl _)
    unfold parseBlocks
    rw [hG, htok]
    simp [h3, h4, h5]

section qc_examples
/-- the ranges of the top-level blocks -/
def topRanges : Except Panic (BNode × Refs.RefMap) → Option (List (Option (Nat × Nat)))
  | .ok (root, _) => some (root.children.map (·.range))
  | .error _ => none

/-- the range of the single top-level block quote and the ranges of the blocks in it -/
def quoteRanges : Except Panic (BNode × Refs.RefMap) → Option (Option (Nat × Nat) × List (Option (Nat × Nat)))
  | .ok (⟨_, _, [⟨.blockquote, r, cs⟩]⟩, _) => some (r, cs.map (·.range))
  | _ => none

def okOf {α : Type} : Except Panic α → Bool
  | .ok _ => true
  | .error _ => false

/-- `"a\n\n- b\n  c\n"` -/
def qcDoc : List Char := ['a', '\n', '\n', '-', ' ', 'b', '\n', ' ', ' ', 'c', '\n']

/-- the hypotheses of `quote_commutes` hold for the stock chain and the sixteen-line document `exDoc`
    of `Props/Block.lean` (all nine rules fire in it), so does its conclusion -/
example : ∃ r root refs, parseBlocks exCfg exDoc = .ok (root, refs) ∧
    parseBlocks { exCfg with maxNesting := 101 } (prefixQuote exDoc) =
      .ok (⟨.root, some (0, Lines.byteLen (prefixQuote exDoc)),
            [⟨.blockquote, some r, relocNodes (sigma (Lines.linesT exDoc)) root.children⟩]⟩, refs) := by
  have hok : okOf (parseBlocks exCfg exDoc) = true := by decide +kernel
  cases h : parseBlocks exCfg exDoc with
  | error e => rw [h] at hok; cases hok
  | ok p =>
    obtain ⟨root, refs⟩ := p
    obtain ⟨r, _, hq⟩ := quote_commutes exCfg exDoc (by decide) (by decide +kernel) [.code, .fence] _ rfl (by decide) h
    exact ⟨r, root, refs, rfl, hq⟩

/-- `"a\n\n- b\n  c\n"` against `"> a\n> \n> - b\n>   c\n"`: paragraph `0..1` ↦ `2..3`, list `3..10` ↦ `9..18`
    (2, 4, 6, 8 bytes inserted in front of lines 0, 1, 2, 3) -/
example : prefixQuote qcDoc = ['>', ' ', 'a', '\n', '>', ' ', '\n', '>', ' ', '-', ' ', 'b', '\n', '>', ' ', ' ', ' ', 'c', '\n'] ∧
    topRanges (parseBlocks exCfg qcDoc) = some [some (0, 1), some (3, 10)] ∧
    quoteRanges (parseBlocks { exCfg with maxNesting := 101 } (prefixQuote qcDoc))
      = some (some (0, 18), [some (2, 3), some (9, 18)]) ∧
    sigma (Lines.linesT qcDoc) 0 = 2 ∧ sigma (Lines.linesT qcDoc) 1 = 3 ∧
    sigma (Lines.linesT qcDoc) 3 = 9 ∧ sigma (Lines.linesT qcDoc) 10 = 18 := by decide +kernel

/-- the extra level of nesting on the prefixed side is needed: at `max_nesting = 2` the paragraph of
    `"> a"` is parsed, the one of `"> > a"` is not (the inner quote stays empty) -/
example :
    quoteRanges (parseBlocks { exCfg with maxNesting := 2 } ['>', ' ', 'a']) = some (some (0, 3), [some (2, 3)]) ∧
    (match parseBlocks { exCfg with maxNesting := 2 } (prefixQuote ['>', ' ', 'a']) with
      | .ok (⟨_, _, [⟨.blockquote, _, [⟨.blockquote, _, cs⟩]⟩]⟩, _) => some cs.length
      | _ => none) = some 0 ∧
    (match parseBlocks { exCfg with maxNesting := 3 } (prefixQuote ['>', ' ', 'a']) with
      | .ok (⟨_, _, [⟨.blockquote, _, [⟨.blockquote, _, cs⟩]⟩]⟩, _) => some cs.length
      | _ => none) = some 1 := by decide +kernel

/-- the chain hypothesis is needed: with the paragraph rule in front of the block-quote rule the
    prefixed document is one paragraph -/
example :
    (match parseBlocks { exCfg with chain := [.paragraph, .blockquote] } (prefixQuote ['a']) with
      | .ok (⟨_, _, [⟨.paragraph, _, _⟩]⟩, _) => true
      | _ => false) = true := by decide +kernel

/-- tab-freeness is needed: `"\ta"` is an indented code block, `"> \ta"` a quote around a paragraph
    (the tab stop is counted from the start of the line, `"> "` included: indent 2) -/
example :
    (match parseBlocks exCfg ['\t', 'a'], parseBlocks { exCfg with maxNesting := 101 } (prefixQuote ['\t', 'a']) with
      | .ok (⟨_, _, [⟨.codeBlock _, _, _⟩]⟩, _), .ok (⟨_, _, [⟨.blockquote, _, [⟨.paragraph, _, _⟩]⟩]⟩, _) => true
      | _, _ => false) = true := by decide +kernel
end qc_examples

/-
OPEN: the list half of C06 at the level of whole documents.

  def itemDoc (w : Nat) (first : List Char) (D : List Char) : List Char
      -- `first` (a line `"- x"`, marker width `w`), a blank line, then every non-blank line of D behind
      -- `w` spaces (blank lines of D as they are or indented, both are blank)
  def tau (w k : Nat) (D) (p : Nat) : Nat   -- p + |first two lines| + w * (number of non-blank lines of D up to p's)

  theorem item_commutes (cfg) (D) (htab : '\t' ∉ D) (hsize)
      (hchain : cfg.chain = pre ++ .list :: post, every rule of `pre` rejects the line `first`)
      (h : parseBlocks cfg D = .ok (root, refs)) :
      ∃ r₁ r₂ x, parseBlocks { cfg with maxNesting := cfg.maxNesting + 2 } (itemDoc w first D)
        = .ok (⟨.root, some (0, |itemDoc w first D|),
                [⟨.bulletList m, some r₁, [⟨.listItem, some r₂, x :: relocNodes (tau …) root.children⟩]⟩]⟩, refs)
      -- x the paragraph of `first`; `+ 2`: the list rule raises `level` once for the list, once per item

  Proved towards it: `item_view` (entries: the list item leaves the table alone and sets
  `blk_indent := w`, under which line `w spaces ++ l` shows the view of `l`), `viewPiece_item`,
  `get_lines_item` (content), the look-ahead congruence `testRules_same_view` (which is stated over
  `SameLook`, not over the quote relation, and applies as it is), and everything the block-quote proof
  uses from `Props/Block.lean` (frame, restoration, fuel monotonicity, `tokenize_exit`).
  Missing: the relation itself.  The block-quote proof goes through `Sim L s s'` whose table part `QRel`
  says "entry `i` of `s'` is `shiftEntry i` of entry `i` of `s`, same `blk_indent`, same line numbers".
  For the item the table part has to say "entry `i + 2` of `s'` is entry `i` of `s` moved by `tau`, with
  `indent' = indent + w` on non-blank lines, `blk_indent' = blk_indent + w`, `line' = line + 2`,
  `line_max' = line_max + 2`, `list_indent' = list_indent + w` below D's top level and `none` against
  `some 0` at D's top level", and the nine `_sim` lemmas, `bqScan_sim`, `listLoop_sim`, `tokLoop_sim` have
  to be re-proved over that relation.  Their proofs read the states through the accessor layer
  `Tbl.lineIndent`, `Tbl.getLine`, `Tbl.isEmpty`, `Tbl.getLines`, `Tbl.getMap`, `Tbl.off` only, so the work
  is that layer for the new relation plus a re-run of the rule proofs with line numbers offset by 2.
  Two places are not a transcription of the quote proof: (a) a blank line of D need not be indented, so
  `indent'` is unconstrained on blank lines (no rule reads it there: `is_empty` is tested first); (b) the
  list rule's `listSpecial` test reads `list_indent`: at D's top level it is the `none` branch against
  `indent' − 0 ≥ 4 ∧ indent' < w`, whose second conjunct is false because every non-blank line of D is
  indented by `w`; below, both sides are `some` and the differences agree.
  Until then the list half is covered by the implementation-side oracle `c06`.

Also outside this file: "renders exactly as" — the inline pass and the renderer on top of the block
tree (`InlineRoot` content is equal on both sides, its mapping moved by `sigma`: `relocKind`); the
composition is `Props/Pipeline.lean`'s business.
-/

end MdIt.Block
