/-
  C12 at WHOLE-DOCUMENT level, the remaining contexts of "context agreement"
  (`Props/C12Doc.lean` has (a) paragraph text and (e) fence info string):

    (c) link title         `reference_in_title`        `md.parse("[x](/u \"" ++ R ++ "\")")`
                           `reference_in_title_any`    … and the forms `'R'`, `(R)`
    (b) link destination   `reference_in_destination`  `md.parse("[x](</" ++ R ++ ">)")`
                           `reference_in_bare_destination`            `"[x](/" ++ R ++ ")"`
    (d) reference definition `reference_in_definition` `md.parse("[k]: </" ++ R ++ "> \"" ++ R ++ "\"\n\n[k]")`
        images             `reference_in_image`        `![x](/u "R")`, `![x](</R>)`
    all five contexts      `contexts_agree`

  for EVERY `R` with `Entity.Denotes cfg.entity R X` (named reference of the table, numeric reference
  incl. the invalid codes that give U+FFFD, backslash escape of one of the 32 characters).  The trees are
        Root[Paragraph[Link{url: "/u", title: Some(X)}[Text "x"]]]
        Root[Paragraph[Link{url: normalize_link("/" ++ X), title: None}[Text "x"]]]
        Root[Paragraph[Link{url: normalize_link("/" ++ X), title: Some(X)}[Text "k"]]]
  with the SAME `X` that `reference_in_paragraph` shows in paragraph text and `reference_in_fence_info`
  puts into the fence's class.  NO exception inside the class: the candidates `\"` / `&quot;` in a
  `"`-quoted title, `\'`, `\(`, `\)` in the other title forms, `\>` `\<` `&lt;` `&gt;` inside `<…>`,
  `\(` `\)` in a bare destination, references that produce a blank, a line feed or U+FFFD all agree
  (the scanners' own backslash case skips exactly the escaped character, no reference contains a
  character the scanners react to, and decoding happens after scanning); each was run on the real
  crate (examples at the end).  `validate_link` never rejects: the decoded destination starts with
  `/` (`Link.C12X.validate_slash`).

  The symbolic runs are in `Lemmas/C12CtxInline.lean` (link / image rule: label loop with
  `skip_token`, nested tokenizer, `afterLabel`), `Lemmas/C12CtxLink.lean` (the `Link` scanners over a
  symbolic `R`, `refParse` on the definition line), `Lemmas/C12CtxBlock.lean` / `C12CtxBlockDef.lean`
  (block pass on a one-line source that starts with `[`, and on definition ⏎ ⏎ use).  The emphasis
  matcher is never unfolded.
-/
import MdIt.Props.C12Doc
import MdIt.Lemmas.C12CtxInline
import MdIt.Lemmas.C12CtxLink
import MdIt.Lemmas.C12CtxBlock
import MdIt.Lemmas.C12CtxBlockDef

namespace MdIt.Pipeline
open MdIt.Entity (Denotes)

/-! ## the shape of the tree -/

/-- `t` is exactly `Root[Paragraph[v[Text lab]]]` for an inline value `v` — ranges and attributes
    (the `data-sourcepos` of `SyntaxPosRule`) aside -/
def IsInlDoc (t : Node) (v : Inline.Val) (lab : List Char) : Prop :=
  ∃ rr ra pr pa lr la xr xa,
    t = ⟨.blk .root, rr, ra, [⟨.blk .paragraph, pr, pa,
          [⟨.inl v, lr, la, [⟨.inl (.text lab), xr, xa, []⟩]⟩]⟩]⟩

/-- `Root[Paragraph[Link{url, title}[Text lab]]]` -/
abbrev IsLinkDoc (t : Node) (url : List Nat) (title : Option (List Char)) (lab : List Char) : Prop :=
  IsInlDoc t (.link url title) lab

/-- `Root[Paragraph[Image{url, title}[Text lab]]]` -/
abbrev IsImageDoc (t : Node) (url : List Nat) (title : Option (List Char)) (lab : List Char) : Prop :=
  IsInlDoc t (.image url title) lab

theorem IsInlDoc.kindsPre {t : Node} {v : Inline.Val} {lab : List Char} (h : IsInlDoc t v lab) :
    kindsPre t = [.blk .root, .blk .paragraph, .inl v, .inl (.text lab)] := by
  obtain ⟨rr, ra, pr, pa, lr, la, xr, xa, rfl⟩ := h
  simp [Pipeline.kindsPre, kindsPreList]

/-- the passes behind the block pass (splice walk, `FragmentsJoin`, `SyntaxPosRule`) on
    `Root[Paragraph[InlineRoot]]` when the inline parser makes `[v[Text lab]]` (`v` a `Link` or an
    `Image`) of the content -/
theorem afterBlocks_inlDoc (cfg : DocCfg) (src content : List Char) (mapping : List (Nat × Nat))
    (refs : Refs.RefMap) (rr pr : Option (Nat × Nat)) (v : Inline.Val)
    (hv : (∃ u ti, v = .link u ti) ∨ (∃ u ti, v = .image u ti))
    (lab : List Char) (r r' : Nat × Nat) (hlab : lab ≠ [])
    (hin : Inline.parseInline (cfg.inlineCfg refs) content mapping =
      .ok [⟨v, some r, [Inline.Node.newText lab (some r')]⟩]) :
    ∃ t, afterBlocks cfg src
        ⟨.root, rr, [⟨.paragraph, pr, [⟨.inlineRoot content mapping, none, []⟩]⟩]⟩ refs = .ok t ∧
      IsInlDoc t v lab := by
  let x : Node := ⟨.inl (.text lab), some r', [], []⟩
  let l : Node := ⟨.inl v, some r, [], [x]⟩
  let p : Node := ⟨.blk .paragraph, pr, [], [l]⟩
  let t0 : Node := ⟨.blk .root, rr, [], [p]⟩
  have hsplice : spliceNode (cfg.inlineCfg refs)
      ⟨.root, rr, [⟨.paragraph, pr, [⟨.inlineRoot content mapping, none, []⟩]⟩]⟩ = .ok t0 := by
    simp [spliceNode, spliceList, hin, ofInlineList, ofInline, Inline.Node.newText, t0, p, l, x]
  have hjoin : joinNode t0 = t0 := by
    have hcont : (lab.isEmpty) = false := by cases lab with
      | nil => exact absurd rfl hlab
      | cons _ _ => rfl
    have hx : fragmentsJoin [x] = [x] := by
      simp [x, fragmentsJoin, pass1, Pipeline.markerToText, mergeAll, mergeLoop, keep, Node.isText,
        Node.content, hcont]
    have hl : fragmentsJoin [l] = [l] := by
      rcases hv with ⟨u, ti, rfl⟩ | ⟨u, ti, rfl⟩ <;>
        simp [l, fragmentsJoin, pass1, Pipeline.markerToText, mergeAll, mergeLoop, keep, Node.isText]
    have hp : fragmentsJoin [p] = [p] := by
      simp [p, fragmentsJoin, pass1, Pipeline.markerToText, mergeAll, mergeLoop, keep, Node.isText]
    have jx : joinNode x = x := joinNode_childless rfl
    have jl : joinNode l = l := by
      rw [joinNode_eq]
      show ({ l with children := joinList (fragmentsJoin [x]) } : Node) = l
      rw [hx, joinList_eq_map]; simp [jx, l]
    have jp : joinNode p = p := by
      rw [joinNode_eq]
      show ({ p with children := joinList (fragmentsJoin [l]) } : Node) = p
      rw [hl, joinList_eq_map]; simp [jl, p]
    rw [joinNode_eq]
    show ({ t0 with children := joinList (fragmentsJoin [p]) } : Node) = t0
    rw [hp, joinList_eq_map]; simp [jp, t0]
  have hshape : IsInlDoc t0 v lab := ⟨_, _, _, _, _, _, _, _, rfl⟩
  unfold afterBlocks
  simp only [hsplice, hjoin, ite_self]
  by_cases hsp : cfg.sourcepos = true
  · simp only [hsp, if_true]
    simp only [t0, p, l, x, sourceposNode, sourceposList, sourceposAttrs_eq]
    exact ⟨_, rfl, _, _, _, _, _, _, _, _, rfl⟩
  · simp only [hsp]
    exact ⟨t0, rfl, hshape⟩

/-! ## the configurations -/

/-- the configurations of (b) and (c): `max_nesting > 0`; the paragraph rule is in the block chain
    (ANY other block rules, any order); the text scanner and the link rule are in the inline chain
    (ANY other html-free inline rules, any order — the escape and entity rules are NOT needed: the
    link machinery decodes through `unescape_all`); emphasis-like rules have ASCII punctuation
    markers other than `[`.  Any entity table, case tables, `sourcepos` on or off. -/
structure LinkCfg (cfg : DocCfg) : Prop where
  nest : 0 < cfg.maxNesting
  para : Block.RuleId.paragraph ∈ cfg.blockChain
  inl : Inline.C12X.LinkChain cfg.inlineChain

/-- the same for images: the image rule in the inline chain, no emphasis-like rule on `!` -/
structure ImageCfg (cfg : DocCfg) : Prop where
  nest : 0 < cfg.maxNesting
  para : Block.RuleId.paragraph ∈ cfg.blockChain
  inl : Inline.C12X.ImageChain cfg.inlineChain

theorem labelChar_x : Inline.C12X.LabelChar 'x' := ⟨by decide, by decide⟩
theorem labelChar_k : Inline.C12X.LabelChar 'k' := ⟨by decide, by decide⟩

/-- a source `[c]` ++ tail on ONE line (no terminator, not a reference definition) whose inline tail
    `Link.parseInlineTail` accepts up to the end: `Root[Paragraph[Link{href, title}[Text c]]]` -/
theorem parseDoc_inline_link (cfg : DocCfg) (hcfg : LinkCfg cfg) (c : Char) (T : List Char)
    (hlc : Inline.C12X.LabelChar c) (hnt : Lines.NoTerm ('[' :: c :: ']' :: T))
    (hq : Block.refQuick false (c :: ']' :: T) = false)
    (hlast : ∀ x ∈ ('[' :: c :: ']' :: T).getLast?, Inline.isSpTab x = false)
    (href : Option (List Nat)) (title : Option (List Char))
    (htail : Link.parseInlineTail (Entity.unescapeAll cfg.entity) (['[', c, ']'] ++ T)
      (Link.byteLen ['[', c, ']']) (Link.byteLen (['[', c, ']'] ++ T)) =
        .ok (some ⟨href, title, Link.byteLen (['[', c, ']'] ++ T)⟩)) :
    ∃ t, parseDoc cfg ('[' :: c :: ']' :: T) = .ok t ∧ IsLinkDoc t (href.getD []) title [c] := by
  have hblock := Block.C12X.parseBlocks_bracket_line cfg.blockCfg hcfg.para hcfg.nest (c :: ']' :: T) hnt hq
  obtain ⟨r, r', hin⟩ := Inline.C12X.parseInline_bracket (cfg := cfg.inlineCfg []) hcfg.inl hcfg.nest c T hlc
    hlast [(0, 0)] Inline.C12.wf_single href title
    (fun skip fuel st1 h1 h2 => by
      have := Inline.C12X.afterLabel_inline (cfg.inlineCfg []) skip fuel st1 [] c T href title h1 h2 htail
      simpa [InlineOps.byteLen] using this)
  unfold parseDoc
  rw [hblock]
  exact afterBlocks_inlDoc cfg _ _ _ [] _ _ _ (.inl ⟨_, _, rfl⟩) [c] r r' (by simp) hin

/-- the same with `!` in front: `Root[Paragraph[Image{href, title}[Text c]]]` -/
theorem parseDoc_inline_image (cfg : DocCfg) (hcfg : ImageCfg cfg) (c : Char) (T : List Char)
    (hlc : Inline.C12X.LabelChar c) (hnt : Lines.NoTerm ('!' :: '[' :: c :: ']' :: T))
    (hlast : ∀ x ∈ ('!' :: '[' :: c :: ']' :: T).getLast?, Inline.isSpTab x = false)
    (href : Option (List Nat)) (title : Option (List Char))
    (htail : Link.parseInlineTail (Entity.unescapeAll cfg.entity) (['!', '[', c, ']'] ++ T)
      (Link.byteLen ['!', '[', c, ']']) (Link.byteLen (['!', '[', c, ']'] ++ T)) =
        .ok (some ⟨href, title, Link.byteLen (['!', '[', c, ']'] ++ T)⟩)) :
    ∃ t, parseDoc cfg ('!' :: '[' :: c :: ']' :: T) = .ok t ∧ IsImageDoc t (href.getD []) title [c] := by
  have hplain : Block.C12.Plain [] ('!' :: '[' :: c :: ']' :: T) :=
    ⟨(by intro c hc; cases hc), (by decide), hnt,
      ⟨'!', '[' :: c :: ']' :: T, rfl, (by decide), fun _ => ⟨(by decide), (by decide)⟩⟩,
      (by simp [Block.skipOrdered, Block.isDigit])⟩
  have hblock := Block.C12.parseBlocks_one_line cfg.blockCfg hcfg.para hcfg.nest [] _ hplain
  have hb : InlineOps.byteLen ['!'] = 1 := by decide
  obtain ⟨r, r', hin⟩ := Inline.C12X.parseInline_image (cfg := cfg.inlineCfg []) hcfg.inl hcfg.nest c T hlc
    hlast [(0, 0)] Inline.C12.wf_single href title
    (fun skip fuel st1 h1 h2 => by
      have := Inline.C12X.afterLabel_inline (cfg.inlineCfg []) skip fuel st1 ['!'] c T href title h1 h2 htail
      rw [hb] at this
      simpa using this)
  unfold parseDoc
  rw [show '!' :: '[' :: c :: ']' :: T = [] ++ '!' :: '[' :: c :: ']' :: T from rfl, hblock]
  exact afterBlocks_inlDoc cfg _ _ _ [] _ _ _ (.inr ⟨_, _, rfl⟩) [c] r r' (by simp) hin

/-! ## templates: no line terminator, no blank at the end -/

theorem noTerm_mid {lookup : List Char → Option (List Char)} {R X : List Char} (h : Denotes lookup R X)
    (A B : List Char) (hA : Lines.NoTerm A) (hB : Lines.NoTerm B) : Lines.NoTerm (A ++ (R ++ B)) := by
  intro c hc
  rcases List.mem_append.mp hc with h1 | h1
  · exact hA c h1
  · rcases List.mem_append.mp h1 with h2 | h2
    · exact h.noTerm c h2
    · exact hB c h2

theorem last_paren (L : List Char) : ∀ x ∈ (L ++ [')']).getLast?, Inline.isSpTab x = false := by
  intro x hx
  rw [List.getLast?_append] at hx
  simp at hx; subst hx; decide

/-! ## (c) the link title -/

/-- **C12 (c), whole document, the three title forms `"…"`, `'…'`, `(…)`.**  For every valid
    reference or escape `R` denoting `X` (the table holding no name that starts `&#`) and each
    delimiter pair `(o, m)`: `md.parse("[x](/u " ++ o ++ R ++ m ++ ")")` does not panic and is
    `Root[Paragraph[Link { url: "/u", title: Some(X) }[Text "x"]]]` — the title is the characters `R`
    denotes in paragraph text.  No exception: the escapes of the delimiters themselves (`\"`, `\'`,
    `\(`, `\)`) and the references that decode to them give the delimiter character as title. -/
theorem reference_in_title_any (cfg : DocCfg) (hcfg : LinkCfg cfg) (R X : List Char)
    (h : Denotes cfg.entity R X) (hno : ∀ s, cfg.entity ('&' :: '#' :: s) = none) (o m : Char)
    (hom : (o = '"' ∧ m = '"') ∨ (o = '\'' ∧ m = '\'') ∨ (o = '(' ∧ m = ')')) :
    ∃ t, parseDoc cfg ('[' :: 'x' :: ']' :: '(' :: '/' :: 'u' :: ' ' :: o :: (R ++ [m, ')'])) = .ok t ∧
      IsLinkDoc t [47, 117] (some X) ['x'] := by
  have hnt : Lines.NoTerm ('[' :: 'x' :: ']' :: '(' :: '/' :: 'u' :: ' ' :: o :: (R ++ [m, ')'])) :=
    noTerm_mid h ['[', 'x', ']', '(', '/', 'u', ' ', o] [m, ')']
      (by rcases hom with ⟨rfl, _⟩ | ⟨rfl, _⟩ | ⟨rfl, _⟩ <;> (unfold Lines.NoTerm; decide))
      (by rcases hom with ⟨_, rfl⟩ | ⟨_, rfl⟩ | ⟨_, rfl⟩ <;> (unfold Lines.NoTerm; decide))
  have hlast : ∀ x ∈ ('[' :: 'x' :: ']' :: '(' :: '/' :: 'u' :: ' ' :: o :: (R ++ [m, ')'])).getLast?,
      Inline.isSpTab x = false := by
    have := last_paren ('[' :: 'x' :: ']' :: '(' :: '/' :: 'u' :: ' ' :: o :: (R ++ [m]))
    simpa using this
  exact parseDoc_inline_link cfg hcfg 'x' _ labelChar_x hnt (by simp [Block.refQuick]) hlast
    (some [47, 117]) (some X) (Link.C12X.parseInlineTail_title_any h hno o m hom ['[', 'x', ']'])

/-- **C12 (c), whole document.**  For every valid reference or escape `R` denoting `X` (the table
    holding no name that starts `&#`): `md.parse("[x](/u \"" ++ R ++ "\")")` does not panic and is
    `Root[Paragraph[Link { url: "/u", title: Some(X) }[Text "x"]]]` — the title is the characters `R`
    denotes in paragraph text (`reference_in_paragraph`).  No exception: `R = \"`, `&quot;` give the
    title `"`. -/
theorem reference_in_title (cfg : DocCfg) (hcfg : LinkCfg cfg) (R X : List Char)
    (h : Denotes cfg.entity R X) (hno : ∀ s, cfg.entity ('&' :: '#' :: s) = none) :
    ∃ t, parseDoc cfg ('[' :: 'x' :: ']' :: '(' :: '/' :: 'u' :: ' ' :: '"' :: (R ++ ['"', ')'])) = .ok t ∧
      IsLinkDoc t [47, 117] (some X) ['x'] :=
  reference_in_title_any cfg hcfg R X h hno '"' '"' (.inl ⟨rfl, rfl⟩)

/-! ## (b) the link destination -/

/-- **C12 (b), whole document.**  For every valid reference or escape `R` denoting `X`:
    `md.parse("[x](</" ++ R ++ ">)")` does not panic and is
    `Root[Paragraph[Link { url: normalize_link("/" ++ X), title: None }[Text "x"]]]`.
    `validate_link` cannot reject this url (it starts with `/`, so no scheme can be formed:
    `Link.C12X.validate_slash`), whatever `X` is; `\<`, `\>`, `&lt;`, `&gt;`, blanks and line feeds
    produced by references end up percent-encoded by `normalize_link`, none ends the destination. -/
theorem reference_in_destination (cfg : DocCfg) (hcfg : LinkCfg cfg) (R X : List Char)
    (h : Denotes cfg.entity R X) (hno : ∀ s, cfg.entity ('&' :: '#' :: s) = none) :
    ∃ t, parseDoc cfg ('[' :: 'x' :: ']' :: '(' :: '<' :: '/' :: (R ++ ['>', ')'])) = .ok t ∧
      IsLinkDoc t (Link.normalizeLink (Link.utf8 ('/' :: X))) none ['x'] := by
  have hnt : Lines.NoTerm ('[' :: 'x' :: ']' :: '(' :: '<' :: '/' :: (R ++ ['>', ')'])) :=
    noTerm_mid h ['[', 'x', ']', '(', '<', '/'] ['>', ')'] (by unfold Lines.NoTerm; decide)
      (by unfold Lines.NoTerm; decide)
  have hlast : ∀ x ∈ ('[' :: 'x' :: ']' :: '(' :: '<' :: '/' :: (R ++ ['>', ')'])).getLast?,
      Inline.isSpTab x = false := by
    have := last_paren ('[' :: 'x' :: ']' :: '(' :: '<' :: '/' :: (R ++ ['>']))
    simpa using this
  exact parseDoc_inline_link cfg hcfg 'x' _ labelChar_x hnt (by simp [Block.refQuick]) hlast
    (some (Link.normalizeLink (Link.utf8 ('/' :: X)))) none
    (Link.C12X.parseInlineTail_dest h hno ['[', 'x', ']'])

/-- **C12 (b), the bare form.**  `md.parse("[x](/" ++ R ++ ")")` is the same tree: the bare
    destination scanner runs over `R` as a unit (`\(`, `\)` do not change its parenthesis count, no
    reference contains a blank, a control character or a parenthesis). -/
theorem reference_in_bare_destination (cfg : DocCfg) (hcfg : LinkCfg cfg) (R X : List Char)
    (h : Denotes cfg.entity R X) (hno : ∀ s, cfg.entity ('&' :: '#' :: s) = none) :
    ∃ t, parseDoc cfg ('[' :: 'x' :: ']' :: '(' :: '/' :: (R ++ [')'])) = .ok t ∧
      IsLinkDoc t (Link.normalizeLink (Link.utf8 ('/' :: X))) none ['x'] := by
  have hnt : Lines.NoTerm ('[' :: 'x' :: ']' :: '(' :: '/' :: (R ++ [')'])) :=
    noTerm_mid h ['[', 'x', ']', '(', '/'] [')'] (by unfold Lines.NoTerm; decide)
      (by unfold Lines.NoTerm; decide)
  have hlast : ∀ x ∈ ('[' :: 'x' :: ']' :: '(' :: '/' :: (R ++ [')'])).getLast?,
      Inline.isSpTab x = false := by
    have := last_paren ('[' :: 'x' :: ']' :: '(' :: '/' :: R)
    simpa using this
  exact parseDoc_inline_link cfg hcfg 'x' _ labelChar_x hnt (by simp [Block.refQuick]) hlast
    (some (Link.normalizeLink (Link.utf8 ('/' :: X)))) none
    (Link.C12X.parseInlineTail_bare h hno ['[', 'x', ']'])

/-! ## the same two contexts of an image -/

/-- **C12 (b) + (c) for images.**  `md.parse("![x](/u \"" ++ R ++ "\")")` is
    `Root[Paragraph[Image { url: "/u", title: Some(X) }[Text "x"]]]` and
    `md.parse("![x](</" ++ R ++ ">)")` is
    `Root[Paragraph[Image { url: normalize_link("/" ++ X), title: None }[Text "x"]]]`
    (`LinkPrefixScanner<'!', true>` runs the same `parse_link`, one byte further right). -/
theorem reference_in_image (cfg : DocCfg) (hcfg : ImageCfg cfg) (R X : List Char)
    (h : Denotes cfg.entity R X) (hno : ∀ s, cfg.entity ('&' :: '#' :: s) = none) :
    (∃ t, parseDoc cfg ('!' :: '[' :: 'x' :: ']' :: '(' :: '/' :: 'u' :: ' ' :: '"' :: (R ++ ['"', ')'])) = .ok t ∧
      IsImageDoc t [47, 117] (some X) ['x']) ∧
    (∃ t, parseDoc cfg ('!' :: '[' :: 'x' :: ']' :: '(' :: '<' :: '/' :: (R ++ ['>', ')'])) = .ok t ∧
      IsImageDoc t (Link.normalizeLink (Link.utf8 ('/' :: X))) none ['x']) := by
  constructor
  · have hnt : Lines.NoTerm ('!' :: '[' :: 'x' :: ']' :: '(' :: '/' :: 'u' :: ' ' :: '"' :: (R ++ ['"', ')'])) :=
      noTerm_mid h ['!', '[', 'x', ']', '(', '/', 'u', ' ', '"'] ['"', ')'] (by unfold Lines.NoTerm; decide)
        (by unfold Lines.NoTerm; decide)
    have hlast : ∀ x ∈ ('!' :: '[' :: 'x' :: ']' :: '(' :: '/' :: 'u' :: ' ' :: '"' :: (R ++ ['"', ')'])).getLast?,
        Inline.isSpTab x = false := by
      have := last_paren ('!' :: '[' :: 'x' :: ']' :: '(' :: '/' :: 'u' :: ' ' :: '"' :: (R ++ ['"']))
      simpa using this
    exact parseDoc_inline_image cfg hcfg 'x' _ labelChar_x hnt hlast (some [47, 117]) (some X)
      (Link.C12X.parseInlineTail_title h hno ['!', '[', 'x', ']'])
  · have hnt : Lines.NoTerm ('!' :: '[' :: 'x' :: ']' :: '(' :: '<' :: '/' :: (R ++ ['>', ')'])) :=
      noTerm_mid h ['!', '[', 'x', ']', '(', '<', '/'] ['>', ')'] (by unfold Lines.NoTerm; decide)
        (by unfold Lines.NoTerm; decide)
    have hlast : ∀ x ∈ ('!' :: '[' :: 'x' :: ']' :: '(' :: '<' :: '/' :: (R ++ ['>', ')'])).getLast?,
        Inline.isSpTab x = false := by
      have := last_paren ('!' :: '[' :: 'x' :: ']' :: '(' :: '<' :: '/' :: (R ++ ['>']))
      simpa using this
    exact parseDoc_inline_image cfg hcfg 'x' _ labelChar_x hnt hlast
      (some (Link.normalizeLink (Link.utf8 ('/' :: X)))) none
      (Link.C12X.parseInlineTail_dest h hno ['!', '[', 'x', ']'])

/-! ## (d) the reference definition -/

/-- the configurations of (d): those of (b) / (c); the reference rule is in the block chain in front
    of the paragraph rule; and the label `k` has a non-empty normal form that is a fixed point of
    `normalize_reference` under the configuration's case tables (the definition's key is normalised
    TWICE, the use's once — `Refs.normalize_idem` gives the fixed point for all tables with the closure
    conditions of `Props/C13.lean`, in particular for the real ones: `realTables_key`) -/
structure DefCfg (cfg : DocCfg) : Prop where
  link : LinkCfg cfg
  chain : ∃ pre post, cfg.blockChain = pre ++ Block.RuleId.reference :: post ∧
    Block.RuleId.paragraph ∉ pre ∧ Block.RuleId.reference ∉ pre
  keyNE : (Refs.normalize cfg.L cfg.U [107]).isEmpty = false
  keyIdem : Refs.normalize cfg.L cfg.U (Refs.normalize cfg.L cfg.U [107]) = Refs.normalize cfg.L cfg.U [107]

theorem map_ofNat_toNat (X : List Char) : (X.map Char.toNat).map Char.ofNat = X := by
  induction X with
  | nil => rfl
  | cons c t ih => simp only [List.map_cons, Char.ofNat_toNat, ih]

/-- **C12 (d), whole document.**  For every valid reference or escape `R` denoting `X`:
    `md.parse("[k]: </" ++ R ++ "> \"" ++ R ++ "\"\n\n[k]")` does not panic and is
    `Root[Paragraph[Link { url: normalize_link("/" ++ X), title: Some(X) }[Text "k"]]]` — no node for
    the definition; url and title are those of the inline forms (`reference_in_destination`,
    `reference_in_title`), i.e. the characters `R` denotes in paragraph text. -/
theorem reference_in_definition (cfg : DocCfg) (hcfg : DefCfg cfg) (R X : List Char)
    (h : Denotes cfg.entity R X) (hno : ∀ s, cfg.entity ('&' :: '#' :: s) = none) :
    ∃ t, parseDoc cfg ('[' :: 'k' :: ']' :: ':' :: ' ' :: '<' :: '/' ::
        (R ++ '>' :: ' ' :: '"' :: (R ++ ['"', '\n', '\n', '[', 'k', ']']))) = .ok t ∧
      IsLinkDoc t (Link.normalizeLink (Link.utf8 ('/' :: X))) (some X) ['k'] := by
  obtain ⟨pre, post, hchain, hpre, hpre'⟩ := hcfg.chain
  have hsrc : '[' :: 'k' :: ']' :: ':' :: ' ' :: '<' :: '/' ::
      (R ++ '>' :: ' ' :: '"' :: (R ++ ['"', '\n', '\n', '[', 'k', ']'])) =
      Link.C12X.defLine R ++ ['\n', '\n', '[', 'k', ']'] := by
    simp [Link.C12X.defLine]
  have hblock := Block.C12D.parseBlocks_def_use cfg.blockCfg pre post hchain hpre hpre' hcfg.link.para
    hcfg.link.nest (Link.C12X.defLine R) (Link.C12X.defLine R).tail rfl (Link.C12X.defLine_noTerm h)
    (Link.C12X.defLine_quick R) (Link.C12X.defLine_trim R) [107]
    (Link.normalizeLink (Link.utf8 ('/' :: X))) (some (X.map Char.toNat))
    (Link.C12X.refParse_defLine cfg.blockCfg h hno) hcfg.keyNE
  let key := Refs.normalize cfg.L cfg.U [107]
  let e : Refs.Entry := ⟨Link.normalizeLink (Link.utf8 ('/' :: X)), some (X.map Char.toNat)⟩
  have hrefs : (cfg.inlineCfg [(Refs.normalize cfg.L cfg.U key, e)]).refs =
      some [(Refs.normalize cfg.L cfg.U key, e)] := rfl
  have hlook : Refs.lookup (cfg.inlineCfg [(Refs.normalize cfg.L cfg.U key, e)]).normRef
      [(Refs.normalize cfg.L cfg.U key, e)] [('k' : Char).toNat] = some e := by
    show List.lookup key [(Refs.normalize cfg.L cfg.U key, e)] = some e
    rw [show Refs.normalize cfg.L cfg.U key = key from hcfg.keyIdem]
    simp [List.lookup]
  obtain ⟨r, r', hin⟩ := Inline.C12X.parseInline_bracket
    (cfg := cfg.inlineCfg [(Refs.normalize cfg.L cfg.U key, e)]) hcfg.link.inl hcfg.link.nest 'k' []
    labelChar_k (by intro x hx; simp at hx; subst hx; decide)
    [(0, Lines.byteLen (Link.C12X.defLine R) + 2)] ⟨⟨_, [], rfl⟩, by simp⟩ (some e.dest)
    (e.title.map (fun t => t.map Char.ofNat))
    (fun skip fuel st1 h1 h2 => Inline.C12X.afterLabel_ref _ skip fuel st1 'k' _ e h1 h2 hrefs hlook)
  have htitle : e.title.map (fun t => t.map Char.ofNat) = some X := by
    simp only [e, Option.map_some, map_ofNat_toNat]
  rw [htitle] at hin
  rw [hsrc]
  unfold parseDoc
  rw [hblock]
  exact afterBlocks_inlDoc cfg _ _ _ _ _ _ _ (.inl ⟨_, _, rfl⟩) ['k'] r r' (by simp) hin

/-! ## all five contexts together -/

/-- **C12, context agreement, whole document, all five contexts.**  For a configuration in the three
    classes (stock `cmark` is: `exCfg_agree`, `exCfg_fence`, `exCfg_def`) and every valid reference or
    escape `R` denoting `X`, `md.parse` shows the SAME `X`
      (a) in paragraph text, (b) in a link destination (behind `normalize_link`), (c) in a link
      title, (d) in destination and title of a reference definition, (e) in a fence info string. -/
theorem contexts_agree (cfg : DocCfg) (ha : AgreeCfg cfg) (hf : FenceCfg cfg) (hd : DefCfg cfg)
    (R X : List Char) (h : Denotes cfg.entity R X) (hno : ∀ s, cfg.entity ('&' :: '#' :: s) = none) :
    (∃ t, parseDoc cfg ('a' :: (R ++ ['b'])) = .ok t ∧ docAlt t = 'a' :: (X ++ ['b'])) ∧
    (∃ t, parseDoc cfg ('[' :: 'x' :: ']' :: '(' :: '<' :: '/' :: (R ++ ['>', ')'])) = .ok t ∧
      IsLinkDoc t (Link.normalizeLink (Link.utf8 ('/' :: X))) none ['x']) ∧
    (∃ t, parseDoc cfg ('[' :: 'x' :: ']' :: '(' :: '/' :: 'u' :: ' ' :: '"' :: (R ++ ['"', ')'])) = .ok t ∧
      IsLinkDoc t [47, 117] (some X) ['x']) ∧
    (∃ t, parseDoc cfg ('[' :: 'k' :: ']' :: ':' :: ' ' :: '<' :: '/' ::
        (R ++ '>' :: ' ' :: '"' :: (R ++ ['"', '\n', '\n', '[', 'k', ']']))) = .ok t ∧
      IsLinkDoc t (Link.normalizeLink (Link.utf8 ('/' :: X))) (some X) ['k']) ∧
    (∃ t f, parseDoc cfg ('~' :: '~' :: '~' :: ' ' :: R) = .ok t ∧ t.children = [f] ∧
      f.kind = .blk (.codeFence (' ' :: R) '~' 3 []) ∧
      Entity.unescapeAll cfg.entity (' ' :: R) = ' ' :: X) := by
  refine ⟨?_, reference_in_destination cfg hd.link R X h hno, reference_in_title cfg hd.link R X h hno,
    reference_in_definition cfg hd R X h hno, ?_⟩
  · obtain ⟨t, h1, _, h3⟩ := reference_in_paragraph cfg ha R X h
    exact ⟨t, h1, h3⟩
  · obtain ⟨t, f, h1, _, h3, h4, _, h6, _⟩ := reference_in_fence_info cfg hf R X h hno
    exact ⟨t, f, h1, h3, h4, h6⟩

/-! ## examples: the hypotheses are satisfiable; each one is necessary; the candidate exceptions
    agree (every witness below was run on the real crate: same urls / titles) -/

section Examples

def linkOf : Kind → Option (List Nat × Option (List Char))
  | .inl (.link u t) => some (u, t)
  | _ => none

/-- url and title of every `Link` of a tree, in pre-order -/
def linksOf (t : Node) : List (List Nat × Option (List Char)) := (kindsPre t).filterMap linkOf

theorem IsLinkDoc.links {t : Node} {url : List Nat} {title : Option (List Char)} {lab : List Char}
    (h : IsLinkDoc t url title lab) :
    linksOf t = [(url, title)] ∧ tags t = [.root, .p, .L, .T] ∧ docAlt t = lab := by
  refine ⟨by rw [linksOf, h.kindsPre]; rfl, ?_, by simp [docAlt_kindsPre, h.kindsPre, Kind.ownAlt]⟩
  obtain ⟨rr, ra, pr, pa, lr, la, xr, xa, rfl⟩ := h
  simp [tags, tagsList, Kind.tag]

/-- the stock configuration of `Props/Pipeline.lean` is in both classes, for every `max_nesting > 0`
    (1 included: the label is then tokenised by the loop's one-character fall-back), with and
    without `sourcepos` -/
theorem exCfg_link (sp : Bool) (mn : Nat) (h : 0 < mn) : LinkCfg (exCfg sp mn) := by
  refine ⟨h, by simp [exCfg], ⟨by simp [exCfg], by simp [exCfg], ?_⟩⟩
  intro mk csw hm
  simp [exCfg] at hm
  rcases hm with ⟨rfl, _⟩ | ⟨rfl, _⟩ | ⟨rfl, _⟩ <;> decide

theorem exCfg_def (sp : Bool) (mn : Nat) (h : 0 < mn) : DefCfg (exCfg sp mn) := by
  have hL : (exCfg sp mn).L = (exCfg true 0).L := rfl
  have hU : (exCfg sp mn).U = (exCfg true 0).U := rfl
  refine ⟨exCfg_link sp mn h,
    ⟨[.code, .fence, .blockquote, .hr, .list], [.heading, .lheading, .paragraph], rfl, by decide, by decide⟩,
    ?_, ?_⟩
  · rw [hL, hU]; decide
  · rw [hL, hU]; decide

theorem exCfg_image (sp : Bool) (mn : Nat) (h : 0 < mn) : ImageCfg (exCfg sp mn) := by
  refine ⟨h, by simp [exCfg], ⟨by simp [exCfg], by simp [exCfg], ?_⟩⟩
  intro mk csw hm
  simp [exCfg] at hm
  rcases hm with ⟨rfl, _⟩ | ⟨rfl, _⟩ | ⟨rfl, _⟩ <;> decide

/-- the stock `cmark` rule chains (block and inline, in the order of `Props/Pipeline.lean: exCfg`)
    with the SHIPPED tables: the entity table of the `entities` crate, the case tables of the linked
    Rust std; any `max_nesting > 0`, `sourcepos`, `lang_prefix`, emphasis nodes -/
structure StockCfg (cfg : DocCfg) : Prop where
  nest : 0 < cfg.maxNesting
  block : cfg.blockChain = (exCfg true 1).blockChain
  inline : cfg.inlineChain = (exCfg true 1).inlineChain
  entity : cfg.entity = Entity.tableLookup
  L : cfg.L = Refs.Lt
  U : cfg.U = Refs.Ut

/-- **C12, context agreement for the stock configuration with the shipped tables**: no hypothesis
    left but `R` being a valid reference of the shipped table / numeric reference / escape -/
theorem stock_contexts_agree (cfg : DocCfg) (hs : StockCfg cfg) (R X : List Char)
    (h : Denotes Entity.tableLookup R X) :
    (∃ t, parseDoc cfg ('a' :: (R ++ ['b'])) = .ok t ∧ docAlt t = 'a' :: (X ++ ['b'])) ∧
    (∃ t, parseDoc cfg ('[' :: 'x' :: ']' :: '(' :: '<' :: '/' :: (R ++ ['>', ')'])) = .ok t ∧
      IsLinkDoc t (Link.normalizeLink (Link.utf8 ('/' :: X))) none ['x']) ∧
    (∃ t, parseDoc cfg ('[' :: 'x' :: ']' :: '(' :: '/' :: 'u' :: ' ' :: '"' :: (R ++ ['"', ')'])) = .ok t ∧
      IsLinkDoc t [47, 117] (some X) ['x']) ∧
    (∃ t, parseDoc cfg ('[' :: 'k' :: ']' :: ':' :: ' ' :: '<' :: '/' ::
        (R ++ '>' :: ' ' :: '"' :: (R ++ ['"', '\n', '\n', '[', 'k', ']']))) = .ok t ∧
      IsLinkDoc t (Link.normalizeLink (Link.utf8 ('/' :: X))) (some X) ['k']) ∧
    (∃ t f, parseDoc cfg ('~' :: '~' :: '~' :: ' ' :: R) = .ok t ∧ t.children = [f] ∧
      f.kind = .blk (.codeFence (' ' :: R) '~' 3 []) ∧
      Entity.unescapeAll cfg.entity (' ' :: R) = ' ' :: X) := by
  have hemph : ∀ mk csw, Inline.RuleId.emph mk csw ∈ cfg.inlineChain → mk = '*' ∨ mk = '_' ∨ mk = '~' := by
    intro mk csw hm
    rw [hs.inline] at hm
    simp [exCfg] at hm
    rcases hm with ⟨rfl, _⟩ | ⟨rfl, _⟩ | ⟨rfl, _⟩ <;> simp
  have ha : AgreeCfg cfg := by
    refine ⟨⟨hs.nest, by rw [hs.block]; decide, ⟨by rw [hs.inline]; decide, by rw [hs.inline]; decide, ?_⟩⟩,
      by rw [hs.inline]; decide, ?_⟩
    · intro mk csw hm; rcases hemph mk csw hm with rfl | rfl | rfl <;> decide
    · intro mk csw hm; rcases hemph mk csw hm with rfl | rfl | rfl <;> decide
  have hf : FenceCfg cfg :=
    ⟨hs.nest, [.code], [.blockquote, .hr, .list, .reference, .heading, .lheading, .paragraph],
      by rw [hs.block]; rfl, by decide, by decide⟩
  have hd : DefCfg cfg := by
    refine ⟨⟨hs.nest, by rw [hs.block]; decide, ⟨by rw [hs.inline]; decide, by rw [hs.inline]; decide, ?_⟩⟩,
      ⟨[.code, .fence, .blockquote, .hr, .list], [.heading, .lheading, .paragraph], by rw [hs.block]; rfl,
        by decide, by decide⟩, ?_, ?_⟩
    · intro mk csw hm; rcases hemph mk csw hm with rfl | rfl | rfl <;> decide
    · rw [hs.L, hs.U]; decide +kernel
    · rw [hs.L, hs.U]; exact Refs.table_normalize_idem _
  exact contexts_agree cfg ha hf hd R X (hs.entity ▸ h) (by rw [hs.entity]; exact Entity.table_no_hash)

/-- the stock configuration with the shipped tables -/
def stockEx : DocCfg := { exCfg true 100 with entity := Entity.tableLookup, L := Refs.Lt, U := Refs.Ut }

theorem stockEx_stock : StockCfg stockEx := ⟨by decide, rfl, rfl, rfl, rfl, rfl⟩

/-- `&quot;` — the prime candidate for an exception inside a `"`-quoted title — denotes `"` in the
    shipped table, and the theorem gives the title `"` (and `"` in the four other contexts) -/
example : ∃ t, parseDoc stockEx "[x](/u \"&quot;\")".toList = .ok t ∧ IsLinkDoc t [47, 117] (some ['"']) ['x'] := by
  have h := stock_contexts_agree stockEx stockEx_stock "&quot;".toList ['"']
    (.named "quot".toList ['"'] (by decide) (by decide +kernel))
  exact h.2.2.1

/-- the key conditions of `DefCfg` hold for the case tables of the linked Rust std -/
theorem realTables_key :
    (Refs.normalize Refs.Lt Refs.Ut [107]).isEmpty = false ∧
    Refs.normalize Refs.Lt Refs.Ut (Refs.normalize Refs.Lt Refs.Ut [107]) =
      Refs.normalize Refs.Lt Refs.Ut [107] :=
  ⟨by decide +kernel, Refs.table_normalize_idem _⟩

/-- a minimal configuration (two block rules in the "wrong" textual order is fine as long as the
    reference rule comes first; two inline rules) is in the classes as well -/
example : DefCfg { exCfg true 1 with blockChain := [.reference, .paragraph], inlineChain := [.link, .text] } :=
  ⟨⟨by decide, by decide, ⟨by decide, by decide, by intro mk csw hm; simp at hm⟩⟩,
    ⟨[], [.paragraph], rfl, by decide, by decide⟩, by decide, by decide⟩

/-- (b), (c), (d) on `&amp;` through the theorems -/
example (sp : Bool) : ∃ t, parseDoc (exCfg sp 100) "[x](/u \"&amp;\")".toList = .ok t ∧
    linksOf t = [("/u".toList.map Char.toNat, some ['&'])] := by
  obtain ⟨t, h1, h2⟩ := reference_in_title _ (exCfg_link sp 100 (by decide)) _ _
    (.named "amp".toList ['&'] (by decide) (by cases sp <;> decide)) (exCfg_no_hash sp 100)
  exact ⟨t, h1, h2.links.1⟩

example (sp : Bool) : ∃ t, parseDoc (exCfg sp 100) "[x](</&amp;>)".toList = .ok t ∧
    linksOf t = [("/&".toList.map Char.toNat, none)] := by
  obtain ⟨t, h1, h2⟩ := reference_in_destination _ (exCfg_link sp 100 (by decide)) _ _
    (.named "amp".toList ['&'] (by decide) (by cases sp <;> decide)) (exCfg_no_hash sp 100)
  exact ⟨t, h1, by rw [h2.links.1]; decide +kernel⟩

example (sp : Bool) : ∃ t, parseDoc (exCfg sp 100) "[k]: </&amp;> \"&amp;\"\n\n[k]".toList = .ok t ∧
    linksOf t = [("/&".toList.map Char.toNat, some ['&'])] := by
  obtain ⟨t, h1, h2⟩ := reference_in_definition _ (exCfg_def sp 100 (by decide)) _ _
    (.named "amp".toList ['&'] (by decide) (by cases sp <;> decide)) (exCfg_no_hash sp 100)
  exact ⟨t, h1, by rw [h2.links.1]; decide +kernel⟩

/-- by evaluation: the numeric reference `&#65;` and the escape `\*` in the three contexts -/
example : (parseDoc (exCfg true 100) "[x](/u \"&#65;\\*\")".toList).toOption.map (fun t => (tags t, linksOf t)) =
    some ([.root, .p, .L, .T], [("/u".toList.map Char.toNat, some "A*".toList)]) := by decide +kernel
example : (parseDoc (exCfg true 100) "[x](</&#65;\\*>)".toList).toOption.map (fun t => (tags t, linksOf t)) =
    some ([.root, .p, .L, .T], [("/A*".toList.map Char.toNat, none)]) := by decide +kernel
example : (parseDoc (exCfg false 100) "[k]: </&#65;> \"\\*\"\n\n[k]".toList).toOption.map
      (fun t => (tags t, linksOf t)) =
    some ([.root, .p, .L, .T], [("/A".toList.map Char.toNat, some "*".toList)]) := by decide +kernel

/-- `max_nesting = 1`: the same tree -/
example : (parseDoc (exCfg false 1) "[x](/u \"\\*\")".toList).toOption.map (fun t => (tags t, linksOf t)) =
    some ([.root, .p, .L, .T], [("/u".toList.map Char.toNat, some "*".toList)]) := by decide +kernel

/-- THE CANDIDATE EXCEPTIONS AGREE.  `\"` and `&#34;` (`"`) inside a `"`-quoted title;
    `\>`, `\<`, `&#62;`, `&#60;` inside `<…>`; a reference that produces a blank (`&#32;`) or a line
    feed (`&#10;`) in a destination: the scanner never sees the decoded character, the url is the
    percent-encoded `"/" ++ X`.  (Real crate: titles `&quot;`, hrefs `/%3E` `/%3C` `/%3E` `/%3C`
    `/%20` `/%0A`.) -/
example : (parseDoc (exCfg false 100) "[x](/u \"\\\"&#34;\")".toList).toOption.map linksOf =
    some [("/u".toList.map Char.toNat, some "\"\"".toList)] := by decide +kernel
example : (parseDoc (exCfg false 100) "[x](</\\>\\<&#62;&#60;>)".toList).toOption.map linksOf =
    some [("/%3E%3C%3E%3C".toList.map Char.toNat, none)] := by decide +kernel
example : (parseDoc (exCfg false 100) "[x](</&#32;&#10;>)".toList).toOption.map linksOf =
    some [("/%20%0A".toList.map Char.toNat, none)] := by decide +kernel

/-- the other forms: `'…'` and `(…)` titles with the escapes of their own delimiters, the bare
    destination with `\(` `\)` (no effect on the parenthesis count) and a reference to a blank.
    (Real crate: titles `'`, `)`, `(`; hrefs `/()`, `/%20`.) -/
example : (parseDoc (exCfg false 100) "[x](/u '\\'&#39;')".toList).toOption.map linksOf =
    some [("/u".toList.map Char.toNat, some "''".toList)] := by decide +kernel
example : (parseDoc (exCfg false 100) "[x](/u (\\)\\(&#40;))".toList).toOption.map linksOf =
    some [("/u".toList.map Char.toNat, some ")((".toList)] := by decide +kernel
example : (parseDoc (exCfg false 100) "[x](/\\(\\)&#32;)".toList).toOption.map linksOf =
    some [("/()%20".toList.map Char.toNat, none)] := by decide +kernel

/-- through the theorems: the `(…)` title with `R = \)`, the bare destination with `R = \(` -/
example (sp : Bool) : ∃ t, parseDoc (exCfg sp 100) "[x](/u (\\)))".toList = .ok t ∧
    IsLinkDoc t [47, 117] (some [')']) ['x'] :=
  reference_in_title_any _ (exCfg_link sp 100 (by decide)) _ _ (.escape ')' (by decide))
    (exCfg_no_hash sp 100) '(' ')' (.inr (.inr ⟨rfl, rfl⟩))
example (sp : Bool) : ∃ t, parseDoc (exCfg sp 100) "[x](/\\()".toList = .ok t ∧
    linksOf t = [("/(".toList.map Char.toNat, none)] := by
  obtain ⟨t, h1, h2⟩ := reference_in_bare_destination _ (exCfg_link sp 100 (by decide)) _ _
    (.escape '(' (by decide)) (exCfg_no_hash sp 100)
  exact ⟨t, h1, by rw [h2.links.1]; decide +kernel⟩

/-- images: through the theorem on `&amp;`, and by evaluation -/
example (sp : Bool) : ∃ t, parseDoc (exCfg sp 100) "![x](/u \"&amp;\")".toList = .ok t ∧
    IsImageDoc t [47, 117] (some ['&']) ['x'] :=
  (reference_in_image _ (exCfg_image sp 100 (by decide)) _ _
    (.named "amp".toList ['&'] (by decide) (by cases sp <;> decide)) (exCfg_no_hash sp 100)).1
example : (parseDoc (exCfg true 100) "![x](</\\>&#65;>)".toList).toOption.map (fun t => (tags t, kindsPre t)) =
    some ([.root, .p, .I, .T], [.blk .root, .blk .paragraph,
      .inl (.image ("/%3EA".toList.map Char.toNat) none), .inl (.text ['x'])]) := by decide +kernel

/-- OUTSIDE the class (a name the table does not hold, a missing `;`): literal in title and
    destination — as in paragraph text and the info string (`Props/C12Doc.lean`) -/
example : (parseDoc (exCfg false 100) "[x](</&zz;> \"&zz;&#65\")".toList).toOption.map linksOf =
    some [("/&zz;".toList.map Char.toNat, some "&zz;&#65".toList)] := by decide +kernel

/-- NECESSARY `0 < max_nesting` -/
example : (parseDoc (exCfg false 0) "[x](/u \"t\")".toList).toOption.map tags = some [.root] := by
  decide +kernel

/-- NECESSARY the link rule: without it the text is literal -/
example : (parseDoc { exCfg false 100 with inlineChain := [.text, .escape, .entity] }
      "[x](/u \"t\")".toList).toOption.map (fun t => (tags t, docAlt t)) =
    some ([.root, .p, .T], "[x](/u \"t\")".toList) := by decide +kernel

/-- NECESSARY "no emphasis-like rule on `[`": such a (custom) rule listed before the link rule takes
    the bracket -/
example : (parseDoc { exCfg false 100 with inlineChain := [.emph '[' true, .text, .link] }
      "[x](/u \"t\")".toList).toOption.map linksOf = some [] := by decide +kernel

/-- NECESSARY for (d) "reference rule before paragraph rule": otherwise the definition line is
    paragraph text and `[k]` resolves to nothing -/
example : (parseDoc { exCfg false 100 with blockChain := [.paragraph, .reference] }
      "[k]: </a> \"t\"\n\n[k]".toList).toOption.map (fun t => (tags t, linksOf t)) =
    some ([.root, .p, .T, .p, .T], []) := by decide +kernel

/-- NECESSARY for (d) the fixed-point condition on the key: with case tables under which the normal
    form of `k` is not a fixed point (`k ↦ K`, `K ↦ L` on upper-casing, nothing on lower-casing) the
    definition is stored under `N(N("k")) = "L"`, the use looks up `N("k") = "K"`: no link -/
example : (parseDoc { exCfg false 100 with L := fun c => [c],
                                           U := fun c => if c = 107 then [75] else if c = 75 then [76] else [c] }
      "[k]: </a> \"t\"\n\n[k]".toList).toOption.map (fun t => (tags t, linksOf t)) =
    some ([.root, .p, .T], []) := by decide +kernel

end Examples

end MdIt.Pipeline
